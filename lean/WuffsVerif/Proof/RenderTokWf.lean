/-
C12, the Wuffs formatter: what `Tokenize` (the model) produces is well-formed — every token is
`wfTok` (except that the LAST token may be a string that runs to the end of the input without its
closing quote: `LooseStr`), every comment is `wfComment`, and the token lines do not decrease.
With `linesOK` the exception disappears, so the hypothesis `streamOK` of
`render_retokenizes_partial` follows from `tokenize src = some (toks, comments)` and `linesOK`.
Core Lean only.
-/
import WuffsVerif.Proof.RenderShape

namespace WuffsVerif.Render
open WuffsVerif.FmtToken WuffsVerif.Gen.C12

/-! ### tables -/

theorem squiggles_in_punct :
    squiggles.all (fun e => punctToks.any (fun p => p.1 == e.2 && p.2.1 == [e.1])) = true := by
  decide +kernel

theorem lexers_in_punct :
    lexers.all (fun e => e.2.all (fun x => punctToks.any (fun p => p.1 == x.2 && p.2.1 == e.1 :: x.1))) = true := by
  decide +kernel

theorem no_builtin_starts_with_quote :
    builtins.all (fun b => match b.2.1 with | c :: _ => !(c == 34 || c == 39) | [] => true) = true := by
  decide +kernel

theorem semicolon_wf (l : Nat) : wfTok ⟨idSemicolon, [59], l⟩ = true := by
  unfold wfTok wfPunct
  simp only
  have : punctToks.any (fun e => e.1 == idSemicolon && e.2.1 == [59]) = true := by decide +kernel
  rw [this]; rfl

/-! ### one token -/

/-- a string token (possibly without its closing quote) -/
def LooseStr (t : Tok) : Prop :=
  t.id = (intern t.text).1 ∧ ∃ q σ, t.text = q :: σ ∧ (q == 34 || q == 39) = true

theorem looseStr_mk (s : Bytes) (l : Nat) (q : UInt8) (σ : Bytes) (hs : s = q :: σ)
    (hq : (q == 34 || q == 39) = true) : LooseStr ⟨(intern s).1, s, l⟩ :=
  ⟨rfl, q, σ, hs, hq⟩

/-- such a token asks for an implicit semicolon and is not a semicolon -/
theorem looseStr_facts {t : Tok} (h : LooseStr t) : t.implicitSemicolon = true ∧ t.id ≠ idSemicolon := by
  obtain ⟨hid, q, σ, htxt, hq⟩ := h
  have hnone : builtinByName t.text = none := by
    cases hb : builtinByName t.text with
    | none => rfl
    | some r =>
      exfalso
      obtain ⟨b, hbm, hbt, _, _⟩ := builtinByName_sound hb
      have := List.all_eq_true.mp no_builtin_starts_with_quote b hbm
      rw [hbt, htxt] at this
      simp only [hq, Bool.not_true] at this
      exact absurd this (by simp)
  have hid' : t.id = nBuiltInIDs := by
    rw [hid]
    unfold intern
    rw [hnone, htxt]
  constructor
  · unfold Tok.implicitSemicolon
    rw [hid']
    simp
  · rw [hid']; decide

/-- `scanString` either finds the closing quote or runs to the end -/
theorem scanString_spec (q : UInt8) : ∀ (s b a : Bytes), scanString q s = some (b, a) →
    s = b ++ a ∧ (strBody q b = true ∨ a = []) := by
  intro s
  induction s with
  | nil =>
    intro b a h
    simp only [scanString, Option.some.injEq, Prod.mk.injEq] at h
    obtain ⟨rfl, rfl⟩ := h
    exact ⟨rfl, Or.inr rfl⟩
  | cons c cs ih =>
    intro b a h
    rw [scanString] at h
    by_cases h1 : (c == q) = true
    · simp only [h1, ↓reduceIte, Option.some.injEq, Prod.mk.injEq] at h
      obtain ⟨rfl, rfl⟩ := h
      refine ⟨rfl, Or.inl ?_⟩
      unfold strBody
      simp [h1]
    · simp only [h1, Bool.false_eq_true, ↓reduceIte] at h
      have hrec : ∀ (h' : (scanString q cs).map (fun r => (c :: r.1, r.2)) = some (b, a))
          (hstep : ∀ b', strBody q b' = true → strBody q (c :: b') = true),
          c :: cs = b ++ a ∧ (strBody q b = true ∨ a = []) := by
        intro h' hstep
        simp only [Option.map_eq_some_iff, Prod.mk.injEq] at h'
        obtain ⟨⟨b', a'⟩, hs, rfl, rfl⟩ := h'
        obtain ⟨e1, e2⟩ := ih b' a' hs
        refine ⟨by rw [e1]; rfl, ?_⟩
        rcases e2 with e2 | e2
        · exact Or.inl (hstep b' e2)
        · exact Or.inr e2
      by_cases h2 : (c == 92) = true
      · simp only [h2, ↓reduceIte] at h
        by_cases hq : (q == 34) = true
        · simp [hq] at h
        · simp only [hq, Bool.false_eq_true, ↓reduceIte] at h
          apply hrec h
          intro b' hb'
          have hq' : q ≠ 34 := by simpa using hq
          unfold strBody
          simp [h1, h2, hq', hb']
      · simp only [h2, Bool.false_eq_true, ↓reduceIte] at h
        by_cases h3 : (c == 10) = true
        · simp [h3] at h
        · simp only [h3, Bool.false_eq_true, ↓reduceIte] at h
          by_cases h4 : c < 32
          · simp [h4] at h
          · simp only [h4, ↓reduceIte] at h
            apply hrec h
            intro b' hb'
            unfold strBody
            simp [h1, h2, h3, h4, hb']

theorem mem_squiggles {c : UInt8} {id : Nat} (h : squiggleOf c = some id) : (c, id) ∈ squiggles := by
  unfold squiggleOf at h
  simp only [Option.map_eq_some_iff] at h
  obtain ⟨e, hf, rfl⟩ := h
  have hm := List.mem_of_find?_eq_some hf
  have hp := List.find?_some hf
  have : e.1 = c := by simpa using hp
  rw [← this]
  exact hm

theorem lexersOf_entry {c : UInt8} {x : Bytes × Nat} (h : x ∈ lexersOf c) : ∃ e ∈ lexers, e.1 = c ∧ x ∈ e.2 := by
  unfold lexersOf at h
  cases hf : lexers.find? (fun e => e.1 == c) with
  | none => rw [hf] at h; simp at h
  | some e =>
    rw [hf] at h
    have hp := List.find?_some hf
    exact ⟨e, List.mem_of_find?_eq_some hf, by simpa using hp, h⟩

theorem wfTok_of_word (s : Bytes) (l : Nat) (h : wfWordText s = true) : wfTok ⟨(intern s).1, s, l⟩ = true := by
  unfold wfTok wfPlain; simp [h]

theorem wfTok_of_num (s : Bytes) (l : Nat) (h : wfNumText s = true) : wfTok ⟨(intern s).1, s, l⟩ = true := by
  unfold wfTok wfPlain; simp [h]

theorem wfTok_of_str (s : Bytes) (l : Nat) (h : wfStrText s = true) : wfTok ⟨(intern s).1, s, l⟩ = true := by
  unfold wfTok wfPlain; simp [h]

/-- what `lexTok` reads is a well-formed token — or a string running to the end of the input -/
theorem lexTok_wf (c : UInt8) (rest : Bytes) (id : Nat) (text after : Bytes) (l : Nat)
    (h : lexTok c rest = some (id, text, after)) :
    wfTok ⟨id, text, l⟩ = true ∨ (LooseStr ⟨id, text, l⟩ ∧ after = []) := by
  by_cases h1 : (c == 34 || c == 39) = true
  · cases hs : scanString c rest with
    | none => unfold lexTok at h; simp only [h1, ↓reduceIte, hs] at h; exact absurd h (by simp)
    | some p =>
      obtain ⟨b, a⟩ := p
      obtain ⟨hsplit, hcl⟩ := scanString_spec c rest b a hs
      generalize hE : (c == 39 && decide (a.length > 2) && (a.head? == some 98 || a.head? == some 108) &&
        a[1]? == some 101) = E
      rw [lexTok_str c rest b a h1 hs E hE] at h
      cases E with
      | false =>
        simp only [Bool.false_eq_true, ↓reduceIte, List.append_nil, Bool.not_false, Bool.and_true] at h
        by_cases hlen : (c :: b).length > maxTokenSize
        · rw [if_pos hlen] at h; exact absurd h (by simp)
        · rw [if_neg hlen] at h
          generalize hC : (c == 39 && (match unescapeSQ (c :: b) with
            | none => true
            | some n => decide (n > 1))) = Cnd at h
          cases Cnd with
          | true => simp at h
          | false =>
            simp only [Bool.false_eq_true, ↓reduceIte, Option.some.injEq, Prod.mk.injEq] at h
            obtain ⟨rfl, rfl, rfl⟩ := h
            rcases hcl with hcl | hcl
            · left
              apply wfTok_of_str
              unfold wfStrText
              have hlen' : decide ((c :: b).length ≤ maxTokenSize) = true := by
                simp only [decide_eq_true_eq]; omega
              rw [hlen', Bool.true_and]
              simp only
              by_cases hq : (c == 34) = true
              · simp [hq]
                have : c = 34 := by simpa using hq
                subst this; exact hcl
              · have hq39 : (c == 39) = true := by simpa [hq] using h1
                have hc39 : c = 39 := by simpa using hq39
                subst hc39
                have hsq : sqOK (39 :: b) false = true := by
                  unfold sqOK
                  simp only [beq_self_eq_true, Bool.true_and] at hC
                  cases hu : unescapeSQ (39 :: b) with
                  | none => rw [hu] at hC; exact absurd hC (by simp)
                  | some n =>
                    rw [hu] at hC
                    simp only at hC
                    simp [hC]
                simp only [show ((39 : UInt8) == 34) = false from by decide, beq_self_eq_true,
                  Bool.false_eq_true, ↓reduceIte, hcl, hsq, Bool.and_self, Bool.true_or]
            · right
              subst hcl
              exact ⟨looseStr_mk (c :: b) l c b (Eq.refl _) h1, Eq.refl _⟩
      | true =>
        have hc39 : c = 39 := by
          cases hx : (c == 39) with
          | true => simpa using hx
          | false => simp [hx] at hE
        subst hc39
        have hE' := hE
        simp only [beq_self_eq_true, Bool.true_and, Bool.and_eq_true, decide_eq_true_eq,
          Bool.or_eq_true, beq_iff_eq] at hE'
        obtain ⟨⟨hal, hah⟩, ha1⟩ := hE'
        have htake : a.take 2 = [98, 101] ∨ a.take 2 = [108, 101] := by
          match a, hal, hah, ha1 with
          | x :: y :: z :: r, _, hah, ha1 =>
            simp only [List.head?_cons, Option.some.injEq] at hah
            simp only [List.getElem?_cons_succ, List.getElem?_cons_zero, Option.some.injEq] at ha1
            subst ha1
            rcases hah with rfl | rfl
            · left; rfl
            · right; rfl
        have hane : a ≠ [] := by intro h0; rw [h0] at hal; simp at hal
        simp only [↓reduceIte, Bool.not_true, Bool.and_false, beq_self_eq_true, Bool.true_and] at h
        by_cases hlen : (39 :: b ++ List.take 2 a).length > maxTokenSize
        · rw [if_pos hlen] at h; exact absurd h (by simp)
        · rw [if_neg hlen] at h
          cases hu : unescapeSQ (39 :: b ++ List.take 2 a) with
          | none => rw [hu] at h; simp at h
          | some n =>
            rw [hu] at h
            simp only [Bool.false_eq_true, ↓reduceIte, Option.some.injEq, Prod.mk.injEq] at h
            obtain ⟨rfl, rfl, rfl⟩ := h
            rcases hcl with hcl | hcl
            · left
              apply wfTok_of_str
              have hbody : ∀ sfx, sfx = [98, 101] ∨ sfx = [108, 101] →
                  List.drop ((b ++ sfx).length - 2) (b ++ sfx) = sfx ∧
                  List.take ((b ++ sfx).length - 2) (b ++ sfx) = b := by
                intro sfx hs'
                have hl : sfx.length = 2 := by rcases hs' with rfl | rfl <;> rfl
                have e : (b ++ sfx).length - 2 = b.length := by simp [hl]
                rw [e]
                simp
              unfold wfStrText
              have hlen' : decide ((39 :: b ++ List.take 2 a).length ≤ maxTokenSize) = true := by
                simp only [decide_eq_true_eq]; omega
              rw [hlen', Bool.true_and]
              simp only [List.cons_append, show ((39 : UInt8) == 34) = false from by decide,
                Bool.false_eq_true, ↓reduceIte, beq_self_eq_true]
              obtain ⟨hd, ht⟩ := hbody _ htake
              rw [hd, ht, hcl]
              have hsfx : (List.take 2 a == [98, 101] || List.take 2 a == [108, 101]) = true := by
                rcases htake with h | h <;> simp [h]
              have hsq : sqOK (39 :: (b ++ List.take 2 a)) true = true := by
                unfold sqOK
                simp only [List.cons_append] at hu
                rw [hu]
                simp
              simp [hsfx, hsq]
            · exact absurd hcl hane
  · unfold lexTok at h
    simp only [h1, Bool.false_eq_true, ↓reduceIte] at h
    left
    by_cases h2 : alpha c = true
    · simp only [h2, ↓reduceIte] at h
      split at h
      · exact absurd h (by simp)
      · rename_i hlen
        simp only [Option.some.injEq, Prod.mk.injEq] at h
        obtain ⟨rfl, rfl, rfl⟩ := h
        apply wfTok_of_word
        unfold wfWordText
        simp only [h2, Bool.true_and, List.all_takeWhile, decide_eq_true_eq]
        omega
    · simp only [h2, Bool.false_eq_true, ↓reduceIte] at h
      by_cases h3 : numeric c = true
      · simp only [h3, ↓reduceIte] at h
        cases hnp : numPre c rest with
        | none => rw [hnp] at h; exact absurd h (by simp)
        | some p =>
          obtain ⟨pre, isDigit⟩ := p
          rw [hnp] at h
          simp only at h
          split at h
          · exact absurd h (by simp)
          · rename_i hlen
            split at h
            · exact absurd h (by simp)
            · rename_i hchk
              simp only [Option.some.injEq, Prod.mk.injEq] at h
              obtain ⟨rfl, rfl, rfl⟩ := h
              have hcls : numCls c (pre ++ List.takeWhile isDigit (List.drop pre.length rest)) = true := by
                unfold numPre at hnp
                cases rest with
                | nil =>
                  simp only [Option.some.injEq, Prod.mk.injEq] at hnp
                  obtain ⟨rfl, rfl⟩ := hnp
                  simp [numCls]
                | cons nx r =>
                  simp only at hnp
                  by_cases c1 : (c == 48 && (nx == 120 || nx == 88)) = true
                  · simp only [c1, ↓reduceIte, Option.some.injEq, Prod.mk.injEq] at hnp
                    obtain ⟨rfl, rfl⟩ := hnp
                    simp [numCls, c1]
                  · simp only [c1, Bool.false_eq_true, ↓reduceIte] at hnp
                    by_cases c2 : (c == 48 && (nx == 98 || nx == 66)) = true
                    · simp only [c2, ↓reduceIte, Option.some.injEq, Prod.mk.injEq] at hnp
                      obtain ⟨rfl, rfl⟩ := hnp
                      simp [numCls, c1, c2]
                    · simp only [c2, Bool.false_eq_true, ↓reduceIte] at hnp
                      by_cases c3 : (c == 48 && numeric nx) = true
                      · simp [c3] at hnp
                      · simp only [c3, Bool.false_eq_true, ↓reduceIte, Option.some.injEq, Prod.mk.injEq] at hnp
                        obtain ⟨rfl, rfl⟩ := hnp
                        simp only [List.nil_append, List.length_nil, List.drop_zero]
                        rw [List.takeWhile_cons]
                        split
                        · unfold numCls
                          simp only [c1, c2, c3, Bool.false_eq_true, ↓reduceIte]
                          rename_i hnx
                          simp [hnx]
                        · rfl
              have : wfNumText (c :: pre ++ List.takeWhile isDigit (List.drop pre.length rest)) = true := by
                unfold wfNumText
                have hl : decide ((c :: pre ++ List.takeWhile isDigit (List.drop pre.length rest)).length ≤ maxTokenSize) = true := by
                  simp only [decide_eq_true_eq]; omega
                have hk : checkNumericUnderscores (c :: pre ++ List.takeWhile isDigit (List.drop pre.length rest)) = true := by
                  simpa using hchk
                simp only [List.cons_append] at hl hk ⊢
                rw [hl, hk, h3, hcls]
                rfl
              exact wfTok_of_num _ l this
      · simp only [h3, Bool.false_eq_true, ↓reduceIte] at h
        cases hlp : lexPunct c rest with
        | none => rw [hlp] at h; exact absurd h (by simp)
        | some p =>
          obtain ⟨pid, n⟩ := p
          rw [hlp] at h
          simp only [Option.some.injEq, Prod.mk.injEq] at h
          obtain ⟨rfl, rfl, rfl⟩ := h
          unfold wfTok wfPunct
          simp only
          have : punctToks.any (fun e => e.1 == pid && e.2.1 == (c :: rest).take n) = true := by
            unfold lexPunct at hlp
            cases hsq : squiggleOf c with
            | some sid =>
              rw [hsq] at hlp
              simp only [Option.some.injEq, Prod.mk.injEq] at hlp
              obtain ⟨rfl, rfl⟩ := hlp
              have := List.all_eq_true.mp squiggles_in_punct _ (mem_squiggles hsq)
              simpa using this
            | none =>
              rw [hsq] at hlp
              simp only [Option.map_eq_some_iff, Prod.mk.injEq] at hlp
              obtain ⟨x, hf, rfl, rfl⟩ := hlp
              have hxm := List.mem_of_find?_eq_some hf
              have hpb := List.find?_some hf
              have hpre : x.1 <+: rest := List.isPrefixOf_iff_prefix.mp hpb
              obtain ⟨e, hem, hec, hxe⟩ := lexersOf_entry hxm
              have := List.all_eq_true.mp (List.all_eq_true.mp lexers_in_punct e hem) x hxe
              rw [hec] at this
              have htake : (c :: rest).take (x.1.length + 1) = c :: x.1 := by
                obtain ⟨u, hu⟩ := hpre
                rw [← hu]
                simp
              rw [htake]
              exact this
          rw [this]; rfl

/-! ### the loop -/

theorem tokenizeLoop_comment (f : Nat) (rest' : Bytes) (l : Nat) (T : List Tok) (C : Array Bytes) :
    tokenizeLoop (f + 1) (47 :: 47 :: rest') l T C =
      tokenizeLoop f ((47 :: rest').dropWhile (· != 10)) l T
        (setComment C l (47 :: (47 :: rest').takeWhile (· != 10))) := by
  rw [tokenizeLoop.eq_def]
  simp only [show ¬ ((47 : UInt8) ≤ 32) from by decide, ↓reduceIte,
    show ((47 : UInt8) == 34 || (47 : UInt8) == 39) = false from by decide,
    show alpha 47 = false from by decide, show numeric 47 = false from by decide,
    Bool.false_eq_true, List.head?_cons, beq_self_eq_true, Bool.and_self]

/-- the accumulator of `Tokenize` on line `l` -/
structure AccInv (l : Nat) (T : List Tok) (C : Array Bytes) : Prop where
  wf : ∀ t ∈ T, wfTok t = true
  cm : ∀ c ∈ C.toList, wfComment c = true
  le : ∀ t ∈ T, t.line ≤ l
  sorted : T.Pairwise (fun a b => b.line ≤ a.line)

/-- what `Tokenize` returns -/
def TokResult (r : List Tok × Array Bytes) : Prop :=
  wfComments r.2 ∧ SortedLines r.1 ∧
    ((∀ t ∈ r.1, wfTok t = true) ∨
      ∃ init last, r.1 = init ++ [last] ∧ (∀ t ∈ init, wfTok t = true) ∧ LooseStr last)

theorem AccInv.push {l : Nat} {T : List Tok} {C : Array Bytes} (h : AccInv l T C) (t : Tok)
    (ht : wfTok t = true) (hl : t.line = l) : AccInv l (t :: T) C where
  wf := fun x hx => by rcases List.mem_cons.mp hx with rfl | hx; exact ht; exact h.wf x hx
  cm := h.cm
  le := fun x hx => by rcases List.mem_cons.mp hx with rfl | hx; omega; exact h.le x hx
  sorted := List.pairwise_cons.mpr ⟨fun x hx => by rw [hl]; exact h.le x hx, h.sorted⟩

theorem AccInv.mono {l : Nat} {T : List Tok} {C : Array Bytes} (h : AccInv l T C) : AccInv (l + 1) T C where
  wf := h.wf
  cm := h.cm
  le := fun x hx => Nat.le_succ_of_le (h.le x hx)
  sorted := h.sorted

theorem AccInv.result {l : Nat} {T : List Tok} {C : Array Bytes} (h : AccInv l T C) :
    wfComments C ∧ SortedLines T.reverse ∧ ∀ t ∈ T.reverse, wfTok t = true := by
  refine ⟨h.cm, ?_, fun t ht => h.wf t (List.mem_reverse.mp ht)⟩
  unfold SortedLines
  rw [List.pairwise_reverse]
  exact h.sorted

theorem wfComment_setComment (C : Array Bytes) (l : Nat) (text : Bytes) (hC : ∀ c ∈ C.toList, wfComment c = true)
    (ht : wfComment text = true) : ∀ c ∈ (setComment C l text).toList, wfComment c = true := by
  intro c hc
  unfold setComment at hc
  simp only [Array.toList_push, Array.toList_append, Array.toList_replicate, List.append_assoc,
    List.mem_append, List.mem_replicate, List.mem_singleton] at hc
  rcases hc with hc | ⟨_, rfl⟩ | rfl
  · exact hC c hc
  · rfl
  · exact ht

theorem tokenizeLoop_wf : ∀ (f : Nat) (s : Bytes) (l : Nat) (T : List Tok) (C : Array Bytes)
    (r : List Tok × Array Bytes), tokenizeLoop f s l T C = some r → AccInv l T C → TokResult r := by
  intro f
  induction f with
  | zero => intro s l T C r h; rw [tokenizeLoop.eq_def] at h; exact absurd h (by simp)
  | succ f ih =>
    intro s l T C r h hinv
    cases s with
    | nil =>
      rw [tokenizeLoop.eq_def] at h
      simp only [Option.some.injEq] at h
      subst h
      obtain ⟨h1, h2, h3⟩ := hinv.result
      exact ⟨h1, h2, Or.inl h3⟩
    | cons c rest =>
      by_cases hc : c ≤ 32
      · rw [tokenizeLoop.eq_def] at h
        simp only [hc, ↓reduceIte] at h
        by_cases hnl : (c == 10) = true
        · simp only [hnl, ↓reduceIte] at h
          by_cases hml : (l == maxLine) = true
          · simp [hml] at h
          · simp only [hml, Bool.false_eq_true, ↓reduceIte] at h
            refine ih _ _ _ _ _ h ?_
            cases T with
            | nil => exact hinv.mono
            | cons t ts =>
              simp only
              split
              · exact (hinv.push ⟨idSemicolon, [59], l⟩ (semicolon_wf l) rfl).mono
              · exact hinv.mono
        · simp only [hnl, Bool.false_eq_true, ↓reduceIte] at h
          exact ih _ _ _ _ _ h hinv
      · by_cases hcom : commentStart c rest = true
        · unfold commentStart at hcom
          rw [Bool.and_eq_true] at hcom
          have hc47 : c = 47 := by simpa using hcom.1
          subst hc47
          cases rest with
          | nil => simp at hcom
          | cons d rest' =>
            have hd : d = 47 := by simpa using hcom.2
            subst hd
            rw [tokenizeLoop_comment] at h
            refine ih _ _ _ _ _ h ?_
            refine ⟨hinv.wf, ?_, hinv.le, hinv.sorted⟩
            apply wfComment_setComment C l _ hinv.cm
            rw [List.takeWhile_cons]
            simp only [show ((47 : UInt8) != 10) = true from by decide, ↓reduceIte]
            unfold wfComment
            simp only [List.all_takeWhile]
        · have hcom' : commentStart c rest = false := by simpa using hcom
          rw [tokenizeLoop_tok' f c rest l T C hc hcom'] at h
          cases hlex : lexTok c rest with
          | none => rw [hlex] at h; exact absurd h (by simp)
          | some p =>
            obtain ⟨id, text, after⟩ := p
            rw [hlex, obind_some] at h
            simp only at h
            rcases lexTok_wf c rest id text after l hlex with hw | ⟨hloose, hafter⟩
            · exact ih _ _ _ _ _ h (hinv.push ⟨id, text, l⟩ hw rfl)
            · subst hafter
              cases f with
              | zero => rw [tokenizeLoop.eq_def] at h; exact absurd h (by simp)
              | succ f' =>
                rw [tokenizeLoop.eq_def] at h
                simp only [Option.some.injEq] at h
                subst h
                obtain ⟨h1, h2, h3⟩ := hinv.result
                refine ⟨h1, ?_, Or.inr ⟨T.reverse, ⟨id, text, l⟩, by simp, h3, hloose⟩⟩
                unfold SortedLines
                simp only [List.reverse_cons]
                rw [List.pairwise_append]
                refine ⟨h2, List.pairwise_singleton _ _, ?_⟩
                intro a ha b hb
                simp only [List.mem_singleton] at hb
                subst hb
                exact hinv.le a (List.mem_reverse.mp ha)

/-! ### with `linesOK`, the last token is not a string without its closing quote -/

theorem linesOK_last : ∀ (f : Nat) (ts : List Tok) (last : Tok), ts.length < f → linesOK f ts = true →
    ts.getLast? = some last → ∃ g, lineOK g = true ∧ g.getLast? = some last := by
  intro f
  induction f with
  | zero => intro ts last h; omega
  | succ f ih =>
    intro ts last hlen hok hlast
    cases ts with
    | nil => simp at hlast
    | cons t0 rest =>
      rw [linesOK, Bool.and_eq_true] at hok
      have hsplit : t0 :: rest = (t0 :: rest.takeWhile (·.line == t0.line)) ++ rest.dropWhile (·.line == t0.line) := by
        simp
      rw [hsplit, List.getLast?_append] at hlast
      cases hd : (rest.dropWhile (·.line == t0.line)).getLast? with
      | none =>
        rw [hd] at hlast
        simp only [Option.none_or] at hlast
        exact ⟨_, hok.1, hlast⟩
      | some x =>
        rw [hd] at hlast
        simp only [Option.some_or, Option.some.injEq] at hlast
        subst hlast
        have hl : (rest.dropWhile (·.line == t0.line)).length < f := by
          have := (List.dropWhile_suffix (fun a : Tok => a.line == t0.line) (l := rest)).length_le
          simp only [List.length_cons] at hlen
          omega
        exact ih _ _ hl hok.2 hd

theorem lineOK_not_loose (g : List Tok) (last : Tok) (hg : g.getLast? = some last) (hl : LooseStr last) :
    lineOK g = false := by
  obtain ⟨himp, hid⟩ := looseStr_facts hl
  have hne : (last.id == idSemicolon) = false := by simpa using hid
  have hrev : g.reverse = last :: (g.reverse).tail := by
    have : g.reverse.head? = some last := by rw [List.head?_reverse]; exact hg
    cases hr : g.reverse with
    | nil => rw [hr] at this; simp at this
    | cons a as => rw [hr] at this; simp only [List.head?_cons, Option.some.injEq] at this; rw [this]; rfl
  have hstrip : (stripSemicolons g).1 = g := by
    unfold stripSemicolons
    simp only
    rw [hrev, List.dropWhile_cons]
    simp only [hne, Bool.false_eq_true, ↓reduceIte]
    rw [← hrev, List.reverse_reverse]
  unfold lineOK
  simp only [hstrip, hg, himp, ↓reduceIte, Nat.sub_self]
  rfl

/-- `Tokenize`'s result satisfies the token / comment / sortedness part of `streamOK` whenever it
satisfies `linesOK`. -/
theorem tokenize_wf (src : Bytes) (toks : List Tok) (comments : Array Bytes)
    (h : tokenize src = some (toks, comments)) (hl : linesOK (toks.length + 1) toks = true) :
    (∀ t ∈ toks, wfTok t = true) ∧ wfComments comments ∧ SortedLines toks := by
  unfold FmtToken.tokenize at h
  obtain ⟨h1, h2, h3⟩ := tokenizeLoop_wf _ _ _ _ _ _ h
    ⟨by intro t ht; simp at ht, by intro c hc; simp at hc, by intro t ht; simp at ht, List.Pairwise.nil⟩
  refine ⟨?_, h1, h2⟩
  rcases h3 with h3 | ⟨init, last, hsplit, _, hloose⟩
  · exact h3
  · exfalso
    simp only at hsplit
    obtain ⟨g, hg1, hg2⟩ := linesOK_last _ toks last (by omega) hl (by rw [hsplit]; simp)
    rw [lineOK_not_loose g last hg2 hloose] at hg1
    exact absurd hg1 (by simp)

end WuffsVerif.Render
