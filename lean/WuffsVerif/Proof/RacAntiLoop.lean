/-
Helper lemmas for C13: in the tree built by `gather`, the size of a node (what `writeIndex` writes as
its DPtrMax) strictly decreases from every branch to each of its branch children — the second
alternative of the RAC spec rule that rules out infinite loops.
-/
import WuffsVerif.Proof.RacGather
set_option linter.unusedSimpArgs false
set_option linter.unusedVariables false
namespace WuffsVerif.Rac

mutual
/-- sizes are positive, a branch's size is the sum of its children's, and the size (which is what
`writeIndex` writes as `DPtrMax`) strictly decreases from every branch to each of its branch children -/
def WNode.Dec : WNode → Prop
  | .mk d cs _ _ _ _ _ => d > 0 ∧ (cs ≠ [] → d = (cs.map WNode.dRangeSize).sum) ∧ DecList d cs
def DecList (d : Nat) : List WNode → Prop
  | [] => True
  | c :: cs => c.Dec ∧ (c.isBranch = true → c.dRangeSize < d) ∧ DecList d cs
end

theorem decList_iff (d : Nat) (cs : List WNode) :
    DecList d cs ↔ ∀ c ∈ cs, c.Dec ∧ (c.isBranch = true → c.dRangeSize < d) := by
  induction cs with
  | nil => simp [DecList]
  | cons c cs ih =>
    simp only [DecList, ih, List.mem_cons, forall_eq_or_imp]
    constructor
    · rintro ⟨a, b, c'⟩; exact ⟨⟨a, b⟩, c'⟩
    · rintro ⟨⟨a, b⟩, c'⟩; exact ⟨a, b, c'⟩

theorem dec_pos (n : WNode) (h : n.Dec) : n.dRangeSize > 0 := by
  cases n with
  | mk d cs rs col s t c => simp only [WNode.Dec] at h; exact h.1

theorem sum_pos_of_mem (l : List WNode) (hpos : ∀ c ∈ l, c.dRangeSize > 0) (hne : l ≠ []) :
    (l.map WNode.dRangeSize).sum > 0 := by
  cases l with
  | nil => exact absurd rfl hne
  | cons a as =>
    simp only [List.map_cons, List.sum_cons]
    have := hpos a (by simp); omega

theorem lt_sum_of_two (l : List WNode) (hpos : ∀ c ∈ l, c.dRangeSize > 0) (h2 : l.length ≥ 2) :
    ∀ c ∈ l, c.dRangeSize < (l.map WNode.dRangeSize).sum := by
  induction l with
  | nil => simp at h2
  | cons a as ih =>
    intro c hc
    simp only [List.map_cons, List.sum_cons]
    have hne : as ≠ [] := by intro h; simp [h] at h2
    have hsum := sum_pos_of_mem as (fun x hx => hpos x (by simp [hx])) hne
    rcases List.mem_cons.mp hc with h | h
    · rw [h]; omega
    · by_cases h3 : as.length ≥ 2
      · have := ih (fun x hx => hpos x (by simp [hx])) h3 c h
        omega
      · -- `as = [c]`
        have : as = [c] := by
          cases as with
          | nil => exact absurd rfl hne
          | cons b bs =>
            cases bs with
            | nil => simp at h; try simp [h]
            | cons b2 bs2 => simp at h3
        rw [this]
        simp only [List.map_cons, List.map_nil, List.sum_cons, List.sum_nil]
        have := hpos a (by simp); omega

theorem makeBranch_dec (children : List WNode) (res : List Nat) (hne : children ≠ [])
    (hdec : ∀ c ∈ children, c.Dec)
    (h2 : children.length ≥ 2 ∨ ∀ c ∈ children, c.isBranch = false) :
    (makeBranch children res).Dec := by
  unfold makeBranch
  simp only [WNode.Dec]
  have hpos : ∀ c ∈ children, c.dRangeSize > 0 := fun c hc => dec_pos c (hdec c hc)
  refine ⟨sum_pos_of_mem children hpos hne, fun _ => trivial, ?_⟩
  rw [decList_iff]
  intro c hc
  refine ⟨hdec c hc, fun hb => ?_⟩
  rcases h2 with h | h
  · exact lt_sum_of_two children hpos h c hc
  · rw [h c hc] at hb; exact absurd hb (by simp)

/-- second invariant of the `gather` loop, on top of `GInv` -/
structure DInv (st : GState) : Prop where
  d1 : ∀ o ∈ st.cur, o.Dec
  d2 : ∀ n ∈ st.newNodes, n.Dec

theorem gatherStep_dinv (budget : Nat) (hb : 254 ≤ budget) (st : GState) (k : Nat) (o : WNode)
    (hg : GInv budget st k) (h : DInv st) (ho : o.Dec) : DInv (gatherStep budget st o) := by
  obtain ⟨d1, d2⟩ := h
  obtain ⟨i1, i2, i3, i4, i5, i6, i7, i8, i9, i10, i11⟩ := hg
  unfold gatherStep
  simp only
  generalize hn2 : (o.secondary != 0 && !st.resources.contains o.secondary) = new2
  generalize hn3 : (o.tertiary != 0 && !st.resources.contains o.tertiary) = new3
  split
  · refine ⟨?_, d2⟩
    intro x hx
    rcases List.mem_cons.mp hx with h | h
    · rw [h]; exact ho
    · exact d1 x h
  · rename_i hgt
    have hb2 : new2.toNat ≤ 1 := by cases new2 <;> simp
    have hb3 : new3.toNat ≤ 1 := by cases new3 <;> simp
    have hcur : st.cur.length ≥ 2 := by omega
    generalize (if o.secondary != 0 then (setInsert [] o.secondary, 1 + 1) else (([] : List Nat), 1)) = p2
    obtain ⟨rs2, a2⟩ := p2
    generalize (if o.tertiary != 0 then (setInsert rs2 o.tertiary, a2 + 1) else (rs2, a2)) = p3
    obtain ⟨rs3, a3⟩ := p3
    simp only
    refine ⟨?_, ?_⟩
    · intro x hx
      have : x = o := by simpa using hx
      rw [this]; exact ho
    · intro n hn
      rcases List.mem_cons.mp hn with h | h
      · rw [h]
        refine makeBranch_dec _ _ ?_ ?_ (Or.inl (by simp; exact hcur))
        · intro h'; have : st.cur = [] := by simpa using h'
          rw [this] at hcur; simp at hcur
        · intro c hc; exact d1 c (by simpa using hc)
      · exact d2 n h

theorem gather_fold_dinv (budget : Nat) (hb : 254 ≤ budget) (nodes : List WNode) :
    ∀ (st : GState) (k : Nat), GInv budget st k → DInv st → (∀ o ∈ nodes, LevelNode budget o) →
      (∀ o ∈ nodes, o.Dec) → DInv (nodes.foldl (gatherStep budget) st) := by
  induction nodes with
  | nil => intro st k _ h _ _; simpa using h
  | cons o os ih =>
    intro st k hg h hl hd
    simp only [List.foldl_cons]
    exact ih _ (k + 1) (gatherStep_inv budget hb st k o hg (hl o (by simp)))
      (gatherStep_dinv budget hb st k o hg h (hd o (by simp)))
      (fun x hx => hl x (by simp [hx])) (fun x hx => hd x (by simp [hx]))

theorem gatherLevel_dec (budget : Nat) (hb : 254 ≤ budget) (nodes : List WNode) (hne : nodes ≠ [])
    (hl : ∀ o ∈ nodes, LevelNode budget o) (hd : ∀ o ∈ nodes, o.Dec)
    (h2 : nodes.length ≥ 2 ∨ ∀ o ∈ nodes, o.isBranch = false) :
    match gatherLevel budget nodes with
    | .inl root => root.Dec
    | .inr next => ∀ o ∈ next, o.Dec := by
  have hinv := gather_fold_inv budget hb nodes {} 0 (ginv_init budget) hl
  have hdinv := gather_fold_dinv budget hb nodes {} 0 (ginv_init budget) ⟨by simp, by simp⟩ hl hd
  simp only [Nat.zero_add] at hinv
  unfold gatherLevel
  simp only
  generalize hst : nodes.foldl (gatherStep budget) {} = st at *
  obtain ⟨i1, i2, i3, i4, i5, i6, i7, i8, i9, i10, i11⟩ := hinv
  obtain ⟨d1, d2⟩ := hdinv
  have hpos : nodes.length > 0 := by
    cases nodes with
    | nil => exact absurd rfl hne
    | cons a as => simp
  by_cases hf : st.first = true
  · rw [if_pos hf]
    exact makeBranch_dec nodes st.resources hne hd h2
  · rw [if_neg hf]
    simp only
    have hcne := i11 hpos
    have key : ∀ (last : WNode) , last.Dec → ∀ o ∈ (last :: st.newNodes).reverse, o.Dec := by
      intro last hl' o ho
      have : o = last ∨ o ∈ st.newNodes := by simpa [or_comm] using ho
      rcases this with h | h
      · rw [h]; exact hl'
      · exact d2 o h
    have hrev : ∀ c ∈ st.cur.reverse, c.Dec := fun c hc => d1 c (by simpa using hc)
    have hrne : st.cur.reverse ≠ [] := by simpa using hcne
    split
    · rename_i x hx
      split
      · exact key x (hrev x (by rw [hx]; simp))
      · rename_i hbx
        refine key _ (makeBranch_dec _ _ hrne hrev (Or.inr ?_))
        intro c hc; rw [hx] at hc
        have : c = x := by simpa using hc
        rw [this]; simpa using hbx
    · rename_i hnot
      refine key _ (makeBranch_dec _ _ hrne hrev (Or.inl ?_))
      -- not a singleton and not empty: at least two
      cases hr : st.cur.reverse with
      | nil => exact absurd hr hrne
      | cons a as =>
        cases as with
        | nil => exact absurd hr (hnot a)
        | cons b bs => simp

theorem gatherFuel_dec (budget : Nat) (hb : 254 ≤ budget) (fuel : Nat) :
    ∀ nodes : List WNode, nodes ≠ [] → nodes.length ≤ fuel → (∀ o ∈ nodes, LevelNode budget o) →
      (∀ o ∈ nodes, o.Dec) →
      (nodes.length ≥ 2 ∨ ∀ o ∈ nodes, o.isBranch = false) → (gatherFuel budget fuel nodes).Dec := by
  induction fuel with
  | zero =>
    intro nodes hne hlen
    cases nodes with
    | nil => exact absurd rfl hne
    | cons a as => simp at hlen
  | succ f ih =>
    intro nodes hne hlen hl hd h2
    unfold gatherFuel
    have hg := gatherLevel_good budget hb nodes hne hl h2
    have hdd := gatherLevel_dec budget hb nodes hne hl hd h2
    split
    · rename_i root hr; rw [hr] at hdd; exact hdd
    · rename_i next hr
      rw [hr] at hg hdd
      obtain ⟨g1, g2, g3⟩ := hg
      refine ih next ?_ (by omega) g1 hdd (Or.inl g2)
      intro h; rw [h] at g2; simp at g2

/-- `gather` on leaves of positive size: sizes (`DPtrMax`) strictly decrease from each branch to
its branch children -/
theorem gather_dec (nodes : List WNode) (long : Bool) (hne : nodes ≠ [])
    (hleaf : ∀ o ∈ nodes, o.children = []) (hpos : ∀ o ∈ nodes, o.dRangeSize > 0) :
    (gather nodes long).Dec := by
  unfold gather
  refine gatherFuel_dec _ (by split <;> omega) _ nodes hne (by omega) ?_ ?_ (Or.inr ?_)
  · intro o ho
    exact ⟨good_of_leaf _ o (hleaf o ho), by intro h; simp [WNode.isBranch, hleaf o ho] at h⟩
  · intro o ho
    have hc := hleaf o ho
    have hp := hpos o ho
    cases o with
    | mk d cs rs col s t c =>
      simp only [WNode.children] at hc
      simp only [WNode.dRangeSize] at hp
      simp [WNode.Dec, hc, DecList, hp]
  · intro o ho; simp [WNode.isBranch, hleaf o ho]

end WuffsVerif.Rac
