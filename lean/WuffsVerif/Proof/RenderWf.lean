/-
C12, the Wuffs formatter: the shapes of token texts `Tokenize` produces (`wfWordText`,
`wfNumText`, `wfStrText`; squiggly tokens are the entries of `punctToks`) and, for each shape,
the lemma that `lexTok` reads such a text back (`Relex`) when what follows cannot extend it:
a byte that is not a letter / digit / underscore after a word, number or string.
Core Lean only.
-/
import WuffsVerif.Proof.RenderLex

namespace WuffsVerif.Render
open WuffsVerif.FmtToken WuffsVerif.Gen.C12

/-! ### lists -/

theorem takeWhile_dropWhile_append_stop {α : Type} (p : α → Bool) (l r : List α)
    (hl : ∀ x ∈ l, p x = true) (hr : ∀ x, r.head? = some x → p x = false) :
    (l ++ r).takeWhile p = l ∧ (l ++ r).dropWhile p = r := by
  induction l with
  | nil =>
    cases r with
    | nil => simp
    | cons x r' =>
      have := hr x rfl
      simp [this]
  | cons a l ih =>
    have ha : p a = true := hl a (by simp)
    have := ih (fun x hx => hl x (by simp [hx]))
    simp [ha, this]

/-! ### bytes -/

theorem alpha_facts : ∀ c : UInt8, alpha c = true →
    ¬ c ≤ 32 ∧ (c == 34 || c == 39) = false ∧ (c == 47) = false := by
  apply byte_forall; decide +kernel

theorem numeric_facts : ∀ c : UInt8, numeric c = true →
    ¬ c ≤ 32 ∧ (c == 34 || c == 39) = false ∧ (c == 47) = false ∧ alpha c = false ∧ (c == 95) = false := by
  apply byte_forall; decide +kernel

theorem digit_classes_alnum : ∀ c : UInt8,
    (hexaNumericUnderscore c = true → alphaNumeric c = true) ∧
    (zeroOneUnderscore c = true → alphaNumeric c = true) ∧
    (numericUnderscore c = true → alphaNumeric c = true) := by
  apply byte_forall; decide +kernel

theorem not_alnum_facts : ∀ c : UInt8, alphaNumeric c = false →
    (c == 120 || c == 88) = false ∧ (c == 98 || c == 66) = false ∧ numeric c = false ∧
    (c == 98) = false ∧ (c == 108) = false := by
  apply byte_forall; decide +kernel

theorem blank_not_alnum : ∀ c : UInt8, c ≤ 32 → alphaNumeric c = false := by
  apply byte_forall; decide +kernel

/-- what may follow a word, a number or a string: a byte that cannot continue it -/
def StopsWord (rest : Bytes) : Prop := ∃ d r, rest = d :: r ∧ alphaNumeric d = false

theorem StopsWord.head {rest : Bytes} (h : StopsWord rest) (p : UInt8 → Bool)
    (hp : ∀ c, p c = true → alphaNumeric c = true) : ∀ x, rest.head? = some x → p x = false := by
  obtain ⟨d, r, rfl, hd⟩ := h
  intro x hx
  simp at hx
  subst hx
  cases h : p d with
  | false => rfl
  | true => rw [hp d h] at hd; exact absurd hd (by decide)

/-! ### words -/

def wfWordText (s : Bytes) : Bool :=
  match s with
  | c :: w => alpha c && w.all alphaNumeric && decide (s.length ≤ maxTokenSize)
  | [] => false

theorem relex_word (s rest : Bytes) (h : wfWordText s = true) (hr : StopsWord rest) :
    Relex s (intern s).1 rest := by
  cases s with
  | nil => simp [wfWordText] at h
  | cons c w =>
    simp only [wfWordText, Bool.and_eq_true, List.all_eq_true, decide_eq_true_eq] at h
    obtain ⟨⟨hc, hw⟩, hlen⟩ := h
    obtain ⟨h32, hq, h47⟩ := alpha_facts c hc
    have htd := takeWhile_dropWhile_append_stop alphaNumeric w rest hw (hr.head alphaNumeric (fun _ h => h))
    refine ⟨c, w, rfl, h32, ?_, ?_⟩
    · simp [commentStart, h47]
    · unfold lexTok
      simp only [hq, Bool.false_eq_true, ↓reduceIte, hc, htd.1, htd.2]
      have : ¬ (c :: w).length > maxTokenSize := by omega
      simp only [this, ↓reduceIte]

/-! ### numbers -/

/-- the digits after the first one, by class: `0x…`, `0b…`, decimal (no `0` + digit) -/
def numCls (c : UInt8) (σ : Bytes) : Bool :=
  match σ with
  | [] => true
  | p :: body =>
    if c == 48 && (p == 120 || p == 88) then body.all hexaNumericUnderscore
    else if c == 48 && (p == 98 || p == 66) then body.all zeroOneUnderscore
    else if c == 48 && numeric p then false
    else σ.all numericUnderscore

def wfNumText (s : Bytes) : Bool :=
  match s with
  | [] => false
  | c :: σ => decide (s.length ≤ maxTokenSize) && checkNumericUnderscores s && numeric c && numCls c σ

theorem wfNumText_cons {c : UInt8} {σ : Bytes} (h : wfNumText (c :: σ) = true) :
    (c :: σ).length ≤ maxTokenSize ∧ checkNumericUnderscores (c :: σ) = true ∧ numeric c = true ∧
      numCls c σ = true := by
  unfold wfNumText at h
  rw [Bool.and_eq_true, Bool.and_eq_true, Bool.and_eq_true, decide_eq_true_eq] at h
  exact ⟨h.1.1.1, h.1.1.2, h.1.2, h.2⟩

/-- the number branch's scan reads exactly the digits of a well-formed literal -/
theorem num_scan (c : UInt8) (σ rest : Bytes) (hcls : numCls c σ = true) (hr : StopsWord rest) :
    ∃ pre isDigit, numPre c (σ ++ rest) = some (pre, isDigit) ∧
      c :: pre ++ ((σ ++ rest).drop pre.length).takeWhile isDigit = c :: σ ∧
      ((σ ++ rest).drop pre.length).dropWhile isDigit = rest := by
  cases σ with
  | nil =>
    obtain ⟨d, r, rfl, hd⟩ := hr
    obtain ⟨n1, n2, n3, _, _⟩ := not_alnum_facts d hd
    have hnu : numericUnderscore d = false := by
      cases hx : numericUnderscore d with
      | false => rfl
      | true => rw [(digit_classes_alnum d).2.2 hx] at hd; exact absurd hd (by decide)
    refine ⟨[], numericUnderscore, ?_, ?_, ?_⟩
    · simp [numPre, n1, n2, n3]
    · simp [hnu]
    · simp [hnu]
  | cons p body =>
    unfold numCls at hcls
    simp only at hcls
    simp only [List.cons_append, numPre]
    by_cases c1 : (c == 48 && (p == 120 || p == 88)) = true
    · simp only [c1, ↓reduceIte] at hcls ⊢
      have htd := takeWhile_dropWhile_append_stop hexaNumericUnderscore body rest
        (by simpa using hcls) (hr.head _ (fun c h => (digit_classes_alnum c).1 h))
      exact ⟨[p], hexaNumericUnderscore, rfl, by simp [htd.1], by simp [htd.2]⟩
    · simp only [c1, Bool.false_eq_true, ↓reduceIte] at hcls ⊢
      by_cases c2 : (c == 48 && (p == 98 || p == 66)) = true
      · simp only [c2, ↓reduceIte] at hcls ⊢
        have htd := takeWhile_dropWhile_append_stop zeroOneUnderscore body rest
          (by simpa using hcls) (hr.head _ (fun c h => (digit_classes_alnum c).2.1 h))
        exact ⟨[p], zeroOneUnderscore, rfl, by simp [htd.1], by simp [htd.2]⟩
      · simp only [c2, Bool.false_eq_true, ↓reduceIte] at hcls ⊢
        by_cases c3 : (c == 48 && numeric p) = true
        · simp [c3] at hcls
        · simp only [c3, Bool.false_eq_true, ↓reduceIte] at hcls ⊢
          have htd := takeWhile_dropWhile_append_stop numericUnderscore (p :: body) rest
            (by simpa using hcls) (hr.head _ (fun c h => (digit_classes_alnum c).2.2 h))
          simp only [List.cons_append] at htd
          exact ⟨[], numericUnderscore, rfl, by simp [htd.1], by simp [htd.2]⟩

theorem relex_num (s rest : Bytes) (h : wfNumText s = true) (hr : StopsWord rest) :
    Relex s (intern s).1 rest := by
  cases s with
  | nil => simp [wfNumText] at h
  | cons c σ =>
    obtain ⟨hlen, hchk, hc, hcls⟩ := wfNumText_cons h
    obtain ⟨h32, hq, h47, hal, _⟩ := numeric_facts c hc
    have hlen' : ¬ (c :: σ).length > maxTokenSize := by omega
    obtain ⟨pre, isDigit, hnp, h2, h3⟩ := num_scan c σ rest hcls hr
    refine ⟨c, σ, rfl, h32, ?_, ?_⟩
    · simp [commentStart, h47]
    · unfold lexTok
      simp only [hq, Bool.false_eq_true, ↓reduceIte, hal, hc, hnp, h2, h3, hlen', hchk, Bool.not_true]

/-! ### strings -/

/-- the rest of a string after the opening quote `q`: no newline / control byte, no backslash in
a `"`-string, and the first `q` is the last byte -/
def strBody (q : UInt8) : Bytes → Bool
  | [] => false
  | c :: cs =>
    if c == q then cs.isEmpty
    else if c == 92 then q != 34 && strBody q cs
    else if c == 10 then false
    else if c < 32 then false
    else strBody q cs

theorem scanString_strBody (q : UInt8) (b rest : Bytes) (h : strBody q b = true) :
    scanString q (b ++ rest) = some (b, rest) := by
  induction b with
  | nil => simp [strBody] at h
  | cons c cs ih =>
    unfold strBody at h
    rw [List.cons_append, scanString]
    by_cases h1 : (c == q) = true
    · simp only [h1, ↓reduceIte, List.isEmpty_iff] at h ⊢
      subst h
      rfl
    · simp only [h1, Bool.false_eq_true, ↓reduceIte] at h ⊢
      by_cases h2 : (c == 92) = true
      · simp only [h2, ↓reduceIte, Bool.and_eq_true, bne_iff_ne, ne_eq] at h ⊢
        have hq : (q == 34) = false := by simpa using h.1
        simp only [hq, Bool.false_eq_true, ↓reduceIte, ih h.2, Option.map_some]
      · simp only [h2, Bool.false_eq_true, ↓reduceIte] at h ⊢
        by_cases h3 : (c == 10) = true
        · simp [h3] at h
        · simp only [h3, Bool.false_eq_true, ↓reduceIte] at h ⊢
          by_cases h4 : c < 32
          · simp [h4] at h
          · simp only [h4, ↓reduceIte] at h ⊢
            simp only [ih h, Option.map_some]

/-- the `'`-string check of `Tokenize` passes -/
def sqOK (text : Bytes) (hasEndian : Bool) : Bool :=
  !(match unescapeSQ text with
    | none => true
    | some n => decide (n > 1) && !hasEndian)

/-- string token texts: `"…"`, `'…'`, `'…'be`, `'…'le` -/
def wfStrText (s : Bytes) : Bool :=
  decide (s.length ≤ maxTokenSize) &&
  match s with
  | [] => false
  | q :: body =>
    if q == 34 then strBody 34 body
    else if q == 39 then
      (strBody 39 body && sqOK s false) ||
      ((body.drop (body.length - 2) == [98, 101] || body.drop (body.length - 2) == [108, 101]) &&
        strBody 39 (body.take (body.length - 2)) && sqOK s true)
    else false

/-- the string branch of `lexTok`, with the endian test named -/
theorem lexTok_str (q : UInt8) (rest b after : Bytes) (hq : (q == 34 || q == 39) = true)
    (hs : scanString q rest = some (b, after)) (E : Bool)
    (hE : (q == 39 && decide (after.length > 2) &&
      (after.head? == some 98 || after.head? == some 108) && after[1]? == some 101) = E) :
    lexTok q rest =
      if (q :: b ++ (if E then after.take 2 else [])).length > maxTokenSize then none
      else if (q == 39 && (match unescapeSQ (q :: b ++ (if E then after.take 2 else [])) with
          | none => true
          | some n => decide (n > 1) && !E)) = true then none
      else some ((intern (q :: b ++ (if E then after.take 2 else []))).1,
        q :: b ++ (if E then after.take 2 else []), if E then after.drop 2 else after) := by
  subst hE
  unfold lexTok
  simp only [hq, ↓reduceIte, hs]
  rfl

theorem relex_str (s rest : Bytes) (h : wfStrText s = true) (hr : StopsWord rest) :
    Relex s (intern s).1 rest := by
  cases s with
  | nil => simp [wfStrText] at h
  | cons q body =>
    unfold wfStrText at h
    rw [Bool.and_eq_true, decide_eq_true_eq] at h
    obtain ⟨hlen, hcls⟩ := h
    simp only at hcls
    have hlen' : ¬ (q :: body).length > maxTokenSize := by omega
    obtain ⟨d, r, rfl, hd⟩ := hr
    obtain ⟨_, _, _, nb, nl⟩ := not_alnum_facts d hd
    have nb' : d ≠ 98 := by simpa using nb
    have nl' : d ≠ 108 := by simpa using nl
    by_cases hq : (q == 34) = true
    · have hq' : q = 34 := by simpa using hq
      subst hq'
      simp only [beq_self_eq_true, ↓reduceIte] at hcls
      refine ⟨34, body, rfl, by decide, by simp [commentStart], ?_⟩
      rw [lexTok_str 34 _ body (d :: r) (by decide) (scanString_strBody 34 body _ hcls) false (by simp)]
      simp only [Bool.false_eq_true, ↓reduceIte, List.append_nil, hlen',
        show ((34 : UInt8) == 39) = false from by decide, Bool.false_and]
    · simp only [hq, Bool.false_eq_true, ↓reduceIte] at hcls
      by_cases hq2 : (q == 39) = true
      · have hq' : q = 39 := by simpa using hq2
        subst hq'
        simp only [beq_self_eq_true, ↓reduceIte] at hcls
        refine ⟨39, body, rfl, by decide, by simp [commentStart], ?_⟩
        rcases Bool.or_eq_true_iff.mp hcls with h1 | h1
        · -- no endian suffix
          rw [Bool.and_eq_true] at h1
          obtain ⟨hb, hsq⟩ := h1
          rw [lexTok_str 39 _ body (d :: r) (by decide) (scanString_strBody 39 body _ hb) false
            (by simp [nb', nl'])]
          unfold sqOK at hsq
          cases hu : unescapeSQ (39 :: body) with
          | none => simp [hu] at hsq
          | some n =>
            simp only [hu, Bool.not_false, Bool.and_true, Bool.not_eq_eq_eq_not, Bool.not_true] at hsq
            simp only [Bool.false_eq_true, ↓reduceIte, List.append_nil, hlen', hu, Bool.not_false,
              Bool.and_true, hsq, beq_self_eq_true, Bool.and_false]
        · -- be / le suffix
          rw [Bool.and_eq_true, Bool.and_eq_true] at h1
          obtain ⟨⟨hsfx, hb⟩, hsq⟩ := h1
          have hsplit : body = body.take (body.length - 2) ++ body.drop (body.length - 2) :=
            (List.take_append_drop _ _).symm
          generalize body.take (body.length - 2) = b at hb hsplit
          generalize body.drop (body.length - 2) = sfx at hsfx hsplit
          have hsfx' : sfx = [98, 101] ∨ sfx = [108, 101] := by simpa using hsfx
          subst hsplit
          have hE : ((39 : UInt8) == 39 && decide ((sfx ++ d :: r).length > 2) &&
              ((sfx ++ d :: r).head? == some 98 || (sfx ++ d :: r).head? == some 108) &&
              (sfx ++ d :: r)[1]? == some 101) = true := by
            rcases hsfx' with rfl | rfl <;> simp
          have ht : (sfx ++ d :: r).take 2 = sfx ∧ (sfx ++ d :: r).drop 2 = d :: r := by
            rcases hsfx' with rfl | rfl <;> simp
          rw [List.append_assoc,
            lexTok_str 39 _ b (sfx ++ d :: r) (by decide) (scanString_strBody 39 b _ hb) true hE]
          unfold sqOK at hsq
          cases hu : unescapeSQ (39 :: (b ++ sfx)) with
          | none => simp [hu] at hsq
          | some n =>
            simp only [↓reduceIte, ht.1, ht.2, Bool.not_true, Bool.and_false, List.cons_append]
            simp only [hlen', hu, ↓reduceIte, Bool.and_false, Bool.false_eq_true]
      · simp [hq2] at hcls

end WuffsVerif.Render
