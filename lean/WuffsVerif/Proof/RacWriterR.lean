/-
C13, shared resources at Writer level: `rac.Writer.useResource`'s bookkeeping (index named by `Compress` ->
`WrapResource` -> `AddResource` id -> `AddChunk`) and the resource-aware covering invariant: every accepted chunk
decompresses, *given the bytes registered under the resource ids it was added with*, to its share of the input.
Parallel to `Proof/RacWriter.lean` (which ignores the resource ids).
-/
import WuffsVerif.Proof.RacWStep
set_option linter.unusedSimpArgs false
set_option linter.unusedVariables false

namespace WuffsVerif.Rac

/-! ### the resource side of the ChunkWriter state is only touched by `AddResource` -/

theorem CW.padLoop_resLog (toTemp : Bool) (padLen : Nat) (fuel remaining : Nat) (w : CW) :
    (CW.padLoop toTemp padLen fuel remaining w).1.resLog = w.resLog := by
  induction fuel generalizing remaining w with
  | zero => simp [CW.padLoop]
  | succ f ih =>
    unfold CW.padLoop
    simp only
    repeat (any_goals split)
    all_goals (first | rfl | simp [CW.fail, ih])

theorem CW.padToPageSize_resLog (w : CW) (t : Bool) (o : Nat) : (w.padToPageSize t o).1.resLog = w.resLog := by
  unfold CW.padToPageSize
  simp only
  repeat (any_goals split)
  all_goals (first | rfl | simp [CW.fail, CW.padLoop_resLog])

theorem CW.writePadding_resLog (w : CW) (t : Bool) (o : Nat) : (w.writePadding t o).1.resLog = w.resLog := by
  unfold CW.writePadding
  simp only
  repeat (any_goals split)
  all_goals (first | rfl | simp [CW.fail, CW.padToPageSize_resLog])

theorem CW.write_resLog (w : CW) (d : Bytes) : (w.write d).1.resLog = w.resLog := by
  unfold CW.write
  simp only
  repeat (any_goals split)
  all_goals (first | rfl | simp [CW.fail, CW.writePadding_resLog])

theorem CW.checkParameters_resLog (w : CW) : (w.checkParameters).1.resLog = w.resLog := by
  unfold CW.checkParameters
  repeat (any_goals split)
  all_goals (first | rfl | simp [CW.fail])

theorem CW.seekTemp_resLog (w : CW) : (w.seekTemp).1.resLog = w.resLog := by
  unfold CW.seekTemp
  repeat (any_goals split)
  all_goals rfl

theorem CW.init_resLog (w : CW) : (w.init).1.resLog = w.resLog := by
  unfold CW.init
  simp only
  repeat (any_goals split)
  all_goals (first | rfl | simp [CW.fail, CW.write_resLog, CW.checkParameters_resLog, CW.seekTemp_resLog])

theorem CW.padLoop_rcl (toTemp : Bool) (padLen : Nat) (fuel remaining : Nat) (w : CW) :
    (CW.padLoop toTemp padLen fuel remaining w).1.resourcesCOffCLens = w.resourcesCOffCLens := by
  induction fuel generalizing remaining w with
  | zero => simp [CW.padLoop]
  | succ f ih =>
    unfold CW.padLoop
    simp only
    repeat (any_goals split)
    all_goals (first | rfl | simp [CW.fail, ih])

theorem CW.padToPageSize_rcl (w : CW) (t : Bool) (o : Nat) : (w.padToPageSize t o).1.resourcesCOffCLens = w.resourcesCOffCLens := by
  unfold CW.padToPageSize
  simp only
  repeat (any_goals split)
  all_goals (first | rfl | simp [CW.fail, CW.padLoop_rcl])

theorem CW.writePadding_rcl (w : CW) (t : Bool) (o : Nat) : (w.writePadding t o).1.resourcesCOffCLens = w.resourcesCOffCLens := by
  unfold CW.writePadding
  simp only
  repeat (any_goals split)
  all_goals (first | rfl | simp [CW.fail, CW.padToPageSize_rcl])

theorem CW.write_rcl (w : CW) (d : Bytes) : (w.write d).1.resourcesCOffCLens = w.resourcesCOffCLens := by
  unfold CW.write
  simp only
  repeat (any_goals split)
  all_goals (first | rfl | simp [CW.fail, CW.writePadding_rcl])

theorem CW.checkParameters_rcl (w : CW) : (w.checkParameters).1.resourcesCOffCLens = w.resourcesCOffCLens := by
  unfold CW.checkParameters
  repeat (any_goals split)
  all_goals (first | rfl | simp [CW.fail])

theorem CW.seekTemp_rcl (w : CW) : (w.seekTemp).1.resourcesCOffCLens = w.resourcesCOffCLens := by
  unfold CW.seekTemp
  repeat (any_goals split)
  all_goals rfl

theorem CW.init_rcl (w : CW) : (w.init).1.resourcesCOffCLens = w.resourcesCOffCLens := by
  unfold CW.init
  simp only
  repeat (any_goals split)
  all_goals (first | rfl | simp [CW.fail, CW.write_rcl, CW.checkParameters_rcl, CW.seekTemp_rcl])

theorem CW.addChunk_resLog (w : CW) (d c : Nat) (p : Bytes) (s t : Nat) :
    (w.addChunk d c p s t).1.resLog = w.resLog := by
  unfold CW.addChunk
  simp only
  repeat (any_goals split)
  all_goals (first | rfl | simp_all [CW.fail, CW.write_resLog, CW.init_resLog])

theorem CW.addChunk_rcl (w : CW) (d c : Nat) (p : Bytes) (s t : Nat) :
    (w.addChunk d c p s t).1.resourcesCOffCLens = w.resourcesCOffCLens := by
  unfold CW.addChunk
  simp only
  repeat (any_goals split)
  all_goals (first | rfl | simp_all [CW.fail, CW.write_rcl, CW.init_rcl])

theorem CW.init_err' (w : CW) (e : Err) (h : (w.init).2 = some e) : (w.init).1.err ≠ none := by
  cases he : w.err with
  | none => rw [CW.init_err w he e h]; simp
  | some e0 => rw [CW.init_of_err w e0 he]; simp [he]

/-- the `COffset|CLength` table has one dummy entry 0 followed by one entry per registered resource
(it is `nil` until the first `AddResource`) -/
def CW.RL (c : CW) : Prop :=
  (c.resourcesCOffCLens.size = 0 ∧ c.resLog = []) ∨ c.resourcesCOffCLens.size = c.resLog.length + 1

/-- what `AddResource` does to the resource side: on success the resource is registered under the id
`number of resources so far + 1`; on failure nothing is registered -/
theorem CW.addResource_res (w : CW) (r : Bytes) (hrl : w.RL) :
    ((w.addResource r).2.2 = none →
      (w.addResource r).1.resLog = r :: w.resLog ∧ (w.addResource r).2.1 = w.resLog.length + 1 ∧
      (w.addResource r).1.RL) ∧
    ((w.addResource r).2.2 ≠ none → (w.addResource r).1.resLog = w.resLog ∧ (w.addResource r).1.RL ∧
      (w.addResource r).1.err ≠ none) := by
  unfold CW.addResource
  split
  · exact ⟨fun h => by simp at h, fun _ => ⟨rfl, hrl, by simp⟩⟩
  · simp only
    have i1 := CW.init_resLog w
    have i2 := CW.init_rcl w
    have i3 := CW.init_err' w
    generalize w.init = wi at *
    obtain ⟨w1, e1⟩ := wi
    simp only at i1 i2 i3 ⊢
    cases e1 with
    | some e =>
      simp only [Option.isSome_some, ↓reduceIte]
      refine ⟨fun h => by simp at h, fun _ => ⟨i1, ?_, i3 e rfl⟩⟩
      unfold CW.RL; rw [i1, i2]; exact hrl
    | none =>
      simp only [Option.isSome_none, Bool.false_eq_true, ↓reduceIte]
      have j1 := CW.write_resLog w1 r
      have j2 := CW.write_rcl w1 r
      have j3 := CW.write_err w1 r
      generalize w1.write r = wr at *
      obtain ⟨w2, e2⟩ := wr
      simp only at j1 j2 j3 ⊢
      cases e2 with
      | some e =>
        simp only [Option.isSome_some, ↓reduceIte]
        refine ⟨fun h => by simp at h, fun _ => ⟨by rw [j1, i1], ?_, by rw [j3 e rfl]; simp⟩⟩
        unfold CW.RL; rw [j1, j2, i1, i2]; exact hrl
      | none =>
        simp only [Option.isSome_none, Bool.false_eq_true, ↓reduceIte]
        refine ⟨fun _ => ⟨by rw [j1, i1], ?_, ?_⟩, fun h => by simp at h⟩
        · rw [j2, i2]
          rcases hrl with ⟨h0, hn⟩ | h1
          · simp [h0, hn]
          · have : (w.resourcesCOffCLens.size == 0) = false := by rw [h1]; simp
            simp [this, h1]
        · right
          simp only [Array.size_push, List.length_cons, j1, j2, i1, i2]
          rcases hrl with ⟨h0, hn⟩ | h1
          · simp [h0, hn]
          · have : (w.resourcesCOffCLens.size == 0) = false := by rw [h1]; simp
            simp [this, h1]

theorem CW.padLoop_leaf (toTemp : Bool) (padLen : Nat) (fuel remaining : Nat) (w : CW) :
    (CW.padLoop toTemp padLen fuel remaining w).1.leafNodes = w.leafNodes := by
  induction fuel generalizing remaining w with
  | zero => simp [CW.padLoop]
  | succ f ih =>
    unfold CW.padLoop
    simp only
    repeat (any_goals split)
    all_goals (first | rfl | simp [CW.fail, ih])

theorem CW.padToPageSize_leaf (w : CW) (t : Bool) (o : Nat) : (w.padToPageSize t o).1.leafNodes = w.leafNodes := by
  unfold CW.padToPageSize
  simp only
  repeat (any_goals split)
  all_goals (first | rfl | simp [CW.fail, CW.padLoop_leaf])

theorem CW.writePadding_leaf (w : CW) (t : Bool) (o : Nat) : (w.writePadding t o).1.leafNodes = w.leafNodes := by
  unfold CW.writePadding
  simp only
  repeat (any_goals split)
  all_goals (first | rfl | simp [CW.fail, CW.padToPageSize_leaf])

theorem CW.write_leaf (w : CW) (d : Bytes) : (w.write d).1.leafNodes = w.leafNodes := by
  unfold CW.write
  simp only
  repeat (any_goals split)
  all_goals (first | rfl | simp [CW.fail, CW.writePadding_leaf])

theorem CW.checkParameters_leaf (w : CW) : (w.checkParameters).1.leafNodes = w.leafNodes := by
  unfold CW.checkParameters
  repeat (any_goals split)
  all_goals (first | rfl | simp [CW.fail])

theorem CW.seekTemp_leaf (w : CW) : (w.seekTemp).1.leafNodes = w.leafNodes := by
  unfold CW.seekTemp
  repeat (any_goals split)
  all_goals rfl

theorem CW.init_leaf (w : CW) : (w.init).1.leafNodes = w.leafNodes := by
  unfold CW.init
  simp only
  repeat (any_goals split)
  all_goals (first | rfl | simp [CW.fail, CW.write_leaf, CW.checkParameters_leaf, CW.seekTemp_leaf])


theorem CW.addResource_leaf (w : CW) (r : Bytes) : (w.addResource r).1.leafNodes = w.leafNodes := by
  unfold CW.addResource
  simp only
  repeat (any_goals split)
  all_goals (first | rfl | simp [CW.fail, CW.write_leaf, CW.init_leaf])

/-- what `AddChunk` does to the leaf list: on success (and a non-zero size) one leaf carrying the two resource
ids is appended; otherwise nothing changes -/
theorem CW.addChunk_leaf (w : CW) (d codec : Nat) (p : Bytes) (s t : Nat) :
    ((w.addChunk d codec p s t).2 = none →
        if d = 0 then (w.addChunk d codec p s t).1.leafNodes = w.leafNodes
        else ∃ o : WNode, o.secondary = s ∧ o.tertiary = t ∧
          (w.addChunk d codec p s t).1.leafNodes = w.leafNodes.push o) ∧
    ((w.addChunk d codec p s t).2 ≠ none → (w.addChunk d codec p s t).1.leafNodes = w.leafNodes) := by
  unfold CW.addChunk
  cases he : w.err with
  | some e => simp
  | none =>
    simp only
    by_cases hd : (d == 0) = true
    · rw [if_pos hd]; have : d = 0 := by simpa using hd
      simp [this]
    · rw [if_neg hd]
      have hd' : d ≠ 0 := by simpa using hd
      rw [if_neg hd']
      split
      · simp [CW.fail]
      · split
        · simp [CW.fail]
        · have i1 := CW.init_leaf w
          generalize w.init = wi at *
          obtain ⟨w1, e1⟩ := wi
          simp only at i1 ⊢
          cases e1 with
          | some e => simp [i1]
          | none =>
            simp only [Option.isSome_none, Bool.false_eq_true, ↓reduceIte]
            have hstep : ∀ (w2 : CW) (e2 : Option Err),
                (if (w1.leafNodes.size == 0) = true then
                  if (!codecValid codec) = true then (w1, some Err.invalidCodec) else ({ w1 with codec := codec }, none)
                else if (w1.codec != codec) = true then w1.fail Err.multipleCodecs else (w1, none)) = (w2, e2) →
                w2.leafNodes = w1.leafNodes := by
              intro w2 e2 hst
              by_cases hz : (w1.leafNodes.size == 0) = true
              · rw [if_pos hz] at hst
                by_cases hv : (!codecValid codec) = true
                · rw [if_pos hv] at hst; injection hst with h1 h2; subst h1; rfl
                · rw [if_neg hv] at hst; injection hst with h1 h2; subst h1; rfl
              · rw [if_neg hz] at hst
                by_cases hc : (w1.codec != codec) = true
                · rw [if_pos hc] at hst; injection hst with h1 h2; subst h1; rfl
                · rw [if_neg hc] at hst; injection hst with h1 h2; subst h1; rfl
            generalize hg : (if (w1.leafNodes.size == 0) = true then
                  if (!codecValid codec) = true then (w1, some Err.invalidCodec) else ({ w1 with codec := codec }, none)
                else if (w1.codec != codec) = true then w1.fail Err.multipleCodecs else (w1, none)) = r2
            obtain ⟨w2, e2⟩ := r2
            have s1 := hstep w2 e2 hg
            cases e2 with
            | some e => simp [s1, i1]
            | none =>
              simp only [Option.isSome_none, Bool.false_eq_true, ↓reduceIte]
              have j1 := CW.write_leaf w2 p
              generalize w2.write p = r3 at j1 ⊢
              obtain ⟨w3, e3⟩ := r3
              simp only at j1
              cases e3 with
              | some e => simp [j1, s1, i1]
              | none =>
                simp only [Option.isSome_none, Bool.false_eq_true, ↓reduceIte]
                refine ⟨fun _ => ⟨_, ?_, ?_, by rw [j1, s1, i1]⟩, fun h => absurd rfl h⟩
                · simp [WNode.leaf, WNode.secondary]
                · simp [WNode.leaf, WNode.tertiary]
/-! ### `useResource`: Compress index -> WrapResource -> AddResource id -/

/-- the bytes registered under an `OptResource` id (`resl`: oldest first; id 0 = no resource) -/
def resAt (resl : List Bytes) (id : Nat) : Bytes := if id = 0 then [] else resl.getD (id - 1) []

theorem resAt_append (resl ext : List Bytes) (id : Nat) (h : id ≤ resl.length) :
    resAt (resl ++ ext) id = resAt resl id := by
  unfold resAt
  split
  · rfl
  · rw [List.getD_eq_getElem?_getD, List.getElem?_append_left (by omega), ← List.getD_eq_getElem?_getD]

/-- `Compress` named the resource index `i`: it is in range iff `0 ≤ i < len(ResourcesData)`
(`rac.NoResourceUsed` = -1 and anything else out of range mean "no resource") -/
def ResInRange (rs : List Bytes) (i : Int) : Prop := 0 ≤ i ∧ i < (rs.length : Int)

/-- the wrapped form of the resource that `Compress` named (`[]` for "no resource") -/
def wrappedOf (cw : CodecW) (rs : List Bytes) (i : Int) : Option Bytes :=
  if i < 0 || (rs.length : Int) ≤ i then some [] else
  match cw.wrapResource (rs.getD i.toNat []) with
  | .ok b => some b
  | .error _ => none

/-- `Writer.resourcesIDs` is sound: a non-zero entry `i` is an id under which the ChunkWriter registered
exactly `WrapResource(ResourcesData[i])` -/
def IdsOK (cw : CodecW) (w : Writer) : Prop :=
  w.chunkWriter.RL ∧ w.resourcesIDs.length = w.resourcesData.length ∧
  ∀ i, i < w.resourcesIDs.length → w.resourcesIDs.getD i 0 ≠ 0 →
    w.resourcesIDs.getD i 0 ≤ w.chunkWriter.resLog.length ∧
    cw.wrapResource (w.resourcesData.getD i []) =
      .ok (resAt w.chunkWriter.resLog.reverse (w.resourcesIDs.getD i 0))

/-- **`useResource`'s bookkeeping.**  On success the returned id is 0 iff the index is out of range, it is an
id the ChunkWriter knows, and the bytes registered under it are `WrapResource(ResourcesData[i])`; resources are
only ever appended; the table stays sound.  On failure the error is recorded. -/
theorem Writer.useResourceR (cw : CodecW) (w : Writer) (i : Int) (hids : IdsOK cw w) :
    ((Writer.useResource cw w i).2.2 = none →
      IdsOK cw (Writer.useResource cw w i).1 ∧
      (∃ ext, (Writer.useResource cw w i).1.chunkWriter.resLog.reverse = w.chunkWriter.resLog.reverse ++ ext) ∧
      (Writer.useResource cw w i).2.1 ≤ (Writer.useResource cw w i).1.chunkWriter.resLog.length ∧
      wrappedOf cw w.resourcesData i =
        some (resAt (Writer.useResource cw w i).1.chunkWriter.resLog.reverse (Writer.useResource cw w i).2.1) ∧
      ((Writer.useResource cw w i).2.1 ≠ 0 → ResInRange w.resourcesData i)) ∧
    ((Writer.useResource cw w i).2.2 ≠ none → (Writer.useResource cw w i).1.err ≠ none) := by
  obtain ⟨hrl, hlen, hall⟩ := hids
  unfold Writer.useResource
  by_cases hr : (decide (i < 0) || decide ((w.resourcesIDs.length : Int) ≤ i)) = true
  · rw [if_pos hr]
    refine ⟨fun _ => ⟨⟨hrl, hlen, hall⟩, ⟨[], by simp⟩, Nat.zero_le _, ?_, fun h => absurd rfl h⟩, fun h => absurd rfl h⟩
    unfold wrappedOf
    rw [← hlen, if_pos hr]; rfl
  · rw [if_neg hr]
    have hr' : 0 ≤ i ∧ i < (w.resourcesIDs.length : Int) := by
      simp only [Bool.or_eq_true, decide_eq_true_eq, not_or, Int.not_lt, Int.not_le] at hr
      exact hr
    have hin : i.toNat < w.resourcesIDs.length := by omega
    have hwo : wrappedOf cw w.resourcesData i =
        match cw.wrapResource (w.resourcesData.getD i.toNat []) with
        | .ok b => some b
        | .error _ => none := by
      unfold wrappedOf
      rw [← hlen, if_neg hr]
    have hrange : ResInRange w.resourcesData i := ⟨hr'.1, by rw [← hlen]; exact hr'.2⟩
    simp only
    by_cases hid : (w.resourcesIDs.getD i.toNat 0 != 0) = true
    · rw [if_pos hid]
      have hid' : w.resourcesIDs.getD i.toNat 0 ≠ 0 := by simpa using hid
      obtain ⟨h1, h2⟩ := hall _ hin hid'
      refine ⟨fun _ => ⟨⟨hrl, hlen, hall⟩, ⟨[], by simp⟩, h1, ?_, fun _ => hrange⟩, fun h => absurd rfl h⟩
      rw [hwo, h2]
    · rw [if_neg hid]
      cases hwr : cw.wrapResource (w.resourcesData.getD i.toNat []) with
      | error e => exact ⟨fun h => by simp at h, fun _ => by simp⟩
      | ok wrapped =>
        simp only
        have har := CW.addResource_res w.chunkWriter wrapped hrl
        generalize w.chunkWriter.addResource wrapped = ar at *
        obtain ⟨c, id, e⟩ := ar
        simp only at har ⊢
        cases e with
        | some e => exact ⟨fun h => by simp at h, fun _ => by simp⟩
        | none =>
          simp only
          obtain ⟨a1, a2, a3⟩ := har.1 rfl
          have hrev : c.resLog.reverse = w.chunkWriter.resLog.reverse ++ [wrapped] := by rw [a1]; simp
          have hnew : resAt c.resLog.reverse id = wrapped := by
            unfold resAt
            rw [if_neg (by omega), hrev, a2]
            simp
          refine ⟨fun _ => ⟨⟨a3, by simpa using hlen, ?_⟩, ⟨[wrapped], hrev⟩, by rw [a1, a2]; simp, ?_,
            fun _ => hrange⟩, fun h => absurd rfl h⟩
          · intro j hj hjne
            simp only [List.length_set] at hj
            simp only at hjne ⊢
            by_cases hji : j = i.toNat
            · subst hji
              rw [List.getD_eq_getElem?_getD, List.getElem?_set_self hin] at hjne ⊢
              simp only [Option.getD_some] at hjne ⊢
              exact ⟨by rw [a1, a2]; simp, by rw [hnew]; exact hwr⟩
            · rw [List.getD_eq_getElem?_getD, List.getElem?_set_ne (Ne.symm hji), ← List.getD_eq_getElem?_getD] at hjne ⊢
              obtain ⟨h1, h2⟩ := hall j hj hjne
              refine ⟨by rw [a1, List.length_cons]; omega, ?_⟩
              rw [hrev, resAt_append _ _ _ (by simpa using h1)]; exact h2
          · rw [hwo, hwr, hnew]

end WuffsVerif.Rac
