/-
C12, the Wuffs formatter, idempotence, part 3: `measureVarNameLength` (the look-ahead over the
following lines that aligns the ":" of consecutive declarations) computes the same number on the
source tokens and on the tokens read back from the output.  Both are equal to `measureP`, the same
walk over the output's line pieces: consecutive token pieces are exactly the consecutive source
lines (`SrcAdj`, established by `Render`'s first run), and the output puts consecutive pieces on
consecutive lines.  The hypothesis `numColonFree` (no numeric literal directly before a ":") makes
the measured name the same text in both runs.  Core Lean only.
-/
import WuffsVerif.Proof.RenderIdemStep

namespace WuffsVerif.Render
open WuffsVerif.FmtToken WuffsVerif.Gen.C12

/-! ### no number directly before a ":" -/

/-- no numeric literal is directly followed by ":" (the parser only accepts a name there) -/
def numColonFree : List Tok → Bool
  | a :: b :: r => !(numHead a && b.id == idColon) && numColonFree (b :: r)
  | _ => true

theorem numColonFree_getElem : ∀ (l : List Tok) (i : Nat) (a b : Tok), numColonFree l = true →
    l[i]? = some a → l[i + 1]? = some b → b.id = idColon → numHead a = false := by
  intro l
  induction l with
  | nil => intro i a b _ h; simp at h
  | cons x xs ih =>
    intro i a b hf ha hb hid
    cases xs with
    | nil => simp at hb
    | cons y ys =>
      unfold numColonFree at hf
      rw [Bool.and_eq_true] at hf
      cases i with
      | zero =>
        simp only [List.getElem?_cons_zero, Option.some.injEq, Nat.zero_add, List.getElem?_cons_succ] at ha hb
        subst ha; subst hb
        have := hf.1
        simp only [hid, beq_self_eq_true, Bool.and_true, Bool.not_eq_true'] at this
        exact this
      | succ i =>
        simp only [List.getElem?_cons_succ] at ha hb
        exact ih i a b hf.2 ha (by simpa using hb) hid

theorem numColonFree_append : ∀ (l1 l2 : List Tok), numColonFree (l1 ++ l2) = true →
    numColonFree l1 = true ∧ numColonFree l2 = true := by
  intro l1
  induction l1 with
  | nil => intro l2 h; exact ⟨rfl, h⟩
  | cons x xs ih =>
    intro l2 h
    cases xs with
    | nil =>
      refine ⟨rfl, ?_⟩
      cases l2 with
      | nil => rfl
      | cons y ys =>
        simp only [List.cons_append, List.nil_append] at h
        unfold numColonFree at h
        rw [Bool.and_eq_true] at h
        exact h.2
    | cons y ys =>
      simp only [List.cons_append] at h ih
      unfold numColonFree at h
      rw [Bool.and_eq_true] at h
      obtain ⟨h1, h2⟩ := ih l2 h.2
      refine ⟨?_, h2⟩
      unfold numColonFree
      rw [Bool.and_eq_true]
      exact ⟨h.1, h1⟩

theorem numColonFree_flatMap : ∀ (ps : List Piece), numColonFree (ps.flatMap Piece.src) = true →
    ∀ p ∈ ps, numColonFree p.src = true := by
  intro ps
  induction ps with
  | nil => intro _ p hp; simp at hp
  | cons q qs ih =>
    intro h p hp
    rw [List.flatMap_cons] at h
    obtain ⟨h1, h2⟩ := numColonFree_append _ _ h
    rcases List.mem_cons.mp hp with rfl | hp
    · exact h1
    · exact ih h2 p hp

/-! ### pieces -/

def Piece.isToks : Piece → Bool
  | .toks .. => true
  | _ => false

theorem Piece.src_of_not_toks {p : Piece} (h : p.isToks = false) : p.src = [] := by
  cases p <;> simp_all [Piece.isToks, Piece.src]

theorem Piece.out_of_not_toks {p : Piece} (h : p.isToks = false) (l : Nat) : p.out l = [] := by
  cases p <;> simp_all [Piece.isToks, Piece.out]

/-- the trailing semicolons of the source line are ";" tokens -/
def Piece.ok3 : Piece → Prop
  | .toks _ _ _ _ _ semis => ∀ t ∈ semis, t.id = idSemicolon
  | _ => True

/-- the walk of `measureVarNameLength`'s loop over the line pieces that follow: as long as the next
piece is a line of tokens with a ":" at index `x`, take the maximum with the length of the token
before it -/
def measureP (x : Nat) : Nat → List Piece → Nat
  | len, [] => len
  | len, p :: r =>
    if p.isToks then
      match p.src[x]?, p.src[x - 1]? with
      | some rx, some rn => if rx.id == idColon then measureP x (max len rn.text.length) r else len
      | _, _ => len
    else len

/-- `measureVarNameLength` of the line `lt`, the following lines given as pieces -/
def measureVP (lt : List Tok) (rest : List Piece) : Nat :=
  match findColon lt with
  | none => 0
  | some 0 => 0
  | some x =>
    match lt[x - 1]? with
    | some tn => measureP x tn.text.length rest
    | none => 0

/-! ### the loop -/

/-- the next token is not on the next line: the loop stops -/
theorem measureLoop_stop (x f line len : Nat) (rem : List Tok)
    (h : ∀ t, rem.head? = some t → t.line ≠ line + 1) : measureLoop x f line len rem = len := by
  cases f with
  | zero => rfl
  | succ f =>
    rw [measureLoop]
    split
    · rename_i r0 rx rn h0 _ _
      have := h r0 h0
      have : (r0.line == line + 1) = false := by simpa using this
      simp [this]
    · rfl

/-- the next line `G` is on the next line number, `R` are the lines after it -/
theorem measureLoop_line (x f line len : Nat) (hx : 1 ≤ x) (G R : List Tok) (hG : G ≠ [])
    (hGl : ∀ t ∈ G, t.line = line + 1) (hR : ∀ t ∈ R, t.line ≠ line + 1) :
    measureLoop x (f + 1) line len (G ++ R) =
      match G[x]?, G[x - 1]? with
      | some rx, some rn =>
        if rx.id == idColon then measureLoop x f (line + 1) (max len rn.text.length) R else len
      | _, _ => len := by
  rw [measureLoop]
  obtain ⟨g0, gs, rfl⟩ : ∃ g0 gs, G = g0 :: gs := by
    cases G with
    | nil => exact absurd rfl hG
    | cons a as => exact ⟨a, as, rfl⟩
  have hhead : ((g0 :: gs) ++ R).head? = some g0 := rfl
  have hg0 : g0.line = line + 1 := hGl g0 (by simp)
  by_cases hlt : x < (g0 :: gs).length
  · have h1 : ((g0 :: gs) ++ R)[x]? = (g0 :: gs)[x]? := List.getElem?_append_left hlt
    have h2 : ((g0 :: gs) ++ R)[x - 1]? = (g0 :: gs)[x - 1]? := List.getElem?_append_left (by omega)
    rw [hhead, h1, h2]
    obtain ⟨rx, hrx⟩ : ∃ rx, (g0 :: gs)[x]? = some rx := ⟨_, List.getElem?_eq_getElem hlt⟩
    obtain ⟨rn, hrn⟩ : ∃ rn, (g0 :: gs)[x - 1]? = some rn := ⟨_, List.getElem?_eq_getElem (by omega)⟩
    rw [hrx, hrn]
    simp only
    have hrxl : rx.line = line + 1 := hGl rx (List.mem_of_getElem? hrx)
    have hlen : decide (((g0 :: gs) ++ R).length > x) = true := by
      simp only [List.length_append, decide_eq_true_eq]; omega
    simp only [hlen, hg0, hrxl, beq_self_eq_true, Bool.true_and]
    by_cases hc : (rx.id == idColon) = true
    · simp only [hc, ↓reduceIte]
      have hdrop : ((g0 :: gs) ++ R).drop (x + 1) = (g0 :: gs).drop (x + 1) ++ R := by
        rw [List.drop_append_of_le_length (by omega)]
      have htd := takeWhile_dropWhile_append_stop (fun t : Tok => t.line == line + 1) ((g0 :: gs).drop (x + 1)) R
        (fun t ht => by simpa using hGl t (List.mem_of_mem_drop ht))
        (fun t ht => by
          have hm : t ∈ R := by
            cases R with
            | nil => simp at ht
            | cons a as => simp at ht; subst ht; simp
          simpa using hR t hm)
      rw [hdrop, htd.2]
    · simp only [hc, Bool.false_eq_true, ↓reduceIte]
  · have hG1 : (g0 :: gs)[x]? = none := by rw [List.getElem?_eq_none_iff]; omega
    rw [hG1]
    simp only
    split
    · rename_i r0 rx rn _ hrx _
      have hm : rx ∈ R := by
        rw [List.getElem?_append_right (by omega)] at hrx
        exact List.mem_of_getElem? hrx
      have : (rx.line == line + 1) = false := by simpa using hR rx hm
      simp [this]
    · rfl

/-! ### the source side -/

/-- Source adjacency of `Render`'s pieces: a line of tokens directly after a line of tokens is the
next source line; if something else (a blank line, a comment) follows a line of tokens, the next
source token is not on the next source line.  `prev`: the source line of the piece before, if that
was a line of tokens. -/
def SrcAdj : Option Nat → List Piece → Prop
  | _, [] => True
  | prev, p :: r =>
    if p.isToks then
      ∃ L, (∀ t ∈ p.src, t.line = L) ∧ (∀ A, prev = some A → L = A + 1) ∧
        (∀ t ∈ r.flatMap Piece.src, L + 1 ≤ t.line) ∧ SrcAdj (some L) r
    else
      (∀ A, prev = some A → ∀ t, ((p :: r).flatMap Piece.src).head? = some t → t.line ≠ A + 1) ∧ SrcAdj none r

theorem SrcAdj.weaken : ∀ (ps : List Piece) (prev : Option Nat), SrcAdj prev ps → SrcAdj none ps := by
  intro ps prev h
  cases ps with
  | nil => trivial
  | cons p r =>
    unfold SrcAdj at h ⊢
    split
    · rename_i ht
      rw [if_pos ht] at h
      obtain ⟨L, h1, _, h3, h4⟩ := h
      exact ⟨L, h1, fun A hA => absurd hA (by simp), h3, h4⟩
    · rename_i ht
      rw [if_neg ht] at h
      exact ⟨fun A hA => absurd hA (by simp), h.2⟩

/-- pieces that are not lines of tokens -/
def NoToks (ps : List Piece) : Prop := ∀ p ∈ ps, p.isToks = false

theorem measureP_noToks (x len : Nat) (tail : List Piece) (h : NoToks tail) : measureP x len tail = len := by
  cases tail with
  | nil => rfl
  | cons p r =>
    unfold measureP
    rw [h p (by simp)]
    rfl

/-- the loop over the source tokens that follow is the walk over the pieces -/
theorem measure_src (x : Nat) (hx : 1 ≤ x) (tail : List Piece) (htail : NoToks tail) :
    ∀ (ps : List Piece) (L len f : Nat), SrcAdj (some L) ps →
      (∀ p ∈ ps, p.isToks = true → p.src ≠ []) → (ps.flatMap Piece.src).length < f →
      measureLoop x f L len (ps.flatMap Piece.src) = measureP x len (ps ++ tail) := by
  intro ps
  induction ps with
  | nil =>
    intro L len f _ _ _
    rw [List.nil_append, measureP_noToks x len tail htail]
    exact measureLoop_stop x f L len [] (fun t ht => by simp at ht)
  | cons p r ih =>
    intro L len f hadj hne hf
    unfold SrcAdj at hadj
    by_cases ht : p.isToks = true
    · rw [if_pos ht] at hadj
      obtain ⟨L', hlines, hprev, hgt, hrec⟩ := hadj
      have hL' : L' = L + 1 := hprev L rfl
      subst hL'
      rw [List.flatMap_cons] at hf ⊢
      have hsrc : p.src ≠ [] := hne p (by simp) ht
      have hlen1 : 1 ≤ p.src.length := by
        cases hq : p.src with
        | nil => exact absurd hq hsrc
        | cons a as => simp
      obtain ⟨f', rfl⟩ : ∃ f', f = f' + 1 := ⟨f - 1, by omega⟩
      rw [measureLoop_line x f' L len hx p.src _ hsrc hlines (fun t ht' => by have := hgt t ht'; omega)]
      rw [List.cons_append, measureP, if_pos ht]
      have hrest : ∀ len', measureLoop x f' (L + 1) len' (r.flatMap Piece.src) = measureP x len' (r ++ tail) := by
        intro len'
        apply ih (L + 1) len' f' hrec (fun q hq => hne q (by simp [hq]))
        simp only [List.length_append] at hf
        omega
      cases h1 : p.src[x]? with
      | none => rfl
      | some rx =>
        cases h2 : p.src[x - 1]? with
        | none => rfl
        | some rn =>
          simp only
          rw [hrest]
    · have ht' : p.isToks = false := by simpa using ht
      rw [if_neg ht] at hadj
      rw [measureLoop_stop x f L len _ (hadj.1 L rfl), List.cons_append, measureP, if_neg ht]

/-- `measureVarNameLength` on the source tokens, as a walk over the pieces -/
theorem measureVNL_src (lt : List Tok) (L : Nat) (hlt : ∀ t ∈ lt, t.line = L) (tail : List Piece)
    (htail : NoToks tail) (ps : List Piece) (hadj : SrcAdj (some L) ps)
    (hne : ∀ p ∈ ps, p.isToks = true → p.src ≠ []) :
    measureVarNameLength lt (ps.flatMap Piece.src) = measureVP lt (ps ++ tail) := by
  unfold measureVarNameLength measureVP
  cases hc : findColon lt with
  | none => rfl
  | some x =>
    cases x with
    | zero => rfl
    | succ x =>
      simp only [Nat.add_sub_cancel]
      cases hn : lt[x]? with
      | none =>
        cases lt.head? <;> rfl
      | some tn =>
        have hhead : ∃ t0, lt.head? = some t0 ∧ t0.line = L := by
          cases lt with
          | nil => simp at hn
          | cons a as => exact ⟨a, rfl, hlt a (by simp)⟩
        obtain ⟨t0, ht0, ht0l⟩ := hhead
        rw [ht0]
        simp only
        rw [ht0l]
        exact measure_src (x + 1) (by omega) tail htail ps L _ _ hadj hne (Nat.lt_succ_self _)

/-! ### the output side -/

/-- no number directly before a ":" on the piece's source line -/
def Piece.numOK (p : Piece) : Prop := numColonFree p.src = true

/-- the source tokens of a piece and the tokens read back from it -/
theorem piece_outRel (p : Piece) (hok : p.ok) (hok3 : p.ok3) (l : Nat) : Forall2 OutRel p.src (p.out l) := by
  cases p with
  | blank => exact Forall2.nil
  | comment k com => exact Forall2.nil
  | toks k names m lts com semis =>
    obtain ⟨_, hlw, _, _, _, hs, hlen⟩ := hok
    simp only [Piece.src, Piece.out]
    apply Forall2.append
    · apply Forall2.append
      · exact Forall2.map_right _ _ (fun t _ => outRel_raw t l)
      · exact Forall2.map_right _ _ (fun t ht => outRel_retok (hlw t ht) l)
    · by_cases he : endsStatement lts = true
      · simp only [he, ↓reduceIte] at hlen ⊢
        match semis, hlen, hs, hok3 with
        | [y], _, hs, hok3 =>
          have hid : y.id = idSemicolon := hok3 y (by simp)
          have htx : y.text = [59] := hs y (by simp)
          refine Forall2.cons ⟨⟨hid.symm, ?_⟩, fun _ => htx.symm⟩ Forall2.nil
          rw [htx]
      · simp only [he, Bool.false_eq_true, ↓reduceIte] at hlen ⊢
        have : semis = [] := List.length_eq_zero_iff.mp hlen
        rw [this]
        exact Forall2.nil

theorem out_ne_nil {p : Piece} (hok : p.ok) (ht : p.isToks = true) (l : Nat) : p.out l ≠ [] := by
  cases p with
  | blank => simp [Piece.isToks] at ht
  | comment k com => simp [Piece.isToks] at ht
  | toks k names m lts com semis =>
    obtain ⟨_, _, hne, _⟩ := hok
    simp only [Piece.out]
    intro h
    simp only [List.append_eq_nil_iff, List.map_eq_nil_iff] at h
    exact hne h.1.2

/-- the loop over the tokens read back from the pieces that follow is the walk over the pieces -/
theorem measure_out (x : Nat) (hx : 1 ≤ x) :
    ∀ (ps : List Piece) (L len f : Nat), (∀ p ∈ ps, p.ok ∧ p.ok3 ∧ p.numOK) →
      (piecesOut (L + 1) ps).length < f →
      measureLoop x f L len (piecesOut (L + 1) ps) = measureP x len ps := by
  intro ps
  induction ps with
  | nil =>
    intro L len f _ _
    exact measureLoop_stop x f L len [] (fun t ht => by simp at ht)
  | cons p r ih =>
    intro L len f hok hf
    rw [piecesOut] at hf ⊢
    have hRl : ∀ t ∈ piecesOut (L + 1 + 1) r, t.line ≠ L + 1 := by
      intro t ht
      have := piecesOut_lines r (L + 1 + 1) t ht
      omega
    by_cases ht : p.isToks = true
    · obtain ⟨hpok, hpok3, hpnum⟩ := hok p (by simp)
      have hG := out_ne_nil hpok ht (L + 1)
      have hlen1 : 1 ≤ (p.out (L + 1)).length := by
        cases hq : p.out (L + 1) with
        | nil => exact absurd hq hG
        | cons a as => simp
      obtain ⟨f', rfl⟩ : ∃ f', f = f' + 1 := ⟨f - 1, by omega⟩
      rw [measureLoop_line x f' L len hx (p.out (L + 1)) _ hG (out_lines p (L + 1)) hRl, measureP, if_pos ht]
      have hrel := piece_outRel p hpok hpok3 (L + 1)
      have hrest : ∀ len', measureLoop x f' (L + 1) len' (piecesOut (L + 1 + 1) r) = measureP x len' r := by
        intro len'
        apply ih (L + 1) len' f' (fun q hq => hok q (by simp [hq]))
        simp only [List.length_append] at hf
        omega
      cases h1 : p.src[x]? with
      | none => rw [hrel.getElem?_none x h1]
      | some rx =>
        obtain ⟨rx', hrx', hrxr⟩ := hrel.getElem? x rx h1
        rw [hrx']
        cases h2 : p.src[x - 1]? with
        | none => rw [hrel.getElem?_none (x - 1) h2]
        | some rn =>
          obtain ⟨rn', hrn', hrnr⟩ := hrel.getElem? (x - 1) rn h2
          rw [hrn']
          simp only
          rw [hrxr.1.1]
          by_cases hc : (rx.id == idColon) = true
          · simp only [hc, ↓reduceIte]
            have hnum : numHead rn = false := by
              have e : x - 1 + 1 = x := by omega
              exact numColonFree_getElem p.src (x - 1) rn rx hpnum h2 (by rw [e]; exact h1) (by simpa using hc)
            rw [hrnr.2 hnum, hrest]
          · simp only [hc, Bool.false_eq_true, ↓reduceIte]
    · have ht' : p.isToks = false := by simpa using ht
      rw [Piece.out_of_not_toks ht', List.nil_append, measureP, if_neg ht]
      exact measureLoop_stop x f L len _ (fun t hth => hRl t (List.mem_of_mem_head? hth))

end WuffsVerif.Render
