/-
C12, the Wuffs formatter, idempotence, part 4: the shape of `Render`'s output, independent of line
numbers (`Gen`): runs of comment lines (`CRun`: indented comments, each optionally preceded by
ONE blank line, never at the very start) between laid-out token lines (`layoutPiece` of
`lineLayout`, the look-ahead taken over the pieces that follow), and what the SECOND run of
`Render` does on the comment lines of such an output (`flush_crun`, `trailing_crun`): it writes
them again, byte for byte.  Core Lean only.
-/
import WuffsVerif.Proof.RenderIdemMeasure

namespace WuffsVerif.Render
open WuffsVerif.FmtToken WuffsVerif.Gen.C12

/-- the part of `Render`'s state that does not mention line numbers -/
structure ASt where
  indent : Nat
  inStruct : Bool
  vnl : Nat
  hanging : Bool

def absOf (s : RSt) : ASt := ⟨s.indent, s.inStruct, s.varNameLength, s.prevLineHanging⟩

def optBlank (b : Bool) : List Piece := if b then [Piece.blank] else []

/-- comment lines as `Render` writes them: indented by `k`, each optionally preceded by one blank
line; `first`: nothing has been written yet (then no blank line comes first) -/
inductive CRun (k : Nat) : Bool → List Piece → Prop
  | nil (first : Bool) : CRun k first []
  | cons (first b : Bool) (com : Bytes) (r : List Piece) : (first = true → b = false) → CRun k false r →
      CRun k first (optBlank b ++ Piece.comment k com :: r)

/-- the line of tokens `lt` laid out by `L` -/
def layoutPiece (L : Layout) (lt : List Tok) (com : Bytes) (semis : List Tok) : Piece :=
  .toks (4 * L.z).toNat (lt.take L.c) L.pad (lt.drop L.c) com semis

/-- `prevLineHanging` after a line -/
def nextHanging (stripped : Bool) (lts : List Tok) : Bool :=
  !stripped && (lts.getLast?.map (·.id)).getD 0 != idOpenCurly &&
    (lts.getLast?.map (·.id)).getD 0 != idOpenDoubleCurly

/-- The pieces `Render` generates from the line-number-free state `σ`: comment lines and laid-out
token lines, then the trailing comment lines. -/
inductive Gen : ASt → Bool → List Piece → Prop
  | trailing (σ : ASt) (first : Bool) (cs : List Piece) :
      CRun (4 * (σ.indent : Int)).toNat first cs → Gen σ first cs
  | line (σ : ASt) (first b : Bool) (cs rest : List Piece) (lt semis : List Tok) (com : Bytes) (L : Layout)
      (i' : Nat) :
      CRun (4 * ((σ.indent : Int) + if σ.hanging then 2 else 0)).toNat first cs →
      (first = true → cs = [] → b = false) →
      lt ≠ [] →
      L = lineLayout σ.indent σ.hanging σ.inStruct (if (b || !cs.isEmpty) then 0 else σ.vnl) lt (measureVP lt rest) →
      lineIndent σ.indent (lt.drop L.c) = some i' →
      Gen ⟨i', L.inStruct, L.vnl, nextHanging (endsStatement (lt.drop L.c)) (lt.drop L.c)⟩ false rest →
      Gen σ first (cs ++ optBlank b ++ layoutPiece L lt com semis :: rest)

theorem optBlank_noToks (b : Bool) : NoToks (optBlank b) := by
  intro p hp
  cases b with
  | false => simp [optBlank] at hp
  | true => simp [optBlank] at hp; subst hp; rfl

theorem crun_noToks {k : Nat} {first : Bool} {cs : List Piece} (h : CRun k first cs) : NoToks cs := by
  induction h with
  | nil => intro p hp; simp at hp
  | cons first b com r _ _ ih =>
    intro p hp
    rcases List.mem_append.mp hp with hp | hp
    · exact optBlank_noToks b p hp
    · rcases List.mem_cons.mp hp with rfl | hp
      · rfl
      · exact ih p hp

theorem piecesOut_append : ∀ (xs ys : List Piece) (l : Nat),
    piecesOut l (xs ++ ys) = piecesOut l xs ++ piecesOut (l + xs.length) ys := by
  intro xs
  induction xs with
  | nil => intro ys l; simp [piecesOut]
  | cons p ps ih =>
    intro ys l
    rw [List.cons_append, piecesOut, piecesOut, ih ys (l + 1), List.append_assoc]
    have : l + 1 + ps.length = l + (p :: ps).length := by simp only [List.length_cons]; omega
    rw [this]

theorem piecesOut_noToks : ∀ (xs : List Piece) (l : Nat), NoToks xs → piecesOut l xs = [] := by
  intro xs
  induction xs with
  | nil => intro _ _; rfl
  | cons p ps ih =>
    intro l h
    rw [piecesOut, Piece.out_of_not_toks (h p (by simp)), ih (l + 1) (fun q hq => h q (by simp [hq]))]
    rfl

theorem piecesBytes_append (xs ys : List Piece) : piecesBytes (xs ++ ys) = piecesBytes xs ++ piecesBytes ys := by
  simp [piecesBytes]

/-! ### comments by line -/

theorem commentText_getC (C : Array Bytes) (line : Nat) (indent : Int) (oe : Bool) :
    commentText C line indent oe =
      if (getC C line).isEmpty then []
      else (if oe then tabs indent else [32, 32]) ++ stripTrailingSpaces (getC C line) := by
  unfold commentText getC
  cases C[line]? with
  | none => rfl
  | some com => rfl

theorem strip_nonempty {com : Bytes} (hw : wfComment com = true) (hne : com ≠ []) :
    (stripTrailingSpaces com).isEmpty = false := by
  rw [strip_isEmpty hw]
  simpa using hne

theorem tabs_strip_nonempty {com : Bytes} (hw : wfComment com = true) (hne : com ≠ []) (ci : Int) :
    (tabs ci ++ stripTrailingSpaces com).isEmpty = false := by
  have := strip_nonempty hw hne
  cases h : stripTrailingSpaces com with
  | nil => rw [h] at this; simp at this
  | cons a as => simp

/-! ### the second run over comment lines: `flushComments` -/

/-- lines without a comment are skipped -/
theorem flush_skip (C : Array Bytes) (ci : Int) (upto : Nat) : ∀ (n f : Nat) (s : RSt),
    (∀ i, s.commentLine ≤ i → i < s.commentLine + n → getC C i = []) → s.commentLine + n ≤ upto →
    flushComments C ci upto (n + f) s = flushComments C ci upto f { s with commentLine := s.commentLine + n } := by
  intro n
  induction n with
  | zero => intro f s _ _; simp
  | succ n ih =>
    intro f s hC hle
    have e : n + 1 + f = (n + f) + 1 := by omega
    rw [e, flushComments, if_pos (by omega)]
    have h0 : getC C s.commentLine = [] := hC s.commentLine (Nat.le_refl _) (by omega)
    simp only [commentText_getC, h0, List.isEmpty_nil, ↓reduceIte]
    rw [ih f _ (fun i h1 h2 => hC i (by simp only at h1; omega) (by simp only at h2; omega)) (by simp only; omega)]
    simp only [Nat.add_assoc, Nat.add_comm 1 n]

theorem flush_done (C : Array Bytes) (ci : Int) (upto f : Nat) (s : RSt) (h : upto ≤ s.commentLine) :
    flushComments C ci upto f s = s := by
  cases f with
  | zero => rfl
  | succ f => rw [flushComments, if_neg (by omega)]

/-- The second run flushes a run of comment lines: it writes the same bytes again. -/
theorem flush_crun (C : Array Bytes) (ci : Int) (k : Nat) (hk : k = (4 * ci).toNat) (upto : Nat) :
    ∀ (first : Bool) (cs : List Piece), CRun k first cs → (∀ p ∈ cs, p.ok) →
    ∀ (l f : Nat) (s : RSt), s.commentLine ≤ l → (∀ i, s.commentLine ≤ i → i < l → getC C i = []) →
      (first = true → l ≤ s.prevLine + 1) → (first = false → s.prevLine + 1 = l) →
      (∀ i, l ≤ i → i < upto → getC C i = ((cs[i - l]?).map Piece.outComment).getD []) →
      l + cs.length ≤ upto → upto - s.commentLine ≤ f →
      flushComments C ci upto f s =
        ⟨s.out ++ piecesBytes cs, s.indent, upto, s.inStruct,
          if cs.isEmpty then s.varNameLength else 0,
          if cs.isEmpty then s.prevLine else l + cs.length - 1, s.prevLineHanging⟩ := by
  intro first cs hrun
  induction hrun with
  | nil first =>
    intro _ l f s hcl hempty _ _ hC hlen hf
    simp only [List.length_nil, Nat.add_zero] at hlen
    obtain ⟨f', rfl⟩ : ∃ f', f = (upto - s.commentLine) + f' := ⟨f - (upto - s.commentLine), by omega⟩
    rw [flush_skip C ci upto _ f' s (fun i h1 h2 => by
      by_cases hi : i < l
      · exact hempty i h1 hi
      · have := hC i (by omega) (by omega)
        simpa using this) (by omega)]
    rw [flush_done _ _ _ _ _ (by simp only; omega)]
    have e : s.commentLine + (upto - s.commentLine) = upto := by omega
    simp [piecesBytes, e]
  | cons first b com r hb _ ih =>
    intro hok l f s hcl hempty hfirst hnfirst hC hlen hf
    have hokc : (Piece.comment k com).ok := hok _ (by simp)
    obtain ⟨hw, hne⟩ := hokc
    have hblen : (optBlank b).length = if b then 1 else 0 := by cases b <;> rfl
    -- the comment's line
    let j := l + (if b then 1 else 0)
    have hlenj : j + 1 + r.length ≤ upto := by
      simp only [List.length_append, List.length_cons, hblen] at hlen
      simp only [j]; omega
    have hCj : getC C j = stripTrailingSpaces com := by
      have := hC j (by simp only [j]; omega) (by omega)
      rw [this]
      cases b <;> simp [optBlank, j, Piece.outComment]
    have hemptyj : ∀ i, s.commentLine ≤ i → i < j → getC C i = [] := by
      intro i h1 h2
      by_cases hi : i < l
      · exact hempty i h1 hi
      · -- the blank line
        have hil : i = l := by simp only [j] at h2; split at h2 <;> omega
        have hbt : b = true := by
          cases b with
          | true => rfl
          | false => simp only [j] at h2; simp at h2; omega
        subst hil; subst hbt
        have := hC i (Nat.le_refl _) (by omega)
        rw [this]
        simp [optBlank, Piece.outComment]
    obtain ⟨f', rfl⟩ : ∃ f', f = (j - s.commentLine) + (f' + 1) :=
      ⟨f - (j - s.commentLine) - 1, by omega⟩
    have hjcl : s.commentLine ≤ j := by simp only [j]; omega
    rw [flush_skip C ci upto _ (f' + 1) s (fun i h1 h2 => hemptyj i h1 (by omega)) (by omega)]
    have e : s.commentLine + (j - s.commentLine) = j := by omega
    rw [e, flushComments, if_pos (by simp only; omega)]
    simp only [commentText_getC, hCj, strip_idem, strip_nonempty hw hne, Bool.false_eq_true, ↓reduceIte,
      tabs_strip_nonempty hw hne]
    -- the blank-line decision
    have hdec : (j > s.prevLine + 1) = (b = true) := by
      cases hfb : first with
      | true =>
        have hbf := hb hfb
        have := hfirst hfb
        subst hbf
        simp only [j, Bool.false_eq_true, ↓reduceIte, Nat.add_zero, gt_iff_lt, eq_iff_iff, iff_false, Nat.not_lt]
        omega
      | false =>
        have := hnfirst hfb
        cases b with
        | true => simp only [j, ↓reduceIte, gt_iff_lt, eq_iff_iff, iff_true]; omega
        | false =>
          simp only [j, Bool.false_eq_true, ↓reduceIte, Nat.add_zero, gt_iff_lt, eq_iff_iff, iff_false, Nat.not_lt]
          omega
    rw [ih (fun p hp => hok p (by simp [hp])) (j + 1) f' _ (by simp only; omega)
      (fun i h1 h2 => by simp only at h1; omega) (fun h => absurd h (by simp)) (fun _ => rfl)
      (fun i h1 h2 => by
        have := hC i (by omega) h2
        rw [this]
        have hidx : i - l = (optBlank b).length + ((i - (j + 1)) + 1) := by
          rw [hblen]; simp only [j]; omega
        rw [hidx, List.getElem?_append_right (by omega)]
        simp)
      (by omega) (by simp only; omega)]
    have hcsne : (optBlank b ++ Piece.comment k com :: r).isEmpty = false := by simp
    simp only [hcsne, Bool.false_eq_true, ↓reduceIte]
    have hout : piecesBytes (optBlank b ++ Piece.comment k com :: r) =
        (if b = true then [10] else []) ++ (tabs ci ++ stripTrailingSpaces com) ++ [10] ++ piecesBytes r := by
      rw [piecesBytes_append, tabs_replicate, ← hk]
      cases b <;> simp [optBlank, piecesBytes, Piece.bytes]
    rw [hout]
    have e1 : (if j > s.prevLine + 1 then [10] else [] : Bytes) = if b = true then [10] else [] := by
      by_cases hj : j > s.prevLine + 1
      · rw [if_pos hj, if_pos (Eq.mp hdec hj)]
      · rw [if_neg hj, if_neg (fun h => hj (Eq.mpr hdec h))]
    have e2 : (if r.isEmpty = true then 0 else 0 : Nat) = 0 := by split <;> rfl
    have e3 : (if r.isEmpty = true then j else j + 1 + r.length - 1) =
        l + (optBlank b ++ Piece.comment k com :: r).length - 1 := by
      simp only [List.length_append, List.length_cons, hblen]
      cases hr : r.isEmpty with
      | true =>
        have : r = [] := by simpa using hr
        subst this
        simp only [List.length_nil, j, ↓reduceIte]
        split <;> omega
      | false =>
        simp only [Bool.false_eq_true, ↓reduceIte, j]
        split <;> omega
    rw [e1, e2, e3]
    simp only [List.append_assoc]

/-! ### the second run over the trailing comment lines -/

theorem trailing_empty (C : Array Bytes) : ∀ (f : Nat) (s : RSt), (∀ i, s.commentLine ≤ i → getC C i = []) →
    (trailingComments C f s).out = s.out := by
  intro f
  induction f with
  | zero => intro s _; rfl
  | succ f ih =>
    intro s h
    rw [trailingComments]
    split
    · have h0 : getC C s.commentLine = [] := h s.commentLine (Nat.le_refl _)
      simp only [commentText_getC, h0, List.isEmpty_nil, ↓reduceIte]
      exact ih _ (fun i hi => h i (by simp only at hi; omega))
    · rfl

theorem trailing_skip (C : Array Bytes) : ∀ (n f : Nat) (s : RSt),
    (∀ i, s.commentLine ≤ i → i < s.commentLine + n → getC C i = []) → s.commentLine + n ≤ C.size →
    trailingComments C (n + f) s = trailingComments C f { s with commentLine := s.commentLine + n } := by
  intro n
  induction n with
  | zero => intro f s _ _; simp
  | succ n ih =>
    intro f s hC hle
    have e : n + 1 + f = (n + f) + 1 := by omega
    rw [e, trailingComments, if_pos (by omega)]
    have h0 : getC C s.commentLine = [] := hC s.commentLine (Nat.le_refl _) (by omega)
    simp only [commentText_getC, h0, List.isEmpty_nil, ↓reduceIte]
    rw [ih f _ (fun i h1 h2 => hC i (by simp only at h1; omega) (by simp only at h2; omega)) (by simp only; omega)]
    simp only [Nat.add_assoc, Nat.add_comm 1 n]

theorem getC_lt_size (C : Array Bytes) (i : Nat) (h : getC C i ≠ []) : i < C.size := by
  apply Classical.byContradiction
  intro hn
  exact h (getC_ge C i (by omega))

/-- The second run writes the trailing comment lines again, byte for byte. -/
theorem trailing_crun (C : Array Bytes) (k : Nat) :
    ∀ (first : Bool) (cs : List Piece), CRun k first cs → (∀ p ∈ cs, p.ok) →
    ∀ (l f : Nat) (s : RSt), k = (4 * (s.indent : Int)).toNat → s.commentLine ≤ l →
      (∀ i, s.commentLine ≤ i → i < l → getC C i = []) →
      (first = true → l ≤ s.prevLine + 1) → (first = false → s.prevLine + 1 = l) →
      (∀ i, l ≤ i → getC C i = ((cs[i - l]?).map Piece.outComment).getD []) →
      C.size - s.commentLine ≤ f →
      (trailingComments C f s).out = s.out ++ piecesBytes cs := by
  intro first cs hrun
  induction hrun with
  | nil first =>
    intro _ l f s _ hcl hempty _ _ hC _
    rw [trailing_empty C f s (fun i h1 => by
      by_cases hi : i < l
      · exact hempty i h1 hi
      · have := hC i (by omega)
        simpa using this)]
    simp [piecesBytes]
  | cons first b com r hb _ ih =>
    intro hok l f s hk hcl hempty hfirst hnfirst hC hf
    have hokc : (Piece.comment k com).ok := hok _ (by simp)
    obtain ⟨hw, hne⟩ := hokc
    have hblen : (optBlank b).length = if b then 1 else 0 := by cases b <;> rfl
    let j := l + (if b then 1 else 0)
    have hCj : getC C j = stripTrailingSpaces com := by
      have := hC j (by simp only [j]; omega)
      rw [this]
      cases b <;> simp [optBlank, j, Piece.outComment]
    have hjsize : j < C.size := by
      apply getC_lt_size
      rw [hCj]
      intro h0
      have := strip_nonempty hw hne
      rw [h0] at this
      simp at this
    have hemptyj : ∀ i, s.commentLine ≤ i → i < j → getC C i = [] := by
      intro i h1 h2
      by_cases hi : i < l
      · exact hempty i h1 hi
      · have hil : i = l := by simp only [j] at h2; split at h2 <;> omega
        have hbt : b = true := by
          cases b with
          | true => rfl
          | false => simp only [j] at h2; simp at h2; omega
        subst hil; subst hbt
        have := hC i (Nat.le_refl _)
        rw [this]
        simp [optBlank, Piece.outComment]
    obtain ⟨f', rfl⟩ : ∃ f', f = (j - s.commentLine) + (f' + 1) :=
      ⟨f - (j - s.commentLine) - 1, by omega⟩
    have hjcl : s.commentLine ≤ j := by simp only [j]; omega
    rw [trailing_skip C _ (f' + 1) s (fun i h1 h2 => hemptyj i h1 (by omega)) (by omega)]
    have e : s.commentLine + (j - s.commentLine) = j := by omega
    rw [e, trailingComments, if_pos (by simp only; omega)]
    simp only [commentText_getC, hCj, strip_idem, strip_nonempty hw hne, Bool.false_eq_true, ↓reduceIte,
      tabs_strip_nonempty hw hne]
    have hdec : (j > s.prevLine + 1) = (b = true) := by
      cases hfb : first with
      | true =>
        have hbf := hb hfb
        have := hfirst hfb
        subst hbf
        simp only [j, Bool.false_eq_true, ↓reduceIte, Nat.add_zero, gt_iff_lt, eq_iff_iff, iff_false, Nat.not_lt]
        omega
      | false =>
        have := hnfirst hfb
        cases b with
        | true => simp only [j, ↓reduceIte, gt_iff_lt, eq_iff_iff, iff_true]; omega
        | false =>
          simp only [j, Bool.false_eq_true, ↓reduceIte, Nat.add_zero, gt_iff_lt, eq_iff_iff, iff_false, Nat.not_lt]
          omega
    rw [ih (fun p hp => hok p (by simp [hp])) (j + 1) f' _ (by simp only; exact hk) (by simp only; omega)
      (fun i h1 h2 => by simp only at h1; omega) (fun h => absurd h (by simp)) (fun _ => rfl)
      (fun i h1 => by
        have := hC i (by omega)
        rw [this]
        have hidx : i - l = (optBlank b).length + ((i - (j + 1)) + 1) := by
          rw [hblen]; simp only [j]; omega
        rw [hidx, List.getElem?_append_right (by omega)]
        simp)
      (by simp only; omega)]
    have hout : piecesBytes (optBlank b ++ Piece.comment k com :: r) =
        (if b = true then [10] else []) ++ (tabs (s.indent : Int) ++ stripTrailingSpaces com) ++ [10] ++ piecesBytes r := by
      rw [piecesBytes_append, tabs_replicate, ← hk]
      cases b <;> simp [optBlank, piecesBytes, Piece.bytes]
    rw [hout]
    have e1 : (if j > s.prevLine + 1 then [10] else [] : Bytes) = if b = true then [10] else [] := by
      by_cases hj : j > s.prevLine + 1
      · rw [if_pos hj, if_pos (Eq.mp hdec hj)]
      · rw [if_neg hj, if_neg (fun h => hj (Eq.mpr hdec h))]
    rw [e1]
    simp only [List.append_assoc]

end WuffsVerif.Render
