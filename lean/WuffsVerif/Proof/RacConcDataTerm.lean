/-
C14 helper: every API call of the concurrent reader model with data (Model/Rac/ConcData.lean)
RETURNS: there is no infinite run of protocol steps without a new call.  A potential `(rank, pot)`
decreases (lexicographically) with every step that is not the start of a call:

* `rank` orders the phases of `main` inside a call (cancel: stopping > acking > sendRoi > reading >
  between calls; close: stopping > acking > closed);
* `pot` = the acknowledgements / stops still to send + the work left in the pipeline, weighted by
  how far it still has to travel: the part of the file the Manager has not looked at (11 per byte),
  its request in hand, `reqc`, a Worker's unread range (8 per byte), its unsent result, `resc`,
  `completedWorks`, `currWork` (2 per byte not yet copied), buffers on their way back.
-/
import WuffsVerif.Proof.RacConcDataLive2

set_option linter.unusedVariables false
set_option linter.unusedSimpArgs false

namespace WuffsVerif.Rac.ConcD
open WuffsVerif.Rac WuffsVerif.Rac.Conc

def rank : MainPc → Nat
  | .stopping _ true => 6
  | .acking _ true => 5
  | .sendRoi => 4
  | .reading => 3
  | .stopping _ false => 2
  | .acking _ false => 1
  | .idle => 0
  | .closed => 0

/-- stops / acks still to send -/
def hshake (s : DSt) : Nat :=
  match s.main with
  | .stopping k _ => s.ws.length + 1 - k
  | .acking k _ => s.ws.length + 1 - k
  | _ => 0

/-- results on their way to `main`: 2 per byte + `c` -/
def potItems (c : Nat) : List DItem → Nat
  | [] => 0
  | it :: r => 2 * (it.hi - it.lo) + c + potItems c r

/-- requests on their way to a Worker: 8 per byte + 1 -/
def potReqs : List DItem → Nat
  | [] => 0
  | it :: r => 8 * (it.hi - it.lo) + 1 + potReqs r

def potW (w : DW) : Nat :=
  (if w.w.out.isSome then 2 * (w.ohi - w.olo) + 5 else 0) + (if w.w.dr.isSome then 8 * (w.dhi - w.dlo) else 0) + w.w.recyc

def potWs : List DW → Nat
  | [] => 0
  | w :: r => potW w + potWs r

/-- the start of the chunk that contains `p` (`p` itself past the end of the file) -/
def chunkLo (F : File) (p : Nat) : Nat :=
  match findChunk F.chunks p with
  | some c => c.lo
  | none => p

def potMgr (F : File) (m : DM) : Nat :=
  (if m.m.work.isSome then 8 * (m.whi - m.wlo) + 2 else 0) +
  (if m.m.inputOn = false then 11 * (F.size - chunkLo F m.cur) + 1 else 0)

def potCurr (s : DSt) : Nat :=
  match s.curr with
  | some c => 2 * (c.data.length - s.ci) + 2
  | none => 0

def pot (F : File) (s : DSt) : Nat :=
  hshake s + potItems 3 s.completed + potItems 4 s.resc + potReqs s.reqc + potWs s.ws + potMgr F s.mgr + potCurr s

theorem potItems_append (c : Nat) (a b : List DItem) : potItems c (a ++ b) = potItems c a + potItems c b := by
  induction a with
  | nil => simp [potItems]
  | cons y ys ih => simp only [List.cons_append, potItems, ih]; omega

theorem potReqs_append (a b : List DItem) : potReqs (a ++ b) = potReqs a + potReqs b := by
  induction a with
  | nil => simp [potReqs]
  | cons y ys ih => simp only [List.cons_append, potReqs, ih]; omega

theorem potItems_eraseIdx (c : Nat) : ∀ (l : List DItem) (j : Nat) (it : DItem), l[j]? = some it →
    potItems c (l.eraseIdx j) + (2 * (it.hi - it.lo) + c) = potItems c l := by
  intro l
  induction l with
  | nil => intro j it h; simp at h
  | cons y ys ih =>
    intro j it h
    cases j with
    | zero => simp at h; subst h; simp only [List.eraseIdx_cons_zero, potItems]; omega
    | succ j =>
      simp at h
      have := ih j it h
      simp only [List.eraseIdx_cons_succ, potItems]
      omega

theorem potWs_set : ∀ (ws : List DW) (i : Nat) (w w' : DW), ws[i]? = some w →
    potWs (ws.set i w') + potW w = potWs ws + potW w' := by
  intro ws
  induction ws with
  | nil => intro i w w' h; simp at h
  | cons y ys ih =>
    intro i w w' h
    cases i with
    | zero => simp at h; subst h; simp only [List.set_cons_zero, potWs]; omega
    | succ i =>
      simp at h
      have := ih i w w' h
      simp only [List.set_cons_succ, potWs]
      omega

theorem potWs_set_eq {ws : List DW} {i : Nat} {w w' : DW} (h : ws[i]? = some w) :
    potWs (ws.set i w') = potWs ws + potW w' - potW w := by
  have := potWs_set ws i w w' h
  omega

theorem potWs_get_le : ∀ (ws : List DW) (i : Nat) (w : DW), ws[i]? = some w → potW w ≤ potWs ws := by
  intro ws
  induction ws with
  | nil => intro i w h; simp at h
  | cons y ys ih =>
    intro i w h
    cases i with
    | zero => simp at h; subst h; simp only [potWs]; omega
    | succ i => simp at h; have := ih i w h; simp only [potWs]; omega

/-- the potential decreases -/
def Decr (F : File) (s s' : DSt) : Prop :=
  rank s'.main < rank s.main ∨ (rank s'.main = rank s.main ∧ pot F s' < pot F s)

theorem decr_step {F : File} (hok : F.ok) {s s' : DSt} (l : DLabel) (hl : ∀ op, l ≠ .call op) (hA : AllInv F s)
    (h : stepD F s l = some s') : Decr F s s' := by
  have hnf' : s'.fault = false := (all_step hok l hA h).d.nofault
  have hnf := hA.d.nofault
  cases l with
  | call op => exact absurd rfl (hl op)
  | stopMgr =>
    simp only [stepD, hnf, Bool.false_eq_true, ↓reduceIte] at h
    split at h
    · next k keep hm =>
      split at h
      · next hg =>
        cases h
        right
        refine ⟨by simp only [hm]; cases keep <;> rfl, ?_⟩
        simp only [pot, hshake, hm, potMgr, potCurr]
        omega
      · cases h
    · cases h
  | stopW i =>
    simp only [stepD, hnf, Bool.false_eq_true, ↓reduceIte] at h
    split at h
    · next k keep w hm hi =>
      split at h
      · next hg =>
        cases h
        right
        refine ⟨by simp only [hm]; cases keep <;> rfl, ?_⟩
        have h2 := potWs_get_le s.ws i w hi
        simp only [pot, hshake, hm, List.length_set, potCurr]
        rw [potWs_set_eq hi]
        simp only [potW] at h2 ⊢
        omega
      · cases h
    · cases h
  | recycle =>
    simp only [stepD, hnf, Bool.false_eq_true, ↓reduceIte] at h
    split at h
    · next k keep hm =>
      split at h
      · split at h
        · next hkeep => cases h; left; subst hkeep; simp only [hm, rank]; omega
        · next hkeep =>
          cases h; left
          have : keep = false := by cases keep <;> simp_all
          subst this
          simp only [hm, rank]; omega
      · cases h
    · cases h
  | ackMgr =>
    simp only [stepD, hnf, Bool.false_eq_true, ↓reduceIte] at h
    split at h
    · next k kk keep hm hpc =>
      split at h
      · next hk =>
        cases h
        right
        refine ⟨by simp only [hm]; cases kk <;> rfl, ?_⟩
        simp only [pot, hshake, hm, potCurr]
        cases keep with
        | true =>
          simp only [↓reduceIte, potMgr, M.resume, Option.isSome_none, Bool.false_eq_true, Bool.true_eq_false]
          omega
        | false =>
          simp only [Bool.false_eq_true, ↓reduceIte, potMgr]
          omega
      · cases h
    · cases h
  | ackW i =>
    simp only [stepD, hnf, Bool.false_eq_true, ↓reduceIte] at h
    split at h
    · next k kk w hm hi =>
      split at h
      · next keep hpc =>
        split at h
        · next hk =>
          cases h
          right
          refine ⟨by simp only [hm]; cases kk <;> rfl, ?_⟩
          simp only [pot, hshake, hm, List.length_set, potCurr]
          have h2 := potWs_get_le s.ws i w hi
          rw [potWs_set_eq hi]
          cases keep with
          | true =>
            simp only [potW, W.resume, ↓reduceIte, Option.isSome_none, Bool.false_eq_true] at h2 ⊢
            omega
          | false =>
            simp only [potW, Bool.false_eq_true, ↓reduceIte] at h2 ⊢
            omega
        · cases h
      · cases h
    · cases h
  | ackDone =>
    simp only [stepD, hnf, Bool.false_eq_true, ↓reduceIte] at h
    split at h
    · next k keep hm =>
      split at h
      · split at h
        · next hkeep => cases h; left; subst hkeep; simp only [hm, rank]; omega
        · next hkeep =>
          have : keep = false := by cases keep <;> simp_all
          subst this
          split at h
          · cases h; left; simp only [hm, rank, DSt.ret]; omega
          · cases h; left; simp only [hm, rank, DSt.ret]; omega
      · cases h
    · cases h
  | roi =>
    simp only [stepD, hnf, Bool.false_eq_true, ↓reduceIte] at h
    split at h
    · next hg => cases h; left; simp only [hg.1, rank]; omega
    · cases h
  | readDone =>
    simp only [stepD, hnf, Bool.false_eq_true, ↓reduceIte] at h
    split at h
    · next hg =>
      split at h
      · cases h; left; simp only [hg.1, rank, DSt.ret]; omega
      · cases h; simp at hnf'
    · cases h
  | mgrMake =>
    simp only [stepD, hnf, Bool.false_eq_true, ↓reduceIte] at h
    split at h
    · next e hroi =>
      split at h
      · next hg =>
        have hwn : s.mgr.m.work.isSome = false := by rw [hg.2.2]; rfl
        split at h
        · cases h
          right
          refine ⟨rfl, ?_⟩
          simp only [pot, hshake, potMgr, hg.2.1, hwn, Bool.false_eq_true, ↓reduceIte, potCurr, Bool.true_eq_false]
          omega
        · next hcur =>
          obtain ⟨c, hc1, hc2, hc3, hc4, hc5⟩ := File.find hok.1 (p := s.mgr.cur) (by omega)
          have hcb := chain_find_bounds F.chunks 0 F.size hok.1 s.mgr.cur c hc1
          have hl0 : chunkLo F s.mgr.cur = c.lo := by simp only [chunkLo, hc1]
          have hl1 : chunkLo F c.hi = c.hi := by
            simp only [chunkLo]
            split
            · next d hd => exact findChunk_next F.chunks 0 F.size hok.1 s.mgr.cur c d hc1 hd
            · rfl
          rw [hc1] at h
          simp only at h
          split at h
          · cases h
            right
            refine ⟨rfl, ?_⟩
            simp only [pot, hshake, potMgr, hg.2.1, hwn, Bool.false_eq_true, ↓reduceIte, potCurr, Bool.true_eq_false, hl0, hl1]
            omega
          · split at h
            · next hlt =>
              cases h
              right
              refine ⟨rfl, ?_⟩
              simp only [pot, hshake, potMgr, hg.2.1, hwn, Bool.false_eq_true, ↓reduceIte, potCurr,
                Option.isSome_some, hl0, hl1]
              omega
            · cases h
              right
              refine ⟨rfl, ?_⟩
              simp only [pot, hshake, potMgr, hg.2.1, hwn, Bool.false_eq_true, ↓reduceIte, potCurr, hl0, hl1]
              omega
      · cases h
    · cases h
  | mgrSend =>
    simp only [stepD, hnf, Bool.false_eq_true, ↓reduceIte] at h
    split at h
    · next it hw =>
      split at h
      · next hg =>
        cases h
        right
        refine ⟨rfl, ?_⟩
        simp only [pot, hshake, potMgr, hw, Option.isSome_some, ↓reduceIte, Option.isSome_none, Bool.false_eq_true,
          potReqs_append, potReqs, potCurr]
        omega
      · cases h
    · cases h
  | wRecv i =>
    simp only [stepD, hnf, Bool.false_eq_true, ↓reduceIte] at h
    split at h
    · next w it rest hi hq =>
      split at h
      · next hg =>
        split at h
        · cases h; simp at hnf'
        · split at h
          · next rd' heq =>
            cases h
            right
            refine ⟨rfl, ?_⟩
            have h2 := potWs_get_le s.ws i w hi
            simp only [pot, hshake, hq, potReqs, List.length_set, potCurr]
            rw [potWs_set_eq hi]
            simp only [potW, hg.2.1, hg.2.2, Option.isSome_none, Bool.false_eq_true, ↓reduceIte,
              Option.isSome_some] at h2 ⊢
            omega
          · cases h; simp at hnf'
      · cases h
    · cases h
  | wMake i =>
    simp only [stepD, hnf, Bool.false_eq_true, ↓reduceIte] at h
    split at h
    · next w hi =>
      split at h
      · next e hdr =>
        split at h
        · next hg =>
          have hw := hA.d.wk i w hi
          obtain ⟨d1, d2, d3, d4⟩ := hw.dr (by rw [hdr]; simp)
          obtain ⟨k1, k2, k3, k4, k5, k6, k7⟩ := worker_read hok.1 w.rd hw.err hw.inv bufSize (by omega)
          rw [d3, d4] at k2
          have hb : bufSize = 65536 := rfl
          generalize hrr : R.read F w.rd bufSize = rr at h k2 k3
          obtain ⟨rd', bs, er⟩ := rr
          simp only at h k2 k3
          rw [if_pos k3] at h
          cases h
          right
          refine ⟨rfl, ?_⟩
          have h2 := potWs_get_le s.ws i w hi
          simp only [pot, hshake, List.length_set, potCurr]
          rw [potWs_set_eq hi]
          revert h2
          by_cases hheld : w.w.held > 0 <;> by_cases hl : w.dlo + bs.length ≥ w.dhi <;>
            simp only [potW, hheld, hl, hg.2.1, hdr, ↓reduceIte, Option.isSome_some, Option.isSome_none,
              Bool.false_eq_true] <;> intro h2 <;> omega
        · cases h
      · cases h
    · cases h
  | wSend i =>
    simp only [stepD, hnf, Bool.false_eq_true, ↓reduceIte] at h
    split at h
    · next w hi =>
      split at h
      · next it hout =>
        split at h
        · cases h
          right
          refine ⟨rfl, ?_⟩
          have h2 := potWs_get_le s.ws i w hi
          simp only [pot, hshake, potItems_append, potItems, List.length_set, potCurr]
          rw [potWs_set_eq hi]
          simp only [potW, hout, Option.isSome_some, ↓reduceIte, Option.isSome_none, Bool.false_eq_true] at h2 ⊢
          omega
        · cases h
      · cases h
    · cases h
  | wRecycle i =>
    simp only [stepD, hnf, Bool.false_eq_true, ↓reduceIte] at h
    split at h
    · next w hi =>
      split at h
      · next hg =>
        cases h
        right
        refine ⟨rfl, ?_⟩
        have h2 := potWs_get_le s.ws i w hi
        simp only [pot, hshake, List.length_set, potCurr]
        rw [potWs_set_eq hi]
        simp only [potW] at h2 ⊢
        omega
      · cases h
    · cases h
  | recvRes =>
    simp only [stepD, hnf, Bool.false_eq_true, ↓reduceIte] at h
    split at h
    · next it rest hq =>
      split at h
      · split at h
        · cases h
          right
          refine ⟨rfl, ?_⟩
          simp only [pot, hshake, hq, potItems, potCurr]
          omega
        · cases h; simp at hnf'
      · cases h
    · cases h
  | take j =>
    simp only [stepD, hnf, Bool.false_eq_true, ↓reduceIte] at h
    split at h
    · next it hj =>
      split at h
      · next hg =>
        cases h
        right
        refine ⟨rfl, ?_⟩
        have hgi := hA.d.comp it (List.mem_of_getElem? hj)
        have hlen : it.data.length = it.hi - it.lo := by
          rw [hgi.data]; exact slice_length hok.1 (Nat.le_trans hgi.le hA.d.rhi)
        have h1 := potItems_eraseIdx 3 s.completed j it hj
        simp only [pot, hshake, potCurr, hg.2.2.1]
        omega
      · cases h
    · cases h
  | recycleCurr =>
    simp only [stepD, hnf, Bool.false_eq_true, ↓reduceIte] at h
    split at h
    · next it hc =>
      split at h
      · next i ho =>
        split at h
        · next w hi =>
          split at h
          · next hg =>
            cases h
            right
            refine ⟨rfl, ?_⟩
            have h2 := potWs_get_le s.ws i w hi
            simp only [pot, hshake, potCurr, hc, List.length_set]
            rw [potWs_set_eq hi]
            simp only [potW] at h2 ⊢
            omega
          · cases h
        · cases h
      · cases h
    · cases h
  | copy =>
    simp only [stepD, hnf, Bool.false_eq_true, ↓reduceIte] at h
    split at h
    · next it hc =>
      split at h
      · next hg =>
        cases h
        right
        refine ⟨rfl, ?_⟩
        have hw : 0 < s.want := by
          have := hg.2.1
          simp only [DSt.readOver] at this
          omega
        simp only [pot, hshake, potCurr, hc]
        omega
      · cases h
    · cases h

end WuffsVerif.Rac.ConcD
