/-
C17: the decoder follows the encoder.  `Inside e out`: the code `out` (the encoder's FINAL output),
cut to the bytes decided so far, lies in the encoder's current interval; it propagates BACKWARDS over
`encodeBit`.  `Sync e d out tail`: the decoder state `d`, reading `out ++ tail`, holds exactly
`(code − L, width)` of the encoder state `e`; it propagates FORWARDS over `encodeBit`/`decodeBit`.
-/
import WuffsVerif.Proof.LzmaRange

namespace WuffsVerif.Lzma

/-- the first `nDig e` bytes of `out` denote a number in `[L, L + width)` -/
def Inside (e : RangeEncoder) (out : List UInt8) : Prop :=
  nDig e ≤ out.length ∧ Lval e ≤ val (out.take (nDig e)) ∧ val (out.take (nDig e)) < Lval e + e.width

/-- the decoder, reading `out ++ tail`, is in step with the encoder: same width, `bits = code − L` -/
def Sync (e : RangeEncoder) (d : RangeDecoder) (out tail : List UInt8) : Prop :=
  d.width = e.width ∧ nDig e ≤ out.length ∧ d.src = out.drop (nDig e) ++ tail ∧
  d.bits + Lval e = val (out.take (nDig e))

theorem narrow_digits (p : Nat) (e : RangeEncoder) (b : Nat) : digits (narrow p e b) = digits e := by
  unfold narrow; split <;> rfl

theorem narrow_nDig (p : Nat) (e : RangeEncoder) (b : Nat) : nDig (narrow p e b) = nDig e := by
  unfold nDig; rw [narrow_digits]

theorem narrow_zero (p : Nat) (e : RangeEncoder) :
    Lval (narrow p e 0) = Lval e ∧ (narrow p e 0).width = thr p e.width := by
  unfold narrow; exact ⟨rfl, rfl⟩

theorem narrow_one (p : Nat) (e : RangeEncoder) (b : Nat) (hb : b ≠ 0) :
    Lval (narrow p e b) = Lval e + thr p e.width ∧ (narrow p e b).width = e.width - thr p e.width := by
  unfold narrow; rw [if_neg hb]
  refine ⟨?_, rfl⟩
  unfold Lval
  have : digits { e with low := e.low + thr p e.width, width := e.width - thr p e.width } = digits e := rfl
  rw [this]
  show _ + (e.low + thr p e.width) = _
  omega

/-- backwards over `normalize`; if it shifted, the code has one more byte -/
theorem normalize_inside {e1 : RangeEncoder} (hi : Inv e1) {out : List UInt8}
    (h : Inside (normalize e1) out) :
    Inside e1 out ∧ (e1.width < 16777216 → nDig e1 < out.length) := by
  obtain ⟨_, hsame, hshift⟩ := normalize_spec hi
  by_cases hw : e1.width < 16777216
  · obtain ⟨hL, hW, hlen⟩ := hshift hw
    obtain ⟨h1, h2, h3⟩ := h
    have hn : nDig (normalize e1) = nDig e1 + 1 := by unfold nDig; omega
    rw [hn] at h1 h2 h3
    have hlt : nDig e1 < out.length := by omega
    rw [val_take_succ out _ hlt, hL] at h2 h3
    rw [hW] at h3
    have hb := (out[nDig e1]).toNat_lt
    refine ⟨⟨by omega, by omega, by omega⟩, fun _ => hlt⟩
  · have := hsame (by omega)
    rw [this] at h
    exact ⟨h, fun h' => absurd h' hw⟩

/-- backwards over one `encodeBit` -/
theorem encodeBit_inside {p : Nat} {e : RangeEncoder} (b : Nat) (hv : Valid e) (hp : ProbOK p)
    {out : List UInt8} (h : Inside (normalize (narrow p e b)) out) : Inside e out := by
  have h1 := (normalize_inside (narrow_inv b hv hp) h).1
  obtain ⟨_, ht0, ht1⟩ := thr_bounds hp hv.wlo hv.whi
  obtain ⟨a1, a2, a3⟩ := h1
  rw [narrow_nDig] at a1 a2 a3
  by_cases hb : b = 0
  · subst hb
    obtain ⟨hL, hW⟩ := narrow_zero p e
    rw [hL] at a2 a3; rw [hW] at a3
    exact ⟨a1, a2, by omega⟩
  · obtain ⟨hL, hW⟩ := narrow_one p e b hb
    rw [hL] at a2 a3; rw [hW] at a3
    exact ⟨a1, by omega, by omega⟩

theorem encodeBit_valid {p : Nat} {e : RangeEncoder} (b : Nat) (hv : Valid e) (hp : ProbOK p) :
    Valid (normalize (narrow p e b)) :=
  (normalize_spec (narrow_inv b hv hp)).1

/-- the decoder's `if rDec.width < (1 << 24) { … }`, given that the encoder normalises the same width -/
theorem normalizeD_sync {e1 : RangeEncoder} (hi : Inv e1) {out tail src : List UInt8} {bits : Nat}
    (hin : Inside (normalize e1) out)
    (hn : nDig e1 ≤ out.length) (hsrc : src = out.drop (nDig e1) ++ tail)
    (hbits : bits + Lval e1 = val (out.take (nDig e1))) :
    ∃ d', (if e1.width < 16777216 then
            match src with
            | [] => none
            | s :: rest => some ({ src := rest, bits := ((bits * 256) &&& 0xFFFFFFFF) ||| s.toNat,
                                   width := (e1.width * 256) &&& 0xFFFFFFFF } : RangeDecoder)
           else some { src := src, bits := bits, width := e1.width }) = some d' ∧
      Sync (normalize e1) d' out tail := by
  obtain ⟨_, hsame, hshift⟩ := normalize_spec hi
  obtain ⟨hin1, hlen⟩ := normalize_inside hi hin
  by_cases hw : e1.width < 16777216
  · simp only [hw, if_true]
    obtain ⟨hL, hW, hdl⟩ := hshift hw
    have hlt := hlen hw
    have hdrop : src = out[nDig e1] :: (out.drop (nDig e1 + 1) ++ tail) := by
      rw [hsrc, List.drop_eq_getElem_cons hlt]; rfl
    rw [hdrop]
    refine ⟨_, rfl, ?_⟩
    have hnd : nDig (normalize e1) = nDig e1 + 1 := by unfold nDig; omega
    have hb := (out[nDig e1]).toNat_lt
    obtain ⟨_, i2, i3⟩ := hin1
    have hbl : bits < 16777216 := by omega
    have hm1 : (bits * 256) &&& 0xFFFFFFFF = bits * 256 := by rw [land32]; omega
    have hm2 : (e1.width * 256) &&& 0xFFFFFFFF = 256 * e1.width := by rw [land32]; omega
    refine ⟨?_, ?_, ?_, ?_⟩
    · dsimp only; rw [hm2, hW]
    · rw [hnd]; omega
    · rw [hnd]
    · dsimp only
      rw [hm1, mul256_or _ _ hb, hnd, val_take_succ out _ hlt, hL]
      omega
  · simp only [hw, if_false]
    refine ⟨_, rfl, ?_⟩
    have := hsame (by omega)
    rw [this]
    exact ⟨rfl, hn, hsrc, hbits⟩

/-- **one bit**: if the decoder is in step with the encoder before `encodeBit p e b`, and the final code
    lies inside the encoder's interval after it, then `decodeBit` returns `b`, adapts `p` the same way
    and is in step again. -/
theorem decodeBit_sync {p : Nat} {e : RangeEncoder} {d : RangeDecoder} {out tail : List UInt8} (b : Nat)
    (hv : Valid e) (hp : ProbOK p) (hb : b = 0 ∨ b = 1) (hs : Sync e d out tail)
    (hin : Inside (normalize (narrow p e b)) out) :
    ∃ d', decodeBit p d = some (b, (encodeBit p e b).1, d') ∧ Sync (encodeBit p e b).2 d' out tail := by
  rw [encodeBit_eq]
  have hi := narrow_inv b hv hp
  obtain ⟨hin1, _⟩ := normalize_inside hi hin
  obtain ⟨_, ht0, ht1⟩ := thr_bounds hp hv.wlo hv.whi
  obtain ⟨s1, s2, s3, s4⟩ := hs
  obtain ⟨a1, a2, a3⟩ := hin1
  rw [narrow_nDig] at a1 a2 a3
  have hthr : ((d.width >>> probBits) * p) &&& 0xFFFFFFFF = thr p e.width := by rw [s1]; rfl
  unfold decodeBit
  simp only [hthr]
  rcases hb with hb | hb
  · subst hb
    obtain ⟨hL, hW⟩ := narrow_zero p e
    rw [hL] at a2 a3; rw [hW] at a3
    have hlt : d.bits < thr p e.width := by omega
    simp only [hlt, if_true]
    have := normalizeD_sync hi (src := d.src) (bits := d.bits) (tail := tail) hin
      (by rw [narrow_nDig]; exact s2) (by rw [narrow_nDig]; exact s3) (by rw [narrow_nDig, hL]; exact s4)
    rw [hW] at this
    obtain ⟨d', hd', hsync⟩ := this
    refine ⟨d', ?_, hsync⟩
    by_cases hw : thr p e.width < 16777216
    · simp only [hw, if_true] at hd' ⊢
      cases hsrc : d.src with
      | nil => simp [hsrc] at hd'
      | cons s rest =>
        simp only [hsrc] at hd' ⊢
        cases hd'; rfl
    · simp only [hw, if_false] at hd' ⊢
      cases hd'; rfl
  · subst hb
    obtain ⟨hL, hW⟩ := narrow_one p e 1 (by omega)
    rw [hL] at a2 a3; rw [hW] at a3
    have hge : ¬ d.bits < thr p e.width := by omega
    simp only [hge, if_false]
    have := normalizeD_sync hi (src := d.src) (bits := d.bits - thr p e.width) (tail := tail) hin
      (by rw [narrow_nDig]; exact s2) (by rw [narrow_nDig]; exact s3) (by rw [narrow_nDig, hL]; omega)
    rw [hW] at this
    obtain ⟨d', hd', hsync⟩ := this
    refine ⟨d', ?_, hsync⟩
    rw [s1, if_neg (by omega : ¬ (1 : Nat) = 0)]
    by_cases hw : e.width - thr p e.width < 16777216
    · simp only [hw, if_true] at hd' ⊢
      cases hsrc : d.src with
      | nil => simp [hsrc] at hd'
      | cons s rest =>
        simp only [hsrc] at hd' ⊢
        cases hd'; rfl
    · simp only [hw, if_false] at hd' ⊢
      cases hd'; rfl

end WuffsVerif.Lzma
