/-
C18 helper lemmas for the entropy round trip, part 1: bit strings, byte stuffing, and the
refinement "the bytes `emitBits` writes are the stuffed packing of the bits it was given".
-/
import WuffsVerif.Proof.JpegBuf
import WuffsVerif.Model.Jpeg.Spec
open WuffsVerif.Gen.C18 WuffsVerif.Jpeg WuffsVerif.Jpeg.Buf

namespace WuffsVerif.Jpeg.Bits

/-- the low `n` bits of `v`, most significant first -/
def bitsOf (v : Nat) : Nat → List Bool
  | 0 => []
  | n + 1 => bitsOf (v / 2) n ++ [decide (v % 2 = 1)]

@[simp] theorem bitsOf_length (v n : Nat) : (bitsOf v n).length = n := by
  induction n generalizing v with
  | zero => rfl
  | succ n ih => simp [bitsOf, ih]

theorem two_pow_pos' (k : Nat) : 0 < 2 ^ k := Nat.two_pow_pos k

/-- splitting at the low end -/
theorem bitsOf_append (a b n k : Nat) (hb : b < 2 ^ k) :
    bitsOf (a * 2 ^ k + b) (n + k) = bitsOf a n ++ bitsOf b k := by
  induction k generalizing b with
  | zero =>
    have : b = 0 := by simpa using hb
    subst this
    simp [bitsOf]
  | succ k ih =>
    have h2 : 2 ^ (k + 1) = 2 * 2 ^ k := by rw [Nat.pow_succ, Nat.mul_comm]
    rw [h2] at hb
    have e1 : (a * 2 ^ (k + 1) + b) / 2 = a * 2 ^ k + b / 2 := by
      rw [h2, Nat.mul_left_comm]; omega
    have e2 : (a * 2 ^ (k + 1) + b) % 2 = b % 2 := by
      rw [h2, Nat.mul_left_comm]; omega
    show bitsOf (a * 2 ^ (k + 1) + b) (n + k + 1) = _
    simp only [bitsOf, e1, e2]
    rw [ih (b / 2) (by omega), List.append_assoc]

/-- peeling the most significant bit -/
theorem bitsOf_succ_msb (v n : Nat) : bitsOf v (n + 1) = decide (v / 2 ^ n % 2 = 1) :: bitsOf v n := by
  induction n generalizing v with
  | zero => simp [bitsOf]
  | succ n ih =>
    have e : v / 2 / 2 ^ n = v / 2 ^ (n + 1) := by
      rw [Nat.div_div_eq_div_mul, Nat.pow_succ, Nat.mul_comm]
    conv => lhs; unfold bitsOf
    rw [ih (v / 2), e]
    simp [bitsOf]

theorem bitsOf_mod (v n : Nat) : bitsOf (v % 2 ^ n) n = bitsOf v n := by
  have := bitsOf_append (v / 2 ^ n) (v % 2 ^ n) 0 n (Nat.mod_lt _ (two_pow_pos' n))
  rw [Nat.div_add_mod' v (2 ^ n)] at this
  simpa [bitsOf] using this.symm

theorem byteBits_eq (b : Nat) : Spec.byteBits b = bitsOf b 8 := by
  simp only [Spec.byteBits, bitsOf, List.nil_append, List.cons_append, Nat.div_div_eq_div_mul]


/-- byte stuffing (T.81 B.1.1.5 / `emitBits`): a zero byte after every 0xFF -/
def stuff : List Nat → List Nat
  | [] => []
  | b :: bs => if b = 255 then 255 :: 0 :: stuff bs else b :: stuff bs

theorem stuff_append (a b : List Nat) : stuff (a ++ b) = stuff a ++ stuff b := by
  induction a with
  | nil => rfl
  | cons x xs ih => simp only [List.cons_append, stuff]; split <;> simp [ih]

/-- the Spec's entropy-coded-segment splitter undoes the stuffing and stops at the marker -/
theorem splitECS_stuff (bytes : List Nat) (m : Nat) (rest : List Nat) (hm : m ≠ 0) :
    Spec.splitECS (stuff bytes ++ 255 :: m :: rest) = (bytes, 255 :: m :: rest) := by
  induction bytes with
  | nil => simp [stuff, Spec.splitECS, hm]
  | cons b bs ih =>
    simp only [stuff]
    split
    · rename_i hb
      subst hb
      simp only [List.cons_append, Spec.splitECS, ↓reduceIte, ih]
    · rename_i hb
      cases hbs : stuff bs ++ 255 :: m :: rest with
      | nil => simp at hbs
      | cons c cs =>
        simp only [List.cons_append, hbs, Spec.splitECS, hb, ↓reduceIte]
        rw [← hbs, ih]

theorem bytesBits_append (a b : List Nat) : Spec.bytesBits (a ++ b) = Spec.bytesBits a ++ Spec.bytesBits b := by
  simp [Spec.bytesBits]

/-- the loop of `emitBits`: `V = P·2^(32−m)` holds `m` pending bits at the top; `k` full bytes
    (8k ≤ m) are written, stuffed; the rest stays pending -/
theorem emitLoop_spec (k : Nat) : ∀ (P m : Nat) (out : Array Nat), P < 2 ^ m → m ≤ 32 → 8 * k ≤ m →
    ∃ bytes : List Nat,
      (emitLoop k (P * 2 ^ (32 - m)) out).2 = out ++ (stuff bytes).toArray ∧
      (emitLoop k (P * 2 ^ (32 - m)) out).1 = (P % 2 ^ (m - 8 * k)) * 2 ^ (32 - (m - 8 * k)) ∧
      bitsOf P m = Spec.bytesBits bytes ++ bitsOf (P % 2 ^ (m - 8 * k)) (m - 8 * k) ∧
      bytes.length = k := by
  induction k with
  | zero =>
    intro P m out hP _ _
    refine ⟨[], by simp [emitLoop, stuff], ?_, ?_, rfl⟩
    · simp [emitLoop, Nat.mod_eq_of_lt hP]
    · simp [Spec.bytesBits, Nat.mod_eq_of_lt hP]
  | succ k ih =>
    intro P m out hP hm hk
    have hm8 : 8 ≤ m := by omega
    -- the byte written first
    have hA : 2 ^ 24 = 2 ^ (m - 8) * 2 ^ (32 - m) := by rw [← Nat.pow_add]; congr 1; omega
    have hbyte : P * 2 ^ (32 - m) / 16777216 = P / 2 ^ (m - 8) := by
      have : (16777216 : Nat) = 2 ^ 24 := by decide
      rw [this, hA, Nat.mul_div_mul_right _ _ (Nat.two_pow_pos _)]
    have hM : 2 ^ m = 2 ^ (m - 8) * 256 := by
      have : (256 : Nat) = 2 ^ 8 := by decide
      rw [this, ← Nat.pow_add]; congr 1; omega
    have hlt : P / 2 ^ (m - 8) < 256 := by
      apply Nat.div_lt_of_lt_mul; rw [← hM]; exact hP
    -- the shifted accumulator
    have hnext : P * 2 ^ (32 - m) * 256 % 4294967296 = (P % 2 ^ (m - 8)) * 2 ^ (32 - (m - 8)) := by
      have h1 : (4294967296 : Nat) = 2 ^ (m - 8) * 2 ^ (32 - (m - 8)) := by
        have : (4294967296 : Nat) = 2 ^ 32 := by decide
        rw [this, ← Nat.pow_add]; congr 1; omega
      have h2 : 2 ^ (32 - m) * 256 = 2 ^ (32 - (m - 8)) := by
        have : (256 : Nat) = 2 ^ 8 := by decide
        rw [this, ← Nat.pow_add]; congr 1; omega
      rw [Nat.mul_assoc, h2, h1, Nat.mul_mod_mul_right]
    have hP' : P % 2 ^ (m - 8) < 2 ^ (m - 8) := Nat.mod_lt _ (Nat.two_pow_pos _)
    simp only [emitLoop, hbyte, Nat.mod_eq_of_lt hlt, hnext]
    obtain ⟨bytes, h1, h2, h3, h4⟩ := ih (P % 2 ^ (m - 8)) (m - 8)
      (if P / 2 ^ (m - 8) = 255 then ((out.push (P / 2 ^ (m - 8))).push 0) else out.push (P / 2 ^ (m - 8)))
      hP' (by omega) (by omega)
    refine ⟨P / 2 ^ (m - 8) :: bytes, ?_, ?_, ?_, by simp [h4]⟩
    · rw [h1]
      simp only [stuff]
      apply Array.ext'
      split
      · rename_i hb
        simp [hb]
      · rename_i hb
        simp [hb]
    · rw [h2]
      have e1 : m - 8 - 8 * k = m - 8 * (k + 1) := by omega
      rw [e1, Nat.mod_mod_of_dvd _ (Nat.pow_dvd_pow 2 (by omega))]
    · have e1 : m - 8 - 8 * k = m - 8 * (k + 1) := by omega
      rw [e1, Nat.mod_mod_of_dvd _ (Nat.pow_dvd_pow 2 (by omega))] at h3
      have hs := bitsOf_append (P / 2 ^ (m - 8)) (P % 2 ^ (m - 8)) 8 (m - 8) hP'
      rw [Nat.div_add_mod' P (2 ^ (m - 8)), show 8 + (m - 8) = m by omega] at hs
      rw [hs, h3]
      simp [Spec.bytesBits, byteBits_eq]

/-- the accumulator holds `e.bitsN < 8` pending bits, with value `p`, at the top of `bitsV` -/
def Acc (e : Encoder) (p : Nat) : Prop :=
  e.bitsN < 8 ∧ p < 2 ^ e.bitsN ∧ e.bitsV = p * 2 ^ (32 - e.bitsN)

/-- going from `(e, out)` to `(e', out')` appends the bit string `bits` to the logical output:
    whatever was pending plus `bits` equals the full bytes written (stuffed) plus what is pending
    afterwards; nothing but the accumulator changes -/
def Emits (s s' : Encoder × Array Nat) (bits : List Bool) : Prop :=
  SameCfg s.1 s'.1 ∧ SamePrev s.1 s'.1 ∧
  ∀ p, Acc s.1 p → ∃ (bytes : List Nat) (p' : Nat),
    s'.2 = s.2 ++ (stuff bytes).toArray ∧ Acc s'.1 p' ∧
    bitsOf p s.1.bitsN ++ bits = Spec.bytesBits bytes ++ bitsOf p' s'.1.bitsN

theorem Emits.refl (s : Encoder × Array Nat) : Emits s s [] :=
  ⟨SameCfg.refl _, SamePrev.refl _, fun p hp => ⟨[], p, by simp [stuff], hp, by simp [Spec.bytesBits]⟩⟩

theorem Emits.trans {a b c : Encoder × Array Nat} {x y : List Bool} (h1 : Emits a b x) (h2 : Emits b c y) :
    Emits a c (x ++ y) := by
  refine ⟨h1.1.trans h2.1, h1.2.1.trans h2.2.1, fun p hp => ?_⟩
  obtain ⟨b1, p1, e1, a1, r1⟩ := h1.2.2 p hp
  obtain ⟨b2, p2, e2, a2, r2⟩ := h2.2.2 p1 a1
  refine ⟨b1 ++ b2, p2, ?_, a2, ?_⟩
  · rw [e2, e1, stuff_append]
    apply Array.ext'
    simp
  · rw [← List.append_assoc, r1, List.append_assoc, r2, bytesBits_append, List.append_assoc]

theorem emitBits_emits (e : Encoder) (out : Array Nat) (v n : Nat) (hn : n ≤ 16) :
    Emits (e, out) (emitBits e out v n) (bitsOf v n) := by
  by_cases hn0 : n = 0
  · subst hn0
    have : emitBits e out v 0 = (e, out) := by simp [emitBits]
    rw [this]
    exact Emits.refl _
  · have hcfg : SameCfg e (emitBits e out v n).1 ∧ SamePrev e (emitBits e out v n).1 := by
      unfold emitBits
      simp only [hn0, ↓reduceIte]
      exact ⟨⟨rfl, rfl, rfl, rfl, rfl⟩, ⟨rfl, rfl, rfl⟩⟩
    refine ⟨hcfg.1, hcfg.2, fun p hp => ?_⟩
    obtain ⟨hb, hp2, hv⟩ := hp
    simp only at hb hp2 hv ⊢
    -- the new pending value P (m = n + bitsN bits)
    have hm : n + e.bitsN ≤ 32 := by omega
    have hv1 : v % 2 ^ n < 2 ^ n := Nat.mod_lt _ (Nat.two_pow_pos _)
    have hpow : 2 ^ (32 - e.bitsN) = 2 ^ n * 2 ^ (32 - (n + e.bitsN)) := by
      rw [← Nat.pow_add]; congr 1; omega
    have hv2lt : v % 2 ^ n * 2 ^ (32 - (n + e.bitsN)) < 2 ^ (32 - e.bitsN) := by
      rw [hpow]; exact Nat.mul_lt_mul_of_pos_right hv1 (Nat.two_pow_pos _)
    have h32 : 2 ^ (32 - e.bitsN) ≤ 4294967296 := by
      have : (4294967296 : Nat) = 2 ^ 32 := by decide
      rw [this]; exact Nat.pow_le_pow_right (by decide) (by omega)
    have hv2 : v % 2 ^ n * 2 ^ (32 - (n + e.bitsN)) % 4294967296 = v % 2 ^ n * 2 ^ (32 - (n + e.bitsN)) :=
      Nat.mod_eq_of_lt (by omega)
    have hor : (v % 2 ^ n * 2 ^ (32 - (n + e.bitsN))) ||| e.bitsV =
        (p * 2 ^ n + v % 2 ^ n) * 2 ^ (32 - (n + e.bitsN)) := by
      rw [hv, Nat.or_comm, Nat.mul_comm p, ← Nat.two_pow_add_eq_or_of_lt hv2lt p, hpow, Nat.add_mul]
      congr 1
      rw [Nat.mul_comm (2 ^ n * _) p, Nat.mul_assoc]
    have hP : p * 2 ^ n + v % 2 ^ n < 2 ^ (n + e.bitsN) := by
      rw [Nat.pow_add, Nat.mul_comm (2 ^ n)]
      have : (p + 1) * 2 ^ n ≤ 2 ^ e.bitsN * 2 ^ n := Nat.mul_le_mul_right _ hp2
      rw [Nat.add_mul] at this
      omega
    obtain ⟨bytes, h1, h2, h3, _⟩ := emitLoop_spec ((n + e.bitsN) / 8) (p * 2 ^ n + v % 2 ^ n) (n + e.bitsN) out hP hm
      (by omega)
    have hk : n + e.bitsN - 8 * ((n + e.bitsN) / 8) = (n + e.bitsN) % 8 := by omega
    rw [hk] at h2 h3
    have hres : emitBits e out v n =
        ({ e with bitsV := (emitLoop ((n + e.bitsN) / 8) ((p * 2 ^ n + v % 2 ^ n) * 2 ^ (32 - (n + e.bitsN))) out).1,
                  bitsN := (n + e.bitsN) % 8 },
         (emitLoop ((n + e.bitsN) / 8) ((p * 2 ^ n + v % 2 ^ n) * 2 ^ (32 - (n + e.bitsN))) out).2) := by
      unfold emitBits
      simp only [hn0, ↓reduceIte, hm, hv2, hor]
    rw [hres]
    refine ⟨bytes, (p * 2 ^ n + v % 2 ^ n) % 2 ^ ((n + e.bitsN) % 8), h1, ?_, ?_⟩
    · exact ⟨Nat.mod_lt _ (by decide), Nat.mod_lt _ (Nat.two_pow_pos _), h2⟩
    · simp only
      rw [← h3, ← bitsOf_mod v n, Nat.add_comm n e.bitsN]
      exact (bitsOf_append p (v % 2 ^ n) e.bitsN n hv1).symm


/-! ### The bit strings the encoder emits (abstract, bit-level view of the model functions) -/

/-- `emitHuffman` -/
def huffBits (wh value : Nat) : List Bool :=
  bitsOf ((huffmanBitWriters.getD wh #[]).getD value 0 % 65536) ((huffmanBitWriters.getD wh #[]).getD value 0 / 65536)

def absValueOf (value : Int) : Nat :=
  if value < 0 then ((-value) % 4294967296).toNat else (value % 4294967296).toNat

def adjOf (value : Int) : Nat :=
  if value < 0 then ((value - 1) % 4294967296).toNat else (value % 4294967296).toNat

/-- `emitHuffmanRun` -/
def runBits (wh run : Nat) (value : Int) : List Bool :=
  huffBits wh (((run * 16) ||| category (absValueOf value)) % 256) ++
    bitsOf (adjOf value) (category (absValueOf value))

/-- `emitZRLs` -/
def zrlBits : Nat → Nat → List Bool
  | 0, _ => []
  | k + 1, wh => huffBits wh 0xF0 ++ zrlBits k wh

/-- `encodeACs` -/
def acBits (base : Nat) : List Int → Nat → List Bool
  | [], run => if run > 0 then huffBits (base + 1) 0x00 else []
  | ac :: rest, run =>
    if ac = 0 then acBits base rest (run + 1)
    else zrlBits (run / 16) (base + 1) ++ runBits (base + 1) (run % 16) ac ++ acBits base rest 0

/-- `encodeBlock` with quantisation table `q`, predictor `pred`, Huffman base `base` -/
def blockBits (q : Quant) (pred : Int) (base : Nat) (b : Block) : List Bool :=
  runBits (base + 0) 0 (wrap16 (div (b.getD 0 0) ((q.getD 0 0 : Nat) : Int) - pred)) ++
    acBits base ((List.range' 1 63).map (quantised q b)) 0

theorem bitCount_le8 : bitCount.toList.all (fun x => decide (x ≤ 8)) = true := by decide +kernel

theorem category_le16 (a : Nat) : category a ≤ 16 := by
  have h : ∀ i, bitCount.getD i 0 ≤ 8 := by
    intro i
    rw [getD_toList]
    have := all_getD bitCount.toList (fun x => decide (x ≤ 8)) i 0 bitCount_le8 (by decide)
    simpa using this
  unfold category
  split
  · have := h a; omega
  · have := h (a / 256); omega

theorem emitHuffman_emits (e : Encoder) (out : Array Nat) (wh value : Nat) :
    Emits (e, out) (emitHuffman e out wh value) (huffBits wh value) := by
  simp only [emitHuffman, huffBits]
  exact emitBits_emits e out _ _ (hbw_len_le16 wh value)

theorem emitHuffmanRun_emits (e : Encoder) (out : Array Nat) (wh run : Nat) (value : Int) :
    Emits (e, out) (emitHuffmanRun e out wh run value) (runBits wh run value) := by
  simp only [emitHuffmanRun, runBits]
  have h1 := emitHuffman_emits e out wh (((run * 16) ||| category (absValueOf value)) % 256)
  have h2 := emitBits_emits (emitHuffman e out wh (((run * 16) ||| category (absValueOf value)) % 256)).1
    (emitHuffman e out wh (((run * 16) ||| category (absValueOf value)) % 256)).2 (adjOf value)
    (category (absValueOf value)) (category_le16 _)
  exact h1.trans h2

theorem emitZRLs_emits (k : Nat) (e : Encoder) (out : Array Nat) (wh : Nat) :
    Emits (e, out) (emitZRLs k e out wh) (zrlBits k wh) := by
  induction k generalizing e out with
  | zero => exact Emits.refl _
  | succ k ih =>
    simp only [emitZRLs, zrlBits]
    exact (emitHuffman_emits e out wh 0xF0).trans (ih _ _)

theorem encodeACs_emits (base : Nat) (rest : List Int) (run : Nat) (e : Encoder) (out : Array Nat) :
    Emits (e, out) (encodeACs base rest run e out) (acBits base rest run) := by
  induction rest generalizing run e out with
  | nil =>
    simp only [encodeACs, acBits]
    split
    · exact emitHuffman_emits e out (base + 1) 0x00
    · exact Emits.refl _
  | cons ac rest ih =>
    simp only [encodeACs, acBits]
    split
    · exact ih _ _ _
    · exact ((emitZRLs_emits (run / 16) e out (base + 1)).trans (emitHuffmanRun_emits _ _ (base + 1) (run % 16) ac)).trans
        (ih _ _ _)


end WuffsVerif.Jpeg.Bits
