/-
C07 helper lemmas: slicing-by-N.  `L = iter (bitStep P) 8` is linear, so N bytes can be absorbed
with N independent table lookups.  Generic in the register width.  Core Lean only.
-/
import WuffsVerif.Proof.StdHashCrc

namespace WuffsVerif.StdHash

variable {w : Nat}

/-- xor of `L^(n-j)(b_j)` over the bytes `b_0 … b_(n-1)` -/
def byteTerms (P : BitVec w) : List UInt8 → BitVec w
  | [] => 0
  | b :: bs => iter (bitStep P) (8 * (bs.length + 1)) (BitVec.ofNat w b.toNat) ^^^ byteTerms P bs

/-- **Linear unrolling** of the bit-serial specification over a block of bytes. -/
theorem crcSpecFold_unroll (P : BitVec w) (l : List UInt8) : ∀ (s : BitVec w),
    crcSpecFold P s l = iter (bitStep P) (8 * l.length) s ^^^ byteTerms P l := by
  induction l with
  | nil => intro s; simp [crcSpecFold, byteTerms, iter]
  | cons b bs ih =>
    intro s
    have hstep : crcSpecFold P s (b :: bs) = crcSpecFold P (crcSpecByte P s b) bs := by
      simp only [crcSpecFold, List.foldl_cons]
    rw [hstep, ih, crcSpecByte, iter_bitStep_xor]
    simp only [byteTerms, List.length_cons]
    rw [show 8 * (bs.length + 1) = 8 + 8 * bs.length by omega, iter_add, iter_add, iter_bitStep_xor,
      BitVec.xor_assoc]

/-- xor of `L^(m+n-j)(byte j of x)`, `j < n`, then `L^m` of what is left of `x` -/
def sliceSum (P : BitVec w) (m : Nat) : Nat → BitVec w → BitVec w
  | 0, x => iter (bitStep P) (8 * m) x
  | n + 1, x => iter (bitStep P) (8 * (m + n + 1)) (lowByte x) ^^^ sliceSum P m n (x >>> 8)

/-- `L^(m+n)` of a register, byte by byte -/
theorem iter_eq_sliceSum (P : BitVec w) (m n : Nat) : ∀ (x : BitVec w),
    iter (bitStep P) (8 * (m + n)) x = sliceSum P m n x := by
  induction n with
  | zero => intro x; rfl
  | succ n ih =>
    intro x
    rw [show 8 * (m + (n + 1)) = 8 + 8 * (m + n) by omega, iter_add, iter8_split, iter_bitStep_xor, ih (x >>> 8)]
    simp only [sliceSum]
    rw [← iter_add, show 8 + 8 * (m + n) = 8 * (m + n + 1) by omega]

theorem lowByte_xor (x y : BitVec w) : lowByte (x ^^^ y) = lowByte x ^^^ lowByte y := by
  apply BitVec.eq_of_getLsbD_eq
  intro i _
  simp only [getLsbD_lowByte, BitVec.getLsbD_xor]
  cases decide (i < 8) <;> simp

/-- a table lookup indexed by a byte of the register -/
theorem tbl_byteAt (t : Array (Array Nat)) (P : BitVec w) (k : Nat) (ht : TableOK t P k) (s : BitVec w) (sh : Nat) :
    (tbl t k (byteAt s sh) : BitVec w) = iter (bitStep P) (8 * (k + 1)) (lowByte (s >>> sh)) := by
  unfold byteAt lowByte
  exact ht _ (Nat.mod_lt _ (by omega))

theorem tbl_byte (t : Array (Array Nat)) (P : BitVec w) (k : Nat) (ht : TableOK t P k) (b : UInt8) :
    (tbl t k b.toNat : BitVec w) = iter (bitStep P) (8 * (k + 1)) (BitVec.ofNat w b.toNat) :=
  ht _ b.toNat_lt

theorem testBit_byte (b : UInt8) (m : Nat) (hm : 8 ≤ m) : b.toNat.testBit m = false := by
  apply Nat.testBit_lt_two_pow
  calc b.toNat < 256 := b.toNat_lt
    _ = 2 ^ 8 := rfl
    _ ≤ 2 ^ m := Nat.pow_le_pow_right (by omega) hm

end WuffsVerif.StdHash
