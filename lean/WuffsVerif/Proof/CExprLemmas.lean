/-
C04 — helper lemmas for Props/C04*.lean: the representation relation between
ideal Wuffs values and typed C values, rewriting lemmas for the C semantics of
Model/CExpr.lean, power-of-two and bit-mask facts, and the case-analysis
tactics shared by the `lower_…` theorems.  Core Lean only.
-/
import WuffsVerif.Model.CExpr

set_option linter.unusedSimpArgs false

namespace WuffsVerif.Proof.C04
open WuffsVerif.WOps WuffsVerif.C WuffsVerif.Gen.C04

/-- C types that the text written by `writeExpr` for a Wuffs expression of
type `t` can have: a node with a ConstValue (`isLit`) is written `<v>u`
(unsigned int, or unsigned long when it does not fit); any other node has
exactly `cTypeNames[t]`, or — for u8/u16 — `int` (associative and unary
operators carry no overall cast, so their promoted type shows) or `uint32_t`
(an associative `*`, whose first operand is converted to uint32_t, and any
associative node that has absorbed a `Nu` literal). -/
def OpdTy (t : WTy) (isLit : Bool) (c : CTy) : Prop :=
  if isLit then (c = .u32 ∨ (t = .u64 ∧ c = .u64))
  else (c = ctyOf t ∨ (t.isSmall = true ∧ c = .int) ∨ (t.isSmall = true ∧ c = .u32))

/-- the C value `x` represents the ideal value `a` of Wuffs type `t` -/
structure Rep (t : WTy) (k : Bool) (a : Int) (x : CVal) : Prop where
  val : x.v = a
  rng : t.has a
  wf : x.ty.has x.v
  ty : OpdTy t k x.ty

/-- a C value of any integer type holding the (non-negative) value `a`:
the right operand of a shift, whose Wuffs type is unrelated to the left one -/
structure RepAny (a : Int) (x : CVal) : Prop where
  val : x.v = a

def env1 (x : CVal) : Nat → Option CVal
  | 0 => some x
  | _ => none

def env2 (x y : CVal) : Nat → Option CVal
  | 0 => some x
  | 1 => some y
  | _ => none

def env3 (x y z : CVal) : Nat → Option CVal
  | 0 => some x
  | 1 => some y
  | 2 => some z
  | _ => none

@[simp] theorem convert_u8 (v : Int) : convert .u8 v = some (wrapU 8 v) := rfl
@[simp] theorem convert_u16 (v : Int) : convert .u16 v = some (wrapU 16 v) := rfl
@[simp] theorem convert_u32 (v : Int) : convert .u32 v = some (wrapU 32 v) := rfl
@[simp] theorem convert_u64 (v : Int) : convert .u64 v = some (wrapU 64 v) := rfl

theorem convert_int_ok (v : Int) (h1 : -2147483648 ≤ v) (h2 : v ≤ 2147483647) :
    convert .int v = some v := by
  simp [convert, INT_MIN, INT_MAX, h1, h2]

theorem intResult_ok (r : Int) (h1 : -2147483648 ≤ r) (h2 : r ≤ 2147483647) :
    intResult r = some ⟨.int, r⟩ := by
  simp [intResult, INT_MIN, INT_MAX, h1, h2]

theorem intResult_none (r : Int) (h : 2147483647 < r) : intResult r = none := by
  have h' : ¬(INT_MIN ≤ r ∧ r ≤ INT_MAX) := by simp only [INT_MIN, INT_MAX]; omega
  simp [intResult, h']

/-- `wrapU` is `BitVec` truncation: the modular reduction used throughout the C
semantics is the value of the corresponding fixed-width bit-vector. -/
theorem wrapU_eq_bitvec (w : Nat) (v : Int) : wrapU w v = ((BitVec.ofInt w v).toNat : Int) := by
  simp [wrapU, BitVec.toNat_ofInt]
  have h : (0 : Int) < 2 ^ w := Int.pow_pos (by decide)
  have := Int.emod_nonneg v (Int.ne_of_gt h)
  omega

theorem uadd_eq_bitvec (w : Nat) (a b : Nat) :
    wrapU w ((a : Int) + b) = ((BitVec.ofNat w a + BitVec.ofNat w b).toNat : Int) := by
  simp [wrapU, BitVec.toNat_add, BitVec.toNat_ofNat]

theorem umul_eq_bitvec (w : Nat) (a b : Nat) :
    wrapU w ((a : Int) * b) = ((BitVec.ofNat w a * BitVec.ofNat w b).toNat : Int) := by
  simp [wrapU, BitVec.toNat_mul, BitVec.toNat_ofNat]

/-- 2^n for a shift amount below `k` -/
theorem pow2_bounds (n : Int) (k : Nat) (h0 : 0 ≤ n) (h : n < k) :
    (1 : Int) ≤ 2 ^ n.toNat ∧ (2 : Int) ^ n.toNat ≤ 2 ^ (k - 1) := by
  have hm : n.toNat ≤ k - 1 := by omega
  have h1 : (1 : Nat) ≤ 2 ^ n.toNat := Nat.one_le_two_pow
  have h2 : 2 ^ n.toNat ≤ 2 ^ (k - 1) := Nat.pow_le_pow_right (by decide) hm
  constructor
  · exact_mod_cast h1
  · exact_mod_cast h2

theorem iand_nonneg (a b : Int) : 0 ≤ iand a b := Int.natCast_nonneg _
theorem ior_nonneg (a b : Int) : 0 ≤ ior a b := Int.natCast_nonneg _
theorem ixor_nonneg (a b : Int) : 0 ≤ ixor a b := Int.natCast_nonneg _

theorem toNat_lt_two_pow (a : Int) (n : Nat) (ha : 0 ≤ a) (h : a < 2 ^ n) : a.toNat < 2 ^ n := by
  have : ((a.toNat : Nat) : Int) < ((2 ^ n : Nat) : Int) := by
    rw [Int.toNat_of_nonneg ha]; exact_mod_cast h
  exact_mod_cast this

theorem iand_lt (a b : Int) (n : Nat) (ha : 0 ≤ a) (h : a < 2 ^ n) : iand a b < 2 ^ n := by
  have h1 : a.toNat &&& b.toNat ≤ a.toNat := Nat.and_le_left
  have h2 := toNat_lt_two_pow a n ha h
  have : a.toNat &&& b.toNat < 2 ^ n := Nat.lt_of_le_of_lt h1 h2
  show ((a.toNat &&& b.toNat : Nat) : Int) < 2 ^ n
  exact_mod_cast this

theorem ior_lt (a b : Int) (n : Nat) (ha : 0 ≤ a) (hb : 0 ≤ b) (h1 : a < 2 ^ n) (h2 : b < 2 ^ n) :
    ior a b < 2 ^ n := by
  have := Nat.or_lt_two_pow (toNat_lt_two_pow a n ha h1) (toNat_lt_two_pow b n hb h2)
  show ((a.toNat ||| b.toNat : Nat) : Int) < 2 ^ n
  exact_mod_cast this

theorem ixor_lt (a b : Int) (n : Nat) (ha : 0 ≤ a) (hb : 0 ≤ b) (h1 : a < 2 ^ n) (h2 : b < 2 ^ n) :
    ixor a b < 2 ^ n := by
  have := Nat.xor_lt_two_pow (toNat_lt_two_pow a n ha h1) (toNat_lt_two_pow b n hb h2)
  show ((a.toNat ^^^ b.toNat : Nat) : Int) < 2 ^ n
  exact_mod_cast this

theorem nat_or_allones (x n : Nat) (h : x < 2 ^ n) : x ||| (2 ^ n - 1) = 2 ^ n - 1 := by
  apply Nat.eq_of_testBit_eq
  intro i
  simp only [Nat.testBit_or, Nat.testBit_two_pow_sub_one]
  by_cases hi : i < n
  · simp [hi]
  · have : x < 2 ^ i := Nat.lt_of_lt_of_le h (Nat.pow_le_pow_right (by decide) (by omega))
    simp [hi, Nat.testBit_lt_two_pow this]

theorem nat_and_allones (x n : Nat) (h : x < 2 ^ n) : x &&& (2 ^ n - 1) = x := by
  rw [Nat.and_two_pow_sub_one_eq_mod, Nat.mod_eq_of_lt h]

theorem ior_zero (a : Int) (h : 0 ≤ a) : ior a 0 = a := by
  show ((a.toNat ||| (0:Int).toNat : Nat) : Int) = a
  simp [Int.toNat_of_nonneg h]

theorem iand_zero (a : Int) : iand a 0 = 0 := by
  show ((a.toNat &&& (0:Int).toNat : Nat) : Int) = 0
  simp

theorem ior_allones (a : Int) (n : Nat) (h0 : 0 ≤ a) (h : a < 2 ^ n) : ior a (2 ^ n - 1) = 2 ^ n - 1 := by
  have hn : ((2:Int) ^ n - 1).toNat = 2 ^ n - 1 := by
    have hc : ((2 ^ n : Nat) : Int) = (2:Int) ^ n := by norm_cast
    have h1 : (1:Nat) ≤ 2 ^ n := Nat.one_le_two_pow
    rw [← hc]; omega
  show ((a.toNat ||| ((2:Int) ^ n - 1).toNat : Nat) : Int) = 2 ^ n - 1
  rw [hn, nat_or_allones _ _ (toNat_lt_two_pow a n h0 h)]
  have hc : ((2 ^ n : Nat) : Int) = (2:Int) ^ n := by norm_cast
  have h1 : (1:Nat) ≤ 2 ^ n := Nat.one_le_two_pow
  rw [← hc]; omega

theorem iand_allones (a : Int) (n : Nat) (h0 : 0 ≤ a) (h : a < 2 ^ n) : iand a (2 ^ n - 1) = a := by
  have hn : ((2:Int) ^ n - 1).toNat = 2 ^ n - 1 := by
    have hc : ((2 ^ n : Nat) : Int) = (2:Int) ^ n := by norm_cast
    have h1 : (1:Nat) ≤ 2 ^ n := Nat.one_le_two_pow
    rw [← hc]; omega
  show ((a.toNat &&& ((2:Int) ^ n - 1).toNat : Nat) : Int) = a
  rw [hn, nat_and_allones _ _ (toNat_lt_two_pow a n h0 h)]
  exact Int.toNat_of_nonneg h0

theorem ior_255 (a : Int) (h0 : 0 ≤ a) (h : a < 256) : ior a 255 = 255 := by
  simpa using ior_allones a 8 h0 (by simpa using h)
theorem ior_65535 (a : Int) (h0 : 0 ≤ a) (h : a < 65536) : ior a 65535 = 65535 := by
  simpa using ior_allones a 16 h0 (by simpa using h)
theorem ior_u32max (a : Int) (h0 : 0 ≤ a) (h : a < 4294967296) : ior a 4294967295 = 4294967295 := by
  simpa using ior_allones a 32 h0 (by simpa using h)
theorem ior_u64max (a : Int) (h0 : 0 ≤ a) (h : a < 18446744073709551616) :
    ior a 18446744073709551615 = 18446744073709551615 := by
  simpa using ior_allones a 64 h0 (by simpa using h)
theorem iand_255 (a : Int) (h0 : 0 ≤ a) (h : a < 256) : iand a 255 = a := by
  simpa using iand_allones a 8 h0 (by simpa using h)
theorem iand_65535 (a : Int) (h0 : 0 ≤ a) (h : a < 65536) : iand a 65535 = a := by
  simpa using iand_allones a 16 h0 (by simpa using h)
theorem iand_u32max (a : Int) (h0 : 0 ≤ a) (h : a < 4294967296) : iand a 4294967295 = a := by
  simpa using iand_allones a 32 h0 (by simpa using h)
theorem iand_u64max (a : Int) (h0 : 0 ≤ a) (h : a < 18446744073709551616) :
    iand a 18446744073709551615 = a := by
  simpa using iand_allones a 64 h0 (by simpa using h)

/-- a value of the Wuffs type is below 2^bits -/
theorem WTy.has_lt (t : WTy) (a : Int) (h : t.has a) : a < 2 ^ t.bits := by
  have := h.2
  unfold WTy.max at this
  omega

/-! ## Case-analysis tactics for the `lower_…` theorems

They refer to the theorem's hypotheses by name (`hx hy hk hdef`, `t lk rk x y`). -/

set_option hygiene false in
/-- destructure the two representation hypotheses `hx`, `hy` -/
macro "rep_intro" : tactic => `(tactic| (
  obtain ⟨hxv, hxr, hxw, hxt⟩ := hx
  obtain ⟨hyv, hyr, hyw, hyt⟩ := hy
  obtain ⟨xt, xv⟩ := x
  obtain ⟨yt, yv⟩ := y
  simp only at hxv hyv hxw hyw hxt hyt
  subst hxv hyv))

set_option hygiene false in
/-- all (Wuffs type, literal-ness, C operand type) cases of a binary node -/
macro "rep_cases" : tactic => `(tactic| (
  cases t <;> cases lk <;> cases rk <;>
    simp only [OpdTy, ctyOf, WTy.isSmall, Bool.false_eq_true, if_false, if_true, and_self, not_true_eq_false,
      reduceCtorEq, false_and, or_false, and_false, true_and, beq_self_eq_true, Bool.or_true,
      Bool.true_or, and_true, not_false_eq_true, beq_iff_eq, Bool.or_eq_true] at hk hxt hyt <;>
    (try (rcases hxt with hxt | hxt | hxt)) <;> (try (rcases hyt with hyt | hyt | hyt)) <;>
    (try subst hxt) <;> (try subst hyt) <;>
    simp [WOp.defined, WTy.has, WTy.max, WTy.bits, CTy.has, CTy.bits, INT_MIN, INT_MAX] at hdef hxr hyr hxw hyw))

/-- unfold the lowering and the C evaluation of one node -/
macro "c_eval" : tactic => `(tactic| (
  simp [lowerBin, cBinOf, cTypeOf, WTy.isSmall, WOp.isComparison, WOp.isLogical, ceval, env2, evalBin, promoteTy,
    uac, WOp.ideal, ctyOf, boolResult, WTy.bits, WTy.max]))

/-- discharge the definedness side conditions of the C semantics with `omega`
and close the arithmetic goal -/
macro "c_finish" : tactic => `(tactic| (
  (repeat (first
    | (simp (disch := omega) only [convert_int_ok, intResult_ok, Int.tdiv_eq_ediv_of_nonneg,
        Int.tmod_eq_emod_of_nonneg, if_neg, if_pos, Int.emod_eq_of_lt])
    | (simp [castTo, wrapU, CTy.bits, b2i]))) <;>
  (try (first | omega | (simp; done) | (simp; omega) | (refine ⟨_, ⟨by omega, rfl⟩, ?_, ?_⟩ <;> simp)))))

set_option hygiene false in
/-- shifts: the right operand is any C value holding the shift amount -/
macro "shift_intro" : tactic => `(tactic| (
  obtain ⟨hxv, hxr, hxw, hxt⟩ := hx
  obtain ⟨xt, xv⟩ := x
  obtain ⟨yt, yv⟩ := y
  simp only at hxv hyv hxw hxt
  subst hxv hyv
  have hlt : yv < t.bits := by cases t <;> simp_all [WOp.defined]
  have hp := pow2_bounds yv t.bits hb0 hlt
  have hm : 0 ≤ xv * 2 ^ yv.toNat := Int.mul_nonneg hxr.1 (by omega)
  have hmu : xv * 2 ^ yv.toNat ≤ t.max * 2 ^ (t.bits - 1) :=
    Int.mul_le_mul hxr.2 hp.2 (by omega) (by cases t <;> simp [WTy.max, WTy.bits])
  have hq0 : 0 ≤ xv / 2 ^ yv.toNat := Int.ediv_nonneg hxr.1 (by omega)
  have hq1 : xv / 2 ^ yv.toNat ≤ xv := Int.ediv_le_self _ hxr.1))

set_option hygiene false in
macro "shift_cases" : tactic => `(tactic| (
  cases t <;> cases lk <;>
    simp only [OpdTy, ctyOf, WTy.isSmall, Bool.false_eq_true, if_false, if_true, and_self, not_true_eq_false,
      reduceCtorEq, false_and, or_false, and_false, true_and, beq_self_eq_true, Bool.or_true,
      Bool.true_or, and_true, not_false_eq_true, beq_iff_eq, Bool.or_eq_true] at hxt <;>
    (try (rcases hxt with hxt | hxt | hxt)) <;> (try subst hxt) <;>
    simp [WOp.defined, WTy.has, WTy.max, WTy.bits, CTy.has, CTy.bits, INT_MIN, INT_MAX] at hdef hxr hxw hlt hp hmu))

/-! ## The saturating helpers of base/fundamental-public.h -/

theorem castTo_id (t : WTy) (x : CVal) (h0 : 0 ≤ x.v) (h1 : x.v ≤ t.max) :
    castTo (ctyOf t) x = some ⟨ctyOf t, x.v⟩ := by
  cases t <;> simp [WTy.max, WTy.bits] at h1 <;> simp [castTo, ctyOf, wrapU] <;> omega

macro "sat_finish" : tactic => `(tactic| (
  (repeat (first
    | (simp (disch := omega) only [convert_int_ok, intResult_ok, if_neg, if_pos, Int.emod_eq_of_lt,
        ior_zero, iand_zero, ior_255, ior_65535, ior_u32max, ior_u64max, iand_255, iand_65535, iand_u32max, iand_u64max])
    | (simp [castTo, wrapU, CTy.bits, b2i, evalBin, evalUn, promoteTy, uac, boolResult]))) <;>
  (try (first | omega | (simp; done) | (simp; omega)))))

theorem satAddC_spec (t : WTy) (x y : CVal) (hx0 : 0 ≤ x.v) (hx1 : x.v ≤ t.max)
    (hy0 : 0 ≤ y.v) (hy1 : y.v ≤ t.max) :
    satAddC t x y = some ⟨ctyOf t, WOp.satAdd.ideal t x.v y.v⟩ := by
  obtain ⟨xt, xv⟩ := x
  obtain ⟨yt, yv⟩ := y
  simp only at hx0 hx1 hy0 hy1
  simp only [satAddC, castTo_id t ⟨xt, xv⟩ hx0 hx1, castTo_id t ⟨yt, yv⟩ hy0 hy1, bind, Option.bind]
  by_cases hov : xv + yv ≤ t.max
  · cases t <;> simp [WTy.max, WTy.bits] at hov hx1 hy1 <;>
      simp [ctyOf, WOp.ideal, WTy.max, WTy.bits] <;> sat_finish
  · cases t <;> simp [WTy.max, WTy.bits] at hov hx1 hy1 <;>
      simp [ctyOf, WOp.ideal, WTy.max, WTy.bits] <;> sat_finish

theorem satSubC_spec (t : WTy) (x y : CVal) (hx0 : 0 ≤ x.v) (hx1 : x.v ≤ t.max)
    (hy0 : 0 ≤ y.v) (hy1 : y.v ≤ t.max) :
    satSubC t x y = some ⟨ctyOf t, WOp.satSub.ideal t x.v y.v⟩ := by
  obtain ⟨xt, xv⟩ := x
  obtain ⟨yt, yv⟩ := y
  simp only at hx0 hx1 hy0 hy1
  simp only [satSubC, castTo_id t ⟨xt, xv⟩ hx0 hx1, castTo_id t ⟨yt, yv⟩ hy0 hy1, bind, Option.bind]
  by_cases hov : yv ≤ xv
  · cases t <;> simp [WTy.max, WTy.bits] at hx1 hy1 <;>
      simp [ctyOf, WOp.ideal, WTy.max, WTy.bits] <;> sat_finish
  · cases t <;> simp [WTy.max, WTy.bits] at hx1 hy1 <;>
      simp [ctyOf, WOp.ideal, WTy.max, WTy.bits] <;> sat_finish


end WuffsVerif.Proof.C04
