/-
C13: static facts about the index tree (`Uni`, `Stat`): established by `gather`, kept by `calcEncodedSize`.
-/
import WuffsVerif.Proof.RacGatherStruct
import WuffsVerif.Proof.RacAntiLoop
import WuffsVerif.Proof.RacLayout
namespace WuffsVerif.Rac

mutual
/-- every node has codec `c`; a node without children has no resources; a branch has no resource tag -/
def Uni (c : Nat) : WNode → Prop
  | .mk _ cs rs _ s _ c' => c' = c ∧ (cs = [] → rs = []) ∧ (cs ≠ [] → s = 0) ∧ UniList c cs
def UniList (c : Nat) : List WNode → Prop
  | [] => True
  | o :: os => Uni c o ∧ UniList c os
end

/-- induction over the index tree -/
theorem WNode.tree_ind (P : WNode → Prop)
    (h : ∀ d cs rs col s t c, (∀ o ∈ cs, P o) → P (.mk d cs rs col s t c)) : ∀ n, P n :=
  Uni.induct P (fun l => ∀ o ∈ l, P o) (fun d cs rs col s t c ih => h d cs rs col s t c ih) (by simp)
    (fun o os h1 h2 => by
      intro x hx
      rcases List.mem_cons.mp hx with rfl | hx
      · exact h1
      · exact h2 x hx)

theorem uniList_iff (c : Nat) (cs : List WNode) : UniList c cs ↔ ∀ o ∈ cs, Uni c o := by
  induction cs with
  | nil => simp [UniList]
  | cons o os ih => simp [UniList, ih]

theorem uni_codec {c : Nat} {n : WNode} (h : Uni c n) : n.codec = c := by
  cases n with
  | mk d cs rs col s t c' => simp only [Uni] at h; exact h.1

theorem branchCodec_uniform (c : Nat) (grp : List WNode) (hne : grp ≠ []) (h : ∀ o ∈ grp, o.codec = c) :
    branchCodec grp = c := by
  cases grp with
  | nil => exact absurd rfl hne
  | cons a as =>
    simp only [branchCodec]
    have ha : a.codec = c := h a (by simp)
    rw [ha]
    have : ∀ (l : List WNode), (∀ o ∈ l, o.codec = c) →
        l.foldl (fun codec x => if codec != x.codec then codecMixBit ||| codecZeroes else codec) c = c := by
      intro l
      induction l with
      | nil => intro _; rfl
      | cons x xs ih =>
        intro hl
        simp only [List.foldl_cons]
        rw [hl x (by simp)]
        simp only [bne_self_eq_false, Bool.false_eq_true, ↓reduceIte]
        exact ih (fun o ho => hl o (by simp [ho]))
    exact this as (fun o ho => h o (by simp [ho]))

theorem makeBranch_uni (c : Nat) (grp : List WNode) (res : List Nat) (hne : grp ≠ [])
    (h : ∀ o ∈ grp, Uni c o) : Uni c (makeBranch grp res) := by
  unfold makeBranch
  simp only [Uni]
  refine ⟨branchCodec_uniform c grp hne (fun o ho => uni_codec (h o ho)), fun h0 => absurd h0 hne, fun _ => trivial,
    (uniList_iff c grp).mpr h⟩

theorem gather_uni (c : Nat) (nodes : List WNode) (long : Bool) (hne : nodes ≠ [])
    (hleaf : ∀ o ∈ nodes, o.children = []) (hu : ∀ o ∈ nodes, Uni c o) : Uni c (gather nodes long) :=
  gather_preserves (Q := Uni c) (fun grp res h1 h2 => makeBranch_uni c grp res h1 h2) nodes long hne hleaf hu

mutual
/-- the static facts about the index tree that the reader's validation relies on -/
def Stat (c : Nat) : WNode → Prop
  | .mk d cs rs _ _ _ c' => d > 0 ∧ (cs = [] → rs = []) ∧
      (cs ≠ [] → c' = c ∧ cs.length + rs.length + (codecIsLong c).toNat ≤ 255 ∧ rs.length ≤ 2 * cs.length ∧
        d = (cs.map WNode.dRangeSize).sum ∧ StatList c d cs ∧
        (∀ x ∈ cs.map WNode.secondary, x ≠ 0 → x ∈ rs) ∧ (∀ x ∈ cs.map WNode.tertiary, x ≠ 0 → x ∈ rs))
def StatList (c d : Nat) : List WNode → Prop
  | [] => True
  | o :: os => Stat c o ∧ (o.isBranch = true → o.secondary = 0 ∧ o.dRangeSize < d) ∧ StatList c d os
end

theorem statList_iff (c d : Nat) (cs : List WNode) :
    StatList c d cs ↔ ∀ o ∈ cs, Stat c o ∧ (o.isBranch = true → o.secondary = 0 ∧ o.dRangeSize < d) := by
  induction cs with
  | nil => simp [StatList]
  | cons o os ih =>
    simp only [StatList, ih, List.mem_cons, forall_eq_or_imp]
    constructor
    · rintro ⟨a, b, c'⟩; exact ⟨⟨a, b⟩, c'⟩
    · rintro ⟨⟨a, b⟩, c'⟩; exact ⟨a, b, c'⟩

/-- `Good` + `Dec` + `Uni` give `Stat` -/
theorem stat_of (c : Nat) (long : Bool) (hl : codecIsLong c = long) :
    ∀ n : WNode, n.Good (if long then 0xFE else 0xFF) → n.Dec → Uni c n → Stat c n := by
  apply WNode.tree_ind
  intro d cs rs col s t c' ih hg hd hu
  simp only [WNode.Good] at hg
  simp only [WNode.Dec] at hd
  simp only [Uni] at hu
  obtain ⟨hd1, hd2, hd3⟩ := hd
  obtain ⟨hu1, hu2, hu3, hu4⟩ := hu
  simp only [Stat]
  refine ⟨hd1, hu2, fun hne => ?_⟩
  rcases hg with h | ⟨g1, g2, g3, g4, g5⟩
  · exact absurd h hne
  · have hgl := (goodList_iff _ _ _).mp g5
    refine ⟨hu1, ?_, g3, hd2 hne, ?_, ?_, ?_⟩
    · rw [hl]; cases long <;> simp at g1 ⊢ <;> omega
    rotate_left
    · intro x hx hx0
      obtain ⟨o, ho, rfl⟩ := List.mem_map.mp hx
      exact (hgl o ho).2.1 hx0
    · intro x hx hx0
      obtain ⟨o, ho, rfl⟩ := List.mem_map.mp hx
      exact (hgl o ho).2.2 hx0
    · rw [statList_iff]
      intro o ho
      have hgo := ((goodList_iff _ _ _).mp g5 o ho).1
      have hdo := (decList_iff _ _).mp hd3 o ho
      have huo := (uniList_iff _ _).mp hu4 o ho
      refine ⟨ih o ho hgo hdo.1 huo, fun hb => ⟨?_, hdo.2 hb⟩⟩
      cases o with
      | mk d' cs' rs' col' s' t' c'' =>
        simp only [Uni] at huo
        simp only [WNode.secondary]
        apply huo.2.2.1
        intro h; rw [h] at hb; simp [WNode.isBranch, WNode.children] at hb

theorem leavesOf_branch (d : Nat) (cs : List WNode) (rs : List Nat) (col s t c : Nat) (h : cs ≠ []) :
    leavesOf (.mk d cs rs col s t c) = leavesOfList cs := by
  cases cs with
  | nil => exact absurd rfl h
  | cons a as => simp [leavesOf]

/-- `calcEncodedSize` only sets the `COffset|CLength` of branch nodes: the static facts, the leaves,
sizes and tags are unchanged -/
theorem calc_stat (n : WNode) (acc : Nat) (r : Bool) :
    ∀ c, Stat c n → Stat c (n.calcEncodedSize acc r).1 ∧ leavesOf (n.calcEncodedSize acc r).1 = leavesOf n ∧
      (n.calcEncodedSize acc r).1.dRangeSize = n.dRangeSize ∧
      (n.calcEncodedSize acc r).1.isBranch = n.isBranch ∧
      (n.calcEncodedSize acc r).1.secondary = n.secondary ∧
      (n.calcEncodedSize acc r).1.tertiary = n.tertiary := by
  refine WNode.calcEncodedSize.induct
    (fun n acc r => ∀ c, Stat c n → Stat c (n.calcEncodedSize acc r).1 ∧
      leavesOf (n.calcEncodedSize acc r).1 = leavesOf n ∧
      (n.calcEncodedSize acc r).1.dRangeSize = n.dRangeSize ∧
      (n.calcEncodedSize acc r).1.isBranch = n.isBranch ∧
      (n.calcEncodedSize acc r).1.secondary = n.secondary ∧
      (n.calcEncodedSize acc r).1.tertiary = n.tertiary)
    (fun cs acc => ∀ c d, StatList c d cs → StatList c d (calcEncodedSizeList cs acc).1 ∧
      leavesOfList (calcEncodedSizeList cs acc).1 = leavesOfList cs ∧
      (calcEncodedSizeList cs acc).1.map WNode.dRangeSize = cs.map WNode.dRangeSize ∧
      (calcEncodedSizeList cs acc).1.length = cs.length ∧
      (calcEncodedSizeList cs acc).1.map WNode.secondary = cs.map WNode.secondary ∧
      (calcEncodedSizeList cs acc).1.map WNode.tertiary = cs.map WNode.tertiary)
    ?_ ?_ ?_ ?_ ?_ n acc r
  · intro d cs rs col s t c acc r arity h0 c' hs
    simp only [arity] at h0
    simp [WNode.calcEncodedSize, h0, hs]
  · intro d cs rs col s t c acc arity h0 cs' acc1 hcalc ih c' hs
    simp only [arity] at h0
    have hne : cs ≠ [] := by
      intro h
      simp only [Stat] at hs
      have := hs.2.1 h
      subst h; subst this
      simp at h0
    rw [calc_branch_end d cs rs col s t c acc hne]
    simp only [hcalc]
    simp only [Stat] at hs ⊢
    obtain ⟨h1, h2, h3⟩ := hs
    obtain ⟨e1, e2, e3, e4, e5, e6, e7⟩ := h3 hne
    have ih' := ih c' d e5
    rw [hcalc] at ih'
    simp only at ih'
    obtain ⟨i1, i2, i3, i4, i5, i6⟩ := ih'
    have hne' : cs' ≠ [] := by
      intro h; rw [h] at i4; exact hne (List.eq_nil_of_length_eq_zero i4.symm)
    refine ⟨⟨h1, fun h => absurd h hne', fun _ => ⟨e1, by rw [i4]; exact e2, by rw [i4]; exact e3, by rw [i3]; exact e4, i1,
      by rw [i5]; exact e6, by rw [i6]; exact e7⟩⟩, ?_, rfl, ?_, rfl, rfl⟩
    · rw [leavesOf_branch _ _ _ _ _ _ _ hne', leavesOf_branch _ _ _ _ _ _ _ hne, i2]
    · simp only [WNode.isBranch, WNode.children]
      cases cs with
      | nil => exact absurd rfl hne
      | cons _ _ => cases cs' with
        | nil => exact absurd rfl hne'
        | cons _ _ => rfl
  · intro d cs rs col s t c acc r arity h0 arity2 size hr cs' acc1 hcalc ih c' hs
    have hr' : r = false := by simpa using hr
    subst hr'
    simp only [arity] at h0
    have hne : cs ≠ [] := by
      intro h
      simp only [Stat] at hs
      have := hs.2.1 h
      subst h; subst this
      simp at h0
    have hsz : (if codecIsLong c = true then cs.length + rs.length + 1 else cs.length + rs.length) * 16 + 16 =
        nodeSize cs rs c := by
      unfold nodeSize; cases codecIsLong c <;> simp
    simp only [size, arity2, arity] at hcalc ih
    rw [hsz] at hcalc ih
    rw [calc_branch_pre d cs rs col s t c acc hne]
    simp only [hcalc]
    simp only [Stat] at hs ⊢
    obtain ⟨h1, h2, h3⟩ := hs
    obtain ⟨e1, e2, e3, e4, e5, e6, e7⟩ := h3 hne
    have ih' := ih c' d e5
    rw [hcalc] at ih'
    simp only at ih'
    obtain ⟨i1, i2, i3, i4, i5, i6⟩ := ih'
    have hne' : cs' ≠ [] := by
      intro h; rw [h] at i4; exact hne (List.eq_nil_of_length_eq_zero i4.symm)
    refine ⟨⟨h1, fun h => absurd h hne', fun _ => ⟨e1, by rw [i4]; exact e2, by rw [i4]; exact e3, by rw [i3]; exact e4, i1,
      by rw [i5]; exact e6, by rw [i6]; exact e7⟩⟩, ?_, rfl, ?_, rfl, rfl⟩
    · rw [leavesOf_branch _ _ _ _ _ _ _ hne', leavesOf_branch _ _ _ _ _ _ _ hne, i2]
    · simp only [WNode.isBranch, WNode.children]
      cases cs with
      | nil => exact absurd rfl hne
      | cons _ _ => cases cs' with
        | nil => exact absurd rfl hne'
        | cons _ _ => rfl
  · intro acc c d _
    simp [calcEncodedSizeList, StatList]
  · intro n ns acc n' acc1 hn cs' acc2 hns ih1 ih2 c d hs
    simp only [StatList] at hs
    obtain ⟨s1, s2, s3⟩ := hs
    have h1 := ih1 c s1
    have h2 := ih2 c d s3
    rw [hn] at h1; rw [hns] at h2
    simp only at h1 h2
    obtain ⟨a1, a2, a3, a4, a5, a6⟩ := h1
    obtain ⟨b1, b2, b3, b4, b5, b6⟩ := h2
    simp only [calcEncodedSizeList, hn, hns, StatList, leavesOfList, List.map_cons, List.length_cons]
    refine ⟨⟨a1, ?_, b1⟩, by rw [a2, b2], by rw [a3, b3], by rw [b4], by rw [a5, b5], by rw [a6, b6]⟩
    rw [a4, a5, a3]; exact s2
end WuffsVerif.Rac
