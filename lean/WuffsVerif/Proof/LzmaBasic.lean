/-
Helper lemmas for C17 (Model/Lzma.lean): big-endian value of a byte string, `pushN`/`pushList`,
the `uint32` mask, probability tables.  Core Lean only.
-/
import WuffsVerif.Model.Lzma

namespace WuffsVerif.Lzma

/-! ## masks and shifts -/

theorem land32 (x : Nat) : x &&& 0xFFFFFFFF = x % 4294967296 :=
  Nat.and_two_pow_sub_one_eq_mod x 32

theorem mul256_or (a s : Nat) (hs : s < 256) : (a * 256) ||| s = a * 256 + s := by
  have := Nat.two_pow_add_eq_or_of_lt (i := 8) (b := s) (by simpa using hs) a
  simp only [Nat.reducePow] at this
  rw [Nat.mul_comm] at this
  exact this.symm

theorem mul2_or (a s : Nat) (hs : s < 2) : (a * 2) ||| s = a * 2 + s := by
  have := Nat.two_pow_add_eq_or_of_lt (i := 1) (b := s) (by simpa using hs) a
  simp only [Nat.pow_one] at this
  rw [Nat.mul_comm] at this
  exact this.symm

theorem shr_and_one (b i : Nat) : (b >>> i) &&& 1 = (b / 2 ^ i) % 2 := by
  rw [Nat.shiftRight_eq_div_pow]
  exact Nat.and_two_pow_sub_one_eq_mod _ 1

/-! ## big-endian value -/

/-- the number denoted by a big-endian byte string -/
def val (bs : List UInt8) : Nat := bs.foldl (fun a b => a * 256 + b.toNat) 0

theorem val_foldl (bs : List UInt8) (a : Nat) :
    bs.foldl (fun a b => a * 256 + b.toNat) a = a * 256 ^ bs.length + val bs := by
  induction bs generalizing a with
  | nil => simp [val]
  | cons b bs ih =>
    simp only [List.foldl_cons, List.length_cons, val]
    rw [ih, ih (0 * 256 + b.toNat)]
    rw [Nat.pow_succ, Nat.add_mul, Nat.zero_mul, Nat.zero_add, Nat.add_assoc]
    congr 1
    rw [Nat.mul_assoc, Nat.mul_comm (256 ^ bs.length) 256]

@[simp] theorem val_nil : val [] = 0 := rfl

theorem val_append (xs ys : List UInt8) : val (xs ++ ys) = val xs * 256 ^ ys.length + val ys := by
  unfold val
  rw [List.foldl_append, val_foldl]
  rfl

theorem val_singleton (b : UInt8) : val [b] = b.toNat := by simp [val]

theorem val_snoc (xs : List UInt8) (b : UInt8) : val (xs ++ [b]) = val xs * 256 + b.toNat := by
  rw [val_append, val_singleton]; simp

theorem val_cons (b : UInt8) (xs : List UInt8) : val (b :: xs) = b.toNat * 256 ^ xs.length + val xs := by
  have := val_append [b] xs
  simpa [val_singleton] using this

theorem val_replicate_ff (n : Nat) : val (List.replicate n (0xFF : UInt8)) + 1 = 256 ^ n := by
  induction n with
  | zero => simp
  | succ n ih =>
    rw [List.replicate_succ', val_snoc, Nat.pow_succ]
    have : (0xFF : UInt8).toNat = 255 := rfl
    rw [this]
    omega

theorem val_replicate_zero (n : Nat) : val (List.replicate n (0x00 : UInt8)) = 0 := by
  induction n with
  | zero => simp
  | succ n ih =>
    rw [List.replicate_succ', val_snoc, ih]
    rfl

theorem val_lt (xs : List UInt8) : val xs < 256 ^ xs.length := by
  induction xs with
  | nil => simp
  | cons b xs ih =>
    rw [val_cons, List.length_cons, Nat.pow_succ]
    have hb : b.toNat * 256 ^ xs.length ≤ 255 * 256 ^ xs.length :=
      Nat.mul_le_mul_right _ (by have := b.toNat_lt; omega)
    omega

theorem val_take_succ (out : List UInt8) (n : Nat) (h : n < out.length) :
    val (out.take (n + 1)) = val (out.take n) * 256 + out[n].toNat := by
  rw [List.take_add_one, List.getElem?_eq_getElem h]
  simp only [Option.toList_some]
  exact val_snoc _ _

/-! ## pushN / pushList -/

theorem pushN_toList (dst : Array UInt8) (b : UInt8) (n : Nat) :
    (pushN dst b n).toList = dst.toList ++ List.replicate n b := by
  induction n generalizing dst with
  | zero => simp [pushN]
  | succ n ih =>
    simp only [pushN]
    rw [ih, Array.toList_push, List.replicate_succ, List.append_assoc]
    rfl

theorem pushList_toList (dst : Array UInt8) (xs : List UInt8) :
    (pushList dst xs).toList = dst.toList ++ xs := by
  induction xs generalizing dst with
  | nil => simp [pushList]
  | cons x xs ih =>
    simp only [pushList]
    rw [ih, Array.toList_push, List.append_assoc]
    rfl

theorem pushN_size (dst : Array UInt8) (b : UInt8) (n : Nat) : (pushN dst b n).size = dst.size + n := by
  rw [← Array.length_toList, pushN_toList]; simp

theorem pushList_size (dst : Array UInt8) (xs : List UInt8) :
    (pushList dst xs).size = dst.size + xs.length := by
  rw [← Array.length_toList, pushList_toList]; simp

/-! ## probabilities -/

/-- a probability value the adaptive model can hold -/
def ProbOK (p : Nat) : Prop := 31 ≤ p ∧ p ≤ 2017

/-- every entry of a probability table (and the default used for an out-of-range index) is in range -/
def ProbsOK (a : Array Nat) : Prop := ∀ i, ProbOK (a.getD i probHalf)

theorem probHalf_ok : ProbOK probHalf := by
  unfold ProbOK probHalf probBits; omega

theorem probUp_ok {p : Nat} (h : ProbOK p) : ProbOK (probUp p) := by
  unfold ProbOK at *
  unfold probUp maxProb probBits adaptShift
  simp only [Nat.shiftRight_eq_div_pow]
  omega

theorem probDown_ok {p : Nat} (h : ProbOK p) : ProbOK (probDown p) := by
  unfold ProbOK at *
  unfold probDown minProb adaptShift
  simp only [Nat.shiftRight_eq_div_pow]
  omega

theorem probsOK_replicate (n : Nat) : ProbsOK (Array.replicate n probHalf) := by
  intro i
  rw [Array.getD_eq_getD_getElem?, Array.getElem?_replicate]
  split <;> exact probHalf_ok

theorem probsOK_set {a : Array Nat} (h : ProbsOK a) (i v : Nat) (hv : ProbOK v) :
    ProbsOK (a.setIfInBounds i v) := by
  intro j
  rw [Array.getD_eq_getD_getElem?, Array.getElem?_setIfInBounds]
  have hj := h j
  rw [Array.getD_eq_getD_getElem?] at hj
  split
  · split
    · exact hv
    · exact probHalf_ok
  · exact hj

theorem initPosProbs_ok : ProbsOK initPosProbs := probsOK_replicate _
theorem initLitProbs_ok : ProbsOK initLitProbs := probsOK_replicate _

end WuffsVerif.Lzma
