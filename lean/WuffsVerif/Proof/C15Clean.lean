/-
C15 — files on which the index walk and the codec succeed everywhere ("clean" files): the
chunk list of C14's abstract `File` is COMPUTED from the bytes by walking `chunkAt`, and the
byte-level Reader model (Model/Rac/ByteReader.lean, real ChunkReader underneath) is shown to
run in lockstep with C14's sequential Reader model (Model/Rac/Reader.lean) over that list.
Props/C15Bytes composes this with C14's `reader_refines_spec`.  Core Lean only.
-/
import WuffsVerif.Proof.C15BytesLoop
import WuffsVerif.Proof.RacReader

set_option linter.unusedVariables false

namespace WuffsVerif.Rac.ByteReader
open WuffsVerif.Rac
open WuffsVerif.Rac.ChunkReader (chunkAt CRInv NextResult ChunkGood)

/-! ## one-step unfoldings of C14's `readLoop` -/

theorem c14_loop_A (F : Rac.File) (r : R) (n : Nat) (h1 : ¬ r.pos ≥ r.posLimit) (h2 : n ≠ 0)
    (h3 : ¬ (r.pos < r.dlo ∨ r.dhi < r.pos)) (hA : r.phase = .A) :
    Rac.readLoop F r n =
      match Rac.nextChunk F r with
      | (r', some e) => (r', [], some e)
      | (r', none) => Rac.readLoop F r' n := by
  rw [Rac.readLoop]
  simp only [h1, h2, h3, ↓reduceIte, ↓reduceDIte]
  split
  · split
    · rename_i heq; rw [heq]
    · rename_i heq; rw [heq]
  · rename_i hp; rw [hA] at hp; cases hp
  · rename_i hp; rw [hA] at hp; cases hp

theorem c14_loop_B (F : Rac.File) (r : R) (n : Nat) (h1 : ¬ r.pos ≥ r.posLimit) (h2 : n ≠ 0)
    (h3 : ¬ (r.pos < r.dlo ∨ r.dhi < r.pos)) (hB : r.phase = .B) :
    Rac.readLoop F r n =
      match readExplicit r n with
      | (r', bs, some e) => (r', bs, some e)
      | (r', bs, none) =>
        ((Rac.readLoop F r' (n - bs.length)).1, bs ++ (Rac.readLoop F r' (n - bs.length)).2.1,
          (Rac.readLoop F r' (n - bs.length)).2.2) := by
  rw [Rac.readLoop]
  simp only [h1, h2, h3, ↓reduceIte, ↓reduceDIte]
  split
  · rename_i hp; rw [hB] at hp; cases hp
  · split
    · rename_i heq; rw [heq]
    · rename_i heq; rw [heq]
  · rename_i hp; rw [hB] at hp; cases hp

theorem c14_loop_C (F : Rac.File) (r : R) (n : Nat) (h1 : ¬ r.pos ≥ r.posLimit) (h2 : n ≠ 0)
    (h3 : ¬ (r.pos < r.dlo ∨ r.dhi < r.pos)) (hC : r.phase = .C) :
    Rac.readLoop F r n =
      ((Rac.readLoop F (readZeroes r n).1 (n - (readZeroes r n).2)).1,
        zeros (readZeroes r n).2 ++ (Rac.readLoop F (readZeroes r n).1 (n - (readZeroes r n).2)).2.1,
        (Rac.readLoop F (readZeroes r n).1 (n - (readZeroes r n).2)).2.2) := by
  rw [Rac.readLoop]
  simp only [h1, h2, h3, ↓reduceIte, ↓reduceDIte]
  split
  · rename_i hp; rw [hC] at hp; cases hp
  · rename_i hp; rw [hC] at hp; cases hp
  · rfl

/-! ## the chunk list of a file, computed from its bytes -/

/-- walk the chunk stream `chunkAt` from DSpace position `p`, decoding each chunk with `k`;
stops at the decompressed size or at the first failure -/
def walkList (k : Codec) (o : ChunkReader.Reader) : Nat → Nat → List Rac.Chunk
  | 0, _ => []
  | fuel + 1, p =>
    if p ≥ o.dsize then []
    else
      match chunkAt o p with
      | .chunk c =>
        match decoded k o.file c with
        | .ok (data, tr) =>
          { lo := c.dLo, hi := c.dHi, data := data, trunc := tr } :: walkList k o fuel c.dHi
        | .error _ => []
      | _ => []

/-- C14's abstract RAC file, computed from the bytes the ChunkReader `o` was opened on -/
def absFile (k : Codec) (o : ChunkReader.Reader) : Rac.File :=
  { chunks := walkList k o o.dsize 0, size := o.dsize }

theorem mem_walkList {k : Codec} {o q : ChunkReader.Reader} (hq : CRInv o q) :
    ∀ (fuel p : Nat) (c : Rac.Chunk), c ∈ walkList k o fuel p →
      ∃ (cc : CChunk) (data : List UInt8) (tr : Bool),
        chunkAt o cc.dLo = .chunk cc ∧ decoded k o.file cc = .ok (data, tr) ∧
        c = { lo := cc.dLo, hi := cc.dHi, data := data, trunc := tr } := by
  intro fuel
  induction fuel with
  | zero => intro p c h; simp [walkList] at h
  | succ f ih =>
    intro p c h
    unfold walkList at h
    split at h
    · simp at h
    · split at h
      · rename_i cc hc
        split at h
        · rename_i data tr hd
          rcases List.mem_cons.mp h with h1 | h1
          · have hg := chunkAt_good' hq hc
            refine ⟨cc, data, tr, chunkAt_same' hq hc (Nat.le_refl _) (by have := hg.1.2.2.1; omega),
              hd, h1⟩
          · exact ih _ c h1
        · simp at h
      · simp at h

theorem findChunk_mem {cs : List Rac.Chunk} {p : Nat} {c : Rac.Chunk}
    (h : findChunk cs p = some c) : c ∈ cs := by
  induction cs with
  | nil => simp [findChunk] at h
  | cons d ds ih =>
    unfold findChunk at h
    split at h
    · cases h; exact List.mem_cons_self
    · exact List.mem_cons_of_mem _ (ih h)

/-- on a clean file the abstract chunk list finds, for every position, exactly the chunk of
the real chunk stream, decoded -/
theorem abs_find {k : Codec} {o q : ChunkReader.Reader} (hq : CRInv o q)
    (hv : (absFile k o).valid = true) (p : Nat) (hp : p < o.dsize) :
    ∃ (cc : CChunk) (data : List UInt8), chunkAt o p = .chunk cc ∧
      decoded k o.file cc = .ok (data, false) ∧
      findChunk (absFile k o).chunks p =
        some { lo := cc.dLo, hi := cc.dHi, data := data, trunc := false } := by
  obtain ⟨c, hfind, hlo, hhi, htr, _⟩ := File.find hv (p := p) hp
  obtain ⟨cc, data, tr, hc, hd, hce⟩ := mem_walkList hq _ _ c (findChunk_mem hfind)
  subst hce
  simp only at hlo hhi htr
  subst htr
  exact ⟨cc, data, chunkAt_same' hq hc hlo hhi, hd, hfind⟩

/-! ## lockstep with C14's model -/

theorem nextChunk_sim {k : Codec} {o : ChunkReader.Reader} (hv : (absFile k o).valid = true)
    (s : S) (he : s.r.err = none) (hs : SInv k o s) (hA : s.r.phase = .A)
    (hsync : s.r.crPos = s.cr.seekPos) :
    (nextChunk k s).1.r = (Rac.nextChunk (absFile k o) s.r).1 ∧
    (nextChunk k s).2 = (Rac.nextChunk (absFile k o) s.r).2 ∧
    ((nextChunk k s).2 = none → (nextChunk k s).1.r.crPos = (nextChunk k s).1.cr.seekPos) := by
  obtain ⟨hval, hchunk, heof, herr, hspin⟩ := ChunkReader.next_value o s.cr hs.cr
  generalize hout : nextChunk k s = out
  unfold nextChunk at hout
  simp only at hout
  unfold Rac.nextChunk
  have hsize : (absFile k o).size = o.dsize := rfl
  by_cases hge : o.dsize ≤ s.cr.seekPos
  · have h1 : s.cr.next.2 = .eof := by
      rw [hval]; exact (ChunkReader.chunkAt_eof o s.cr.seekPos).mpr hge
    rw [h1] at hout
    simp only at hout
    subst hout
    have : s.r.crPos ≥ (absFile k o).size := by rw [hsize, hsync]; exact hge
    simp only [this, ↓reduceIte]
    exact ⟨trivial, trivial, by intro h; cases h⟩
  · obtain ⟨cc, data, hc, hd, hfind⟩ := abs_find hs.cr hv s.cr.seekPos (by omega)
    have h1 : s.cr.next.2 = .chunk cc := by rw [hval]; exact hc
    obtain ⟨hcr, hsp⟩ := hchunk cc h1
    rw [h1] at hout
    simp only at hout
    have hgood := chunkAt_good' hs.cr hc
    have hne : (cc.dLo == cc.dHi) = false := by
      have := hgood.1.2.2.1
      simp only [beq_eq_false_iff_ne, ne_eq]; omega
    simp only [hne, Bool.false_eq_true, ↓reduceIte] at hout
    have hfile : s.cr.next.1.file = o.file := hcr.same.1
    rw [hfile, hd] at hout
    simp only at hout
    subst hout
    have : ¬ s.r.crPos ≥ (absFile k o).size := by rw [hsize, hsync]; omega
    simp only [this, ↓reduceIte]
    rw [hsync, hfind]
    exact ⟨rfl, rfl, fun _ => hsp.symm⟩

theorem nextChunk_cr (k : Codec) (s : S) : (nextChunk k s).1.cr = s.cr.next.1 := by
  unfold nextChunk
  simp only
  cases s.cr.next.2 with
  | eof => rfl
  | err e => rfl
  | spin => rfl
  | chunk c =>
    simp only
    split
    · rfl
    · split <;> rfl

theorem R_seek_size (F F' : Rac.File) (h : F.size = F'.size) (r : R) (off wh limit : Int) :
    r.seek F off wh limit = r.seek F' off wh limit := by
  unfold R.seek
  rw [h]

/-- **the Read loop runs in lockstep** with C14's `readLoop` over the computed chunk list -/
theorem loop_sim {k : Codec} {o : ChunkReader.Reader} (hv : (absFile k o).valid = true) :
    ∀ (fuel : Nat) (s : S) (n : Nat), s.r.err = none → SInv k o s → GoodCause s →
      s.r.crPos = s.cr.seekPos → pot s.r n < fuel →
      ∃ s' bs e, readLoop k fuel s n = some (s', bs, e) ∧
        Rac.readLoop (absFile k o) s.r n = (s'.r, bs, e) ∧
        (s'.r.err = none → s'.r.crPos = s'.cr.seekPos) := by
  intro fuel
  induction fuel with
  | zero => intro s n _ _ _ _ h; omega
  | succ fuel ih =>
    intro s n he hs hg hsync hpot
    unfold readLoop
    by_cases hlim : s.r.pos ≥ s.r.posLimit
    · simp only [hlim, ↓reduceIte]
      refine ⟨s, [], some .eof, rfl, ?_, fun _ => hsync⟩
      rw [Rac.readLoop]; simp only [hlim, ↓reduceIte]
    simp only [hlim, ↓reduceIte]
    by_cases hn0 : n = 0
    · simp only [hn0, ↓reduceIte]
      refine ⟨s, [], none, rfl, ?_, fun _ => hsync⟩
      rw [Rac.readLoop]; simp only [hlim, ↓reduceIte, ↓reduceDIte]
    simp only [hn0, ↓reduceIte]
    have hle : s.r.dlo ≤ s.r.pos := hs.le1
    have hhi : s.r.pos ≤ s.r.dhi := hs.le2
    have hinc : ¬ (s.r.pos < s.r.dlo ∨ s.r.dhi < s.r.pos) := by omega
    simp only [hinc, ↓reduceIte]
    have hn : 0 < n := by omega
    cases hph : s.r.phase with
    | A =>
      simp only
      rw [c14_loop_A _ _ _ hlim hn0 hinc hph]
      obtain ⟨hf, hg1, hok, herr⟩ := nextChunk_spec s he hs hg hph
      obtain ⟨e1, e2, e3⟩ := nextChunk_sim hv s he hs hph hsync
      cases hnc : nextChunk k s with
      | mk s1 x1 =>
        rw [hnc] at hf hg1 hok herr e1 e2 e3
        simp only at hf hg1 hok herr e1 e2 e3
        cases hnc' : Rac.nextChunk (absFile k o) s.r with
        | mk r1 y1 =>
          rw [hnc'] at e1 e2
          simp only at e1 e2
          subst e1 e2
          cases x1 with
          | some e =>
            simp only
            refine ⟨s1, [], some e, rfl, rfl, ?_⟩
            intro h1
            rcases herr e rfl with ⟨_, hr, hs1, _⟩ | ⟨_, hbad⟩
            · -- io.EOF: the reader state is unchanged, the chunk cursor did not move
              have hval := ChunkReader.next_value o s.cr hs.cr
              have : s1.cr = s.cr.next.1 := by
                have := nextChunk_cr k s
                rw [hnc] at this
                exact this
              rw [hr, hsync, this]
              have hphA := hs1.phA (by rw [hr]; exact hph)
              rw [this] at hphA
              rw [hphA, hr]
              exact (hs.phA hph)
            · rw [hbad] at h1; cases h1
          | none =>
            simp only
            obtain ⟨he1, hs1, hB1, hp1, hlo1, hhi1, _, _, _⟩ := hok rfl
            have hpot1 : pot s1.r n < fuel := by
              have h1 : pot s1.r n = 4 * n + 1 := by
                rw [pot_B _ _ hB1, hp1]; simp [hhi1]
              have h2 : pot s.r n = 4 * n + 2 := pot_A _ _ hph
              omega
            exact ih s1 n he1 hs1 hg1 (e3 rfl) hpot1
    | B =>
      simp only
      rw [c14_loop_B _ _ _ hlim hn0 hinc hph]
      obtain ⟨hL, hsp⟩ := hs.phBC (by rw [hph]; intro h; cases h)
      obtain ⟨hb, hblen, hbok, hberr⟩ := explicit_spec hs.cr s.r n hL hph hle hhi he hn
      cases hx : readExplicit s.r n with
      | mk r' rest1 =>
        obtain ⟨bs, e1⟩ := rest1
        rw [hx] at hb hblen hbok hberr
        simp only at hb hblen hbok hberr
        cases e1 with
        | some e =>
          simp only
          refine ⟨{ s with r := r' }, bs, some e, rfl, rfl, ?_⟩
          intro h
          have := (hberr e rfl).1
          rw [this] at h; cases h
        | none =>
          simp only
          obtain ⟨he1, f, hp1, hL1, hlo1, hhi1, hphase⟩ := hbok rfl
          have hs1 : SInv k o { s with r := r' } := by
            refine ⟨hs.cr, hlo1, by show r'.pos ≤ r'.dhi; rw [f.dhi]; exact hhi1, ?_, ?_⟩
            · intro hA
              rcases hphase with h | ⟨h, _⟩ <;> rw [h] at hA <;> cases hA
            · intro _
              exact ⟨hL1, by show s.cr.seekPos = r'.dhi; rw [f.dhi]; exact hsp⟩
          have hpot1 : pot r' (n - bs.length) < fuel := by
            have h0 := pot_B s.r n hph
            rcases hphase with hC | ⟨hB, hpos⟩
            · have h1 := pot_C r' (n - bs.length) hC
              have hd := f.dhi
              rw [h0] at hpot
              rw [h1]
              split <;> split at hpot <;> omega
            · have h1 := pot_B r' (n - bs.length) hB
              have hd := f.dhi
              rw [h0] at hpot
              rw [h1]
              split <;> split at hpot <;> omega
          obtain ⟨s', rest, e, hrun, hc14, hsync'⟩ :=
            ih { s with r := r' } (n - bs.length) he1 hs1 hg
              (by show r'.crPos = s.cr.seekPos; rw [f.crPos]; exact hsync) hpot1
          rw [hrun]
          simp only
          refine ⟨s', bs ++ rest, e, rfl, ?_, hsync'⟩
          have hc14' : Rac.readLoop (absFile k o) r' (n - bs.length) = (s'.r, rest, e) := hc14
          rw [hc14']
    | C =>
      simp only
      rw [c14_loop_C _ _ _ hlim hn0 hinc hph]
      obtain ⟨hL, hsp⟩ := hs.phBC (by rw [hph]; intro h; cases h)
      obtain ⟨hz, hk, hze, f, hzp, hzd, hzph⟩ := zeroes_spec hs.cr s.r n hL hph hle hhi
      cases hx : readZeroes s.r n with
      | mk r' z =>
        rw [hx] at hz hk hze f hzp hzd hzph
        simp only at hz hk hze f hzp hzd hzph
        have he1 : r'.err = none := by rw [hze]; exact he
        have hs1 : SInv k o { s with r := r' } := by
          refine ⟨hs.cr, by show r'.dlo ≤ r'.pos; omega,
            by show r'.pos ≤ r'.dhi; have := f.dhi; omega, ?_, ?_⟩
          · intro hA
            show s.cr.seekPos = r'.pos
            rcases hzph with ⟨_, h⟩ | ⟨h, _⟩
            · rw [h]; exact hsp
            · have : r'.phase = .A := hA
              rw [h] at this; cases this
          · intro hne
            rcases hzph with ⟨h, _⟩ | ⟨_, _, _, hL1⟩
            · exact absurd h hne
            · exact ⟨hL1, by show s.cr.seekPos = r'.dhi; rw [f.dhi]; exact hsp⟩
        have hpot1 : pot r' (n - z) < fuel := by
          have h0 := pot_C s.r n hph
          rw [h0] at hpot
          rcases hzph with ⟨hA, hpe⟩ | ⟨hC, hlt, hzn, _⟩
          · have h1 := pot_A r' (n - z) hA
            rw [h1]
            split at hpot <;> omega
          · have h1 : pot r' (n - z) ≤ 4 * (n - z) + 3 := by
              rw [pot_C _ _ hC]
              split <;> omega
            split at hpot <;> omega
        obtain ⟨s', rest, e, hrun, hc14, hsync'⟩ :=
          ih { s with r := r' } (n - z) he1 hs1 hg
            (by show r'.crPos = s.cr.seekPos; rw [f.crPos]; exact hsync) hpot1
        rw [hrun]
        simp only
        refine ⟨s', zeros z ++ rest, e, rfl, ?_, hsync'⟩
        have hc14' : Rac.readLoop (absFile k o) r' (n - z) = (s'.r, rest, e) := hc14
        rw [hc14']

end WuffsVerif.Rac.ByteReader
