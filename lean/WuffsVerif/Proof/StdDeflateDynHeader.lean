/-
C07 helper, part 7, MODULE H (dynamic-Huffman blocks): `init_dynamic_huffman` (mirror: `initDynamicHuffman`) against
`Spec.dynamicHeader`, given the two other modules' results as hypotheses
  `InitHuffSpec`   (`init_huff` builds tables that implement a complete / the one-code code) and
  `ReadLensSpec`   (the run-length loop `readCodeLengths` in lockstep with `Spec.readLens`).
Core Lean only.
-/
import WuffsVerif.Proof.StdDeflateStream
import WuffsVerif.Proof.StdDeflateDynDefs

namespace WuffsVerif.StdDeflate
open WuffsVerif.Flate.Spec (bitAt bitsLE avail Huff mkHuff kraft readLens LensResult clOrder dynamicHeader
  HeaderResult)
open WuffsVerif.Gen.C07

namespace H

/-! ### the specification's header, written with the `hdr*` functions -/

theorem dynamicHeader_eq (s : Bytes) (P : Nat) : dynamicHeader s P =
    if avail s P < 14 then .truncated
    else if hdrNlit s P > 286 ∨ hdrNdist s P > 30 then .corrupt
    else if avail s (P + 14) < 3 * hdrNclen s P then .truncated
    else
      match mkHuff (hdrCl s P) with
      | none => .corrupt
      | some hc =>
        match readLens hc s (hdrNlit s P + hdrNdist s P) (hdrNlit s P + hdrNdist s P + 1)
            (P + 14 + 3 * hdrNclen s P) #[] with
        | .truncated => .truncated
        | .corrupt => .corrupt
        | .ok lens p =>
          match mkHuff (lens.extract 0 (hdrNlit s P)),
              mkHuff (lens.extract (hdrNlit s P) (hdrNlit s P + hdrNdist s P)) with
          | some hl, some hd =>
            .ok hl hd (if hl.minLen < lens.getD 256 0 then lens.getD 256 0 else hl.minLen) p
          | _, _ => .corrupt := by
  unfold dynamicHeader hdrCl hdrNlit hdrNdist hdrNclen
  rfl

/-- what an accepted header consists of -/
theorem dynamicHeader_ok (s : Bytes) (P : Nat) (hl hd : Huff) (minL p1 : Nat)
    (h : dynamicHeader s P = .ok hl hd minL p1) :
    ¬ avail s P < 14 ∧ hdrNlit s P ≤ 286 ∧ hdrNdist s P ≤ 30 ∧ ¬ avail s (P + 14) < 3 * hdrNclen s P ∧
    ∃ hc lens, mkHuff (hdrCl s P) = some hc ∧
      readLens hc s (hdrNlit s P + hdrNdist s P) (hdrNlit s P + hdrNdist s P + 1)
        (P + 14 + 3 * hdrNclen s P) #[] = .ok lens p1 ∧
      mkHuff (lens.extract 0 (hdrNlit s P)) = some hl ∧
      mkHuff (lens.extract (hdrNlit s P) (hdrNlit s P + hdrNdist s P)) = some hd := by
  rw [dynamicHeader_eq] at h
  by_cases c1 : avail s P < 14
  · rw [if_pos c1] at h; cases h
  rw [if_neg c1] at h
  by_cases c2 : hdrNlit s P > 286 ∨ hdrNdist s P > 30
  · rw [if_pos c2] at h; cases h
  rw [if_neg c2] at h
  by_cases c3 : avail s (P + 14) < 3 * hdrNclen s P
  · rw [if_pos c3] at h; cases h
  rw [if_neg c3] at h
  refine ⟨c1, by omega, by omega, c3, ?_⟩
  cases hc : mkHuff (hdrCl s P) with
  | none => rw [hc] at h; cases h
  | some hcv =>
    rw [hc] at h
    simp only at h
    cases hr : readLens hcv s (hdrNlit s P + hdrNdist s P) (hdrNlit s P + hdrNdist s P + 1)
        (P + 14 + 3 * hdrNclen s P) #[] with
    | truncated => rw [hr] at h; cases h
    | corrupt => rw [hr] at h; cases h
    | ok lens p =>
      rw [hr] at h
      simp only at h
      cases h1 : mkHuff (lens.extract 0 (hdrNlit s P)) with
      | none => rw [h1] at h; cases h
      | some hl' =>
        cases h2 : mkHuff (lens.extract (hdrNlit s P) (hdrNlit s P + hdrNdist s P)) with
        | none => rw [h1, h2] at h; cases h
        | some hd' =>
          rw [h1, h2] at h
          simp only [HeaderResult.ok.injEq] at h
          obtain ⟨rfl, rfl, _, rfl⟩ := h
          exact ⟨hcv, lens, rfl, hr, h1, h2⟩

/-! ### the 14 bits HLIT, HDIST, HCLEN -/

theorem and31 (x : Nat) : x &&& 31 = x % 2 ^ 5 := by
  rw [show (31 : Nat) = 2 ^ 5 - 1 from rfl, Nat.and_two_pow_sub_one_eq_mod]

theorem and15 (x : Nat) : x &&& 15 = x % 2 ^ 4 := by
  rw [show (15 : Nat) = 2 ^ 4 - 1 from rfl, Nat.and_two_pow_sub_one_eq_mod]

theorem and7 (x : Nat) : x &&& 7 = x % 2 ^ 3 := by
  rw [show (7 : Nat) = 2 ^ 3 - 1 from rfl, Nat.and_two_pow_sub_one_eq_mod]

theorem header_fields {s : Bytes} {P : Nat} (b0 : BR) (hb : BRInv s b0 P) (h8 : b0.nBits < 8)
    (hav : P + 14 ≤ 8 * s.size) :
    ∃ b, BR.fill s 14 3 b0 = .ok b ∧ b.bits &&& 31 = bitsLE s P 5 ∧ (b.drop 5).bits &&& 31 = bitsLE s (P + 5) 5 ∧
      ((b.drop 5).drop 5).bits &&& 15 = bitsLE s (P + 10) 4 ∧
      BRInv s (((b.drop 5).drop 5).drop 4) (P + 14) ∧ (((b.drop 5).drop 5).drop 4).nBits < 8 := by
  obtain ⟨b, e1, e2, e3, _, e5⟩ := BRInv.fill 14 3 b0 hb hav (by omega) (by omega)
  have hlt := e5 (by omega)
  have d5 := e2.drop 5 (by omega)
  have d10 := d5.drop 5 (by simp only [BR.drop]; omega)
  have d14 := d10.drop 4 (by simp only [BR.drop]; omega)
  refine ⟨b, e1, ?_, ?_, ?_, ?_, ?_⟩
  · rw [and31]; exact e2.low 5 (by omega)
  · rw [and31]; exact d5.low 5 (by simp only [BR.drop]; omega)
  · rw [and15, show P + 10 = P + 5 + 5 by omega]; exact d10.low 4 (by simp only [BR.drop]; omega)
  · rw [show P + 14 = P + 5 + 5 + 4 by omega]; exact d14
  · simp only [BR.drop]; omega

/-! ### CODE_ORDER, and arrays filled through it -/

theorem codeOrder_eq : deflateCodeOrder = clOrder := by decide

/-- the inverse of the permutation CODE_ORDER -/
def ordInv : Array Nat := #[3, 17, 15, 13, 11, 9, 7, 5, 4, 6, 8, 10, 12, 14, 16, 18, 0, 1, 2]

theorem ordInv_ord : ∀ i, i < 19 → ordInv.getD (clOrder.getD i 0) 0 = i := by decide

theorem ord_ordInv : ∀ j, j < 19 → clOrder.getD (ordInv.getD j 0) 0 = j ∧ ordInv.getD j 0 < 19 := by decide

theorem getD_set (a : Array Nat) (i j v : Nat) (hj : j < a.size) :
    (a.setIfInBounds i v).getD j 0 = if i = j then v else a.getD j 0 := by
  simp only [Array.getD_eq_getD_getElem?, Array.getElem?_setIfInBounds]
  by_cases h : i = j
  · subst h; simp [hj]
  · simp [h]

theorem fold_size (f : Nat → Nat) : ∀ (l : List Nat) (a : Array Nat),
    (l.foldl (fun a k => a.setIfInBounds (clOrder.getD k 0) (f k)) a).size = a.size := by
  intro l
  induction l with
  | nil => intro a; rfl
  | cons x l ih => intro a; rw [List.foldl_cons, ih, Array.size_setIfInBounds]

/-- slot `j` after the positions `CODE_ORDER[i .. i + n)` were set to `f i`, … -/
theorem fold_getD (f : Nat → Nat) : ∀ (n i : Nat) (a : Array Nat) (j : Nat), i + n ≤ 19 → j < 19 → j < a.size →
    ((List.range' i n).foldl (fun a k => a.setIfInBounds (clOrder.getD k 0) (f k)) a).getD j 0 =
      if i ≤ ordInv.getD j 0 ∧ ordInv.getD j 0 < i + n then f (ordInv.getD j 0) else a.getD j 0 := by
  intro n
  induction n with
  | zero =>
    intro i a j _ _ _
    rw [List.range'_zero, List.foldl_nil, if_neg (by omega)]
  | succ n ih =>
    intro i a j hin hj hja
    rw [List.range'_succ, List.foldl_cons, ih (i + 1) _ j (by omega) hj (by rw [Array.size_setIfInBounds]; exact hja),
      getD_set _ _ _ _ hja]
    by_cases hc : clOrder.getD i 0 = j
    · have : ordInv.getD j 0 = i := by rw [← hc]; exact ordInv_ord i (by omega)
      rw [if_pos hc, if_neg (by omega), if_pos (by omega), this]
    · have : ordInv.getD j 0 ≠ i := by
        intro h; apply hc; rw [← h]; exact (ord_ordInv j hj).1
      rw [if_neg hc]
      by_cases hr : i + 1 ≤ ordInv.getD j 0 ∧ ordInv.getD j 0 < i + 1 + n
      · rw [if_pos hr, if_pos (by omega)]
      · rw [if_neg hr, if_neg (by omega)]

/-- the `j`-th code length of the code-length code is the 3-bit field number `ordInv j`, if there is one -/
theorem hdrCl_getD (s : Bytes) (P : Nat) (j : Nat) (hj : j < 19) :
    (hdrCl s P).getD j 0 =
      if ordInv.getD j 0 < hdrNclen s P then bitsLE s (P + 14 + 3 * ordInv.getD j 0) 3 else 0 := by
  have hn : hdrNclen s P ≤ 19 := by
    have := bitsLE_lt s 4 (P + 10)
    simp only [hdrNclen]; omega
  unfold hdrCl
  rw [List.range_eq_range', fold_getD (fun i => bitsLE s (P + 14 + 3 * i) 3) _ 0 _ j (by omega) hj (by simp; omega)]
  by_cases hc : ordInv.getD j 0 < hdrNclen s P
  · rw [if_pos ⟨by omega, by omega⟩, if_pos hc]
  · rw [if_neg (by omega), if_neg hc]; simp [Array.getD_eq_getD_getElem?, hj]

theorem hdrCl_size (s : Bytes) (P : Nat) : (hdrCl s P).size = 19 := by
  unfold hdrCl
  rw [fold_size (fun i => bitsLE s (P + 14 + 3 * i) 3)]
  simp

theorem hdrCl_le (s : Bytes) (P : Nat) (j : Nat) : (hdrCl s P).getD j 0 ≤ 7 := by
  by_cases hj : j < 19
  · rw [hdrCl_getD s P j hj]
    split
    · have := bitsLE_lt s 3 (P + 14 + 3 * ordInv.getD j 0); omega
    · omega
  · simp [Array.getD_eq_getD_getElem?, hdrCl_size, hj]

/-! ### `readClen` -/

theorem readClen_spec {s : Bytes} (P nClen : Nat) (hn : nClen ≤ 19) (hav : P + 14 + 3 * nClen ≤ 8 * s.size) :
    ∀ (fuel i : Nat) (b : BR) (cl : Array Nat), i ≤ nClen → nClen - i + 1 ≤ fuel → BRInv s b (P + 14 + 3 * i) →
      b.nBits < 8 →
      ∃ b' cl', readClen s nClen fuel i b cl = .ok (b', cl') ∧ BRInv s b' (P + 14 + 3 * nClen) ∧ b'.nBits < 8 ∧
        cl'.size = cl.size ∧
        ∀ j, j < 19 → j < cl.size → cl'.getD j 0 =
          if i ≤ ordInv.getD j 0 then
            (if ordInv.getD j 0 < nClen then bitsLE s (P + 14 + 3 * ordInv.getD j 0) 3 else 0)
          else cl.getD j 0 := by
  intro fuel
  induction fuel with
  | zero => intro i b cl _ h; omega
  | succ f ih =>
    intro i b cl hi hf hb h8
    unfold readClen
    by_cases hlt : i < nClen
    · rw [if_pos hlt]
      obtain ⟨b1, f1, f2, f3, f4⟩ := extra_bits b hb h8 3 2 (by omega) (by omega) (by omega)
      have f2' : b1.bits &&& 7 = bitsLE s (P + 14 + 3 * i) 3 := f2
      obtain ⟨b', cl', g1, g2, g3, g4, g5⟩ := ih (i + 1) (b1.drop 3)
        (cl.setIfInBounds (deflateCodeOrder.getD i 0) (b1.bits &&& 7)) (by omega) (by omega)
        (by rw [show P + 14 + 3 * (i + 1) = P + 14 + 3 * i + 3 by omega]; exact f3) f4
      simp only [f1, bind, Except.bind]
      refine ⟨b', cl', g1, g2, g3, by rw [g4, Array.size_setIfInBounds], ?_⟩
      intro j hj hjc
      rw [g5 j hj (by rw [Array.size_setIfInBounds]; exact hjc), codeOrder_eq, getD_set _ _ _ _ hjc, f2']
      by_cases hc : clOrder.getD i 0 = j
      · have : ordInv.getD j 0 = i := by rw [← hc]; exact ordInv_ord i (by omega)
        rw [if_neg (show ¬ i + 1 ≤ ordInv.getD j 0 by omega), if_pos hc, if_pos (show i ≤ ordInv.getD j 0 by omega),
          if_pos (show ordInv.getD j 0 < nClen by omega), this]
      · have : ordInv.getD j 0 ≠ i := by
          intro h; apply hc; rw [← h]; exact (ord_ordInv j hj).1
        rw [if_neg hc]
        by_cases hr : i + 1 ≤ ordInv.getD j 0
        · rw [if_pos hr, if_pos (show i ≤ ordInv.getD j 0 by omega)]
        · rw [if_neg hr, if_neg (show ¬ i ≤ ordInv.getD j 0 by omega)]
    · rw [if_neg hlt]
      have hin : i = nClen := by omega
      subst hin
      refine ⟨b, _, rfl, hb, h8, ?_, ?_⟩
      · rw [codeOrder_eq]; exact fold_size (fun _ => 0) _ _
      · intro j hj hjc
        rw [codeOrder_eq, fold_getD (fun _ => 0) _ _ _ j (by omega) hj hjc]
        have := (ord_ordInv j hj).2
        by_cases hr : i ≤ ordInv.getD j 0
        · rw [if_pos ⟨hr, by omega⟩, if_pos hr, if_neg (show ¬ ordInv.getD j 0 < i by omega)]
        · rw [if_neg (show ¬ (i ≤ ordInv.getD j 0 ∧ ordInv.getD j 0 < i + (19 - i)) by omega), if_neg hr]

/-! ### small facts about `mkHuff`, `extract` -/

theorem mkHuff_maxLen (lens : Array Nat) (h : Huff) (hm : mkHuff lens = some h) :
    h.maxLen = lens.toList.foldl (fun m l => if l > m then l else m) 0 := by
  simp only [mkHuff] at hm
  split at hm
  · cases hm
  · split at hm
    · rename_i h0
      injection hm with hm
      subst hm
      exact h0.symm
    · split at hm
      · injection hm with hm
        subst hm
        rfl
      · cases hm

theorem foldmax_le (B : Nat) : ∀ (l : List Nat) (m : Nat), m ≤ B → (∀ x, x ∈ l → x ≤ B) →
    l.foldl (fun m l => if l > m then l else m) m ≤ B := by
  intro l
  induction l with
  | nil => intro m hm _; exact hm
  | cons x l ih =>
    intro m hm hx
    rw [List.foldl_cons]
    apply ih
    · split
      · exact hx x (List.mem_cons_self)
      · exact hm
    · intro y hy; exact hx y (List.mem_cons_of_mem _ hy)

theorem mem_le (a : Array Nat) (B : Nat) (h : ∀ j, a.getD j 0 ≤ B) : ∀ x, x ∈ a.toList → x ≤ B := by
  intro x hx
  obtain ⟨i, hi, rfl⟩ := List.mem_iff_getElem.mp hx
  have := h i
  rw [Array.length_toList] at hi
  simpa [Array.getD_eq_getD_getElem?, hi] using this

theorem maxLen_le (lens : Array Nat) (h : Huff) (hm : mkHuff lens = some h) (B : Nat) (hB : ∀ j, lens.getD j 0 ≤ B) :
    h.maxLen ≤ B := by
  rw [mkHuff_maxLen lens h hm]
  exact foldmax_le B _ 0 (Nat.zero_le _) (mem_le lens B hB)

theorem getD_extract (a : Array Nat) (st en j : Nat) (hj : j < en - st) (he : en ≤ a.size) :
    (a.extract st en).getD j 0 = a.getD (st + j) 0 := by
  have : j < min en a.size - st := by omega
  have h2 : st + j < a.size := by omega
  simp [Array.getD_eq_getD_getElem?, this, h2]

theorem size_extract (a : Array Nat) (st en : Nat) (he : en ≤ a.size) : (a.extract st en).size = en - st := by
  rw [Array.size_extract]; omega

/-! ### `init_dynamic_huffman` after the 14 bits -/

/-- `init_dynamic_huffman` from "Read the clcode lengths" on -/
def dynTail (src : Bytes) (st : St) (nLit nDist nClen : Nat) (b : BR) : M St := do
  let (b, cl) ← readClen src nClen 20 0 b st.codeLengths
  let st := { st with codeLengths := cl }
  let st ← st.initHuff 0 0 19 0xFFF
  let mask := (1 <<< st.nHuffsBits0) - 1
  let (i, b, cl) ← readCodeLengths src st.huffs0 mask (nLit + nDist) (nLit + nDist + 1) 0 b st.codeLengths
  if i ≠ nLit + nDist then .error "#bad Huffman code length count"
  else if cl.getD 256 0 = 0 then .error "#missing end-of-block code"
  else
    let st := { st with codeLengths := cl }
    let st ← st.initHuff 0 0 nLit 257
    let st ← st.initHuff 1 nLit (nLit + nDist) 0
    .ok { st with bits := b.bits, nBits := b.nBits, ri := b.ri }

theorem initDynamicHuffman_eq (src : Bytes) (st : St) : initDynamicHuffman src st =
    (BR.fill src 14 3 { bits := st.bits, nBits := st.nBits, ri := st.ri } >>= fun b =>
      if (b.bits &&& 31) + 257 > 286 then .error "#bad literal/length code count"
      else if ((b.drop 5).bits &&& 31) + 1 > 30 then .error "#bad distance code count"
      else dynTail src st ((b.bits &&& 31) + 257) (((b.drop 5).bits &&& 31) + 1)
        ((((b.drop 5).drop 5).bits &&& 15) + 4) (((b.drop 5).drop 5).drop 4)) := rfl

theorem st_initHuff0 (st : St) (n0 n1 base : Nat) (T : Array Nat) (nb : Nat)
    (h : initHuff st.codeLengths st.huffs0 0 n0 n1 base = .ok (T, nb)) :
    st.initHuff 0 n0 n1 base = .ok { st with huffs0 := T, nHuffsBits0 := nb } := by
  unfold St.initHuff
  rw [if_pos rfl, h]
  rfl

theorem st_initHuff1 (st : St) (n0 n1 base : Nat) (T : Array Nat) (nb : Nat)
    (h : initHuff st.codeLengths st.huffs1 1 n0 n1 base = .ok (T, nb)) :
    st.initHuff 1 n0 n1 base = .ok { st with huffs1 := T, nHuffsBits1 := nb } := by
  unfold St.initHuff
  rw [if_neg (by decide : ¬ (1 = 0)), h]
  rfl

/-- the part of `init_dynamic_huffman` after the 14 header bits, against the pieces of `Spec.dynamicHeader` -/
theorem dynTail_spec (hI : InitHuffSpec) (hL : ReadLensSpec) {s : Bytes} (st : St) (P : Nat) (b : BR)
    (hcl : st.codeLengths.size = 320) (h0 : st.huffs0.size = 1024) (h1 : st.huffs1.size = 1024)
    (hb : BRInv s b (P + 14)) (h8 : b.nBits < 8) (hok : HeaderOK s P)
    (hnl : hdrNlit s P ≤ 286) (hnd : hdrNdist s P ≤ 30) (hav : P + 14 + 3 * hdrNclen s P ≤ 8 * s.size)
    (hc : Huff) (lens : Array Nat) (hl hd : Huff) (p1 : Nat) (hmc : mkHuff (hdrCl s P) = some hc)
    (hrl : readLens hc s (hdrNlit s P + hdrNdist s P) (hdrNlit s P + hdrNdist s P + 1)
      (P + 14 + 3 * hdrNclen s P) #[] = .ok lens p1)
    (hml : mkHuff (lens.extract 0 (hdrNlit s P)) = some hl)
    (hmd : mkHuff (lens.extract (hdrNlit s P) (hdrNlit s P + hdrNdist s P)) = some hd) :
    ∃ st', dynTail s st (hdrNlit s P) (hdrNdist s P) (hdrNclen s P) b = .ok st' ∧
      BRInv s { bits := st'.bits, nBits := st'.nBits, ri := st'.ri } p1 ∧ st'.nBits < 8 ∧
      st'.huffs0.size = 1024 ∧ st'.huffs1.size = 1024 ∧ st'.codeLengths.size = 320 ∧
      st'.out = st.out ∧ TablesFor st' hl hd := by
  have hn19 : hdrNclen s P ≤ 19 := by
    have := bitsLE_lt s 4 (P + 10)
    simp only [hdrNclen]; omega
  have hnl257 : 257 ≤ hdrNlit s P := by simp only [hdrNlit]; omega
  have hnd1 : 1 ≤ hdrNdist s P := by simp only [hdrNdist]; omega
  have hok1 := hok.1
  have hok2 := hok.2
  clear hok
  generalize hNL : hdrNlit s P = nLit at *
  generalize hND : hdrNdist s P = nDist at *
  generalize hNC : hdrNclen s P = nClen at *
  -- the code-length code's lengths
  obtain ⟨b1, cl1, r1, r2, r3, r4, r5⟩ := readClen_spec P nClen hn19 hav 20 0 b st.codeLengths (by omega) (by omega)
    hb h8
  have lens1 : LensOf cl1 (hdrCl s P) 0 19 := by
    refine ⟨by omega, by omega, by omega, by rw [hdrCl_size], ?_⟩
    intro j hj
    rw [Nat.zero_add, r5 j (by omega) (by omega), if_pos (Nat.zero_le _), hdrCl_getD s P j (by omega), hNC]
  obtain ⟨hc', k1, k2, k3⟩ := hok1
  rw [hmc] at k1
  injection k1 with k1
  subst k1
  obtain ⟨T0, nb0, i1, i2⟩ := hI.1 cl1 st.huffs0 (hdrCl s P) 0 0 19 0xFFF valCL hc CallKind.clen lens1 h0 hmc k2 k3
  have i2' : HuffTable T0 nb0 hc valCL 19 := i2
  have hm9 : hc.maxLen ≤ 9 := maxLen_le _ _ hmc 9 (fun j => by have := hdrCl_le s P j; omega)
  -- the run-length coded lengths
  obtain ⟨b2, cl2, l1, l2, l3, l4, l5, l6, l7⟩ := hL s T0 nb0 hc (nLit + nDist) i2' hm9 (by omega) (nLit + nDist + 1)
    (P + 14 + 3 * nClen) #[] b1 cl1 lens p1 r2 r3 (by rw [r4, hcl]) (by simp) (by simp) (by simp) hrl
  have l1' : readCodeLengths s T0 ((1 <<< nb0) - 1) (nLit + nDist) (nLit + nDist + 1) 0 b1 cl1 =
      .ok (nLit + nDist, b2, cl2) := l1
  obtain ⟨c1, c2, c3⟩ := hok2 hc lens p1 hmc hrl
  have h256 : ¬ cl2.getD 256 0 = 0 := by rw [l6 256 (by omega)]; exact c2
  -- the literal/length code
  have lensL : LensOf cl2 (lens.extract 0 nLit) 0 nLit := by
    refine ⟨by omega, by omega, by omega, by rw [size_extract _ _ _ (by omega)], ?_⟩
    intro j hj
    rw [getD_extract _ _ _ _ hj (by omega), l6 _ (by omega)]
  obtain ⟨hl', m1, m2, m3⟩ := c1
  rw [hml] at m1
  injection m1 with m1
  subst m1
  obtain ⟨T1, nb1, j1, j2⟩ := hI.1 cl2 T0 (lens.extract 0 nLit) 0 0 nLit 257 valL hl (CallKind.lit nLit hnl257 hnl)
    lensL i2.size hml m2 m3
  -- the distance code
  have lensD : LensOf cl2 (lens.extract nLit (nLit + nDist)) nLit (nLit + nDist) := by
    refine ⟨by omega, by omega, by omega, by rw [size_extract _ _ _ (by omega)], ?_⟩
    intro j hj
    rw [getD_extract _ _ _ _ hj (by omega), l6 _ (by omega)]
  have hD : ∃ T2 nb2, initHuff cl2 st.huffs1 1 nLit (nLit + nDist) 0 = .ok (T2, nb2) ∧ T2.size = 1024 ∧ nb2 ≤ 15 ∧
      TblOK T2 nb2 ∧ Agree T2 nb2 hd valD ∧ hd.maxLen ≤ 15 := by
    rcases c3 with c3 | c3
    · obtain ⟨hd', n1, n2, n3⟩ := c3
      rw [hmd] at n1
      injection n1 with n1
      subst n1
      obtain ⟨T2, nb2, q1, q2⟩ := hI.1 cl2 st.huffs1 _ 1 nLit (nLit + nDist) 0 valD hd
        (CallKind.dist nLit nDist hnl hnd1 hnd) lensD h1 hmd n2 n3
      exact ⟨T2, nb2, q1, q2.size, q2.nb15, q2.ok, q2.ag, q2.ml⟩
    · obtain ⟨hd', n1, n2, n3⟩ := c3
      rw [hmd] at n1
      injection n1 with n1
      subst n1
      obtain ⟨T2, nb2, q1, q2⟩ := hI.2 cl2 st.huffs1 _ nLit nDist hd hnl hnd1 hnd lensD h1 hmd n2 n3
      exact ⟨T2, nb2, q1, q2.size, q2.nb15, q2.ok, q2.ag, q2.ml⟩
  obtain ⟨T2, nb2, q1, q2, q3, q4, q5, q6⟩ := hD
  -- the three calls of `init_huff` on the decoder state
  have e0 := st_initHuff0 { st with codeLengths := cl1 } 0 19 0xFFF T0 nb0 i1
  have e1 := st_initHuff0 { st with codeLengths := cl2, huffs0 := T0, nHuffsBits0 := nb0 } 0 nLit 257 T1 nb1 j1
  have e2 := st_initHuff1 { st with codeLengths := cl2, huffs0 := T1, nHuffsBits0 := nb1 } nLit (nLit + nDist) 0 T2 nb2 q1
  unfold dynTail
  rw [r1, bind_ok]
  dsimp only
  rw [e0, bind_ok]
  dsimp only
  rw [l1', bind_ok]
  dsimp only
  rw [if_neg (by simp), if_neg h256, e1, bind_ok, e2, bind_ok]
  exact ⟨_, rfl, l2, l3, j2.size, q2, l4, rfl, ⟨j2.ok, q4, j2.ag, q5, j2.nb15, q3, j2.ml, q6⟩⟩

end H

/-- every dynamic block the specification reaches has a header std/deflate accepts (see `HeaderOK`) -/
def DynOK (s : Bytes) : Prop :=
  ∀ (p : Nat) (out : Bytes), Reach s p out → ¬ avail s p < 3 → bitsLE s (p + 1) 2 = 2 → HeaderOK s (p + 3)

/-- **MODULE H.**  `init_dynamic_huffman` refines `Spec.dynamicHeader` at every dynamic block the specification
    reaches, given `init_huff` (`InitHuffSpec`) and the run-length loop (`ReadLensSpec`). -/
theorem dynRefines_of_initHuff (hI : InitHuffSpec) (hL : ReadLensSpec) (s : Bytes) (hok : DynOK s) : DynRefines s := by
  intro p out st hl hd minL p1 hr ha ht hi hh
  have hO := hok p out hr ha ht
  obtain ⟨a1, a2, a3, a4, hc, lens, a5, a6, a7, a8⟩ := H.dynamicHeader_ok s (p + 3) hl hd minL p1 hh
  simp only [avail] at a1 a4
  have hav14 : p + 3 + 14 ≤ 8 * s.size := by omega
  have hav : p + 3 + 14 + 3 * hdrNclen s (p + 3) ≤ 8 * s.size := by omega
  obtain ⟨b, f1, f2, f3, f4, f5, f6⟩ := H.header_fields _ hi.br hi.n8 hav14
  obtain ⟨st', t1, t2, t3, t4, t5, t6, t7, t8⟩ := H.dynTail_spec hI hL st (p + 3) _ hi.cl hi.s0 hi.s1 f5 f6 hO a2 a3
    hav hc lens hl hd p1 a5 a6 a7 a8
  have g1 : ¬ bitsLE s (p + 3) 5 + 257 > 286 := by
    have := a2; simp only [hdrNlit] at this; omega
  have g2 : ¬ bitsLE s (p + 3 + 5) 5 + 1 > 30 := by
    have := a3; simp only [hdrNdist] at this; omega
  refine ⟨st', ?_, ⟨t2, t3, t4, t5, t6⟩, t7, t8⟩
  rw [H.initDynamicHuffman_eq, f1, bind_ok]
  simp only [f2, f3, f4]
  rw [if_neg g1, if_neg g2]
  exact t1

end WuffsVerif.StdDeflate
