/-
C12, the Wuffs formatter: reading ONE token back.  `lexTok` is the part of `Tokenize`'s loop
body that reads a token at a non-blank, non-comment position (a pure function, no fuel);
`tokenizeLoop_tok` says the loop does exactly that.  `TokRun` is the fuel-free "the
tokenizer gets from here to there" relation used to compose the steps.  Core Lean only.
-/
import WuffsVerif.Model.RenderTokens

namespace WuffsVerif.Render
open WuffsVerif.FmtToken WuffsVerif.Gen.C12

/-! ### bytes -/

theorem byte_forall {P : UInt8 → Prop} (h : ∀ n, n < 256 → P (UInt8.ofNat n)) : ∀ c, P c := by
  intro c
  have := h c.toNat c.toNat_lt
  simpa using this

/-! ### one token -/

/-- the number branch's choice of digit class: `(prefix after the first digit, isDigit)` or
`none` for the legacy octal error -/
def numPre (c : UInt8) (rest : Bytes) : Option (Bytes × (UInt8 → Bool)) :=
  match rest with
  | [] => some ([], numericUnderscore)
  | nx :: _ =>
    if c == 48 && (nx == 120 || nx == 88) then some ([nx], hexaNumericUnderscore)
    else if c == 48 && (nx == 98 || nx == 66) then some ([nx], zeroOneUnderscore)
    else if c == 48 && numeric nx then none
    else some ([], numericUnderscore)

/-- What `Tokenize` reads at `c :: rest` when `c > ' '` and no comment starts here:
`(id, text, remaining input)`, or `none` for an error. -/
def lexTok (c : UInt8) (rest : Bytes) : Option (Nat × Bytes × Bytes) :=
  if c == 34 || c == 39 then
    match scanString c rest with
    | none => none
    | some (body, after) =>
      let hasEndian := c == 39 && after.length > 2 &&
        (after.head? == some 98 || after.head? == some 108) && after[1]? == some 101
      let text := c :: body ++ (if hasEndian then after.take 2 else [])
      let after' := if hasEndian then after.drop 2 else after
      if text.length > maxTokenSize then none
      else if c == 39 && (match unescapeSQ text with
          | none => true
          | some n => n > 1 && !hasEndian) then none
      else some ((intern text).1, text, after')
  else if alpha c then
    let word := c :: rest.takeWhile alphaNumeric
    if word.length > maxTokenSize then none
    else some ((intern word).1, word, rest.dropWhile alphaNumeric)
  else if numeric c then
    match numPre c rest with
    | none => none
    | some (pre, isDigit) =>
      let rest' := rest.drop pre.length
      let text := c :: pre ++ rest'.takeWhile isDigit
      if text.length > maxTokenSize then none
      else if !checkNumericUnderscores text then none
      else some ((intern text).1, text, rest'.dropWhile isDigit)
  else
    match lexPunct c rest with
    | some (id, n) => some (id, (c :: rest).take n, rest.drop (n - 1))
    | none => none

/-- a `//` comment starts at `c :: rest` -/
def commentStart (c : UInt8) (rest : Bytes) : Bool := c == 47 && rest.head? == some 47

theorem obind_ite {α β : Type} (A : Prop) [Decidable A] (o : Option α) (k : α → Option β) :
    (if A then none else o).bind k = if A then none else o.bind k := by
  split <;> rfl

theorem obind_some {α β : Type} (a : α) (k : α → Option β) : (some a).bind k = k a := rfl
theorem obind_none {α β : Type} (k : α → Option β) : (none : Option α).bind k = none := rfl

/-- The loop body of `Tokenize` at a token position is `lexTok`. -/
theorem tokenizeLoop_tok' (f : Nat) (c : UInt8) (rest : Bytes) (line : Nat) (toks : List Tok)
    (cm : Array Bytes) (hc : ¬ c ≤ 32) (hcom : commentStart c rest = false) :
    tokenizeLoop (f + 1) (c :: rest) line toks cm =
      (lexTok c rest).bind (fun r => tokenizeLoop f r.2.2 line (⟨r.1, r.2.1, line⟩ :: toks) cm) := by
  unfold commentStart at hcom
  rw [tokenizeLoop.eq_def]
  simp only [hc, ↓reduceIte]
  unfold lexTok numPre
  by_cases h1 : (c == 34 || c == 39) = true
  · simp only [h1, ↓reduceIte]
    cases scanString c rest with
    | none => rfl
    | some p =>
      obtain ⟨body, after⟩ := p
      simp only [obind_ite, obind_some]
      rfl
  · simp only [h1, Bool.false_eq_true, ↓reduceIte]
    by_cases h2 : alpha c = true
    · simp only [h2, ↓reduceIte, obind_ite, obind_some]
    · simp only [h2, Bool.false_eq_true, ↓reduceIte]
      by_cases h3 : numeric c = true
      · simp only [h3, ↓reduceIte]
        cases rest with
        | nil =>
          simp only [List.length_nil, List.drop_zero, obind_ite, obind_some]
        | cons nx r =>
          simp only
          by_cases c1 : (c == 48 && (nx == 120 || nx == 88)) = true
          · simp only [c1, ↓reduceIte, obind_ite, obind_some]
          · simp only [c1, Bool.false_eq_true, ↓reduceIte]
            by_cases c2 : (c == 48 && (nx == 98 || nx == 66)) = true
            · simp only [c2, ↓reduceIte, obind_ite, obind_some]
            · simp only [c2, Bool.false_eq_true, ↓reduceIte]
              by_cases c3 : (c == 48 && numeric nx) = true
              · simp only [c3, ↓reduceIte, obind_none]
              · simp only [c3, Bool.false_eq_true, ↓reduceIte, obind_ite, obind_some]
      · simp only [h3, Bool.false_eq_true, ↓reduceIte, hcom]
        cases lexPunct c rest with
        | none => rfl
        | some p => rfl

theorem tokenizeLoop_tok (f : Nat) (c : UInt8) (rest : Bytes) (line : Nat) (toks : List Tok)
    (cm : Array Bytes) (hc : ¬ c ≤ 32) (hcom : commentStart c rest = false)
    (id : Nat) (text after : Bytes) (h : lexTok c rest = some (id, text, after)) :
    tokenizeLoop (f + 1) (c :: rest) line toks cm =
      tokenizeLoop f after line (⟨id, text, line⟩ :: toks) cm := by
  rw [tokenizeLoop_tok' f c rest line toks cm hc hcom, h]
  rfl

/-! ### runs of the tokenizer -/

/-- From input `s` in state `(l, T, C)` the tokenizer gets to input `s'` in state
`(l', T', C')` — for every fuel that is enough for `s` (the fuel left is enough for `s'`). -/
def TokRun (s : Bytes) (l : Nat) (T : List Tok) (C : Array Bytes)
    (s' : Bytes) (l' : Nat) (T' : List Tok) (C' : Array Bytes) : Prop :=
  ∀ f, f ≥ s.length + 1 → ∃ f', f' ≥ s'.length + 1 ∧
    tokenizeLoop f s l T C = tokenizeLoop f' s' l' T' C'

theorem TokRun.refl (s : Bytes) (l : Nat) (T : List Tok) (C : Array Bytes) : TokRun s l T C s l T C :=
  fun f hf => ⟨f, hf, rfl⟩

theorem TokRun.trans {s1 s2 s3 : Bytes} {l1 l2 l3 : Nat} {T1 T2 T3 : List Tok} {C1 C2 C3 : Array Bytes}
    (h1 : TokRun s1 l1 T1 C1 s2 l2 T2 C2) (h2 : TokRun s2 l2 T2 C2 s3 l3 T3 C3) :
    TokRun s1 l1 T1 C1 s3 l3 T3 C3 := by
  intro f hf
  obtain ⟨f', hf', e1⟩ := h1 f hf
  obtain ⟨f'', hf'', e2⟩ := h2 f' hf'
  exact ⟨f'', hf'', e1.trans e2⟩

/-- a run to the end of the input gives `tokenize`'s result -/
theorem TokRun.tokenize {s : Bytes} {l : Nat} {T : List Tok} {C : Array Bytes}
    (h : TokRun s 1 [] #[] [] l T C) : tokenize s = some (T.reverse, C) := by
  unfold FmtToken.tokenize
  obtain ⟨f', hf', e⟩ := h (s.length + 1) (Nat.le_refl _)
  rw [e]
  obtain ⟨g, rfl⟩ : ∃ g, f' = g + 1 := ⟨f' - 1, by simp at hf'; omega⟩
  rw [tokenizeLoop.eq_def]

/-- a blank other than the newline is skipped -/
theorem TokRun.blank (c : UInt8) (rest : Bytes) (l : Nat) (T : List Tok) (C : Array Bytes)
    (h1 : c ≤ 32) (h2 : c ≠ 10) : TokRun (c :: rest) l T C rest l T C := by
  intro f hf
  obtain ⟨g, rfl⟩ : ∃ g, f = g + 1 := ⟨f - 1, by simp at hf; omega⟩
  refine ⟨g, by simp at hf; omega, ?_⟩
  rw [tokenizeLoop.eq_def]
  simp [h1, h2]

/-- `n` spaces are skipped -/
theorem TokRun.spaces (n : Nat) (rest : Bytes) (l : Nat) (T : List Tok) (C : Array Bytes) :
    TokRun (List.replicate n 32 ++ rest) l T C rest l T C := by
  induction n with
  | zero => exact TokRun.refl _ _ _ _
  | succ n ih =>
    rw [List.replicate_succ, List.cons_append]
    exact (TokRun.blank 32 _ l T C (by decide) (by decide)).trans ih

/-- the tokens after a newline: an implicit ";" after a token that asks for one -/
def afterNewline (T : List Tok) (l : Nat) : List Tok :=
  match T with
  | t :: _ => if t.implicitSemicolon then ⟨idSemicolon, [59], l⟩ :: T else T
  | [] => T

theorem TokRun.newline (rest : Bytes) (l : Nat) (T : List Tok) (C : Array Bytes) (hl : l ≠ maxLine) :
    TokRun (10 :: rest) l T C rest (l + 1) (afterNewline T l) C := by
  intro f hf
  obtain ⟨g, rfl⟩ : ∃ g, f = g + 1 := ⟨f - 1, by simp at hf; omega⟩
  refine ⟨g, by simp at hf; omega, ?_⟩
  rw [tokenizeLoop.eq_def]
  have : (l == maxLine) = false := by simpa using hl
  simp only [show ((10 : UInt8) ≤ 32) = true from by decide, ↓reduceIte, beq_self_eq_true, this,
    Bool.false_eq_true]
  unfold afterNewline
  cases T <;> rfl

/-- `lexTok` reads `txt` (ID `id`) off the front of `txt ++ rest` -/
def Relex (txt : Bytes) (id : Nat) (rest : Bytes) : Prop :=
  ∃ c σ, txt = c :: σ ∧ ¬ c ≤ 32 ∧ commentStart c (σ ++ rest) = false ∧
    lexTok c (σ ++ rest) = some (id, txt, rest)

theorem TokRun.tok {txt : Bytes} {id : Nat} {rest : Bytes} (h : Relex txt id rest)
    (l : Nat) (T : List Tok) (C : Array Bytes) :
    TokRun (txt ++ rest) l T C rest l (⟨id, txt, l⟩ :: T) C := by
  obtain ⟨c, σ, rfl, hc, hcom, hlex⟩ := h
  intro f hf
  obtain ⟨g, rfl⟩ : ∃ g, f = g + 1 := ⟨f - 1, by simp at hf; omega⟩
  refine ⟨g, by simp at hf; omega, ?_⟩
  rw [List.cons_append, tokenizeLoop_tok g c (σ ++ rest) l T C hc hcom _ _ _ hlex]

/-- a `//` comment up to (not including) the newline that ends it -/
theorem TokRun.comment (x rest : Bytes) (l : Nat) (T : List Tok) (C : Array Bytes)
    (hx : ∀ b ∈ x, b ≠ 10) :
    TokRun (47 :: 47 :: x ++ 10 :: rest) l T C (10 :: rest) l T (setComment C l (47 :: 47 :: x)) := by
  intro f hf
  obtain ⟨g, rfl⟩ : ∃ g, f = g + 1 := ⟨f - 1, by simp at hf; omega⟩
  refine ⟨g, by simp at hf ⊢; omega, ?_⟩
  have htw : ∀ (x : Bytes), (∀ b ∈ x, b ≠ 10) →
      List.takeWhile (fun b : UInt8 => b != 10) (x ++ 10 :: rest) = x ∧
      List.dropWhile (fun b : UInt8 => b != 10) (x ++ 10 :: rest) = 10 :: rest := by
    intro x hx
    induction x with
    | nil => simp
    | cons b bs ih =>
      have hb : b ≠ 10 := hx b (by simp)
      have := ih (fun b' hb' => hx b' (by simp [hb']))
      simp [hb, this]
  have h2 := htw (47 :: x) (by
    intro b hb
    rcases List.mem_cons.mp hb with rfl | hb
    · decide
    · exact hx b hb)
  rw [List.cons_append, List.cons_append, tokenizeLoop.eq_def]
  simp only [show ¬ ((47 : UInt8) ≤ 32) from by decide, ↓reduceIte,
    show ((47 : UInt8) == 34 || (47 : UInt8) == 39) = false from by decide,
    show alpha 47 = false from by decide, show numeric 47 = false from by decide,
    Bool.false_eq_true, List.head?_cons, beq_self_eq_true, Bool.and_self]
  rw [← List.cons_append, h2.1, h2.2]

end WuffsVerif.Render
