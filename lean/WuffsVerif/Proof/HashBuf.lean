/-
Basic facts about `rd` / `slice` of `Model/Hash.lean` (buffer reads as lists).
-/
import WuffsVerif.Model.Hash

namespace WuffsVerif.Hash

theorem rd_eq_getElem (buf : Array UInt8) (i : Nat) (h : i < buf.size) : rd buf i = buf[i] := by
  simp [rd, Array.getD, h]

theorem rd_of_ge (buf : Array UInt8) (i : Nat) (h : buf.size ≤ i) : rd buf i = 0 := by
  have : ¬ i < buf.size := by omega
  simp [rd, Array.getD, this]

theorem length_slice (buf : Array UInt8) (s e : Nat) (h : e ≤ buf.size) :
    (slice buf s e).length = e - s := by
  simp [slice]
  omega

theorem getElem_slice (buf : Array UInt8) (s e i : Nat) (h : e ≤ buf.size) (hi : i < (slice buf s e).length) :
    (slice buf s e)[i] = rd buf (s + i) := by
  have hl := length_slice buf s e h
  have : s + i < buf.size := by omega
  rw [rd_eq_getElem _ _ this]
  simp [slice]

theorem slice_of_le (buf : Array UInt8) (s e : Nat) (h : e ≤ s) : slice buf s e = [] := by
  simp [slice]
  omega

theorem slice_congr (b1 b2 : Array UInt8) (s e : Nat) (h1 : e ≤ b1.size) (h2 : e ≤ b2.size)
    (h : ∀ j, s ≤ j → j < e → rd b1 j = rd b2 j) : slice b1 s e = slice b2 s e := by
  apply List.ext_getElem
  · rw [length_slice _ _ _ h1, length_slice _ _ _ h2]
  · intro i hi1 hi2
    rw [getElem_slice _ _ _ _ h1, getElem_slice _ _ _ _ h2]
    rw [length_slice _ _ _ h1] at hi1
    exact h _ (by omega) (by omega)

theorem slice_append (buf : Array UInt8) (s m e : Nat) (hsm : s ≤ m) (hme : m ≤ e) (he : e ≤ buf.size) :
    slice buf s e = slice buf s m ++ slice buf m e := by
  apply List.ext_getElem
  · rw [List.length_append, length_slice _ _ _ he, length_slice _ _ _ (by omega), length_slice _ _ _ he]
    omega
  · intro i hi1 hi2
    rw [getElem_slice _ _ _ _ he]
    rw [length_slice _ _ _ he] at hi1
    by_cases hlt : i < m - s
    · rw [List.getElem_append_left (by rw [length_slice _ _ _ (by omega)]; exact hlt)]
      rw [getElem_slice _ _ _ _ (by omega)]
    · have hl : (slice buf s m).length = m - s := length_slice _ _ _ (by omega)
      rw [List.getElem_append_right (by omega)]
      rw [getElem_slice _ _ _ _ he]
      congr 1
      omega

theorem slice_one (buf : Array UInt8) (s : Nat) (he : s < buf.size) :
    slice buf s (s + 1) = [rd buf s] := by
  apply List.ext_getElem
  · rw [length_slice _ _ _ (by omega)]; simp
  · intro i hi1 hi2
    rw [getElem_slice _ _ _ _ (by omega)]
    simp at hi2
    subst hi2
    simp

theorem slice_cons (buf : Array UInt8) (s e : Nat) (hse : s < e) (he : e ≤ buf.size) :
    slice buf s e = rd buf s :: slice buf (s + 1) e := by
  rw [slice_append buf s (s + 1) e (by omega) (by omega) he, slice_one buf s (by omega)]
  rfl

theorem slice_snoc (buf : Array UInt8) (s e : Nat) (hse : s ≤ e) (he : e < buf.size) :
    slice buf s (e + 1) = slice buf s e ++ [rd buf e] := by
  rw [slice_append buf s e (e + 1) hse (by omega) (by omega), slice_cons buf e (e + 1) (by omega) (by omega),
    slice_of_le buf (e + 1) (e + 1) (by omega)]

end WuffsVerif.Hash
