/-
C15 helper lemmas about the descent (`resolveSeekPosition`): the per-node invariant, what
`loadAndValidate` establishes, the anti-loop rank that bounds the number of loads.
Core Lean only.
-/
import WuffsVerif.Proof.C15Node

namespace WuffsVerif.Rac.ChunkReader

/-! ## chunks of a validated node -/

theorem Node.cOffRange_wf (n : Node) (i cBias : Nat) (hi : i < n.arity) (hc : n.cPtr i ≤ n.cPtrMax) :
    (n.cOffRange i cBias).1 = cBias + n.cPtr i ∧
    (n.cOffRange i cBias).1 ≤ (n.cOffRange i cBias).2 ∧
    (n.cOffRange i cBias).2 ≤ cBias + n.cPtrMax := by
  unfold Node.cOffRange
  have h : ¬ i ≥ n.arity := by omega
  simp only [h, ↓reduceIte]
  refine ⟨by first | rfl | trivial, ?_, ?_⟩ <;> (repeat' split) <;> omega

theorem Node.Facts.leaf_not_fd {n : Node} (F : n.Facts) (i : Nat) (hi : i < n.arity)
    (hne : n.dPtr i < n.dPtr (i + 1)) : n.tTag i ≠ 0xFD := by
  intro h
  have := F.fd_empty i hi h
  omega

/-- A non-empty element of a validated node gives a well-formed chunk. -/
theorem Node.chunk_wf (n : Node) (F : n.Facts) (i cBias dBias : Nat) (hi : i < n.arity)
    (hne : n.dPtr i < n.dPtr (i + 1)) :
    (n.chunk i cBias dBias).cpLo ≤ (n.chunk i cBias dBias).cpHi ∧
    (n.chunk i cBias dBias).cpHi ≤ cBias + n.cPtrMax ∧
    (n.chunk i cBias dBias).dLo = dBias + n.dPtr i ∧
    (n.chunk i cBias dBias).dHi = dBias + n.dPtr (i + 1) := by
  have hc := F.cptr i hi (F.leaf_not_fd i hi hne)
  have := n.cOffRange_wf i cBias hi hc
  unfold Node.chunk
  exact ⟨this.2.1, this.2.2, rfl, rfl⟩

/-! ## the per-node invariant of the descent -/

/-- `n`, reached with biases `cBias`/`dBias`, is a validated node of the file. -/
structure NodeInv (f : File) (csize dsize : Nat) (n : Node) (cBias dBias : Nat) : Prop where
  facts : n.Facts
  file_eq : n.file = f
  consistent : n.size = nodeSize n.arity
  infile : n.off + n.size ≤ csize
  coff : cBias + n.cPtrMax ≤ csize
  doff : dBias + n.dPtrMax ≤ dsize

theorem load_ok {f : File} {cOffset arity : Nat} {n : Node} (h : load f cOffset arity = .ok n) :
    n.file = f ∧ n.off = cOffset ∧ n.size = nodeSize arity ∧ cOffset + nodeSize arity ≤ f.size ∧
    arity ≠ 0 ∧ n.stale = fun _ => 0 := by
  unfold load at h
  split at h
  · cases h
  · split at h
    · rename_i h1 h2
      cases h
      simp only [File.canRead, decide_eq_true_eq] at h2
      exact ⟨rfl, rfl, rfl, h2, h1, rfl⟩
    · cases h

theorem Node.rd_of_lt (n : Node) (i : Nat) (h : i < n.size) : n.rd i = n.file.at (n.off + i) := by
  unfold Node.rd; simp only [h, ↓reduceIte]

theorem nodeSize_ge (a : Nat) : 32 ≤ nodeSize a ∨ a = 0 := by
  unfold nodeSize; omega

/-- what a successful `loadAndValidate` establishes -/
theorem loadAndValidate_ok {f : File} {csize cOffset pc : Nat} {pm : Bool} {pv pcm cb ds : Nat}
    {child : Node}
    (h : loadAndValidate f csize cOffset pc pm pv pcm cb ds = .ok child) :
    child.valid = true ∧ child.file = f ∧ child.off = cOffset ∧
    child.size = nodeSize child.arity ∧ cOffset + child.size ≤ csize ∧
    cb + child.cPtrMax ≤ pcm ∧ child.dPtrMax = ds ∧ child.version ≤ pv ∧
    (pc = child.codec ∨ pm = true) := by
  unfold loadAndValidate at h
  split at h
  · cases h
  split at h
  · cases h
  simp only at h
  split at h
  · cases h
  rename_i harity
  split at h
  · cases h
  rename_i hsz
  split at h
  · cases h
  rename_i n hload
  split at h
  · cases h
  rename_i hvalid
  split at h
  · cases h
  rename_i hchk
  cases h
  obtain ⟨hf, hoff, hsize, _, _, _⟩ := load_ok hload
  simp only [Bool.or_eq_true, Bool.not_eq_true', decide_eq_true_eq, bne_iff_ne, ne_eq, not_or,
    Bool.not_eq_false, Nat.not_lt, Decidable.not_not] at hchk hsz hvalid
  have har : child.arity = f.at (cOffset + 3) := by
    unfold Node.arity
    rw [Node.rd_of_lt _ _ (by rw [hsize]; unfold nodeSize; omega), hf, hoff]
  refine ⟨by simpa using hvalid, hf, hoff, by rw [hsize, har], ?_, by omega, by omega, by omega, ?_⟩
  · rw [hsize]; omega
  · have := hchk.1.1.1
    simp only [parentChildCodecsValid, Bool.or_eq_true, beq_iff_eq] at this
    exact this

theorem load_err {f : File} {cOffset arity : Nat} {e : Err} (h : load f cOffset arity = .error e) :
    e = .internalArity ∨ e = .ueof := by
  unfold load at h
  split at h
  · cases h; exact Or.inl rfl
  · split at h
    · cases h
    · cases h; exact Or.inr rfl

theorem loadAndValidate_err {f : File} {csize cOffset pc : Nat} {pm : Bool} {pv pcm cb ds : Nat}
    {e : Err} (h : loadAndValidate f csize cOffset pc pm pv pcm cb ds = .error e) :
    e = .badNode ∨ e = .ueof ∨ e = .internalArity := by
  unfold loadAndValidate at h
  split at h
  · cases h; exact Or.inl rfl
  split at h
  · cases h; exact Or.inr (Or.inl rfl)
  simp only at h
  split at h
  · cases h; exact Or.inl rfl
  split at h
  · cases h; exact Or.inl rfl
  split at h
  · rename_i e' hl
    cases h
    rcases load_err hl with h | h
    · exact Or.inr (Or.inr h)
    · exact Or.inr (Or.inl h)
  split at h
  · cases h; exact Or.inl rfl
  split at h
  · cases h; exact Or.inl rfl
  · cases h

/-! ## the anti-loop rank -/

/-- `u48LE` of the file bytes at `i` -/
def fileU48 (f : File) (i : Nat) : Nat :=
  f.at i + 256 * (f.at (i + 1) + 256 * (f.at (i + 2) + 256 * (f.at (i + 3) +
    256 * (f.at (i + 4) + 256 * f.at (i + 5)))))

/-- the `DPtrMax` of whatever node sits at offset `c`: a function of the file alone -/
def dMaxAt (f : File) (c : Nat) : Nat := fileU48 f (c + 8 * f.at (c + 3))

theorem Node.arity_eq_file (n : Node) (hc : n.size = nodeSize n.arity) :
    n.arity = n.file.at (n.off + 3) := by
  have : 3 < n.size := by rw [hc]; unfold nodeSize; omega
  unfold Node.arity
  exact n.rd_of_lt 3 this

theorem Node.dPtrMax_eq_dMaxAt (n : Node) (hc : n.size = nodeSize n.arity) :
    n.dPtrMax = dMaxAt n.file n.off := by
  have ha := n.arity_eq_file hc
  have hs : ∀ k, k < 6 → n.rd (8 * n.arity + k) = n.file.at (n.off + 8 * n.arity + k) := by
    intro k hk
    rw [n.rd_of_lt _ (by rw [hc]; unfold nodeSize; omega)]
    congr 1; omega
  unfold Node.dPtrMax Node.u48 dMaxAt fileU48
  rw [← ha]
  have h0 := hs 0 (by omega); have h1 := hs 1 (by omega); have h2 := hs 2 (by omega)
  have h3 := hs 3 (by omega); have h4 := hs 4 (by omega); have h5 := hs 5 (by omega)
  simp only [Nat.add_zero] at h0
  rw [h0, h1, h2, h3, h4, h5]

/-- `(a, b) < (c, d)` lexicographically -/
def lexLt (a b c d : Nat) : Bool := decide (a < c) || (a == c && decide (b < d))

theorem lexLt_iff (a b c d : Nat) : lexLt a b c d = true ↔ (a < c ∨ (a = c ∧ b < d)) := by
  unfold lexLt
  simp only [Bool.or_eq_true, decide_eq_true_eq, Bool.and_eq_true, beq_iff_eq]

/-- offset `c` could hold an index node: the three magic bytes are there and a smallest
(32-byte) node would still end inside the claimed size -/
def nodeStart (f : File) (csize c : Nat) : Bool :=
  f.at c == 0x72 && f.at (c + 1) == 0xC3 && f.at (c + 2) == 0x63 && decide (c + 32 ≤ csize)

/-- the number of offsets that could hold an index node -/
def nodeStarts (f : File) (csize : Nat) : Nat := (List.range csize).countP (nodeStart f csize)

/-- how many offsets could hold a node that is smaller in the anti-loop order
`(DPtrMax, COffset)` -/
def rank (f : File) (csize c : Nat) : Nat :=
  (List.range csize).countP (fun c' => nodeStart f csize c' && lexLt (dMaxAt f c') c' (dMaxAt f c) c)

theorem countP_le_of {l : List Nat} {p q : Nat → Bool} (himp : ∀ x, p x = true → q x = true) :
    l.countP p ≤ l.countP q := by
  induction l with
  | nil => simp
  | cons y ys ih =>
    simp only [List.countP_cons]
    by_cases hp : p y = true
    · have := himp y hp; simp only [hp, this, ↓reduceIte]; omega
    · simp only [hp, Bool.false_eq_true, ↓reduceIte]; split <;> omega

theorem countP_lt_of {l : List Nat} {p q : Nat → Bool} (himp : ∀ x, p x = true → q x = true)
    (x : Nat) (hx : x ∈ l) (hq : q x = true) (hp : p x = false) :
    l.countP p < l.countP q := by
  induction l with
  | nil => cases hx
  | cons y ys ih =>
    simp only [List.countP_cons]
    rcases List.mem_cons.mp hx with h | h
    · subst h
      have := countP_le_of (l := ys) himp
      simp only [hp, hq, Bool.false_eq_true, ↓reduceIte]; omega
    · have := ih h
      by_cases hpy : p y = true
      · have := himp y hpy; simp only [hpy, this, ↓reduceIte]; omega
      · simp only [hpy, Bool.false_eq_true, ↓reduceIte]; split <;> omega

theorem rank_lt (f : File) (csize c1 c2 : Nat) (h2 : c2 < csize) (hs : nodeStart f csize c2 = true)
    (hlex : lexLt (dMaxAt f c2) c2 (dMaxAt f c1) c1 = true) :
    rank f csize c2 < rank f csize c1 := by
  unfold rank
  apply countP_lt_of (x := c2)
  · intro x hx
    simp only [Bool.and_eq_true] at hx ⊢
    refine ⟨hx.1, ?_⟩
    have h1 := hx.2
    rw [lexLt_iff] at h1 hlex ⊢
    omega
  · exact List.mem_range.mpr h2
  · simp only [Bool.and_eq_true]; exact ⟨hs, hlex⟩
  · cases h : lexLt (dMaxAt f c2) c2 (dMaxAt f c2) c2
    · simp
    · rw [lexLt_iff] at h; omega

/-- the rank of a possible node offset is below the number of possible node offsets -/
theorem rank_lt_nodeStarts (f : File) (csize c : Nat) (hc : c < csize)
    (hs : nodeStart f csize c = true) : rank f csize c < nodeStarts f csize := by
  unfold rank nodeStarts
  apply countP_lt_of (x := c)
  · intro x hx
    simp only [Bool.and_eq_true] at hx
    exact hx.1
  · exact List.mem_range.mpr hc
  · exact hs
  · cases h : lexLt (dMaxAt f c) c (dMaxAt f c) c
    · simp
    · rw [lexLt_iff] at h; omega

theorem countP_range_le (p : Nat → Bool) (m : Nat) (h : ∀ x, p x = true → x < m) :
    ∀ n, (List.range n).countP p ≤ min n m := by
  intro n
  induction n with
  | zero => simp
  | succ k ih =>
    rw [List.range_succ, List.countP_append]
    simp only [List.countP_cons, List.countP_nil]
    by_cases hk : p k = true
    · have := h k hk
      simp only [hk, ↓reduceIte]
      omega
    · simp only [hk, Bool.false_eq_true, ↓reduceIte]
      omega

/-- possible node offsets leave room for 32 bytes: there are at most `csize - 31` of them -/
theorem nodeStarts_le (f : File) (csize : Nat) : nodeStarts f csize ≤ csize - 31 := by
  have := countP_range_le (nodeStart f csize) (csize - 31) (by
    intro x hx
    simp only [nodeStart, Bool.and_eq_true, decide_eq_true_eq] at hx
    omega) csize
  unfold nodeStarts
  omega

/-- a validated node sits at a possible node offset -/
theorem nodeStart_of_inv {f : File} {csize dsize : Nat} {n : Node} {cBias dBias : Nat}
    (inv : NodeInv f csize dsize n cBias dBias) : nodeStart f csize n.off = true := by
  have ha : 0 < n.arity := inv.facts.arity_pos
  have hsz : 32 ≤ n.size := by rw [inv.consistent]; unfold nodeSize; omega
  obtain ⟨h0, h1, h2⟩ := inv.facts.magic
  rw [n.rd_of_lt 0 (by omega)] at h0
  rw [n.rd_of_lt 1 (by omega)] at h1
  rw [n.rd_of_lt 2 (by omega)] at h2
  rw [inv.file_eq] at h0 h1 h2
  have hin := inv.infile
  simp only [nodeStart, Bool.and_eq_true, beq_iff_eq, decide_eq_true_eq]
  exact ⟨⟨⟨by simpa using h0, h1⟩, h2⟩, by omega⟩

/-! ## the descent -/

/-- where a descent for DSpace position `p` may end: on a leaf element, containing `p`,
of a validated node -/
def Landing.Good (f : File) (csize dsize p : Nat) (l : Landing) : Prop :=
  NodeInv f csize dsize l.node l.cBias l.dBias ∧ l.nextChunk < l.node.arity ∧
  l.node.isLeaf l.nextChunk = true ∧
  l.dBias + l.node.dPtr l.nextChunk ≤ p ∧ p < l.dBias + l.node.dPtr (l.nextChunk + 1)

/-- what the descent theorem says about one outcome -/
def ResOK (f : File) (csize dsize p loads cOff fuel : Nat) (res : Outcome Landing) : Prop :=
  (∀ l, res = .ok l → l.Good f csize dsize p ∧ l.loads ≤ loads + rank f csize cOff) ∧
  res ≠ .err .panic ∧ (rank f csize cOff < fuel → res ≠ .fuel)

theorem ResOK.err {f : File} {csize dsize p loads cOff fuel : Nat} (e : Err) (he : e ≠ .panic) :
    ResOK f csize dsize p loads cOff fuel (.err e) :=
  ⟨(by intro l h; cases h), (by intro h; cases h; exact he rfl), (by intro _ h; cases h)⟩

theorem ResOK.ok {f : File} {csize dsize p loads cOff fuel : Nat} (l : Landing)
    (h : l.Good f csize dsize p ∧ l.loads ≤ loads + rank f csize cOff) :
    ResOK f csize dsize p loads cOff fuel (.ok l) :=
  ⟨(by intro l' h'; cases h'; exact h), (by intro h; cases h), (by intro _ h; cases h)⟩

theorem resolveLoop_spec (f : File) (csize dsize p : Nat) :
    ∀ fuel node cOff cBias dBias loads,
      NodeInv f csize dsize node cBias dBias → node.off = cOff →
      dBias ≤ p → p < dBias + node.dPtrMax →
      ResOK f csize dsize p loads cOff fuel
        (resolveLoop f csize p fuel node cOff cBias dBias loads) := by
  intro fuel
  induction fuel with
  | zero =>
    intro node cOff cBias dBias loads _ _ _ _
    simp only [resolveLoop]
    exact ⟨(by intro l h; cases h), (by intro h; cases h), (by intro h; omega)⟩
  | succ k ih =>
    intro node cOff cBias dBias loads inv hoff hlo hhi
    obtain ⟨i, hfind, hi, hilo, hihi, _⟩ := node.find_spec inv.facts p dBias hlo hhi
    simp only [resolveLoop, hfind]
    by_cases hleaf : node.isLeaf i = true
    · simp only [hleaf, ↓reduceIte]
      exact ResOK.ok _ ⟨⟨inv, hi, hleaf, hilo, hihi⟩, by simp⟩
    · simp only [hleaf, Bool.false_eq_true, ↓reduceIte]
      by_cases hanti : (cBias + node.cPtr i ≥ cOff && node.dSize i ≥ node.dPtrMax) = true
      · simp only [hanti, ↓reduceIte]
        exact ResOK.err _ (by intro h; cases h)
      · simp only [hanti, Bool.false_eq_true, ↓reduceIte]
        cases hlv : loadAndValidate f csize (cBias + node.cPtr i) node.codec node.codecHasMixBit
            node.version (cBias + node.cPtrMax)
            (if node.sTag i < node.arity then cBias + node.cPtr (node.sTag i) else cBias)
            (node.dSize i) with
        | error e =>
          simp only
          apply ResOK.err
          intro h
          rcases loadAndValidate_err hlv with h' | h' | h' <;> rw [h'] at h <;> cases h
        | ok child =>
          simp only
          obtain ⟨cvalid, cfile, coff, csz, cin, ccoff, cdmax, _, _⟩ := loadAndValidate_ok hlv
          have hds : node.dSize i = node.dPtr (i + 1) - node.dPtr i := node.dSize_eq i
          have hsorted := inv.facts.sorted i hi
          have hmax := inv.facts.dPtr_le_max (i + 1) (by omega)
          have cinv : NodeInv f csize dsize child
              (if node.sTag i < node.arity then cBias + node.cPtr (node.sTag i) else cBias)
              (dBias + node.dPtr i) :=
            ⟨child.facts_of_valid cvalid, cfile, csz, by rw [coff]; exact cin,
             by have := inv.coff; omega, by have := inv.doff; omega⟩
          have hrec := ih child (cBias + node.cPtr i)
            (if node.sTag i < node.arity then cBias + node.cPtr (node.sTag i) else cBias)
            (dBias + node.dPtr i) (loads + 1) cinv coff hilo (by omega)
          -- the anti-loop order decreases
          have hrank : rank f csize (cBias + node.cPtr i) < rank f csize cOff := by
            apply rank_lt
            · have h32 : 32 ≤ nodeSize child.arity := by
                have := (child.facts_of_valid cvalid).arity_pos
                unfold nodeSize; omega
              rw [csz] at cin
              omega
            · have := nodeStart_of_inv cinv
              rw [coff] at this
              exact this
            · rw [lexLt_iff]
              have e1 : dMaxAt f (cBias + node.cPtr i) = child.dPtrMax := by
                rw [child.dPtrMax_eq_dMaxAt csz, cfile, coff]
              have e2 : dMaxAt f cOff = node.dPtrMax := by
                rw [node.dPtrMax_eq_dMaxAt inv.consistent, inv.file_eq, hoff]
              rw [e1, e2, cdmax]
              simp only [Bool.and_eq_true, decide_eq_true_eq, not_and, Nat.not_le] at hanti
              by_cases hc : cBias + node.cPtr i ≥ cOff
              · have := hanti hc; omega
              · omega
          refine ⟨?_, hrec.2.1, ?_⟩
          · intro l hl
            have := hrec.1 l hl
            exact ⟨this.1, by omega⟩
          · intro hf
            exact hrec.2.2 (by omega)

end WuffsVerif.Rac.ChunkReader
