/-
C12, the Wuffs formatter, idempotence, part 7: the FIRST run of `Render` produces an output of
the shape `Gen` (`renderLoop_gen`, `render_gen`): its comment lines are `CRun`s (`flush_gen`,
`trailing_gen`), its token lines are laid out by `lineLayout` from the line-number-free state, the
look-ahead of `measureVarNameLength` over the source tokens is the walk over the pieces that
follow (`SrcAdj`), and the pieces are well-formed (`ok`, `ok2`, `ok3`) with the input tokens as
their source tokens.  Core Lean only.
-/
import WuffsVerif.Proof.RenderIdemFixed

namespace WuffsVerif.Render
open WuffsVerif.FmtToken WuffsVerif.Gen.C12

theorem wf_getC (comments : Array Bytes) (hcm : wfComments comments) (i : Nat) :
    wfComment (getC comments i) = true := by
  unfold getC
  cases h : comments[i]? with
  | none => rfl
  | some com =>
    have := Array.mem_of_getElem? h
    exact hcm com (Array.mem_toList_iff.mpr this)

/-! ### comment lines of the first run -/

theorem flush_gen (comments : Array Bytes) (hcm : wfComments comments) (ci : Int) (upto : Nat) :
    ∀ (f : Nat) (s : RSt),
    ∃ cs : List Piece,
      (flushComments comments ci upto f s).out = s.out ++ piecesBytes cs ∧
      (∀ p ∈ cs, p.ok ∧ p.ok2 ∧ p.ok3) ∧
      (∀ first : Bool, (first = true → upto ≤ s.prevLine + 1) → CRun (4 * ci).toNat first cs) ∧
      (flushComments comments ci upto f s).indent = s.indent ∧
      (flushComments comments ci upto f s).inStruct = s.inStruct ∧
      (flushComments comments ci upto f s).prevLineHanging = s.prevLineHanging ∧
      (flushComments comments ci upto f s).varNameLength = (if cs.isEmpty then s.varNameLength else 0) ∧
      (cs = [] → (flushComments comments ci upto f s).prevLine = s.prevLine) ∧
      (upto ≤ s.commentLine → cs = []) := by
  intro f
  induction f with
  | zero =>
    intro s
    exact ⟨[], by simp [flushComments, piecesBytes], by simp, fun first _ => CRun.nil first, rfl, rfl, rfl, rfl,
      fun _ => rfl, fun _ => rfl⟩
  | succ f ih =>
    intro s
    rw [flushComments]
    split
    · rename_i hlt
      have hw := wf_getC comments hcm s.commentLine
      simp only [commentText_getC, ↓reduceIte]
      by_cases hc : (getC comments s.commentLine).isEmpty = true
      · simp only [hc, ↓reduceIte, List.isEmpty_nil]
        obtain ⟨cs, h1, h2, h3, h4, h5, h6, h7, h8, _⟩ := ih { s with commentLine := s.commentLine + 1 }
        exact ⟨cs, h1, h2, h3, h4, h5, h6, h7, h8, fun h => by omega⟩
      · have hne : getC comments s.commentLine ≠ [] := by simpa using hc
        simp only [hc, Bool.false_eq_true, ↓reduceIte, tabs_strip_nonempty hw hne]
        obtain ⟨cs, h1, h2, h3, h4, h5, h6, h7, _, _⟩ := ih { s with
          out := s.out ++ (if s.commentLine > s.prevLine + 1 then [10] else []) ++
            (tabs ci ++ stripTrailingSpaces (getC comments s.commentLine)) ++ [10],
          varNameLength := 0, prevLine := s.commentLine, commentLine := s.commentLine + 1 }
        refine ⟨optBlank (decide (s.commentLine > s.prevLine + 1)) ++
          Piece.comment (4 * ci).toNat (getC comments s.commentLine) :: cs, ?_, ?_, ?_, h4, h5, h6, ?_, ?_, ?_⟩
        · rw [h1, piecesBytes_append]
          simp only [piecesBytes, List.flatMap_cons, Piece.bytes, tabs_replicate]
          by_cases hb : s.commentLine > s.prevLine + 1
          · simp [hb, optBlank, Piece.bytes, List.append_assoc]
          · simp [hb, optBlank, List.append_assoc]
        · intro p hp
          rcases List.mem_append.mp hp with hp | hp
          · have : p = Piece.blank := by
              unfold optBlank at hp
              split at hp
              · simpa using hp
              · simp at hp
            subst this
            exact ⟨trivial, trivial, trivial⟩
          · rcases List.mem_cons.mp hp with rfl | hp
            · exact ⟨⟨hw, hne⟩, trivial, trivial⟩
            · exact h2 p hp
        · intro first hfirst
          refine CRun.cons first _ _ cs ?_ (h3 false (fun h => absurd h (by simp)))
          intro hf
          have := hfirst hf
          simp only [decide_eq_false_iff_not, gt_iff_lt, Nat.not_lt]
          omega
        · rw [h7]
          have : (optBlank (decide (s.commentLine > s.prevLine + 1)) ++
              Piece.comment (4 * ci).toNat (getC comments s.commentLine) :: cs).isEmpty = false := by simp
          rw [this]
          split <;> rfl
        · intro h
          simp at h
        · intro h
          omega
    · rename_i hge
      exact ⟨[], by simp [piecesBytes], by simp, fun first _ => CRun.nil first, rfl, rfl, rfl, rfl, fun _ => rfl,
        fun _ => rfl⟩

theorem trailing_gen (comments : Array Bytes) (hcm : wfComments comments) :
    ∀ (f : Nat) (s : RSt),
    ∃ cs : List Piece,
      (trailingComments comments f s).out = s.out ++ piecesBytes cs ∧
      (∀ p ∈ cs, p.ok ∧ p.ok2 ∧ p.ok3) ∧
      (∀ first : Bool, (first = true → comments.size ≤ s.prevLine + 1) →
        CRun (4 * (s.indent : Int)).toNat first cs) := by
  intro f
  induction f with
  | zero =>
    intro s
    exact ⟨[], by simp [trailingComments, piecesBytes], by simp, fun first _ => CRun.nil first⟩
  | succ f ih =>
    intro s
    rw [trailingComments]
    split
    · rename_i hlt
      have hw := wf_getC comments hcm s.commentLine
      simp only [commentText_getC, ↓reduceIte]
      by_cases hc : (getC comments s.commentLine).isEmpty = true
      · simp only [hc, ↓reduceIte, List.isEmpty_nil]
        obtain ⟨cs, h1, h2, h3⟩ := ih { s with commentLine := s.commentLine + 1 }
        exact ⟨cs, h1, h2, h3⟩
      · have hne : getC comments s.commentLine ≠ [] := by simpa using hc
        simp only [hc, Bool.false_eq_true, ↓reduceIte, tabs_strip_nonempty hw hne]
        obtain ⟨cs, h1, h2, h3⟩ := ih { s with
          out := s.out ++ (if s.commentLine > s.prevLine + 1 then [10] else []) ++
            (tabs (s.indent : Int) ++ stripTrailingSpaces (getC comments s.commentLine)) ++ [10],
          prevLine := s.commentLine, commentLine := s.commentLine + 1 }
        refine ⟨optBlank (decide (s.commentLine > s.prevLine + 1)) ++
          Piece.comment (4 * (s.indent : Int)).toNat (getC comments s.commentLine) :: cs, ?_, ?_, ?_⟩
        · rw [h1, piecesBytes_append]
          simp only [piecesBytes, List.flatMap_cons, Piece.bytes, tabs_replicate]
          by_cases hb : s.commentLine > s.prevLine + 1
          · simp [hb, optBlank, Piece.bytes, List.append_assoc]
          · simp [hb, optBlank, List.append_assoc]
        · intro p hp
          rcases List.mem_append.mp hp with hp | hp
          · have : p = Piece.blank := by
              unfold optBlank at hp
              split at hp
              · simpa using hp
              · simp at hp
            subst this
            exact ⟨trivial, trivial, trivial⟩
          · rcases List.mem_cons.mp hp with rfl | hp
            · exact ⟨⟨hw, hne⟩, trivial, trivial⟩
            · exact h2 p hp
        · intro first hfirst
          refine CRun.cons first _ _ cs ?_ (h3 false (fun h => absurd h (by simp)))
          intro hf
          have := hfirst hf
          simp only [decide_eq_false_iff_not, gt_iff_lt, Nat.not_lt]
          omega
    · exact ⟨[], by simp [piecesBytes], by simp, fun first _ => CRun.nil first⟩

end WuffsVerif.Render
