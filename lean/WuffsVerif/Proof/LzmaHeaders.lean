/-
C17: the fixed header bytes of `lib/litonlylzma` are what the LZMA / XZ file formats prescribe for the
hard-coded configuration (lc = 3, lp = 0, pb = 2, dictionary size 4096, CRC-32 check, one LZMA2 filter):
small conformance facts about constants, by kernel evaluation of the model's CRC-32.
-/
import WuffsVerif.Model.Lzma

namespace WuffsVerif.Lzma

/-- XZ stream header: magic `FD 37 7A 58 5A 00`, stream flags `00 01` (check type 1 = CRC-32), then the
    CRC-32 (little endian) of the two flag bytes. -/
theorem xzHeader_stream_crc :
    xzHeader24.take 6 = [0xFD, 0x37, 0x7A, 0x58, 0x5A, 0x00] ∧
    (xzHeader24.drop 6).take 2 = [0x00, 0x01] ∧
    (xzHeader24.drop 8).take 4 = le32 (crc32 ((xzHeader24.drop 6).take 2)) := by
  decide +kernel

/-- XZ block header: size byte `02` ((2 + 1) * 4 = 12 bytes including the CRC), block flags `00` (one
    filter, no optional sizes), filter id `21` (LZMA2), properties size `01`, dictionary-size byte `00`
    (4 KiB), header padding `00 00 00`, then the CRC-32 of those eight bytes. -/
theorem xzHeader_block_crc :
    (xzHeader24.drop 12).take 8 = [0x02, 0x00, 0x21, 0x01, 0x00, 0x00, 0x00, 0x00] ∧
    ((xzHeader24.drop 12).headD 0).toNat = (12 / 4) - 1 ∧
    (xzHeader24.drop 20).take 4 = le32 (crc32 ((xzHeader24.drop 12).take 8)) := by
  decide +kernel

/-- the LZMA properties byte `0x5D` is `(pb * 5 + lp) * 9 + lc` for the hard-coded `lc, lp, pb`; the
    dictionary size field of the LZMA header is 0x1000 little endian; the same properties byte is the `S`
    byte of every LZMA2 chunk header `encodeXzChunk` writes -/
theorem lzma_props_byte :
    lzmaHeader5.headD 0 = ((pb * 5 + lp) * 9 + lc).toUInt8 ∧ (pb * 5 + lp) * 9 + lc = 0x5D ∧
    lzmaHeader5.drop 1 = [0x00, 0x10, 0x00, 0x00] ∧ lc ≤ 8 ∧ lp ≤ 4 ∧ pb ≤ 4 ∧ lc + lp ≤ 4 := by
  decide

end WuffsVerif.Lzma
