/-
C07 helper lemmas: the mirror of the std/sha256 compression function (`StdHash.shaCompress`: the sixteen
`w[k] = (p[4k] << 24) | …` loads, the two `while i < 64` loops, the eight `~mod+=`) equals FIPS 180-4 §6.2.2
as written down in `Model/Sha256Fips.lean`.  Core Lean only.
-/
import WuffsVerif.Model.StdHash
import WuffsVerif.Model.Sha256Fips

namespace WuffsVerif.StdHash
open WuffsVerif.Sha256Fips

theorem shaUpBlocks_lt' (hh : Sha256H) (x : List UInt8) (h : x.length < 64) :
    shaUpBlocks hh x = (hh, x) := by
  rw [shaUpBlocks]; simp only [show ¬ x.length ≥ 64 by omega, ↓reduceDIte]

theorem shaUpBlocks_ge' (hh : Sha256H) (x : List UInt8) (h : x.length ≥ 64) :
    shaUpBlocks hh x = shaUpBlocks (shaCompress hh (x.take 64)) (x.drop 64) := by
  rw [shaUpBlocks]; simp only [h, ↓reduceDIte]

/-! ### the bitwise identities -/

theorem rotl_or_eq_ROTR (x : UInt32) (n : Nat) (l r : UInt32) (hl : l = UInt32.ofNat (32 - n))
    (hr : r = UInt32.ofNat n) : (x <<< l) ||| (x >>> r) = ROTR n x := by
  subst hl hr
  unfold ROTR
  exact UInt32.or_comm _ _

theorem allOnes_xor (e : UInt32) : 0xFFFFFFFF ^^^ e = ~~~e := by
  apply UInt32.eq_of_toBitVec_eq
  rw [UInt32.toBitVec_xor, UInt32.toBitVec_not]
  exact BitVec.allOnes_xor

theorem s1_eq (w2 : UInt32) :
    (w2 >>> 10) ^^^ ((w2 <<< 15) ||| (w2 >>> 17)) ^^^ ((w2 <<< 13) ||| (w2 >>> 19)) = smallSigma1 w2 := by
  rw [rotl_or_eq_ROTR w2 17 15 17 rfl rfl, rotl_or_eq_ROTR w2 19 13 19 rfl rfl]
  unfold smallSigma1 SHR
  rw [UInt32.xor_assoc, UInt32.xor_comm]
  rfl

theorem s0_eq (w15 : UInt32) :
    (w15 >>> 3) ^^^ ((w15 <<< 25) ||| (w15 >>> 7)) ^^^ ((w15 <<< 14) ||| (w15 >>> 18)) = smallSigma0 w15 := by
  rw [rotl_or_eq_ROTR w15 7 25 7 rfl rfl, rotl_or_eq_ROTR w15 18 14 18 rfl rfl]
  unfold smallSigma0 SHR
  rw [UInt32.xor_assoc, UInt32.xor_comm]
  rfl

theorem S1_eq (e : UInt32) :
    ((e <<< 26) ||| (e >>> 6)) ^^^ ((e <<< 21) ||| (e >>> 11)) ^^^ ((e <<< 7) ||| (e >>> 25)) = bigSigma1 e := by
  rw [rotl_or_eq_ROTR e 6 26 6 rfl rfl, rotl_or_eq_ROTR e 11 21 11 rfl rfl, rotl_or_eq_ROTR e 25 7 25 rfl rfl]
  rfl

theorem S0_eq (a : UInt32) :
    ((a <<< 30) ||| (a >>> 2)) ^^^ ((a <<< 19) ||| (a >>> 13)) ^^^ ((a <<< 10) ||| (a >>> 22)) = bigSigma0 a := by
  rw [rotl_or_eq_ROTR a 2 30 2 rfl rfl, rotl_or_eq_ROTR a 13 19 13 rfl rfl, rotl_or_eq_ROTR a 22 10 22 rfl rfl]
  rfl

theorem ch_eq (e f g : UInt32) : (e &&& f) ^^^ ((0xFFFFFFFF ^^^ e) &&& g) = Ch e f g := by
  rw [allOnes_xor]; rfl

/-! ### big-endian words -/

theorem be_word_nat (a b c d : Nat) (ha : a < 256) (hb : b < 256) (hc : c < 256) (hd : d < 256) :
    (a <<< 24 % 2 ^ 32 ||| b <<< 16 % 2 ^ 32 ||| c <<< 8 % 2 ^ 32 ||| d) =
      (a * 2 ^ 24 + b * 2 ^ 16 + c * 2 ^ 8 + d) % 2 ^ 32 := by
  have e1 : a <<< 24 % 2 ^ 32 = a <<< 24 := Nat.mod_eq_of_lt (by rw [Nat.shiftLeft_eq]; omega)
  have e2 : b <<< 16 % 2 ^ 32 = b <<< 16 := Nat.mod_eq_of_lt (by rw [Nat.shiftLeft_eq]; omega)
  have e3 : c <<< 8 % 2 ^ 32 = c <<< 8 := Nat.mod_eq_of_lt (by rw [Nat.shiftLeft_eq]; omega)
  rw [e1, e2, e3]
  have f1 : a <<< 24 ||| b <<< 16 = (a <<< 8 + b) <<< 16 := by
    rw [Nat.shiftLeft_add_eq_or_of_lt (by omega : b < 2 ^ 8), Nat.shiftLeft_or_distrib, ← Nat.shiftLeft_add]
  have f2 : (a <<< 8 + b) <<< 16 ||| c <<< 8 = ((a <<< 8 + b) <<< 8 + c) <<< 8 := by
    rw [Nat.shiftLeft_add_eq_or_of_lt (by omega : c < 2 ^ 8), Nat.shiftLeft_or_distrib, ← Nat.shiftLeft_add]
  rw [f1, f2, ← Nat.shiftLeft_add_eq_or_of_lt (by omega : d < 2 ^ 8)]
  simp only [Nat.shiftLeft_eq]
  rw [Nat.mod_eq_of_lt (by omega)]
  omega

theorem beWord_eq (p : Array UInt8) (t : Nat) : beWord p t = word p.toList t := by
  have hg : ∀ j, p.getD j 0 = p.toList.getD j 0 := by
    intro j; simp [Array.getD_eq_getD_getElem?, List.getD_eq_getElem?_getD]
  unfold beWord word
  rw [hg, hg, hg, hg]
  generalize p.toList.getD (4 * t) 0 = a
  generalize p.toList.getD (4 * t + 1) 0 = b
  generalize p.toList.getD (4 * t + 2) 0 = c
  generalize p.toList.getD (4 * t + 3) 0 = d
  apply UInt32.toNat_inj.mp
  simp only [UInt32.toNat_or, UInt32.toNat_shiftLeft, UInt8.toNat_toUInt32, UInt32.toNat_ofNat']
  have := be_word_nat a.toNat b.toNat c.toNat d.toNat a.toNat_lt b.toNat_lt c.toNat_lt d.toNat_lt
  simpa using this

/-! ### the message schedule -/

/-- the first `t` entries of the mirror's `w` array are the specification's `W_0 … W_{t-1}` -/
structure SchedRel (w : Array UInt32) (W : List UInt32) (t : Nat) : Prop where
  len : W.length = t
  size : w.size = 64
  eq : ∀ j, j < t → w.getD j 0 = W.getD j 0

theorem schedRel_step (w : Array UInt32) (W : List UInt32) (t : Nat) (h : SchedRel w W t)
    (h16 : 16 ≤ t) (h64 : t < 64) : SchedRel (shaSchedStep w t) (schedExtend W) (t + 1) := by
  obtain ⟨hl, hs, he⟩ := h
  refine ⟨by simp [schedExtend, hl], by simp [shaSchedStep, hs], ?_⟩
  intro j hj
  unfold shaSchedStep schedExtend
  simp only [hl]
  by_cases hjt : j = t
  · subst hjt
    have g1 : (w.setIfInBounds j (((w.getD (j - 2) 0 >>> 10 ^^^ (w.getD (j - 2) 0 <<< 15 ||| w.getD (j - 2) 0 >>> 17) ^^^
        (w.getD (j - 2) 0 <<< 13 ||| w.getD (j - 2) 0 >>> 19)) + w.getD (j - 7) 0 +
        (w.getD (j - 15) 0 >>> 3 ^^^ (w.getD (j - 15) 0 <<< 25 ||| w.getD (j - 15) 0 >>> 7) ^^^
        (w.getD (j - 15) 0 <<< 14 ||| w.getD (j - 15) 0 >>> 18))) + w.getD (j - 16) 0)).getD j 0 =
        ((w.getD (j - 2) 0 >>> 10 ^^^ (w.getD (j - 2) 0 <<< 15 ||| w.getD (j - 2) 0 >>> 17) ^^^
        (w.getD (j - 2) 0 <<< 13 ||| w.getD (j - 2) 0 >>> 19)) + w.getD (j - 7) 0 +
        (w.getD (j - 15) 0 >>> 3 ^^^ (w.getD (j - 15) 0 <<< 25 ||| w.getD (j - 15) 0 >>> 7) ^^^
        (w.getD (j - 15) 0 <<< 14 ||| w.getD (j - 15) 0 >>> 18))) + w.getD (j - 16) 0 := by
      simp [Array.getD_eq_getD_getElem?, hs, h64]
    rw [g1, s1_eq, s0_eq, he _ (by omega), he _ (by omega), he _ (by omega), he _ (by omega)]
    simp [List.getD_eq_getElem?_getD, hl]
  · have hlt : j < t := by omega
    have g1 : ∀ v, (w.setIfInBounds t v).getD j 0 = w.getD j 0 := by
      intro v
      simp [Array.getD_eq_getD_getElem?, Ne.symm hjt]
    rw [g1, he j hlt]
    simp [List.getD_eq_getElem?_getD, List.getElem?_append_left, hl, hlt]

theorem schedRel_fold : ∀ (n t : Nat) (w : Array UInt32) (W : List UInt32), SchedRel w W t → 16 ≤ t → t + n ≤ 64 →
    SchedRel ((List.range' t n).foldl shaSchedStep w) (iterate schedExtend n W) (t + n) := by
  intro n
  induction n with
  | zero => intro t w W h _ _; simpa [iterate] using h
  | succ n ih =>
    intro t w W h h16 h64
    rw [List.range'_succ, List.foldl_cons, iterate]
    have := ih (t + 1) _ _ (schedRel_step w W t h h16 (by omega)) (by omega) (by omega)
    rw [show t + 1 + n = t + (n + 1) by omega] at this
    exact this

theorem schedule_eq (p : Array UInt8) :
    SchedRel (shaSchedule p) (schedule p.toList) 64 := by
  unfold shaSchedule schedule
  apply schedRel_fold 48 16 _ _ _ (by omega) (by omega)
  refine ⟨by simp, by simp, ?_⟩
  intro j hj
  have h64 : j < 64 := by omega
  simp [Array.getD_eq_getD_getElem?, List.getD_eq_getElem?_getD, h64, hj, beWord_eq]

/-! ### the rounds -/

def ShaVars.toF (v : ShaVars) : Vars :=
  { a := v.a, b := v.b, c := v.c, d := v.d, e := v.e, f := v.f, g := v.g, h := v.h }

theorem shaK_getD (hK : Gen.C07.sha256K.toList = K) (i : Nat) : shaK.getD i 0 = UInt32.ofNat (K.getD i 0) := by
  rw [← hK]
  unfold shaK
  by_cases hi : i < Gen.C07.sha256K.size
  · simp [Array.getD_eq_getD_getElem?, List.getD_eq_getElem?_getD, hi]
  · simp [Array.getD_eq_getD_getElem?, List.getD_eq_getElem?_getD, hi]

theorem round_eq (hK : Gen.C07.sha256K.toList = K) (w : Array UInt32) (W : List UInt32) (v : ShaVars) (i : Nat)
    (hw : w.getD i 0 = W.getD i 0) : (shaRound w v i).toF = round W v.toF i := by
  unfold shaRound round ShaVars.toF
  simp only [S1_eq, S0_eq, ch_eq, shaK_getD hK, hw]
  rfl

theorem foldl_rel {α β γ : Type} (r : α → β) (f : α → γ → α) (g : β → γ → β) :
    ∀ (l : List γ) (a : α), (∀ x ∈ l, ∀ a, r (f a x) = g (r a) x) → r (l.foldl f a) = l.foldl g (r a) := by
  intro l
  induction l with
  | nil => intro a _; rfl
  | cons x xs ih =>
    intro a h
    rw [List.foldl_cons, List.foldl_cons, ih _ (fun y hy a => h y (List.mem_cons_of_mem _ hy) a),
      h x List.mem_cons_self]

/-- **The compression function of std/sha256 is FIPS 180-4 §6.2.2** (given that the regenerated K table
    is the table of cube-root fractions). -/
theorem shaCompress_eq_fips (hK : Gen.C07.sha256K.toList = K) (hh : Sha256H) (blk : List UInt8) :
    (shaCompress hh blk).toList = compress hh.toList blk := by
  have hsched := schedule_eq blk.toArray
  have hg : ∀ j, hh.getD j 0 = hh.toList.getD j 0 := by
    intro j; simp [Array.getD_eq_getD_getElem?, List.getD_eq_getElem?_getD]
  unfold shaCompress compress
  simp only [hg]
  have key := foldl_rel ShaVars.toF (shaRound (shaSchedule blk.toArray)) (round (schedule blk)) (List.range 64)
    { a := hh.toList.getD 0 0, b := hh.toList.getD 1 0, c := hh.toList.getD 2 0, d := hh.toList.getD 3 0,
      e := hh.toList.getD 4 0, f := hh.toList.getD 5 0, g := hh.toList.getD 6 0, h := hh.toList.getD 7 0 }
    (by
      intro i hi v
      have hi' : i < 64 := by simpa using hi
      have := hsched.eq i hi'
      exact round_eq hK _ _ v i this)
  generalize (List.range 64).foldl (shaRound (shaSchedule blk.toArray)) _ = v at key
  have e : List.foldl (round (schedule blk))
      { a := hh.toList.getD 0 0, b := hh.toList.getD 1 0, c := hh.toList.getD 2 0, d := hh.toList.getD 3 0,
        e := hh.toList.getD 4 0, f := hh.toList.getD 5 0, g := hh.toList.getD 6 0, h := hh.toList.getD 7 0 }
      (List.range 64) = v.toF := key.symm
  rw [e]
  rfl

/-! ### padding, block loop, digest bytes -/

theorem shaPad_eq_fips (msg : List UInt8) : shaPad msg = pad msg := by
  unfold shaPad pad be64
  simp only [Nat.shiftRight_eq_div_pow, Nat.mul_comm msg.length 8]

theorem shaUpBlocks_eq_fips (hK : Gen.C07.sha256K.toList = K) : ∀ (fuel : Nat) (hh : Sha256H) (m : List UInt8),
    m.length ≤ fuel → (shaUpBlocks hh m).1.toList = blocks fuel hh.toList m := by
  intro fuel
  induction fuel with
  | zero =>
    intro hh m hm
    rw [shaUpBlocks_lt' hh m (by omega)]
    rfl
  | succ fuel ih =>
    intro hh m hm
    unfold blocks
    by_cases h : m.length < 64
    · rw [if_pos h, shaUpBlocks_lt' hh m h]
    · rw [if_neg h, shaUpBlocks_ge' hh m (by omega), ih _ _ (by simp only [List.length_drop]; omega),
        shaCompress_eq_fips hK]

theorem digestWord_eq (w : UInt32) :
    [(w >>> 24).toUInt8, (w >>> 16).toUInt8, (w >>> 8).toUInt8, w.toUInt8] =
      [24, 16, 8, 0].map (fun sh => UInt8.ofNat (w.toNat / 2 ^ sh % 256)) := by
  simp only [List.map_cons, List.map_nil]
  have h : ∀ (n : Nat) (k : UInt32), k.toNat = n → n < 32 → (w >>> k).toUInt8 = UInt8.ofNat (w.toNat / 2 ^ n % 256) := by
    intro n k hk hn
    apply UInt8.toNat_inj.mp
    rw [UInt32.toNat_toUInt8, UInt32.toNat_shiftRight, hk, Nat.mod_eq_of_lt hn, Nat.shiftRight_eq_div_pow,
      UInt8.toNat_ofNat']
    omega
  rw [h 24 24 rfl (by omega), h 16 16 rfl (by omega), h 8 8 rfl (by omega)]
  have h0 : w.toUInt8 = UInt8.ofNat (w.toNat / 2 ^ 0 % 256) := by
    apply UInt8.toNat_inj.mp
    rw [UInt32.toNat_toUInt8, UInt8.toNat_ofNat']
    omega
  rw [h0]

theorem shaDigestBytes_eq_fips (hh : Sha256H) : shaDigestBytes hh = digestBytes hh.toList := by
  unfold shaDigestBytes digestBytes
  congr 1
  funext w
  exact digestWord_eq w

end WuffsVerif.StdHash
