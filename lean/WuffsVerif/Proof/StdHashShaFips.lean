/-
C07 helper lemmas: the mirror of the std/sha256 compression function (`StdHash.shaCompress`: the sixteen
`w[k] = (p[4k] << 24) | …` loads, the two `while i < 64` loops, the eight `~mod+=`) equals FIPS 180-4 §6.2.2
as written down in `Model/Sha256Fips.lean`.  Core Lean only.
-/
import WuffsVerif.Model.StdHash
import WuffsVerif.Model.Sha256Fips

namespace WuffsVerif.StdHash
open WuffsVerif.Sha256Fips

/-! ### the bitwise identities -/

theorem rotl_or_eq_ROTR (x : UInt32) (n : Nat) (l r : UInt32) (hl : l = UInt32.ofNat (32 - n))
    (hr : r = UInt32.ofNat n) : (x <<< l) ||| (x >>> r) = ROTR n x := by
  subst hl hr
  unfold ROTR
  exact UInt32.or_comm _ _

theorem allOnes_xor (e : UInt32) : 0xFFFFFFFF ^^^ e = ~~~e := by
  apply UInt32.eq_of_toBitVec_eq
  rw [UInt32.toBitVec_xor, UInt32.toBitVec_not]
  exact BitVec.allOnes_xor

theorem s1_eq (w2 : UInt32) :
    (w2 >>> 10) ^^^ ((w2 <<< 15) ||| (w2 >>> 17)) ^^^ ((w2 <<< 13) ||| (w2 >>> 19)) = smallSigma1 w2 := by
  rw [rotl_or_eq_ROTR w2 17 15 17 rfl rfl, rotl_or_eq_ROTR w2 19 13 19 rfl rfl]
  unfold smallSigma1 SHR
  rw [UInt32.xor_assoc, UInt32.xor_comm]
  rfl

theorem s0_eq (w15 : UInt32) :
    (w15 >>> 3) ^^^ ((w15 <<< 25) ||| (w15 >>> 7)) ^^^ ((w15 <<< 14) ||| (w15 >>> 18)) = smallSigma0 w15 := by
  rw [rotl_or_eq_ROTR w15 7 25 7 rfl rfl, rotl_or_eq_ROTR w15 18 14 18 rfl rfl]
  unfold smallSigma0 SHR
  rw [UInt32.xor_assoc, UInt32.xor_comm]
  rfl

theorem S1_eq (e : UInt32) :
    ((e <<< 26) ||| (e >>> 6)) ^^^ ((e <<< 21) ||| (e >>> 11)) ^^^ ((e <<< 7) ||| (e >>> 25)) = bigSigma1 e := by
  rw [rotl_or_eq_ROTR e 6 26 6 rfl rfl, rotl_or_eq_ROTR e 11 21 11 rfl rfl, rotl_or_eq_ROTR e 25 7 25 rfl rfl]
  rfl

theorem S0_eq (a : UInt32) :
    ((a <<< 30) ||| (a >>> 2)) ^^^ ((a <<< 19) ||| (a >>> 13)) ^^^ ((a <<< 10) ||| (a >>> 22)) = bigSigma0 a := by
  rw [rotl_or_eq_ROTR a 2 30 2 rfl rfl, rotl_or_eq_ROTR a 13 19 13 rfl rfl, rotl_or_eq_ROTR a 22 10 22 rfl rfl]
  rfl

theorem ch_eq (e f g : UInt32) : (e &&& f) ^^^ ((0xFFFFFFFF ^^^ e) &&& g) = Ch e f g := by
  rw [allOnes_xor]; rfl

/-! ### big-endian words -/

theorem be_word_nat (a b c d : Nat) (ha : a < 256) (hb : b < 256) (hc : c < 256) (hd : d < 256) :
    (a <<< 24 % 2 ^ 32 ||| b <<< 16 % 2 ^ 32 ||| c <<< 8 % 2 ^ 32 ||| d) =
      (a * 2 ^ 24 + b * 2 ^ 16 + c * 2 ^ 8 + d) % 2 ^ 32 := by
  have e1 : a <<< 24 % 2 ^ 32 = a <<< 24 := Nat.mod_eq_of_lt (by rw [Nat.shiftLeft_eq]; omega)
  have e2 : b <<< 16 % 2 ^ 32 = b <<< 16 := Nat.mod_eq_of_lt (by rw [Nat.shiftLeft_eq]; omega)
  have e3 : c <<< 8 % 2 ^ 32 = c <<< 8 := Nat.mod_eq_of_lt (by rw [Nat.shiftLeft_eq]; omega)
  rw [e1, e2, e3]
  have f1 : a <<< 24 ||| b <<< 16 = (a <<< 8 + b) <<< 16 := by
    rw [Nat.shiftLeft_add_eq_or_of_lt (by omega : b < 2 ^ 8), Nat.shiftLeft_or_distrib, ← Nat.shiftLeft_add]
  have f2 : (a <<< 8 + b) <<< 16 ||| c <<< 8 = ((a <<< 8 + b) <<< 8 + c) <<< 8 := by
    rw [Nat.shiftLeft_add_eq_or_of_lt (by omega : c < 2 ^ 8), Nat.shiftLeft_or_distrib, ← Nat.shiftLeft_add]
  rw [f1, f2, ← Nat.shiftLeft_add_eq_or_of_lt (by omega : d < 2 ^ 8)]
  simp only [Nat.shiftLeft_eq]
  rw [Nat.mod_eq_of_lt (by omega)]
  omega

theorem beWord_eq (p : Array UInt8) (t : Nat) : beWord p t = word p.toList t := by
  have hg : ∀ j, p.getD j 0 = p.toList.getD j 0 := by
    intro j; simp [Array.getD_eq_getD_getElem?, List.getD_eq_getElem?_getD]
  unfold beWord word
  rw [hg, hg, hg, hg]
  generalize p.toList.getD (4 * t) 0 = a
  generalize p.toList.getD (4 * t + 1) 0 = b
  generalize p.toList.getD (4 * t + 2) 0 = c
  generalize p.toList.getD (4 * t + 3) 0 = d
  apply UInt32.toNat_inj.mp
  simp only [UInt32.toNat_or, UInt32.toNat_shiftLeft, UInt8.toNat_toUInt32, UInt32.toNat_ofNat']
  have := be_word_nat a.toNat b.toNat c.toNat d.toNat a.toNat_lt b.toNat_lt c.toNat_lt d.toNat_lt
  simpa using this

end WuffsVerif.StdHash
