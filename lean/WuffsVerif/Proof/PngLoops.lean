/-
The loop invariant of `Encode` (Model/Png/Uncomp.lean) and its preservation by `reserve`, the pixel
copy, `pixLoop` and `rowLoop`: whatever the sizes, the bytes handed to the writer so far plus the
pending bytes `buf[ei:ej]` are exactly the scanline stream produced so far, cut into stored blocks.
-/
import WuffsVerif.Proof.PngFlush

namespace WuffsVerif.Png.Uncomp
open WuffsVerif.Hash WuffsVerif.Gen.C19

/-- the writer's bytes for the non-final blocks flushed so far -/
def rendered (hdr : List UInt8) : List (List UInt8) → List UInt8
  | [] => []
  | b :: bs => hdr ++ idatChunk (zhdr ++ storedBlock false b)
      ++ (bs.map (fun b => idatChunk (storedBlock false b))).flatten

theorem rendered_snoc (hdr : List UInt8) (bs : List (List UInt8)) (b : List UInt8) (h : bs ≠ []) :
    rendered hdr (bs ++ [b]) = rendered hdr bs ++ idatChunk (storedBlock false b) := by
  cases bs with
  | nil => exact absurd rfl h
  | cons x xs => simp [rendered, List.append_assoc]

theorem Adler.update_lt (s : Adler) (l : List UInt8) (ha : s.a < 65521) (hb : s.b < 65521) :
    (s.update l).a < 65521 ∧ (s.update l).b < 65521 := by
  induction l generalizing s with
  | nil => exact ⟨ha, hb⟩
  | cons x t ih =>
    rw [Adler.update_cons]
    apply ih
    · simp only [Adler.step]; omega
    · simp only [Adler.step]; omega

/-- Loop invariant: `P` is the part of the scanline stream produced so far. -/
structure Inv (hdr : List UInt8) (e : Enc) (w : Writer) (ej : Nat) (P : List UInt8) : Prop where
  size : e.buf.size = 65536
  oob : e.oob = false
  wok : w.failAt = none
  ejMax : ej ≤ 65528
  blocks : ∃ bs : List (List UInt8),
    (∀ b ∈ bs, b.length < 65536) ∧
    out w = rendered hdr bs ∧
    AdlerAt e.buf (Adler.init.update bs.flatten) ∧
    (bs = [] → rd e.buf 4 = 0x0D ∧ slice e.buf 0 0x21 = hdr ∧ slice e.buf 0x25 0x2B = tagIDAT ++ zhdr ∧
      0x30 ≤ ej ∧ P = slice e.buf 0x30 ej) ∧
    (bs ≠ [] → slice e.buf 4 8 = tagIDAT ∧ 0xD ≤ ej ∧ P = bs.flatten ++ slice e.buf 0xD ej)

/-- Storing `l` at `ej` (room permitting) extends the produced stream by `l`. -/
theorem Inv.blit {hdr : List UInt8} {e : Enc} {w : Writer} {ej : Nat} {P : List UInt8}
    (h : Inv hdr e w ej P) (l : List UInt8) (hroom : ej + l.length ≤ 65528) :
    Inv hdr (e.blit ej l) w (ej + l.length) (P ++ l) := by
  obtain ⟨hsz, hoob, hw, hej, bs, hlen, hout, hA, hnil, hcons⟩ := h
  have hin : ej + l.length ≤ e.buf.size := by omega
  refine ⟨by rw [Enc.blit_size, hsz], by rw [Enc.blit_oob _ _ _ hin, hoob], hw, hroom, bs, hlen, hout, ?_, ?_, ?_⟩
  · exact AdlerAt_blit _ _ _ _ hsz (by omega) hA
  · intro hb
    obtain ⟨g1, g2, g3, g4, g5⟩ := hnil hb
    refine ⟨?_, ?_, ?_, by omega, ?_⟩
    · rw [Enc.rd_blit _ _ _ _ hin]
      have : ¬ (ej ≤ 4 ∧ 4 < ej + l.length) := by omega
      simp only [this, ↓reduceIte, g1]
    · rw [slice_blit_disj _ _ _ _ _ hin (by omega) (by omega), g2]
    · rw [slice_blit_disj _ _ _ _ _ hin (by omega) (by omega), g3]
    · rw [slice_append _ 0x30 ej (ej + l.length) (by omega) (by omega) (by rw [Enc.blit_size]; omega)]
      rw [slice_blit_disj _ _ _ _ _ hin (by omega) (by omega), slice_blit_same _ _ _ hin, g5]
  · intro hb
    obtain ⟨g1, g2, g3⟩ := hcons hb
    refine ⟨?_, by omega, ?_⟩
    · rw [slice_blit_disj _ _ _ _ _ hin (by omega) (by omega), g1]
    · rw [slice_append _ 0xD ej (ej + l.length) (by omega) (by omega) (by rw [Enc.blit_size]; omega)]
      rw [slice_blit_disj _ _ _ _ _ hin (by omega) (by omega), slice_blit_same _ _ _ hin, g3]
      simp only [List.append_assoc]

/-- `reserve n` keeps the invariant (same stream) and guarantees room for `n` more bytes. -/
theorem Inv.reserve {hdr : List UInt8} {e : Enc} {w : Writer} {ej : Nat} {P : List UInt8}
    (h : Inv hdr e w ej P) (n : Nat) (hn : n ≤ 64) :
    (reserve ⟨e, w, ej, true⟩ n).ok = true ∧
    Inv hdr (reserve ⟨e, w, ej, true⟩ n).e (reserve ⟨e, w, ej, true⟩ n).w (reserve ⟨e, w, ej, true⟩ n).ej P ∧
    (reserve ⟨e, w, ej, true⟩ n).ej + n ≤ 65528 := by
  unfold Uncomp.reserve
  by_cases hfit : ej + n > 65528
  · simp only [hfit, ↓reduceIte]
    obtain ⟨hsz, hoob, hw, hej, bs, hlen, hout, hA, hnil, hcons⟩ := h
    obtain ⟨sa, sb⟩ := Adler.update_lt Adler.init bs.flatten (by decide) (by decide)
    by_cases hb : bs = []
    · obtain ⟨g1, g2, g3, g4, g5⟩ := hnil hb
      obtain ⟨k1, k2, k3, k4, k5, k6, k7, _⟩ := flush_first e w ej false _ hdr hsz hoob hw g1 g2 g3 g4 hej hA sa sb
      obtain ⟨k7a, k7b, k7c⟩ := k7 rfl
      refine ⟨k1, ⟨k3, k4, k2, by simp only [eiLater]; omega, ?_⟩, by simp only [eiLater]; omega⟩
      refine ⟨[P], ?_, ?_, ?_, ?_, ?_⟩
      · intro b hbm
        simp only [List.mem_singleton] at hbm
        rw [hbm, g5, length_slice _ _ _ (by omega)]; omega
      · rw [k7a, hout, hb, ← g5]
        simp [rendered]
      · subst hb
        simpa [g5, Adler.update] using k7c
      · intro h; cases h
      · intro _
        refine ⟨k7b, by simp only [eiLater]; omega, ?_⟩
        simp only [eiLater]
        rw [slice_of_le _ _ _ (by omega)]
        simp
    · obtain ⟨g1, g2, g3⟩ := hcons hb
      obtain ⟨k1, k2, k3, k4, k5, k6, k7, _⟩ := flush_later e w ej false _ hsz hoob hw g1 g2 hej hA sa sb
      obtain ⟨k7a, k7b, k7c⟩ := k7 rfl
      refine ⟨k1, ⟨k3, k4, k2, by simp only [eiLater]; omega, ?_⟩, by simp only [eiLater]; omega⟩
      refine ⟨bs ++ [slice e.buf 0xD ej], ?_, ?_, ?_, ?_, ?_⟩
      · intro b hbm
        simp only [List.mem_append, List.mem_singleton] at hbm
        rcases hbm with hbm | hbm
        · exact hlen b hbm
        · rw [hbm, length_slice _ _ _ (by omega)]; omega
      · rw [k7a, hout, rendered_snoc _ _ _ hb]
        simp
      · simpa [Adler.update_append] using k7c
      · intro h; simp at h
      · intro _
        refine ⟨k7b, by simp only [eiLater]; omega, ?_⟩
        simp only [eiLater]
        rw [slice_of_le (flush e w ej false).e.buf 13 13 (Nat.le_refl _), g3]
        simp
  · simp only [hfit, ↓reduceIte]
    exact ⟨trivial, h, by omega⟩

/-- the bytes one pixel loop stores: the first `n` of every `k` source bytes, `cnt` pixels from `off` -/
def pixBytes (pix : Array UInt8) (n k : Nat) : Nat → Nat → List UInt8
  | 0, _ => []
  | cnt + 1, off => slice pix off (off + n) ++ pixBytes pix n k cnt (off + k)

/-- `rows` scanlines from row `y`: filter byte 0, then the row's pixel bytes -/
def scanlines (pix : Array UInt8) (n k width stride : Nat) : Nat → Nat → List UInt8
  | 0, _ => []
  | rows + 1, y => 0 :: pixBytes pix n k width (y * stride) ++ scanlines pix n k width stride rows (y + 1)

/-- the decoded image: `rows` rows from row `y`, each the row's pixel bytes, no padding -/
def imageBytes (pix : Array UInt8) (n k width stride : Nat) : Nat → Nat → List UInt8
  | 0, _ => []
  | rows + 1, y => pixBytes pix n k width (y * stride) ++ imageBytes pix n k width stride rows (y + 1)

theorem length_pixBytes (pix : Array UInt8) (n k cnt off : Nat) (hnk : n ≤ k) (hpix : off + k * cnt ≤ pix.size) :
    (pixBytes pix n k cnt off).length = cnt * n := by
  induction cnt generalizing off with
  | zero => simp [pixBytes]
  | succ cnt ih =>
    have hk : k * (cnt + 1) = k * cnt + k := by rw [Nat.mul_add, Nat.mul_one]
    rw [pixBytes, List.length_append, ih _ (by omega), length_slice _ _ _ (by omega), Nat.add_mul]
    omega

theorem pixLoop_inv (hdr : List UInt8) (pix : Array UInt8) (n k : Nat) (hn : n ≤ 64) (hnk : n ≤ k)
    (cnt off : Nat) (e : Enc) (w : Writer) (ej : Nat) (P : List UInt8)
    (h : Inv hdr e w ej P) (hpix : off + k * cnt ≤ pix.size) :
    (pixLoop pix n k cnt off ⟨e, w, ej, true⟩).ok = true ∧
    Inv hdr (pixLoop pix n k cnt off ⟨e, w, ej, true⟩).e (pixLoop pix n k cnt off ⟨e, w, ej, true⟩).w
      (pixLoop pix n k cnt off ⟨e, w, ej, true⟩).ej (P ++ pixBytes pix n k cnt off) := by
  induction cnt generalizing off e w ej P with
  | zero => simpa [pixLoop, pixBytes] using h
  | succ cnt ih =>
    obtain ⟨r1, r2, r3⟩ := h.reserve n hn
    rw [pixLoop]
    simp only [r1, ↓reduceIte]
    have hk : k * (cnt + 1) = k * cnt + k := by rw [Nat.mul_add, Nat.mul_one]
    have hoff : off + n ≤ pix.size := by omega
    rw [copyN_eq_blit_slice _ _ _ _ _ hoff]
    have hl : (slice pix off (off + n)).length = n := by rw [length_slice _ _ _ hoff]; omega
    have h2 := r2.blit (slice pix off (off + n)) (by rw [hl]; exact r3)
    rw [hl] at h2
    have := ih (off + k) _ _ _ _ h2 (by omega)
    simpa [pixBytes, List.append_assoc] using this

theorem rowLoop_inv (hdr : List UInt8) (pix : Array UInt8) (plen n k width stride : Nat) (hn : n ≤ 64) (hnk : n ≤ k)
    (rows y : Nat) (e : Enc) (w : Writer) (ej : Nat) (P : List UInt8)
    (h : Inv hdr e w ej P) (hlen : pix.size < 9223372036854775808) (hple : plen ≤ pix.size)
    (hpix : ∀ y', y ≤ y' → y' < y + rows → y' * stride + k * width ≤ plen) :
    (rowLoop pix plen width (stride : Int) n k rows y ⟨e, w, ej, true⟩).ok = true ∧
    Inv hdr (rowLoop pix plen width (stride : Int) n k rows y ⟨e, w, ej, true⟩).e
      (rowLoop pix plen width (stride : Int) n k rows y ⟨e, w, ej, true⟩).w
      (rowLoop pix plen width (stride : Int) n k rows y ⟨e, w, ej, true⟩).ej
      (P ++ scanlines pix n k width stride rows y) := by
  induction rows generalizing y e w ej P with
  | zero => simpa [rowLoop, scanlines] using h
  | succ rows ih =>
    obtain ⟨r1, r2, r3⟩ := h.reserve 1 (by omega)
    rw [rowLoop]
    simp only [r1, ↓reduceIte]
    have hrow := hpix y (by omega) (by omega)
    have hcast : wrapInt64 ((y : Int) * (stride : Int)) = ((y * stride : Nat) : Int) := by
      rw [← Int.natCast_mul]; exact wrapInt64_natCast _ (by omega)
    have hno : ¬ (wrapInt64 ((y : Int) * (stride : Int)) < 0 ∨
        wrapInt64 ((y : Int) * (stride : Int)) > (plen : Int) ∨
        wrapInt64 ((y : Int) * (stride : Int)) + ((k * width : Nat) : Int) > (pix.size : Int)) := by
      rw [hcast]; omega
    simp only [hno, ↓reduceIte]
    have htn : (wrapInt64 ((y : Int) * (stride : Int))).toNat = y * stride := by rw [hcast]; exact Int.toNat_natCast _
    rw [htn]
    have h2 := r2.blit [0] (by simpa using r3)
    have hset : ∀ (e' : Enc) (j : Nat), e'.set j 0 = e'.blit j [0] := fun _ _ => rfl
    rw [hset]
    obtain ⟨p1, p2⟩ := pixLoop_inv hdr pix n k hn hnk width (y * stride) _ _ _ _ h2 (by omega)
    simp only [List.length_cons, List.length_nil, Nat.zero_add] at p1 p2
    generalize pixLoop pix n k width (y * stride)
      ⟨(Uncomp.reserve ⟨e, w, ej, true⟩ 1).e.blit (Uncomp.reserve ⟨e, w, ej, true⟩ 1).ej [0],
       (Uncomp.reserve ⟨e, w, ej, true⟩ 1).w, (Uncomp.reserve ⟨e, w, ej, true⟩ 1).ej + 1, true⟩ = s2 at p1 p2 ⊢
    obtain ⟨e2, w2, ej2, ok2⟩ := s2
    simp only at p1 p2
    subst p1
    simp only [↓reduceIte]
    have := ih (y + 1) _ _ _ _ p2 (fun y' h1 h2 => hpix y' (by omega) (by omega))
    simpa [scanlines, List.append_assoc] using this

end WuffsVerif.Png.Uncomp
