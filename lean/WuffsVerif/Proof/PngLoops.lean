/-
The loop invariant of `Encode` (Model/Png/Uncomp.lean) and its preservation by `reserve`, the pixel
copy, `pixLoop` and `rowLoop`: whatever the sizes, the bytes handed to the writer so far plus the
pending bytes `buf[ei:ej]` are exactly the scanline stream produced so far, cut into stored blocks.
-/
import WuffsVerif.Proof.PngFlush

namespace WuffsVerif.Png.Uncomp
open WuffsVerif.Hash WuffsVerif.Gen.C19

/-- the writer's bytes for the non-final blocks flushed so far -/
def rendered (hdr : List UInt8) : List (List UInt8) → List UInt8
  | [] => []
  | b :: bs => hdr ++ idatChunk (zhdr ++ storedBlock false b)
      ++ (bs.map (fun b => idatChunk (storedBlock false b))).flatten

theorem rendered_snoc (hdr : List UInt8) (bs : List (List UInt8)) (b : List UInt8) (h : bs ≠ []) :
    rendered hdr (bs ++ [b]) = rendered hdr bs ++ idatChunk (storedBlock false b) := by
  cases bs with
  | nil => exact absurd rfl h
  | cons x xs => simp [rendered, List.append_assoc]

theorem Adler.update_lt (s : Adler) (l : List UInt8) (ha : s.a < 65521) (hb : s.b < 65521) :
    (s.update l).a < 65521 ∧ (s.update l).b < 65521 := by
  induction l generalizing s with
  | nil => exact ⟨ha, hb⟩
  | cons x t ih =>
    rw [Adler.update_cons]
    apply ih
    · simp only [Adler.step]; omega
    · simp only [Adler.step]; omega

/-- Loop invariant: `P` is the part of the scanline stream produced so far. -/
structure Inv (hdr : List UInt8) (e : Enc) (w : Writer) (ej : Nat) (P : List UInt8) : Prop where
  size : e.buf.size = 65536
  oob : e.oob = false
  wok : w.failAt = none
  ejMax : ej ≤ 65528
  blocks : ∃ bs : List (List UInt8),
    (∀ b ∈ bs, b.length < 65536) ∧
    out w = rendered hdr bs ∧
    AdlerAt e.buf (Adler.init.update bs.flatten) ∧
    (bs = [] → rd e.buf 4 = 0x0D ∧ slice e.buf 0 0x21 = hdr ∧ slice e.buf 0x25 0x2B = tagIDAT ++ zhdr ∧
      0x30 ≤ ej ∧ P = slice e.buf 0x30 ej) ∧
    (bs ≠ [] → slice e.buf 4 8 = tagIDAT ∧ 0xD ≤ ej ∧ P = bs.flatten ++ slice e.buf 0xD ej)

/-- Storing `l` at `ej` (room permitting) extends the produced stream by `l`. -/
theorem Inv.blit {hdr : List UInt8} {e : Enc} {w : Writer} {ej : Nat} {P : List UInt8}
    (h : Inv hdr e w ej P) (l : List UInt8) (hroom : ej + l.length ≤ 65528) :
    Inv hdr (e.blit ej l) w (ej + l.length) (P ++ l) := by
  obtain ⟨hsz, hoob, hw, hej, bs, hlen, hout, hA, hnil, hcons⟩ := h
  have hin : ej + l.length ≤ e.buf.size := by omega
  refine ⟨by rw [Enc.blit_size, hsz], by rw [Enc.blit_oob _ _ _ hin, hoob], hw, hroom, bs, hlen, hout, ?_, ?_, ?_⟩
  · exact AdlerAt_blit _ _ _ _ hsz (by omega) hA
  · intro hb
    obtain ⟨g1, g2, g3, g4, g5⟩ := hnil hb
    refine ⟨?_, ?_, ?_, by omega, ?_⟩
    · rw [Enc.rd_blit _ _ _ _ hin]
      have : ¬ (ej ≤ 4 ∧ 4 < ej + l.length) := by omega
      simp only [this, ↓reduceIte, g1]
    · rw [slice_blit_disj _ _ _ _ _ hin (by omega) (by omega), g2]
    · rw [slice_blit_disj _ _ _ _ _ hin (by omega) (by omega), g3]
    · rw [slice_append _ 0x30 ej (ej + l.length) (by omega) (by omega) (by rw [Enc.blit_size]; omega)]
      rw [slice_blit_disj _ _ _ _ _ hin (by omega) (by omega), slice_blit_same _ _ _ hin, g5]
  · intro hb
    obtain ⟨g1, g2, g3⟩ := hcons hb
    refine ⟨?_, by omega, ?_⟩
    · rw [slice_blit_disj _ _ _ _ _ hin (by omega) (by omega), g1]
    · rw [slice_append _ 0xD ej (ej + l.length) (by omega) (by omega) (by rw [Enc.blit_size]; omega)]
      rw [slice_blit_disj _ _ _ _ _ hin (by omega) (by omega), slice_blit_same _ _ _ hin, g3]
      simp only [List.append_assoc]

/-- `reserve n` keeps the invariant (same stream) and guarantees room for `n` more bytes. -/
theorem Inv.reserve {hdr : List UInt8} {e : Enc} {w : Writer} {ej : Nat} {P : List UInt8}
    (h : Inv hdr e w ej P) (n : Nat) (hn : n ≤ 64) :
    (reserve ⟨e, w, ej, true⟩ n).ok = true ∧
    Inv hdr (reserve ⟨e, w, ej, true⟩ n).e (reserve ⟨e, w, ej, true⟩ n).w (reserve ⟨e, w, ej, true⟩ n).ej P ∧
    (reserve ⟨e, w, ej, true⟩ n).ej + n ≤ 65528 := by
  unfold Uncomp.reserve
  simp only [ejMax]
  by_cases hfit : ej + n > 65528
  · simp only [hfit, ↓reduceIte]
    obtain ⟨hsz, hoob, hw, hej, bs, hlen, hout, hA, hnil, hcons⟩ := h
    obtain ⟨sa, sb⟩ := Adler.update_lt Adler.init bs.flatten (by decide) (by decide)
    by_cases hb : bs = []
    · obtain ⟨g1, g2, g3, g4, g5⟩ := hnil hb
      obtain ⟨k1, k2, k3, k4, k5, k6, k7, _⟩ := flush_first e w ej false _ hdr hsz hoob hw g1 g2 g3 g4 hej hA sa sb
      obtain ⟨k7a, k7b, k7c⟩ := k7 rfl
      refine ⟨k1, ⟨k3, k4, k2, by simp only [eiLater]; omega, ?_⟩, by simp only [eiLater]; omega⟩
      refine ⟨[P], ?_, ?_, ?_, ?_, ?_⟩
      · intro b hbm
        simp only [List.mem_singleton] at hbm
        rw [hbm, g5, length_slice _ _ _ (by omega)]; omega
      · rw [k7a, hout, hb, ← g5]
        simp [rendered]
      · subst hb
        simpa [g5, Adler.update] using k7c
      · intro h; cases h
      · intro _
        refine ⟨k7b, by simp only [eiLater]; omega, ?_⟩
        simp only [eiLater]
        rw [slice_of_le _ _ _ (by omega)]
        simp
    · obtain ⟨g1, g2, g3⟩ := hcons hb
      obtain ⟨k1, k2, k3, k4, k5, k6, k7, _⟩ := flush_later e w ej false _ hsz hoob hw g1 g2 hej hA sa sb
      obtain ⟨k7a, k7b, k7c⟩ := k7 rfl
      refine ⟨k1, ⟨k3, k4, k2, by simp only [eiLater]; omega, ?_⟩, by simp only [eiLater]; omega⟩
      refine ⟨bs ++ [slice e.buf 0xD ej], ?_, ?_, ?_, ?_, ?_⟩
      · intro b hbm
        simp only [List.mem_append, List.mem_singleton] at hbm
        rcases hbm with hbm | hbm
        · exact hlen b hbm
        · rw [hbm, length_slice _ _ _ (by omega)]; omega
      · rw [k7a, hout, rendered_snoc _ _ _ hb]
        simp
      · simpa [Adler.update_append] using k7c
      · intro h; simp at h
      · intro _
        refine ⟨k7b, by simp only [eiLater]; omega, ?_⟩
        simp only [eiLater]
        rw [slice_of_le (flush e w ej false).e.buf 13 13 (Nat.le_refl _), g3]
        simp
  · simp only [hfit, ↓reduceIte]
    exact ⟨trivial, h, by omega⟩

end WuffsVerif.Png.Uncomp
