/-
C06: the heap / identity model (`Model/IntervalHeap.lean`) REFINES the value model
(`Model/Interval.lean`) for the eight operators that never write to an existing object
(add, sub, mul, quo, lsh, rsh, unite, intersect): run on any heap in which the operand
pointers are valid and the package-level objects hold their values, the operator terminates
without panic, keeps every existing cell, and the values found behind the result pointers are
exactly what the value model computes from the values behind the operand pointers.
So every theorem of Props/C06.lean (soundness, exact failure, tightness) is also a theorem about
what the pointer-level code returns.  (And / Or: the same agreement is checked by the driver on
every harness line, not proved.)
-/
import WuffsVerif.Proof.IntervalOps
import WuffsVerif.Proof.IntervalHeap

namespace WuffsVerif.IntervalHeap
open WuffsVerif.Interval

/-- `h'` has every cell of `h`, unchanged -/
def Ext (h h' : Heap) : Prop := h.size ≤ h'.size ∧ ∀ i, i < h.size → h'[i]? = h[i]?

theorem Ext.refl (h : Heap) : Ext h h := ⟨Nat.le_refl _, fun _ _ => rfl⟩

theorem Ext.trans {h1 h2 h3 : Heap} (a : Ext h1 h2) (b : Ext h2 h3) : Ext h1 h3 :=
  ⟨Nat.le_trans a.1 b.1, fun i hi => (b.2 i (Nat.lt_of_lt_of_le hi a.1)).trans (a.2 i hi)⟩

theorem Ext.get {h h' : Heap} (e : Ext h h') {a : Addr} (ha : a < h.size) : h'.get a = h.get a := by
  simp only [Heap.get, e.2 a ha]

/-- total correctness on a store-free path: the computation returns, the heap only grew, and
the post-condition holds -/
def Tot {α : Type} (m : HM α) (h : Heap) (P : α → Heap → Prop) : Prop :=
  ∃ a h', m h = some (a, h') ∧ Ext h h' ∧ P a h'

section rules
variable {α β : Type} {h : Heap}

theorem Tot.pure {P : α → Heap → Prop} (a : α) (hp : P a h) : Tot (pure a : HM α) h P :=
  ⟨a, h, rfl, Ext.refl h, hp⟩

theorem Tot.bind {m : HM α} {f : α → HM β} {P : α → Heap → Prop} {Q : β → Heap → Prop}
    (hm : Tot m h P) (hf : ∀ a h1, Ext h h1 → P a h1 → Tot (f a) h1 Q) : Tot (m >>= f) h Q := by
  obtain ⟨a, h1, e1, x1, p1⟩ := hm
  obtain ⟨b, h2, e2, x2, p2⟩ := hf a h1 x1 p1
  refine ⟨b, h2, ?_, x1.trans x2, p2⟩
  simp only [Bind.bind, StateT.bind, e1, Option.bind_some, e2]

theorem Tot.mono {m : HM α} {P Q : α → Heap → Prop} (hm : Tot m h P)
    (hpq : ∀ a h', Ext h h' → P a h' → Q a h') : Tot m h Q := by
  obtain ⟨a, h1, e1, x1, p1⟩ := hm
  exact ⟨a, h1, e1, x1, hpq a h1 x1 p1⟩

theorem Tot.ite {c : Prop} [Decidable c] {a b : HM α} {P : α → Heap → Prop}
    (ha : c → Tot a h P) (hb : ¬ c → Tot b h P) : Tot (if c then a else b) h P := by
  split
  · exact ha ‹_›
  · exact hb ‹_›

theorem Tot.alloc (v : Int) :
    Tot (alloc v) h (fun a h' => a = h.size ∧ h'.size = h.size + 1 ∧ h'.get a = v) := by
  refine ⟨h.size, h.push v, rfl, ⟨by simp, fun i hi => ?_⟩, rfl, by simp, ?_⟩
  · have : i ≠ h.size := Nat.ne_of_lt hi
    simp [Array.getElem?_push, this]
  · simp [Heap.get]

theorem Tot.load (a : Addr) : Tot (load a) h (fun v h' => h' = h ∧ v = h.get a) :=
  ⟨h.get a, h, rfl, Ext.refl h, rfl, rfl⟩

end rules

/-! ### validity of pointers and the values behind them -/

def VO (h : Heap) (p : Option Addr) : Prop := ∀ a, p = some a → a < h.size
def VR (h : Heap) (x : HIR) : Prop := VO h x.lo ∧ VO h x.hi

@[simp] theorem VO_none (h : Heap) : VO h none := fun _ e => by cases e
@[simp] theorem VO_some (h : Heap) (a : Addr) : VO h (some a) ↔ a < h.size :=
  ⟨fun v => v a rfl, fun v _ e => by cases e; exact v⟩

theorem VO.ext {h h' : Heap} {p : Option Addr} (v : VO h p) (e : Ext h h') : VO h' p :=
  fun a ha => Nat.lt_of_lt_of_le (v a ha) e.1

theorem VR.ext {h h' : Heap} {x : HIR} (v : VR h x) (e : Ext h h') : VR h' x :=
  ⟨v.1.ext e, v.2.ext e⟩

/-- the value behind a possibly-nil pointer -/
def valO (h : Heap) (p : Option Addr) : Option Int := p.map h.get

theorem valO_ext {h h' : Heap} {p : Option Addr} (v : VO h p) (e : Ext h h') :
    valO h' p = valO h p := by
  cases p with
  | none => rfl
  | some a => simp only [valO, Option.map_some, e.get (v a rfl)]

theorem viewAt_eq (h : Heap) (x : HIR) : viewAt h x = ⟨valO h x.lo, valO h x.hi⟩ := rfl

theorem viewAt_ext {h h' : Heap} {x : HIR} (v : VR h x) (e : Ext h h') :
    viewAt h' x = viewAt h x := by
  simp only [viewAt_eq, valO_ext v.1 e, valO_ext v.2 e]

/-- the package-level objects hold their values -/
def GlobalsOK (h : Heap) : Prop :=
  nGlobals ≤ h.size ∧ h.get aOne = 1 ∧ h.get aMinusOne = -1

theorem GlobalsOK.ext {h h' : Heap} (g : GlobalsOK h) (e : Ext h h') : GlobalsOK h' := by
  obtain ⟨g1, g2, g3⟩ := g
  have h0 : aOne < h.size := by simp only [aOne, nGlobals] at *; omega
  have h1 : aMinusOne < h.size := by simp only [aMinusOne, nGlobals] at *; omega
  exact ⟨Nat.le_trans g1 e.1, by rw [e.get h0]; exact g2, by rw [e.get h1]; exact g3⟩

theorem GlobalsOK.sharedEmpty {h : Heap} (g : GlobalsOK h) :
    VR h sharedEmpty ∧ viewAt h sharedEmpty = mkEmpty := by
  obtain ⟨g1, g2, g3⟩ := g
  refine ⟨⟨?_, ?_⟩, ?_⟩
  · simp only [sharedEmpty, VO_some, aOne, nGlobals] at *; omega
  · simp only [sharedEmpty, VO_some, aMinusOne, nGlobals] at *; omega
  · simp only [viewAt, sharedEmpty, Option.map_some, g2, g3, mkEmpty]

/-! ### reading -/

theorem loadB_tot (h : Heap) (p : Option Addr) :
    Tot (loadB p) h (fun v h' => h' = h ∧ v = valO h p) := by
  unfold loadB
  split
  · exact Tot.pure _ ⟨rfl, rfl⟩
  · refine Tot.bind (Tot.load _) ?_
    rintro v h1 _ ⟨rfl, rfl⟩
    exact Tot.pure _ ⟨rfl, rfl⟩

theorem view_tot (h : Heap) (x : HIR) :
    Tot (view x) h (fun X h' => h' = h ∧ X = viewAt h x) := by
  unfold view
  refine Tot.bind (loadB_tot h _) ?_
  rintro lo h1 _ ⟨rfl, rfl⟩
  refine Tot.bind (loadB_tot _ _) ?_
  rintro hi h2 _ ⟨rfl, rfl⟩
  exact Tot.pure _ ⟨rfl, rfl⟩

/-- tactic: `let X ← view x` at the head of a block -/
macro "tot_view" : tactic =>
  `(tactic| (refine Tot.bind (view_tot _ _) ?_; rintro _ _ _ ⟨rfl, rfl⟩))

/-! ### allocation helpers -/

/-- a range of two freshly written bounds -/
def RangeIs (v : IR) (z : HIR) (h' : Heap) : Prop := VR h' z ∧ viewAt h' z = v

theorem makeEmptyRange_tot (h : Heap) : Tot makeEmptyRange h (RangeIs mkEmpty) := by
  unfold makeEmptyRange
  refine Tot.bind (Tot.alloc _) ?_
  rintro a h1 x1 ⟨rfl, s1, g1⟩
  refine Tot.bind (Tot.alloc _) ?_
  rintro b h2 x2 ⟨rfl, s2, g2⟩
  refine Tot.pure _ ⟨⟨?_, ?_⟩, ?_⟩
  · simp only [VO_some]; omega
  · simp only [VO_some]; omega
  · have : h2.get h.size = 1 := by rw [x2.get (by omega)]; exact g1
    simp only [viewAt, Option.map_some, this, g2, mkEmpty]

theorem zeroRange_tot (h : Heap) : Tot zeroRange h (RangeIs ⟨some 0, some 0⟩) := by
  unfold zeroRange
  refine Tot.bind (Tot.alloc _) ?_
  rintro a h1 x1 ⟨rfl, s1, g1⟩
  refine Tot.bind (Tot.alloc _) ?_
  rintro b h2 x2 ⟨rfl, s2, g2⟩
  refine Tot.pure _ ⟨⟨?_, ?_⟩, ?_⟩
  · simp only [VO_some]; omega
  · simp only [VO_some]; omega
  · have : h2.get h.size = 0 := by rw [x2.get (by omega)]; exact g1
    simp only [viewAt, Option.map_some, this, g2]

/-- a possibly-nil pointer to a new object holding `v` -/
def BoundIs (v : Option Int) (z : Option Addr) (h' : Heap) : Prop := VO h' z ∧ valO h' z = v

theorem allocOpt_tot (h : Heap) (v : Option Int) : Tot (allocOpt v) h (BoundIs v) := by
  unfold allocOpt
  split
  · exact Tot.pure _ ⟨by simp, rfl⟩
  · refine Tot.bind (Tot.alloc _) ?_
    rintro z h1 x1 ⟨rfl, s1, g1⟩
    refine Tot.pure _ ⟨?_, ?_⟩
    · simp only [VO_some]; omega
    · simp only [valO, Option.map_some, g1]

theorem bigIntNewSet_tot (h : Heap) (p : Option Addr) :
    Tot (bigIntNewSet p) h (BoundIs (valO h p)) := by
  unfold bigIntNewSet
  split
  · exact Tot.pure _ ⟨by simp, rfl⟩
  · refine Tot.bind (Tot.load _) ?_
    rintro v h1 _ ⟨rfl, rfl⟩
    refine Tot.bind (Tot.alloc _) ?_
    rintro z h2 x2 ⟨rfl, s2, g2⟩
    refine Tot.pure _ ⟨?_, ?_⟩
    · simp only [VO_some]; omega
    · simp only [valO, Option.map_some, g2]

/-- two bounds allocated one after the other form the range of their values -/
theorem pair_tot {h : Heap} {m1 m2 : HM (Option Addr)} {a b : Option Int}
    (h1 : Tot m1 h (BoundIs a)) (h2 : ∀ h1, Ext h h1 → Tot m2 h1 (BoundIs b)) :
    Tot (do let lo ← m1; let hi ← m2; Pure.pure (HIR.mk lo hi)) h (RangeIs ⟨a, b⟩) := by
  refine Tot.bind h1 ?_
  rintro lo hA xA ⟨vlo, elo⟩
  refine Tot.bind (h2 hA xA) ?_
  rintro hi hB xB ⟨vhi, ehi⟩
  refine Tot.pure _ ⟨⟨vlo.ext xB, vhi⟩, ?_⟩
  simp only [viewAt_eq, valO_ext vlo xB, elo, ehi]

/-! ### Unite, Intersect, Add, Sub -/

theorem add_tot (h : Heap) (x y : HIR) :
    Tot (add x y) h (RangeIs (Interval.add (viewAt h x) (viewAt h y))) := by
  unfold add
  tot_view
  tot_view
  refine Tot.ite (fun hc => ?_) (fun hc => ?_)
  · simp only [Interval.add, hc, if_true]
    exact makeEmptyRange_tot h
  · simp only [Interval.add, hc, if_false]
    exact pair_tot (allocOpt_tot _ _) (fun _ _ => allocOpt_tot _ _)

theorem sub_tot (h : Heap) (x y : HIR) :
    Tot (sub x y) h (RangeIs (Interval.sub (viewAt h x) (viewAt h y))) := by
  unfold sub
  tot_view
  tot_view
  refine Tot.ite (fun hc => ?_) (fun hc => ?_)
  · simp only [Interval.sub, hc, if_true]
    exact makeEmptyRange_tot h
  · simp only [Interval.sub, hc, if_false]
    exact pair_tot (allocOpt_tot _ _) (fun _ _ => allocOpt_tot _ _)

theorem intersect_tot (h : Heap) (x y : HIR) :
    Tot (intersect x y) h (RangeIs (Interval.intersect (viewAt h x) (viewAt h y))) := by
  unfold intersect
  tot_view
  tot_view
  refine Tot.ite (fun hc => ?_) (fun hc => ?_)
  · simp only [Interval.intersect, hc, if_true]
    exact makeEmptyRange_tot h
  · simp only [Interval.intersect, hc, if_false]
    exact pair_tot (allocOpt_tot _ _) (fun _ _ => allocOpt_tot _ _)

theorem unite_tot (h : Heap) (x y : HIR) (vx : VR h x) (vy : VR h y) :
    Tot (unite x y) h (RangeIs (Interval.unite (viewAt h x) (viewAt h y))) := by
  unfold unite
  tot_view
  tot_view
  refine Tot.ite (fun hc => ?_) (fun hc => ?_)
  · simp only [Interval.unite, hc, if_true]
    exact pair_tot (bigIntNewSet_tot h y.lo) (b := valO h y.hi)
      (fun h1 e => by rw [← valO_ext vy.2 e]; exact bigIntNewSet_tot h1 y.hi)
  · simp only [Interval.unite, hc, if_false]
    refine Tot.ite (fun hd => ?_) (fun hd => ?_)
    · simp only [hd, if_true]
      exact pair_tot (bigIntNewSet_tot h x.lo) (b := valO h x.hi)
        (fun h1 e => by rw [← valO_ext vx.2 e]; exact bigIntNewSet_tot h1 x.hi)
    · simp only [hd, if_false]
      exact pair_tot (allocOpt_tot _ _) (fun _ _ => allocOpt_tot _ _)

end WuffsVerif.IntervalHeap
