/-
C06: the heap / identity model (`Model/IntervalHeap.lean`) REFINES the value model
(`Model/Interval.lean`) for the eight operators that never write to an existing object
(add, sub, mul, quo, lsh, rsh, unite, intersect): run on any heap in which the operand
pointers are valid and the package-level objects hold their values, the operator terminates
without panic, keeps every existing cell, and the values found behind the result pointers are
exactly what the value model computes from the values behind the operand pointers.
So every theorem of Props/C06.lean (soundness, exact failure, tightness) is also a theorem about
what the pointer-level code returns.  (And / Or, whose helpers update new objects in place:
`Proof/IntervalHeapRefineBits.lean`.)
-/
import WuffsVerif.Proof.IntervalOps
import WuffsVerif.Proof.IntervalHeap

namespace WuffsVerif.IntervalHeap
open WuffsVerif.Interval

/-- `h'` has every cell of `h`, unchanged -/
def Ext (h h' : Heap) : Prop := h.size ≤ h'.size ∧ ∀ i, i < h.size → h'[i]? = h[i]?

theorem Ext.refl (h : Heap) : Ext h h := ⟨Nat.le_refl _, fun _ _ => rfl⟩

theorem Ext.trans {h1 h2 h3 : Heap} (a : Ext h1 h2) (b : Ext h2 h3) : Ext h1 h3 :=
  ⟨Nat.le_trans a.1 b.1, fun i hi => (b.2 i (Nat.lt_of_lt_of_le hi a.1)).trans (a.2 i hi)⟩

theorem Ext.get {h h' : Heap} (e : Ext h h') {a : Addr} (ha : a < h.size) : h'.get a = h.get a := by
  simp only [Heap.get, e.2 a ha]

/-- total correctness on a store-free path: the computation returns, the heap only grew, and
the post-condition holds -/
def Tot {α : Type} (m : HM α) (h : Heap) (P : α → Heap → Prop) : Prop :=
  ∃ a h', m h = some (a, h') ∧ Ext h h' ∧ P a h'

section rules
variable {α β : Type} {h : Heap}

theorem Tot.pure {P : α → Heap → Prop} (a : α) (hp : P a h) : Tot (pure a : HM α) h P :=
  ⟨a, h, rfl, Ext.refl h, hp⟩

theorem Tot.bind {m : HM α} {f : α → HM β} {P : α → Heap → Prop} {Q : β → Heap → Prop}
    (hm : Tot m h P) (hf : ∀ a h1, Ext h h1 → P a h1 → Tot (f a) h1 Q) : Tot (m >>= f) h Q := by
  obtain ⟨a, h1, e1, x1, p1⟩ := hm
  obtain ⟨b, h2, e2, x2, p2⟩ := hf a h1 x1 p1
  refine ⟨b, h2, ?_, x1.trans x2, p2⟩
  simp only [Bind.bind, StateT.bind, e1, Option.bind_some, e2]

theorem Tot.mono {m : HM α} {P Q : α → Heap → Prop} (hm : Tot m h P)
    (hpq : ∀ a h', Ext h h' → P a h' → Q a h') : Tot m h Q := by
  obtain ⟨a, h1, e1, x1, p1⟩ := hm
  exact ⟨a, h1, e1, x1, hpq a h1 x1 p1⟩

theorem Tot.ite {c : Prop} [Decidable c] {a b : HM α} {P : α → Heap → Prop}
    (ha : c → Tot a h P) (hb : ¬ c → Tot b h P) : Tot (if c then a else b) h P := by
  split
  · exact ha ‹_›
  · exact hb ‹_›

theorem Tot.alloc (v : Int) :
    Tot (alloc v) h (fun a h' => a = h.size ∧ h'.size = h.size + 1 ∧ h'.get a = v) := by
  refine ⟨h.size, h.push v, rfl, ⟨by simp, fun i hi => ?_⟩, rfl, by simp, ?_⟩
  · have : i ≠ h.size := Nat.ne_of_lt hi
    simp [Array.getElem?_push, this]
  · simp [Heap.get]

theorem Tot.load (a : Addr) : Tot (load a) h (fun v h' => h' = h ∧ v = h.get a) :=
  ⟨h.get a, h, rfl, Ext.refl h, rfl, rfl⟩

end rules

/-! ### validity of pointers and the values behind them -/

def VO (h : Heap) (p : Option Addr) : Prop := ∀ a, p = some a → a < h.size
def VR (h : Heap) (x : HIR) : Prop := VO h x.lo ∧ VO h x.hi

@[simp] theorem VO_none (h : Heap) : VO h none := fun _ e => by cases e
@[simp] theorem VO_some (h : Heap) (a : Addr) : VO h (some a) ↔ a < h.size :=
  ⟨fun v => v a rfl, fun v _ e => by cases e; exact v⟩

theorem VO.ext {h h' : Heap} {p : Option Addr} (v : VO h p) (e : Ext h h') : VO h' p :=
  fun a ha => Nat.lt_of_lt_of_le (v a ha) e.1

theorem VR.ext {h h' : Heap} {x : HIR} (v : VR h x) (e : Ext h h') : VR h' x :=
  ⟨v.1.ext e, v.2.ext e⟩

/-- the value behind a possibly-nil pointer -/
def valO (h : Heap) (p : Option Addr) : Option Int := p.map h.get

theorem valO_ext {h h' : Heap} {p : Option Addr} (v : VO h p) (e : Ext h h') :
    valO h' p = valO h p := by
  cases p with
  | none => rfl
  | some a => simp only [valO, Option.map_some, e.get (v a rfl)]

theorem viewAt_eq (h : Heap) (x : HIR) : viewAt h x = ⟨valO h x.lo, valO h x.hi⟩ := rfl

theorem viewAt_ext {h h' : Heap} {x : HIR} (v : VR h x) (e : Ext h h') :
    viewAt h' x = viewAt h x := by
  simp only [viewAt_eq, valO_ext v.1 e, valO_ext v.2 e]

/-- the package-level objects hold their values -/
def GlobalsOK (h : Heap) : Prop :=
  nGlobals ≤ h.size ∧ h.get aOne = 1 ∧ h.get aMinusOne = -1

theorem GlobalsOK.ext {h h' : Heap} (g : GlobalsOK h) (e : Ext h h') : GlobalsOK h' := by
  obtain ⟨g1, g2, g3⟩ := g
  have h0 : aOne < h.size := by simp only [aOne, nGlobals] at *; omega
  have h1 : aMinusOne < h.size := by simp only [aMinusOne, nGlobals] at *; omega
  exact ⟨Nat.le_trans g1 e.1, by rw [e.get h0]; exact g2, by rw [e.get h1]; exact g3⟩

theorem GlobalsOK.shared {h : Heap} (g : GlobalsOK h) :
    VR h sharedEmpty ∧ viewAt h sharedEmpty = mkEmpty := by
  obtain ⟨g1, g2, g3⟩ := g
  refine ⟨⟨?_, ?_⟩, ?_⟩
  · simp only [sharedEmpty, VO_some, aOne, nGlobals] at *; omega
  · simp only [sharedEmpty, VO_some, aMinusOne, nGlobals] at *; omega
  · simp only [viewAt, sharedEmpty, Option.map_some, g2, g3, mkEmpty]

/-! ### reading: a read leaves the heap alone and returns the value that is there -/

theorem Tot.bind_load {β : Type} {h : Heap} (a : Addr) {f : Int → HM β} {Q : β → Heap → Prop}
    (hf : Tot (f (h.get a)) h Q) : Tot (IntervalHeap.load a >>= f) h Q := by
  obtain ⟨b, h2, e2, x2, p2⟩ := hf
  exact ⟨b, h2, by simp only [Bind.bind, StateT.bind, IntervalHeap.load, Option.bind_some, e2], x2, p2⟩

theorem loadB_run (h : Heap) (p : Option Addr) : loadB p h = some (valO h p, h) := by
  cases p <;> rfl

theorem Tot.bind_loadB {β : Type} {h : Heap} (p : Option Addr) {f : Option Int → HM β}
    {Q : β → Heap → Prop} (hf : Tot (f (valO h p)) h Q) : Tot (loadB p >>= f) h Q := by
  obtain ⟨b, h2, e2, x2, p2⟩ := hf
  exact ⟨b, h2, by simp only [Bind.bind, StateT.bind, loadB_run, Option.bind_some, e2], x2, p2⟩

theorem view_run (h : Heap) (x : HIR) : view x h = some (viewAt h x, h) := by
  simp only [view, Bind.bind, StateT.bind, loadB_run, Option.bind_some, Pure.pure, StateT.pure]
  rfl

theorem Tot.bind_view {β : Type} {h : Heap} (x : HIR) {f : IR → HM β} {Q : β → Heap → Prop}
    (hf : Tot (f (viewAt h x)) h Q) : Tot (view x >>= f) h Q := by
  obtain ⟨b, h2, e2, x2, p2⟩ := hf
  exact ⟨b, h2, by simp only [Bind.bind, StateT.bind, view_run, Option.bind_some, e2], x2, p2⟩

/-- tactic: `let X ← view x` at the head of a block -/
macro "tot_view" : tactic => `(tactic| refine Tot.bind_view _ ?_)

/-! ### allocation helpers -/

/-- a range of two freshly written bounds -/
def RangeIs (v : IR) (z : HIR) (h' : Heap) : Prop := VR h' z ∧ viewAt h' z = v

theorem makeEmptyRange_tot (h : Heap) : Tot makeEmptyRange h (RangeIs mkEmpty) := by
  unfold makeEmptyRange
  refine Tot.bind (Tot.alloc _) ?_
  rintro a h1 x1 ⟨rfl, s1, g1⟩
  refine Tot.bind (Tot.alloc _) ?_
  rintro b h2 x2 ⟨rfl, s2, g2⟩
  refine Tot.pure _ ⟨⟨?_, ?_⟩, ?_⟩
  · simp only [VO_some]; omega
  · simp only [VO_some]; omega
  · have : h2.get h.size = 1 := by rw [x2.get (by omega)]; exact g1
    simp only [viewAt, Option.map_some, this, g2, mkEmpty]

theorem zeroRange_tot (h : Heap) : Tot zeroRange h (RangeIs ⟨some 0, some 0⟩) := by
  unfold zeroRange
  refine Tot.bind (Tot.alloc _) ?_
  rintro a h1 x1 ⟨rfl, s1, g1⟩
  refine Tot.bind (Tot.alloc _) ?_
  rintro b h2 x2 ⟨rfl, s2, g2⟩
  refine Tot.pure _ ⟨⟨?_, ?_⟩, ?_⟩
  · simp only [VO_some]; omega
  · simp only [VO_some]; omega
  · have : h2.get h.size = 0 := by rw [x2.get (by omega)]; exact g1
    simp only [viewAt, Option.map_some, this, g2]

/-- a possibly-nil pointer to a new object holding `v` -/
def BoundIs (v : Option Int) (z : Option Addr) (h' : Heap) : Prop := VO h' z ∧ valO h' z = v

theorem allocOpt_tot (h : Heap) (v : Option Int) : Tot (allocOpt v) h (BoundIs v) := by
  unfold allocOpt
  split
  · exact Tot.pure _ ⟨by simp, rfl⟩
  · refine Tot.bind (Tot.alloc _) ?_
    rintro z h1 x1 ⟨rfl, s1, g1⟩
    refine Tot.pure _ ⟨?_, ?_⟩
    · simp only [VO_some]; omega
    · simp only [valO, Option.map_some, g1]

theorem bigIntNewSet_tot (h : Heap) (p : Option Addr) :
    Tot (bigIntNewSet p) h (BoundIs (valO h p)) := by
  unfold bigIntNewSet
  split
  · exact Tot.pure _ ⟨by simp, rfl⟩
  · refine Tot.bind_load _ ?_
    refine Tot.bind (Tot.alloc _) ?_
    rintro z h2 x2 ⟨rfl, s2, g2⟩
    refine Tot.pure _ ⟨?_, ?_⟩
    · simp only [VO_some]; omega
    · simp only [valO, Option.map_some, g2]

/-- two bounds allocated one after the other form the range of their values -/
theorem pair_tot {h : Heap} {m1 m2 : HM (Option Addr)} {a b : Option Int}
    (h1 : Tot m1 h (BoundIs a)) (h2 : ∀ h1, Ext h h1 → Tot m2 h1 (BoundIs b)) :
    Tot (do let lo ← m1; let hi ← m2; Pure.pure (HIR.mk lo hi)) h (RangeIs ⟨a, b⟩) := by
  refine Tot.bind h1 ?_
  rintro lo hA xA ⟨vlo, elo⟩
  refine Tot.bind (h2 hA xA) ?_
  rintro hi hB xB ⟨vhi, ehi⟩
  refine Tot.pure _ ⟨⟨vlo.ext xB, vhi⟩, ?_⟩
  simp only [viewAt_eq, valO_ext vlo xB, elo, ehi]

/-! ### Unite, Intersect, Add, Sub -/

theorem add_tot (h : Heap) (x y : HIR) :
    Tot (add x y) h (RangeIs (Interval.add (viewAt h x) (viewAt h y))) := by
  unfold add
  tot_view
  tot_view
  refine Tot.ite (fun hc => ?_) (fun hc => ?_)
  · simp only [Interval.add, hc, if_true]
    exact makeEmptyRange_tot h
  · simp only [Interval.add, hc, if_false]
    exact pair_tot (allocOpt_tot _ _) (fun _ _ => allocOpt_tot _ _)

theorem sub_tot (h : Heap) (x y : HIR) :
    Tot (sub x y) h (RangeIs (Interval.sub (viewAt h x) (viewAt h y))) := by
  unfold sub
  tot_view
  tot_view
  refine Tot.ite (fun hc => ?_) (fun hc => ?_)
  · simp only [Interval.sub, hc, if_true]
    exact makeEmptyRange_tot h
  · simp only [Interval.sub, hc, if_false]
    exact pair_tot (allocOpt_tot _ _) (fun _ _ => allocOpt_tot _ _)

theorem intersect_tot (h : Heap) (x y : HIR) :
    Tot (intersect x y) h (RangeIs (Interval.intersect (viewAt h x) (viewAt h y))) := by
  unfold intersect
  tot_view
  tot_view
  refine Tot.ite (fun hc => ?_) (fun hc => ?_)
  · simp only [Interval.intersect, hc, if_true]
    exact makeEmptyRange_tot h
  · simp only [Interval.intersect, hc, if_false]
    exact pair_tot (allocOpt_tot _ _) (fun _ _ => allocOpt_tot _ _)

theorem unite_tot (h : Heap) (x y : HIR) (vx : VR h x) (vy : VR h y) :
    Tot (unite x y) h (RangeIs (Interval.unite (viewAt h x) (viewAt h y))) := by
  unfold unite
  tot_view
  tot_view
  refine Tot.ite (fun hc => ?_) (fun hc => ?_)
  · simp only [Interval.unite, hc, if_true]
    exact pair_tot (bigIntNewSet_tot h y.lo) (b := valO h y.hi)
      (fun h1 e => by rw [← valO_ext vy.2 e]; exact bigIntNewSet_tot h1 y.hi)
  · simp only [Interval.unite, hc, if_false]
    refine Tot.ite (fun hd => ?_) (fun hd => ?_)
    · simp only [hd, if_true]
      exact pair_tot (bigIntNewSet_tot h x.lo) (b := valO h x.hi)
        (fun h1 e => by rw [← valO_ext vx.2 e]; exact bigIntNewSet_tot h1 x.hi)
    · simp only [hd, if_false]
      exact pair_tot (allocOpt_tot _ _) (fun _ _ => allocOpt_tot _ _)

/-! ### `biggerIntPair` -/

/-- the value of a `biggerInt` -/
def valBI (h : Heap) : HBI → BI
  | .negInf => .negInf
  | .posInf => .posInf
  | .fin a => .fin (h.get a)

def valP (h : Heap) (p : HBIP) : BIP := ⟨valBI h p.lo, valBI h p.hi⟩

def VBI (h : Heap) (b : HBI) : Prop := ∀ a, b = .fin a → a < h.size
def VP (h : Heap) (p : HBIP) : Prop := VBI h p.lo ∧ VBI h p.hi

@[simp] theorem VBI_negInf (h : Heap) : VBI h .negInf := fun _ e => by cases e
@[simp] theorem VBI_posInf (h : Heap) : VBI h .posInf := fun _ e => by cases e
@[simp] theorem VBI_fin (h : Heap) (a : Addr) : VBI h (.fin a) ↔ a < h.size :=
  ⟨fun v => v a rfl, fun v _ e => by cases e; exact v⟩

theorem VBI.ext {h h' : Heap} {b : HBI} (v : VBI h b) (e : Ext h h') : VBI h' b :=
  fun a ha => Nat.lt_of_lt_of_le (v a ha) e.1

theorem VP.ext {h h' : Heap} {p : HBIP} (v : VP h p) (e : Ext h h') : VP h' p :=
  ⟨v.1.ext e, v.2.ext e⟩

theorem valBI_ext {h h' : Heap} {b : HBI} (v : VBI h b) (e : Ext h h') :
    valBI h' b = valBI h b := by
  cases b with
  | negInf => rfl
  | posInf => rfl
  | fin a => simp only [valBI, e.get (v a rfl)]

theorem valP_ext {h h' : Heap} {p : HBIP} (v : VP h p) (e : Ext h h') : valP h' p = valP h p := by
  simp only [valP, valBI_ext v.1 e, valBI_ext v.2 e]

theorem viewBI_run (h : Heap) (b : HBI) : viewBI b h = some (valBI h b, h) := by
  cases b <;> rfl

theorem Tot.bind_viewBI {β : Type} {h : Heap} (b : HBI) {f : BI → HM β} {Q : β → Heap → Prop}
    (hf : Tot (f (valBI h b)) h Q) : Tot (viewBI b >>= f) h Q := by
  obtain ⟨r, h2, e2, x2, p2⟩ := hf
  exact ⟨r, h2, by simp only [Bind.bind, StateT.bind, viewBI_run, Option.bind_some, e2], x2, p2⟩

/-- a pair whose pointers are valid and whose value is `v` -/
def PairIs (v : BIP) (r : HBIP) (h' : Heap) : Prop := VP h' r ∧ valP h' r = v

/-- a candidate bound whose pointer is valid and whose value is `v` -/
def BIIs (v : BI) (b : HBI) (h' : Heap) : Prop := VBI h' b ∧ valBI h' b = v

theorem takeLo_eq (p : BIP) (y : BI) :
    p.lowerMin y = if takeLo p.lo y then { p with lo := y } else p := by
  unfold BIP.lowerMin takeLo
  cases p.lo <;> cases y <;> rfl

theorem takeHi_eq (p : BIP) (y : BI) :
    p.raiseMax y = if takeHi p.hi y then { p with hi := y } else p := by
  unfold BIP.raiseMax takeHi
  cases p.hi <;> cases y <;> rfl

theorem lowerMin_tot {h : Heap} {p : HBIP} {y : HBI} (vp : VP h p) (vy : VBI h y) :
    Tot (lowerMin p y) h (PairIs ((valP h p).lowerMin (valBI h y))) := by
  unfold lowerMin
  refine Tot.bind_viewBI _ ?_
  refine Tot.bind_viewBI _ ?_
  refine Tot.pure _ ?_
  rw [takeLo_eq]
  show PairIs (if takeLo (valBI h p.lo) (valBI h y) = true then _ else _) _ h
  split
  · exact ⟨⟨vy, vp.2⟩, rfl⟩
  · exact ⟨vp, rfl⟩

theorem raiseMax_tot {h : Heap} {p : HBIP} {y : HBI} (vp : VP h p) (vy : VBI h y) :
    Tot (raiseMax p y) h (PairIs ((valP h p).raiseMax (valBI h y))) := by
  unfold raiseMax
  refine Tot.bind_viewBI _ ?_
  refine Tot.bind_viewBI _ ?_
  refine Tot.pure _ ?_
  rw [takeHi_eq]
  show PairIs (if takeHi (valBI h p.hi) (valBI h y) = true then _ else _) _ h
  split
  · exact ⟨⟨vp.1, vy⟩, rfl⟩
  · exact ⟨vp, rfl⟩

theorem toIntRange_tot {h : Heap} {p : HBIP} (vp : VP h p) :
    Tot (toIntRange p) h (RangeIs (valP h p).toIR) := by
  obtain ⟨lo, hi⟩ := p
  obtain ⟨v1, v2⟩ := vp
  cases lo <;> cases hi <;>
    first
    | exact makeEmptyRange_tot h
    | (refine Tot.pure _ ⟨⟨?_, ?_⟩, rfl⟩ <;> simp_all)

theorem copyBI_tot (h : Heap) (p : Option Addr) (inf : HBI) (hinf : inf = .negInf ∨ inf = .posInf) :
    Tot (copyBI p inf) h (BIIs (match valO h p with | some v => .fin v | none => valBI h inf)) := by
  unfold copyBI
  cases p with
  | none =>
    refine Tot.pure _ ⟨?_, rfl⟩
    rcases hinf with rfl | rfl <;> simp
  | some a =>
    refine Tot.bind_load _ ?_
    refine Tot.bind (Tot.alloc _) ?_
    rintro z h2 x2 ⟨rfl, s2, g2⟩
    refine Tot.pure _ ⟨?_, ?_⟩
    · simp only [VBI_fin]; omega
    · simp only [valBI, g2, valO, Option.map_some]

theorem fromIntRange_tot (h : Heap) (y : HIR) (vy : VR h y) :
    Tot (fromIntRange y) h (PairIs (BIP.fromIR (viewAt h y))) := by
  unfold fromIntRange
  refine Tot.bind (copyBI_tot h y.lo .negInf (Or.inl rfl)) ?_
  rintro lo h1 x1 ⟨vlo, elo⟩
  refine Tot.bind (copyBI_tot h1 y.hi .posInf (Or.inr rfl)) ?_
  rintro hi h2 x2 ⟨vhi, ehi⟩
  refine Tot.pure _ ⟨⟨vlo.ext x2, vhi⟩, ?_⟩
  simp only [valP, valBI_ext vlo x2, elo, ehi, valO_ext vy.2 x1, BIP.fromIR, viewAt_eq]
  congr 1

theorem zeroPair_tot (h : Heap) : Tot zeroPair h (PairIs ⟨.fin 0, .fin 0⟩) := by
  unfold zeroPair
  refine Tot.bind (Tot.alloc _) ?_
  rintro a h1 x1 ⟨rfl, s1, g1⟩
  refine Tot.bind (Tot.alloc _) ?_
  rintro b h2 x2 ⟨rfl, s2, g2⟩
  refine Tot.pure _ ⟨⟨?_, ?_⟩, ?_⟩
  · simp only [VBI_fin]; omega
  · simp only [VBI_fin]; omega
  · have : h2.get h.size = 0 := by rw [x2.get (by omega)]; exact g1
    simp only [valP, valBI, this, g2]

theorem combine_tot (h : Heap) (f : Int → Int → Int) (p q : Option Addr) :
    Tot (combine f p q) h (BIIs (.fin (f ((valO h p).getD 0) ((valO h q).getD 0)))) := by
  unfold combine
  refine Tot.bind_loadB _ ?_
  refine Tot.bind_loadB _ ?_
  refine Tot.bind (Tot.alloc _) ?_
  rintro z h2 x2 ⟨rfl, s2, g2⟩
  refine Tot.pure _ ⟨?_, ?_⟩
  · simp only [VBI_fin]; omega
  · simp only [valBI, g2]

theorem newBI_tot (h : Heap) (v : Int) : Tot (newBI v) h (BIIs (.fin v)) := by
  unfold newBI
  refine Tot.bind (Tot.alloc _) ?_
  rintro z h2 x2 ⟨rfl, s2, g2⟩
  refine Tot.pure _ ⟨?_, ?_⟩
  · simp only [VBI_fin]; omega
  · simp only [valBI, g2]

theorem stepLo_tot {h : Heap} {ret : HBIP} {b : HM HBI} {B : BI} (vr : VP h ret)
    (hb : Tot b h (BIIs B)) : Tot (stepLo ret b) h (PairIs ((valP h ret).lowerMin B)) := by
  unfold stepLo
  refine Tot.bind hb ?_
  rintro v h1 x1 ⟨vv, ev⟩
  have := lowerMin_tot (vr.ext x1) vv
  rw [valP_ext vr x1, ev] at this
  exact this

theorem stepHi_tot {h : Heap} {ret : HBIP} {b : HM HBI} {B : BI} (vr : VP h ret)
    (hb : Tot b h (BIIs B)) : Tot (stepHi ret b) h (PairIs ((valP h ret).raiseMax B)) := by
  unfold stepHi
  refine Tot.bind hb ?_
  rintro v h1 x1 ⟨vv, ev⟩
  have := raiseMax_tot (vr.ext x1) vv
  rw [valP_ext vr x1, ev] at this
  exact this

theorem choose_tot {h : Heap} (g : Bool) {alt c : HM HBI} {A C : BI} (ha : Tot alt h (BIIs A))
    (hc : Tot c h (BIIs C)) : Tot (choose g alt c) h (BIIs (if g then A else C)) := by
  unfold choose
  cases g
  · simpa using hc
  · simpa using ha

/-- `choose`, each branch needed only when it is taken -/
theorem choose_tot' {h : Heap} (g : Bool) {alt c : HM HBI} {A C : BI}
    (ha : g = true → Tot alt h (BIIs A)) (hc : g = false → Tot c h (BIIs C)) :
    Tot (choose g alt c) h (BIIs (if g then A else C)) := by
  unfold choose
  cases g
  · simpa using hc rfl
  · simpa using ha rfl

/-- `bigIntQuo` with a non-zero divisor does not panic -/
theorem combineQuo_tot (h : Heap) (p q : Option Addr) (hq : (valO h q).getD 0 ≠ 0) :
    Tot (combineQuo p q) h (BIIs (.fin (bigQuo ((valO h p).getD 0) ((valO h q).getD 0)))) := by
  unfold combineQuo
  refine Tot.bind_loadB _ ?_
  refine Tot.bind_loadB _ ?_
  refine Tot.ite (fun c => absurd c hq) (fun _ => ?_)
  refine Tot.bind (Tot.alloc _) ?_
  rintro z h2 x2 ⟨rfl, s2, g2⟩
  refine Tot.pure _ ⟨?_, ?_⟩
  · simp only [VBI_fin]; omega
  · simp only [valBI, g2]

/-- the bounds of a negative divisor part are non-zero -/
def NegDiv (Y : IR) : Prop := Y.hi.getD 0 ≠ 0 ∧ ∀ v, Y.lo = some v → v ≠ 0
/-- the bounds of a positive divisor part are non-zero -/
def PosDiv (Y : IR) : Prop := Y.lo.getD 0 ≠ 0 ∧ ∀ v, Y.hi = some v → v ≠ 0

theorem posInf_tot (h : Heap) : Tot (Pure.pure HBI.posInf : HM HBI) h (BIIs .posInf) :=
  Tot.pure _ ⟨by simp, rfl⟩

theorem negInf_tot (h : Heap) : Tot (Pure.pure HBI.negInf : HM HBI) h (BIIs .negInf) :=
  Tot.pure _ ⟨by simp, rfl⟩

/-- transport of a divisor fact along a heap extension -/
theorem divisor_ne_zero {h h1 : Heap} {q : Option Addr} (vq : VO h q) (e : Ext h h1)
    (hq : (valO h q).getD 0 ≠ 0) : (valO h1 q).getD 0 ≠ 0 := by
  rw [valO_ext vq e]; exact hq

theorem getD_ne_zero_of_forall {h : Heap} {q : Option Addr} (hne : q.isNone = false)
    (hall : ∀ v, valO h q = some v → v ≠ 0) : (valO h q).getD 0 ≠ 0 := by
  cases q with
  | none => simp at hne
  | some a => exact hall _ rfl

/-! ### the sign-definite blocks: same values as the blocks of the value model -/

section blocks
variable {h : Heap} {a b : HIR} {ret : HBIP} (va : VR h a) (vb : VR h b) (vr : VP h ret)
include va vb vr

theorem mulNN_tot (f : Int → Int → Int) :
    Tot (mulNN f a b ret) h
      (PairIs (Interval.mulNN f (viewAt h a) (viewAt h b) (valP h ret))) := by
  unfold mulNN
  refine Tot.bind (stepLo_tot vr (combine_tot h f _ _)) ?_
  rintro r1 h1 x1 ⟨v1, e1⟩
  refine Tot.mono (stepHi_tot v1 (choose_tot _ (posInf_tot h1) (combine_tot h1 f a.lo b.lo))) ?_
  rintro r h2 x2 ⟨v2, e2⟩
  refine ⟨v2, ?_⟩
  rw [e2, e1, valO_ext va.1 x1, valO_ext vb.1 x1]
  simp only [Interval.mulNN, viewAt_eq, valO]
  cases a.lo <;> cases b.lo <;> simp

theorem mulNP_tot (f : Int → Int → Int) :
    Tot (mulNP f a b ret) h
      (PairIs (Interval.mulNP f (viewAt h a) (viewAt h b) (valP h ret))) := by
  unfold mulNP
  refine Tot.bind (stepLo_tot vr (choose_tot _ (negInf_tot h) (combine_tot h f a.lo b.hi))) ?_
  rintro r1 h1 x1 ⟨v1, e1⟩
  refine Tot.mono (stepHi_tot v1 (combine_tot h1 f a.hi b.lo)) ?_
  rintro r h2 x2 ⟨v2, e2⟩
  refine ⟨v2, ?_⟩
  rw [e2, e1]
  simp only [valO_ext va.1 x1, valO_ext va.2 x1, valO_ext vb.1 x1, valO_ext vb.2 x1]
  simp only [Interval.mulNP, viewAt_eq, valO]
  cases a.lo <;> cases a.hi <;> cases b.lo <;> cases b.hi <;> simp

theorem mulPN_tot (f : Int → Int → Int) :
    Tot (mulPN f a b ret) h
      (PairIs (Interval.mulPN f (viewAt h a) (viewAt h b) (valP h ret))) := by
  unfold mulPN
  refine Tot.bind (stepLo_tot vr (choose_tot _ (negInf_tot h) (combine_tot h f a.hi b.lo))) ?_
  rintro r1 h1 x1 ⟨v1, e1⟩
  refine Tot.mono (stepHi_tot v1 (combine_tot h1 f a.lo b.hi)) ?_
  rintro r h2 x2 ⟨v2, e2⟩
  refine ⟨v2, ?_⟩
  rw [e2, e1]
  simp only [valO_ext va.1 x1, valO_ext va.2 x1, valO_ext vb.1 x1, valO_ext vb.2 x1]
  simp only [Interval.mulPN, viewAt_eq, valO]
  cases a.lo <;> cases a.hi <;> cases b.lo <;> cases b.hi <;> simp

theorem mulPP_tot (f : Int → Int → Int) :
    Tot (mulPP f a b ret) h
      (PairIs (Interval.mulPP f (viewAt h a) (viewAt h b) (valP h ret))) := by
  unfold mulPP
  refine Tot.bind (stepLo_tot vr (combine_tot h f a.lo b.lo)) ?_
  rintro r1 h1 x1 ⟨v1, e1⟩
  refine Tot.mono (stepHi_tot v1 (choose_tot _ (posInf_tot h1) (combine_tot h1 f a.hi b.hi))) ?_
  rintro r h2 x2 ⟨v2, e2⟩
  refine ⟨v2, ?_⟩
  rw [e2, e1]
  simp only [valO_ext va.1 x1, valO_ext va.2 x1, valO_ext vb.1 x1, valO_ext vb.2 x1]
  simp only [Interval.mulPP, viewAt_eq, valO]
  cases a.lo <;> cases a.hi <;> cases b.lo <;> cases b.hi <;> simp

theorem rshN_tot :
    Tot (rshN a b ret) h
      (PairIs (Interval.rshN (viewAt h a) (viewAt h b) (valP h ret))) := by
  unfold rshN
  refine Tot.bind (stepLo_tot vr (choose_tot _ (negInf_tot h) (combine_tot h bigRsh a.lo b.lo))) ?_
  rintro r1 h1 x1 ⟨v1, e1⟩
  refine Tot.mono (stepHi_tot v1 (choose_tot _ (newBI_tot h1 (-1)) (combine_tot h1 bigRsh a.hi b.hi))) ?_
  rintro r h2 x2 ⟨v2, e2⟩
  refine ⟨v2, ?_⟩
  rw [e2, e1]
  simp only [valO_ext va.1 x1, valO_ext va.2 x1, valO_ext vb.1 x1, valO_ext vb.2 x1]
  simp only [Interval.rshN, viewAt_eq, valO]
  cases a.lo <;> cases a.hi <;> cases b.lo <;> cases b.hi <;> simp

theorem rshP_tot :
    Tot (rshP a b ret) h
      (PairIs (Interval.rshP (viewAt h a) (viewAt h b) (valP h ret))) := by
  unfold rshP
  refine Tot.bind (stepLo_tot vr (choose_tot _ (newBI_tot h 0) (combine_tot h bigRsh a.lo b.hi))) ?_
  rintro r1 h1 x1 ⟨v1, e1⟩
  refine Tot.mono (stepHi_tot v1 (choose_tot _ (posInf_tot h1) (combine_tot h1 bigRsh a.hi b.lo))) ?_
  rintro r h2 x2 ⟨v2, e2⟩
  refine ⟨v2, ?_⟩
  rw [e2, e1]
  simp only [valO_ext va.1 x1, valO_ext va.2 x1, valO_ext vb.1 x1, valO_ext vb.2 x1]
  simp only [Interval.rshP, viewAt_eq, valO]
  cases a.lo <;> cases a.hi <;> cases b.lo <;> cases b.hi <;> simp

theorem quoNN_tot (nd : NegDiv (viewAt h b)) :
    Tot (quoNN a b ret) h
      (PairIs (Interval.quoNN (viewAt h a) (viewAt h b) (valP h ret))) := by
  unfold quoNN
  refine Tot.bind (stepHi_tot vr (choose_tot' _ (fun _ => posInf_tot h)
    (fun _ => combineQuo_tot h a.lo b.hi nd.1))) ?_
  rintro r1 h1 x1 ⟨v1, e1⟩
  refine Tot.mono (stepLo_tot v1 (choose_tot' _ (fun _ => newBI_tot h1 0)
    (fun hg => combineQuo_tot h1 a.hi b.lo (divisor_ne_zero vb.1 x1
      (getD_ne_zero_of_forall hg nd.2))))) ?_
  rintro r h2 x2 ⟨v2, e2⟩
  refine ⟨v2, ?_⟩
  rw [e2, e1]
  simp only [valO_ext va.1 x1, valO_ext va.2 x1, valO_ext vb.1 x1, valO_ext vb.2 x1]
  simp only [Interval.quoNN, viewAt_eq, valO]
  cases a.lo <;> cases a.hi <;> cases b.lo <;> cases b.hi <;> simp

theorem quoNP_tot (pd : PosDiv (viewAt h b)) :
    Tot (quoNP a b ret) h
      (PairIs (Interval.quoNP (viewAt h a) (viewAt h b) (valP h ret))) := by
  unfold quoNP
  refine Tot.bind (stepLo_tot vr (choose_tot' _ (fun _ => negInf_tot h)
    (fun _ => combineQuo_tot h a.lo b.lo pd.1))) ?_
  rintro r1 h1 x1 ⟨v1, e1⟩
  refine Tot.mono (stepHi_tot v1 (choose_tot' _ (fun _ => newBI_tot h1 0)
    (fun hg => combineQuo_tot h1 a.hi b.hi (divisor_ne_zero vb.2 x1
      (getD_ne_zero_of_forall hg pd.2))))) ?_
  rintro r h2 x2 ⟨v2, e2⟩
  refine ⟨v2, ?_⟩
  rw [e2, e1]
  simp only [valO_ext va.1 x1, valO_ext va.2 x1, valO_ext vb.1 x1, valO_ext vb.2 x1]
  simp only [Interval.quoNP, viewAt_eq, valO]
  cases a.lo <;> cases a.hi <;> cases b.lo <;> cases b.hi <;> simp

theorem quoPN_tot (nd : NegDiv (viewAt h b)) :
    Tot (quoPN a b ret) h
      (PairIs (Interval.quoPN (viewAt h a) (viewAt h b) (valP h ret))) := by
  unfold quoPN
  refine Tot.bind (stepLo_tot vr (choose_tot' _ (fun _ => negInf_tot h)
    (fun _ => combineQuo_tot h a.hi b.hi nd.1))) ?_
  rintro r1 h1 x1 ⟨v1, e1⟩
  refine Tot.mono (stepHi_tot v1 (choose_tot' _ (fun _ => newBI_tot h1 0)
    (fun hg => combineQuo_tot h1 a.lo b.lo (divisor_ne_zero vb.1 x1
      (getD_ne_zero_of_forall hg nd.2))))) ?_
  rintro r h2 x2 ⟨v2, e2⟩
  refine ⟨v2, ?_⟩
  rw [e2, e1]
  simp only [valO_ext va.1 x1, valO_ext va.2 x1, valO_ext vb.1 x1, valO_ext vb.2 x1]
  simp only [Interval.quoPN, viewAt_eq, valO]
  cases a.lo <;> cases a.hi <;> cases b.lo <;> cases b.hi <;> simp

theorem quoPP_tot (pd : PosDiv (viewAt h b)) :
    Tot (quoPP a b ret) h
      (PairIs (Interval.quoPP (viewAt h a) (viewAt h b) (valP h ret))) := by
  unfold quoPP
  refine Tot.bind (stepHi_tot vr (choose_tot' _ (fun _ => posInf_tot h)
    (fun _ => combineQuo_tot h a.hi b.lo pd.1))) ?_
  rintro r1 h1 x1 ⟨v1, e1⟩
  refine Tot.mono (stepLo_tot v1 (choose_tot' _ (fun _ => newBI_tot h1 0)
    (fun hg => combineQuo_tot h1 a.lo b.hi (divisor_ne_zero vb.2 x1
      (getD_ne_zero_of_forall hg pd.2))))) ?_
  rintro r h2 x2 ⟨v2, e2⟩
  refine ⟨v2, ?_⟩
  rw [e2, e1]
  simp only [valO_ext va.1 x1, valO_ext va.2 x1, valO_ext vb.1 x1, valO_ext vb.2 x1]
  simp only [Interval.quoPP, viewAt_eq, valO]
  cases a.lo <;> cases a.hi <;> cases b.lo <;> cases b.hi <;> simp

end blocks

/-! ### `split3Ways` -/

/-- what `split3Ways` returns: valid pointer ranges whose values, with the three flags, are the
value model's `split3` -/
def Split3Is (v : IR × IR × Bool × Bool × Bool) (r : HIR × HIR × Bool × Bool × Bool)
    (h' : Heap) : Prop :=
  VR h' r.1 ∧ VR h' r.2.1 ∧
    (viewAt h' r.1, viewAt h' r.2.1, r.2.2.1, r.2.2.2.1, r.2.2.2.2) = v

/-- the tests and the two new bounds of `split3`, named (the value model has them inline) -/
def posLoC (X : IR) : Bool := match X.lo with | some a => decide (a > 0) | none => false
def negHiC (X : IR) : Bool := match X.hi with | some b => decide (b < 0) | none => false
def negHiV (X : IR) : Int := match X.hi with | some b => if b < -1 then b else -1 | none => -1
def posLoV (X : IR) : Int := match X.lo with | some a => if a > 1 then a else 1 | none => 1

theorem split3_unfold (X : IR) : X.split3 =
    if X.empty then (mkEmpty, mkEmpty, false, false, false)
    else if posLoC X then (mkEmpty, X, false, false, true)
    else if negHiC X then (X, mkEmpty, true, false, false)
    else ((⟨X.lo, some (negHiV X)⟩ : IR), (⟨some (posLoV X), X.hi⟩ : IR),
      !(IR.empty ⟨X.lo, some (negHiV X)⟩), X.containsZero, !(IR.empty ⟨some (posLoV X), X.hi⟩)) :=
  rfl

theorem pickBelow_valid {h h2 : Heap} (e : Ext h h2) {p : Option Addr} (vp : VO h p) (lim : Int)
    {m : Addr} (hm : m < h2.size) : pickBelow p (valO h p) lim m < h2.size := by
  cases p with
  | none => exact hm
  | some q =>
    have := vp q rfl
    have := e.1
    simp only [pickBelow, valO, Option.map_some]
    split <;> omega

theorem pickAbove_valid {h h2 : Heap} (e : Ext h h2) {p : Option Addr} (vp : VO h p) (lim : Int)
    {m : Addr} (hm : m < h2.size) : pickAbove p (valO h p) lim m < h2.size := by
  cases p with
  | none => exact hm
  | some q =>
    have := vp q rfl
    have := e.1
    simp only [pickAbove, valO, Option.map_some]
    split <;> omega

theorem get_pickBelow {h h2 : Heap} (e : Ext h h2) {p : Option Addr} (vp : VO h p) {lim : Int}
    {m : Addr} (hm : h2.get m = lim) :
    h2.get (pickBelow p (valO h p) lim m) =
      (match valO h p with | some b => if b < lim then b else lim | none => lim) := by
  cases p with
  | none => exact hm
  | some q =>
    simp only [pickBelow, valO, Option.map_some]
    split
    · exact e.get (vp q rfl)
    · exact hm

theorem get_pickAbove {h h2 : Heap} (e : Ext h h2) {p : Option Addr} (vp : VO h p) {lim : Int}
    {m : Addr} (hm : h2.get m = lim) :
    h2.get (pickAbove p (valO h p) lim m) =
      (match valO h p with | some a => if a > lim then a else lim | none => lim) := by
  cases p with
  | none => exact hm
  | some q =>
    simp only [pickAbove, valO, Option.map_some]
    split
    · exact e.get (vp q rfl)
    · exact hm

theorem split3Ways_tot {h : Heap} (g : GlobalsOK h) {x : HIR} (vx : VR h x) :
    Tot (split3Ways x) h (Split3Is (viewAt h x).split3) := by
  obtain ⟨vs, es⟩ := g.shared
  unfold split3Ways
  tot_view
  rw [split3_unfold]
  refine Tot.ite (fun c1 => ?_) (fun c1 => ?_)
  · refine Tot.pure _ ⟨vs, vs, ?_⟩
    simp only [c1, if_true, es]
  refine Tot.ite (fun c2 => ?_) (fun c2 => ?_)
  · have c2' : posLoC (viewAt h x) = true := c2
    refine Tot.pure _ ⟨vs, vx, ?_⟩
    simp only [c1, c2', if_true, if_false, es, Bool.false_eq_true]
  refine Tot.ite (fun c3 => ?_) (fun c3 => ?_)
  · have c2' : ¬ posLoC (viewAt h x) = true := c2
    have c3' : negHiC (viewAt h x) = true := c3
    refine Tot.pure _ ⟨vx, vs, ?_⟩
    simp only [c1, c2', c3', if_true, if_false, es, Bool.false_eq_true]
  have c2' : ¬ posLoC (viewAt h x) = true := c2
  have c3' : ¬ negHiC (viewAt h x) = true := c3
  simp only [c1, c2', c3', if_false, Bool.false_eq_true]
  refine Tot.bind (Tot.alloc _) ?_
  rintro m1 h1 x1 ⟨rfl, s1, g1⟩
  refine Tot.bind (Tot.alloc _) ?_
  rintro p1 h2 x2 ⟨rfl, s2, g2⟩
  tot_view
  tot_view
  have gm1 : h2.get h.size = -1 := by rw [x2.get (by omega)]; exact g1
  have x12 := x1.trans x2
  obtain ⟨vl, vh⟩ := vx
  have eN : viewAt h2 ⟨x.lo, some (pickBelow x.hi (viewAt h x).hi (-1) h.size)⟩
      = ⟨(viewAt h x).lo, some (negHiV (viewAt h x))⟩ := by
    simp only [viewAt_eq, valO_ext vl x12]
    congr 1
    simp only [valO, Option.map_some]
    exact congrArg some (get_pickBelow x12 vh gm1)
  have eP : viewAt h2 ⟨some (pickAbove x.lo (viewAt h x).lo 1 h1.size), x.hi⟩
      = ⟨some (posLoV (viewAt h x)), (viewAt h x).hi⟩ := by
    simp only [viewAt_eq, valO_ext vh x12]
    congr 1
    simp only [valO, Option.map_some]
    exact congrArg some (get_pickAbove x12 vl g2)
  refine Tot.pure _ ⟨⟨vl.ext x12, ?_⟩, ⟨?_, vh.ext x12⟩, ?_⟩
  · simp only [VO_some]
    exact pickBelow_valid x12 vh _ (by omega)
  · simp only [VO_some]
    exact pickAbove_valid x12 vl _ (by omega)
  · simp only [eN, eP]

/-! ### the cascades -/

theorem optBlock_tot {h : Heap} (c : Bool) {blk : HBIP → HM HBIP} {B : BIP → BIP} {ret : HBIP}
    (vr : VP h ret) (hb : c = true → Tot (blk ret) h (PairIs (B (valP h ret)))) :
    Tot (optBlock c blk ret) h (PairIs (if c then B (valP h ret) else valP h ret)) := by
  unfold optBlock
  cases c
  · simpa using Tot.pure (h := h) ret (P := PairIs (valP h ret)) ⟨vr, rfl⟩
  · simpa using hb rfl

theorem twoBlocks_tot {h : Heap} (c c1 c2 : Bool) {blk1 blk2 : HBIP → HM HBIP}
    {B1 B2 : BIP → BIP} {ret : HBIP} (vr : VP h ret)
    (h1 : c1 = true → ∀ h' r, Ext h h' → VP h' r → Tot (blk1 r) h' (PairIs (B1 (valP h' r))))
    (h2 : c2 = true → ∀ h' r, Ext h h' → VP h' r → Tot (blk2 r) h' (PairIs (B2 (valP h' r)))) :
    Tot (optBlock c (fun ret => do
        let ret ← optBlock c1 blk1 ret
        optBlock c2 blk2 ret) ret) h
      (PairIs (twoBlocks c c1 c2 B1 B2 (valP h ret))) := by
  refine Tot.mono (optBlock_tot c (B := fun p => twoBlocks true c1 c2 B1 B2 p) vr (fun _ => ?_)) ?_
  · refine Tot.bind (optBlock_tot c1 vr (fun hc => h1 hc h ret (Ext.refl h) vr)) ?_
    rintro r1 hA xA ⟨vA, eA⟩
    refine Tot.mono (optBlock_tot c2 vA (fun hc => h2 hc hA r1 xA vA)) ?_
    rintro r hB xB ⟨vB, eB⟩
    refine ⟨vB, ?_⟩
    rw [eB, eA]
    simp [twoBlocks]
  · rintro r hB xB ⟨vB, eB⟩
    refine ⟨vB, ?_⟩
    rw [eB]
    cases c <;> simp [twoBlocks]

theorem mulInit_tot {h : Heap} {x : HIR} (vx : VR h x) (shift hzx hzy : Bool) :
    Tot (mulInit x shift hzx hzy) h (PairIs (Interval.mulInit (viewAt h x) shift hzx hzy)) := by
  unfold mulInit Interval.mulInit
  refine Tot.ite (fun c1 => ?_) (fun c1 => ?_)
  · simp only [c1, if_true]; exact fromIntRange_tot h x vx
  refine Tot.ite (fun c2 => ?_) (fun c2 => ?_)
  · simp only [c1, c2, if_true, if_false]; exact zeroPair_tot h
  · simp only [c1, c2, if_false]
    exact Tot.pure _ ⟨⟨by simp [HBIP.new], by simp [HBIP.new]⟩, rfl⟩

theorem zeroInit_tot (h : Heap) (hzx : Bool) :
    Tot (zeroInit hzx) h (PairIs (if hzx then ⟨.fin 0, .fin 0⟩ else BIP.new)) := by
  unfold zeroInit
  refine Tot.ite (fun c1 => ?_) (fun c1 => ?_)
  · simp only [c1, if_true]; exact zeroPair_tot h
  · simp only [c1, if_false]
    exact Tot.pure _ ⟨⟨by simp [HBIP.new], by simp [HBIP.new]⟩, rfl⟩

/-! ### `mulLsh`, `TryLsh`, `TryQuo`, `TryRsh` -/

theorem mulLsh_tot {h : Heap} (g : GlobalsOK h) {x y : HIR} (vx : VR h x) (vy : VR h y)
    (shift : Bool) :
    Tot (mulLsh x y shift) h (RangeIs (Interval.mulLsh (viewAt h x) (viewAt h y) shift)) := by
  unfold mulLsh
  tot_view
  tot_view
  rw [mulLsh_eq]
  refine Tot.ite (fun c1 => ?_) (fun c1 => ?_)
  · simp only [c1, if_true]; exact makeEmptyRange_tot h
  refine Tot.ite (fun c2 => ?_) (fun c2 => ?_)
  · simp only [c1, c2, if_true, if_false]; exact zeroRange_tot h
  simp only [c1, c2, if_false]
  generalize (if shift = true then bigLsh else fun x1 x2 => x1 * x2) = f
  refine Tot.bind (split3Ways_tot g vx) ?_
  rintro ⟨negX, posX, hnx, hzx, hpx⟩ h1 x1 ⟨vnx, vpx, esx⟩
  refine Tot.bind (split3Ways_tot (g.ext x1) (vy.ext x1)) ?_
  rintro ⟨negY, posY, hny, hzy, hpy⟩ h2 x2 ⟨vny, vpy, esy⟩
  dsimp only at vnx vpx esx vny vpy esy
  rw [viewAt_ext vy x1] at esy
  rw [← esx, ← esy]
  have x12 := x1.trans x2
  have vnx2 := vnx.ext x2
  have vpx2 := vpx.ext x2
  have enx := viewAt_ext vnx x2
  have epx := viewAt_ext vpx x2
  simp only [← enx, ← epx]
  have ini := mulInit_tot (vx.ext x12) shift hzx hzy
  rw [viewAt_ext vx x12] at ini
  refine Tot.bind ini ?_
  rintro r0 h3 x3 ⟨v0, e0⟩
  refine Tot.bind (twoBlocks_tot hnx hny hpy v0
    (B1 := Interval.mulNN f (viewAt h2 negX) (viewAt h2 negY))
    (B2 := Interval.mulNP f (viewAt h2 negX) (viewAt h2 posY)) ?_ ?_) ?_
  · intro hc h' r e vr
    have e' := x3.trans e
    have := mulNN_tot (vnx2.ext e') (vny.ext e') vr f
    rw [viewAt_ext vnx2 e', viewAt_ext vny e'] at this
    exact this
  · intro hc h' r e vr
    have e' := x3.trans e
    have := mulNP_tot (vnx2.ext e') (vpy.ext e') vr f
    rw [viewAt_ext vnx2 e', viewAt_ext vpy e'] at this
    exact this
  rintro r1 h4 x4 ⟨v1, e1⟩
  refine Tot.bind (twoBlocks_tot hpx hny hpy v1
    (B1 := Interval.mulPN f (viewAt h2 posX) (viewAt h2 negY))
    (B2 := Interval.mulPP f (viewAt h2 posX) (viewAt h2 posY)) ?_ ?_) ?_
  · intro hc h' r e vr
    have e' := (x3.trans x4).trans e
    have := mulPN_tot (vpx2.ext e') (vny.ext e') vr f
    rw [viewAt_ext vpx2 e', viewAt_ext vny e'] at this
    exact this
  · intro hc h' r e vr
    have e' := (x3.trans x4).trans e
    have := mulPP_tot (vpx2.ext e') (vpy.ext e') vr f
    rw [viewAt_ext vpx2 e', viewAt_ext vpy e'] at this
    exact this
  rintro r2 h5 x5 ⟨v2, e2⟩
  have := toIntRange_tot v2
  rw [e2, e1, e0] at this
  exact this

/-- a `(z, ok)` result: valid pointers, and the values (or the failure) of the value model -/
def OkIs (v : Option IR) (r : Option HIR) (h' : Heap) : Prop :=
  (∀ z, r = some z → VR h' z) ∧ r.map (viewAt h') = v

theorem okRange_tot {h : Heap} {m : HM HIR} {v : IR} (hm : Tot m h (RangeIs v)) :
    Tot (okRange m) h (OkIs (some v)) := by
  unfold okRange
  refine Tot.bind hm ?_
  rintro z h1 x1 ⟨vz, ez⟩
  refine Tot.pure _ ⟨?_, ?_⟩
  · intro z' e; cases e; exact vz
  · simp only [Option.map_some, ez]

theorem fail_tot (h : Heap) : Tot (Pure.pure none : HM (Option HIR)) h (OkIs none) :=
  Tot.pure _ ⟨fun _ e => (by cases e), rfl⟩

theorem tryLsh_tot {h : Heap} (g : GlobalsOK h) {x y : HIR} (vx : VR h x) (vy : VR h y) :
    Tot (tryLsh x y) h (OkIs (Interval.tryLsh (viewAt h x) (viewAt h y))) := by
  unfold tryLsh Interval.tryLsh
  tot_view
  tot_view
  refine Tot.ite (fun c1 => ?_) (fun c1 => ?_)
  · simp only [c1, if_true]; exact fail_tot h
  · simp only [c1, if_false]; exact okRange_tot (mulLsh_tot g vx vy true)

theorem tryQuo_tot {h : Heap} (g : GlobalsOK h) {x y : HIR} (vx : VR h x) (vy : VR h y) :
    Tot (tryQuo x y) h (OkIs (Interval.tryQuo (viewAt h x) (viewAt h y))) := by
  unfold tryQuo
  tot_view
  tot_view
  rw [tryQuo_eq]
  refine Tot.ite (fun c1 => ?_) (fun c1 => ?_)
  · simp only [c1, if_true]; exact okRange_tot (makeEmptyRange_tot h)
  refine Tot.ite (fun c2 => ?_) (fun c2 => ?_)
  · simp only [c1, c2, if_true, if_false]; exact fail_tot h
  refine Tot.ite (fun c3 => ?_) (fun c3 => ?_)
  · simp only [c1, c2, c3, if_true, if_false]; exact okRange_tot (zeroRange_tot h)
  simp only [c1, c2, c3, if_false]
  refine Tot.bind (split3Ways_tot g vx) ?_
  rintro ⟨negX, posX, hnx, hzx, hpx⟩ h1 x1 ⟨vnx, vpx, esx⟩
  refine Tot.bind (split3Ways_tot (g.ext x1) (vy.ext x1)) ?_
  rintro ⟨negY, posY, hny, hzy, hpy⟩ h2 x2 ⟨vny, vpy, esy⟩
  dsimp only at vnx vpx esx vny vpy esy
  rw [viewAt_ext vy x1] at esy
  rw [← esx, ← esy]
  have vnx2 := vnx.ext x2
  have vpx2 := vpx.ext x2
  have enx := viewAt_ext vnx x2
  have epx := viewAt_ext vpx x2
  simp only [← enx, ← epx]
  have ey : (viewAt h y).empty = false := by
    cases hxe : (viewAt h x).empty <;> cases hye : (viewAt h y).empty <;> simp_all
  have SY := split3_spec (viewAt h y) ey _ _ _ _ _ esy.symm
  have negdiv : hny = true → NegDiv (viewAt h2 negY) := fun hc => by
    obtain ⟨q1, k, hk, kneg, mk⟩ := SY.neg_shape hc
    refine ⟨by rw [hk]; simp only [Option.getD_some]; omega, fun v hv => ?_⟩
    rw [q1] at hv
    have := mk.1
    rw [hv] at this
    simp only [loLe_some] at this
    omega
  have posdiv : hpy = true → PosDiv (viewAt h2 posY) := fun hc => by
    obtain ⟨q1, l, hl, lpos, ml⟩ := SY.pos_shape hc
    refine ⟨by rw [hl]; simp only [Option.getD_some]; omega, fun v hv => ?_⟩
    rw [q1] at hv
    have := ml.2
    rw [hv] at this
    simp only [leHi_some] at this
    omega
  refine Tot.bind (zeroInit_tot h2 hzx) ?_
  rintro r0 h3 x3 ⟨v0, e0⟩
  refine Tot.bind (twoBlocks_tot hnx hny hpy v0
    (B1 := Interval.quoNN (viewAt h2 negX) (viewAt h2 negY))
    (B2 := Interval.quoNP (viewAt h2 negX) (viewAt h2 posY)) ?_ ?_) ?_
  · intro hc h' r e vr
    have e' := x3.trans e
    have := quoNN_tot (vnx2.ext e') (vny.ext e') vr
    rw [viewAt_ext vnx2 e', viewAt_ext vny e'] at this
    exact this (negdiv hc)
  · intro hc h' r e vr
    have e' := x3.trans e
    have := quoNP_tot (vnx2.ext e') (vpy.ext e') vr
    rw [viewAt_ext vnx2 e', viewAt_ext vpy e'] at this
    exact this (posdiv hc)
  rintro r1 h4 x4 ⟨v1, e1⟩
  refine Tot.bind (twoBlocks_tot hpx hny hpy v1
    (B1 := Interval.quoPN (viewAt h2 posX) (viewAt h2 negY))
    (B2 := Interval.quoPP (viewAt h2 posX) (viewAt h2 posY)) ?_ ?_) ?_
  · intro hc h' r e vr
    have e' := (x3.trans x4).trans e
    have := quoPN_tot (vpx2.ext e') (vny.ext e') vr
    rw [viewAt_ext vpx2 e', viewAt_ext vny e'] at this
    exact this (negdiv hc)
  · intro hc h' r e vr
    have e' := (x3.trans x4).trans e
    have := quoPP_tot (vpx2.ext e') (vpy.ext e') vr
    rw [viewAt_ext vpx2 e', viewAt_ext vpy e'] at this
    exact this (posdiv hc)
  rintro r2 h5 x5 ⟨v2, e2⟩
  have := okRange_tot (toIntRange_tot v2)
  rw [e2, e1, e0] at this
  exact this

theorem tryRsh_tot {h : Heap} (g : GlobalsOK h) {x y : HIR} (vx : VR h x) (vy : VR h y) :
    Tot (tryRsh x y) h (OkIs (Interval.tryRsh (viewAt h x) (viewAt h y))) := by
  unfold tryRsh
  tot_view
  tot_view
  rw [tryRsh_eq]
  refine Tot.ite (fun c1 => ?_) (fun c1 => ?_)
  · simp only [c1, if_true]; exact okRange_tot (makeEmptyRange_tot h)
  refine Tot.ite (fun c2 => ?_) (fun c2 => ?_)
  · simp only [c1, c2, if_true, if_false]; exact fail_tot h
  refine Tot.ite (fun c3 => ?_) (fun c3 => ?_)
  · simp only [c1, c2, c3, if_true, if_false]; exact okRange_tot (zeroRange_tot h)
  simp only [c1, c2, c3, if_false]
  refine Tot.bind (split3Ways_tot g vx) ?_
  rintro ⟨negX, posX, hnx, hzx, hpx⟩ h1 x1 ⟨vnx, vpx, esx⟩
  dsimp only at vnx vpx esx
  rw [← esx]
  dsimp only
  refine Tot.bind (zeroInit_tot h1 hzx) ?_
  rintro r0 h3 x3 ⟨v0, e0⟩
  have e13 := x1.trans x3
  have hN := optBlock_tot hnx (B := Interval.rshN (viewAt h1 negX) (viewAt h y)) v0 (fun _ => by
    have := rshN_tot (vnx.ext x3) (vy.ext e13) v0
    rw [viewAt_ext vnx x3, viewAt_ext vy e13] at this
    exact this)
  refine Tot.bind hN ?_
  rintro r1 h4 x4 ⟨v1, e1⟩
  have e34 := x3.trans x4
  have e14 := x1.trans e34
  have hP := optBlock_tot hpx (B := Interval.rshP (viewAt h1 posX) (viewAt h y)) v1 (fun _ => by
    have := rshP_tot (vpx.ext e34) (vy.ext e14) v1
    rw [viewAt_ext vpx e34, viewAt_ext vy e14] at this
    exact this)
  refine Tot.bind hP ?_
  rintro r2 h5 x5 ⟨v2, e2⟩
  have := okRange_tot (toIntRange_tot v2)
  rw [e2, e1, e0] at this
  exact this

/-! ### `setup` produces heaps that satisfy the hypotheses (for all operand values) -/

theorem globalsHeap_ok : GlobalsOK globalsHeap := by
  unfold GlobalsOK
  decide

theorem put_spec (h : Heap) (v : Option Int) :
    Ext h (put h v).2 ∧ VO (put h v).2 (put h v).1 ∧ valO (put h v).2 (put h v).1 = v := by
  cases v with
  | none => exact ⟨Ext.refl h, by simp [put], rfl⟩
  | some v =>
    refine ⟨⟨by simp [put], fun i hi => ?_⟩, ?_, ?_⟩
    · have : i ≠ h.size := Nat.ne_of_lt hi
      simp [put, Array.getElem?_push, this]
    · simp [put]
    · simp [put, valO, Heap.get]

/-- for ALL operand values `X`, `Y`: the heap built by `setup` holds the package-level objects,
the operand pointers are valid, and the values behind them are `X` and `Y` -/
theorem setup_spec (X Y : IR) :
    GlobalsOK (setup X Y).2.2 ∧ VR (setup X Y).2.2 (setup X Y).1 ∧
    VR (setup X Y).2.2 (setup X Y).2.1 ∧
    viewAt (setup X Y).2.2 (setup X Y).1 = X ∧ viewAt (setup X Y).2.2 (setup X Y).2.1 = Y := by
  obtain ⟨ea, va, ua⟩ := put_spec globalsHeap X.lo
  obtain ⟨eb, vb, ub⟩ := put_spec (put globalsHeap X.lo).2 X.hi
  obtain ⟨ec, vc, uc⟩ := put_spec (put (put globalsHeap X.lo).2 X.hi).2 Y.lo
  obtain ⟨ed, vd, ud⟩ := put_spec (put (put (put globalsHeap X.lo).2 X.hi).2 Y.lo).2 Y.hi
  have ecd := ec.trans ed
  have ebd := eb.trans ecd
  refine ⟨globalsHeap_ok.ext (ea.trans ebd), ⟨va.ext ebd, vb.ext ecd⟩, ⟨vc.ext ed, vd⟩, ?_, ?_⟩
  · show IR.mk _ _ = X
    obtain ⟨xl, xh⟩ := X
    congr 1
    · exact (valO_ext va ebd).trans ua
    · exact (valO_ext vb ecd).trans ub
  · show IR.mk _ _ = Y
    obtain ⟨yl, yh⟩ := Y
    congr 1
    exact (valO_ext vc ed).trans uc

end WuffsVerif.IntervalHeap
