/-
C06: the heap / identity model (`Model/IntervalHeap.lean`) REFINES the value model
(`Model/Interval.lean`) for the eight operators that never write to an existing object
(add, sub, mul, quo, lsh, rsh, unite, intersect): run on any heap in which the operand
pointers are valid and the package-level objects hold their values, the operator terminates
without panic, keeps every existing cell, and the values found behind the result pointers are
exactly what the value model computes from the values behind the operand pointers.
So every theorem of Props/C06.lean (soundness, exact failure, tightness) is also a theorem about
what the pointer-level code returns.  (And / Or: the same agreement is checked by the driver on
every harness line, not proved.)
-/
import WuffsVerif.Proof.IntervalOps
import WuffsVerif.Proof.IntervalHeap

namespace WuffsVerif.IntervalHeap
open WuffsVerif.Interval

/-- `h'` has every cell of `h`, unchanged -/
def Ext (h h' : Heap) : Prop := h.size ≤ h'.size ∧ ∀ i, i < h.size → h'[i]? = h[i]?

theorem Ext.refl (h : Heap) : Ext h h := ⟨Nat.le_refl _, fun _ _ => rfl⟩

theorem Ext.trans {h1 h2 h3 : Heap} (a : Ext h1 h2) (b : Ext h2 h3) : Ext h1 h3 :=
  ⟨Nat.le_trans a.1 b.1, fun i hi => (b.2 i (Nat.lt_of_lt_of_le hi a.1)).trans (a.2 i hi)⟩

theorem Ext.get {h h' : Heap} (e : Ext h h') {a : Addr} (ha : a < h.size) : h'.get a = h.get a := by
  simp only [Heap.get, e.2 a ha]

/-- total correctness on a store-free path: the computation returns, the heap only grew, and
the post-condition holds -/
def Tot {α : Type} (m : HM α) (h : Heap) (P : α → Heap → Prop) : Prop :=
  ∃ a h', m h = some (a, h') ∧ Ext h h' ∧ P a h'

section rules
variable {α β : Type} {h : Heap}

theorem Tot.pure {P : α → Heap → Prop} (a : α) (hp : P a h) : Tot (pure a : HM α) h P :=
  ⟨a, h, rfl, Ext.refl h, hp⟩

theorem Tot.bind {m : HM α} {f : α → HM β} {P : α → Heap → Prop} {Q : β → Heap → Prop}
    (hm : Tot m h P) (hf : ∀ a h1, Ext h h1 → P a h1 → Tot (f a) h1 Q) : Tot (m >>= f) h Q := by
  obtain ⟨a, h1, e1, x1, p1⟩ := hm
  obtain ⟨b, h2, e2, x2, p2⟩ := hf a h1 x1 p1
  refine ⟨b, h2, ?_, x1.trans x2, p2⟩
  simp only [Bind.bind, StateT.bind, e1, Option.bind_some, e2]

theorem Tot.mono {m : HM α} {P Q : α → Heap → Prop} (hm : Tot m h P)
    (hpq : ∀ a h', Ext h h' → P a h' → Q a h') : Tot m h Q := by
  obtain ⟨a, h1, e1, x1, p1⟩ := hm
  exact ⟨a, h1, e1, x1, hpq a h1 x1 p1⟩

theorem Tot.ite {c : Prop} [Decidable c] {a b : HM α} {P : α → Heap → Prop}
    (ha : c → Tot a h P) (hb : ¬ c → Tot b h P) : Tot (if c then a else b) h P := by
  split
  · exact ha ‹_›
  · exact hb ‹_›

theorem Tot.alloc (v : Int) :
    Tot (alloc v) h (fun a h' => a = h.size ∧ h'.size = h.size + 1 ∧ h'.get a = v) := by
  refine ⟨h.size, h.push v, rfl, ⟨by simp, fun i hi => ?_⟩, rfl, by simp, ?_⟩
  · have : i ≠ h.size := Nat.ne_of_lt hi
    simp [Array.getElem?_push, this]
  · simp [Heap.get]

theorem Tot.load (a : Addr) : Tot (load a) h (fun v h' => h' = h ∧ v = h.get a) :=
  ⟨h.get a, h, rfl, Ext.refl h, rfl, rfl⟩

end rules

/-! ### validity of pointers and the values behind them -/

def VO (h : Heap) (p : Option Addr) : Prop := ∀ a, p = some a → a < h.size
def VR (h : Heap) (x : HIR) : Prop := VO h x.lo ∧ VO h x.hi

@[simp] theorem VO_none (h : Heap) : VO h none := fun _ e => by cases e
@[simp] theorem VO_some (h : Heap) (a : Addr) : VO h (some a) ↔ a < h.size :=
  ⟨fun v => v a rfl, fun v _ e => by cases e; exact v⟩

theorem VO.ext {h h' : Heap} {p : Option Addr} (v : VO h p) (e : Ext h h') : VO h' p :=
  fun a ha => Nat.lt_of_lt_of_le (v a ha) e.1

theorem VR.ext {h h' : Heap} {x : HIR} (v : VR h x) (e : Ext h h') : VR h' x :=
  ⟨v.1.ext e, v.2.ext e⟩

/-- the value behind a possibly-nil pointer -/
def valO (h : Heap) (p : Option Addr) : Option Int := p.map h.get

theorem valO_ext {h h' : Heap} {p : Option Addr} (v : VO h p) (e : Ext h h') :
    valO h' p = valO h p := by
  cases p with
  | none => rfl
  | some a => simp only [valO, Option.map_some, e.get (v a rfl)]

theorem viewAt_eq (h : Heap) (x : HIR) : viewAt h x = ⟨valO h x.lo, valO h x.hi⟩ := rfl

theorem viewAt_ext {h h' : Heap} {x : HIR} (v : VR h x) (e : Ext h h') :
    viewAt h' x = viewAt h x := by
  simp only [viewAt_eq, valO_ext v.1 e, valO_ext v.2 e]

/-- the package-level objects hold their values -/
def GlobalsOK (h : Heap) : Prop :=
  nGlobals ≤ h.size ∧ h.get aOne = 1 ∧ h.get aMinusOne = -1

theorem GlobalsOK.ext {h h' : Heap} (g : GlobalsOK h) (e : Ext h h') : GlobalsOK h' := by
  obtain ⟨g1, g2, g3⟩ := g
  have h0 : aOne < h.size := by simp only [aOne, nGlobals] at *; omega
  have h1 : aMinusOne < h.size := by simp only [aMinusOne, nGlobals] at *; omega
  exact ⟨Nat.le_trans g1 e.1, by rw [e.get h0]; exact g2, by rw [e.get h1]; exact g3⟩

theorem GlobalsOK.shared {h : Heap} (g : GlobalsOK h) :
    VR h sharedEmpty ∧ viewAt h sharedEmpty = mkEmpty := by
  obtain ⟨g1, g2, g3⟩ := g
  refine ⟨⟨?_, ?_⟩, ?_⟩
  · simp only [sharedEmpty, VO_some, aOne, nGlobals] at *; omega
  · simp only [sharedEmpty, VO_some, aMinusOne, nGlobals] at *; omega
  · simp only [viewAt, sharedEmpty, Option.map_some, g2, g3, mkEmpty]

/-! ### reading: a read leaves the heap alone and returns the value that is there -/

theorem Tot.bind_load {β : Type} {h : Heap} (a : Addr) {f : Int → HM β} {Q : β → Heap → Prop}
    (hf : Tot (f (h.get a)) h Q) : Tot (IntervalHeap.load a >>= f) h Q := by
  obtain ⟨b, h2, e2, x2, p2⟩ := hf
  exact ⟨b, h2, by simp only [Bind.bind, StateT.bind, IntervalHeap.load, Option.bind_some, e2], x2, p2⟩

theorem loadB_run (h : Heap) (p : Option Addr) : loadB p h = some (valO h p, h) := by
  cases p <;> rfl

theorem Tot.bind_loadB {β : Type} {h : Heap} (p : Option Addr) {f : Option Int → HM β}
    {Q : β → Heap → Prop} (hf : Tot (f (valO h p)) h Q) : Tot (loadB p >>= f) h Q := by
  obtain ⟨b, h2, e2, x2, p2⟩ := hf
  exact ⟨b, h2, by simp only [Bind.bind, StateT.bind, loadB_run, Option.bind_some, e2], x2, p2⟩

theorem view_run (h : Heap) (x : HIR) : view x h = some (viewAt h x, h) := by
  simp only [view, Bind.bind, StateT.bind, loadB_run, Option.bind_some, Pure.pure, StateT.pure]
  rfl

theorem Tot.bind_view {β : Type} {h : Heap} (x : HIR) {f : IR → HM β} {Q : β → Heap → Prop}
    (hf : Tot (f (viewAt h x)) h Q) : Tot (view x >>= f) h Q := by
  obtain ⟨b, h2, e2, x2, p2⟩ := hf
  exact ⟨b, h2, by simp only [Bind.bind, StateT.bind, view_run, Option.bind_some, e2], x2, p2⟩

/-- tactic: `let X ← view x` at the head of a block -/
macro "tot_view" : tactic => `(tactic| refine Tot.bind_view _ ?_)

/-! ### allocation helpers -/

/-- a range of two freshly written bounds -/
def RangeIs (v : IR) (z : HIR) (h' : Heap) : Prop := VR h' z ∧ viewAt h' z = v

theorem makeEmptyRange_tot (h : Heap) : Tot makeEmptyRange h (RangeIs mkEmpty) := by
  unfold makeEmptyRange
  refine Tot.bind (Tot.alloc _) ?_
  rintro a h1 x1 ⟨rfl, s1, g1⟩
  refine Tot.bind (Tot.alloc _) ?_
  rintro b h2 x2 ⟨rfl, s2, g2⟩
  refine Tot.pure _ ⟨⟨?_, ?_⟩, ?_⟩
  · simp only [VO_some]; omega
  · simp only [VO_some]; omega
  · have : h2.get h.size = 1 := by rw [x2.get (by omega)]; exact g1
    simp only [viewAt, Option.map_some, this, g2, mkEmpty]

theorem zeroRange_tot (h : Heap) : Tot zeroRange h (RangeIs ⟨some 0, some 0⟩) := by
  unfold zeroRange
  refine Tot.bind (Tot.alloc _) ?_
  rintro a h1 x1 ⟨rfl, s1, g1⟩
  refine Tot.bind (Tot.alloc _) ?_
  rintro b h2 x2 ⟨rfl, s2, g2⟩
  refine Tot.pure _ ⟨⟨?_, ?_⟩, ?_⟩
  · simp only [VO_some]; omega
  · simp only [VO_some]; omega
  · have : h2.get h.size = 0 := by rw [x2.get (by omega)]; exact g1
    simp only [viewAt, Option.map_some, this, g2]

/-- a possibly-nil pointer to a new object holding `v` -/
def BoundIs (v : Option Int) (z : Option Addr) (h' : Heap) : Prop := VO h' z ∧ valO h' z = v

theorem allocOpt_tot (h : Heap) (v : Option Int) : Tot (allocOpt v) h (BoundIs v) := by
  unfold allocOpt
  split
  · exact Tot.pure _ ⟨by simp, rfl⟩
  · refine Tot.bind (Tot.alloc _) ?_
    rintro z h1 x1 ⟨rfl, s1, g1⟩
    refine Tot.pure _ ⟨?_, ?_⟩
    · simp only [VO_some]; omega
    · simp only [valO, Option.map_some, g1]

theorem bigIntNewSet_tot (h : Heap) (p : Option Addr) :
    Tot (bigIntNewSet p) h (BoundIs (valO h p)) := by
  unfold bigIntNewSet
  split
  · exact Tot.pure _ ⟨by simp, rfl⟩
  · refine Tot.bind_load _ ?_
    refine Tot.bind (Tot.alloc _) ?_
    rintro z h2 x2 ⟨rfl, s2, g2⟩
    refine Tot.pure _ ⟨?_, ?_⟩
    · simp only [VO_some]; omega
    · simp only [valO, Option.map_some, g2]

/-- two bounds allocated one after the other form the range of their values -/
theorem pair_tot {h : Heap} {m1 m2 : HM (Option Addr)} {a b : Option Int}
    (h1 : Tot m1 h (BoundIs a)) (h2 : ∀ h1, Ext h h1 → Tot m2 h1 (BoundIs b)) :
    Tot (do let lo ← m1; let hi ← m2; Pure.pure (HIR.mk lo hi)) h (RangeIs ⟨a, b⟩) := by
  refine Tot.bind h1 ?_
  rintro lo hA xA ⟨vlo, elo⟩
  refine Tot.bind (h2 hA xA) ?_
  rintro hi hB xB ⟨vhi, ehi⟩
  refine Tot.pure _ ⟨⟨vlo.ext xB, vhi⟩, ?_⟩
  simp only [viewAt_eq, valO_ext vlo xB, elo, ehi]

/-! ### Unite, Intersect, Add, Sub -/

theorem add_tot (h : Heap) (x y : HIR) :
    Tot (add x y) h (RangeIs (Interval.add (viewAt h x) (viewAt h y))) := by
  unfold add
  tot_view
  tot_view
  refine Tot.ite (fun hc => ?_) (fun hc => ?_)
  · simp only [Interval.add, hc, if_true]
    exact makeEmptyRange_tot h
  · simp only [Interval.add, hc, if_false]
    exact pair_tot (allocOpt_tot _ _) (fun _ _ => allocOpt_tot _ _)

theorem sub_tot (h : Heap) (x y : HIR) :
    Tot (sub x y) h (RangeIs (Interval.sub (viewAt h x) (viewAt h y))) := by
  unfold sub
  tot_view
  tot_view
  refine Tot.ite (fun hc => ?_) (fun hc => ?_)
  · simp only [Interval.sub, hc, if_true]
    exact makeEmptyRange_tot h
  · simp only [Interval.sub, hc, if_false]
    exact pair_tot (allocOpt_tot _ _) (fun _ _ => allocOpt_tot _ _)

theorem intersect_tot (h : Heap) (x y : HIR) :
    Tot (intersect x y) h (RangeIs (Interval.intersect (viewAt h x) (viewAt h y))) := by
  unfold intersect
  tot_view
  tot_view
  refine Tot.ite (fun hc => ?_) (fun hc => ?_)
  · simp only [Interval.intersect, hc, if_true]
    exact makeEmptyRange_tot h
  · simp only [Interval.intersect, hc, if_false]
    exact pair_tot (allocOpt_tot _ _) (fun _ _ => allocOpt_tot _ _)

theorem unite_tot (h : Heap) (x y : HIR) (vx : VR h x) (vy : VR h y) :
    Tot (unite x y) h (RangeIs (Interval.unite (viewAt h x) (viewAt h y))) := by
  unfold unite
  tot_view
  tot_view
  refine Tot.ite (fun hc => ?_) (fun hc => ?_)
  · simp only [Interval.unite, hc, if_true]
    exact pair_tot (bigIntNewSet_tot h y.lo) (b := valO h y.hi)
      (fun h1 e => by rw [← valO_ext vy.2 e]; exact bigIntNewSet_tot h1 y.hi)
  · simp only [Interval.unite, hc, if_false]
    refine Tot.ite (fun hd => ?_) (fun hd => ?_)
    · simp only [hd, if_true]
      exact pair_tot (bigIntNewSet_tot h x.lo) (b := valO h x.hi)
        (fun h1 e => by rw [← valO_ext vx.2 e]; exact bigIntNewSet_tot h1 x.hi)
    · simp only [hd, if_false]
      exact pair_tot (allocOpt_tot _ _) (fun _ _ => allocOpt_tot _ _)

/-! ### `biggerIntPair` -/

/-- the value of a `biggerInt` -/
def valBI (h : Heap) : HBI → BI
  | .negInf => .negInf
  | .posInf => .posInf
  | .fin a => .fin (h.get a)

def valP (h : Heap) (p : HBIP) : BIP := ⟨valBI h p.lo, valBI h p.hi⟩

def VBI (h : Heap) (b : HBI) : Prop := ∀ a, b = .fin a → a < h.size
def VP (h : Heap) (p : HBIP) : Prop := VBI h p.lo ∧ VBI h p.hi

@[simp] theorem VBI_negInf (h : Heap) : VBI h .negInf := fun _ e => by cases e
@[simp] theorem VBI_posInf (h : Heap) : VBI h .posInf := fun _ e => by cases e
@[simp] theorem VBI_fin (h : Heap) (a : Addr) : VBI h (.fin a) ↔ a < h.size :=
  ⟨fun v => v a rfl, fun v _ e => by cases e; exact v⟩

theorem VBI.ext {h h' : Heap} {b : HBI} (v : VBI h b) (e : Ext h h') : VBI h' b :=
  fun a ha => Nat.lt_of_lt_of_le (v a ha) e.1

theorem VP.ext {h h' : Heap} {p : HBIP} (v : VP h p) (e : Ext h h') : VP h' p :=
  ⟨v.1.ext e, v.2.ext e⟩

theorem valBI_ext {h h' : Heap} {b : HBI} (v : VBI h b) (e : Ext h h') :
    valBI h' b = valBI h b := by
  cases b with
  | negInf => rfl
  | posInf => rfl
  | fin a => simp only [valBI, e.get (v a rfl)]

theorem valP_ext {h h' : Heap} {p : HBIP} (v : VP h p) (e : Ext h h') : valP h' p = valP h p := by
  simp only [valP, valBI_ext v.1 e, valBI_ext v.2 e]

theorem viewBI_run (h : Heap) (b : HBI) : viewBI b h = some (valBI h b, h) := by
  cases b <;> rfl

theorem Tot.bind_viewBI {β : Type} {h : Heap} (b : HBI) {f : BI → HM β} {Q : β → Heap → Prop}
    (hf : Tot (f (valBI h b)) h Q) : Tot (viewBI b >>= f) h Q := by
  obtain ⟨r, h2, e2, x2, p2⟩ := hf
  exact ⟨r, h2, by simp only [Bind.bind, StateT.bind, viewBI_run, Option.bind_some, e2], x2, p2⟩

/-- a pair whose pointers are valid and whose value is `v` -/
def PairIs (v : BIP) (r : HBIP) (h' : Heap) : Prop := VP h' r ∧ valP h' r = v

/-- a candidate bound whose pointer is valid and whose value is `v` -/
def BIIs (v : BI) (b : HBI) (h' : Heap) : Prop := VBI h' b ∧ valBI h' b = v

theorem takeLo_eq (p : BIP) (y : BI) :
    p.lowerMin y = if takeLo p.lo y then { p with lo := y } else p := by
  unfold BIP.lowerMin takeLo
  cases p.lo <;> cases y <;> rfl

theorem takeHi_eq (p : BIP) (y : BI) :
    p.raiseMax y = if takeHi p.hi y then { p with hi := y } else p := by
  unfold BIP.raiseMax takeHi
  cases p.hi <;> cases y <;> rfl

theorem lowerMin_tot {h : Heap} {p : HBIP} {y : HBI} (vp : VP h p) (vy : VBI h y) :
    Tot (lowerMin p y) h (PairIs ((valP h p).lowerMin (valBI h y))) := by
  unfold lowerMin
  refine Tot.bind_viewBI _ ?_
  refine Tot.bind_viewBI _ ?_
  refine Tot.pure _ ?_
  rw [takeLo_eq]
  show PairIs (if takeLo (valBI h p.lo) (valBI h y) = true then _ else _) _ h
  split
  · exact ⟨⟨vy, vp.2⟩, rfl⟩
  · exact ⟨vp, rfl⟩

theorem raiseMax_tot {h : Heap} {p : HBIP} {y : HBI} (vp : VP h p) (vy : VBI h y) :
    Tot (raiseMax p y) h (PairIs ((valP h p).raiseMax (valBI h y))) := by
  unfold raiseMax
  refine Tot.bind_viewBI _ ?_
  refine Tot.bind_viewBI _ ?_
  refine Tot.pure _ ?_
  rw [takeHi_eq]
  show PairIs (if takeHi (valBI h p.hi) (valBI h y) = true then _ else _) _ h
  split
  · exact ⟨⟨vp.1, vy⟩, rfl⟩
  · exact ⟨vp, rfl⟩

theorem toIntRange_tot {h : Heap} {p : HBIP} (vp : VP h p) :
    Tot (toIntRange p) h (RangeIs (valP h p).toIR) := by
  obtain ⟨lo, hi⟩ := p
  obtain ⟨v1, v2⟩ := vp
  cases lo <;> cases hi <;>
    first
    | exact makeEmptyRange_tot h
    | (refine Tot.pure _ ⟨⟨?_, ?_⟩, rfl⟩ <;> simp_all)

theorem copyBI_tot (h : Heap) (p : Option Addr) (inf : HBI) (hinf : inf = .negInf ∨ inf = .posInf) :
    Tot (copyBI p inf) h (BIIs (match valO h p with | some v => .fin v | none => valBI h inf)) := by
  unfold copyBI
  cases p with
  | none =>
    refine Tot.pure _ ⟨?_, rfl⟩
    rcases hinf with rfl | rfl <;> simp
  | some a =>
    refine Tot.bind_load _ ?_
    refine Tot.bind (Tot.alloc _) ?_
    rintro z h2 x2 ⟨rfl, s2, g2⟩
    refine Tot.pure _ ⟨?_, ?_⟩
    · simp only [VBI_fin]; omega
    · simp only [valBI, g2, valO, Option.map_some]

theorem fromIntRange_tot (h : Heap) (y : HIR) (vy : VR h y) :
    Tot (fromIntRange y) h (PairIs (BIP.fromIR (viewAt h y))) := by
  unfold fromIntRange
  refine Tot.bind (copyBI_tot h y.lo .negInf (Or.inl rfl)) ?_
  rintro lo h1 x1 ⟨vlo, elo⟩
  refine Tot.bind (copyBI_tot h1 y.hi .posInf (Or.inr rfl)) ?_
  rintro hi h2 x2 ⟨vhi, ehi⟩
  refine Tot.pure _ ⟨⟨vlo.ext x2, vhi⟩, ?_⟩
  simp only [valP, valBI_ext vlo x2, elo, ehi, valO_ext vy.2 x1, BIP.fromIR, viewAt_eq]
  congr 1

theorem zeroPair_tot (h : Heap) : Tot zeroPair h (PairIs ⟨.fin 0, .fin 0⟩) := by
  unfold zeroPair
  refine Tot.bind (Tot.alloc _) ?_
  rintro a h1 x1 ⟨rfl, s1, g1⟩
  refine Tot.bind (Tot.alloc _) ?_
  rintro b h2 x2 ⟨rfl, s2, g2⟩
  refine Tot.pure _ ⟨⟨?_, ?_⟩, ?_⟩
  · simp only [VBI_fin]; omega
  · simp only [VBI_fin]; omega
  · have : h2.get h.size = 0 := by rw [x2.get (by omega)]; exact g1
    simp only [valP, valBI, this, g2]

theorem combine_tot (h : Heap) (f : Int → Int → Int) (p q : Option Addr) :
    Tot (combine f p q) h (BIIs (.fin (f ((valO h p).getD 0) ((valO h q).getD 0)))) := by
  unfold combine
  refine Tot.bind_loadB _ ?_
  refine Tot.bind_loadB _ ?_
  refine Tot.bind (Tot.alloc _) ?_
  rintro z h2 x2 ⟨rfl, s2, g2⟩
  refine Tot.pure _ ⟨?_, ?_⟩
  · simp only [VBI_fin]; omega
  · simp only [valBI, g2]

theorem newBI_tot (h : Heap) (v : Int) : Tot (newBI v) h (BIIs (.fin v)) := by
  unfold newBI
  refine Tot.bind (Tot.alloc _) ?_
  rintro z h2 x2 ⟨rfl, s2, g2⟩
  refine Tot.pure _ ⟨?_, ?_⟩
  · simp only [VBI_fin]; omega
  · simp only [valBI, g2]

theorem stepLo_tot {h : Heap} {ret : HBIP} {b : HM HBI} {B : BI} (vr : VP h ret)
    (hb : Tot b h (BIIs B)) : Tot (stepLo ret b) h (PairIs ((valP h ret).lowerMin B)) := by
  unfold stepLo
  refine Tot.bind hb ?_
  rintro v h1 x1 ⟨vv, ev⟩
  have := lowerMin_tot (vr.ext x1) vv
  rw [valP_ext vr x1, ev] at this
  exact this

theorem stepHi_tot {h : Heap} {ret : HBIP} {b : HM HBI} {B : BI} (vr : VP h ret)
    (hb : Tot b h (BIIs B)) : Tot (stepHi ret b) h (PairIs ((valP h ret).raiseMax B)) := by
  unfold stepHi
  refine Tot.bind hb ?_
  rintro v h1 x1 ⟨vv, ev⟩
  have := raiseMax_tot (vr.ext x1) vv
  rw [valP_ext vr x1, ev] at this
  exact this

theorem choose_tot {h : Heap} (g : Bool) {alt c : HM HBI} {A C : BI} (ha : Tot alt h (BIIs A))
    (hc : Tot c h (BIIs C)) : Tot (choose g alt c) h (BIIs (if g then A else C)) := by
  unfold choose
  cases g
  · simpa using hc
  · simpa using ha

theorem posInf_tot (h : Heap) : Tot (Pure.pure HBI.posInf : HM HBI) h (BIIs .posInf) :=
  Tot.pure _ ⟨by simp, rfl⟩

theorem negInf_tot (h : Heap) : Tot (Pure.pure HBI.negInf : HM HBI) h (BIIs .negInf) :=
  Tot.pure _ ⟨by simp, rfl⟩

/-! ### the sign-definite blocks: same values as the blocks of the value model -/

section blocks
variable {h : Heap} {a b : HIR} {ret : HBIP} (va : VR h a) (vb : VR h b) (vr : VP h ret)
include va vb vr

theorem mulNN_tot (f : Int → Int → Int) :
    Tot (mulNN f a b ret) h
      (PairIs (Interval.mulNN f (viewAt h a) (viewAt h b) (valP h ret))) := by
  unfold mulNN
  refine Tot.bind (stepLo_tot vr (combine_tot h f _ _)) ?_
  rintro r1 h1 x1 ⟨v1, e1⟩
  refine Tot.mono (stepHi_tot v1 (choose_tot _ (posInf_tot h1) (combine_tot h1 f a.lo b.lo))) ?_
  rintro r h2 x2 ⟨v2, e2⟩
  refine ⟨v2, ?_⟩
  rw [e2, e1, valO_ext va.1 x1, valO_ext vb.1 x1]
  simp only [Interval.mulNN, viewAt_eq, valO]
  cases a.lo <;> cases b.lo <;> simp

theorem mulNP_tot (f : Int → Int → Int) :
    Tot (mulNP f a b ret) h
      (PairIs (Interval.mulNP f (viewAt h a) (viewAt h b) (valP h ret))) := by
  unfold mulNP
  refine Tot.bind (stepLo_tot vr (choose_tot _ (negInf_tot h) (combine_tot h f a.lo b.hi))) ?_
  rintro r1 h1 x1 ⟨v1, e1⟩
  refine Tot.mono (stepHi_tot v1 (combine_tot h1 f a.hi b.lo)) ?_
  rintro r h2 x2 ⟨v2, e2⟩
  refine ⟨v2, ?_⟩
  rw [e2, e1]
  simp only [valO_ext va.1 x1, valO_ext va.2 x1, valO_ext vb.1 x1, valO_ext vb.2 x1]
  simp only [Interval.mulNP, viewAt_eq, valO]
  cases a.lo <;> cases a.hi <;> cases b.lo <;> cases b.hi <;> simp

theorem mulPN_tot (f : Int → Int → Int) :
    Tot (mulPN f a b ret) h
      (PairIs (Interval.mulPN f (viewAt h a) (viewAt h b) (valP h ret))) := by
  unfold mulPN
  refine Tot.bind (stepLo_tot vr (choose_tot _ (negInf_tot h) (combine_tot h f a.hi b.lo))) ?_
  rintro r1 h1 x1 ⟨v1, e1⟩
  refine Tot.mono (stepHi_tot v1 (combine_tot h1 f a.lo b.hi)) ?_
  rintro r h2 x2 ⟨v2, e2⟩
  refine ⟨v2, ?_⟩
  rw [e2, e1]
  simp only [valO_ext va.1 x1, valO_ext va.2 x1, valO_ext vb.1 x1, valO_ext vb.2 x1]
  simp only [Interval.mulPN, viewAt_eq, valO]
  cases a.lo <;> cases a.hi <;> cases b.lo <;> cases b.hi <;> simp

theorem mulPP_tot (f : Int → Int → Int) :
    Tot (mulPP f a b ret) h
      (PairIs (Interval.mulPP f (viewAt h a) (viewAt h b) (valP h ret))) := by
  unfold mulPP
  refine Tot.bind (stepLo_tot vr (combine_tot h f a.lo b.lo)) ?_
  rintro r1 h1 x1 ⟨v1, e1⟩
  refine Tot.mono (stepHi_tot v1 (choose_tot _ (posInf_tot h1) (combine_tot h1 f a.hi b.hi))) ?_
  rintro r h2 x2 ⟨v2, e2⟩
  refine ⟨v2, ?_⟩
  rw [e2, e1]
  simp only [valO_ext va.1 x1, valO_ext va.2 x1, valO_ext vb.1 x1, valO_ext vb.2 x1]
  simp only [Interval.mulPP, viewAt_eq, valO]
  cases a.lo <;> cases a.hi <;> cases b.lo <;> cases b.hi <;> simp

theorem quoNN_tot :
    Tot (quoNN a b ret) h
      (PairIs (Interval.quoNN (viewAt h a) (viewAt h b) (valP h ret))) := by
  unfold quoNN
  refine Tot.bind (stepHi_tot vr (choose_tot _ (posInf_tot h) (combine_tot h bigQuo a.lo b.hi))) ?_
  rintro r1 h1 x1 ⟨v1, e1⟩
  refine Tot.mono (stepLo_tot v1 (choose_tot _ (newBI_tot h1 0) (combine_tot h1 bigQuo a.hi b.lo))) ?_
  rintro r h2 x2 ⟨v2, e2⟩
  refine ⟨v2, ?_⟩
  rw [e2, e1]
  simp only [valO_ext va.1 x1, valO_ext va.2 x1, valO_ext vb.1 x1, valO_ext vb.2 x1]
  simp only [Interval.quoNN, viewAt_eq, valO]
  cases a.lo <;> cases a.hi <;> cases b.lo <;> cases b.hi <;> simp

theorem quoNP_tot :
    Tot (quoNP a b ret) h
      (PairIs (Interval.quoNP (viewAt h a) (viewAt h b) (valP h ret))) := by
  unfold quoNP
  refine Tot.bind (stepLo_tot vr (choose_tot _ (negInf_tot h) (combine_tot h bigQuo a.lo b.lo))) ?_
  rintro r1 h1 x1 ⟨v1, e1⟩
  refine Tot.mono (stepHi_tot v1 (choose_tot _ (newBI_tot h1 0) (combine_tot h1 bigQuo a.hi b.hi))) ?_
  rintro r h2 x2 ⟨v2, e2⟩
  refine ⟨v2, ?_⟩
  rw [e2, e1]
  simp only [valO_ext va.1 x1, valO_ext va.2 x1, valO_ext vb.1 x1, valO_ext vb.2 x1]
  simp only [Interval.quoNP, viewAt_eq, valO]
  cases a.lo <;> cases a.hi <;> cases b.lo <;> cases b.hi <;> simp

theorem quoPN_tot :
    Tot (quoPN a b ret) h
      (PairIs (Interval.quoPN (viewAt h a) (viewAt h b) (valP h ret))) := by
  unfold quoPN
  refine Tot.bind (stepLo_tot vr (choose_tot _ (negInf_tot h) (combine_tot h bigQuo a.hi b.hi))) ?_
  rintro r1 h1 x1 ⟨v1, e1⟩
  refine Tot.mono (stepHi_tot v1 (choose_tot _ (newBI_tot h1 0) (combine_tot h1 bigQuo a.lo b.lo))) ?_
  rintro r h2 x2 ⟨v2, e2⟩
  refine ⟨v2, ?_⟩
  rw [e2, e1]
  simp only [valO_ext va.1 x1, valO_ext va.2 x1, valO_ext vb.1 x1, valO_ext vb.2 x1]
  simp only [Interval.quoPN, viewAt_eq, valO]
  cases a.lo <;> cases a.hi <;> cases b.lo <;> cases b.hi <;> simp

theorem quoPP_tot :
    Tot (quoPP a b ret) h
      (PairIs (Interval.quoPP (viewAt h a) (viewAt h b) (valP h ret))) := by
  unfold quoPP
  refine Tot.bind (stepHi_tot vr (choose_tot _ (posInf_tot h) (combine_tot h bigQuo a.hi b.lo))) ?_
  rintro r1 h1 x1 ⟨v1, e1⟩
  refine Tot.mono (stepLo_tot v1 (choose_tot _ (newBI_tot h1 0) (combine_tot h1 bigQuo a.lo b.hi))) ?_
  rintro r h2 x2 ⟨v2, e2⟩
  refine ⟨v2, ?_⟩
  rw [e2, e1]
  simp only [valO_ext va.1 x1, valO_ext va.2 x1, valO_ext vb.1 x1, valO_ext vb.2 x1]
  simp only [Interval.quoPP, viewAt_eq, valO]
  cases a.lo <;> cases a.hi <;> cases b.lo <;> cases b.hi <;> simp

theorem rshN_tot :
    Tot (rshN a b ret) h
      (PairIs (Interval.rshN (viewAt h a) (viewAt h b) (valP h ret))) := by
  unfold rshN
  refine Tot.bind (stepLo_tot vr (choose_tot _ (negInf_tot h) (combine_tot h bigRsh a.lo b.lo))) ?_
  rintro r1 h1 x1 ⟨v1, e1⟩
  refine Tot.mono (stepHi_tot v1 (choose_tot _ (newBI_tot h1 (-1)) (combine_tot h1 bigRsh a.hi b.hi))) ?_
  rintro r h2 x2 ⟨v2, e2⟩
  refine ⟨v2, ?_⟩
  rw [e2, e1]
  simp only [valO_ext va.1 x1, valO_ext va.2 x1, valO_ext vb.1 x1, valO_ext vb.2 x1]
  simp only [Interval.rshN, viewAt_eq, valO]
  cases a.lo <;> cases a.hi <;> cases b.lo <;> cases b.hi <;> simp

theorem rshP_tot :
    Tot (rshP a b ret) h
      (PairIs (Interval.rshP (viewAt h a) (viewAt h b) (valP h ret))) := by
  unfold rshP
  refine Tot.bind (stepLo_tot vr (choose_tot _ (newBI_tot h 0) (combine_tot h bigRsh a.lo b.hi))) ?_
  rintro r1 h1 x1 ⟨v1, e1⟩
  refine Tot.mono (stepHi_tot v1 (choose_tot _ (posInf_tot h1) (combine_tot h1 bigRsh a.hi b.lo))) ?_
  rintro r h2 x2 ⟨v2, e2⟩
  refine ⟨v2, ?_⟩
  rw [e2, e1]
  simp only [valO_ext va.1 x1, valO_ext va.2 x1, valO_ext vb.1 x1, valO_ext vb.2 x1]
  simp only [Interval.rshP, viewAt_eq, valO]
  cases a.lo <;> cases a.hi <;> cases b.lo <;> cases b.hi <;> simp

end blocks

end WuffsVerif.IntervalHeap
