/-
C07 helper, part 9: `HeaderOK` (the dynamic header uses only code-length sets std/deflate accepts) as a Boolean
function, for concrete streams (non-vacuity examples, driver).  Core Lean only.
-/
import WuffsVerif.Proof.StdDeflateDynDefs

namespace WuffsVerif.StdDeflate
open WuffsVerif.Flate.Spec (Huff mkHuff kraft readLens LensResult)

def isCompleteb (lens : Array Nat) : Bool :=
  match mkHuff lens with
  | some h => decide (0 < h.maxLen) && decide (kraft h.count h.maxLen = 2 ^ h.maxLen)
  | none => false

def isSingleb (lens : Array Nat) : Bool :=
  match mkHuff lens with
  | some h => decide (h.maxLen = 1) && decide (kraft h.count 1 = 1)
  | none => false

theorem isCompleteb_sound (lens : Array Nat) (h : isCompleteb lens = true) : IsComplete lens := by
  unfold isCompleteb at h
  split at h
  · rename_i hh hm
    simp only [Bool.and_eq_true, decide_eq_true_eq] at h
    exact ⟨hh, hm, h.1, h.2⟩
  · simp at h

theorem isSingleb_sound (lens : Array Nat) (h : isSingleb lens = true) : IsSingle lens := by
  unfold isSingleb at h
  split at h
  · rename_i hh hm
    simp only [Bool.and_eq_true, decide_eq_true_eq] at h
    exact ⟨hh, hm, h.1, h.2⟩
  · simp at h

/-- `HeaderOK s p`, evaluated -/
def headerOKb (s : Bytes) (p : Nat) : Bool :=
  isCompleteb (hdrCl s p) &&
  match mkHuff (hdrCl s p) with
  | none => true
  | some hc =>
    match readLens hc s (hdrNlit s p + hdrNdist s p) (hdrNlit s p + hdrNdist s p + 1) (p + 14 + 3 * hdrNclen s p) #[] with
    | .ok lens _ =>
      isCompleteb (lens.extract 0 (hdrNlit s p)) && decide (lens.getD 256 0 ≠ 0) &&
        (isCompleteb (lens.extract (hdrNlit s p) (hdrNlit s p + hdrNdist s p)) ||
         isSingleb (lens.extract (hdrNlit s p) (hdrNlit s p + hdrNdist s p)))
    | _ => true

theorem headerOKb_sound (s : Bytes) (p : Nat) (h : headerOKb s p = true) : HeaderOK s p := by
  unfold headerOKb at h
  rw [Bool.and_eq_true] at h
  refine ⟨isCompleteb_sound _ h.1, ?_⟩
  intro hc lens q h1 h2
  have h3 := h.2
  rw [h1] at h3
  simp only [h2, Bool.and_eq_true, Bool.or_eq_true, decide_eq_true_eq] at h3
  refine ⟨isCompleteb_sound _ h3.1.1, h3.1.2, ?_⟩
  rcases h3.2 with hc' | hs'
  · exact Or.inl (isCompleteb_sound _ hc')
  · exact Or.inr (isSingleb_sound _ hs')

end WuffsVerif.StdDeflate
