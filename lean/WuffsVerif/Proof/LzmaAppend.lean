/-
C17: `Encode(dst, src)` and `Decode(dst, src)` APPEND to an arbitrary `dst` (the Go API: "appending the
encoding / the decoding to dst"): the encoding does not depend on what is already in `dst` (in particular
the XZ padding and index arithmetic is relative to `dstLen0`, `dstLen1`), and the round trips hold with
arbitrary prefixes on both sides.
-/
import WuffsVerif.Proof.LzmaXz

namespace WuffsVerif.Lzma

theorem encodeLZMA_append (dst : Array UInt8) (src : List UInt8) :
    (encodeLZMA dst src).toList = dst.toList ++ (encodeLZMA #[] src).toList := by
  unfold encodeLZMA
  rw [encodeRaw_toList, encodeRaw_toList (pushList (pushList #[] lzmaHeader5) (le64 src.length))]
  simp only [pushList_toList, List.nil_append, List.append_assoc]

/-- the bytes `encodeXz` appends, whatever `dst` holds already -/
def xzBody (src : List UInt8) : List UInt8 :=
  xzHeader24 ++ (chunksBytes src ++ (0x00 :: (padList ((chunksBytes src).length + 13) ++
    (le32 (crc32 src) ++ (xzIdxP src ++ (le32 (crc32 (xzIdxP src)) ++
      (le32 (crc32 (xzTail6 src)) ++ (xzTail6 src ++ [0x59, 0x5A]))))))))

theorem encodeXz_toList_dst (dst : Array UInt8) (src : List UInt8) :
    (encodeXz dst src).toList = dst.toList ++ xzBody src := by
  have hx : xzHeader24.length = 24 := rfl
  have e1 : ∀ a c : Nat, a + 24 + c + (0 + 1) - (a + 12) = c + 13 := by intro a c; omega
  have e2 : ∀ c : Nat, c + 13 + 4 = c + 17 := by intro c; omega
  have e3 : ∀ a u1 u2 : Nat, a + (0 + 1) + (0 + 1) + u1 + u2 - a = (u1 + u2 + 1) + 1 := by
    intro a u1 u2; omega
  have e4 : ∀ a u1 u2 p : Nat, a + (0 + 1) + (0 + 1) + u1 + u2 + p - a = (u1 + u2 + 1) + 1 + p := by
    intro a u1 u2 p; omega
  unfold encodeXz crc32Arr xzBody
  simp only [pushList_toList, Array.toList_push, padTo4_toList, encodeUvarint_toList,
    encodeXzChunks_toList _ _ _ rfl, Array.size_eq_length_toList, List.length_append,
    List.length_cons, List.length_nil, le32_length, hx, e1, e2, e3, e4]
  have hdrop : List.drop
      (dst.toList.length + 24 + (chunksBytes src).length + (0 + 1) + (padList ((chunksBytes src).length + 13)).length + 4)
      (dst.toList ++ xzHeader24 ++ chunksBytes src ++ [0] ++ padList ((chunksBytes src).length + 13) ++
                  le32 (crc32 src) ++ [0] ++ [1] ++ uvList ((chunksBytes src).length + 17) ++
          uvList src.length ++
        padList ((uvList ((chunksBytes src).length + 17)).length + (uvList src.length).length + 1 + 1))
      = xzIdxP src := by
    have hsplit : (dst.toList ++ xzHeader24 ++ chunksBytes src ++ [0] ++ padList ((chunksBytes src).length + 13) ++
                  le32 (crc32 src) ++ [0] ++ [1] ++ uvList ((chunksBytes src).length + 17) ++
          uvList src.length ++
        padList ((uvList ((chunksBytes src).length + 17)).length + (uvList src.length).length + 1 + 1))
        = (dst.toList ++ xzHeader24 ++ chunksBytes src ++ [0] ++ padList ((chunksBytes src).length + 13) ++
                  le32 (crc32 src)) ++ xzIdxP src := by
      unfold xzIdxP xzIdx xzUnpadded
      simp only [List.append_assoc, List.cons_append, List.nil_append, List.length_cons, List.length_append]
    rw [hsplit]
    apply List.drop_left'
    simp only [List.length_append, hx, le32_length, List.length_cons, List.length_nil]
  rw [hdrop]
  unfold xzTail6
  have hlen : (xzIdxP src).length = (uvList ((chunksBytes src).length + 17)).length + (uvList src.length).length
      + 1 + 1 + (padList ((uvList ((chunksBytes src).length + 17)).length + (uvList src.length).length + 1 + 1)).length := by
    unfold xzIdxP xzIdx xzUnpadded
    simp only [List.length_append, List.length_cons]
  rw [hlen]
  have hI : xzIdxP src = 0 :: 1 :: (uvList ((chunksBytes src).length + 17) ++ (uvList src.length ++
      padList ((uvList ((chunksBytes src).length + 17)).length + (uvList src.length).length + 1 + 1))) := by
    unfold xzIdxP xzIdx xzUnpadded
    simp only [List.append_assoc, List.cons_append, List.nil_append, List.length_cons, List.length_append]
  rw [hI]
  simp only [List.append_assoc, List.cons_append, List.nil_append]

/-- `encodeXz` appends: the bytes after `dst` do not depend on `dst` -/
theorem encodeXz_append (dst : Array UInt8) (src : List UInt8) :
    (encodeXz dst src).toList = dst.toList ++ (encodeXz #[] src).toList := by
  rw [encodeXz_toList_dst, encodeXz_toList_dst #[]]
  simp

theorem crc32Arr_pushList_dst (dst : Array UInt8) (src : List UInt8) :
    crc32Arr (pushList dst src) dst.size = crc32 src := by
  unfold crc32Arr; rw [pushList_toList, List.drop_left' (Array.length_toList)]

/-- the walk of `decodeXz` over an encoding, appending to an arbitrary `dst` -/
theorem xz_roundtrip_tail_dst (dst : Array UInt8) (src tail : List UInt8) (h1 : src.length < 2 ^ 63)
    (h2 : xzUnpadded src < 2 ^ 63) :
    decodeXz dst (xzBody src ++ tail) = (pushList dst src, tail, Err.ok) := by
  unfold xzBody
  simp only [List.append_assoc, List.cons_append, List.nil_append]
  have hx : xzHeader24.length = 24 := rfl
  -- name the pieces, from the back
  generalize hF : le32 (crc32 (xzTail6 src)) ++ (xzTail6 src ++ 89 :: 90 :: tail) = F
  generalize hR5 : le32 (crc32 (xzIdxP src)) ++ F = R5
  generalize hR4 : xzIdxP src ++ R5 = R4
  generalize hR3 : le32 (crc32 src) ++ R4 = R3
  generalize hR2 : padList ((chunksBytes src).length + 13) ++ R3 = R2
  generalize hR1 : chunksBytes src ++ 0 :: R2 = R1
  have hR1len : R1.length = (chunksBytes src).length + 1 + R2.length := by
    rw [← hR1]; simp; omega
  have s1 : ¬ ((xzHeader24 ++ R1).length < 24 ∨ (xzHeader24 ++ R1).take 6 ≠ xzHeader24.take 6) := by
    intro h
    rcases h with h | h
    · rw [List.length_append, hx] at h; omega
    · exact h (List.take_append_of_le_length (by rw [hx]; omega))
  have s2 : ¬ (((xzHeader24 ++ R1).take 24).drop 6 ≠ xzHeader24.drop 6) := by
    rw [List.take_left' hx]; simp
  have s3 : (xzHeader24 ++ R1).drop 24 = R1 := List.drop_left' hx
  have s4 : decodeXzChunks ((xzHeader24 ++ R1).length + 1) dst R1 = ChunkResult.brk (pushList dst src) R2 := by
    rw [← hR1]
    exact decode_chunks _ src _ _ _ rfl (by simp; omega)
  have s5 : (xzHeader24 ++ R1).length - 12 - R2.length + 4 = xzUnpadded src := by
    rw [List.length_append, hx, hR1len]; unfold xzUnpadded; omega
  have s6 : skipPad 3 (xzUnpadded src &&& 3) R2 = (true, R3) := by
    rw [← hR2]
    exact skipPad_padList _ _ _ (by unfold xzUnpadded; omega)
  have s7 : hasLe32 R3 (crc32Arr (pushList dst src) dst.size) = true := by
    rw [← hR3, crc32Arr_pushList_dst]; exact hasLe32_ok _ _
  have s8 : R3.drop 4 = R4 := by
    rw [← hR3]; exact List.drop_left' (le32_length _)
  have s9 : R4 = 0 :: 1 :: (uvList (xzUnpadded src) ++ (uvList src.length ++
      (padList (xzIdx src).length ++ R5))) := by
    rw [← hR4]; unfold xzIdxP xzIdx
    simp only [List.append_assoc, List.cons_append]
  have s10 := uvarint_roundtrip_list (xzUnpadded src) h2 (uvList src.length ++ (padList (xzIdx src).length ++ R5))
  have s11 := uvarint_roundtrip_list src.length h1 (padList (xzIdx src).length ++ R5)
  have s12 : (pushList dst src).size - dst.size = src.length := by rw [pushList_size]; omega
  have hR4len : R4.length = (xzIdx src).length + (padList (xzIdx src).length).length + R5.length := by
    rw [← hR4]; unfold xzIdxP; simp only [List.length_append]
  have s13 : skipPad 3 ((R4.length - (padList (xzIdx src).length ++ R5).length) &&& 3)
      (padList (xzIdx src).length ++ R5) = (true, R5) := by
    apply skipPad_padList
    rw [hR4len, List.length_append]; omega
  have s14 : R4.length - R5.length = (xzIdxP src).length := by
    rw [← hR4, List.length_append]; omega
  have s15 : R4.take (xzIdxP src).length = xzIdxP src := by
    rw [← hR4]; exact List.take_left
  have s16 : hasLe32 R5 (crc32 (xzIdxP src)) = true := by
    rw [← hR5]; exact hasLe32_ok _ _
  have s17 : R5.drop 4 = F := by
    rw [← hR5]; exact List.drop_left' (le32_length _)
  have s18 : ¬ (F.length < 12) := by rw [← hF]; simp [xzTail6, le32]
  have s19 : (F.drop 4).take 6 = xzTail6 src := by
    rw [← hF, List.drop_left' (le32_length _)]
    exact List.take_left' (by simp [xzTail6])
  have s20 : F.take 12 = le32 (crc32 (xzTail6 src)) ++ (xzTail6 src ++ [89, 90]) := by
    rw [← hF]
    simp [xzTail6, le32]
  have s21 : F.drop 12 = tail := by
    rw [← hF]
    simp [xzTail6, le32]
  have hb01 : ¬ ((0 : UInt8) ≠ 0 ∨ (1 : UInt8) ≠ 1) := by decide
  have s22 : ¬ (le32 (crc32 (xzTail6 src)) ++ (xzTail6 src ++ ([89, 90] : List UInt8)) ≠
      le32 (crc32 (xzTail6 src)) ++
        ([((xzIdxP src).length >>> 2).toUInt8, ((xzIdxP src).length >>> 2 >>> 8).toUInt8,
          ((xzIdxP src).length >>> 2 >>> 16).toUInt8, ((xzIdxP src).length >>> 2 >>> 24).toUInt8, 0, 1, 89, 90] : List UInt8)) := by
    simp [xzTail6]
  subst s9
  unfold decodeXz
  simp only [s1, s2, s3, s4, s5, s6, s7, s8, hb01, s10, s11, s12, s13, s14, s15, s16, s17, s18, s19, s20,
    s21, s22, if_false, Nat.sub_zero, ne_eq, not_true_eq_false, not_false_eq_true, or_self, if_true]

/-- `FileFormatXz`: `Decode(dst, Encode(dst', src)[len(dst'):] ++ tail) = (dst ++ src, tail, nil)` for arbitrary
    `dst`, `dst'` -/
theorem xz_roundtrip_append_gen (dst dst' : Array UInt8) (src tail : List UInt8) (h : src.length < 2 ^ 60) :
    decodeXz dst (((encodeXz dst' src).toList.drop dst'.size) ++ tail) = (pushList dst src, tail, Err.ok) := by
  rw [encodeXz_toList_dst, List.drop_left' (Array.length_toList)]
  exact xz_roundtrip_tail_dst dst src tail (by omega) (xzUnpadded_lt src h)

/-- `FileFormatLZMA`, the same -/
theorem lzma_roundtrip_append_gen (dst dst' : Array UInt8) (src tail : List UInt8)
    (hlen : src.length < 9223372036854775808) :
    decodeLZMA dst (((encodeLZMA dst' src).toList.drop dst'.size) ++ tail) = (pushList dst src, tail, Err.ok) := by
  rw [encodeLZMA_append, List.drop_left' (Array.length_toList)]
  exact lzma_roundtrip_tail dst src tail hlen

end WuffsVerif.Lzma
