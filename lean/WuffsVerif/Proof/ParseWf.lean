/-
A small postcondition logic for the parser monad of `Model/Parse.lean` (`Post m Q`: every
successful run of `m` returns a value satisfying `Q`), its automation, and the well-formedness
lemmas of the cycle-free combinators (`parseList`, `parseBracket`, `parseArgNode`, …).
-/
import WuffsVerif.Proof.ParseLemmas
import WuffsVerif.Proof.ParseWfTables

namespace WuffsVerif.Parse
open WuffsVerif.Token WuffsVerif.Gen.C11

/-! ## postconditions -/

/-- Every successful run of `m` returns a value satisfying `Q`.  (A structure, so that tactics
never unfold it.) -/
structure Post {α : Type} (m : P α) (Q : α → Prop) : Prop where
  post : ∀ s a s', m.run s = .ok (a, s') → Q a

theorem post_pure {α : Type} {a : α} {Q : α → Prop} (h : Q a) : Post (pure a : P α) Q := ⟨by
  intro s b s' hr
  simp [StateT.run, pure, StateT.pure, Except.pure] at hr
  rw [← hr.1]; exact h⟩

theorem post_pure_eq {α : Type} (a : α) : Post (pure a : P α) (fun x => x = a) := post_pure rfl

theorem post_true {α : Type} (m : P α) : Post m (fun _ => True) := ⟨fun _ _ _ _ => trivial⟩

theorem post_mono {α : Type} {m : P α} {Q R : α → Prop} (h : Post m Q) (hqr : ∀ a, Q a → R a) :
    Post m R := ⟨fun s a s' hr => hqr a (h.post s a s' hr)⟩

theorem post_bind {α β : Type} {m : P α} {f : α → P β} {Q : α → Prop} {R : β → Prop}
    (hm : Post m Q) (hf : ∀ a, Q a → Post (f a) R) : Post (m >>= f) R := ⟨by
  intro s b s' h
  simp only [StateT.run, bind, StateT.bind, Except.bind] at h
  cases hr : m s with
  | error e => simp [hr] at h
  | ok p =>
    obtain ⟨a, s1⟩ := p
    simp only [hr] at h
    exact (hf a (hm.post s a s1 (by simp [StateT.run, hr]))).post s1 b s' (by simpa [StateT.run] using h)⟩

/-- `pure a >>= f` is `f a` (the join points of `do` blocks produce these). -/
theorem post_pure_bind {α β : Type} {a : α} {f : α → P β} {R : β → Prop}
    (h : Post (f a) R) : Post (pure a >>= f) R :=
  post_bind (post_pure_eq a) (fun _ hb => hb ▸ h)

theorem post_failHere {α : Type} {Q : α → Prop} : Post (failHere : P α) Q := ⟨by
  intro s a s' h
  obtain ⟨l, hl⟩ := failHere_error (α := α) s
  rw [hl] at h
  cases h⟩

theorem post_throw {α : Type} {Q : α → Prop} (e : PErr) : Post (throw e : P α) Q := ⟨by
  intro s a s' h
  simp [StateT.run, throw, throwThe, MonadExceptOf.throw, StateT.lift, bind, Except.bind] at h⟩

theorem post_failHere_bind {α β : Type} {f : α → P β} {R : β → Prop} :
    Post ((failHere : P α) >>= f) R :=
  post_bind (Q := fun _ => False) post_failHere (fun _ h => h.elim)

theorem post_throw_bind {α β : Type} {e : PErr} {f : α → P β} {R : β → Prop} :
    Post ((throw e : P α) >>= f) R :=
  post_bind (Q := fun _ => False) (post_throw e) (fun _ h => h.elim)

/-- `if c then A else B`, keeping the condition as a hypothesis in each branch. -/
theorem post_ite {α : Type} {c : Prop} [Decidable c] {A B : P α} {Q : α → Prop}
    (hA : c → Post A Q) (hB : ¬c → Post B Q) : Post (if c then A else B) Q := by
  split
  · exact hA ‹_›
  · exact hB ‹_›

/-- `if c then failHere` in a `do` block: what follows may assume `¬c`. -/
theorem post_guard {β : Type} {c : Prop} [Decidable c] {f : PUnit → P β} {R : β → Prop}
    (h : ¬c → Post (f ⟨⟩) R) : Post ((if c then failHere else pure ⟨⟩) >>= f) R := by
  by_cases hc : c
  · simp only [hc, ite_true]
    exact post_bind (Q := fun _ => False) post_failHere (fun a ha => ha.elim)
  · simp only [hc, ite_false]
    exact post_bind (Q := fun _ => True) (post_true _) (fun a _ => h hc)

theorem post_guard_throw {β : Type} {c : Prop} [Decidable c] {e : PErr} {f : PUnit → P β}
    {R : β → Prop} (h : ¬c → Post (f ⟨⟩) R) :
    Post ((if c then throw e else pure ⟨⟩) >>= f) R := by
  by_cases hc : c
  · simp only [hc, ite_true]
    exact post_bind (Q := fun _ => False) (post_throw e) (fun a ha => ha.elim)
  · simp only [hc, ite_false]
    exact post_bind (Q := fun _ => True) (post_true _) (fun a _ => h hc)

theorem failHere_bind {α β : Type} (f : α → P β) :
    StateT.bind (failHere : P α) f = failHere := by
  funext s
  obtain ⟨l, hl⟩ := failHere_error (α := α) s
  obtain ⟨l', hl'⟩ := failHere_error (α := β) s
  simp only [StateT.run] at hl hl'
  simp only [StateT.bind, hl, hl']
  unfold failHere curLine at hl hl'
  cases h : s.src <;> simp_all [bind, StateT.bind, get, getThe, MonadStateOf.get,
    StateT.get, pure, StateT.pure, Except.bind, Except.pure, throw, throwThe,
    MonadExceptOf.throw, StateT.lift]

/-! ## automation -/

/-- Closes `WfN (.mk …)` / `∀ n ∈ l, WfN n` goals from the hypotheses about the parts. -/
syntax "wf_close" : tactic
macro_rules | `(tactic| wf_close) => `(tactic|
  (simp_all [WfN, wf_mk, wf_newExpr, wf_newTypeExpr, wfList, wfList_iff, shallowOK, newAssign,
    exprOK_leaf, exprOK_call, exprOK_dot, exprOK_dotdot, exprOK_index, exprOK_list, exprOK_unary,
    exprOK_binary, exprOK_assoc, typeOK_plain,
    KArg, KAssert, KAssign, KChoose, KConst, KExpr, KField, KFile, KFunc, KIOManip, KIf, KIterate,
    KJump, KRet, KStatus, KStruct, KTypeExpr, KUse, KVar, KWhile]))

/-- Extensible leaf rule set for `post_auto` (later rules are tried first). -/
syntax "post_leaf" : tactic
macro_rules | `(tactic| post_leaf) => `(tactic| (apply_assumption <;> first | assumption | (simp; done)))
macro_rules | `(tactic| post_leaf) => `(tactic| exact post_throw _)
macro_rules | `(tactic| post_leaf) => `(tactic| exact post_failHere)
macro_rules | `(tactic| post_leaf) => `(tactic| exact post_throw_bind)
macro_rules | `(tactic| post_leaf) => `(tactic| exact post_failHere_bind)
macro_rules | `(tactic| post_leaf) => `(tactic| assumption)

/-- Walks a `do` block: guards keep their negated condition, binds whose result matters are
closed by a hypothesis or a registered lemma (`post_leaf`), all other binds by `post_true`;
the final `pure (.mk …)` is handed to `wf_close`. -/
syntax "post_auto" : tactic
macro_rules
  | `(tactic| post_auto) => `(tactic| repeat' (first
      | post_leaf
      | (with_reducible apply post_guard; intro _)
      | (with_reducible apply post_guard_throw; intro _)
      | (with_reducible apply post_ite <;> intro _)
      | with_reducible apply post_pure_bind
      | with_reducible apply post_bind
      | exact post_true _
      | (with_reducible apply post_pure; wf_close)
      | (show Post _ _; dsimp only)
      | intro _
      | split))

/-! ## the cycle-free combinators -/

theorem post_parseListLoop (env : Env) (stop : Nat) (elem : P Node) (Q : Node → Prop)
    (hel : Post elem Q) : ∀ fuel acc, (∀ n ∈ acc, Q n) →
      Post (parseListLoop env stop elem fuel acc) (fun l => ∀ n ∈ l, Q n) := by
  intro fuel
  induction fuel with
  | zero => intro acc _; unfold parseListLoop; exact post_throw _
  | succ fuel ih =>
    intro acc hacc
    unfold parseListLoop
    post_auto
    · grind
    · grind
    · apply ih; grind

/-- `parseList`: every element of the returned list satisfies the element parser's
postcondition (in particular: no nil entries). -/
theorem post_parseList (env : Env) (stop : Nat) (elem : P Node) (Q : Node → Prop)
    (hel : Post elem Q) : Post (parseList env stop elem) (fun l => ∀ n ∈ l, Q n) := by
  unfold parseList
  have := post_parseListLoop env stop elem Q hel
  post_auto

macro_rules | `(tactic| post_leaf) => `(tactic| (apply post_parseList; post_leaf))

theorem post_parseArgNode (env : Env) (pe : P Node) (hpe : Post pe WfN) :
    Post (parseArgNode env pe) WfN := by
  unfold parseArgNode
  post_auto

macro_rules | `(tactic| post_leaf) => `(tactic| (apply post_parseArgNode; post_leaf))

/-- An optional expression (`if c then parseExpr else nil`): present when `c`. -/
theorem post_optExpr {c : Prop} [Decidable c] {pe : P Node} (hpe : Post pe WfN) :
    Post (if c then pe else pure .nil) (fun n => wf n = true ∧ (c → n.isNil = false)) := by
  apply post_ite <;> intro hc
  · exact post_mono hpe (fun _ h => ⟨h.2, fun _ => h.1⟩)
  · exact post_pure ⟨wf_nil, fun h => absurd h hc⟩

theorem post_optExpr2 {c d : Prop} [Decidable c] [Decidable d] {pe pe' : P Node}
    (hpe : Post pe WfN) (hpe' : Post pe' WfN) :
    Post (if c then pe else if d then pe' else pure .nil)
      (fun n => wf n = true ∧ (c ∨ d → n.isNil = false)) := by
  apply post_ite <;> intro hc
  · exact post_mono hpe (fun _ h => ⟨h.2, fun _ => h.1⟩)
  · apply post_ite <;> intro hd
    · exact post_mono hpe' (fun _ h => ⟨h.2, fun _ => h.1⟩)
    · exact post_pure ⟨wf_nil, fun h => by cases h <;> contradiction⟩

macro_rules | `(tactic| post_leaf) => `(tactic| (apply post_optExpr; post_leaf))
macro_rules | `(tactic| post_leaf) => `(tactic| (apply post_optExpr2 <;> post_leaf))

/-- `parseBracket` with the two reads of the token after `[` merged into one (the second
`peek1` of the original sees the same token when no expression was parsed in between). -/
def parseBracket' (sep : Nat) (pe : P Node) : P (Nat × Node × Node) := do
  expect IDOpenBracket
  if (← peek1) != sep then do
    let ei ← pe
    let x ← peek1
    if x == sep then do
      skip
      let ej ← if (← peek1) != IDCloseBracket then pe else pure .nil
      expect IDCloseBracket
      pure (sep, ei, ej)
    else if x == IDCloseBracket && sep == IDDotDot then do
      skip
      pure (IDOpenBracket, .nil, ei)
    else failHere
  else do
    skip
    let ej ← if (← peek1) != IDCloseBracket then pe else pure .nil
    expect IDCloseBracket
    pure (sep, .nil, ej)

theorem parseBracket_eq (sep : Nat) (pe : P Node) : parseBracket sep pe = parseBracket' sep pe := by
  funext s
  unfold parseBracket parseBracket'
  simp only [bind, StateT.bind]
  cases h1 : expect IDOpenBracket s with
  | error e => rfl
  | ok r =>
    obtain ⟨u, s1⟩ := r
    obtain ⟨x, hx, _⟩ := run_peek1 s1
    simp only [StateT.run] at hx
    simp only [Except.bind, hx]
    by_cases hc : (x != sep) = true
    · simp only [hc, ite_true, failHere_bind]
    · simp only [hc]
      simp at hc
      subst hc
      simp only [bne_self_eq_false, Bool.false_eq_true, ite_false, pure, StateT.pure, Except.pure,
        StateT.bind, bind, Except.bind, hx, beq_self_eq_true, ite_true]

/-- `parseBracket`: both expressions are well-formed when present; for an index (`[`) the index
expression is present (third component). -/
theorem post_parseBracket (sep : Nat) (pe : P Node) (hpe : Post pe WfN) :
    Post (parseBracket sep pe) (fun r => wf r.2.1 = true ∧ wf r.2.2 = true ∧
      (r.1 = sep ∨ (r.1 = IDOpenBracket ∧ r.2.2.isNil = false))) := by
  rw [parseBracket_eq]
  unfold parseBracket'
  post_auto

macro_rules | `(tactic| post_leaf) => `(tactic| (apply post_parseBracket; post_leaf))

theorem post_parseAssertNode (env : Env) (pe : P Node) (hpe : Post pe WfN) :
    Post (parseAssertNode env pe) WfN := by
  unfold parseAssertNode
  post_auto

macro_rules | `(tactic| post_leaf) => `(tactic| (apply post_parseAssertNode; post_leaf))

theorem post_parseAsserts (env : Env) (pe : P Node) (hpe : Post pe WfN) :
    Post (parseAsserts env pe) (fun l => ∀ n ∈ l, WfN n) := by
  unfold parseAsserts
  post_auto

macro_rules | `(tactic| post_leaf) => `(tactic| (apply post_parseAsserts; post_leaf))

end WuffsVerif.Parse
