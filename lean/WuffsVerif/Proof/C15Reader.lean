/-
C15 helper lemmas about the `ChunkReader` state machine: what `initialize` establishes,
the inner scan loop and the outer loop of `NextChunk`.  Core Lean only.
(Named C15*, not Rac*: Proof/RacReader.lean belongs to C14.)
-/
import WuffsVerif.Proof.C15Resolve

namespace WuffsVerif.Rac.ChunkReader

/-! ## `initialize` -/

theorem tryRootNode_ok {f : File} {csize arity : Nat} {fromEnd : Bool} {off : Nat} {n : Node}
    (h : tryRootNode f csize arity fromEnd = .ok (some (off, n))) :
    load f off arity = .ok n ∧ n.rd 3 = arity ∧ n.valid = true ∧ n.cPtrMax = csize ∧
    off + nodeSize arity ≤ csize := by
  unfold tryRootNode at h
  split at h
  · cases h
  split at h
  · cases h
  rename_i hsz
  simp only at h
  split at h
  · cases h
  rename_i n' hl
  split at h
  · cases h
  rename_i hv
  split at h
  · cases h
  rename_i hc
  simp only [Except.ok.injEq, Option.some.injEq, Prod.mk.injEq] at h
  obtain ⟨h1, h2⟩ := h
  subst h2
  simp only [bne_iff_ne, ne_eq, Bool.or_eq_true, Bool.not_eq_true', not_or, Decidable.not_not,
    Bool.not_eq_false] at hv hc
  refine ⟨by rw [← h1]; exact hl, hv.1, hv.2, hc, ?_⟩
  rw [← h1]
  split <;> omega

/-- The state after a successful `initialize`, and between calls. -/
structure ReaderInv (r : Reader) : Prop where
  csize_ge : 32 ≤ r.csize
  root : ∃ root, load r.file r.rootOff r.rootArity = .ok root ∧
    NodeInv r.file r.csize r.dsize root 0 0 ∧ root.dPtrMax = r.dsize ∧ root.off = r.rootOff
  cur : r.needResolve = false →
    NodeInv r.file r.csize r.dsize r.node r.cBias r.dBias ∧ r.nextChunk ≤ r.node.arity ∧
    r.seekPos = r.dBias + r.node.dPtr r.nextChunk

theorem rootInv_of_try {f : File} {csize arity : Nat} {fromEnd : Bool} {off : Nat} {n : Node}
    (h : tryRootNode f csize arity fromEnd = .ok (some (off, n))) :
    load f off n.arity = .ok n ∧ NodeInv f csize n.dPtrMax n 0 0 ∧ n.off = off := by
  obtain ⟨hl, ha, hv, hc, hin⟩ := tryRootNode_ok h
  obtain ⟨hf, hoff, hsize, _, _, _⟩ := load_ok hl
  have har : n.arity = arity := ha
  refine ⟨by rw [har]; exact hl, ⟨n.facts_of_valid hv, hf, by rw [hsize, har], ?_, by omega, by omega⟩, hoff⟩
  rw [hoff, hsize]; exact hin

theorem findRootNode_ok {f : File} {csize off : Nat} {n : Node}
    (h : findRootNode f csize = .ok (off, n)) :
    load f off n.arity = .ok n ∧ NodeInv f csize n.dPtrMax n 0 0 ∧ n.off = off := by
  unfold findRootNode at h
  split at h
  · cases h
  split at h
  · cases h
  split at h
  · cases h
  · rename_i r hr
    cases h
    exact rootInv_of_try hr
  · split at h
    · cases h
    split at h
    · cases h
    · rename_i r hr
      cases h
      exact rootInv_of_try hr
    · cases h

theorem Reader.failed_err (f : File) (e : Err) : (Reader.failed f e).err = some e := rfl

/-- A reader that opened without error satisfies the invariant. -/
theorem openReader_inv (f : File) (claimed : Int) (h : (openReader f claimed).err = none) :
    ReaderInv (openReader f claimed) := by
  by_cases hc : claimed < 32
  · simp [openReader, hc, Reader.failed_err] at h
  cases hfr : findRootNode f claimed.toNat with
  | error e => simp [openReader, hc, hfr, Reader.failed_err] at h
  | ok p =>
    obtain ⟨off, n⟩ := p
    by_cases hver : (n.version != 1) = true
    · simp [openReader, hc, hfr, hver, Reader.failed_err] at h
    · simp only [openReader, hc, hfr, hver, ↓reduceIte, Bool.false_eq_true]
      obtain ⟨hl, hinv, hoff⟩ := findRootNode_ok hfr
      refine ⟨by simp only; omega, ⟨n, hl, hinv, rfl, hoff⟩, ?_⟩
      intro hn
      simp at hn

/-! ## the inner loop of `NextChunk` -/

/-- the parts of the state that `scan` never changes -/
def SameNode (r r' : Reader) : Prop :=
  r'.file = r.file ∧ r'.csize = r.csize ∧ r'.dsize = r.dsize ∧ r'.rootOff = r.rootOff ∧
  r'.rootArity = r.rootArity ∧ r'.node = r.node ∧ r'.cBias = r.cBias ∧ r'.dBias = r.dBias ∧
  r'.err = r.err ∧ r'.needResolve = r.needResolve

theorem SameNode.refl (r : Reader) : SameNode r r :=
  ⟨rfl, rfl, rfl, rfl, rfl, rfl, rfl, rfl, rfl, rfl⟩

/-- a chunk is a non-empty leaf element `i` of the current node -/
def IsElem (r : Reader) (i : Nat) (c : Chunk) : Prop :=
  i < r.node.arity ∧ r.node.dPtr i < r.node.dPtr (i + 1) ∧ r.node.isLeaf i = true ∧
  c = r.node.chunk i r.cBias r.dBias

/-- Walking on inside a node: every chunk found starts where the previous one ended. -/
theorem scan_spec : ∀ fuel (r : Reader), r.node.Facts → r.nextChunk ≤ r.node.arity →
    r.seekPos = r.dBias + r.node.dPtr r.nextChunk → r.node.arity - r.nextChunk < fuel →
    match scan fuel r with
    | .found r' c => SameNode r r' ∧ (∃ i, r.nextChunk ≤ i ∧ IsElem r i c ∧ r'.nextChunk = i + 1) ∧
        c.dLo = r.seekPos ∧ r'.seekPos = c.dHi
    | .done r' => SameNode r r' ∧ r'.seekPos = r.seekPos ∧
        (r.dsize ≤ r'.seekPos → r.dBias + r.node.dPtrMax ≤ r.dsize → r'.seekPos = r.dsize) := by
  intro fuel
  induction fuel with
  | zero => intro r _ _ _ h; omega
  | succ k ih =>
    intro r F hn hs hf
    unfold scan
    by_cases hlt : r.nextChunk < r.node.arity
    · simp only [hlt, ↓reduceIte]
      by_cases hb : (!r.node.isLeaf r.nextChunk && r.node.dSize r.nextChunk != 0) = true
      · simp only [hb, ↓reduceIte]
        refine ⟨⟨rfl, rfl, rfl, rfl, rfl, rfl, rfl, rfl, rfl, rfl⟩, hs.symm, ?_⟩
        intro hge hmax
        -- a non-empty branch element ends at or before DOffMax ≤ dsize, so it starts before dsize
        simp only [Bool.and_eq_true, Bool.not_eq_true', bne_iff_ne, ne_eq] at hb
        have h1 := r.node.dSize_eq r.nextChunk
        have h2 := F.dPtr_le_max (r.nextChunk + 1) (by omega)
        have h3 := F.sorted r.nextChunk hlt
        omega
      · simp only [hb, Bool.false_eq_true, ↓reduceIte]
        by_cases hne : ((r.node.chunk r.nextChunk r.cBias r.dBias).dLo !=
            (r.node.chunk r.nextChunk r.cBias r.dBias).dHi) = true
        · simp only [hne, ↓reduceIte]
          have hd : r.node.dPtr r.nextChunk < r.node.dPtr (r.nextChunk + 1) := by
            have h3 := F.sorted r.nextChunk hlt
            simp only [Node.chunk, bne_iff_ne, ne_eq] at hne
            omega
          have hleaf : r.node.isLeaf r.nextChunk = true := by
            have h1 := r.node.dSize_eq r.nextChunk
            simp only [Bool.and_eq_true, Bool.not_eq_true', bne_iff_ne, ne_eq, not_and,
              Decidable.not_not] at hb
            cases hl : r.node.isLeaf r.nextChunk
            · have := hb hl; omega
            · rfl
          refine ⟨⟨rfl, rfl, rfl, rfl, rfl, rfl, rfl, rfl, rfl, rfl⟩,
            ⟨r.nextChunk, Nat.le_refl _, ⟨hlt, hd, hleaf, rfl⟩, rfl⟩, ?_, by first | rfl | trivial⟩
          simp only [Node.chunk]; omega
        · simp only [hne, Bool.false_eq_true, ↓reduceIte]
          have he : r.node.dPtr r.nextChunk = r.node.dPtr (r.nextChunk + 1) := by
            simp only [Node.chunk, bne_iff_ne, ne_eq, Decidable.not_not] at hne
            omega
          have := ih { r with nextChunk := r.nextChunk + 1, seekPos := (r.node.chunk r.nextChunk r.cBias r.dBias).dHi }
            F (by simp only; omega) (by simp only [Node.chunk]) (by simp only; omega)
          revert this
          cases scan k { r with nextChunk := r.nextChunk + 1, seekPos := (r.node.chunk r.nextChunk r.cBias r.dBias).dHi } with
          | found r' c =>
            simp only
            intro ⟨hsn, ⟨i, hi1, hi2, hi3⟩, hlo, hhi⟩
            refine ⟨hsn, ⟨i, by omega, hi2, hi3⟩, ?_, hhi⟩
            rw [hlo]; simp only [Node.chunk]; omega
          | done r' =>
            simp only
            intro ⟨hsn, hsp, hend⟩
            refine ⟨hsn, ?_, hend⟩
            rw [hsp]; simp only [Node.chunk]; omega
    · simp only [hlt, ↓reduceIte]
      refine ⟨SameNode.refl r, by first | rfl | trivial, ?_⟩
      intro hge hmax
      have : r.nextChunk = r.node.arity := by omega
      rw [this, Node.dPtr_arity _ F.arity_pos] at hs
      omega

/-! ## `NextChunk` -/

/-- the property's demands on one returned chunk -/
def ChunkGood (csize dsize : Nat) (c : Chunk) : Prop :=
  c.cpLo ≤ c.cpHi ∧ c.cpHi ≤ csize ∧ c.dLo < c.dHi ∧ c.dHi ≤ dsize

theorem isElem_good {f : File} {csize dsize : Nat} {r : Reader} {i : Nat} {c : Chunk}
    (inv : NodeInv f csize dsize r.node r.cBias r.dBias) (h : IsElem r i c) :
    ChunkGood csize dsize c ∧ c.dLo = r.dBias + r.node.dPtr i ∧
    c.dHi = r.dBias + r.node.dPtr (i + 1) := by
  obtain ⟨hi, hne, _, hc⟩ := h
  have := r.node.chunk_wf inv.facts i r.cBias r.dBias hi hne
  have h1 := inv.coff
  have h2 := inv.doff
  have h3 := inv.facts.dPtr_le_max (i + 1) (by omega)
  rw [hc]
  refine ⟨⟨this.1, by omega, by omega, by omega⟩, this.2.2.1, this.2.2.2⟩

/-- the state fields that `NextChunk` never changes -/
def SameFile (r r' : Reader) : Prop :=
  r'.file = r.file ∧ r'.csize = r.csize ∧ r'.dsize = r.dsize ∧ r'.rootOff = r.rootOff ∧
  r'.rootArity = r.rootArity

theorem resolve_spec (r : Reader) (inv : ReaderInv r) (hp : r.seekPos < r.dsize) :
    ResOK r.file r.csize r.dsize r.seekPos 0 r.rootOff r.csize r.resolve ∧
    rank r.file r.csize r.rootOff < r.csize ∧
    rank r.file r.csize r.rootOff < nodeStarts r.file r.csize := by
  obtain ⟨root, hl, rinv, hd, hoff⟩ := inv.root
  have hlt : r.rootOff < r.csize := by
    have := rinv.infile
    have h2 := rinv.consistent
    have h3 := rinv.facts.arity_pos
    rw [hoff] at this
    unfold nodeSize at h2
    omega
  unfold Reader.resolve
  rw [hl]
  have hns : rank r.file r.csize r.rootOff < nodeStarts r.file r.csize := by
    have := nodeStart_of_inv rinv
    rw [hoff] at this
    exact rank_lt_nodeStarts _ _ _ hlt this
  have hle := nodeStarts_le r.file r.csize
  have h32 := inv.csize_ge
  exact ⟨resolveLoop_spec r.file r.csize r.dsize r.seekPos r.csize root r.rootOff 0 0 0 rinv hoff
    (Nat.zero_le _) (by omega), by omega, hns⟩

/-- the state after landing on element `l.nextChunk` and returning it -/
def landed (r : Reader) (l : Landing) : Reader :=
  { r with needResolve := false, node := l.node, nextChunk := l.nextChunk + 1, cBias := l.cBias, dBias := l.dBias, seekPos := (l.node.chunk l.nextChunk l.cBias l.dBias).dHi }

/-- after landing on a leaf element that contains the seek position, the scan returns it -/
theorem scan_landing (k : Nat) (r : Reader) (hi : r.nextChunk < r.node.arity)
    (hleaf : r.node.isLeaf r.nextChunk = true)
    (hne : r.node.dPtr r.nextChunk < r.node.dPtr (r.nextChunk + 1)) :
    scan (k + 1) r = .found { r with nextChunk := r.nextChunk + 1, seekPos := (r.node.chunk r.nextChunk r.cBias r.dBias).dHi } (r.node.chunk r.nextChunk r.cBias r.dBias) := by
  unfold scan
  have h1 : ((r.node.chunk r.nextChunk r.cBias r.dBias).dLo !=
      (r.node.chunk r.nextChunk r.cBias r.dBias).dHi) = true := by
    simp only [Node.chunk, bne_iff_ne, ne_eq]; omega
  simp only [hi, ↓reduceIte, hleaf, Bool.not_true, Bool.false_and, Bool.false_eq_true, h1]

/-- what one `NextChunk` call on a healthy reader `r` may return -/
structure NextGood (r : Reader) (out : Reader × NextResult) : Prop where
  no_spin : out.2 ≠ .spin
  no_panic : out.2 ≠ .err .panic
  chunk : ∀ c, out.2 = .chunk c →
    ReaderInv out.1 ∧ out.1.err = none ∧ SameFile r out.1 ∧ out.1.needResolve = false ∧
    ChunkGood r.csize r.dsize c ∧ c.dLo ≤ r.seekPos ∧ r.seekPos < c.dHi ∧ out.1.seekPos = c.dHi ∧
    (∃ i, IsElem out.1 i c ∧ out.1.nextChunk = i + 1)
  eof : out.2 = .eof →
    ReaderInv out.1 ∧ out.1.err = none ∧ SameFile r out.1 ∧ r.dsize ≤ out.1.seekPos ∧
    out.1.seekPos = r.seekPos ∧ out.1.needResolve = true
  err : ∀ e, out.2 = .err e → out.1.err = some e

/-- the value of `NextChunk` when it has to resolve the seek position -/
def resolvedValue (r : Reader) : NextResult :=
  if r.seekPos ≥ r.dsize then .eof
  else match r.resolve with
    | .ok l => .chunk (l.node.chunk l.nextChunk l.cBias l.dBias)
    | .err e => .err e
    | .fuel => .spin

theorem nextLoop_resolving (k : Nat) (r : Reader) (inv : ReaderInv r) (he : r.err = none)
    (hn : r.needResolve = true) :
    NextGood r (nextLoop (k + 1) r) ∧ (nextLoop (k + 1) r).2 = resolvedValue r ∧
    (∀ c, (nextLoop (k + 1) r).2 = .chunk c → ∃ l, r.resolve = .ok l ∧
      (nextLoop (k + 1) r).1 = landed r l ∧ c = l.node.chunk l.nextChunk l.cBias l.dBias) := by
  unfold nextLoop nextPre resolvedValue
  simp only [hn, ↓reduceIte]
  by_cases hge : r.seekPos ≥ r.dsize
  · simp only [hge, ↓reduceIte]
    exact ⟨⟨(by intro h; cases h), (by intro h; cases h), (by intro c h; cases h),
      fun _ => ⟨inv, he, ⟨rfl, rfl, rfl, rfl, rfl⟩, hge, rfl, hn⟩, (by intro e h; cases h)⟩,
      (by first | rfl | trivial), (by intro c h; cases h)⟩
  · simp only [hge, ↓reduceIte]
    have hsame : Reader.resolve { r with needResolve := false } = r.resolve := rfl
    rw [hsame]
    obtain ⟨⟨hok, hnp, hnf⟩, hrank, _⟩ := resolve_spec r inv (by omega)
    cases hr : r.resolve with
    | fuel => exact absurd hr (hnf hrank)
    | err e =>
      simp only
      exact ⟨⟨(by intro h; cases h), (by intro h; cases h; exact hnp hr),
        (by intro c h; cases h), (by intro h; cases h), (by intro e' h; cases h; rfl)⟩,
        (by first | rfl | trivial), (by intro c h; cases h)⟩
    | ok l =>
      simp only
      obtain ⟨⟨linv, li, lleaf, llo, lhi⟩, _⟩ := hok l hr
      have hne : l.node.dPtr l.nextChunk < l.node.dPtr (l.nextChunk + 1) := by omega
      rw [scan_landing _ _ li lleaf hne]
      simp only
      have hel : IsElem (landed r l) l.nextChunk (l.node.chunk l.nextChunk l.cBias l.dBias) :=
        ⟨li, hne, lleaf, rfl⟩
      have hg := isElem_good (r := landed r l) linv hel
      refine ⟨⟨(by intro h; cases h), (by intro h; cases h), ?_, (by intro h; cases h),
        (by intro e h; cases h)⟩, (by first | rfl | trivial), ?_⟩
      · intro c hc
        cases hc
        show ReaderInv (landed r l) ∧ _
        refine ⟨⟨inv.csize_ge, inv.root, ?_⟩, he, ⟨rfl, rfl, rfl, rfl, rfl⟩, rfl, hg.1, ?_, ?_, rfl,
          ⟨l.nextChunk, hel, rfl⟩⟩
        · intro _
          exact ⟨linv, li, hg.2.2⟩
        · rw [hg.2.1]; exact llo
        · rw [hg.2.2]; exact lhi
      · intro c hc
        cases hc
        exact ⟨l, rfl, rfl, rfl⟩

theorem root_transfer {r r' : Reader} (h : SameFile r r')
    (hr : ∃ root, load r.file r.rootOff r.rootArity = .ok root ∧
      NodeInv r.file r.csize r.dsize root 0 0 ∧ root.dPtrMax = r.dsize ∧ root.off = r.rootOff) :
    ∃ root, load r'.file r'.rootOff r'.rootArity = .ok root ∧
      NodeInv r'.file r'.csize r'.dsize root 0 0 ∧ root.dPtrMax = r'.dsize ∧ root.off = r'.rootOff := by
  obtain ⟨h1, h2, h3, h4, h5⟩ := h
  rw [h1, h2, h3, h4, h5]; exact hr

theorem SameNode.sameFile {r r' : Reader} (h : SameNode r r') : SameFile r r' :=
  ⟨h.1, h.2.1, h.2.2.1, h.2.2.2.1, h.2.2.2.2.1⟩

/-- `NextChunk` when the current node may still have elements to return: a chunk found by
the scan starts exactly at the seek position. -/
theorem nextLoop_walking (k : Nat) (r : Reader) (inv : ReaderInv r) (he : r.err = none)
    (hn : r.needResolve = false) :
    NextGood r (nextLoop (k + 2) r) ∧
    (∀ c r', scan (r.node.arity + 1) r = .found r' c → c.dLo = r.seekPos) := by
  obtain ⟨ninv, hnc, hsp⟩ := inv.cur hn
  have hscan := scan_spec (r.node.arity + 1) r ninv.facts hnc hsp (by omega)
  refine ⟨?_, ?_⟩
  · unfold nextLoop nextPre
    simp only [hn, Bool.false_eq_true, ↓reduceIte]
    revert hscan
    cases hsc : scan (r.node.arity + 1) r with
    | found r' c =>
      simp only
      intro ⟨hsn, ⟨i, _, hel, hi1⟩, hlo, hhi⟩
      obtain ⟨s1, s2, s3, s4, s5, s6, s7, s8, s9, s10⟩ := hsn
      have hel' : IsElem r' i c := by
        unfold IsElem at hel ⊢
        rw [s6, s7, s8]; exact hel
      have ninv' : NodeInv r'.file r'.csize r'.dsize r'.node r'.cBias r'.dBias := by
        rw [s1, s2, s3, s6, s7, s8]; exact ninv
      have hg := isElem_good ninv' hel'
      have hg0 := isElem_good ninv hel
      refine ⟨(by intro h; cases h), (by intro h; cases h), ?_, (by intro h; cases h),
        (by intro e h; cases h)⟩
      intro c' hc'
      cases hc'
      refine ⟨⟨by rw [s2]; exact inv.csize_ge, root_transfer ⟨s1, s2, s3, s4, s5⟩ inv.root, ?_⟩,
        by rw [s9]; exact he, ⟨s1, s2, s3, s4, s5⟩, by rw [s10]; exact hn, hg0.1,
        by omega, by have := hg0.1.2.2.1; omega, hhi, ⟨i, hel', hi1⟩⟩
      intro _
      refine ⟨ninv', ?_, ?_⟩
      · show r'.nextChunk ≤ r'.node.arity
        have := hel'.1; omega
      · show r'.seekPos = r'.dBias + r'.node.dPtr r'.nextChunk
        rw [hhi, hi1]; exact hg.2.2
    | done r' =>
      simp only
      intro ⟨hsn, hsp', _⟩
      obtain ⟨s1, s2, s3, s4, s5, s6, s7, s8, s9, s10⟩ := hsn
      have inv'' : ReaderInv { r' with needResolve := true } :=
        ⟨by show 32 ≤ r'.csize; rw [s2]; exact inv.csize_ge,
         root_transfer (r' := { r' with needResolve := true }) ⟨s1, s2, s3, s4, s5⟩ inv.root,
         by intro h; cases h⟩
      have hng := (nextLoop_resolving k { r' with needResolve := true } inv''
        (by show r'.err = none; rw [s9]; exact he) rfl).1
      obtain ⟨g1, g2, g3, g4, g5⟩ := hng
      refine ⟨g1, g2, ?_, ?_, g5⟩
      · intro c hc
        obtain ⟨a1, a2, a3, a4, a5, a6, a7, a8, a9⟩ := g3 c hc
        obtain ⟨b1, b2, b3, b4, b5⟩ := a3
        simp only at b1 b2 b3 b4 b5 a5 a6 a7
        refine ⟨a1, a2, ⟨by rw [b1, s1], by rw [b2, s2], by rw [b3, s3], by rw [b4, s4], by rw [b5, s5]⟩,
          a4, by rw [← s2, ← s3]; exact a5, by rw [← hsp']; exact a6, by rw [← hsp']; exact a7, a8, a9⟩
      · intro hc
        obtain ⟨a1, a2, a3, a4, a5, a6⟩ := g4 hc
        obtain ⟨b1, b2, b3, b4, b5⟩ := a3
        simp only at b1 b2 b3 b4 b5 a4 a5
        refine ⟨a1, a2, ⟨by rw [b1, s1], by rw [b2, s2], by rw [b3, s3], by rw [b4, s4], by rw [b5, s5]⟩,
          by rw [← s3]; exact a4, by rw [a5, hsp'], a6⟩
  · intro c r' hsc
    rw [hsc] at hscan
    exact hscan.2.2.1

/-- `NextChunk` on a reader that opened without error and has no sticky error. -/
theorem next_good (r : Reader) (inv : ReaderInv r) (he : r.err = none) : NextGood r r.next := by
  unfold Reader.next
  rw [he]
  simp only
  cases hn : r.needResolve
  · exact (nextLoop_walking 1 r inv he hn).1
  · exact (nextLoop_resolving 2 r inv he hn).1

/-- `SeekToChunkContaining` keeps the invariant. -/
theorem seek_inv (r : Reader) (inv : ReaderInv r) (d : Int) (he : (r.seek d).1.err = none) :
    ReaderInv (r.seek d).1 ∧ SameFile r (r.seek d).1 := by
  unfold Reader.seek at he ⊢
  cases hre : r.err with
  | some e => rw [hre] at he; simp only at he; rw [hre] at he; cases he
  | none =>
    simp only
    by_cases hd : d < 0
    · simp only [hre, hd, ↓reduceIte] at he; cases he
    · simp only [hd, ↓reduceIte]
      exact ⟨⟨inv.csize_ge, inv.root, by intro h; cases h⟩, ⟨rfl, rfl, rfl, rfl, rfl⟩⟩

end WuffsVerif.Rac.ChunkReader
