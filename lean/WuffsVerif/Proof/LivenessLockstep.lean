/-
C05 — if the run that saves only the variables in `R` never reads a non-saved variable stale
(`NoViol`), it proceeds in lockstep with the ideal run (all locals persist): same values, same
branches, same events; the stores agree on every variable that is saved or not dirty.
-/
import WuffsVerif.Proof.LivenessRunPath
import WuffsVerif.Proof.LivenessSound

namespace WuffsVerif.Liveness

/-- The ideal semantics: every local persists. -/
def allSaved : Nat → Bool := fun _ => true

theorem resetStore_all (s : Store) : resetStore allSaved s = s := by
  funext v; simp [resetStore, allSaved]

theorem suspendK_all (k : Nat) (s : Store) : suspendK allSaved k s = s := by
  unfold suspendK; split <;> simp [resetStore_all]

def Agree (R τ : Nat → Bool) (s1 s2 : Store) : Prop := ∀ v, (R v = true ∨ τ v = false) → s1 v = s2 v

def NoViol (R τ : Nat → Bool) (es : List Ev) : Prop := ∀ v, R v = false → viol v (τ v) es = false

def tauAfter (τ : Nat → Bool) (es : List Ev) : Nat → Bool := fun v => taintAfter v (τ v) es

theorem tauAfter_append (τ : Nat → Bool) (e1 e2 : List Ev) :
    tauAfter τ (e1 ++ e2) = tauAfter (tauAfter τ e1) e2 := by
  funext v; simp [tauAfter, taintAfter_append]

@[simp] theorem tauAfter_nil (τ : Nat → Bool) : tauAfter τ [] = τ := rfl

theorem NoViol.append {R τ : Nat → Bool} {e1 e2 : List Ev} (h : NoViol R τ (e1 ++ e2)) :
    NoViol R τ e1 ∧ NoViol R (tauAfter τ e1) e2 := by
  constructor
  · intro v hv
    have := h v hv
    rw [viol_append] at this
    cases h1 : viol v (τ v) e1 <;> simp_all
  · intro v hv
    have := h v hv
    rw [viol_append] at this
    simp only [tauAfter]
    cases h1 : viol v (taintAfter v (τ v) e1) e2 <;> simp_all

theorem NoViol.nil (R τ : Nat → Bool) : NoViol R τ [] := fun _ _ => rfl

theorem tauAfter_reads (τ : Nat → Bool) (vs : List Nat) : tauAfter τ (vs.map Ev.rd) = τ := by
  funext v; simp [tauAfter, taint_reads]

theorem agree_reads {R τ : Nat → Bool} {s1 s2 : Store} (ha : Agree R τ s1 s2) (vs : List Nat)
    (hn : NoViol R τ (vs.map Ev.rd)) : vs.map s1 = vs.map s2 := by
  apply List.map_congr_left
  intro v hv
  apply ha v
  cases hR : R v
  · right
    have := hn v hR
    rw [viol_reads] at this
    simpa [hv] using this
  · exact Or.inl rfl

/-- the event pattern of a coroutine call (both kinds) taints everything iff it suspends -/
theorem taint_recall (v : Nat) (vs : List Nat) : ∀ (k : Nat) (t : Bool),
    taintAfter v t ((List.replicate k (Ev.susp :: vs.map Ev.rd)).flatten) = (t || decide (0 < k))
  | 0, t => by simp
  | k + 1, t => by
    simp only [List.replicate_succ, List.flatten_cons, List.cons_append, taintAfter, List.foldl_cons,
      Ev.taint, List.foldl_append]
    have h1 := taint_reads v true vs
    simp only [taintAfter] at h1
    rw [h1]
    have h2 := taint_recall v vs k true
    simp only [taintAfter] at h2
    rw [h2]
    simp

theorem viol_recall_mem (v : Nat) (vs : List Nat) (hv : v ∈ vs) (k : Nat) (t : Bool) :
    viol v t ((List.replicate (k + 1) (Ev.susp :: vs.map Ev.rd)).flatten) = true := by
  simp only [List.replicate_succ, List.flatten_cons, List.cons_append, viol, Ev.stale, Ev.taint,
    Bool.false_or]
  rw [viol_append, viol_reads]
  simp [hv]

variable {W : Type}

structure SimSt (R τ : Nat → Bool) (a b : RState W) : Prop where
  w : a.w = b.w
  log : a.log = b.log
  agree : Agree R τ a.store b.store

theorem agree_susp {R τ : Nat → Bool} {s1 s2 : Store} (ha : Agree R τ s1 s2) (k : Nat) :
    Agree R (fun v => τ v || decide (0 < k)) s1 (suspendK R k s2) := by
  intro v hv
  unfold suspendK
  by_cases hk : k = 0
  · subst hk
    simp only [Nat.lt_irrefl, decide_false, Bool.or_false] at hv
    simpa using ha v hv
  · have : 0 < k := Nat.pos_of_ne_zero hk
    simp only [this, decide_true, Bool.or_true, Bool.true_eq_false, or_false] at hv
    simp only [hk, ↓reduceIte, resetStore, hv]
    exact ha v (Or.inl hv)

theorem evalEx_lockstep (R : Nat → Bool) (cfg : Cfg W) (e : Ex) (τ : Nat → Bool) (a b : RState W)
    (hs : SimSt R τ a b) (hn : NoViol R τ (evalEx R cfg e b).2.2) :
    (evalEx allSaved cfg e a).1 = (evalEx R cfg e b).1 ∧
    (evalEx allSaved cfg e a).2.2 = (evalEx R cfg e b).2.2 ∧
    SimSt R (tauAfter τ (evalEx R cfg e b).2.2) (evalEx allSaved cfg e a).2.1 (evalEx R cfg e b).2.1 := by
  obtain ⟨ht, hl, ha⟩ := hs
  unfold evalEx at hn ⊢
  cases hc : e.coro
  · simp only [hc, Bool.false_eq_true, ↓reduceIte] at hn ⊢
    have hv := agree_reads ha e.vars hn
    rw [hv, ht, hl]
    refine ⟨rfl, trivial, rfl, rfl, ?_⟩
    simp only [exReads, tauAfter_reads]
    exact ha
  · cases hi : e.ioRecv
    · -- re-issued call
      simp only [hc, hi, ↓reduceIte, Bool.false_eq_true, suspendK_all] at hn ⊢
      have hn1 := hn.append.1
      have hv0 := agree_reads ha e.vars hn1
      have hk0 : cfg.nsusp e a.w (e.vars.map a.store) = cfg.nsusp e b.w (e.vars.map b.store) := by
        rw [hv0, ht]
      rw [hk0]
      generalize cfg.nsusp e b.w (e.vars.map b.store) = k at hn ⊢
      have htau : tauAfter τ (exReads e ++ (List.replicate k (Ev.susp :: exReads e)).flatten) =
          fun v => τ v || decide (0 < k) := by
        funext v
        simp only [tauAfter, taintAfter_append, exReads, taint_reads, taint_recall]
      have hvals : e.vars.map a.store = e.vars.map (suspendK R k b.store) := by
        by_cases hk : k = 0
        · simp only [suspendK, hk, ↓reduceIte]; exact hv0
        · apply List.map_congr_left
          intro v hv
          simp only [suspendK, hk, ↓reduceIte, resetStore]
          cases hR : R v
          · exfalso
            have h2 := hn.append.2 v hR
            obtain ⟨k', hk'⟩ := Nat.exists_eq_succ_of_ne_zero hk
            rw [hk'] at h2
            simp only [exReads] at h2
            rw [viol_recall_mem v e.vars hv] at h2
            cases h2
          · simp only [↓reduceIte]
            exact ha v (Or.inl hR)
      rw [hvals, ht, hl]
      refine ⟨rfl, rfl, rfl, rfl, ?_⟩
      rw [htau]
      exact agree_susp ha _
    · -- I/O built-in
      simp only [hc, hi, ↓reduceIte, suspendK_all] at hn ⊢
      have hn1 := hn.append.1
      have hv0 := agree_reads ha e.vars hn1
      rw [hv0, ht, hl]
      generalize cfg.nsusp e b.w (e.vars.map b.store) = k at hn ⊢
      have htau : tauAfter τ (exReads e ++ List.replicate k Ev.susp) =
          fun v => τ v || decide (0 < k) := by
        funext v
        simp only [tauAfter, taintAfter_append, exReads, taint_reads, taint_susps]
      refine ⟨rfl, rfl, rfl, rfl, ?_⟩
      rw [htau]
      exact agree_susp ha _

theorem evalExOpt_lockstep (R : Nat → Bool) (cfg : Cfg W) (oe : Option Ex) (τ : Nat → Bool) (a b : RState W)
    (hs : SimSt R τ a b) (hn : NoViol R τ (evalExOpt R cfg oe b).2) :
    (evalExOpt allSaved cfg oe a).2 = (evalExOpt R cfg oe b).2 ∧
    SimSt R (tauAfter τ (evalExOpt R cfg oe b).2) (evalExOpt allSaved cfg oe a).1 (evalExOpt R cfg oe b).1 := by
  cases oe with
  | none => exact ⟨rfl, hs⟩
  | some e =>
    have := evalEx_lockstep R cfg e τ a b hs hn
    exact ⟨this.2.1, this.2.2⟩

theorem agree_set {R τ : Nat → Bool} {s1 s2 : Store} (ha : Agree R τ s1 s2) (i x : Nat) :
    Agree R (tauAfter τ [Ev.wr i]) (setStore s1 i x) (setStore s2 i x) := by
  intro v hv
  simp only [setStore]
  by_cases hvi : v = i
  · simp [hvi]
  · simp only [hvi, ↓reduceIte]
    apply ha v
    have hiv : ¬ i = v := fun h => hvi h.symm
    simpa [tauAfter, taintAfter, Ev.taint, hiv] using hv

theorem evalAssign_lockstep (R : Nat → Bool) (cfg : Cfg W) (op : AOp) (lhs : Lhs) (rhs : Ex)
    (τ : Nat → Bool) (a b : RState W) (hs : SimSt R τ a b)
    (hn : NoViol R τ (evalAssign R cfg op lhs rhs b).2) :
    (evalAssign allSaved cfg op lhs rhs a).2 = (evalAssign R cfg op lhs rhs b).2 ∧
    SimSt R (tauAfter τ (evalAssign R cfg op lhs rhs b).2)
      (evalAssign allSaved cfg op lhs rhs a).1 (evalAssign R cfg op lhs rhs b).1 := by
  unfold evalAssign at hn ⊢
  -- the RHS, as a triple
  have hr : ∀ (hn1 : NoViol R τ (if op = AOp.eqQuestion then
          ((cfg.val rhs b.w (rhs.vars.map b.store), (⟨b.store, cfg.next rhs b.w (rhs.vars.map b.store), b.log ++ [cfg.val rhs b.w (rhs.vars.map b.store)]⟩ : RState W), exReads rhs) : Nat × RState W × List Ev)
        else evalEx R cfg rhs b).2.2),
      let r1a : Nat × RState W × List Ev := if op = AOp.eqQuestion then
          (cfg.val rhs a.w (rhs.vars.map a.store), ⟨a.store, cfg.next rhs a.w (rhs.vars.map a.store), a.log ++ [cfg.val rhs a.w (rhs.vars.map a.store)]⟩, exReads rhs)
        else evalEx allSaved cfg rhs a
      let r1b : Nat × RState W × List Ev := if op = AOp.eqQuestion then
          (cfg.val rhs b.w (rhs.vars.map b.store), ⟨b.store, cfg.next rhs b.w (rhs.vars.map b.store), b.log ++ [cfg.val rhs b.w (rhs.vars.map b.store)]⟩, exReads rhs)
        else evalEx R cfg rhs b
      r1a.1 = r1b.1 ∧ r1a.2.2 = r1b.2.2 ∧ SimSt R (tauAfter τ r1b.2.2) r1a.2.1 r1b.2.1 := by
    intro hn1
    by_cases hq : op = AOp.eqQuestion
    · simp only [hq, ↓reduceIte] at hn1 ⊢
      have hv := agree_reads hs.agree rhs.vars hn1
      rw [hv, hs.w, hs.log]
      refine ⟨rfl, trivial, rfl, rfl, ?_⟩
      simp only [exReads, tauAfter_reads]
      exact hs.agree
    · simp only [hq, ↓reduceIte] at hn1 ⊢
      exact evalEx_lockstep R cfg rhs τ a b hs hn1
  generalize hr1a : (if op = AOp.eqQuestion then
          ((cfg.val rhs a.w (rhs.vars.map a.store), (⟨a.store, cfg.next rhs a.w (rhs.vars.map a.store), a.log ++ [cfg.val rhs a.w (rhs.vars.map a.store)]⟩ : RState W), exReads rhs) : Nat × RState W × List Ev)
        else evalEx allSaved cfg rhs a) = r1a at hr ⊢
  generalize hr1b : (if op = AOp.eqQuestion then
          ((cfg.val rhs b.w (rhs.vars.map b.store), (⟨b.store, cfg.next rhs b.w (rhs.vars.map b.store), b.log ++ [cfg.val rhs b.w (rhs.vars.map b.store)]⟩ : RState W), exReads rhs) : Nat × RState W × List Ev)
        else evalEx R cfg rhs b) = r1b at hr hn ⊢
  cases lhs with
  | none =>
    simp only at hn ⊢
    obtain ⟨_, h2, h3⟩ := hr hn
    exact ⟨h2, h3⟩
  | expr e =>
    simp only at hn ⊢
    obtain ⟨_, h2, h3⟩ := hr hn.append.1
    have := evalEx_lockstep R cfg e _ r1a.2.1 r1b.2.1 h3 hn.append.2
    refine ⟨by rw [h2, this.2.1], ?_⟩
    rw [tauAfter_append]
    exact this.2.2
  | var i =>
    by_cases hop : op ≠ AOp.eq ∧ op ≠ AOp.eqQuestion
    · simp only [hop, and_self, ↓reduceIte, ne_eq, not_false_eq_true] at hn ⊢
      obtain ⟨h1, h2, h3⟩ := hr hn.append.1
      have hn2 := hn.append.2
      -- the read of i is not stale
      have hi : r1a.2.1.store i = r1b.2.1.store i := by
        apply h3.agree i
        cases hR : R i
        · right
          have := hn2.append.1 i hR
          simpa [viol, Ev.stale] using this
        · exact Or.inl rfl
      refine ⟨by rw [h2], ⟨h3.w, h3.log, ?_⟩⟩
      simp only
      rw [hi, h1, tauAfter_append, tauAfter_append]
      have e1 : tauAfter (tauAfter τ r1b.2.2) [Ev.rd i] = tauAfter τ r1b.2.2 := by
        funext v; simp [tauAfter, taintAfter, Ev.taint]
      rw [e1]
      exact agree_set h3.agree i _
    · simp only [hop, ↓reduceIte, List.nil_append] at hn ⊢
      obtain ⟨h1, h2, h3⟩ := hr hn.append.1
      refine ⟨by rw [h2], ⟨h3.w, h3.log, ?_⟩⟩
      simp only
      rw [h1, tauAfter_append]
      exact agree_set h3.agree i _

structure Sim (R τ : Nat → Bool) (r1 r2 : Res W) : Prop where
  out : r1.out = r2.out
  evs : r1.evs = r2.evs
  st : SimSt R τ r1.st r2.st

theorem agree_reset {R τ : Nat → Bool} {s1 s2 : Store} (ha : Agree R τ s1 s2) :
    Agree R (tauAfter τ [Ev.susp]) s1 (resetStore R s2) := by
  intro v hv
  have hR : R v = true := by
    simpa [tauAfter, taintAfter, Ev.taint] using hv
  simp only [resetStore, hR, ↓reduceIte]
  exact ha v (Or.inl hR)

/-- The run that saves only `R`, if it never reads a non-saved variable stale, is the ideal run. -/
theorem run_lockstep (R : Nat → Bool) (cfg : Cfg W) : ∀ (f : Nat) (task : Task) (τ : Nat → Bool) (a b : RState W),
    SimSt R τ a b → NoViol R τ (run R cfg f task b).evs →
    Sim R (tauAfter τ (run R cfg f task b).evs) (run allSaved cfg f task a) (run R cfg f task b)
  | 0, task, τ, a, b, hs, _ => by
    simp only [run]
    exact ⟨rfl, rfl, hs⟩
  | f + 1, Task.stmt s, τ, a, b, hs, hn => by
    cases s with
    | assign op lhs rhs =>
      simp only [run] at hn ⊢
      have := evalAssign_lockstep R cfg op lhs rhs τ a b hs hn
      exact ⟨rfl, this.1, this.2⟩
    | expr e =>
      simp only [run] at hn ⊢
      have := evalEx_lockstep R cfg e τ a b hs hn
      exact ⟨rfl, this.2.1, this.2.2⟩
    | iomanip io a1 hp body =>
      simp only [run] at hn ⊢
      have hn123 := hn.append.1
      have hn4 := hn.append.2
      have hn12 := hn123.append.1
      have hn3 := hn123.append.2
      have hn1 := hn12.append.1
      have hn2 := hn12.append.2
      have h1 := evalEx_lockstep R cfg io τ a b hs hn1
      have h2 := evalExOpt_lockstep R cfg a1 _ _ _ h1.2.2 hn2
      rw [← tauAfter_append] at h2
      have h3 := evalExOpt_lockstep R cfg hp _ _ _ h2.2 hn3
      rw [← tauAfter_append] at h3
      have h4 := run_lockstep R cfg f (Task.block body) _ _ _ h3.2 hn4
      rw [← tauAfter_append] at h4
      exact ⟨h4.out, by rw [h1.2.1, h2.1, h3.1, h4.evs], h4.st⟩
    | ite c thn els =>
      simp only [run] at hn ⊢
      have h1 := evalEx_lockstep R cfg c τ a b hs hn.append.1
      rw [h1.1]
      have h2 := run_lockstep R cfg f (Task.block (if (evalEx R cfg c b).1 % 2 = 1 then thn else els)) _ _ _
        h1.2.2 hn.append.2
      rw [← tauAfter_append] at h2
      exact ⟨h2.out, by rw [h1.2.1, h2.evs], h2.st⟩
    | jump isBreak k =>
      simp only [run]
      exact ⟨rfl, rfl, hs⟩
    | ret y e =>
      cases y
      · simp only [run, Bool.false_eq_true, ↓reduceIte] at hn ⊢
        have h1 := evalEx_lockstep R cfg e τ a b hs hn
        exact ⟨rfl, h1.2.1, h1.2.2⟩
      · simp only [run, ↓reduceIte] at hn ⊢
        have h1 := evalEx_lockstep R cfg e τ a b hs hn.append.1
        refine ⟨rfl, by rw [h1.2.1], ⟨h1.2.2.w, h1.2.2.log, ?_⟩⟩
        simp only [resetStore_all]
        rw [tauAfter_append]
        exact agree_reset h1.2.2.agree
    | var i =>
      simp only [run]
      exact ⟨rfl, rfl, ⟨hs.w, hs.log, agree_set hs.agree i 0⟩⟩
    | «while» wt c body =>
      simp only [run] at hn ⊢
      exact run_lockstep R cfg f (Task.loop wt c body) τ a b hs hn
  | f + 1, Task.block [], τ, a, b, hs, _ => by
    simp only [run]
    exact ⟨rfl, rfl, hs⟩
  | f + 1, Task.block (s :: rest), τ, a, b, hs, hn => by
    simp only [run] at hn ⊢
    have ih1 := run_lockstep R cfg f (Task.stmt s) τ a b hs
    generalize run R cfg f (Task.stmt s) b = r1b at hn ih1 ⊢
    generalize run allSaved cfg f (Task.stmt s) a = r1a at ih1 ⊢
    cases ho : r1b.out with
    | norm =>
      simp only [ho] at hn
      have h1 := ih1 hn.append.1
      rw [h1.out, ho]
      simp only
      have h2 := run_lockstep R cfg f (Task.block rest) _ _ _ h1.st hn.append.2
      rw [← tauAfter_append] at h2
      exact ⟨h2.out, by rw [h1.evs, h2.evs], h2.st⟩
    | brk k => simp only [ho] at hn; have h1 := ih1 hn; rw [h1.out, ho]; exact h1
    | cont k => simp only [ho] at hn; have h1 := ih1 hn; rw [h1.out, ho]; exact h1
    | ret => simp only [ho] at hn; have h1 := ih1 hn; rw [h1.out, ho]; exact h1
    | stop => simp only [ho] at hn; have h1 := ih1 hn; rw [h1.out, ho]; exact h1
  | f + 1, Task.loop wt c body, τ, a, b, hs, hn => by
    simp only [run] at hn ⊢
    by_cases hx : wt = false ∧ (evalEx R cfg c b).1 % 2 = 0
    · simp only [hx, and_self, ↓reduceIte] at hn
      have h1 := evalEx_lockstep R cfg c τ a b hs hn
      rw [h1.1]
      simp only [hx, and_self, ↓reduceIte]
      exact ⟨rfl, h1.2.1, h1.2.2⟩
    · simp only [hx, ↓reduceIte] at hn
      have ih2 := run_lockstep R cfg f (Task.block body) (tauAfter τ (evalEx R cfg c b).2.2)
        (evalEx allSaved cfg c a).2.1 (evalEx R cfg c b).2.1
      generalize hr2b : run R cfg f (Task.block body) (evalEx R cfg c b).2.1 = r2b at hn ih2
      cases hex : r2b.out.exitLoop with
      | none =>
        simp only [hex] at hn
        have hn12 := hn.append.1
        have h1 := evalEx_lockstep R cfg c τ a b hs hn12.append.1
        have h2 := ih2 h1.2.2 hn12.append.2
        rw [← tauAfter_append] at h2
        have h3 := run_lockstep R cfg f (Task.loop wt c body) _ _ _ h2.st hn.append.2
        rw [← tauAfter_append] at h3
        rw [h1.1]
        simp only [hx, ↓reduceIte, hr2b]
        rw [h2.out, hex]
        simp only [hex]
        exact ⟨h3.out, by rw [h1.2.1, h2.evs, h3.evs], h3.st⟩
      | some o' =>
        simp only [hex] at hn
        have h1 := evalEx_lockstep R cfg c τ a b hs hn.append.1
        have h2 := ih2 h1.2.2 hn.append.2
        rw [← tauAfter_append] at h2
        rw [h1.1]
        simp only [hx, ↓reduceIte, hr2b]
        rw [h2.out, hex]
        simp only [hex]
        exact ⟨rfl, by rw [h1.2.1, h2.evs], h2.st⟩

end WuffsVerif.Liveness
