/-
C06, "results never share storage with the operands": safety proofs over the heap / identity
model `Model/IntervalHeap.lean`.

`Safe n m Q` : started on any heap with at least `n` cells, the computation `m`
  * never writes a cell below `n` (every such cell has the same value afterwards),
  * never shrinks the heap, and
  * returns a value satisfying `Q`.
With `n` = the size of the heap when a public operator is entered (so: the operands' objects,
the package-level objects and every other object that existed are below `n`), `Q` = "every
non-nil result pointer is `≥ n`" says the results are new objects.
-/
import WuffsVerif.Model.IntervalHeap

namespace WuffsVerif.IntervalHeap
open WuffsVerif.Interval

/-- the heap only grew and no cell below `n` changed -/
def Frame (n : Nat) (h h' : Heap) : Prop :=
  h.size ≤ h'.size ∧ ∀ i, i < n → h'[i]? = h[i]?

theorem Frame.refl (n : Nat) (h : Heap) : Frame n h h := ⟨Nat.le_refl _, fun _ _ => rfl⟩

theorem Frame.trans {n : Nat} {h1 h2 h3 : Heap} (a : Frame n h1 h2) (b : Frame n h2 h3) :
    Frame n h1 h3 :=
  ⟨Nat.le_trans a.1 b.1, fun i hi => (b.2 i hi).trans (a.2 i hi)⟩

def Safe {α : Type} (n : Nat) (m : HM α) (Q : α → Prop) : Prop :=
  ∀ h : Heap, n ≤ h.size → ∀ (a : α) (h' : Heap), m h = some (a, h') → Frame n h h' ∧ Q a

section rules
variable {α β : Type} {n : Nat}

theorem Safe.pure {Q : α → Prop} (a : α) (hq : Q a) : Safe n (pure a : HM α) Q := by
  intro h _ a' h' e
  simp only [Pure.pure, StateT.pure, Option.some.injEq, Prod.mk.injEq] at e
  obtain ⟨rfl, rfl⟩ := e
  exact ⟨Frame.refl _ _, hq⟩

theorem Safe.bind {m : HM α} {f : α → HM β} {Q : α → Prop} {R : β → Prop}
    (hm : Safe n m Q) (hf : ∀ a, Q a → Safe n (f a) R) : Safe n (m >>= f) R := by
  intro h hn b h' e
  simp only [Bind.bind, StateT.bind] at e
  cases hmh : m h with
  | none => rw [hmh] at e; simp at e
  | some p =>
    obtain ⟨a, h1⟩ := p
    rw [hmh] at e
    simp only [Option.bind_some] at e
    obtain ⟨f1, qa⟩ := hm h hn a h1 hmh
    obtain ⟨f2, rb⟩ := hf a qa h1 (Nat.le_trans hn f1.1) b h' e
    exact ⟨f1.trans f2, rb⟩

theorem Safe.mono {m : HM α} {Q R : α → Prop} (hm : Safe n m Q) (hqr : ∀ a, Q a → R a) :
    Safe n m R := by
  intro h hn a h' e
  obtain ⟨f, q⟩ := hm h hn a h' e
  exact ⟨f, hqr a q⟩

theorem Safe.panic {Q : α → Prop} : Safe n (panic : HM α) Q := by
  intro h _ a h' e
  simp [IntervalHeap.panic] at e

/-- a new object is not one of the first `n` -/
theorem Safe.alloc (v : Int) : Safe n (alloc v) (fun a => n ≤ a) := by
  intro h hn a h' e
  simp only [IntervalHeap.alloc, Option.some.injEq, Prod.mk.injEq] at e
  obtain ⟨rfl, rfl⟩ := e
  refine ⟨⟨by simp, fun i hi => ?_⟩, hn⟩
  have h1 : i ≠ h.size := Nat.ne_of_lt (Nat.lt_of_lt_of_le hi hn)
  simp [Array.getElem?_push, h1]

theorem Safe.load (a : Addr) : Safe n (load a) (fun _ => True) := by
  intro h _ v h' e
  simp only [IntervalHeap.load, Option.some.injEq, Prod.mk.injEq] at e
  obtain ⟨_, rfl⟩ := e
  exact ⟨Frame.refl _ _, trivial⟩

/-- writing into an object at or above `n` leaves everything below `n` alone -/
theorem Safe.store {a : Addr} (ha : n ≤ a) (v : Int) : Safe n (store a v) (fun _ => True) := by
  intro h _ u h' e
  simp only [IntervalHeap.store, Option.some.injEq, Prod.mk.injEq] at e
  obtain ⟨_, rfl⟩ := e
  refine ⟨⟨by simp, fun i hi => ?_⟩, trivial⟩
  have hne : a ≠ i := Nat.ne_of_gt (Nat.lt_of_lt_of_le hi ha)
  simp [Array.getElem?_setIfInBounds, hne]

theorem Safe.ite {c : Prop} [Decidable c] {a b : HM α} {Q : α → Prop}
    (ha : c → Safe n a Q) (hb : ¬ c → Safe n b Q) : Safe n (if c then a else b) Q := by
  split
  · exact ha ‹_›
  · exact hb ‹_›

end rules

/-! ### freshness predicates -/

def FreshO (n : Nat) (p : Option Addr) : Prop := ∀ a, p = some a → n ≤ a
def FreshR (n : Nat) (z : HIR) : Prop := FreshO n z.lo ∧ FreshO n z.hi
def FreshBI (n : Nat) (b : HBI) : Prop := ∀ a, b = .fin a → n ≤ a
def FreshP (n : Nat) (p : HBIP) : Prop := FreshBI n p.lo ∧ FreshBI n p.hi

@[simp] theorem FreshO_none (n : Nat) : FreshO n none := fun _ h => by cases h
@[simp] theorem FreshO_some (n a : Nat) : FreshO n (some a) ↔ n ≤ a :=
  ⟨fun h => h a rfl, fun h _ e => by cases e; exact h⟩
@[simp] theorem FreshBI_negInf (n : Nat) : FreshBI n .negInf := fun _ h => by cases h
@[simp] theorem FreshBI_posInf (n : Nat) : FreshBI n .posInf := fun _ h => by cases h
@[simp] theorem FreshBI_fin (n a : Nat) : FreshBI n (.fin a) ↔ n ≤ a :=
  ⟨fun h => h a rfl, fun h _ e => by cases e; exact h⟩
@[simp] theorem FreshR_mk (n : Nat) (a b : Option Addr) :
    FreshR n ⟨a, b⟩ ↔ FreshO n a ∧ FreshO n b := Iff.rfl
@[simp] theorem FreshP_mk (n : Nat) (a b : HBI) :
    FreshP n ⟨a, b⟩ ↔ FreshBI n a ∧ FreshBI n b := Iff.rfl
theorem FreshP_new (n : Nat) : FreshP n HBIP.new := by simp [HBIP.new]

/-- tactic: `pure a` at the end of a block -/
macro "safe_ret" : tactic =>
  `(tactic| (refine Safe.pure _ ?_; first | trivial | simp_all))

/-- tactic: one step through a `do` block whose head is a primitive -/
macro "safe_alloc" x:ident h:ident : tactic =>
  `(tactic| (refine Safe.bind (Safe.alloc _) ?_; intro $x $h))
macro "safe_load" x:ident : tactic =>
  `(tactic| (refine Safe.bind (Safe.load _) ?_; intro $x _))

/-! ### reading -/

theorem loadB_safe (n : Nat) (p : Option Addr) : Safe n (loadB p) (fun _ => True) := by
  unfold loadB
  split
  · safe_ret
  · safe_load v
    safe_ret

theorem view_safe (n : Nat) (x : HIR) : Safe n (view x) (fun _ => True) := by
  unfold view
  refine Safe.bind (loadB_safe n _) ?_; intro lo _
  refine Safe.bind (loadB_safe n _) ?_; intro hi _
  safe_ret

theorem viewBI_safe (n : Nat) (b : HBI) : Safe n (viewBI b) (fun _ => True) := by
  unfold viewBI
  split
  · safe_ret
  · safe_ret
  · safe_load v
    safe_ret

macro "safe_view" x:ident : tactic =>
  `(tactic| (refine Safe.bind (view_safe _ _) ?_; intro $x _))

/-! ### allocation helpers -/

theorem makeEmptyRange_safe (n : Nat) : Safe n makeEmptyRange (FreshR n) := by
  unfold makeEmptyRange
  safe_alloc a ha
  safe_alloc b hb
  safe_ret

theorem zeroRange_safe (n : Nat) : Safe n zeroRange (FreshR n) := by
  unfold zeroRange
  safe_alloc a ha
  safe_alloc b hb
  safe_ret

theorem bigIntNewSet_safe (n : Nat) (p : Option Addr) : Safe n (bigIntNewSet p) (FreshO n) := by
  unfold bigIntNewSet
  split
  · safe_ret
  · safe_load v
    safe_alloc z hz
    safe_ret

theorem bigIntNewNot_safe (n : Nat) (p : Option Addr) : Safe n (bigIntNewNot p) (FreshO n) := by
  unfold bigIntNewNot
  split
  · safe_ret
  · safe_load v
    safe_alloc z hz
    safe_ret

theorem allocOpt_safe (n : Nat) (v : Option Int) : Safe n (allocOpt v) (FreshO n) := by
  unfold allocOpt
  split
  · safe_ret
  · safe_alloc z hz
    safe_ret

/-- a pair of freshly allocated bounds -/
theorem pair_safe (n : Nat) {m1 m2 : HM (Option Addr)} (h1 : Safe n m1 (FreshO n))
    (h2 : Safe n m2 (FreshO n)) :
    Safe n (do let lo ← m1; let hi ← m2; Pure.pure (HIR.mk lo hi)) (FreshR n) := by
  refine Safe.bind h1 ?_; intro lo hlo
  refine Safe.bind h2 ?_; intro hi hhi
  exact Safe.pure _ ⟨hlo, hhi⟩

/-! ### the sign splits: no writes (their results hold operand and package-level pointers) -/

theorem split2Ways_safe (n : Nat) (x : HIR) : Safe n (split2Ways x) (fun _ => True) := by
  unfold split2Ways
  safe_view X
  refine Safe.ite (fun _ => ?_) (fun _ => ?_)
  · safe_ret
  refine Safe.ite (fun _ => ?_) (fun _ => ?_)
  · safe_ret
  refine Safe.ite (fun _ => ?_) (fun _ => ?_)
  · safe_ret
  safe_alloc m1 _h1
  safe_alloc z _h2
  safe_ret

theorem split3Ways_safe (n : Nat) (x : HIR) : Safe n (split3Ways x) (fun _ => True) := by
  unfold split3Ways
  safe_view X
  refine Safe.ite (fun _ => ?_) (fun _ => ?_)
  · safe_ret
  refine Safe.ite (fun _ => ?_) (fun _ => ?_)
  · safe_ret
  refine Safe.ite (fun _ => ?_) (fun _ => ?_)
  · safe_ret
  safe_alloc m1 _h1
  safe_alloc p1 _h2
  safe_view N
  safe_view P
  safe_ret

/-! ### Unite, Intersect, Add, Sub -/

theorem unite_safe (n : Nat) (x y : HIR) : Safe n (unite x y) (FreshR n) := by
  unfold unite
  safe_view X
  safe_view Y
  refine Safe.ite (fun _ => ?_) (fun _ => ?_)
  · exact pair_safe n (bigIntNewSet_safe n _) (bigIntNewSet_safe n _)
  refine Safe.ite (fun _ => ?_) (fun _ => ?_)
  · exact pair_safe n (bigIntNewSet_safe n _) (bigIntNewSet_safe n _)
  · exact pair_safe n (allocOpt_safe n _) (allocOpt_safe n _)

theorem intersect_safe (n : Nat) (x y : HIR) : Safe n (intersect x y) (FreshR n) := by
  unfold intersect
  safe_view X
  safe_view Y
  refine Safe.ite (fun _ => ?_) (fun _ => ?_)
  · exact makeEmptyRange_safe n
  · exact pair_safe n (allocOpt_safe n _) (allocOpt_safe n _)

theorem add_safe (n : Nat) (x y : HIR) : Safe n (add x y) (FreshR n) := by
  unfold add
  safe_view X
  safe_view Y
  refine Safe.ite (fun _ => ?_) (fun _ => ?_)
  · exact makeEmptyRange_safe n
  · exact pair_safe n (allocOpt_safe n _) (allocOpt_safe n _)

theorem sub_safe (n : Nat) (x y : HIR) : Safe n (sub x y) (FreshR n) := by
  unfold sub
  safe_view X
  safe_view Y
  refine Safe.ite (fun _ => ?_) (fun _ => ?_)
  · exact makeEmptyRange_safe n
  · exact pair_safe n (allocOpt_safe n _) (allocOpt_safe n _)

/-- tactic: a call of an already verified function at the head of a `do` block -/
macro "safe_call" l:term " => " x:ident h:ident : tactic =>
  `(tactic| (refine Safe.bind $l ?_; intro $x $h))

/-! ### `biggerIntPair` -/

theorem lowerMin_safe {n : Nat} {p : HBIP} {y : HBI} (hp : FreshP n p) (hy : FreshBI n y) :
    Safe n (lowerMin p y) (FreshP n) := by
  unfold lowerMin
  safe_call (viewBI_safe n _) => l _hl
  safe_call (viewBI_safe n _) => yv _hy
  refine Safe.pure _ ?_
  split
  · exact ⟨hy, hp.2⟩
  · exact hp

theorem raiseMax_safe {n : Nat} {p : HBIP} {y : HBI} (hp : FreshP n p) (hy : FreshBI n y) :
    Safe n (raiseMax p y) (FreshP n) := by
  unfold raiseMax
  safe_call (viewBI_safe n _) => l _hl
  safe_call (viewBI_safe n _) => yv _hy
  refine Safe.pure _ ?_
  split
  · exact ⟨hp.1, hy⟩
  · exact hp

theorem toIntRange_safe {n : Nat} {p : HBIP} (hp : FreshP n p) :
    Safe n (toIntRange p) (FreshR n) := by
  obtain ⟨lo, hi⟩ := p
  obtain ⟨h1, h2⟩ := hp
  cases lo <;> cases hi <;>
    first
    | exact makeEmptyRange_safe n
    | (refine Safe.pure _ ?_; simp_all)

theorem copyBI_safe (n : Nat) (p : Option Addr) {inf : HBI} (hinf : FreshBI n inf) :
    Safe n (copyBI p inf) (FreshBI n) := by
  unfold copyBI
  split
  · safe_load v
    safe_alloc z hz
    safe_ret
  · exact Safe.pure _ hinf

theorem fromIntRange_safe (n : Nat) (y : HIR) : Safe n (fromIntRange y) (FreshP n) := by
  unfold fromIntRange
  safe_call (copyBI_safe n _ (by simp)) => lo hlo
  safe_call (copyBI_safe n _ (by simp)) => hi hhi
  exact Safe.pure _ ⟨hlo, hhi⟩

theorem zeroPair_safe (n : Nat) : Safe n zeroPair (FreshP n) := by
  unfold zeroPair
  safe_alloc a ha
  safe_alloc b hb
  safe_ret

theorem combine_safe (n : Nat) (f : Int → Int → Int) (p q : Option Addr) :
    Safe n (combine f p q) (FreshBI n) := by
  unfold combine
  safe_call (loadB_safe n _) => a _ha
  safe_call (loadB_safe n _) => b _hb
  safe_alloc z hz
  safe_ret

theorem combineQuo_safe (n : Nat) (p q : Option Addr) :
    Safe n (combineQuo p q) (FreshBI n) := by
  unfold combineQuo
  safe_call (loadB_safe n _) => a _ha
  safe_call (loadB_safe n _) => b _hb
  refine Safe.ite (fun _ => Safe.panic) (fun _ => ?_)
  safe_alloc z hz
  safe_ret

theorem newBI_safe (n : Nat) (v : Int) : Safe n (newBI v) (FreshBI n) := by
  unfold newBI
  safe_alloc z hz
  safe_ret

theorem inf_safe (n : Nat) {b : HBI} (hb : FreshBI n b) : Safe n (Pure.pure b : HM HBI) (FreshBI n) :=
  Safe.pure _ hb

theorem choose_safe {n : Nat} (g : Bool) {alt c : HM HBI} (ha : Safe n alt (FreshBI n))
    (hc : Safe n c (FreshBI n)) : Safe n (choose g alt c) (FreshBI n) := by
  unfold choose
  exact Safe.ite (fun _ => ha) (fun _ => hc)

theorem stepLo_safe {n : Nat} {ret : HBIP} {b : HM HBI} (hret : FreshP n ret)
    (hb : Safe n b (FreshBI n)) : Safe n (stepLo ret b) (FreshP n) := by
  unfold stepLo
  safe_call hb => v hv
  exact lowerMin_safe hret hv

theorem stepHi_safe {n : Nat} {ret : HBIP} {b : HM HBI} (hret : FreshP n ret)
    (hb : Safe n b (FreshBI n)) : Safe n (stepHi ret b) (FreshP n) := by
  unfold stepHi
  safe_call hb => v hv
  exact raiseMax_safe hret hv

theorem optBlock_safe {n : Nat} (c : Bool) {blk : HBIP → HM HBIP} {ret : HBIP}
    (hret : FreshP n ret) (hb : ∀ r, FreshP n r → Safe n (blk r) (FreshP n)) :
    Safe n (optBlock c blk ret) (FreshP n) := by
  unfold optBlock
  exact Safe.ite (fun _ => hb ret hret) (fun _ => Safe.pure _ hret)

/-! ### `mulLsh`, `TryQuo`, `TryRsh` -/

/-- a block made of one `lowerMin` and one `raiseMax` statement -/
theorem twoSteps_safe {n : Nat} {ret : HBIP} (hret : FreshP n ret) {s1 : HBIP → HM HBIP}
    {s2 : HBIP → HM HBIP} (h1 : ∀ r, FreshP n r → Safe n (s1 r) (FreshP n))
    (h2 : ∀ r, FreshP n r → Safe n (s2 r) (FreshP n)) :
    Safe n (do let r ← s1 ret; s2 r) (FreshP n) :=
  Safe.bind (h1 ret hret) h2

section blocks
variable {n : Nat} {ret : HBIP} (hret : FreshP n ret)
include hret

theorem mulNN_safe (f : Int → Int → Int) (a b : HIR) : Safe n (mulNN f a b ret) (FreshP n) := by
  unfold mulNN
  exact twoSteps_safe hret (fun _ hr => stepLo_safe hr (combine_safe n _ _ _))
    (fun _ hr => stepHi_safe hr (choose_safe _ (inf_safe n (by simp)) (combine_safe n _ _ _)))

theorem mulNP_safe (f : Int → Int → Int) (a b : HIR) : Safe n (mulNP f a b ret) (FreshP n) := by
  unfold mulNP
  exact twoSteps_safe hret
    (fun _ hr => stepLo_safe hr (choose_safe _ (inf_safe n (by simp)) (combine_safe n _ _ _)))
    (fun _ hr => stepHi_safe hr (combine_safe n _ _ _))

theorem mulPN_safe (f : Int → Int → Int) (a b : HIR) : Safe n (mulPN f a b ret) (FreshP n) := by
  unfold mulPN
  exact twoSteps_safe hret
    (fun _ hr => stepLo_safe hr (choose_safe _ (inf_safe n (by simp)) (combine_safe n _ _ _)))
    (fun _ hr => stepHi_safe hr (combine_safe n _ _ _))

theorem mulPP_safe (f : Int → Int → Int) (a b : HIR) : Safe n (mulPP f a b ret) (FreshP n) := by
  unfold mulPP
  exact twoSteps_safe hret (fun _ hr => stepLo_safe hr (combine_safe n _ _ _))
    (fun _ hr => stepHi_safe hr (choose_safe _ (inf_safe n (by simp)) (combine_safe n _ _ _)))

theorem quoNN_safe (a b : HIR) : Safe n (quoNN a b ret) (FreshP n) := by
  unfold quoNN
  exact twoSteps_safe hret
    (fun _ hr => stepHi_safe hr (choose_safe _ (inf_safe n (by simp)) (combineQuo_safe n _ _)))
    (fun _ hr => stepLo_safe hr (choose_safe _ (newBI_safe n _) (combineQuo_safe n _ _)))

theorem quoNP_safe (a b : HIR) : Safe n (quoNP a b ret) (FreshP n) := by
  unfold quoNP
  exact twoSteps_safe hret
    (fun _ hr => stepLo_safe hr (choose_safe _ (inf_safe n (by simp)) (combineQuo_safe n _ _)))
    (fun _ hr => stepHi_safe hr (choose_safe _ (newBI_safe n _) (combineQuo_safe n _ _)))

theorem quoPN_safe (a b : HIR) : Safe n (quoPN a b ret) (FreshP n) := by
  unfold quoPN
  exact twoSteps_safe hret
    (fun _ hr => stepLo_safe hr (choose_safe _ (inf_safe n (by simp)) (combineQuo_safe n _ _)))
    (fun _ hr => stepHi_safe hr (choose_safe _ (newBI_safe n _) (combineQuo_safe n _ _)))

theorem quoPP_safe (a b : HIR) : Safe n (quoPP a b ret) (FreshP n) := by
  unfold quoPP
  exact twoSteps_safe hret
    (fun _ hr => stepHi_safe hr (choose_safe _ (inf_safe n (by simp)) (combineQuo_safe n _ _)))
    (fun _ hr => stepLo_safe hr (choose_safe _ (newBI_safe n _) (combineQuo_safe n _ _)))

theorem rshN_safe (a b : HIR) : Safe n (rshN a b ret) (FreshP n) := by
  unfold rshN
  exact twoSteps_safe hret
    (fun _ hr => stepLo_safe hr (choose_safe _ (inf_safe n (by simp)) (combine_safe n _ _ _)))
    (fun _ hr => stepHi_safe hr (choose_safe _ (newBI_safe n _) (combine_safe n _ _ _)))

theorem rshP_safe (a b : HIR) : Safe n (rshP a b ret) (FreshP n) := by
  unfold rshP
  exact twoSteps_safe hret
    (fun _ hr => stepLo_safe hr (choose_safe _ (newBI_safe n _) (combine_safe n _ _ _)))
    (fun _ hr => stepHi_safe hr (choose_safe _ (inf_safe n (by simp)) (combine_safe n _ _ _)))

end blocks

theorem mulInit_safe (n : Nat) (x : HIR) (a b c : Bool) : Safe n (mulInit x a b c) (FreshP n) := by
  unfold mulInit
  refine Safe.ite (fun _ => fromIntRange_safe n x) (fun _ => ?_)
  refine Safe.ite (fun _ => zeroPair_safe n) (fun _ => ?_)
  exact Safe.pure _ (FreshP_new n)

theorem zeroInit_safe (n : Nat) (c : Bool) : Safe n (zeroInit c) (FreshP n) := by
  unfold zeroInit
  exact Safe.ite (fun _ => zeroPair_safe n) (fun _ => Safe.pure _ (FreshP_new n))

theorem mulLsh_safe (n : Nat) (x y : HIR) (shift : Bool) :
    Safe n (mulLsh x y shift) (FreshR n) := by
  unfold mulLsh
  safe_view X
  safe_view Y
  refine Safe.ite (fun _ => makeEmptyRange_safe n) (fun _ => ?_)
  refine Safe.ite (fun _ => zeroRange_safe n) (fun _ => ?_)
  safe_call (split3Ways_safe n x) => sx _hsx
  obtain ⟨negX, posX, hasNegX, hasZeroX, hasPosX⟩ := sx
  safe_call (split3Ways_safe n y) => sy _hsy
  obtain ⟨negY, posY, hasNegY, hasZeroY, hasPosY⟩ := sy
  safe_call (mulInit_safe n x _ _ _) => r0 h0
  refine Safe.bind (optBlock_safe _ h0 (fun r hr => twoSteps_safe hr
    (fun r hr => optBlock_safe _ hr (fun r hr => mulNN_safe hr _ _ _))
    (fun r hr => optBlock_safe _ hr (fun r hr => mulNP_safe hr _ _ _)))) ?_
  intro r1 h1
  refine Safe.bind (optBlock_safe _ h1 (fun r hr => twoSteps_safe hr
    (fun r hr => optBlock_safe _ hr (fun r hr => mulPN_safe hr _ _ _))
    (fun r hr => optBlock_safe _ hr (fun r hr => mulPP_safe hr _ _ _)))) ?_
  intro r2 h2
  exact toIntRange_safe h2

/-- results wrapped in `ok`: every range returned is fresh -/
def FreshOk (n : Nat) (r : Option HIR) : Prop := ∀ z, r = some z → FreshR n z

theorem FreshOk_none (n : Nat) : FreshOk n none := fun _ e => by cases e

theorem okRange_safe {n : Nat} {m : HM HIR} (hm : Safe n m (FreshR n)) :
    Safe n (okRange m) (FreshOk n) := by
  unfold okRange
  refine Safe.bind hm ?_
  intro z hz
  refine Safe.pure _ ?_
  intro z' e; cases e; exact hz

theorem tryLsh_safe (n : Nat) (x y : HIR) : Safe n (tryLsh x y) (FreshOk n) := by
  unfold tryLsh
  safe_view X
  safe_view Y
  exact Safe.ite (fun _ => Safe.pure _ (FreshOk_none n))
    (fun _ => okRange_safe (mulLsh_safe n x y true))

theorem tryQuo_safe (n : Nat) (x y : HIR) : Safe n (tryQuo x y) (FreshOk n) := by
  unfold tryQuo
  safe_view X
  safe_view Y
  refine Safe.ite (fun _ => okRange_safe (makeEmptyRange_safe n)) (fun _ => ?_)
  refine Safe.ite (fun _ => Safe.pure _ (FreshOk_none n)) (fun _ => ?_)
  refine Safe.ite (fun _ => okRange_safe (zeroRange_safe n)) (fun _ => ?_)
  safe_call (split3Ways_safe n x) => sx _hsx
  obtain ⟨negX, posX, hasNegX, hasZeroX, hasPosX⟩ := sx
  safe_call (split3Ways_safe n y) => sy _hsy
  obtain ⟨negY, posY, hasNegY, hasZeroY, hasPosY⟩ := sy
  safe_call (zeroInit_safe n _) => r0 h0
  refine Safe.bind (optBlock_safe _ h0 (fun r hr => twoSteps_safe hr
    (fun r hr => optBlock_safe _ hr (fun r hr => quoNN_safe hr _ _))
    (fun r hr => optBlock_safe _ hr (fun r hr => quoNP_safe hr _ _)))) ?_
  intro r1 h1
  refine Safe.bind (optBlock_safe _ h1 (fun r hr => twoSteps_safe hr
    (fun r hr => optBlock_safe _ hr (fun r hr => quoPN_safe hr _ _))
    (fun r hr => optBlock_safe _ hr (fun r hr => quoPP_safe hr _ _)))) ?_
  intro r2 h2
  exact okRange_safe (toIntRange_safe h2)

theorem tryRsh_safe (n : Nat) (x y : HIR) : Safe n (tryRsh x y) (FreshOk n) := by
  unfold tryRsh
  safe_view X
  safe_view Y
  refine Safe.ite (fun _ => okRange_safe (makeEmptyRange_safe n)) (fun _ => ?_)
  refine Safe.ite (fun _ => Safe.pure _ (FreshOk_none n)) (fun _ => ?_)
  refine Safe.ite (fun _ => okRange_safe (zeroRange_safe n)) (fun _ => ?_)
  safe_call (split3Ways_safe n x) => sx _hsx
  obtain ⟨negX, posX, hasNegX, hasZeroX, hasPosX⟩ := sx
  safe_call (zeroInit_safe n _) => r0 h0
  safe_call (optBlock_safe _ h0 (fun r hr => rshN_safe hr _ _)) => r1 h1
  safe_call (optBlock_safe _ h1 (fun r hr => rshP_safe hr _ _)) => r2 h2
  exact okRange_safe (toIntRange_safe h2)

/-! ### bit operations -/

theorem bitFillRight_safe {n : Nat} {i : Addr} (hi : n ≤ i) :
    Safe n (bitFillRight i) (fun _ => True) := by
  unfold bitFillRight
  safe_load v
  refine Safe.ite (fun _ => Safe.panic) (fun _ => ?_)
  refine Safe.ite (fun _ => Safe.pure _ trivial) (fun _ => ?_)
  exact Safe.store hi _

/-- `bitMask` may return a pointer into the package-level table: no freshness claim, no write -/
theorem bitMask_safe (n n0 n1 : Nat) : Safe n (bitMask n0 n1) (fun _ => True) := by
  unfold bitMask
  refine Safe.ite (fun _ => Safe.pure _ trivial) (fun _ => ?_)
  exact Safe.mono (Safe.alloc _) (fun _ _ => trivial)

theorem andMax_safe (n : Nat) (a b c d : Addr) : Safe n (andMax a b c d) (fun z => n ≤ z) := by
  unfold andMax
  safe_load va
  safe_load vb
  safe_load vc
  safe_load vd
  refine Safe.ite (fun _ => Safe.alloc _) (fun _ => ?_)
  safe_alloc i _hi
  safe_alloc j hj
  safe_alloc k hk
  split
  · exact Safe.panic
  · safe_call (Safe.store hj _) => u1 _h1
    safe_call (Safe.store hk _) => u2 _h2
    exact Safe.pure _ hj

theorem orMax_safe (n : Nat) (a b c d : Addr) : Safe n (orMax a b c d) (fun z => n ≤ z) := by
  unfold orMax
  safe_load va
  safe_load vb
  safe_load vc
  safe_load vd
  safe_alloc i _hi
  safe_alloc j hj
  split
  · exact Safe.panic
  · safe_call (Safe.store hj _) => u1 _h1
    exact Safe.pure _ hj

theorem notRangeFin_safe (n : Nat) (lo hi : Addr) :
    Safe n (notRangeFin lo hi) (fun p => n ≤ p.1 ∧ n ≤ p.2) := by
  unfold notRangeFin
  safe_load b
  safe_alloc p hp
  safe_load a
  safe_alloc q hq
  exact Safe.pure _ ⟨hp, hq⟩

theorem andBothNonNeg_safe (n : Nat) (x y : HIR) : Safe n (andBothNonNeg x y) (FreshR n) := by
  unfold andBothNonNeg
  safe_view X
  safe_view Y
  refine Safe.ite (fun _ => Safe.panic) (fun _ => ?_)
  split
  · split
    · safe_call (andMax_safe n _ _ _ _) => zMax hzMax
      safe_call (notRangeFin_safe n _ _) => nx hnx
      obtain ⟨nxl, nxh⟩ := nx
      safe_call (notRangeFin_safe n _ _) => ny hny
      obtain ⟨nyl, nyh⟩ := ny
      safe_call (orMax_safe n _ _ _ _) => zMin hzMin
      safe_load m
      safe_call (Safe.store hzMin _) => u _hu
      safe_ret
    · safe_alloc z hz
      safe_load v
      safe_alloc w hw
      safe_ret
    · safe_alloc z hz
      safe_load v
      safe_alloc w hw
      safe_ret
    · safe_alloc z hz
      safe_ret
  · exact Safe.panic

theorem orTail_safe (n : Nat) (a b c d : Addr) {zMax : Option Addr} (hz : FreshO n zMax) :
    Safe n (orTail a b c d zMax) (FreshR n) := by
  unfold orTail
  safe_call (notRangeFin_safe n _ _) => nx hnx
  obtain ⟨nxl, nxh⟩ := nx
  safe_call (notRangeFin_safe n _ _) => ny hny
  obtain ⟨nyl, nyh⟩ := ny
  safe_call (andMax_safe n _ _ _ _) => zMin hzMin
  safe_load m
  safe_call (Safe.store hzMin _) => u _hu
  exact Safe.pure _ ⟨by simp [hzMin], hz⟩

theorem orHalfInfinite_safe (n : Nat) (X Y : IR) (xlo ylo : Addr) (xhi yhi : Option Addr) :
    Safe n (orHalfInfinite X Y xlo ylo xhi yhi) (FreshR n) := by
  unfold orHalfInfinite
  safe_load xl
  safe_load yl
  refine Safe.ite (fun _ => ?_) (fun _ => ?_)
  · safe_alloc z hz
    safe_ret
  refine Safe.ite (fun _ => ?_) (fun _ => ?_)
  · safe_alloc z hz
    safe_ret
  split
  · exact Safe.panic
  · safe_load xh
    refine Safe.ite (fun _ => Safe.panic) (fun _ => ?_)
    safe_alloc f hf
    safe_call (bitFillRight_safe hf) => u _hu
    exact orTail_safe n _ _ _ _ (by simp)
  · safe_load yh
    refine Safe.ite (fun _ => Safe.panic) (fun _ => ?_)
    safe_alloc f hf
    safe_call (bitFillRight_safe hf) => u _hu
    exact orTail_safe n _ _ _ _ (by simp)

theorem orBothNonNeg_safe (n : Nat) (x y : HIR) : Safe n (orBothNonNeg x y) (FreshR n) := by
  unfold orBothNonNeg
  safe_view X
  safe_view Y
  refine Safe.ite (fun _ => Safe.panic) (fun _ => ?_)
  split
  · split
    · safe_call (orMax_safe n _ _ _ _) => zMax hzMax
      exact orTail_safe n _ _ _ _ (by simp [hzMax])
    · exact orHalfInfinite_safe n _ _ _ _ _ _
  · exact Safe.panic

theorem andOneNegOneNonNeg_safe (n : Nat) (neg non : HIR) :
    Safe n (andOneNegOneNonNeg neg non) (FreshR n) := by
  unfold andOneNegOneNonNeg
  safe_view N
  safe_view O
  refine Safe.ite (fun _ => Safe.panic) (fun _ => ?_)
  split
  · safe_alloc z hz
    safe_call (bigIntNewSet_safe n _) => w hw
    exact Safe.pure _ ⟨by simp [hz], hw⟩
  · split
    · safe_load nl
      safe_load nh
      split
      · safe_load ol
        safe_call (bitMask_safe n _ _) => mask _hm
        safe_load mv
        safe_alloc b0 hb0
        safe_alloc b1 hb1
        safe_call (andBothNonNeg_safe n _ _) => w hw
        exact Safe.pure _ ⟨hw.1, by simp⟩
      · safe_load oh
        safe_call (bitMask_safe n _ _) => mask _hm
        safe_load mv
        safe_alloc b0 hb0
        safe_alloc b1 hb1
        exact andBothNonNeg_safe n _ _
    · exact Safe.panic

theorem notSwap_safe (n : Nat) (r : HIR) : Safe n (notSwap r) (FreshR n) := by
  unfold notSwap
  exact pair_safe n (bigIntNewNot_safe n _) (bigIntNewNot_safe n _)

theorem viaNot_safe (n : Nat) {f : HIR → HIR → HM HIR} (hf : ∀ a b, Safe n (f a b) (FreshR n))
    (a b : HIR) : Safe n (viaNot f a b) (FreshR n) := by
  unfold viaNot
  safe_call (notSwap_safe n _) => na _hna
  safe_call (notSwap_safe n _) => nb _hnb
  safe_call (hf _ _) => w _hw
  exact notSwap_safe n _

theorem orOneNegOneNonNeg_safe (n : Nat) (neg non : HIR) :
    Safe n (orOneNegOneNonNeg neg non) (FreshR n) := by
  unfold orOneNegOneNonNeg
  exact viaNot_safe n (andOneNegOneNonNeg_safe n) _ _

/-! `inPlaceUnite` writes into the receiver's objects: the receiver must be fresh -/

theorem storeIf_safe {n : Nat} (c : Bool) {p : Addr} (hp : n ≤ p) (v : Int) :
    Safe n (storeIf c p v) (fun _ => True) := by
  unfold storeIf
  exact Safe.ite (fun _ => Safe.store hp _) (fun _ => Safe.pure _ trivial)

theorem ipuTake_safe {n : Nat} {p : Option Addr} (hp : FreshO n p) (yv : Option Int) :
    Safe n (ipuTake p yv) (FreshO n) := by
  unfold ipuTake
  split
  · rename_i a v
    have ha : n ≤ a := hp a rfl
    safe_call (Safe.store ha _) => u _hu
    safe_ret
  · safe_ret

theorem ipuBound_safe {n : Nat} (lower : Bool) {p : Option Addr} (hp : FreshO n p)
    (yv : Option Int) : Safe n (ipuBound lower p yv) (FreshO n) := by
  unfold ipuBound
  split
  · rename_i a b
    have ha : n ≤ a := hp a rfl
    safe_load v
    safe_call (storeIf_safe _ ha _) => u _hu
    safe_ret
  · safe_ret

theorem ipuEmpty_safe {n : Nat} (c : Bool) {x : HIR} (hx : FreshR n x) (Y : IR) :
    Safe n (ipuEmpty c x Y) (FreshR n) := by
  unfold ipuEmpty
  exact Safe.ite (fun _ => pair_safe n (ipuTake_safe hx.1 _) (ipuTake_safe hx.2 _))
    (fun _ => Safe.pure _ hx)

theorem inPlaceUnite_safe {n : Nat} {x : HIR} (hx : FreshR n x) (y : HIR) :
    Safe n (inPlaceUnite x y) (FreshR n) := by
  unfold inPlaceUnite
  safe_view Y
  refine Safe.ite (fun _ => Safe.pure _ hx) (fun _ => ?_)
  safe_view X
  safe_call (ipuEmpty_safe _ hx _) => x1 hx1
  exact pair_safe n (ipuBound_safe _ hx1.1 _) (ipuBound_safe _ hx1.2 _)

theorem uniteIf_safe {n : Nat} (c : Bool) {z : HIR} (hz : FreshR n z) {part : HM HIR}
    (hp : Safe n part (FreshR n)) : Safe n (uniteIf c z part) (FreshR n) := by
  unfold uniteIf
  refine Safe.ite (fun _ => ?_) (fun _ => Safe.pure _ hz)
  safe_call hp => w _hw
  exact inPlaceUnite_safe hz _

theorem and_safe (n : Nat) (x y : HIR) : Safe n (and x y) (FreshR n) := by
  unfold IntervalHeap.and
  safe_view X
  safe_view Y
  refine Safe.ite (fun _ => makeEmptyRange_safe n) (fun _ => ?_)
  refine Safe.ite (fun _ => andBothNonNeg_safe n x y) (fun _ => ?_)
  safe_call (split2Ways_safe n x) => sx _hsx
  obtain ⟨negX, nonX, hasNegX, hasNonX⟩ := sx
  safe_call (split2Ways_safe n y) => sy _hsy
  obtain ⟨negY, nonY, hasNegY, hasNonY⟩ := sy
  safe_call (makeEmptyRange_safe n) => z0 h0
  safe_call (uniteIf_safe _ h0 (viaNot_safe n (orBothNonNeg_safe n) _ _)) => z1 h1
  safe_call (uniteIf_safe _ h1 (andOneNegOneNonNeg_safe n _ _)) => z2 h2
  safe_call (uniteIf_safe _ h2 (andOneNegOneNonNeg_safe n _ _)) => z3 h3
  exact uniteIf_safe _ h3 (andBothNonNeg_safe n _ _)

theorem or_safe (n : Nat) (x y : HIR) : Safe n (or x y) (FreshR n) := by
  unfold IntervalHeap.or
  safe_view X
  safe_view Y
  refine Safe.ite (fun _ => makeEmptyRange_safe n) (fun _ => ?_)
  refine Safe.ite (fun _ => orBothNonNeg_safe n x y) (fun _ => ?_)
  safe_call (split2Ways_safe n x) => sx _hsx
  obtain ⟨negX, nonX, hasNegX, hasNonX⟩ := sx
  safe_call (split2Ways_safe n y) => sy _hsy
  obtain ⟨negY, nonY, hasNegY, hasNonY⟩ := sy
  safe_call (makeEmptyRange_safe n) => z0 h0
  safe_call (uniteIf_safe _ h0 (viaNot_safe n (andBothNonNeg_safe n) _ _)) => z1 h1
  safe_call (uniteIf_safe _ h1 (orOneNegOneNonNeg_safe n _ _)) => z2 h2
  safe_call (uniteIf_safe _ h2 (orOneNegOneNonNeg_safe n _ _)) => z3 h3
  exact uniteIf_safe _ h3 (orBothNonNeg_safe n _ _)

/-! ### all ten operators -/

theorem runOp_safe (n : Nat) (op : Op) (x y : HIR) : Safe n (runOp op x y) (FreshOk n) := by
  cases op <;> simp only [runOp]
  · exact okRange_safe (add_safe n x y)
  · exact okRange_safe (sub_safe n x y)
  · exact okRange_safe (mulLsh_safe n x y false)
  · exact tryQuo_safe n x y
  · exact tryLsh_safe n x y
  · exact tryRsh_safe n x y
  · exact okRange_safe (and_safe n x y)
  · exact okRange_safe (or_safe n x y)
  · exact okRange_safe (unite_safe n x y)
  · exact okRange_safe (intersect_safe n x y)

end WuffsVerif.IntervalHeap
