/-
C06: the heap / identity model refines the value model for `And` / `Or` too.

These operators' helpers update objects in place (`zMin.Not(zMin)`, `bitFillRight(y[1])`,
`z.inPlaceUnite(..)`), always objects allocated during the call.  `TotN n m h P`: total
correctness with the frame "cells below `n` are unchanged" (`n` = the heap size when the enclosing
function was entered), so that stores to cells at or above `n` are allowed; a function as a whole
again satisfies `Tot` (= `TotN h.size`): it leaves every cell that existed at its entry alone.
-/
import WuffsVerif.Proof.IntervalHeapRefine

namespace WuffsVerif.IntervalHeap
open WuffsVerif.Interval

def TotN {α : Type} (n : Nat) (m : HM α) (h : Heap) (P : α → Heap → Prop) : Prop :=
  ∃ a h', m h = some (a, h') ∧ Frame n h h' ∧ P a h'

theorem Frame.ofExt {n : Nat} {h h' : Heap} (hn : n ≤ h.size) (e : Ext h h') : Frame n h h' :=
  ⟨e.1, fun i hi => e.2 i (Nat.lt_of_lt_of_le hi hn)⟩

theorem TotN.toTot {α : Type} {m : HM α} {h : Heap} {P : α → Heap → Prop}
    (t : TotN h.size m h P) : Tot m h P := by
  obtain ⟨a, h', e, f, p⟩ := t
  exact ⟨a, h', e, ⟨f.1, f.2⟩, p⟩

section rules
variable {α β : Type} {n : Nat} {h : Heap}

theorem TotN.pure {P : α → Heap → Prop} (a : α) (hp : P a h) : TotN n (Pure.pure a : HM α) h P :=
  ⟨a, h, rfl, Frame.refl n h, hp⟩

/-- call a function that leaves every existing cell alone -/
theorem TotN.bind_tot {m : HM α} {f : α → HM β} {P : α → Heap → Prop} {Q : β → Heap → Prop}
    (hn : n ≤ h.size) (hm : Tot m h P)
    (hf : ∀ a h1, Ext h h1 → P a h1 → TotN n (f a) h1 Q) : TotN n (m >>= f) h Q := by
  obtain ⟨a, h1, e1, x1, p1⟩ := hm
  obtain ⟨b, h2, e2, f2, p2⟩ := hf a h1 x1 p1
  refine ⟨b, h2, ?_, (Frame.ofExt hn x1).trans f2, p2⟩
  simp only [Bind.bind, StateT.bind, e1, Option.bind_some, e2]

theorem TotN.bind_load (a : Addr) {f : Int → HM β} {Q : β → Heap → Prop}
    (hf : TotN n (f (h.get a)) h Q) : TotN n (IntervalHeap.load a >>= f) h Q := by
  obtain ⟨b, h2, e2, f2, p2⟩ := hf
  exact ⟨b, h2, by simp only [Bind.bind, StateT.bind, IntervalHeap.load, Option.bind_some, e2],
    f2, p2⟩

theorem TotN.bind_view (x : HIR) {f : IR → HM β} {Q : β → Heap → Prop}
    (hf : TotN n (f (viewAt h x)) h Q) : TotN n (view x >>= f) h Q := by
  obtain ⟨b, h2, e2, f2, p2⟩ := hf
  exact ⟨b, h2, by simp only [Bind.bind, StateT.bind, view_run, Option.bind_some, e2], f2, p2⟩

/-- an in-place update of an object at or above `n` -/
theorem TotN.bind_store {a : Addr} (ha : n ≤ a) (v : Int) {f : Unit → HM β}
    {Q : β → Heap → Prop} (hf : TotN n (f ()) (h.setIfInBounds a v) Q) :
    TotN n (IntervalHeap.store a v >>= f) h Q := by
  obtain ⟨b, h2, e2, f2, p2⟩ := hf
  refine ⟨b, h2, ?_, ?_, p2⟩
  · simp only [Bind.bind, StateT.bind, IntervalHeap.store, Option.bind_some, e2]
  · refine ⟨?_, fun i hi => ?_⟩
    · have := f2.1; simpa using this
    · rw [f2.2 i hi]
      have hne : a ≠ i := Nat.ne_of_gt (Nat.lt_of_lt_of_le hi ha)
      simp [Array.getElem?_setIfInBounds, hne]

theorem TotN.ite {c : Prop} [Decidable c] {a b : HM α} {P : α → Heap → Prop}
    (ha : c → TotN n a h P) (hb : ¬ c → TotN n b h P) : TotN n (if c then a else b) h P := by
  split
  · exact ha ‹_›
  · exact hb ‹_›

theorem TotN.mono {m : HM α} {P Q : α → Heap → Prop} (hm : TotN n m h P)
    (hpq : ∀ a h', P a h' → Q a h') : TotN n m h Q := by
  obtain ⟨a, h1, e1, f1, p1⟩ := hm
  exact ⟨a, h1, e1, f1, hpq a h1 p1⟩

/-- a tail call of a function that leaves every existing cell alone -/
theorem TotN.ofTot {m : HM α} {P : α → Heap → Prop} (hn : n ≤ h.size) (hm : Tot m h P) :
    TotN n m h P := by
  obtain ⟨a, h1, e1, x1, p1⟩ := hm
  exact ⟨a, h1, e1, Frame.ofExt hn x1, p1⟩

end rules

/-! ### cells after a store -/

theorem get_set_same {h : Heap} {a : Addr} (ha : a < h.size) (v : Int) :
    Heap.get (h.setIfInBounds a v) a = v := by
  simp [Heap.get, Array.getElem?_setIfInBounds, ha]

theorem get_set_ne {h : Heap} {a b : Addr} (hne : a ≠ b) (v : Int) :
    Heap.get (h.setIfInBounds a v) b = h.get b := by
  simp [Heap.get, Array.getElem?_setIfInBounds, hne]

@[simp] theorem size_set (h : Heap) (a : Addr) (v : Int) : (h.setIfInBounds a v).size = h.size := by
  simp

/-- a new object at or above `n`, valid, holding `v` -/
def AddrIs (n : Nat) (v : Int) (a : Addr) (h' : Heap) : Prop := n ≤ a ∧ a < h'.size ∧ h'.get a = v

theorem AddrIs.ext {n : Nat} {v : Int} {a : Addr} {h h' : Heap} (p : AddrIs n v a h) (e : Ext h h') :
    AddrIs n v a h' :=
  ⟨p.1, Nat.lt_of_lt_of_le p.2.1 e.1, by rw [e.get p.2.1]; exact p.2.2⟩

/-! ### `andMax`, `orMax` -/

theorem andMax_tot {h : Heap} {xlo xhi ylo yhi : Addr} {v : Int}
    (hv : andMaxP (h.get xlo) (h.get xhi) (h.get ylo) (h.get yhi) = some v) :
    Tot (andMax xlo xhi ylo yhi) h (AddrIs h.size v) := by
  apply TotN.toTot
  unfold andMax
  refine TotN.bind_load _ ?_
  refine TotN.bind_load _ ?_
  refine TotN.bind_load _ ?_
  refine TotN.bind_load _ ?_
  unfold andMaxP at hv
  refine TotN.ite (fun c => ?_) (fun c => ?_)
  · rw [if_pos c] at hv
    cases hv
    refine TotN.ofTot (Nat.le_refl _) (Tot.mono (Tot.alloc _) ?_)
    rintro a h1 x1 ⟨rfl, s1, g1⟩
    exact ⟨Nat.le_refl _, by omega, g1⟩
  · refine TotN.bind_tot (Nat.le_refl _) (Tot.alloc _) ?_
    rintro i h1 x1 ⟨rfl, s1, g1⟩
    refine TotN.bind_tot x1.1 (Tot.alloc _) ?_
    rintro j h2 x2 ⟨rfl, s2, g2⟩
    refine TotN.bind_tot (Nat.le_trans x1.1 x2.1) (Tot.alloc _) ?_
    rintro k h3 x3 ⟨rfl, s3, g3⟩
    rw [← andMaxP] at hv
    rw [hv]
    refine TotN.bind_store (by omega) _ ?_
    refine TotN.bind_store (by omega) _ ?_
    refine TotN.pure _ ⟨by omega, by simp; omega, ?_⟩
    have hne : h2.size ≠ h1.size := by omega
    rw [get_set_ne hne, get_set_same (by omega)]

theorem orMax_tot {h : Heap} {xlo xhi ylo yhi : Addr} {v : Int}
    (hv : orMaxP (h.get xlo) (h.get xhi) (h.get ylo) (h.get yhi) = some v) :
    Tot (orMax xlo xhi ylo yhi) h (AddrIs h.size v) := by
  apply TotN.toTot
  unfold orMax
  refine TotN.bind_load _ ?_
  refine TotN.bind_load _ ?_
  refine TotN.bind_load _ ?_
  refine TotN.bind_load _ ?_
  refine TotN.bind_tot (Nat.le_refl _) (Tot.alloc _) ?_
  rintro i h1 x1 ⟨rfl, s1, g1⟩
  refine TotN.bind_tot x1.1 (Tot.alloc _) ?_
  rintro j h2 x2 ⟨rfl, s2, g2⟩
  rw [hv]
  refine TotN.bind_store (by omega) _ ?_
  refine TotN.pure _ ⟨by omega, by simp; omega, ?_⟩
  rw [get_set_same (by omega)]

/-- `notRangeFin lo hi` : two new objects holding `~hi` and `~lo` -/
theorem notRangeFin_tot (h : Heap) {lo hi : Addr} (vlo : lo < h.size) :
    Tot (notRangeFin lo hi) h (fun p h' =>
      AddrIs h.size (inot (h.get hi)) p.1 h' ∧ AddrIs h.size (inot (h.get lo)) p.2 h') := by
  unfold notRangeFin
  refine Tot.bind_load _ ?_
  refine Tot.bind (Tot.alloc _) ?_
  rintro p h1 x1 ⟨rfl, s1, g1⟩
  refine Tot.bind_load _ ?_
  refine Tot.bind (Tot.alloc _) ?_
  rintro q h2 x2 ⟨rfl, s2, g2⟩
  refine Tot.pure _ ⟨⟨Nat.le_refl _, by omega, ?_⟩, ⟨by omega, by omega, ?_⟩⟩
  · rw [x2.get (by omega)]; exact g1
  · rw [g2, x1.get vlo]

/-- a range of new objects (at or above `n`) with value `Z` -/
def FreshRangeIs (n : Nat) (Z : IR) (z : HIR) (h' : Heap) : Prop :=
  (∀ a, z.lo = some a → n ≤ a) ∧ (∀ a, z.hi = some a → n ≤ a) ∧ VR h' z ∧ viewAt h' z = Z

theorem FreshRangeIs.mono {n m : Nat} {Z : IR} {z : HIR} {h' : Heap} (p : FreshRangeIs n Z z h')
    (hmn : m ≤ n) : FreshRangeIs m Z z h' :=
  ⟨fun a e => Nat.le_trans hmn (p.1 a e), fun a e => Nat.le_trans hmn (p.2.1 a e), p.2.2⟩

/-! ### `andBothNonNeg` -/

theorem andBothNonNeg_tot {h : Heap} {x y : HIR} (vx : VR h x) (vy : VR h y) {Z : IR}
    (hZ : Interval.andBothNonNeg (viewAt h x) (viewAt h y) = some Z) :
    Tot (andBothNonNeg x y) h (FreshRangeIs h.size Z) := by
  apply TotN.toTot
  unfold andBothNonNeg
  refine TotN.bind_view _ ?_
  refine TotN.bind_view _ ?_
  unfold Interval.andBothNonNeg at hZ
  refine TotN.ite (fun c => ?_) (fun c => ?_)
  · rw [if_pos c] at hZ; cases hZ
  rw [if_neg c] at hZ
  obtain ⟨xl, xh⟩ := x
  obtain ⟨yl, yh⟩ := y
  obtain ⟨vxl, vxh⟩ := vx
  obtain ⟨vyl, vyh⟩ := vy
  cases xl with
  | none => simp [viewAt] at hZ
  | some xlo =>
  cases yl with
  | none => simp [viewAt] at hZ
  | some ylo =>
  have hxlo : xlo < h.size := vxl xlo rfl
  have hylo : ylo < h.size := vyl ylo rfl
  cases xh with
  | none =>
    cases yh with
    | none =>
      simp only [viewAt, Option.map_some, Option.map_none, Option.some.injEq] at hZ
      subst hZ
      refine TotN.bind_tot (Nat.le_refl _) (Tot.alloc _) ?_
      rintro z h1 x1 ⟨rfl, s1, g1⟩
      refine TotN.pure _ ⟨?_, ?_, ⟨?_, ?_⟩, ?_⟩
      · intro a e; cases e; exact Nat.le_refl _
      · intro a e; cases e
      · simp only [VO_some]; omega
      · simp
      · simp only [viewAt, Option.map_some, Option.map_none, g1]
    | some yhi =>
      have hyhi : yhi < h.size := vyh yhi rfl
      simp only [viewAt, Option.map_some, Option.map_none, Option.some.injEq] at hZ
      subst hZ
      refine TotN.bind_tot (Nat.le_refl _) (Tot.alloc _) ?_
      rintro z h1 x1 ⟨rfl, s1, g1⟩
      refine TotN.bind_load _ ?_
      refine TotN.bind_tot x1.1 (Tot.alloc _) ?_
      rintro w h2 x2 ⟨rfl, s2, g2⟩
      refine TotN.pure _ ⟨?_, ?_, ⟨?_, ?_⟩, ?_⟩
      · intro a e; cases e; exact Nat.le_refl _
      · intro a e; cases e; omega
      · simp only [VO_some]; omega
      · simp only [VO_some]; omega
      · have : h2.get h.size = 0 := by rw [x2.get (by omega)]; exact g1
        simp only [viewAt, Option.map_some, this, g2, x1.get hyhi]
  | some xhi =>
    have hxhi : xhi < h.size := vxh xhi rfl
    cases yh with
    | none =>
      simp only [viewAt, Option.map_some, Option.map_none, Option.some.injEq] at hZ
      subst hZ
      refine TotN.bind_tot (Nat.le_refl _) (Tot.alloc _) ?_
      rintro z h1 x1 ⟨rfl, s1, g1⟩
      refine TotN.bind_load _ ?_
      refine TotN.bind_tot x1.1 (Tot.alloc _) ?_
      rintro w h2 x2 ⟨rfl, s2, g2⟩
      refine TotN.pure _ ⟨?_, ?_, ⟨?_, ?_⟩, ?_⟩
      · intro a e; cases e; exact Nat.le_refl _
      · intro a e; cases e; omega
      · simp only [VO_some]; omega
      · simp only [VO_some]; omega
      · have : h2.get h.size = 0 := by rw [x2.get (by omega)]; exact g1
        simp only [viewAt, Option.map_some, this, g2, x1.get hxhi]
    | some yhi =>
      have hyhi : yhi < h.size := vyh yhi rfl
      simp only [viewAt, Option.map_some] at hZ
      cases hmax : andMaxP (h.get xlo) (h.get xhi) (h.get ylo) (h.get yhi) with
      | none => rw [hmax] at hZ; simp at hZ
      | some zMaxV =>
      rw [hmax] at hZ
      simp only [Option.bind_some] at hZ
      cases hmin : orMaxP (inot (h.get xhi)) (inot (h.get xlo)) (inot (h.get yhi)) (inot (h.get ylo)) with
      | none => rw [hmin] at hZ; simp at hZ
      | some mV =>
      rw [hmin] at hZ
      simp only [Option.map_some, Option.some.injEq] at hZ
      subst hZ
      refine TotN.bind_tot (Nat.le_refl _) (andMax_tot hmax) ?_
      rintro zMax h1 x1 pMax
      refine TotN.bind_tot x1.1 (notRangeFin_tot h1 (lo := xlo) (hi := xhi) (by have := x1.1; omega)) ?_
      rintro ⟨nxl, nxh⟩ h2 x2 ⟨pnxl, pnxh⟩
      have x12 := x1.trans x2
      refine TotN.bind_tot x12.1 (notRangeFin_tot h2 (lo := ylo) (hi := yhi) (by have := x12.1; omega)) ?_
      rintro ⟨nyl, nyh⟩ h3 x3 ⟨pnyl, pnyh⟩
      have x13 := x12.trans x3
      have e1 : h3.get nxl = inot (h.get xhi) := by
        rw [x3.get pnxl.2.1, pnxl.2.2, x1.get hxhi]
      have e2 : h3.get nxh = inot (h.get xlo) := by
        rw [x3.get pnxh.2.1, pnxh.2.2, x1.get hxlo]
      have e3 : h3.get nyl = inot (h.get yhi) := by
        rw [pnyl.2.2, x12.get hyhi]
      have e4 : h3.get nyh = inot (h.get ylo) := by
        rw [pnyh.2.2, x12.get hylo]
      have hmin' : orMaxP (h3.get nxl) (h3.get nxh) (h3.get nyl) (h3.get nyh) = some mV := by
        rw [e1, e2, e3, e4]; exact hmin
      refine TotN.bind_tot x13.1 (orMax_tot hmin') ?_
      rintro zMin h4 x4 pMin
      refine TotN.bind_load _ ?_
      have hzMax4 : zMax < h4.size := by
        have := pMax.2.1; have := x2.1; have := x3.1; have := x4.1; omega
      have hneq : zMin ≠ zMax := by
        have := pMin.1; have := pMax.2.1; have := x2.1; have := x3.1; omega
      refine TotN.bind_store (by have := pMin.1; have := x13.1; omega) _ ?_
      refine TotN.pure _ ⟨?_, ?_, ⟨?_, ?_⟩, ?_⟩
      · intro a e; cases e; have := pMin.1; have := x13.1; omega
      · intro a e; cases e; exact pMax.1
      · simp only [VO_some, size_set]; exact pMin.2.1
      · simp only [VO_some, size_set]; exact hzMax4
      · have g4 : h4.get zMax = zMaxV := by
          rw [x4.get (by have := pMax.2.1; have := x2.1; have := x3.1; omega),
            x3.get (by have := pMax.2.1; have := x2.1; omega), x2.get pMax.2.1]
          exact pMax.2.2
        simp only [viewAt, Option.map_some, get_set_same pMin.2.1, get_set_ne hneq, g4, pMin.2.2]

/-! ### `orBothNonNeg` -/

/-- the common tail of the value model's `orBothNonNeg` (its local `fin`) -/
def orFinP (xlo xhi ylo yhi : Int) (zMax : Option Int) : Option IR :=
  (andMaxP (inot xhi) (inot xlo) (inot yhi) (inot ylo)).map fun m => ⟨some (inot m), zMax⟩

/-- the half-infinite branch of the value model's `orBothNonNeg` -/
def orHalfP (x y : IR) (xlo ylo : Int) (xhi? yhi? : Option Int) : Option IR :=
  if x.containsInt ylo then some ⟨some ylo, none⟩
  else if y.containsInt xlo then some ⟨some xlo, none⟩
  else
    match xhi?, yhi? with
    | none, none => none
    | some xhi, _ =>
      if xhi ≥ ylo then none else
      (bitFillRightP ylo).bind fun f => orFinP xlo xhi ylo f none
    | none, some yhi =>
      if yhi ≥ xlo then none else
      (bitFillRightP xlo).bind fun f => orFinP ylo yhi xlo f none

theorem orBothNonNeg_unfold (x y : IR) : Interval.orBothNonNeg x y =
    if x.empty || x.containsNegative || y.empty || y.containsNegative then none
    else
      match x.lo, y.lo with
      | some xlo, some ylo =>
        (match x.hi, y.hi with
        | some xhi, some yhi =>
          (orMaxP xlo xhi ylo yhi).bind fun zMax => orFinP xlo xhi ylo yhi (some zMax)
        | xhi?, yhi? => orHalfP x y xlo ylo xhi? yhi?)
      | _, _ => none := by
  unfold Interval.orBothNonNeg
  rfl

theorem orTail_tot {h : Heap} {xlo xhi ylo yhi : Addr} (v1 : xlo < h.size) (v2 : xhi < h.size)
    (v3 : ylo < h.size) (v4 : yhi < h.size) {zMax : Option Addr} (vz : VO h zMax) {Z : IR}
    (hZ : orFinP (h.get xlo) (h.get xhi) (h.get ylo) (h.get yhi) (valO h zMax) = some Z) :
    Tot (orTail xlo xhi ylo yhi zMax) h (fun z h' =>
      z.hi = zMax ∧ (∀ a, z.lo = some a → h.size ≤ a) ∧ VR h' z ∧ viewAt h' z = Z) := by
  apply TotN.toTot
  unfold orTail
  unfold orFinP at hZ
  cases hm : andMaxP (inot (h.get xhi)) (inot (h.get xlo)) (inot (h.get yhi)) (inot (h.get ylo)) with
  | none => rw [hm] at hZ; simp at hZ
  | some mV =>
  rw [hm] at hZ
  simp only [Option.map_some, Option.some.injEq] at hZ
  subst hZ
  refine TotN.bind_tot (Nat.le_refl _) (notRangeFin_tot h (lo := xlo) (hi := xhi) v1) ?_
  rintro ⟨nxl, nxh⟩ h2 x2 ⟨pnxl, pnxh⟩
  refine TotN.bind_tot x2.1 (notRangeFin_tot h2 (lo := ylo) (hi := yhi) (by have := x2.1; omega)) ?_
  rintro ⟨nyl, nyh⟩ h3 x3 ⟨pnyl, pnyh⟩
  have x23 := x2.trans x3
  have e1 : h3.get nxl = inot (h.get xhi) := by rw [x3.get pnxl.2.1, pnxl.2.2]
  have e2 : h3.get nxh = inot (h.get xlo) := by rw [x3.get pnxh.2.1, pnxh.2.2]
  have e3 : h3.get nyl = inot (h.get yhi) := by rw [pnyl.2.2, x2.get v4]
  have e4 : h3.get nyh = inot (h.get ylo) := by rw [pnyh.2.2, x2.get v3]
  have hm' : andMaxP (h3.get nxl) (h3.get nxh) (h3.get nyl) (h3.get nyh) = some mV := by
    rw [e1, e2, e3, e4]; exact hm
  refine TotN.bind_tot x23.1 (andMax_tot hm') ?_
  rintro zMin h4 x4 pMin
  refine TotN.bind_load _ ?_
  have x24 := x23.trans x4
  have hge : h.size ≤ zMin := by have := pMin.1; have := x23.1; omega
  refine TotN.bind_store hge _ ?_
  refine TotN.pure _ ⟨rfl, ?_, ⟨?_, ?_⟩, ?_⟩
  · intro a e; cases e; exact hge
  · simp only [VO_some, size_set]; exact pMin.2.1
  · intro a e
    have := vz a e
    simp only [size_set]
    have := x24.1
    omega
  · simp only [viewAt, Option.map_some, get_set_same pMin.2.1, pMin.2.2]
    congr 1
    cases zMax with
    | none => rfl
    | some a =>
      have ha := vz a rfl
      have hne : zMin ≠ a := by omega
      simp only [valO, Option.map_some, get_set_ne hne, x24.get ha]

/-- `bitFillRight(f)` as a step: the object `f` (at or above `n`) is updated in place -/
theorem TotN.bind_bitFillRight {β : Type} {n : Nat} {h : Heap} {f : Addr} (hf : n ≤ f)
    (vf : f < h.size) {v : Int} (hv : bitFillRightP (h.get f) = some v) {k : Unit → HM β}
    {Q : β → Heap → Prop}
    (hk : ∀ h1, h1.size = h.size → h1.get f = v → (∀ b, b ≠ f → h1[b]? = h[b]?) →
      TotN n (k ()) h1 Q) :
    TotN n (bitFillRight f >>= k) h Q := by
  unfold bitFillRightP at hv
  unfold bitFillRight
  by_cases hneg : h.get f < 0
  · rw [if_pos hneg] at hv; cases hv
  rw [if_neg hneg] at hv
  cases hv
  by_cases hz : h.get f = 0
  · -- no store: the heap is unchanged
    have hk' := hk h rfl (by rw [hz]; simp [Interval.bitFillRight]) (fun _ _ => rfl)
    obtain ⟨b, h2, e2, f2, p2⟩ := hk'
    refine ⟨b, h2, ?_, f2, p2⟩
    simp only [Bind.bind, StateT.bind, IntervalHeap.load, Option.bind_some, hneg, hz, if_false,
      if_true, Pure.pure, StateT.pure, e2, lt_self_iff_false]
  · have hk' := hk (h.setIfInBounds f (Interval.bitFillRight (h.get f))) (by simp)
      (get_set_same vf _) (fun b hb => by simp [Array.getElem?_setIfInBounds, Ne.symm hb])
    obtain ⟨b, h2, e2, f2, p2⟩ := hk'
    refine ⟨b, h2, ?_, ?_, p2⟩
    · simp only [Bind.bind, StateT.bind, IntervalHeap.load, Option.bind_some, hneg, hz, if_false,
        IntervalHeap.store, e2]
    · refine ⟨by have := f2.1; simpa using this, fun i hi => ?_⟩
      rw [f2.2 i hi]
      have hne : f ≠ i := Nat.ne_of_gt (Nat.lt_of_lt_of_le hi hf)
      simp [Array.getElem?_setIfInBounds, hne]

theorem get_of_getElem? {h1 h : Heap} {b : Addr} (e : h1[b]? = h[b]?) : h1.get b = h.get b := by
  simp only [Heap.get, e]

/-- one half of the half-infinite branch: `y[1] = copy of y[0]; bitFillRight(y[1]); tail` -/
theorem orHalf_fill_tot {h : Heap} {n : Nat} (hn : n ≤ h.size) {alo ahi blo : Addr}
    (v1 : alo < h.size) (v2 : ahi < h.size) (v3 : blo < h.size) {Z : IR}
    (hZ : (bitFillRightP (h.get blo)).bind
      (fun f => orFinP (h.get alo) (h.get ahi) (h.get blo) f none) = some Z) :
    TotN n (do
        let f ← alloc (h.get blo)
        bitFillRight f
        orTail alo ahi blo f none) h (FreshRangeIs h.size Z) := by
  cases hb : bitFillRightP (h.get blo) with
  | none => rw [hb] at hZ; simp at hZ
  | some fv =>
  rw [hb] at hZ
  simp only [Option.bind_some] at hZ
  refine TotN.bind_tot hn (Tot.alloc _) ?_
  rintro f h1 x1 ⟨rfl, s1, g1⟩
  have hb1 : bitFillRightP (h1.get h.size) = some fv := by rw [g1]; exact hb
  refine TotN.bind_bitFillRight (by omega) (by omega) hb1 ?_
  intro h2 hs2 hg2 hrest
  have q1 : h2.get alo = h.get alo := by
    rw [get_of_getElem? (hrest alo (by omega)), x1.get v1]
  have q2 : h2.get ahi = h.get ahi := by
    rw [get_of_getElem? (hrest ahi (by omega)), x1.get v2]
  have q3 : h2.get blo = h.get blo := by
    rw [get_of_getElem? (hrest blo (by omega)), x1.get v3]
  have hZ2 : orFinP (h2.get alo) (h2.get ahi) (h2.get blo) (h2.get h.size) (valO h2 none) = some Z := by
    rw [q1, q2, q3, hg2]; exact hZ
  have t := orTail_tot (h := h2) (xlo := alo) (xhi := ahi) (ylo := blo) (yhi := h.size)
    (by omega) (by omega) (by omega) (by omega) (zMax := none) (by simp) hZ2
  refine TotN.mono (TotN.ofTot (by omega) t) ?_
  rintro z h3 ⟨ehi, flo, vz, ez⟩
  refine ⟨fun a e => ?_, fun a e => ?_, vz, ez⟩
  · have := flo a e; omega
  · rw [ehi] at e; cases e

theorem orHalfInfinite_tot {h : Heap} (X Y : IR) {xlo ylo : Addr} {xhi yhi : Option Addr}
    (v1 : xlo < h.size) (v2 : ylo < h.size) (v3 : VO h xhi) (v4 : VO h yhi) {Z : IR}
    (hZ : orHalfP X Y (h.get xlo) (h.get ylo) (valO h xhi) (valO h yhi) = some Z) :
    Tot (orHalfInfinite X Y xlo ylo xhi yhi) h (FreshRangeIs h.size Z) := by
  apply TotN.toTot
  unfold orHalfInfinite
  refine TotN.bind_load _ ?_
  refine TotN.bind_load _ ?_
  unfold orHalfP at hZ
  refine TotN.ite (fun c1 => ?_) (fun c1 => ?_)
  · rw [if_pos c1] at hZ
    cases hZ
    refine TotN.bind_tot (Nat.le_refl _) (Tot.alloc _) ?_
    rintro z h1 x1 ⟨rfl, s1, g1⟩
    refine TotN.pure _ ⟨?_, ?_, ⟨?_, ?_⟩, ?_⟩
    · intro a e; cases e; exact Nat.le_refl _
    · intro a e; cases e
    · simp only [VO_some]; omega
    · simp
    · simp only [viewAt, Option.map_some, Option.map_none, g1]
  rw [if_neg c1] at hZ
  refine TotN.ite (fun c2 => ?_) (fun c2 => ?_)
  · rw [if_pos c2] at hZ
    cases hZ
    refine TotN.bind_tot (Nat.le_refl _) (Tot.alloc _) ?_
    rintro z h1 x1 ⟨rfl, s1, g1⟩
    refine TotN.pure _ ⟨?_, ?_, ⟨?_, ?_⟩, ?_⟩
    · intro a e; cases e; exact Nat.le_refl _
    · intro a e; cases e
    · simp only [VO_some]; omega
    · simp
    · simp only [viewAt, Option.map_some, Option.map_none, g1]
  rw [if_neg c2] at hZ
  cases xhi with
  | none =>
    cases yhi with
    | none => simp [valO] at hZ
    | some yh =>
      have vyh : yh < h.size := v4 yh rfl
      simp only [valO, Option.map_some, Option.map_none] at hZ
      refine TotN.bind_load _ ?_
      refine TotN.ite (fun c3 => ?_) (fun c3 => ?_)
      · rw [if_pos c3] at hZ; cases hZ
      rw [if_neg c3] at hZ
      exact orHalf_fill_tot (Nat.le_refl _) v2 vyh v1 hZ
  | some xh =>
    have vxh : xh < h.size := v3 xh rfl
    simp only [valO, Option.map_some] at hZ
    refine TotN.bind_load _ ?_
    refine TotN.ite (fun c3 => ?_) (fun c3 => ?_)
    · rw [if_pos c3] at hZ; cases hZ
    rw [if_neg c3] at hZ
    exact orHalf_fill_tot (Nat.le_refl _) v1 vxh v2 hZ

theorem orBothNonNeg_tot {h : Heap} {x y : HIR} (vx : VR h x) (vy : VR h y) {Z : IR}
    (hZ : Interval.orBothNonNeg (viewAt h x) (viewAt h y) = some Z) :
    Tot (orBothNonNeg x y) h (FreshRangeIs h.size Z) := by
  rw [orBothNonNeg_unfold] at hZ
  unfold orBothNonNeg
  refine Tot.bind_view _ ?_
  refine Tot.bind_view _ ?_
  refine Tot.ite (fun c => ?_) (fun c => ?_)
  · rw [if_pos c] at hZ; cases hZ
  rw [if_neg c] at hZ
  obtain ⟨xl, xh⟩ := x
  obtain ⟨yl, yh⟩ := y
  obtain ⟨vxl, vxh⟩ := vx
  obtain ⟨vyl, vyh⟩ := vy
  cases xl with
  | none => simp [viewAt] at hZ
  | some xlo =>
  cases yl with
  | none => simp [viewAt] at hZ
  | some ylo =>
  have hxlo : xlo < h.size := vxl xlo rfl
  have hylo : ylo < h.size := vyl ylo rfl
  cases xh with
  | none =>
    simp only [viewAt, Option.map_some, Option.map_none] at hZ
    exact orHalfInfinite_tot _ _ hxlo hylo vxh vyh hZ
  | some xhi =>
    have hxhi : xhi < h.size := vxh xhi rfl
    cases yh with
    | none =>
      simp only [viewAt, Option.map_some, Option.map_none] at hZ
      exact orHalfInfinite_tot _ _ hxlo hylo vxh vyh hZ
    | some yhi =>
      have hyhi : yhi < h.size := vyh yhi rfl
      simp only [viewAt, Option.map_some] at hZ
      cases hmax : orMaxP (h.get xlo) (h.get xhi) (h.get ylo) (h.get yhi) with
      | none => rw [hmax] at hZ; simp at hZ
      | some zMaxV =>
      rw [hmax] at hZ
      simp only [Option.bind_some] at hZ
      refine Tot.bind (orMax_tot hmax) ?_
      rintro zMax h1 x1 pMax
      have hZ1 : orFinP (h1.get xlo) (h1.get xhi) (h1.get ylo) (h1.get yhi) (valO h1 (some zMax))
          = some Z := by
        rw [x1.get hxlo, x1.get hxhi, x1.get hylo, x1.get hyhi]
        simp only [valO, Option.map_some, pMax.2.2]
        exact hZ
      have t := orTail_tot (h := h1) (by have := x1.1; omega) (by have := x1.1; omega)
        (by have := x1.1; omega) (by have := x1.1; omega) (zMax := some zMax)
        (by simp only [VO_some]; exact pMax.2.1) hZ1
      refine Tot.mono t ?_
      rintro z h2 x2 ⟨ehi, flo, vz, ez⟩
      refine ⟨fun a e => ?_, fun a e => ?_, vz, ez⟩
      · have := flo a e; have := x1.1; omega
      · rw [ehi] at e; cases e; exact pMax.1

/-! ### `bitMask` and `andOneNegOneNonNeg` -/

/-- the `smallBitMasks` objects hold the table's values -/
def MasksOK (h : Heap) : Prop :=
  ∀ i v, Gen.C06.smallBitMasks[i]? = some v → h.get (aMask i) = v

theorem MasksOK.ext {h h' : Heap} (m : MasksOK h) (g : GlobalsOK h) (e : Ext h h') : MasksOK h' := by
  intro i v hv
  have hi : i < Gen.C06.smallBitMasks.length := by
    rcases List.getElem?_eq_some_iff.1 hv with ⟨hlt, _⟩
    exact hlt
  have : aMask i < h.size := by
    have := g.1
    simp only [aMask, nGlobals] at *
    omega
  rw [e.get this]
  exact m i v hv

theorem globalsHeap_masks : MasksOK globalsHeap := by
  intro i v hv
  have hi : i < Gen.C06.smallBitMasks.length := by
    rcases List.getElem?_eq_some_iff.1 hv with ⟨hlt, _⟩
    exact hlt
  simp only [Heap.get, aMask, globalsHeap]
  have : (2 + i) = (#[Gen.C06.one, Gen.C06.minusOne] : Array Int).size + i := by simp
  rw [this, Array.getElem?_append_right (by simp)]
  simp [hv]

/-- `bitMask` : a valid pointer to an object holding the value model's mask — either a
package-level object or a new one -/
theorem bitMask_tot {h : Heap} (g : GlobalsOK h) (m : MasksOK h) (n0 n1 : Nat) :
    Tot (bitMask n0 n1) h (fun a h' => a < h'.size ∧ h'.get a = Interval.bitMask n0 n1) := by
  unfold bitMask Interval.bitMask
  refine Tot.ite (fun c => ?_) (fun c => ?_)
  · have hget : Gen.C06.smallBitMasks[if n0 < n1 then n1 else n0]? =
        some (Gen.C06.smallBitMasks[if n0 < n1 then n1 else n0]'c) := List.getElem?_eq_getElem c
    refine Tot.pure _ ⟨?_, ?_⟩
    · have := g.1
      simp only [aMask, nGlobals] at *
      omega
    · dsimp only
      rw [hget]
      exact m _ _ hget
  · have hnone : Gen.C06.smallBitMasks[if n0 < n1 then n1 else n0]? = none := by
      rw [List.getElem?_eq_none_iff]; omega
    refine Tot.mono (Tot.alloc _) ?_
    rintro a h1 x1 ⟨rfl, s1, g1⟩
    refine ⟨by omega, ?_⟩
    dsimp only
    rw [hnone]
    exact g1

theorem bigIntNewSet_fresh_tot (h : Heap) (p : Option Addr) :
    Tot (bigIntNewSet p) h (fun z h' => (∀ a, z = some a → h.size ≤ a) ∧ BoundIs (valO h p) z h') := by
  unfold bigIntNewSet
  split
  · exact Tot.pure _ ⟨fun _ e => (by cases e), by simp, rfl⟩
  · refine Tot.bind_load _ ?_
    refine Tot.bind (Tot.alloc _) ?_
    rintro z h2 x2 ⟨rfl, s2, g2⟩
    refine Tot.pure _ ⟨fun a e => by cases e; exact Nat.le_refl _, ?_, ?_⟩
    · simp only [VO_some]; omega
    · simp only [valO, Option.map_some, g2]

theorem bigIntNewNot_fresh_tot (h : Heap) (p : Option Addr) :
    Tot (bigIntNewNot p) h (fun z h' =>
      (∀ a, z = some a → h.size ≤ a) ∧ BoundIs ((valO h p).map inot) z h') := by
  unfold bigIntNewNot
  split
  · exact Tot.pure _ ⟨fun _ e => (by cases e), by simp, rfl⟩
  · refine Tot.bind_load _ ?_
    refine Tot.bind (Tot.alloc _) ?_
    rintro z h2 x2 ⟨rfl, s2, g2⟩
    refine Tot.pure _ ⟨fun a e => by cases e; exact Nat.le_refl _, ?_, ?_⟩
    · simp only [VO_some]; omega
    · simp only [valO, Option.map_some, g2]

theorem andOneNegOneNonNeg_tot {h : Heap} (g : GlobalsOK h) (mk : MasksOK h) {neg non : HIR}
    (vn : VR h neg) (vo : VR h non) {Z : IR}
    (hZ : Interval.andOneNegOneNonNeg (viewAt h neg) (viewAt h non) = some Z) :
    Tot (andOneNegOneNonNeg neg non) h (FreshRangeIs h.size Z) := by
  unfold andOneNegOneNonNeg
  refine Tot.bind_view _ ?_
  refine Tot.bind_view _ ?_
  unfold Interval.andOneNegOneNonNeg at hZ
  refine Tot.ite (fun c => ?_) (fun c => ?_)
  · rw [if_pos c] at hZ; cases hZ
  rw [if_neg c] at hZ
  obtain ⟨nl, nh⟩ := neg
  obtain ⟨ol, oh⟩ := non
  obtain ⟨vnl, vnh⟩ := vn
  obtain ⟨vol, voh⟩ := vo
  cases nl with
  | none =>
    simp only [viewAt, Option.map_none, Option.some.injEq] at hZ
    subst hZ
    refine Tot.bind (Tot.alloc _) ?_
    rintro z h1 x1 ⟨rfl, s1, g1⟩
    refine Tot.bind (bigIntNewSet_fresh_tot h1 oh) ?_
    rintro w h2 x2 ⟨fw, vw, ew⟩
    refine Tot.pure _ ⟨?_, ?_, ⟨?_, vw⟩, ?_⟩
    · intro a e; cases e; exact Nat.le_refl _
    · intro a e; have := fw a e; omega
    · simp only [VO_some]; have := x2.1; omega
    · have : h2.get h.size = 0 := by rw [x2.get (by omega)]; exact g1
      simp only [viewAt_eq, valO, Option.map_some, this]
      congr 1
      rw [← valO, ew, valO_ext voh x1]
      rfl
  | some nlo =>
    have hnlo : nlo < h.size := vnl nlo rfl
    cases nh with
    | none => simp [viewAt] at hZ
    | some nhi =>
    have hnhi : nhi < h.size := vnh nhi rfl
    cases ol with
    | none => simp [viewAt] at hZ
    | some olo =>
    have holo : olo < h.size := vol olo rfl
    simp only [viewAt, Option.map_some] at hZ
    refine Tot.bind_load _ ?_
    refine Tot.bind_load _ ?_
    cases oh with
    | none =>
      simp only [Option.map_none] at hZ
      cases hW : Interval.andBothNonNeg
          ⟨some (iand (Interval.bitMask (bitLen (h.get nlo)) (bitLen (h.get olo))) (h.get nlo)),
           some (iand (Interval.bitMask (bitLen (h.get nlo)) (bitLen (h.get olo))) (h.get nhi))⟩
          ⟨some (h.get olo), some (Interval.bitMask (bitLen (h.get nlo)) (bitLen (h.get olo)))⟩ with
      | none => rw [hW] at hZ; simp at hZ
      | some W =>
      rw [hW] at hZ
      simp only [Option.map_some, Option.some.injEq] at hZ
      subst hZ
      refine Tot.bind_load _ ?_
      refine Tot.bind (bitMask_tot g mk _ _) ?_
      rintro mask h1 x1 ⟨vm, em⟩
      refine Tot.bind_load _ ?_
      refine Tot.bind (Tot.alloc _) ?_
      rintro b0 h2 x2 ⟨rfl, s2, g2⟩
      refine Tot.bind (Tot.alloc _) ?_
      rintro b1 h3 x3 ⟨rfl, s3, g3⟩
      have x13 := x2.trans x3
      have x03 := x1.trans x13
      have hW3 : Interval.andBothNonNeg (viewAt h3 ⟨some h1.size, some h2.size⟩)
          (viewAt h3 ⟨some olo, some mask⟩) = some W := by
        have q0 : h3.get h1.size = iand (Interval.bitMask (bitLen (h.get nlo)) (bitLen (h.get olo))) (h.get nlo) := by
          rw [x3.get (by omega), g2, em]
        have q1 : h3.get h2.size = iand (Interval.bitMask (bitLen (h.get nlo)) (bitLen (h.get olo))) (h.get nhi) := by
          rw [g3, em]
        have q2 : h3.get olo = h.get olo := x03.get holo
        have q3 : h3.get mask = Interval.bitMask (bitLen (h.get nlo)) (bitLen (h.get olo)) := by
          rw [x13.get vm, em]
        simp only [viewAt, Option.map_some, q0, q1, q2, q3]
        exact hW
      have t := andBothNonNeg_tot (h := h3) (x := ⟨some h1.size, some h2.size⟩)
        (y := ⟨some olo, some mask⟩)
        ⟨by simp only [VO_some]; omega, by simp only [VO_some]; omega⟩
        ⟨by simp only [VO_some]; have := x03.1; omega,
         by simp only [VO_some]; have := x13.1; omega⟩ hW3
      refine Tot.bind t ?_
      rintro w h4 x4 ⟨fl, fh, vw, ew⟩
      refine Tot.pure _ ⟨?_, ?_, ⟨vw.1, by simp⟩, ?_⟩
      · intro a e; have := fl a e; have := x03.1; omega
      · intro a e; cases e
      · simp only [viewAt_eq] at ew ⊢
        rw [← ew]
        rfl
    | some ohi =>
      have hohi : ohi < h.size := voh ohi rfl
      simp only [Option.map_some] at hZ
      refine Tot.bind_load _ ?_
      refine Tot.bind (bitMask_tot g mk _ _) ?_
      rintro mask h1 x1 ⟨vm, em⟩
      refine Tot.bind_load _ ?_
      refine Tot.bind (Tot.alloc _) ?_
      rintro b0 h2 x2 ⟨rfl, s2, g2⟩
      refine Tot.bind (Tot.alloc _) ?_
      rintro b1 h3 x3 ⟨rfl, s3, g3⟩
      have x13 := x2.trans x3
      have x03 := x1.trans x13
      have hW3 : Interval.andBothNonNeg (viewAt h3 ⟨some h1.size, some h2.size⟩)
          (viewAt h3 ⟨some olo, some ohi⟩) = some Z := by
        have q0 : h3.get h1.size = iand (Interval.bitMask (bitLen (h.get nlo)) (bitLen (h.get ohi))) (h.get nlo) := by
          rw [x3.get (by omega), g2, em]
        have q1 : h3.get h2.size = iand (Interval.bitMask (bitLen (h.get nlo)) (bitLen (h.get ohi))) (h.get nhi) := by
          rw [g3, em]
        have q2 : h3.get olo = h.get olo := x03.get holo
        have q3 : h3.get ohi = h.get ohi := x03.get hohi
        simp only [viewAt, Option.map_some, q0, q1, q2, q3]
        exact hZ
      have t := andBothNonNeg_tot (h := h3) (x := ⟨some h1.size, some h2.size⟩)
        (y := ⟨some olo, some ohi⟩)
        ⟨by simp only [VO_some]; omega, by simp only [VO_some]; omega⟩
        ⟨by simp only [VO_some]; have := x03.1; omega,
         by simp only [VO_some]; have := x03.1; omega⟩ hW3
      refine Tot.mono t ?_
      rintro w h4 x4 p
      exact p.mono (by have := x03.1; omega)

/-! ### the De Morgan detour -/

theorem notSwap_tot {h : Heap} {r : HIR} (vr : VR h r) :
    Tot (notSwap r) h (FreshRangeIs h.size (viewAt h r).notSwap) := by
  unfold notSwap
  refine Tot.bind (bigIntNewNot_fresh_tot h r.hi) ?_
  rintro lo h1 x1 ⟨flo, vlo, elo⟩
  refine Tot.bind (bigIntNewNot_fresh_tot h1 r.lo) ?_
  rintro hi h2 x2 ⟨fhi, vhi, ehi⟩
  refine Tot.pure _ ⟨flo, fun a e => ?_, ⟨vlo.ext x2, vhi⟩, ?_⟩
  · have := fhi a e; have := x1.1; omega
  · simp only [viewAt_eq, IR.notSwap, valO_ext vlo x2, elo, ehi, valO_ext vr.1 x1]

theorem viaNot_tot {h : Heap} {f : HIR → HIR → HM HIR} {F : IR → IR → Option IR}
    (hf : ∀ h1 a b, Ext h h1 → VR h1 a → VR h1 b → ∀ W, F (viewAt h1 a) (viewAt h1 b) = some W →
      Tot (f a b) h1 (FreshRangeIs h1.size W))
    {a b : HIR} (va : VR h a) (vb : VR h b) {W : IR}
    (hW : F (viewAt h a).notSwap (viewAt h b).notSwap = some W) :
    Tot (viaNot f a b) h (FreshRangeIs h.size W.notSwap) := by
  unfold viaNot
  refine Tot.bind (notSwap_tot va) ?_
  rintro na h1 x1 ⟨_, _, vna, ena⟩
  refine Tot.bind (notSwap_tot (vb.ext x1)) ?_
  rintro nb h2 x2 ⟨_, _, vnb, enb⟩
  have x12 := x1.trans x2
  have hW2 : F (viewAt h2 na) (viewAt h2 nb) = some W := by
    rw [viewAt_ext vna x2, ena, enb, viewAt_ext vb x1]; exact hW
  refine Tot.bind (hf h2 na nb x12 (vna.ext x2) vnb W hW2) ?_
  rintro w h3 x3 ⟨_, _, vw, ew⟩
  refine Tot.mono (notSwap_tot vw) ?_
  rintro r h4 x4 p
  rw [ew] at p
  exact p.mono (by have := x12.1; have := x3.1; omega)

theorem orOneNegOneNonNeg_tot {h : Heap} (g : GlobalsOK h) (mk : MasksOK h) {neg non : HIR}
    (vn : VR h neg) (vo : VR h non) {Z : IR}
    (hZ : Interval.orOneNegOneNonNeg (viewAt h neg) (viewAt h non) = some Z) :
    Tot (orOneNegOneNonNeg neg non) h (FreshRangeIs h.size Z) := by
  unfold orOneNegOneNonNeg
  unfold Interval.orOneNegOneNonNeg at hZ
  cases hW : Interval.andOneNegOneNonNeg (viewAt h non).notSwap (viewAt h neg).notSwap with
  | none => rw [hW] at hZ; simp at hZ
  | some W =>
  rw [hW] at hZ
  simp only [Option.map_some, Option.some.injEq] at hZ
  subst hZ
  exact viaNot_tot (F := Interval.andOneNegOneNonNeg)
    (fun h1 a b e va vb W hW => andOneNegOneNonNeg_tot (g.ext e) (mk.ext g e) va vb hW) vo vn hW

/-! ### `split2Ways` -/

def Split2Is (v : IR × IR × Bool × Bool) (r : HIR × HIR × Bool × Bool) (h' : Heap) : Prop :=
  VR h' r.1 ∧ VR h' r.2.1 ∧ (viewAt h' r.1, viewAt h' r.2.1, r.2.2.1, r.2.2.2) = v

def nonNegLoC (X : IR) : Bool := match X.lo with | some a => decide (a ≥ 0) | none => false
def nonLoV (X : IR) : Int := match X.lo with | some a => if a > 0 then a else 0 | none => 0

theorem split2_unfold (X : IR) : X.split2 =
    if X.empty then (mkEmpty, mkEmpty, false, false)
    else if nonNegLoC X then (mkEmpty, X, false, true)
    else if negHiC X then (X, mkEmpty, true, false)
    else ((⟨X.lo, some (negHiV X)⟩ : IR), (⟨some (nonLoV X), X.hi⟩ : IR), true, true) :=
  rfl

theorem split2Ways_tot {h : Heap} (g : GlobalsOK h) {x : HIR} (vx : VR h x) :
    Tot (split2Ways x) h (Split2Is (viewAt h x).split2) := by
  obtain ⟨vs, es⟩ := g.shared
  unfold split2Ways
  tot_view
  rw [split2_unfold]
  refine Tot.ite (fun c1 => ?_) (fun c1 => ?_)
  · refine Tot.pure _ ⟨vs, vs, ?_⟩
    simp only [c1, if_true, es]
  refine Tot.ite (fun c2 => ?_) (fun c2 => ?_)
  · have c2' : nonNegLoC (viewAt h x) = true := c2
    refine Tot.pure _ ⟨vs, vx, ?_⟩
    simp only [c1, c2', if_true, if_false, es, Bool.false_eq_true]
  refine Tot.ite (fun c3 => ?_) (fun c3 => ?_)
  · have c2' : ¬ nonNegLoC (viewAt h x) = true := c2
    have c3' : negHiC (viewAt h x) = true := c3
    refine Tot.pure _ ⟨vx, vs, ?_⟩
    simp only [c1, c2', c3', if_true, if_false, es, Bool.false_eq_true]
  have c2' : ¬ nonNegLoC (viewAt h x) = true := c2
  have c3' : ¬ negHiC (viewAt h x) = true := c3
  simp only [c1, c2', c3', if_false, Bool.false_eq_true]
  refine Tot.bind (Tot.alloc _) ?_
  rintro m1 h1 x1 ⟨rfl, s1, g1⟩
  refine Tot.bind (Tot.alloc _) ?_
  rintro p1 h2 x2 ⟨rfl, s2, g2⟩
  have gm1 : h2.get h.size = -1 := by rw [x2.get (by omega)]; exact g1
  have x12 := x1.trans x2
  obtain ⟨vl, vh⟩ := vx
  have eN : viewAt h2 ⟨x.lo, some (pickBelow x.hi (viewAt h x).hi (-1) h.size)⟩
      = ⟨(viewAt h x).lo, some (negHiV (viewAt h x))⟩ := by
    simp only [viewAt_eq, valO_ext vl x12]
    congr 1
    simp only [valO, Option.map_some]
    exact congrArg some (get_pickBelow x12 vh gm1)
  have eP : viewAt h2 ⟨some (pickAbove x.lo (viewAt h x).lo 0 h1.size), x.hi⟩
      = ⟨some (nonLoV (viewAt h x)), (viewAt h x).hi⟩ := by
    simp only [viewAt_eq, valO_ext vh x12]
    congr 1
    simp only [valO, Option.map_some]
    exact congrArg some (get_pickAbove x12 vl g2)
  refine Tot.pure _ ⟨⟨vl.ext x12, ?_⟩, ⟨?_, vh.ext x12⟩, ?_⟩
  · simp only [VO_some]
    exact pickBelow_valid x12 vh _ (by omega)
  · simp only [VO_some]
    exact pickAbove_valid x12 vl _ (by omega)
  · simp only [eN, eP]

/-! ### `inPlaceUnite` : the receiver's objects are updated, nothing else -/

/-- same size, and every cell except possibly the one `p` points to is unchanged -/
def OnlyAt (p : Option Addr) (h h' : Heap) : Prop :=
  h'.size = h.size ∧ ∀ b, p ≠ some b → h'[b]? = h[b]?

theorem OnlyAt.refl (p : Option Addr) (h : Heap) : OnlyAt p h h := ⟨rfl, fun _ _ => rfl⟩

theorem onlyAt_set (h : Heap) (a : Addr) (v : Int) : OnlyAt (some a) h (h.setIfInBounds a v) := by
  refine ⟨by simp, fun b hb => ?_⟩
  have : a ≠ b := fun e => hb (by rw [e])
  simp [Array.getElem?_setIfInBounds, this]

/-- the pointer kept by one bound of `inPlaceUnite`: the receiver's, unless the argument's bound
is nil -/
def keepPtr (p : Option Addr) (yv : Option Int) : Option Addr :=
  match p, yv with
  | some a, some _ => some a
  | _, _ => none

theorem ipuTake_run (h : Heap) {p : Option Addr} (vp : VO h p) (yv : Option Int) :
    ∃ h', ipuTake p yv h = some (keepPtr p yv, h') ∧ OnlyAt p h h' ∧
      valO h' (keepPtr p yv) = (match p with | some _ => yv | none => none) := by
  cases p with
  | none => exact ⟨h, by cases yv <;> rfl, OnlyAt.refl _ _, by cases yv <;> rfl⟩
  | some a =>
    cases yv with
    | none => exact ⟨h, rfl, OnlyAt.refl _ _, rfl⟩
    | some v =>
      refine ⟨h.setIfInBounds a v, rfl, onlyAt_set h a v, ?_⟩
      simp only [keepPtr, valO, Option.map_some, get_set_same (vp a rfl)]

theorem ipuBound_run (h : Heap) (lower : Bool) {p : Option Addr} (vp : VO h p) (yv : Option Int) :
    ∃ h', ipuBound lower p yv h = some (keepPtr p yv, h') ∧ OnlyAt p h h' ∧
      valO h' (keepPtr p yv) = (match valO h p, yv with
        | some a, some b =>
          some (if lower then (if a > b then b else a) else (if a < b then b else a))
        | _, _ => none) := by
  cases p with
  | none => exact ⟨h, by cases yv <;> rfl, OnlyAt.refl _ _, by cases yv <;> rfl⟩
  | some a =>
    cases yv with
    | none => exact ⟨h, rfl, OnlyAt.refl _ _, rfl⟩
    | some b =>
      have va := vp a rfl
      by_cases hc : (if lower then decide (h.get a > b) else decide (h.get a < b)) = true
      · refine ⟨h.setIfInBounds a b, ?_, onlyAt_set h a b, ?_⟩
        · simp only [ipuBound, Bind.bind, StateT.bind, IntervalHeap.load, Option.bind_some, storeIf, hc,
            if_true, IntervalHeap.store, Pure.pure, StateT.pure, keepPtr]
        · simp only [keepPtr, valO, Option.map_some, get_set_same va]
          cases lower <;> simp_all
      · refine ⟨h, ?_, OnlyAt.refl _ _, ?_⟩
        · simp only [ipuBound, Bind.bind, StateT.bind, IntervalHeap.load, Option.bind_some, storeIf, hc,
            if_false, Pure.pure, StateT.pure, keepPtr, Bool.false_eq_true]
        · simp only [keepPtr, valO, Option.map_some]
          cases lower <;> simp_all

theorem keepPtr_sub {p : Option Addr} {yv : Option Int} {a : Addr} (e : keepPtr p yv = some a) :
    p = some a := by
  cases p <;> cases yv <;> simp_all [keepPtr]

theorem valO_onlyAt {p q : Option Addr} {h h' : Heap} (o : OnlyAt p h h')
    (hne : ∀ a, q = some a → p ≠ some a) : valO h' q = valO h q := by
  cases q with
  | none => rfl
  | some a => simp only [valO, Option.map_some, Heap.get, o.2 a (hne a rfl)]

/-- the `if x.Empty() { … }` block -/
theorem ipuEmpty_run {h : Heap} {z : HIR} (vz : VR h z)
    (dz : ∀ a, z.lo = some a → z.hi ≠ some a) (Y : IR) :
    ∃ z1 h2, ipuEmpty (viewAt h z).empty z Y h = some (z1, h2) ∧ h2.size = h.size ∧
      (∀ b, z.lo ≠ some b → z.hi ≠ some b → h2[b]? = h[b]?) ∧
      (∀ a, z1.lo = some a → z.lo = some a) ∧ (∀ a, z1.hi = some a → z.hi = some a) ∧
      viewAt h2 z1 = (if (viewAt h z).empty then Y else viewAt h z) := by
  cases hxe : (viewAt h z).empty with
  | false =>
    exact ⟨z, h, by simp only [ipuEmpty, Bool.false_eq_true, if_false]; rfl, rfl, fun _ _ _ => rfl,
      fun _ e => e, fun _ e => e, by simp⟩
  | true =>
    obtain ⟨zl, zh⟩ := z
    obtain ⟨h1, r1, o1, e1⟩ := ipuTake_run h vz.1 Y.lo
    have vz2 : VO h1 zh := fun a e => by rw [o1.1]; exact vz.2 a e
    obtain ⟨h2, r2, o2, e2⟩ := ipuTake_run h1 vz2 Y.hi
    refine ⟨⟨keepPtr zl Y.lo, keepPtr zh Y.hi⟩, h2, ?_, ?_, ?_, ?_, ?_, ?_⟩
    · simp only [ipuEmpty, if_true, Bind.bind, StateT.bind, r1, Option.bind_some, r2, Pure.pure,
        StateT.pure]
    · rw [o2.1, o1.1]
    · intro b hb1 hb2
      rw [o2.2 b hb2, o1.2 b hb1]
    · intro a e; exact keepPtr_sub e
    · intro a e; exact keepPtr_sub e
    · -- both pointers are non-nil (the range is empty), so the view is `Y`
      have hboth : ∃ a b, zl = some a ∧ zh = some b := by
        cases zl <;> cases zh <;> simp [viewAt, IR.empty] at hxe
        exact ⟨_, _, rfl, rfl⟩
      obtain ⟨a, b, rfl, rfl⟩ := hboth
      have hab : a ≠ b := fun e => dz a rfl (by rw [e])
      simp only [if_true, viewAt_eq]
      have q1 : valO h2 (keepPtr (some a) Y.lo) = valO h1 (keepPtr (some a) Y.lo) :=
        valO_onlyAt o2 (fun c ec => by
          have := keepPtr_sub ec
          cases this
          intro e; cases e; exact hab rfl)
      rw [q1, e1, e2]

theorem inPlaceUnite_run {h : Heap} {z : HIR} (vz : VR h z)
    (dz : ∀ a, z.lo = some a → z.hi ≠ some a) (w : HIR) :
    ∃ z' h', inPlaceUnite z w h = some (z', h') ∧ h'.size = h.size ∧
      (∀ b, z.lo ≠ some b → z.hi ≠ some b → h'[b]? = h[b]?) ∧
      (∀ a, z'.lo = some a → z.lo = some a) ∧ (∀ a, z'.hi = some a → z.hi = some a) ∧
      viewAt h' z' = Interval.inPlaceUnite (viewAt h z) (viewAt h w) := by
  by_cases hye : (viewAt h w).empty = true
  · refine ⟨z, h, ?_, rfl, fun _ _ _ => rfl, fun _ e => e, fun _ e => e, ?_⟩
    · simp only [inPlaceUnite, Bind.bind, StateT.bind, view_run, Option.bind_some, hye, if_true,
        Pure.pure, StateT.pure]
    · simp only [Interval.inPlaceUnite, hye, if_true]
  · obtain ⟨z1, h2, r2, s2, f2, sl2, sh2, e2⟩ := ipuEmpty_run vz dz (viewAt h w)
    have vz1 : VR h2 z1 := ⟨fun a e => by rw [s2]; exact vz.1 a (sl2 a e),
      fun a e => by rw [s2]; exact vz.2 a (sh2 a e)⟩
    have dz1 : ∀ a, z1.lo = some a → z1.hi ≠ some a := fun a e1 e2 => dz a (sl2 a e1) (sh2 a e2)
    obtain ⟨h3, r3, o3, e3⟩ := ipuBound_run h2 true vz1.1 (viewAt h w).lo
    have vz1' : VO h3 z1.hi := fun a e => by rw [o3.1]; exact vz1.2 a e
    obtain ⟨h4, r4, o4, e4⟩ := ipuBound_run h3 false vz1' (viewAt h w).hi
    refine ⟨⟨keepPtr z1.lo (viewAt h w).lo, keepPtr z1.hi (viewAt h w).hi⟩, h4, ?_, ?_, ?_, ?_, ?_, ?_⟩
    · simp only [inPlaceUnite, Bind.bind, StateT.bind, view_run, Option.bind_some, hye, if_false,
        r2, r3, r4, Pure.pure, StateT.pure, Bool.false_eq_true]
    · rw [o4.1, o3.1, s2]
    · intro b hb1 hb2
      have n1 : z1.lo ≠ some b := fun e => hb1 (sl2 b e)
      have n2 : z1.hi ≠ some b := fun e => hb2 (sh2 b e)
      rw [o4.2 b n2, o3.2 b n1, f2 b hb1 hb2]
    · intro a e; exact sl2 a (keepPtr_sub e)
    · intro a e; exact sh2 a (keepPtr_sub e)
    · have q1 : valO h4 (keepPtr z1.lo (viewAt h w).lo) = valO h3 (keepPtr z1.lo (viewAt h w).lo) :=
        valO_onlyAt o4 (fun c ec e => dz1 c (keepPtr_sub ec) e)
      have q2 : valO h3 z1.hi = valO h2 z1.hi :=
        valO_onlyAt o3 (fun c ec e => dz1 c e ec)
      have hl : viewAt h4 ⟨keepPtr z1.lo (viewAt h w).lo, keepPtr z1.hi (viewAt h w).hi⟩ =
          ⟨valO h4 (keepPtr z1.lo (viewAt h w).lo), valO h4 (keepPtr z1.hi (viewAt h w).hi)⟩ := rfl
      rw [hl, q1, e3, e4, q2]
      unfold Interval.inPlaceUnite
      rw [if_neg hye]
      dsimp only
      rw [← e2]
      show _ = IR.mk (match valO h2 z1.lo with
          | none => none
          | some a => match (viewAt h w).lo with
            | none => none
            | some b => some (if a > b then b else a))
        (match valO h2 z1.hi with
          | none => none
          | some a => match (viewAt h w).hi with
            | none => none
            | some b => some (if a < b then b else a))
      congr 1
      · cases valO h2 z1.lo <;> cases (viewAt h w).lo <;> simp
      · cases valO h2 z1.hi <;> cases (viewAt h w).hi <;> simp

/-! ### the accumulation `z.inPlaceUnite(part)` of `And` / `Or` -/

theorem TotN.weaken {α : Type} {n n2 : Nat} {m : HM α} {h : Heap} {P : α → Heap → Prop}
    (hn : n ≤ n2) (t : TotN n2 m h P) : TotN n m h P := by
  obtain ⟨a, h', e, f, p⟩ := t
  exact ⟨a, h', e, ⟨f.1, fun i hi => f.2 i (Nat.lt_of_lt_of_le hi hn)⟩, p⟩

/-- the accumulator `z`: two distinct objects at or above `n`, holding `Zv` -/
structure ZInv (n : Nat) (h : Heap) (z : HIR) (Zv : IR) : Prop where
  flo : ∀ a, z.lo = some a → n ≤ a
  fhi : ∀ a, z.hi = some a → n ≤ a
  valid : VR h z
  dist : ∀ a, z.lo = some a → z.hi ≠ some a
  val : viewAt h z = Zv

/-- one step of the value model's accumulation -/
def uniteIfP (c : Bool) (z : Option IR) (part : Option IR) : Option IR :=
  if c then z.bind fun z => part.map (Interval.inPlaceUnite z) else z

theorem uniteIfP_some {c : Bool} {z part : Option IR} {Z' : IR} (e : uniteIfP c z part = some Z') :
    ∃ Zz, z = some Zz ∧
      ((c = false ∧ Z' = Zz) ∨ (c = true ∧ ∃ W, part = some W ∧ Z' = Interval.inPlaceUnite Zz W)) := by
  unfold uniteIfP at e
  cases c with
  | false => exact ⟨Z', by simpa using e, Or.inl ⟨rfl, rfl⟩⟩
  | true =>
    simp only [if_true] at e
    cases z with
    | none => simp at e
    | some Zz =>
      cases part with
      | none => simp at e
      | some W =>
        simp only [Option.bind_some, Option.map_some, Option.some.injEq] at e
        exact ⟨Zz, rfl, Or.inr ⟨rfl, W, rfl, e.symm⟩⟩

theorem uniteIf_totN {n : Nat} {h : Heap} (hn : n ≤ h.size) {z : HIR} {Zv : IR}
    (inv : ZInv n h z Zv) (c : Bool) {part : HM HIR} {W : IR}
    (hp : c = true → Tot part h (FreshRangeIs h.size W)) :
    TotN n (uniteIf c z part) h
      (fun z' h' => ZInv n h' z' (if c then Interval.inPlaceUnite Zv W else Zv)) := by
  unfold uniteIf
  cases c with
  | false => exact TotN.pure _ (by simpa using inv)
  | true =>
    obtain ⟨w, h1, e1, x1, _, _, vw, ew⟩ := hp rfl
    have vz1 := inv.valid.ext x1
    obtain ⟨z', h2, r2, s2, f2, sl, sh, ev⟩ := inPlaceUnite_run vz1 inv.dist w
    refine ⟨z', h2, ?_, ⟨?_, fun i hi => ?_⟩, ?_⟩
    · simp only [if_true, Bind.bind, StateT.bind, e1, Option.bind_some, r2]
    · rw [s2]; exact x1.1
    · have n1 : z.lo ≠ some i := fun e => by have := inv.flo i e; omega
      have n2 : z.hi ≠ some i := fun e => by have := inv.fhi i e; omega
      rw [f2 i n1 n2]
      exact x1.2 i (Nat.lt_of_lt_of_le hi hn)
    · refine ⟨fun a e => inv.flo a (sl a e), fun a e => inv.fhi a (sh a e), ?_, ?_, ?_⟩
      · exact ⟨fun a e => by rw [s2]; exact vz1.1 a (sl a e),
          fun a e => by rw [s2]; exact vz1.2 a (sh a e)⟩
      · exact fun a e1' e2' => inv.dist a (sl a e1') (sh a e2')
      · rw [ev, viewAt_ext inv.valid x1, inv.val, ew]
        simp

theorem TotN.bind {α β : Type} {n : Nat} {h : Heap} {m : HM α} {f : α → HM β}
    {P : α → Heap → Prop} {Q : β → Heap → Prop} (hm : TotN n m h P)
    (hf : ∀ a h1, Frame n h h1 → P a h1 → TotN n (f a) h1 Q) : TotN n (m >>= f) h Q := by
  obtain ⟨a, h1, e1, f1, p1⟩ := hm
  obtain ⟨b, h2, e2, f2, p2⟩ := hf a h1 f1 p1
  refine ⟨b, h2, ?_, f1.trans f2, p2⟩
  simp only [Bind.bind, StateT.bind, e1, Option.bind_some, e2]

theorem makeEmptyRange_zinv (h : Heap) :
    Tot makeEmptyRange h (fun z h' => ZInv h.size h' z mkEmpty) := by
  unfold makeEmptyRange
  refine Tot.bind (Tot.alloc _) ?_
  rintro a h1 x1 ⟨rfl, s1, g1⟩
  refine Tot.bind (Tot.alloc _) ?_
  rintro b h2 x2 ⟨rfl, s2, g2⟩
  refine Tot.pure _ ⟨?_, ?_, ⟨?_, ?_⟩, ?_, ?_⟩
  · intro a e; cases e; exact Nat.le_refl _
  · intro a e; cases e; omega
  · simp only [VO_some]; omega
  · simp only [VO_some]; omega
  · intro a e1 e2
    simp only [Option.some.injEq] at e1 e2
    omega
  · have : h2.get h.size = 1 := by rw [x2.get (by omega)]; exact g1
    simp only [viewAt, Option.map_some, this, g2, mkEmpty]

theorem accum_step {n : Nat} {h : Heap} (hn : n ≤ h.size) {z : HIR} {Zp Zk : IR}
    (inv : ZInv n h z Zp) {c : Bool} {part : HM HIR} {Wopt : Option IR}
    (d : (c = false ∧ Zk = Zp) ∨ (c = true ∧ ∃ W, Wopt = some W ∧ Zk = Interval.inPlaceUnite Zp W))
    (hp : ∀ W, Wopt = some W → Tot part h (FreshRangeIs h.size W)) :
    TotN n (uniteIf c z part) h (fun z' h' => ZInv n h' z' Zk) := by
  rcases d with ⟨rfl, rfl⟩ | ⟨rfl, W, eW, rfl⟩
  · have := uniteIf_totN hn inv false (part := part) (W := mkEmpty) (fun e => by cases e)
    simpa using this
  · have := uniteIf_totN hn inv true (part := part) (W := W) (fun _ => hp W eW)
    simpa using this

/-- the whole accumulation: `z := makeEmptyRange(); if c1 { z.inPlaceUnite(p1) } … ; return z` -/
theorem accum_tot {h : Heap} {p1 p2 p3 p4 : HM HIR} {c1 c2 c3 c4 : Bool}
    {W1 W2 W3 W4 : Option IR} {Z : IR}
    (hZ : uniteIfP c4 (uniteIfP c3 (uniteIfP c2 (uniteIfP c1 (some mkEmpty) W1) W2) W3) W4 = some Z)
    (q1 : ∀ h', Ext h h' → ∀ W, W1 = some W → Tot p1 h' (FreshRangeIs h'.size W))
    (q2 : ∀ h', Ext h h' → ∀ W, W2 = some W → Tot p2 h' (FreshRangeIs h'.size W))
    (q3 : ∀ h', Ext h h' → ∀ W, W3 = some W → Tot p3 h' (FreshRangeIs h'.size W))
    (q4 : ∀ h', Ext h h' → ∀ W, W4 = some W → Tot p4 h' (FreshRangeIs h'.size W)) :
    Tot (do
      let z ← makeEmptyRange
      let z ← uniteIf c1 z p1
      let z ← uniteIf c2 z p2
      let z ← uniteIf c3 z p3
      uniteIf c4 z p4) h (RangeIs Z) := by
  obtain ⟨Z3, e3, d4⟩ := uniteIfP_some hZ
  obtain ⟨Z2, e2, d3⟩ := uniteIfP_some e3
  obtain ⟨Z1, e1, d2⟩ := uniteIfP_some e2
  obtain ⟨Z0, e0, d1⟩ := uniteIfP_some e1
  cases e0
  apply TotN.toTot
  refine TotN.bind_tot (Nat.le_refl _) (makeEmptyRange_zinv h) ?_
  intro z0 h0 x0 inv0
  have toExt : ∀ {h' : Heap}, Frame h.size h h' → Ext h h' := fun f => ⟨f.1, f.2⟩
  refine TotN.bind (accum_step x0.1 inv0 d1 (q1 h0 x0)) ?_
  intro z1 h1 f1 inv1
  have x1 : Ext h h1 := toExt ((Frame.ofExt (Nat.le_refl _) x0).trans f1)
  refine TotN.bind (accum_step x1.1 inv1 d2 (q2 h1 x1)) ?_
  intro z2 h2 f2 inv2
  have x2 : Ext h h2 := toExt ((Frame.ofExt (Nat.le_refl _) x1).trans f2)
  refine TotN.bind (accum_step x2.1 inv2 d3 (q3 h2 x2)) ?_
  intro z3 h3 f3 inv3
  have x3 : Ext h h3 := toExt ((Frame.ofExt (Nat.le_refl _) x2).trans f3)
  refine TotN.mono (accum_step x3.1 inv3 d4 (q4 h3 x3)) ?_
  intro z4 h4 inv4
  exact ⟨inv4.valid, inv4.val⟩

/-! ### `And`, `Or` -/

theorem and_unfold (x y : IR) : Interval.and x y =
    if x.empty || y.empty then some mkEmpty
    else if !x.containsNegative && !y.containsNegative then Interval.andBothNonNeg x y
    else
      uniteIfP (x.split2.2.2.2 && y.split2.2.2.2)
        (uniteIfP (x.split2.2.2.2 && y.split2.2.2.1)
          (uniteIfP (x.split2.2.2.1 && y.split2.2.2.2)
            (uniteIfP (x.split2.2.2.1 && y.split2.2.2.1) (some mkEmpty)
              ((Interval.orBothNonNeg x.split2.1.notSwap y.split2.1.notSwap).map IR.notSwap))
            (Interval.andOneNegOneNonNeg x.split2.1 y.split2.2.1))
          (Interval.andOneNegOneNonNeg y.split2.1 x.split2.2.1))
        (Interval.andBothNonNeg x.split2.2.1 y.split2.2.1) := by
  unfold Interval.and uniteIfP
  simp only [Option.map_map]
  rfl

theorem or_unfold (x y : IR) : Interval.or x y =
    if x.empty || y.empty then some mkEmpty
    else if !x.containsNegative && !y.containsNegative then Interval.orBothNonNeg x y
    else
      uniteIfP (x.split2.2.2.2 && y.split2.2.2.2)
        (uniteIfP (x.split2.2.2.2 && y.split2.2.2.1)
          (uniteIfP (x.split2.2.2.1 && y.split2.2.2.2)
            (uniteIfP (x.split2.2.2.1 && y.split2.2.2.1) (some mkEmpty)
              ((Interval.andBothNonNeg x.split2.1.notSwap y.split2.1.notSwap).map IR.notSwap))
            (Interval.orOneNegOneNonNeg x.split2.1 y.split2.2.1))
          (Interval.orOneNegOneNonNeg y.split2.1 x.split2.2.1))
        (Interval.orBothNonNeg x.split2.2.1 y.split2.2.1) := by
  unfold Interval.or uniteIfP
  simp only [Option.map_map]
  rfl

theorem and_tot {h : Heap} (g : GlobalsOK h) (mk : MasksOK h) {x y : HIR} (vx : VR h x)
    (vy : VR h y) {Z : IR} (hZ : Interval.and (viewAt h x) (viewAt h y) = some Z) :
    Tot (IntervalHeap.and x y) h (RangeIs Z) := by
  rw [and_unfold] at hZ
  unfold IntervalHeap.and
  refine Tot.bind_view _ ?_
  refine Tot.bind_view _ ?_
  refine Tot.ite (fun c1 => ?_) (fun c1 => ?_)
  · rw [if_pos c1] at hZ
    cases hZ
    exact makeEmptyRange_tot h
  rw [if_neg c1] at hZ
  refine Tot.ite (fun c2 => ?_) (fun c2 => ?_)
  · rw [if_pos c2] at hZ
    exact Tot.mono (andBothNonNeg_tot vx vy hZ) (fun z h' _ p => ⟨p.2.2.1, p.2.2.2⟩)
  rw [if_neg c2] at hZ
  refine Tot.bind (split2Ways_tot g vx) ?_
  rintro ⟨negX, nonX, hnx, hox⟩ h1 x1 ⟨vnx, vox, esx⟩
  refine Tot.bind (split2Ways_tot (g.ext x1) (vy.ext x1)) ?_
  rintro ⟨negY, nonY, hny, hoy⟩ h2 x2 ⟨vny, voy, esy⟩
  dsimp only at vnx vox esx vny voy esy
  rw [viewAt_ext vy x1] at esy
  rw [← esx, ← esy] at hZ
  dsimp only at hZ
  have vnx2 := vnx.ext x2
  have vox2 := vox.ext x2
  rw [← viewAt_ext vnx x2, ← viewAt_ext vox x2] at hZ
  have g2 := (g.ext x1).ext x2
  have mk2 := ((mk.ext g x1).ext (g.ext x1) x2)
  refine accum_tot hZ ?_ ?_ ?_ ?_
  · intro h' e W hW
    cases hW' : Interval.orBothNonNeg (viewAt h2 negX).notSwap (viewAt h2 negY).notSwap with
    | none => rw [hW'] at hW; simp at hW
    | some W' =>
      rw [hW'] at hW
      simp only [Option.map_some, Option.some.injEq] at hW
      subst hW
      exact viaNot_tot (F := Interval.orBothNonNeg)
        (fun h1 a b _ va vb W hW => orBothNonNeg_tot va vb hW) (vnx2.ext e) (vny.ext e)
        (by rw [viewAt_ext vnx2 e, viewAt_ext vny e]; exact hW')
  · intro h' e W hW
    exact andOneNegOneNonNeg_tot (g2.ext e) (mk2.ext g2 e) (vnx2.ext e) (voy.ext e)
      (by rw [viewAt_ext vnx2 e, viewAt_ext voy e]; exact hW)
  · intro h' e W hW
    exact andOneNegOneNonNeg_tot (g2.ext e) (mk2.ext g2 e) (vny.ext e) (vox2.ext e)
      (by rw [viewAt_ext vny e, viewAt_ext vox2 e]; exact hW)
  · intro h' e W hW
    exact andBothNonNeg_tot (vox2.ext e) (voy.ext e)
      (by rw [viewAt_ext vox2 e, viewAt_ext voy e]; exact hW)

theorem or_tot {h : Heap} (g : GlobalsOK h) (mk : MasksOK h) {x y : HIR} (vx : VR h x)
    (vy : VR h y) {Z : IR} (hZ : Interval.or (viewAt h x) (viewAt h y) = some Z) :
    Tot (IntervalHeap.or x y) h (RangeIs Z) := by
  rw [or_unfold] at hZ
  unfold IntervalHeap.or
  refine Tot.bind_view _ ?_
  refine Tot.bind_view _ ?_
  refine Tot.ite (fun c1 => ?_) (fun c1 => ?_)
  · rw [if_pos c1] at hZ
    cases hZ
    exact makeEmptyRange_tot h
  rw [if_neg c1] at hZ
  refine Tot.ite (fun c2 => ?_) (fun c2 => ?_)
  · rw [if_pos c2] at hZ
    exact Tot.mono (orBothNonNeg_tot vx vy hZ) (fun z h' _ p => ⟨p.2.2.1, p.2.2.2⟩)
  rw [if_neg c2] at hZ
  refine Tot.bind (split2Ways_tot g vx) ?_
  rintro ⟨negX, nonX, hnx, hox⟩ h1 x1 ⟨vnx, vox, esx⟩
  refine Tot.bind (split2Ways_tot (g.ext x1) (vy.ext x1)) ?_
  rintro ⟨negY, nonY, hny, hoy⟩ h2 x2 ⟨vny, voy, esy⟩
  dsimp only at vnx vox esx vny voy esy
  rw [viewAt_ext vy x1] at esy
  rw [← esx, ← esy] at hZ
  dsimp only at hZ
  have vnx2 := vnx.ext x2
  have vox2 := vox.ext x2
  rw [← viewAt_ext vnx x2, ← viewAt_ext vox x2] at hZ
  have g2 := (g.ext x1).ext x2
  have mk2 := ((mk.ext g x1).ext (g.ext x1) x2)
  refine accum_tot hZ ?_ ?_ ?_ ?_
  · intro h' e W hW
    cases hW' : Interval.andBothNonNeg (viewAt h2 negX).notSwap (viewAt h2 negY).notSwap with
    | none => rw [hW'] at hW; simp at hW
    | some W' =>
      rw [hW'] at hW
      simp only [Option.map_some, Option.some.injEq] at hW
      subst hW
      exact viaNot_tot (F := Interval.andBothNonNeg)
        (fun h1 a b _ va vb W hW => andBothNonNeg_tot va vb hW) (vnx2.ext e) (vny.ext e)
        (by rw [viewAt_ext vnx2 e, viewAt_ext vny e]; exact hW')
  · intro h' e W hW
    exact orOneNegOneNonNeg_tot (g2.ext e) (mk2.ext g2 e) (vnx2.ext e) (voy.ext e)
      (by rw [viewAt_ext vnx2 e, viewAt_ext voy e]; exact hW)
  · intro h' e W hW
    exact orOneNegOneNonNeg_tot (g2.ext e) (mk2.ext g2 e) (vny.ext e) (vox2.ext e)
      (by rw [viewAt_ext vny e, viewAt_ext vox2 e]; exact hW)
  · intro h' e W hW
    exact orBothNonNeg_tot (vox2.ext e) (voy.ext e)
      (by rw [viewAt_ext vox2 e, viewAt_ext voy e]; exact hW)

/-! ### `setup` also provides the mask objects -/

theorem setup_ext (X Y : IR) : Ext globalsHeap (setup X Y).2.2 := by
  obtain ⟨ea, _, _⟩ := put_spec globalsHeap X.lo
  obtain ⟨eb, _, _⟩ := put_spec (put globalsHeap X.lo).2 X.hi
  obtain ⟨ec, _, _⟩ := put_spec (put (put globalsHeap X.lo).2 X.hi).2 Y.lo
  obtain ⟨ed, _, _⟩ := put_spec (put (put (put globalsHeap X.lo).2 X.hi).2 Y.lo).2 Y.hi
  exact ea.trans (eb.trans (ec.trans ed))

theorem setup_masks (X Y : IR) : MasksOK (setup X Y).2.2 :=
  globalsHeap_masks.ext globalsHeap_ok (setup_ext X Y)

end WuffsVerif.IntervalHeap
