/-
C06: the heap / identity model refines the value model for `And` / `Or` too.

These operators' helpers update objects in place (`zMin.Not(zMin)`, `bitFillRight(y[1])`,
`z.inPlaceUnite(..)`), always objects allocated during the call.  `TotN n m h P`: total
correctness with the frame "cells below `n` are unchanged" (`n` = the heap size when the enclosing
function was entered), so that stores to cells at or above `n` are allowed; a function as a whole
again satisfies `Tot` (= `TotN h.size`): it leaves every cell that existed at its entry alone.
-/
import WuffsVerif.Proof.IntervalHeapRefine

namespace WuffsVerif.IntervalHeap
open WuffsVerif.Interval

def TotN {α : Type} (n : Nat) (m : HM α) (h : Heap) (P : α → Heap → Prop) : Prop :=
  ∃ a h', m h = some (a, h') ∧ Frame n h h' ∧ P a h'

theorem Frame.ofExt {n : Nat} {h h' : Heap} (hn : n ≤ h.size) (e : Ext h h') : Frame n h h' :=
  ⟨e.1, fun i hi => e.2 i (Nat.lt_of_lt_of_le hi hn)⟩

theorem TotN.toTot {α : Type} {m : HM α} {h : Heap} {P : α → Heap → Prop}
    (t : TotN h.size m h P) : Tot m h P := by
  obtain ⟨a, h', e, f, p⟩ := t
  exact ⟨a, h', e, ⟨f.1, f.2⟩, p⟩

section rules
variable {α β : Type} {n : Nat} {h : Heap}

theorem TotN.pure {P : α → Heap → Prop} (a : α) (hp : P a h) : TotN n (Pure.pure a : HM α) h P :=
  ⟨a, h, rfl, Frame.refl n h, hp⟩

/-- call a function that leaves every existing cell alone -/
theorem TotN.bind_tot {m : HM α} {f : α → HM β} {P : α → Heap → Prop} {Q : β → Heap → Prop}
    (hn : n ≤ h.size) (hm : Tot m h P)
    (hf : ∀ a h1, Ext h h1 → P a h1 → TotN n (f a) h1 Q) : TotN n (m >>= f) h Q := by
  obtain ⟨a, h1, e1, x1, p1⟩ := hm
  obtain ⟨b, h2, e2, f2, p2⟩ := hf a h1 x1 p1
  refine ⟨b, h2, ?_, (Frame.ofExt hn x1).trans f2, p2⟩
  simp only [Bind.bind, StateT.bind, e1, Option.bind_some, e2]

theorem TotN.bind_load (a : Addr) {f : Int → HM β} {Q : β → Heap → Prop}
    (hf : TotN n (f (h.get a)) h Q) : TotN n (IntervalHeap.load a >>= f) h Q := by
  obtain ⟨b, h2, e2, f2, p2⟩ := hf
  exact ⟨b, h2, by simp only [Bind.bind, StateT.bind, IntervalHeap.load, Option.bind_some, e2],
    f2, p2⟩

theorem TotN.bind_view (x : HIR) {f : IR → HM β} {Q : β → Heap → Prop}
    (hf : TotN n (f (viewAt h x)) h Q) : TotN n (view x >>= f) h Q := by
  obtain ⟨b, h2, e2, f2, p2⟩ := hf
  exact ⟨b, h2, by simp only [Bind.bind, StateT.bind, view_run, Option.bind_some, e2], f2, p2⟩

/-- an in-place update of an object at or above `n` -/
theorem TotN.bind_store {a : Addr} (ha : n ≤ a) (v : Int) {f : Unit → HM β}
    {Q : β → Heap → Prop} (hf : TotN n (f ()) (h.setIfInBounds a v) Q) :
    TotN n (IntervalHeap.store a v >>= f) h Q := by
  obtain ⟨b, h2, e2, f2, p2⟩ := hf
  refine ⟨b, h2, ?_, ?_, p2⟩
  · simp only [Bind.bind, StateT.bind, IntervalHeap.store, Option.bind_some, e2]
  · refine ⟨?_, fun i hi => ?_⟩
    · have := f2.1; simpa using this
    · rw [f2.2 i hi]
      have hne : a ≠ i := Nat.ne_of_gt (Nat.lt_of_lt_of_le hi ha)
      simp [Array.getElem?_setIfInBounds, hne]

theorem TotN.ite {c : Prop} [Decidable c] {a b : HM α} {P : α → Heap → Prop}
    (ha : c → TotN n a h P) (hb : ¬ c → TotN n b h P) : TotN n (if c then a else b) h P := by
  split
  · exact ha ‹_›
  · exact hb ‹_›

theorem TotN.mono {m : HM α} {P Q : α → Heap → Prop} (hm : TotN n m h P)
    (hpq : ∀ a h', P a h' → Q a h') : TotN n m h Q := by
  obtain ⟨a, h1, e1, f1, p1⟩ := hm
  exact ⟨a, h1, e1, f1, hpq a h1 p1⟩

/-- a tail call of a function that leaves every existing cell alone -/
theorem TotN.ofTot {m : HM α} {P : α → Heap → Prop} (hn : n ≤ h.size) (hm : Tot m h P) :
    TotN n m h P := by
  obtain ⟨a, h1, e1, x1, p1⟩ := hm
  exact ⟨a, h1, e1, Frame.ofExt hn x1, p1⟩

end rules

/-! ### cells after a store -/

theorem get_set_same {h : Heap} {a : Addr} (ha : a < h.size) (v : Int) :
    Heap.get (h.setIfInBounds a v) a = v := by
  simp [Heap.get, Array.getElem?_setIfInBounds, ha]

theorem get_set_ne {h : Heap} {a b : Addr} (hne : a ≠ b) (v : Int) :
    Heap.get (h.setIfInBounds a v) b = h.get b := by
  simp [Heap.get, Array.getElem?_setIfInBounds, hne]

@[simp] theorem size_set (h : Heap) (a : Addr) (v : Int) : (h.setIfInBounds a v).size = h.size := by
  simp

/-- a new object at or above `n`, valid, holding `v` -/
def AddrIs (n : Nat) (v : Int) (a : Addr) (h' : Heap) : Prop := n ≤ a ∧ a < h'.size ∧ h'.get a = v

theorem AddrIs.ext {n : Nat} {v : Int} {a : Addr} {h h' : Heap} (p : AddrIs n v a h) (e : Ext h h') :
    AddrIs n v a h' :=
  ⟨p.1, Nat.lt_of_lt_of_le p.2.1 e.1, by rw [e.get p.2.1]; exact p.2.2⟩

/-! ### `andMax`, `orMax` -/

theorem andMax_tot {h : Heap} {xlo xhi ylo yhi : Addr} {v : Int}
    (hv : andMaxP (h.get xlo) (h.get xhi) (h.get ylo) (h.get yhi) = some v) :
    Tot (andMax xlo xhi ylo yhi) h (AddrIs h.size v) := by
  apply TotN.toTot
  unfold andMax
  refine TotN.bind_load _ ?_
  refine TotN.bind_load _ ?_
  refine TotN.bind_load _ ?_
  refine TotN.bind_load _ ?_
  unfold andMaxP at hv
  refine TotN.ite (fun c => ?_) (fun c => ?_)
  · rw [if_pos c] at hv
    cases hv
    refine TotN.ofTot (Nat.le_refl _) (Tot.mono (Tot.alloc _) ?_)
    rintro a h1 x1 ⟨rfl, s1, g1⟩
    exact ⟨Nat.le_refl _, by omega, g1⟩
  · refine TotN.bind_tot (Nat.le_refl _) (Tot.alloc _) ?_
    rintro i h1 x1 ⟨rfl, s1, g1⟩
    refine TotN.bind_tot x1.1 (Tot.alloc _) ?_
    rintro j h2 x2 ⟨rfl, s2, g2⟩
    refine TotN.bind_tot (Nat.le_trans x1.1 x2.1) (Tot.alloc _) ?_
    rintro k h3 x3 ⟨rfl, s3, g3⟩
    rw [← andMaxP] at hv
    rw [hv]
    refine TotN.bind_store (by omega) _ ?_
    refine TotN.bind_store (by omega) _ ?_
    refine TotN.pure _ ⟨by omega, by simp; omega, ?_⟩
    have hne : h2.size ≠ h1.size := by omega
    rw [get_set_ne hne, get_set_same (by omega)]

theorem orMax_tot {h : Heap} {xlo xhi ylo yhi : Addr} {v : Int}
    (hv : orMaxP (h.get xlo) (h.get xhi) (h.get ylo) (h.get yhi) = some v) :
    Tot (orMax xlo xhi ylo yhi) h (AddrIs h.size v) := by
  apply TotN.toTot
  unfold orMax
  refine TotN.bind_load _ ?_
  refine TotN.bind_load _ ?_
  refine TotN.bind_load _ ?_
  refine TotN.bind_load _ ?_
  refine TotN.bind_tot (Nat.le_refl _) (Tot.alloc _) ?_
  rintro i h1 x1 ⟨rfl, s1, g1⟩
  refine TotN.bind_tot x1.1 (Tot.alloc _) ?_
  rintro j h2 x2 ⟨rfl, s2, g2⟩
  rw [hv]
  refine TotN.bind_store (by omega) _ ?_
  refine TotN.pure _ ⟨by omega, by simp; omega, ?_⟩
  rw [get_set_same (by omega)]

/-- `notRangeFin lo hi` : two new objects holding `~hi` and `~lo` -/
theorem notRangeFin_tot (h : Heap) {lo hi : Addr} (vlo : lo < h.size) :
    Tot (notRangeFin lo hi) h (fun p h' =>
      AddrIs h.size (inot (h.get hi)) p.1 h' ∧ AddrIs h.size (inot (h.get lo)) p.2 h') := by
  unfold notRangeFin
  refine Tot.bind_load _ ?_
  refine Tot.bind (Tot.alloc _) ?_
  rintro p h1 x1 ⟨rfl, s1, g1⟩
  refine Tot.bind_load _ ?_
  refine Tot.bind (Tot.alloc _) ?_
  rintro q h2 x2 ⟨rfl, s2, g2⟩
  refine Tot.pure _ ⟨⟨Nat.le_refl _, by omega, ?_⟩, ⟨by omega, by omega, ?_⟩⟩
  · rw [x2.get (by omega)]; exact g1
  · rw [g2, x1.get vlo]

/-- a range of new objects (at or above `n`) with value `Z` -/
def FreshRangeIs (n : Nat) (Z : IR) (z : HIR) (h' : Heap) : Prop :=
  (∀ a, z.lo = some a → n ≤ a) ∧ (∀ a, z.hi = some a → n ≤ a) ∧ VR h' z ∧ viewAt h' z = Z

theorem FreshRangeIs.mono {n m : Nat} {Z : IR} {z : HIR} {h' : Heap} (p : FreshRangeIs n Z z h')
    (hmn : m ≤ n) : FreshRangeIs m Z z h' :=
  ⟨fun a e => Nat.le_trans hmn (p.1 a e), fun a e => Nat.le_trans hmn (p.2.1 a e), p.2.2⟩

/-! ### `andBothNonNeg` -/

theorem andBothNonNeg_tot {h : Heap} {x y : HIR} (vx : VR h x) (vy : VR h y) {Z : IR}
    (hZ : Interval.andBothNonNeg (viewAt h x) (viewAt h y) = some Z) :
    Tot (andBothNonNeg x y) h (FreshRangeIs h.size Z) := by
  apply TotN.toTot
  unfold andBothNonNeg
  refine TotN.bind_view _ ?_
  refine TotN.bind_view _ ?_
  unfold Interval.andBothNonNeg at hZ
  refine TotN.ite (fun c => ?_) (fun c => ?_)
  · rw [if_pos c] at hZ; cases hZ
  rw [if_neg c] at hZ
  obtain ⟨xl, xh⟩ := x
  obtain ⟨yl, yh⟩ := y
  obtain ⟨vxl, vxh⟩ := vx
  obtain ⟨vyl, vyh⟩ := vy
  cases xl with
  | none => simp [viewAt] at hZ
  | some xlo =>
  cases yl with
  | none => simp [viewAt] at hZ
  | some ylo =>
  have hxlo : xlo < h.size := vxl xlo rfl
  have hylo : ylo < h.size := vyl ylo rfl
  cases xh with
  | none =>
    cases yh with
    | none =>
      simp only [viewAt, Option.map_some, Option.map_none, Option.some.injEq] at hZ
      subst hZ
      refine TotN.bind_tot (Nat.le_refl _) (Tot.alloc _) ?_
      rintro z h1 x1 ⟨rfl, s1, g1⟩
      refine TotN.pure _ ⟨?_, ?_, ⟨?_, ?_⟩, ?_⟩
      · intro a e; cases e; exact Nat.le_refl _
      · intro a e; cases e
      · simp only [VO_some]; omega
      · simp
      · simp only [viewAt, Option.map_some, Option.map_none, g1]
    | some yhi =>
      have hyhi : yhi < h.size := vyh yhi rfl
      simp only [viewAt, Option.map_some, Option.map_none, Option.some.injEq] at hZ
      subst hZ
      refine TotN.bind_tot (Nat.le_refl _) (Tot.alloc _) ?_
      rintro z h1 x1 ⟨rfl, s1, g1⟩
      refine TotN.bind_load _ ?_
      refine TotN.bind_tot x1.1 (Tot.alloc _) ?_
      rintro w h2 x2 ⟨rfl, s2, g2⟩
      refine TotN.pure _ ⟨?_, ?_, ⟨?_, ?_⟩, ?_⟩
      · intro a e; cases e; exact Nat.le_refl _
      · intro a e; cases e; omega
      · simp only [VO_some]; omega
      · simp only [VO_some]; omega
      · have : h2.get h.size = 0 := by rw [x2.get (by omega)]; exact g1
        simp only [viewAt, Option.map_some, this, g2, x1.get hyhi]
  | some xhi =>
    have hxhi : xhi < h.size := vxh xhi rfl
    cases yh with
    | none =>
      simp only [viewAt, Option.map_some, Option.map_none, Option.some.injEq] at hZ
      subst hZ
      refine TotN.bind_tot (Nat.le_refl _) (Tot.alloc _) ?_
      rintro z h1 x1 ⟨rfl, s1, g1⟩
      refine TotN.bind_load _ ?_
      refine TotN.bind_tot x1.1 (Tot.alloc _) ?_
      rintro w h2 x2 ⟨rfl, s2, g2⟩
      refine TotN.pure _ ⟨?_, ?_, ⟨?_, ?_⟩, ?_⟩
      · intro a e; cases e; exact Nat.le_refl _
      · intro a e; cases e; omega
      · simp only [VO_some]; omega
      · simp only [VO_some]; omega
      · have : h2.get h.size = 0 := by rw [x2.get (by omega)]; exact g1
        simp only [viewAt, Option.map_some, this, g2, x1.get hxhi]
    | some yhi =>
      have hyhi : yhi < h.size := vyh yhi rfl
      simp only [viewAt, Option.map_some] at hZ
      cases hmax : andMaxP (h.get xlo) (h.get xhi) (h.get ylo) (h.get yhi) with
      | none => rw [hmax] at hZ; simp at hZ
      | some zMaxV =>
      rw [hmax] at hZ
      simp only [Option.bind_some] at hZ
      cases hmin : orMaxP (inot (h.get xhi)) (inot (h.get xlo)) (inot (h.get yhi)) (inot (h.get ylo)) with
      | none => rw [hmin] at hZ; simp at hZ
      | some mV =>
      rw [hmin] at hZ
      simp only [Option.map_some, Option.some.injEq] at hZ
      subst hZ
      refine TotN.bind_tot (Nat.le_refl _) (andMax_tot hmax) ?_
      rintro zMax h1 x1 pMax
      refine TotN.bind_tot x1.1 (notRangeFin_tot h1 (lo := xlo) (hi := xhi) (by have := x1.1; omega)) ?_
      rintro ⟨nxl, nxh⟩ h2 x2 ⟨pnxl, pnxh⟩
      have x12 := x1.trans x2
      refine TotN.bind_tot x12.1 (notRangeFin_tot h2 (lo := ylo) (hi := yhi) (by have := x12.1; omega)) ?_
      rintro ⟨nyl, nyh⟩ h3 x3 ⟨pnyl, pnyh⟩
      have x13 := x12.trans x3
      have e1 : h3.get nxl = inot (h.get xhi) := by
        rw [x3.get pnxl.2.1, pnxl.2.2, x1.get hxhi]
      have e2 : h3.get nxh = inot (h.get xlo) := by
        rw [x3.get pnxh.2.1, pnxh.2.2, x1.get hxlo]
      have e3 : h3.get nyl = inot (h.get yhi) := by
        rw [pnyl.2.2, x12.get hyhi]
      have e4 : h3.get nyh = inot (h.get ylo) := by
        rw [pnyh.2.2, x12.get hylo]
      have hmin' : orMaxP (h3.get nxl) (h3.get nxh) (h3.get nyl) (h3.get nyh) = some mV := by
        rw [e1, e2, e3, e4]; exact hmin
      refine TotN.bind_tot x13.1 (orMax_tot hmin') ?_
      rintro zMin h4 x4 pMin
      refine TotN.bind_load _ ?_
      have hzMax4 : zMax < h4.size := by
        have := pMax.2.1; have := x2.1; have := x3.1; have := x4.1; omega
      have hneq : zMin ≠ zMax := by
        have := pMin.1; have := pMax.2.1; have := x2.1; have := x3.1; omega
      refine TotN.bind_store (by have := pMin.1; have := x13.1; omega) _ ?_
      refine TotN.pure _ ⟨?_, ?_, ⟨?_, ?_⟩, ?_⟩
      · intro a e; cases e; have := pMin.1; have := x13.1; omega
      · intro a e; cases e; exact pMax.1
      · simp only [VO_some, size_set]; exact pMin.2.1
      · simp only [VO_some, size_set]; exact hzMax4
      · have g4 : h4.get zMax = zMaxV := by
          rw [x4.get (by have := pMax.2.1; have := x2.1; have := x3.1; omega),
            x3.get (by have := pMax.2.1; have := x2.1; omega), x2.get pMax.2.1]
          exact pMax.2.2
        simp only [viewAt, Option.map_some, get_set_same pMin.2.1, get_set_ne hneq, g4, pMin.2.2]

/-! ### `orBothNonNeg` -/

/-- the common tail of the value model's `orBothNonNeg` (its local `fin`) -/
def orFinP (xlo xhi ylo yhi : Int) (zMax : Option Int) : Option IR :=
  (andMaxP (inot xhi) (inot xlo) (inot yhi) (inot ylo)).map fun m => ⟨some (inot m), zMax⟩

/-- the half-infinite branch of the value model's `orBothNonNeg` -/
def orHalfP (x y : IR) (xlo ylo : Int) (xhi? yhi? : Option Int) : Option IR :=
  if x.containsInt ylo then some ⟨some ylo, none⟩
  else if y.containsInt xlo then some ⟨some xlo, none⟩
  else
    match xhi?, yhi? with
    | none, none => none
    | some xhi, _ =>
      if xhi ≥ ylo then none else
      (bitFillRightP ylo).bind fun f => orFinP xlo xhi ylo f none
    | none, some yhi =>
      if yhi ≥ xlo then none else
      (bitFillRightP xlo).bind fun f => orFinP ylo yhi xlo f none

theorem orBothNonNeg_unfold (x y : IR) : Interval.orBothNonNeg x y =
    if x.empty || x.containsNegative || y.empty || y.containsNegative then none
    else
      match x.lo, y.lo with
      | some xlo, some ylo =>
        (match x.hi, y.hi with
        | some xhi, some yhi =>
          (orMaxP xlo xhi ylo yhi).bind fun zMax => orFinP xlo xhi ylo yhi (some zMax)
        | xhi?, yhi? => orHalfP x y xlo ylo xhi? yhi?)
      | _, _ => none := by
  unfold Interval.orBothNonNeg
  rfl

theorem orTail_tot {h : Heap} {xlo xhi ylo yhi : Addr} (v1 : xlo < h.size) (v2 : xhi < h.size)
    (v3 : ylo < h.size) (v4 : yhi < h.size) {zMax : Option Addr} (vz : VO h zMax) {Z : IR}
    (hZ : orFinP (h.get xlo) (h.get xhi) (h.get ylo) (h.get yhi) (valO h zMax) = some Z) :
    Tot (orTail xlo xhi ylo yhi zMax) h (fun z h' =>
      z.hi = zMax ∧ (∀ a, z.lo = some a → h.size ≤ a) ∧ VR h' z ∧ viewAt h' z = Z) := by
  apply TotN.toTot
  unfold orTail
  unfold orFinP at hZ
  cases hm : andMaxP (inot (h.get xhi)) (inot (h.get xlo)) (inot (h.get yhi)) (inot (h.get ylo)) with
  | none => rw [hm] at hZ; simp at hZ
  | some mV =>
  rw [hm] at hZ
  simp only [Option.map_some, Option.some.injEq] at hZ
  subst hZ
  refine TotN.bind_tot (Nat.le_refl _) (notRangeFin_tot h (lo := xlo) (hi := xhi) v1) ?_
  rintro ⟨nxl, nxh⟩ h2 x2 ⟨pnxl, pnxh⟩
  refine TotN.bind_tot x2.1 (notRangeFin_tot h2 (lo := ylo) (hi := yhi) (by have := x2.1; omega)) ?_
  rintro ⟨nyl, nyh⟩ h3 x3 ⟨pnyl, pnyh⟩
  have x23 := x2.trans x3
  have e1 : h3.get nxl = inot (h.get xhi) := by rw [x3.get pnxl.2.1, pnxl.2.2]
  have e2 : h3.get nxh = inot (h.get xlo) := by rw [x3.get pnxh.2.1, pnxh.2.2]
  have e3 : h3.get nyl = inot (h.get yhi) := by rw [pnyl.2.2, x2.get v4]
  have e4 : h3.get nyh = inot (h.get ylo) := by rw [pnyh.2.2, x2.get v3]
  have hm' : andMaxP (h3.get nxl) (h3.get nxh) (h3.get nyl) (h3.get nyh) = some mV := by
    rw [e1, e2, e3, e4]; exact hm
  refine TotN.bind_tot x23.1 (andMax_tot hm') ?_
  rintro zMin h4 x4 pMin
  refine TotN.bind_load _ ?_
  have x24 := x23.trans x4
  have hge : h.size ≤ zMin := by have := pMin.1; have := x23.1; omega
  refine TotN.bind_store hge _ ?_
  refine TotN.pure _ ⟨rfl, ?_, ⟨?_, ?_⟩, ?_⟩
  · intro a e; cases e; exact hge
  · simp only [VO_some, size_set]; exact pMin.2.1
  · intro a e
    have := vz a e
    simp only [size_set]
    have := x24.1
    omega
  · simp only [viewAt, Option.map_some, get_set_same pMin.2.1, pMin.2.2]
    congr 1
    cases zMax with
    | none => rfl
    | some a =>
      have ha := vz a rfl
      have hne : zMin ≠ a := by omega
      simp only [valO, Option.map_some, get_set_ne hne, x24.get ha]

/-- `bitFillRight(f)` as a step: the object `f` (at or above `n`) is updated in place -/
theorem TotN.bind_bitFillRight {β : Type} {n : Nat} {h : Heap} {f : Addr} (hf : n ≤ f)
    (vf : f < h.size) {v : Int} (hv : bitFillRightP (h.get f) = some v) {k : Unit → HM β}
    {Q : β → Heap → Prop}
    (hk : ∀ h1, h1.size = h.size → h1.get f = v → (∀ b, b ≠ f → h1[b]? = h[b]?) →
      TotN n (k ()) h1 Q) :
    TotN n (bitFillRight f >>= k) h Q := by
  unfold bitFillRightP at hv
  unfold bitFillRight
  by_cases hneg : h.get f < 0
  · rw [if_pos hneg] at hv; cases hv
  rw [if_neg hneg] at hv
  cases hv
  by_cases hz : h.get f = 0
  · -- no store: the heap is unchanged
    have hk' := hk h rfl (by rw [hz]; simp [Interval.bitFillRight]) (fun _ _ => rfl)
    obtain ⟨b, h2, e2, f2, p2⟩ := hk'
    refine ⟨b, h2, ?_, f2, p2⟩
    simp only [Bind.bind, StateT.bind, IntervalHeap.load, Option.bind_some, hneg, hz, if_false,
      if_true, Pure.pure, StateT.pure, e2, lt_self_iff_false]
  · have hk' := hk (h.setIfInBounds f (Interval.bitFillRight (h.get f))) (by simp)
      (get_set_same vf _) (fun b hb => by simp [Array.getElem?_setIfInBounds, Ne.symm hb])
    obtain ⟨b, h2, e2, f2, p2⟩ := hk'
    refine ⟨b, h2, ?_, ?_, p2⟩
    · simp only [Bind.bind, StateT.bind, IntervalHeap.load, Option.bind_some, hneg, hz, if_false,
        IntervalHeap.store, e2]
    · refine ⟨by have := f2.1; simpa using this, fun i hi => ?_⟩
      rw [f2.2 i hi]
      have hne : f ≠ i := Nat.ne_of_gt (Nat.lt_of_lt_of_le hi hf)
      simp [Array.getElem?_setIfInBounds, hne]

theorem get_of_getElem? {h1 h : Heap} {b : Addr} (e : h1[b]? = h[b]?) : h1.get b = h.get b := by
  simp only [Heap.get, e]

/-- one half of the half-infinite branch: `y[1] = copy of y[0]; bitFillRight(y[1]); tail` -/
theorem orHalf_fill_tot {h : Heap} {n : Nat} (hn : n ≤ h.size) {alo ahi blo : Addr}
    (v1 : alo < h.size) (v2 : ahi < h.size) (v3 : blo < h.size) {Z : IR}
    (hZ : (bitFillRightP (h.get blo)).bind
      (fun f => orFinP (h.get alo) (h.get ahi) (h.get blo) f none) = some Z) :
    TotN n (do
        let f ← alloc (h.get blo)
        bitFillRight f
        orTail alo ahi blo f none) h (FreshRangeIs h.size Z) := by
  cases hb : bitFillRightP (h.get blo) with
  | none => rw [hb] at hZ; simp at hZ
  | some fv =>
  rw [hb] at hZ
  simp only [Option.bind_some] at hZ
  refine TotN.bind_tot hn (Tot.alloc _) ?_
  rintro f h1 x1 ⟨rfl, s1, g1⟩
  have hb1 : bitFillRightP (h1.get h.size) = some fv := by rw [g1]; exact hb
  refine TotN.bind_bitFillRight (by omega) (by omega) hb1 ?_
  intro h2 hs2 hg2 hrest
  have q1 : h2.get alo = h.get alo := by
    rw [get_of_getElem? (hrest alo (by omega)), x1.get v1]
  have q2 : h2.get ahi = h.get ahi := by
    rw [get_of_getElem? (hrest ahi (by omega)), x1.get v2]
  have q3 : h2.get blo = h.get blo := by
    rw [get_of_getElem? (hrest blo (by omega)), x1.get v3]
  have hZ2 : orFinP (h2.get alo) (h2.get ahi) (h2.get blo) (h2.get h.size) (valO h2 none) = some Z := by
    rw [q1, q2, q3, hg2]; exact hZ
  have t := orTail_tot (h := h2) (xlo := alo) (xhi := ahi) (ylo := blo) (yhi := h.size)
    (by omega) (by omega) (by omega) (by omega) (zMax := none) (by simp) hZ2
  refine TotN.mono (TotN.ofTot (by omega) t) ?_
  rintro z h3 ⟨ehi, flo, vz, ez⟩
  refine ⟨fun a e => ?_, fun a e => ?_, vz, ez⟩
  · have := flo a e; omega
  · rw [ehi] at e; cases e

theorem orHalfInfinite_tot {h : Heap} (X Y : IR) {xlo ylo : Addr} {xhi yhi : Option Addr}
    (v1 : xlo < h.size) (v2 : ylo < h.size) (v3 : VO h xhi) (v4 : VO h yhi) {Z : IR}
    (hZ : orHalfP X Y (h.get xlo) (h.get ylo) (valO h xhi) (valO h yhi) = some Z) :
    Tot (orHalfInfinite X Y xlo ylo xhi yhi) h (FreshRangeIs h.size Z) := by
  apply TotN.toTot
  unfold orHalfInfinite
  refine TotN.bind_load _ ?_
  refine TotN.bind_load _ ?_
  unfold orHalfP at hZ
  refine TotN.ite (fun c1 => ?_) (fun c1 => ?_)
  · rw [if_pos c1] at hZ
    cases hZ
    refine TotN.bind_tot (Nat.le_refl _) (Tot.alloc _) ?_
    rintro z h1 x1 ⟨rfl, s1, g1⟩
    refine TotN.pure _ ⟨?_, ?_, ⟨?_, ?_⟩, ?_⟩
    · intro a e; cases e; exact Nat.le_refl _
    · intro a e; cases e
    · simp only [VO_some]; omega
    · simp
    · simp only [viewAt, Option.map_some, Option.map_none, g1]
  rw [if_neg c1] at hZ
  refine TotN.ite (fun c2 => ?_) (fun c2 => ?_)
  · rw [if_pos c2] at hZ
    cases hZ
    refine TotN.bind_tot (Nat.le_refl _) (Tot.alloc _) ?_
    rintro z h1 x1 ⟨rfl, s1, g1⟩
    refine TotN.pure _ ⟨?_, ?_, ⟨?_, ?_⟩, ?_⟩
    · intro a e; cases e; exact Nat.le_refl _
    · intro a e; cases e
    · simp only [VO_some]; omega
    · simp
    · simp only [viewAt, Option.map_some, Option.map_none, g1]
  rw [if_neg c2] at hZ
  cases xhi with
  | none =>
    cases yhi with
    | none => simp [valO] at hZ
    | some yh =>
      have vyh : yh < h.size := v4 yh rfl
      simp only [valO, Option.map_some, Option.map_none] at hZ
      refine TotN.bind_load _ ?_
      refine TotN.ite (fun c3 => ?_) (fun c3 => ?_)
      · rw [if_pos c3] at hZ; cases hZ
      rw [if_neg c3] at hZ
      exact orHalf_fill_tot (Nat.le_refl _) v2 vyh v1 hZ
  | some xh =>
    have vxh : xh < h.size := v3 xh rfl
    simp only [valO, Option.map_some] at hZ
    refine TotN.bind_load _ ?_
    refine TotN.ite (fun c3 => ?_) (fun c3 => ?_)
    · rw [if_pos c3] at hZ; cases hZ
    rw [if_neg c3] at hZ
    exact orHalf_fill_tot (Nat.le_refl _) v1 vxh v2 hZ

theorem orBothNonNeg_tot {h : Heap} {x y : HIR} (vx : VR h x) (vy : VR h y) {Z : IR}
    (hZ : Interval.orBothNonNeg (viewAt h x) (viewAt h y) = some Z) :
    Tot (orBothNonNeg x y) h (FreshRangeIs h.size Z) := by
  rw [orBothNonNeg_unfold] at hZ
  unfold orBothNonNeg
  refine Tot.bind_view _ ?_
  refine Tot.bind_view _ ?_
  refine Tot.ite (fun c => ?_) (fun c => ?_)
  · rw [if_pos c] at hZ; cases hZ
  rw [if_neg c] at hZ
  obtain ⟨xl, xh⟩ := x
  obtain ⟨yl, yh⟩ := y
  obtain ⟨vxl, vxh⟩ := vx
  obtain ⟨vyl, vyh⟩ := vy
  cases xl with
  | none => simp [viewAt] at hZ
  | some xlo =>
  cases yl with
  | none => simp [viewAt] at hZ
  | some ylo =>
  have hxlo : xlo < h.size := vxl xlo rfl
  have hylo : ylo < h.size := vyl ylo rfl
  cases xh with
  | none =>
    simp only [viewAt, Option.map_some, Option.map_none] at hZ
    exact orHalfInfinite_tot _ _ hxlo hylo vxh vyh hZ
  | some xhi =>
    have hxhi : xhi < h.size := vxh xhi rfl
    cases yh with
    | none =>
      simp only [viewAt, Option.map_some, Option.map_none] at hZ
      exact orHalfInfinite_tot _ _ hxlo hylo vxh vyh hZ
    | some yhi =>
      have hyhi : yhi < h.size := vyh yhi rfl
      simp only [viewAt, Option.map_some] at hZ
      cases hmax : orMaxP (h.get xlo) (h.get xhi) (h.get ylo) (h.get yhi) with
      | none => rw [hmax] at hZ; simp at hZ
      | some zMaxV =>
      rw [hmax] at hZ
      simp only [Option.bind_some] at hZ
      refine Tot.bind (orMax_tot hmax) ?_
      rintro zMax h1 x1 pMax
      have hZ1 : orFinP (h1.get xlo) (h1.get xhi) (h1.get ylo) (h1.get yhi) (valO h1 (some zMax))
          = some Z := by
        rw [x1.get hxlo, x1.get hxhi, x1.get hylo, x1.get hyhi]
        simp only [valO, Option.map_some, pMax.2.2]
        exact hZ
      have t := orTail_tot (h := h1) (by have := x1.1; omega) (by have := x1.1; omega)
        (by have := x1.1; omega) (by have := x1.1; omega) (zMax := some zMax)
        (by simp only [VO_some]; exact pMax.2.1) hZ1
      refine Tot.mono t ?_
      rintro z h2 x2 ⟨ehi, flo, vz, ez⟩
      refine ⟨fun a e => ?_, fun a e => ?_, vz, ez⟩
      · have := flo a e; have := x1.1; omega
      · rw [ehi] at e; cases e; exact pMax.1

end WuffsVerif.IntervalHeap
