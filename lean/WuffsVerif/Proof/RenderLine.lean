/-
C12, the Wuffs formatter: one rendered line of tokens is read back token by token.
`lineBody` is the text `renderToks` appends; `relex_adj` discharges the places where `Render`
writes no space, from its own spacing rule and the pair table; `line_retok` is the induction
over the tokens of the line.  Core Lean only.
-/
import WuffsVerif.Proof.RenderAdj

namespace WuffsVerif.Render
open WuffsVerif.FmtToken WuffsVerif.Gen.C12

/-! ### what `renderToks` writes -/

/-- `Render`'s rule: a space between the previous token `p` and `tok` -/
def needSpace (p : Tok) (tr : Bool) (tok : Tok) : Bool :=
  (p.id == idEq || (!tr && !tok.isTightLeft)) &&
  (tok.id != idOpenParen || !isCloseIdentStrLiteralQuestion p)

/-- `prevIsTightRight` after `tok` -/
def nextTr (prev : Option Tok) (tok : Tok) : Bool :=
  match prev with
  | some p => if tok.isUnaryAndBinary then !isCloseIdentLiteral p else tok.isTightRight
  | none => tok.isTightRight

def sepOf (prev : Option Tok) (tr : Bool) (tok : Tok) : Bytes :=
  match prev with
  | none => []
  | some p => if needSpace p tr tok then [32] else []

def lineBody : Option Tok → Bool → List Tok → Bytes
  | _, _, [] => []
  | prev, tr, t :: ts => sepOf prev tr t ++ tokText t ++ lineBody (some t) (nextTr prev t) ts

theorem renderTok_eq {a a' : LineAcc} {tok : Tok} (h : renderTok a tok = some a') :
    a'.buf = a.buf ++ sepOf a.prev a.prevIsTightRight tok ++ tokText tok ∧ a'.prev = some tok ∧
      a'.prevIsTightRight = nextTr a.prev tok := by
  unfold renderTok at h
  simp only at h
  split at h
  · exact absurd h (by simp)
  · rename_i indent _
    have h' := Option.some.inj h
    subst h'
    refine ⟨?_, rfl, ?_⟩
    · unfold sepOf needSpace
      cases a.prev <;> rfl
    · unfold nextTr
      cases a.prev <;> rfl

theorem renderToks_buf : ∀ (ts : List Tok) (a a' : LineAcc), renderToks a ts = some a' →
    a'.buf = a.buf ++ lineBody a.prev a.prevIsTightRight ts := by
  intro ts
  induction ts with
  | nil =>
    intro a a' h
    simp only [renderToks, Option.some.injEq] at h
    subst h
    simp [lineBody]
  | cons t ts ih =>
    intro a a' h
    rw [renderToks] at h
    cases h1 : renderTok a t with
    | none => rw [h1] at h; exact absurd h (by simp)
    | some a1 =>
      rw [h1] at h
      obtain ⟨e1, e2, e3⟩ := renderTok_eq h1
      rw [ih a1 a' h, e1, e2, e3, lineBody]
      simp only [List.append_assoc]

/-! ### no space between two tokens -/

/-- the pairs the tokenizer would merge: "." before a ".", and "+" / "-" before a "=" (no
program the parser accepts has them; the harness counts them on every accepted source) -/
def badPair (t t2 : Tok) : Bool :=
  (t.text == [46] && t2.text.head? == some 46) ||
  ((t.text == [43] || t.text == [45]) && t2.text.head? == some 61)

/-- `Render` keeps the first byte of a token -/
theorem tokText_head {t : Tok} (h : wfTok t = true) : (tokText t).head? = t.text.head? := by
  cases htxt : t.text with
  | nil => simp [tokText, htxt]
  | cons c σ =>
    cases hc : numeric c with
    | false => rw [tokText_not_numeric t c σ htxt hc, htxt]
    | true =>
      rw [tokText_numeric t c σ htxt hc, htxt]
      unfold numOut
      simp only
      split
      · rfl
      · -- `appendNum` keeps the first digit
        have hpl : wfPlain t = true := by
          cases hp : wfPunct t with
          | true =>
            obtain ⟨e, he, _, het⟩ := wfPunct_entry hp
            obtain ⟨_, _, c', σ', hc', _, _, _, hnum, _⟩ := punct_facts he
            rw [het, htxt] at hc'
            simp only [List.cons.injEq] at hc'
            rw [← hc'.1, hc] at hnum
            exact absurd hnum (by simp)
          | false => unfold wfTok at h; rw [hp] at h; simpa using h
        have hn : wfNumText (c :: σ) = true := by
          unfold wfPlain at hpl
          rw [Bool.and_eq_true, Bool.or_eq_true, Bool.or_eq_true, htxt] at hpl
          rcases hpl.1 with (hw | hn) | hs
          · unfold wfWordText at hw
            rw [Bool.and_eq_true, Bool.and_eq_true] at hw
            rw [(alpha_not_numeric c hw.1.1).1] at hc
            exact absurd hc (by simp)
          · exact hn
          · unfold wfStrText at hs
            rw [Bool.and_eq_true] at hs
            have h2 := hs.2
            simp only at h2
            have hq : (c == 34 || c == 39) = true := by
              by_cases h1 : (c == 34) = true
              · simp [h1]
              · by_cases h3 : (c == 39) = true
                · simp [h3]
                · simp [h1, h3] at h2
            rw [quote_not_numeric c hq] at hc
            exact absurd hc (by simp)
        unfold appendNum
        split
        · rename_i p rest heq
          split
          · simp only [List.cons.injEq] at heq; simp [heq.1]
          · split
            · simp only [List.cons.injEq] at heq; simp [heq.1]
            · obtain ⟨d, hd⟩ := groupBody_cons_numeric 6 (by decide) c σ hc
              rw [hd]; rfl
        · obtain ⟨d, hd⟩ := groupBody_cons_numeric 6 (by decide) c σ hc
          rw [hd]; rfl

theorem tokText_ne_nil {t : Tok} (h : wfTok t = true) : ∃ c σ, tokText t = c :: σ ∧ t.text.head? = some c := by
  have hh := tokText_head h
  have hne : ∃ c σ, t.text = c :: σ := by
    cases hp : wfPunct t with
    | true =>
      obtain ⟨e, he, _, het⟩ := wfPunct_entry hp
      obtain ⟨_, _, c', σ', hc', _⟩ := punct_facts he
      exact ⟨c', σ', by rw [← het, hc']⟩
    | false =>
      have hpl : wfPlain t = true := by unfold wfTok at h; rw [hp] at h; simpa using h
      obtain ⟨c, σ, hc, _⟩ := wfPlain_head hpl
      exact ⟨c, σ, hc⟩
  obtain ⟨c, σ, hc⟩ := hne
  rw [hc] at hh
  cases htt : tokText t with
  | nil => rw [htt] at hh; simp at hh
  | cons c' σ' =>
    rw [htt] at hh
    simp only [List.head?_cons, Option.some.injEq] at hh
    exact ⟨c', σ', rfl, by rw [hc, hh]; rfl⟩

theorem mem_wordNumStrStarts (c : UInt8) (h : plainStart c = true) : c ∈ wordNumStrStarts := by
  unfold wordNumStrStarts
  rw [List.mem_filterMap]
  refine ⟨c.toNat, by simp [c.toNat_lt], ?_⟩
  simp only [UInt8.ofNat_toNat]
  unfold plainStart at h
  have : (alphaNumeric c || c == 34 || c == 39) = true := by simpa [Bool.or_assoc] using h
  simp [this]

/-- Between `t` and `t2` `Render` writes no space: `t`, as written, is read back whatever
follows `t2`'s text — unless the pair is one of the listed unparseable ones. -/
theorem relex_adj {t t2 : Tok} (h1 : wfTok t = true) (h2 : wfTok t2 = true) (tr : Bool)
    (htr : tr = true → t.isTightRight = true ∨ t.isUnaryAndBinary = true)
    (hns : needSpace t tr t2 = false) (hbad : badPair t t2 = false) (more : Bytes) :
    Relex (tokText t) (retokId t) (tokText t2 ++ more) := by
  obtain ⟨c2, σ2, htt2, hhead2⟩ := tokText_ne_nil h2
  -- facts about `t2`
  have ht2 : (wfPunct t2 = false → t2.isTightLeft = false ∧ (t2.id == idOpenParen) = false) := by
    intro hp
    have hpl : wfPlain t2 = true := by unfold wfTok at h2; rw [hp] at h2; simpa using h2
    obtain ⟨f1, _, _, f4, _⟩ := wfPlain_flags hpl
    exact ⟨f1, f4⟩
  cases hp : wfPunct t with
  | false =>
    -- a word / number / string: `t2` is tight-left or "(", so it starts with no letter or digit
    have hpl : wfPlain t = true := by unfold wfTok at h1; rw [hp] at h1; simpa using h1
    obtain ⟨_, f2, f3, _, f5⟩ := wfPlain_flags hpl
    have htr' : tr = false := by
      cases tr with
      | false => rfl
      | true => rcases htr rfl with h | h <;> simp [f2, f3] at h
    subst htr'
    unfold needSpace at hns
    simp only [f5, Bool.not_false, Bool.true_and, Bool.false_or] at hns
    have hp2 : wfPunct t2 = true := by
      cases hp2 : wfPunct t2 with
      | true => rfl
      | false =>
        obtain ⟨g1, g2⟩ := ht2 hp2
        have : (!t2.isTightLeft && (t2.id != idOpenParen || !isCloseIdentStrLiteralQuestion t)) = true := by
          rw [g1]; simp [bne, g2]
        rw [this] at hns
        exact absurd hns (by decide)
    obtain ⟨e2, he2, hid2, htxt2⟩ := wfPunct_entry hp2
    have hfl2 := wfPunct_flags he2 hid2
    have hcond : (hasFlag e2.2.2 2 || e2.1 == idOpenParen) = true := by
      have h1' : t2.isTightLeft = hasFlag e2.2.2 2 := by unfold Tok.isTightLeft; rw [hfl2]
      rw [h1'] at hns
      rw [hid2]
      cases hA : hasFlag e2.2.2 2 with
      | true => rfl
      | false =>
        cases hB : (t2.id == idOpenParen) with
        | true => rfl
        | false =>
          have : (!hasFlag e2.2.2 2 && (t2.id != idOpenParen || !isCloseIdentStrLiteralQuestion t)) = true := by
            rw [hA]; simp [bne, hB]
          rw [this] at hns
          exact absurd hns (by decide)
    have htl := List.all_eq_true.mp tight_left_starts_no_word e2 he2
    simp only [hcond, Bool.not_true, Bool.false_or] at htl
    have hc2 : alphaNumeric c2 = false := by
      rw [htxt2] at htl
      cases hx : t2.text with
      | nil => rw [hx] at hhead2; simp at hhead2
      | cons x xs =>
        rw [hx] at htl hhead2
        simp only [List.head?_cons, Option.some.injEq] at hhead2
        subst hhead2
        simpa using htl
    apply relex_plain hpl hp
    exact ⟨c2, σ2 ++ more, by rw [htt2]; rfl, hc2⟩
  | true =>
    obtain ⟨e, he, hid, htxt⟩ := wfPunct_entry hp
    obtain ⟨hlt, hfo, c, σ, hc, h32, hq, hal, hnum, hsl⟩ := punct_facts he
    have hfl := wfPunct_flags he hid
    have htext : tokText t = c :: σ := by
      rw [tokText_not_numeric t c σ (by rw [← htxt, hc]) hnum, ← htxt, hc]
    have hrid : retokId t = e.1 := by simp [retokId, hp, hid]
    rw [htext, hrid]
    -- the `Next` of `t2`
    have hq : ∃ q ∈ allNext, q.text ≠ [] ∧ q.text <+: (tokText t2 ++ more) ∧
        q.text.head? = t2.text.head? ∧ (t2.isTightLeft = true → q.tightLeft = true) ∧
        ((t2.id == idOpenParen) = true → q.isOpenParen = true) := by
      cases hp2 : wfPunct t2 with
      | true =>
        obtain ⟨e2, he2, hid2, htxt2⟩ := wfPunct_entry hp2
        obtain ⟨_, _, c2', σ2', hc2', _, _, _, hnum2, _⟩ := punct_facts he2
        have hfl2 := wfPunct_flags he2 hid2
        have htext2 : tokText t2 = e2.2.1 := by
          rw [tokText_not_numeric t2 c2' σ2' (by rw [← htxt2, hc2']) hnum2, htxt2]
        refine ⟨⟨e2.2.1, hasFlag e2.2.2 2, e2.1 == idOpenParen, true⟩, ?_, ?_, ?_, ?_, ?_, ?_⟩
        · unfold allNext
          apply List.mem_append_left
          exact List.mem_map.mpr ⟨e2, he2, rfl⟩
        · simp only; rw [hc2']; simp
        · simp only; rw [htext2]; exact List.prefix_append _ _
        · simp only; rw [htxt2]
        · intro h; simp only; unfold Tok.isTightLeft at h; rw [hfl2] at h; exact h
        · intro h; simp only; rw [hid2]; exact h
      | false =>
        obtain ⟨g1, g2⟩ := ht2 hp2
        have hpl2 : wfPlain t2 = true := by unfold wfTok at h2; rw [hp2] at h2; simpa using h2
        obtain ⟨c2', σ2', hc2', hstart⟩ := wfPlain_head hpl2
        have : c2' = c2 := by rw [hc2'] at hhead2; simpa using hhead2
        subst this
        refine ⟨⟨[c2'], false, false, false⟩, ?_, ?_, ?_, ?_, ?_, ?_⟩
        · unfold allNext
          apply List.mem_append_right
          exact List.mem_map.mpr ⟨c2', mem_wordNumStrStarts c2' hstart, rfl⟩
        · simp
        · simp only; rw [htt2]; exact ⟨σ2 ++ more, rfl⟩
        · simp only; rw [hc2']; rfl
        · intro h; rw [g1] at h; exact absurd h (by simp)
        · intro h; rw [g2] at h; exact absurd h (by simp)
    obtain ⟨q, hqm, hqne, hqpre, hqhead, hqtl, hqop⟩ := hq
    -- `Render`'s decision implies `mayNoSpace`
    have hmay : mayNoSpace e q = true := by
      unfold mayNoSpace
      unfold needSpace at hns
      have hTR : t.isTightRight = hasFlag e.2.2 4 := by unfold Tok.isTightRight; rw [hfl]
      have hUB : t.isUnaryAndBinary = hasFlag e.2.2 8 := by unfold Tok.isUnaryAndBinary; rw [hfl]
      rw [Bool.and_eq_false_iff] at hns
      rcases hns with hA | hB
      · rw [Bool.or_eq_false_iff] at hA
        obtain ⟨hA1, hA2⟩ := hA
        have hne : (e.1 != idEq) = true := by rw [hid]; simpa using hA1
        rw [hne, Bool.true_and]
        rw [Bool.and_eq_false_iff] at hA2
        rcases hA2 with hA2 | hA2
        · have : tr = true := by simpa using hA2
          rcases htr this with h | h
          · rw [hTR] at h; simp [h]
          · rw [hUB] at h; simp [h]
        · have : t2.isTightLeft = true := by simpa using hA2
          simp [hqtl this]
      · rw [Bool.or_eq_false_iff] at hB
        obtain ⟨hB1, hB2⟩ := hB
        have hop : (t2.id == idOpenParen) = true := by simpa using hB1
        have hcl : isCloseIdentStrLiteralQuestion t = true := by simpa using hB2
        have hne : (e.1 != idEq) = true := by
          rw [hid]
          cases hx : (t.id == idEq) with
          | false => simp [bne, hx]
          | true =>
            exfalso
            have hx' : t.id = idEq := by simpa using hx
            obtain ⟨_, hlt', hf1, hf16, hq'⟩ := semicolon_eq_facts
            unfold isCloseIdentStrLiteralQuestion Tok.isClose Tok.isIdent Tok.isDQStr Tok.isSQStr tokFlags at hcl
            rw [hx'] at hcl
            have hge : decide (idEq ≥ nBuiltInIDs) = false := by
              simp only [decide_eq_false_iff_not]; omega
            simp [hlt', hf1, hf16, hq', hge] at hcl
        rw [hne, Bool.true_and, hqop hop]
        simp
    have hnb : isBad e q = false := by
      unfold isBad
      unfold badPair at hbad
      rw [htxt, hqhead]
      exact hbad
    have hlex := nospace_pair_lexes e he q hqm hmay hnb c σ hc (tokText t2 ++ more) hqpre hqne
    apply relex_punct_lex he c σ _ hc hlex
    unfold commentStart
    cases σ with
    | cons s σ' => simpa using hsl
    | nil =>
      simp only [List.nil_append]
      cases hc47 : (c == 47) with
      | false => rfl
      | true =>
        have hc47' : c = 47 := by simpa using hc47
        have hsf := List.all_eq_true.mp slash_follow e he
        rw [hc, hc47'] at hsf
        simp only [bne_self_eq_false, Bool.false_or] at hsf
        have hsf' := List.all_eq_true.mp hsf q hqm
        rw [hmay] at hsf'
        simp only [Bool.not_true, Bool.false_or, bne_iff_ne, ne_eq] at hsf'
        have : (tokText t2 ++ more).head? = q.text.head? := by
          obtain ⟨u, hu⟩ := hqpre
          rw [← hu]
          cases hqt : q.text with
          | nil => exact absurd hqt hqne
          | cons a as => rfl
        rw [this]
        simp only [Bool.true_and, beq_eq_false_iff_ne, ne_eq]
        exact hsf'

/-! ### the tokens of a line -/

/-- none of the listed pairs among adjacent tokens (`prev`, then the list) -/
def noBadPairs : Option Tok → List Tok → Bool
  | _, [] => true
  | none, t :: ts => noBadPairs (some t) ts
  | some p, t :: ts => !badPair p t && noBadPairs (some t) ts

theorem nextTr_inv (prev : Option Tok) (t : Tok) (h : nextTr prev t = true) :
    t.isTightRight = true ∨ t.isUnaryAndBinary = true := by
  unfold nextTr at h
  cases prev with
  | none => exact Or.inl h
  | some p =>
    simp only at h
    split at h
    · rename_i hu; exact Or.inr hu
    · exact Or.inl h

/-- what follows a token in the line: the rest of the line's text and then a blank -/
theorem relex_in_line {t : Tok} (ht : wfTok t = true) (tr : Bool)
    (htr : tr = true → t.isTightRight = true ∨ t.isUnaryAndBinary = true)
    (ts : List Tok) (hts : ∀ x ∈ ts, wfTok x = true) (hbad : noBadPairs (some t) ts = true)
    (d : UInt8) (r : Bytes) (hd : d ≤ 32) :
    Relex (tokText t) (retokId t) (lineBody (some t) tr ts ++ d :: r) := by
  cases ts with
  | nil => simpa [lineBody] using relex_blank ht d r hd
  | cons t2 ts' =>
    rw [lineBody]
    unfold sepOf
    simp only
    cases hns : needSpace t tr t2 with
    | true =>
      simp only [↓reduceIte, List.append_assoc, List.cons_append, List.nil_append]
      exact relex_blank ht 32 _ (by decide)
    | false =>
      simp only [Bool.false_eq_true, ↓reduceIte, List.nil_append, List.append_assoc]
      have hb : badPair t t2 = false := by
        unfold noBadPairs at hbad
        rw [Bool.and_eq_true] at hbad
        simpa using hbad.1
      exact relex_adj ht (hts t2 (by simp)) tr htr hns hb _

/-- A rendered run of tokens, followed by a blank, is read back token by token. -/
theorem line_retok : ∀ (ts : List Tok) (prev : Option Tok) (tr : Bool),
    (∀ t ∈ ts, wfTok t = true) →
    noBadPairs prev ts = true →
    ∀ (d : UInt8) (r : Bytes), d ≤ 32 → ∀ (l : Nat) (T : List Tok) (C : Array Bytes),
      TokRun (lineBody prev tr ts ++ d :: r) l T C (d :: r) l ((ts.map (retok l)).reverse ++ T) C := by
  intro ts
  induction ts with
  | nil => intro prev tr _ _ d r _ l T C; simpa [lineBody] using TokRun.refl _ l T C
  | cons t ts ih =>
    intro prev tr hwf hbad d r hd l T C
    have ht : wfTok t = true := hwf t (by simp)
    have hts : ∀ x ∈ ts, wfTok x = true := fun x hx => hwf x (by simp [hx])
    have hbad' : noBadPairs (some t) ts = true := by
      cases prev with
      | none => simpa [noBadPairs] using hbad
      | some p =>
        unfold noBadPairs at hbad
        rw [Bool.and_eq_true] at hbad
        exact hbad.2
    rw [lineBody]
    have hsep : TokRun (sepOf prev tr t ++ tokText t ++ lineBody (some t) (nextTr prev t) ts ++ d :: r) l T C
        (tokText t ++ (lineBody (some t) (nextTr prev t) ts ++ d :: r)) l T C := by
      unfold sepOf
      cases prev with
      | none => simpa using TokRun.refl _ l T C
      | some p =>
        simp only
        split
        · simpa using TokRun.blank 32 _ l T C (by decide) (by decide)
        · simpa using TokRun.refl _ l T C
    have htok := TokRun.tok (relex_in_line ht (nextTr prev t) (nextTr_inv prev t) ts hts hbad' d r hd) l T C
    have hrest := ih (some t) (nextTr prev t) hts hbad' d r hd l (retok l t :: T) C
    have := (hsep.trans htok).trans hrest
    simpa [retok] using this

end WuffsVerif.Render
