/-
Helper lemmas for C13: the chunks handed to `ChunkWriter.AddChunk` by `rac.Writer`
cover the input (both chunking modes), for every codec meeting its contract.
-/
import WuffsVerif.Model.Rac.Writer
import WuffsVerif.Proof.RacWBuf
set_option linter.unusedSimpArgs false
set_option linter.unusedVariables false

namespace WuffsVerif.Rac

/-! ### the ghost log is only touched by a successful `AddChunk` -/

theorem CW.padLoop_log (toTemp : Bool) (padLen : Nat) (fuel remaining : Nat) (w : CW) :
    (CW.padLoop toTemp padLen fuel remaining w).1.log = w.log := by
  induction fuel generalizing remaining w with
  | zero => simp [CW.padLoop]
  | succ f ih =>
    unfold CW.padLoop
    simp only
    repeat (any_goals split)
    all_goals (first | rfl | simp [CW.fail, ih])

theorem CW.padToPageSize_log (w : CW) (t : Bool) (o : Nat) : (w.padToPageSize t o).1.log = w.log := by
  unfold CW.padToPageSize
  simp only
  repeat (any_goals split)
  all_goals (first | rfl | simp [CW.fail, CW.padLoop_log])

theorem CW.writePadding_log (w : CW) (t : Bool) (o : Nat) : (w.writePadding t o).1.log = w.log := by
  unfold CW.writePadding
  simp only
  repeat (any_goals split)
  all_goals (first | rfl | simp [CW.fail, CW.padToPageSize_log])

theorem CW.write_log (w : CW) (d : Bytes) : (w.write d).1.log = w.log := by
  unfold CW.write
  simp only
  repeat (any_goals split)
  all_goals (first | rfl | simp [CW.fail, CW.writePadding_log])

theorem CW.checkParameters_log (w : CW) : (w.checkParameters).1.log = w.log := by
  unfold CW.checkParameters
  repeat (any_goals split)
  all_goals (first | rfl | simp [CW.fail])

theorem CW.seekTemp_log (w : CW) : (w.seekTemp).1.log = w.log := by
  unfold CW.seekTemp
  repeat (any_goals split)
  all_goals rfl

theorem CW.init_log (w : CW) : (w.init).1.log = w.log := by
  unfold CW.init
  simp only
  repeat (any_goals split)
  all_goals (first | rfl | simp [CW.fail, CW.write_log, CW.checkParameters_log, CW.seekTemp_log])

theorem CW.addResource_log (w : CW) (r : Bytes) : (w.addResource r).1.log = w.log := by
  unfold CW.addResource
  simp only
  repeat (any_goals split)
  all_goals (first | rfl | simp [CW.fail, CW.write_log, CW.init_log])

/-- what `AddChunk` does to the ghost log -/
theorem CW.addChunk_log (w : CW) (d c : Nat) (p : Bytes) (s t : Nat) :
    ((w.addChunk d c p s t).2 = none →
        (w.addChunk d c p s t).1.log = if d = 0 then w.log else ⟨d, c, p, s, t⟩ :: w.log) ∧
    ((w.addChunk d c p s t).2 ≠ none → (w.addChunk d c p s t).1.log = w.log) := by
  unfold CW.addChunk
  simp only
  repeat (any_goals split)
  all_goals (first | (constructor <;> intro h <;> simp_all [CW.fail, CW.write_log, CW.init_log]) )

theorem CW.closeAtEnd_log (w : CW) (nw : NodeWriter) (r : WNode) : (w.closeAtEnd nw r).1.log = w.log := by
  unfold CW.closeAtEnd
  have h2 : (if w.cPageSize > 0 then w.padToPageSize false w.dataSize else (w, none)).1.log = w.log := by
    split
    · exact CW.padToPageSize_log _ _ _
    · rfl
  generalize (if w.cPageSize > 0 then w.padToPageSize false w.dataSize else (w, none)) = r2 at *
  obtain ⟨w2, e2⟩ := r2
  simp only at h2 ⊢
  repeat (any_goals split)
  all_goals simp [h2]

theorem CW.closeAtStart_log (w : CW) (nw : NodeWriter) (r : WNode) (n : Nat) :
    (w.closeAtStart nw r n).1.log = w.log := by
  unfold CW.closeAtStart
  simp only
  split
  · rfl
  · rename_i io hio
    have h2 : (if w.cPageSize > 0 then CW.padToPageSize { w with io := io } false n
        else ({ w with io := io }, none)).1.log = w.log := by
      split
      · rw [CW.padToPageSize_log]
      · rfl
    generalize (if w.cPageSize > 0 then CW.padToPageSize { w with io := io } false n
        else ({ w with io := io }, none)) = r2 at *
    obtain ⟨w2, e2⟩ := r2
    simp only at h2 ⊢
    split
    · exact h2
    · have h3 := CW.seekTemp_log w2
      generalize w2.seekTemp = r3 at *
      obtain ⟨w3, e3⟩ := r3
      simp only at h3 ⊢
      split
      · rw [h3, h2]
      · repeat (any_goals split)
        all_goals simp [CW.fail, h3, h2]

theorem CW.close_log (w : CW) : (w.close).1.log = w.log := by
  unfold CW.close
  cases herr : w.err with
  | some e => rfl
  | none =>
    simp only
    have h1 : (if (!w.initialized) = true then w.checkParameters else (w, none)).1.log = w.log := by
      split
      · exact CW.checkParameters_log w
      · rfl
    generalize (if (!w.initialized) = true then w.checkParameters else (w, none)) = r at *
    obtain ⟨w1, e1⟩ := r
    simp only at h1 ⊢
    repeat (any_goals split)
    all_goals (first | exact h1 | simp [CW.fail, h1, CW.closeAtEnd_log, CW.closeAtStart_log])

/-! ### frames of `useResource` / `compressAndUse` -/

theorem Writer.useResource_frame (cw : CodecW) (w : Writer) (i : Int) :
    let r := Writer.useResource cw w i
    r.1.chunkWriter.log = w.chunkWriter.log ∧ r.1.uncompressed = w.uncompressed ∧
    r.1.dChunkSize = w.dChunkSize ∧ r.1.cChunkSize = w.cChunkSize ∧ r.1.resourcesData = w.resourcesData ∧
    (r.1.err = w.err ∨ r.1.err ≠ none) := by
  unfold Writer.useResource
  simp only
  repeat (any_goals split)
  all_goals simp_all [CW.addResource_log]

theorem Writer.compressAndUse_frame (cw : CodecW) (w : Writer) (p0 p1 : Bytes) :
    let r := Writer.compressAndUse cw w p0 p1
    r.1.chunkWriter.log = w.chunkWriter.log ∧ r.1.uncompressed = w.uncompressed ∧
    r.1.dChunkSize = w.dChunkSize ∧ r.1.cChunkSize = w.cChunkSize ∧ r.1.resourcesData = w.resourcesData ∧
    (r.1.err = w.err ∨ r.1.err ≠ none) ∧
    (∀ out r2 r3, r.2 = .ok (out, r2, r3) → cw.compress p0 p1 w.resourcesData = .ok out) := by
  unfold Writer.compressAndUse
  simp only
  split
  · simp
  · rename_i out hc
    have h1 := Writer.useResource_frame cw w out.secondaryResource
    simp only at h1
    generalize hu1 : Writer.useResource cw w out.secondaryResource = u1 at *
    obtain ⟨w1, res2, e1⟩ := u1
    simp only at h1 ⊢
    have h2 := Writer.useResource_frame cw w1 out.tertiaryResource
    simp only at h2
    generalize hu2 : Writer.useResource cw w1 out.tertiaryResource = u2 at *
    obtain ⟨w2, res3, e2⟩ := u2
    simp only at h2 ⊢
    obtain ⟨a1, a2, a3, a4, a5, a6⟩ := h1
    obtain ⟨b1, b2, b3, b4, b5, b6⟩ := h2
    cases e1 with
    | some e => simp_all
    | none =>
      cases e2 with
      | some e =>
        simp_all
        rcases a6 with h | h <;> rcases b6 with h' | h' <;> simp_all
      | none =>
        simp_all
        rcases a6 with h | h <;> rcases b6 with h' | h' <;> simp_all

/-! ### the contract, the covering relation, the invariant -/

/-- The contract of a `rac.CodecWriter` (as documented on the Go interface), relative to a
decompression function `D` of primary chunk bytes: `Compress(p, q, …)` is the compressed form of
`p ++ q`; `Cut` leaves `encoded[:encodedLen]` valid and decompressing to the prefix of length
`decodedLen` of what `encoded` decompressed to. -/
structure CodecContract (cw : CodecW) (D : Bytes → Option Bytes) : Prop where
  compress_ok : ∀ p q rs out, cw.compress p q rs = .ok out → D out.compressed = some (p ++ q)
  cut_ok : ∀ c enc m enc' eLen dLen d, cw.cut c enc m = .ok (enc', eLen, dLen) → D enc = some d →
    dLen ≤ d.length ∧ D (enc'.take eLen) = some (d.take dLen)

/-- `Covers D log data`: the accepted chunks `log` (newest first) decode, with the RAC format's
implicit zero fill up to each chunk's `dRangeSize`, to exactly `data`. -/
inductive Covers (D : Bytes → Option Bytes) : List ChunkRec → Bytes → Prop where
  | nil : Covers D [] []
  | cons {log : List ChunkRec} {data : Bytes} {c : ChunkRec} {d : Bytes} {k : Nat} :
      Covers D log data → D c.primary = some d → d.length + k = c.dRangeSize →
      Covers D (c :: log) (data ++ (d ++ List.replicate k 0))

/-- invariant while a `Write`/`Close` call is in progress: unless a sticky error has been
recorded, chunks so far ++ pending bytes = all input so far -/
def Inv (D : Bytes → Option Bytes) (w : Writer) (input : Bytes) : Prop :=
  w.err ≠ none ∨ ∃ consumed, Covers D w.chunkWriter.log consumed ∧ consumed ++ w.uncompressed.abs = input

theorem drop_take_length (n : Nat) (l : Bytes) : l.drop (l.take n).length = l.drop n := by
  rw [List.length_take]
  by_cases h : n ≤ l.length
  · rw [Nat.min_eq_left h]
  · rw [Nat.min_eq_right (by omega), List.drop_of_length_le (Nat.le_refl _), List.drop_of_length_le (by omega)]

theorem take_take_length (n : Nat) (l : Bytes) : l.take (l.take n).length = l.take n := by
  rw [List.length_take]
  by_cases h : n ≤ l.length
  · rw [Nat.min_eq_left h]
  · rw [Nat.min_eq_right (by omega), List.take_of_length_le (Nat.le_refl _), List.take_of_length_le (by omega)]

/-- one chunk more: if the pending bytes start with `d ++ 0^k` -/
theorem Covers.step {D : Bytes → Option Bytes} {log : List ChunkRec} {consumed abs rest input d : Bytes}
    {k c s t : Nat} {prim : Bytes}
    (hcov : Covers D log consumed) (hsum : consumed ++ abs = input)
    (hD : D prim = some d) (habs : abs = (d ++ List.replicate k 0) ++ rest) :
    ∃ consumed', Covers D (⟨d.length + k, c, prim, s, t⟩ :: log) consumed' ∧ consumed' ++ rest = input := by
  refine ⟨consumed ++ (d ++ List.replicate k 0), Covers.cons hcov hD rfl, ?_⟩
  rw [← hsum, habs]; simp

theorem strip_pair (peek0 peek1 : Bytes) :
    ∃ k, (if (stripTrailingZeroes peek1).length == 0 then stripTrailingZeroes peek0 else peek0) ++
      stripTrailingZeroes peek1 ++ List.replicate k 0 = peek0 ++ peek1 := by
  obtain ⟨k1, h1⟩ := stripTrailingZeroes_spec peek1
  obtain ⟨k0, h0⟩ := stripTrailingZeroes_spec peek0
  by_cases h : (stripTrailingZeroes peek1).length = 0
  · have hnil : stripTrailingZeroes peek1 = [] := List.eq_nil_of_length_eq_zero h
    refine ⟨k0 + k1, ?_⟩
    simp only [h, beq_self_eq_true, ↓reduceIte, hnil, List.append_nil]
    conv => rhs; rw [h0, h1, hnil]
    simp [List.replicate_append_replicate]
  · refine ⟨k1, ?_⟩
    have : ((stripTrailingZeroes peek1).length == 0) = false := by simp [h]
    simp only [this, Bool.false_eq_true, ↓reduceIte]
    conv => rhs; rw [h1]
    simp

/-- transport of `Inv` across `compressAndUse` -/
theorem Inv.frame {D : Bytes → Option Bytes} {w w1 : Writer} {input : Bytes} (h : Inv D w input)
    (f1 : w1.chunkWriter.log = w.chunkWriter.log) (f2 : w1.uncompressed = w.uncompressed)
    (f6 : w1.err = w.err ∨ w1.err ≠ none) : Inv D w1 input := by
  rcases f6 with h6 | h6
  · rcases h with hi | ⟨consumed, hcov, hsum⟩
    · left; rw [h6]; exact hi
    · right; exact ⟨consumed, by rw [f1]; exact hcov, by rw [f2]; exact hsum⟩
  · left; exact h6

/-! ### DChunkSize mode -/

theorem writeDChunks_inv (cw : CodecW) (D : Bytes → Option Bytes) (hc : CodecContract cw D) (eof : Bool)
    (fuel : Nat) : ∀ (w : Writer) (input : Bytes), Inv D w input →
      Inv D (Writer.writeDChunks cw eof fuel w).1 input ∧
      ((Writer.writeDChunks cw eof fuel w).2 = none → eof = true → w.dChunkSize > 0 →
        (Writer.writeDChunks cw eof fuel w).1.uncompressed.abs = []) := by
  induction fuel with
  | zero => intro w input h; simp [Writer.writeDChunks, h]
  | succ f ih =>
    intro w input hinv
    unfold Writer.writeDChunks
    simp only
    have hpk := WBuf.peek_refines w.uncompressed w.dChunkSize
    have hpl := WBuf.peek_length w.uncompressed w.dChunkSize
    generalize hp : w.uncompressed.peek w.dChunkSize = pk at *
    obtain ⟨peek0, peek1⟩ := pk
    simp only at hpk hpl ⊢
    split
    · rename_i hd
      refine ⟨hinv, ?_⟩
      intro _ _ hpos
      have hd' := beq_iff_eq.mp hd
      have hl : w.uncompressed.length = 0 := by omega
      rw [WBuf.length_eq] at hl
      exact List.eq_nil_of_length_eq_zero hl
    · rename_i hd
      split
      · rename_i h2
        refine ⟨hinv, ?_⟩
        intro _ he; simp [he] at h2
      · rename_i h2
        have hfr := Writer.compressAndUse_frame cw w
          (if (stripTrailingZeroes peek1).length == 0 then stripTrailingZeroes peek0 else peek0)
          (stripTrailingZeroes peek1)
        simp only at hfr
        generalize hcu : Writer.compressAndUse cw w
          (if (stripTrailingZeroes peek1).length == 0 then stripTrailingZeroes peek0 else peek0)
          (stripTrailingZeroes peek1) = cu at *
        obtain ⟨w1, r⟩ := cu
        obtain ⟨f1, f2, f3, f4, f5, f6, f7⟩ := hfr
        simp only at f1 f2 f3 f4 f5 f6 f7
        cases r with
        | error e =>
          simp only
          exact ⟨hinv.frame f1 f2 f6, by simp⟩
        | ok v =>
          obtain ⟨out, res2, res3⟩ := v
          simp only
          have hcomp := f7 out res2 res3 rfl
          have hD := hc.compress_ok _ _ _ _ hcomp
          have hlog := CW.addChunk_log w1.chunkWriter (peek0.length + peek1.length) out.codec out.compressed res2 res3
          generalize hac : w1.chunkWriter.addChunk (peek0.length + peek1.length) out.codec out.compressed res2 res3 = ac at *
          obtain ⟨c, e⟩ := ac
          simp only at hlog ⊢
          cases e with
          | some e => simp [Inv]
          | none =>
            simp only
            have hdne : peek0.length + peek1.length ≠ 0 := by
              intro h0; simp [h0] at hd
            have hlog' := hlog.1 rfl
            rw [if_neg hdne] at hlog'
            have hnew : Inv D { w1 with chunkWriter := c, uncompressed := w1.uncompressed.advance (peek0.length + peek1.length) } input := by
              have hinv1 := hinv.frame f1 f2 f6
              rcases hinv1 with hi | ⟨consumed, hcov, hsum⟩
              · left; exact hi
              · right
                obtain ⟨k, hk⟩ := strip_pair peek0 peek1
                have hlenk := congrArg List.length hk
                simp only [List.length_append, List.length_replicate] at hlenk
                have hstep := Covers.step (c := out.codec) (s := res2) (t := res3)
                  (rest := w.uncompressed.abs.drop w.dChunkSize) hcov hsum hD (k := k) (by
                    rw [f2, hk, hpk, List.take_append_drop])
                obtain ⟨consumed', hc', hs'⟩ := hstep
                refine ⟨consumed', ?_, ?_⟩
                · simp only [hlog']
                  have hsz : ((if (stripTrailingZeroes peek1).length == 0 then stripTrailingZeroes peek0 else peek0) ++
                      stripTrailingZeroes peek1).length + k = peek0.length + peek1.length := by
                    simp only [List.length_append]; omega
                  rw [← hsz]; exact hc'
                · simp only
                  rw [f2, WBuf.advance_refines _ _ (by omega)]
                  have : peek0.length + peek1.length = (w.uncompressed.abs.take w.dChunkSize).length := by
                    rw [← hpk]; simp
                  rw [this, drop_take_length]; exact hs'
            have hrec := ih _ input hnew
            refine ⟨hrec.1, ?_⟩
            intro h1 h2' h3
            exact hrec.2 h1 h2' (by simp only; omega)

/-! ### CChunkSize mode -/

/-- bytes consumed by a chunk in CChunkSize mode: `n` bytes of data, then a run of zeroes -/
theorem apz_after_advance (u : WBuf) (n : Nat) (hn : n ≤ u.length) (hwf : u.WF) :
    let a := u.advance n
    let r := a.advancePastLeadingZeroes
    u.abs = (u.abs.take n ++ List.replicate r.2 0) ++ r.1.abs ∧ r.1.WF := by
  simp only
  have hwa := WBuf.advance_WF u n hwf
  have ha := WBuf.advance_refines u n hn
  obtain ⟨h1, h2, h3⟩ := WBuf.apz_refines (u.advance n) hwa
  refine ⟨?_, h3⟩
  rw [h2, h1, List.append_assoc, ← take_countLeadingZeroes, List.take_append_drop, ha, List.take_append_drop]

/-- a successful `AddChunk(d.length + z, …, prim, …)` where the pending bytes start with `d ++ 0^z` -/
theorem addChunk_covers {D : Bytes → Option Bytes} {cwr c : CW} {consumed abs rest input d prim : Bytes}
    {z codec s t : Nat}
    (hcov : Covers D cwr.log consumed) (hsum : consumed ++ abs = input)
    (hD : D prim = some d) (habs : abs = (d ++ List.replicate z 0) ++ rest)
    (hac : cwr.addChunk (d.length + z) codec prim s t = (c, none)) :
    ∃ consumed', Covers D c.log consumed' ∧ consumed' ++ rest = input := by
  have hlog := (CW.addChunk_log cwr (d.length + z) codec prim s t).1 (by rw [hac])
  rw [hac] at hlog
  simp only at hlog
  by_cases h0 : d.length + z = 0
  · rw [if_pos h0] at hlog
    have hd : d = [] := List.eq_nil_of_length_eq_zero (by omega)
    have hz : z = 0 := by omega
    rw [hd, hz] at habs
    simp only [List.replicate_zero, List.append_nil, List.nil_append] at habs
    exact ⟨consumed, by rw [hlog]; exact hcov, by rw [← habs]; exact hsum⟩
  · rw [if_neg h0] at hlog
    obtain ⟨consumed', hc', hs'⟩ := Covers.step (c := codec) (s := s) (t := t) hcov hsum hD habs
    exact ⟨consumed', by rw [hlog]; exact hc', hs'⟩

/-- `Inv` plus well-formedness of the buffer -/
def InvW (D : Bytes → Option Bytes) (w : Writer) (input : Bytes) : Prop :=
  Inv D w input ∧ w.uncompressed.WF

theorem tryCChunk_inv (cw : CodecW) (D : Bytes → Option Bytes) (hc : CodecContract cw D)
    (w : Writer) (target : Nat) (force : Bool) (input : Bytes) (hinv : InvW D w input) :
    InvW D (Writer.tryCChunk cw w target force).1 input ∧
    (force = true → ∀ w', Writer.tryCChunk cw w target force ≠ (w', .short)) ∧
    (Writer.tryCChunk cw w target force).1.cChunkSize = w.cChunkSize ∧
    (Writer.tryCChunk cw w target force).1.dChunkSize = w.dChunkSize := by
  obtain ⟨hinv, hwf⟩ := hinv
  unfold Writer.tryCChunk
  simp only
  have hpk := WBuf.peek_refines w.uncompressed target
  have hpl := WBuf.peek_length w.uncompressed target
  generalize hp : w.uncompressed.peek target = pk at *
  obtain ⟨peek0, peek1⟩ := pk
  simp only at hpk hpl ⊢
  have hfr := Writer.compressAndUse_frame cw w peek0 peek1
  simp only at hfr
  generalize hcu : Writer.compressAndUse cw w peek0 peek1 = cu at *
  obtain ⟨w1, r⟩ := cu
  obtain ⟨f1, f2, f3, f4, f5, f6, f7⟩ := hfr
  simp only at f1 f2 f3 f4 f5 f6 f7
  have hinv1 := hinv.frame f1 f2 f6
  have hwf1 : w1.uncompressed.WF := by rw [f2]; exact hwf
  have hlen12 : peek0.length + peek1.length = (peek0 ++ peek1).length := by simp
  cases r with
  | error e =>
    simp only
    exact ⟨⟨hinv1, hwf1⟩, by intro _ w' h; simp at h, f4, f3⟩
  | ok v =>
    obtain ⟨out, res2, res3⟩ := v
    simp only
    have hcomp := f7 out res2 res3 rfl
    have hD := hc.compress_ok _ _ _ _ hcomp
    split
    · rename_i hshort
      refine ⟨⟨hinv1, hwf1⟩, ?_, f4, f3⟩
      intro hf; simp [hf] at hshort
    · split
      · -- the whole peek fits
        have hn : peek0.length + peek1.length ≤ w1.uncompressed.length := by rw [f2]; omega
        have hz := apz_after_advance w1.uncompressed (peek0.length + peek1.length) hn hwf1
        simp only at hz
        generalize hapz : (w1.uncompressed.advance (peek0.length + peek1.length)).advancePastLeadingZeroes = az at *
        obtain ⟨u, z⟩ := az
        simp only at hz ⊢
        generalize hac : w1.chunkWriter.addChunk (peek0.length + peek1.length + z) out.codec out.compressed res2 res3 = ac at *
        obtain ⟨c, e⟩ := ac
        simp only
        cases e with
        | some e =>
          simp only
          exact ⟨⟨by left; simp, hz.2⟩, by intro _ w' h; simp at h, f4, f3⟩
        | none =>
          simp only
          refine ⟨⟨?_, hz.2⟩, by intro _ w' h; simp at h, f4, f3⟩
          rcases hinv1 with hi | ⟨consumed, hcov, hsum⟩
          · left; exact hi
          · right
            have htake : w1.uncompressed.abs.take (peek0.length + peek1.length) = peek0 ++ peek1 := by
              rw [f2, hlen12, hpk, take_take_length]
            have habs := hz.1
            rw [htake] at habs
            rw [hlen12] at hac
            exact addChunk_covers hcov hsum hD habs hac
      · -- Cut
        split
        · simp only
          exact ⟨⟨by left; simp, hwf1⟩, by intro _ w' h; simp at h, f4, f3⟩
        · rename_i cB eLen dLen hcut
          obtain ⟨hdl, hDcut⟩ := hc.cut_ok _ _ _ _ _ _ _ hcut hD
          split
          · simp only
            exact ⟨⟨by left; simp, hwf1⟩, by intro _ w' h; simp at h, f4, f3⟩
          · have hn : dLen ≤ w1.uncompressed.length := by
              rw [f2]; rw [← hlen12] at hdl; omega
            have hz := apz_after_advance w1.uncompressed dLen hn hwf1
            simp only at hz
            generalize hapz : (w1.uncompressed.advance dLen).advancePastLeadingZeroes = az at *
            obtain ⟨u, z⟩ := az
            simp only at hz ⊢
            generalize hac : w1.chunkWriter.addChunk (dLen + z) out.codec (cB.take eLen) res2 res3 = ac at *
            obtain ⟨c, e⟩ := ac
            simp only
            cases e with
            | some e =>
              simp only
              exact ⟨⟨by left; simp, hz.2⟩, by intro _ w' h; simp at h, f4, f3⟩
            | none =>
              simp only
              refine ⟨⟨?_, hz.2⟩, by intro _ w' h; simp at h, f4, f3⟩
              rcases hinv1 with hi | ⟨consumed, hcov, hsum⟩
              · left; exact hi
              · right
                have htake : w1.uncompressed.abs.take dLen = (peek0 ++ peek1).take dLen := by
                  rw [f2, hpk, List.take_take]
                  congr 1
                  rw [← hlen12] at hdl
                  omega
                have habs := hz.1
                rw [htake] at habs
                have hlen : ((peek0 ++ peek1).take dLen).length = dLen := by
                  rw [List.length_take]; omega
                rw [← hlen] at hac
                exact addChunk_covers hcov hsum hDcut habs hac

theorem cChunkInner_inv (cw : CodecW) (D : Bytes → Option Bytes) (hc : CodecContract cw D) (fuel : Nat) :
    ∀ (w : Writer) (target : Nat) (input : Bytes), InvW D w input →
      InvW D (Writer.cChunkInner cw fuel w target).1 input ∧
      (Writer.cChunkInner cw fuel w target).1.cChunkSize = w.cChunkSize ∧
      (Writer.cChunkInner cw fuel w target).1.dChunkSize = w.dChunkSize ∧
      (target = maxTargetDChunkSize → ∀ w', Writer.cChunkInner cw fuel w target ≠ (w', .ret none)) := by
  induction fuel with
  | zero => intro w target input h; simp [Writer.cChunkInner, h]
  | succ f ih =>
    intro w target input hinv
    unfold Writer.cChunkInner
    simp only
    have ht := tryCChunk_inv cw D hc w target
      (decide ((if target * 2 > maxTargetDChunkSize then maxTargetDChunkSize else target * 2) ≤ target)) input hinv
    generalize htr : Writer.tryCChunk cw w target
      (decide ((if target * 2 > maxTargetDChunkSize then maxTargetDChunkSize else target * 2) ≤ target)) = tr at *
    obtain ⟨w1, r⟩ := tr
    obtain ⟨t1, t2, t3, t4⟩ := ht
    simp only at t1 t3 t4
    cases r with
    | ok => simp only; exact ⟨t1, t3, t4, by intro _ w' h; simp at h⟩
    | err e => simp only; exact ⟨t1, t3, t4, by intro _ w' h; simp at h⟩
    | short =>
      simp only
      split
      · refine ⟨t1, t3, t4, ?_⟩
        intro htm
        exfalso
        refine t2 ?_ w1 rfl
        rw [htm]; simp [maxTargetDChunkSize]
      · have := ih w1 (if target * 2 > maxTargetDChunkSize then maxTargetDChunkSize else target * 2) input t1
        refine ⟨this.1, by rw [this.2.1, t3], by rw [this.2.2.1, t4], ?_⟩
        intro htm
        exfalso
        refine t2 ?_ w1 rfl
        rw [htm]; simp [maxTargetDChunkSize]

theorem writeCChunks_inv (cw : CodecW) (D : Bytes → Option Bytes) (hc : CodecContract cw D) (eof : Bool)
    (fuel : Nat) : ∀ (w : Writer) (input : Bytes), InvW D w input →
      InvW D (Writer.writeCChunks cw eof fuel w).1 input ∧
      ((Writer.writeCChunks cw eof fuel w).2 = none → eof = true →
        (Writer.writeCChunks cw eof fuel w).1.uncompressed.abs = []) := by
  induction fuel with
  | zero => intro w input h; simp [Writer.writeCChunks, h]
  | succ f ih =>
    intro w input hinv
    unfold Writer.writeCChunks
    simp only
    by_cases hn : (w.uncompressed.length == 0) = true
    · rw [if_pos hn]
      refine ⟨hinv, ?_⟩
      intro _ _
      have hl := beq_iff_eq.mp hn
      rw [WBuf.length_eq] at hl
      exact List.eq_nil_of_length_eq_zero hl
    · rw [if_neg hn]
      generalize htg : (if (!eof) = true then startingTargetDChunkSize w.cChunkSize else maxTargetDChunkSize) = tg
      by_cases h2 : (!eof && decide (w.uncompressed.length < tg)) = true
      · rw [if_pos h2]
        refine ⟨hinv, ?_⟩
        intro _ he; simp [he] at h2
      · rw [if_neg h2]
        have hi := cChunkInner_inv cw D hc 64 w tg input hinv
        generalize hci : Writer.cChunkInner cw 64 w tg = ci at *
        obtain ⟨w1, r⟩ := ci
        obtain ⟨i1, i2, i3, i4⟩ := hi
        simp only at i1 i2 i3
        cases r with
        | continueOuter =>
          simp only
          exact ih w1 input i1
        | ret e =>
          simp only
          refine ⟨i1, ?_⟩
          intro he heof
          exfalso
          subst he
          refine i4 ?_ w1 rfl
          rw [← htg]; simp [heof]

/-! ### Write / Close -/

theorem write_inv (cw : CodecW) (D : Bytes → Option Bytes) (hc : CodecContract cw D) (eof : Bool)
    (w : Writer) (input : Bytes) (hinv : InvW D w input) :
    Inv D (Writer.write cw w eof).1 input ∧
    ((Writer.write cw w eof).2 = none → eof = true → (Writer.write cw w eof).1.uncompressed.abs = []) := by
  unfold Writer.write
  split
  · rename_i hd
    have := writeDChunks_inv cw D hc eof (w.uncompressed.length + 1) w input hinv.1
    exact ⟨this.1, fun h1 h2 => this.2 h1 h2 hd⟩
  · have := writeCChunks_inv cw D hc eof (w.uncompressed.length + 1) w input hinv
    exact ⟨this.1.1, this.2⟩

/-- invariant between public calls: additionally `curr` is empty and `p = 0` -/
def InvB (D : Bytes → Option Bytes) (w : Writer) (input : Bytes) : Prop :=
  w.err ≠ none ∨ (w.uncompressed.curr = [] ∧ w.uncompressed.p = 0 ∧
    ∃ consumed, Covers D w.chunkWriter.log consumed ∧ consumed ++ w.uncompressed.abs = input)

theorem Writer.init_frame (cw : CodecW) (w : Writer) :
    (w.init cw).1.chunkWriter.log = w.chunkWriter.log ∧ (w.init cw).1.uncompressed = w.uncompressed ∧
    ((w.init cw).2 ≠ none → (w.init cw).1.err ≠ none) ∧
    ((w.init cw).2 = none → (w.init cw).1.err = w.err) ∧
    (w.err ≠ none → (w.init cw).2 ≠ none) := by
  unfold Writer.init
  simp only
  repeat (any_goals split)
  all_goals simp_all

theorem Write_inv (cw : CodecW) (D : Bytes → Option Bytes) (hc : CodecContract cw D)
    (w : Writer) (p input : Bytes) (hinv : InvB D w input) :
    InvB D (Writer.Write cw w p).1 (input ++ p) := by
  unfold Writer.Write
  simp only
  obtain ⟨i1, i2, i3, i4, i5⟩ := Writer.init_frame cw w
  generalize hi : w.init cw = wi at *
  obtain ⟨w1, e1⟩ := wi
  simp only at i1 i2 i3 i4 i5 ⊢
  split
  · rename_i he
    left
    exact i3 (by intro h; simp [h] at he)
  · rename_i he
    have he1 : e1 = none := by
      cases e1 <;> simp_all
    have herr := i4 he1
    split
    · left; simp
    · rcases hinv with hi' | ⟨hcurr, hp0, consumed, hcov, hsum⟩
      · -- sticky error: init would have returned it
        exfalso
        exact i5 hi' he1
      · have hext : w1.uncompressed.extend p = some { w1.uncompressed with curr := p } := by
          rw [i2]; exact (WBuf.extend_refines w.uncompressed p hcurr).1
        rw [hext]
        simp only
        have hinv1 : InvW D { w1 with uncompressed := { w1.uncompressed with curr := p } } (input ++ p) := by
          refine ⟨Or.inr ⟨consumed, by simp only; rw [i1]; exact hcov, ?_⟩, ?_⟩
          · simp only
            rw [i2, (WBuf.extend_refines w.uncompressed p hcurr).2, ← hsum, List.append_assoc]
          · simp only [WBuf.WF]; rw [i2, hp0]; omega
        have hw := write_inv cw D hc false _ (input ++ p) hinv1
        generalize hwr : Writer.write cw { w1 with uncompressed := { w1.uncompressed with curr := p } } false = wr at *
        obtain ⟨w2, e2⟩ := wr
        simp only at hw ⊢
        have hfin : InvB D { w2 with uncompressed := w2.uncompressed.compact } (input ++ p) := by
          rcases hw.1 with h | ⟨c2, hc2, hs2⟩
          · left; exact h
          · right
            obtain ⟨q1, q2, q3, q4⟩ := WBuf.compact_refines w2.uncompressed
            exact ⟨q2, q3, c2, hc2, by simp only; rw [q1]; exact hs2⟩
        cases e2 <;> exact hfin

end WuffsVerif.Rac

namespace WuffsVerif.Rac

/-! ### `closed` is only set by `Close` -/

theorem Writer.useResource_closed (cw : CodecW) (w : Writer) (i : Int) :
    (Writer.useResource cw w i).1.closed = w.closed := by
  unfold Writer.useResource
  simp only
  repeat (any_goals split)
  all_goals simp_all

theorem Writer.compressAndUse_closed (cw : CodecW) (w : Writer) (p0 p1 : Bytes) :
    (Writer.compressAndUse cw w p0 p1).1.closed = w.closed := by
  unfold Writer.compressAndUse
  simp only
  split
  · rfl
  · rename_i out hc
    have h1 := Writer.useResource_closed cw w out.secondaryResource
    generalize Writer.useResource cw w out.secondaryResource = u1 at *
    obtain ⟨w1, res2, e1⟩ := u1
    simp only at h1 ⊢
    have h2 := Writer.useResource_closed cw w1 out.tertiaryResource
    generalize Writer.useResource cw w1 out.tertiaryResource = u2 at *
    obtain ⟨w2, res3, e2⟩ := u2
    simp only at h2 ⊢
    cases e1 <;> cases e2 <;> simp_all

theorem Writer.writeDChunks_closed (cw : CodecW) (eof : Bool) (fuel : Nat) :
    ∀ w : Writer, (Writer.writeDChunks cw eof fuel w).1.closed = w.closed := by
  induction fuel with
  | zero => intro w; rfl
  | succ f ih =>
    intro w
    unfold Writer.writeDChunks
    simp only
    generalize w.uncompressed.peek w.dChunkSize = pk
    obtain ⟨peek0, peek1⟩ := pk
    simp only
    split
    · rfl
    · split
      · rfl
      · have hc := Writer.compressAndUse_closed cw w
          (if (stripTrailingZeroes peek1).length == 0 then stripTrailingZeroes peek0 else peek0)
          (stripTrailingZeroes peek1)
        generalize Writer.compressAndUse cw w
          (if (stripTrailingZeroes peek1).length == 0 then stripTrailingZeroes peek0 else peek0)
          (stripTrailingZeroes peek1) = cu at *
        obtain ⟨w1, r⟩ := cu
        cases r with
        | error e => exact hc
        | ok v =>
          obtain ⟨out, res2, res3⟩ := v
          simp only at hc ⊢
          generalize w1.chunkWriter.addChunk (peek0.length + peek1.length) out.codec out.compressed res2 res3 = ac
          obtain ⟨c, e⟩ := ac
          cases e with
          | some e => exact hc
          | none => simp only; rw [ih]; exact hc

theorem Writer.tryCChunk_closed (cw : CodecW) (w : Writer) (target : Nat) (force : Bool) :
    (Writer.tryCChunk cw w target force).1.closed = w.closed := by
  unfold Writer.tryCChunk
  simp only
  generalize w.uncompressed.peek target = pk
  obtain ⟨peek0, peek1⟩ := pk
  simp only
  have hc := Writer.compressAndUse_closed cw w peek0 peek1
  generalize Writer.compressAndUse cw w peek0 peek1 = cu at *
  obtain ⟨w1, r⟩ := cu
  cases r with
  | error e => exact hc
  | ok v =>
    obtain ⟨out, res2, res3⟩ := v
    simp only at hc ⊢
    repeat (any_goals split)
    all_goals simp_all

theorem Writer.cChunkInner_closed (cw : CodecW) (fuel : Nat) :
    ∀ (w : Writer) (t : Nat), (Writer.cChunkInner cw fuel w t).1.closed = w.closed := by
  induction fuel with
  | zero => intro w t; rfl
  | succ f ih =>
    intro w t
    unfold Writer.cChunkInner
    simp only
    have ht := Writer.tryCChunk_closed cw w t
      (decide ((if t * 2 > maxTargetDChunkSize then maxTargetDChunkSize else t * 2) ≤ t))
    generalize Writer.tryCChunk cw w t
      (decide ((if t * 2 > maxTargetDChunkSize then maxTargetDChunkSize else t * 2) ≤ t)) = tr at *
    obtain ⟨w1, r⟩ := tr
    cases r with
    | ok => exact ht
    | err e => exact ht
    | short =>
      simp only
      split
      · exact ht
      · rw [ih]; exact ht

theorem Writer.writeCChunks_closed (cw : CodecW) (eof : Bool) (fuel : Nat) :
    ∀ w : Writer, (Writer.writeCChunks cw eof fuel w).1.closed = w.closed := by
  induction fuel with
  | zero => intro w; rfl
  | succ f ih =>
    intro w
    unfold Writer.writeCChunks
    simp only
    by_cases hn : (w.uncompressed.length == 0) = true
    · rw [if_pos hn]
    · rw [if_neg hn]
      generalize (if (!eof) = true then startingTargetDChunkSize w.cChunkSize else maxTargetDChunkSize) = tg
      by_cases h2 : (!eof && decide (w.uncompressed.length < tg)) = true
      · rw [if_pos h2]
      · rw [if_neg h2]
        have hi := Writer.cChunkInner_closed cw 64 w tg
        generalize Writer.cChunkInner cw 64 w tg = ci at *
        obtain ⟨w1, r⟩ := ci
        cases r with
        | continueOuter => simp only; rw [ih]; exact hi
        | ret e => exact hi

theorem Writer.write_closed (cw : CodecW) (w : Writer) (eof : Bool) :
    (Writer.write cw w eof).1.closed = w.closed := by
  unfold Writer.write
  split
  · exact Writer.writeDChunks_closed cw eof _ w
  · exact Writer.writeCChunks_closed cw eof _ w

theorem Writer.init_closed (cw : CodecW) (w : Writer) : (w.init cw).1.closed = w.closed := by
  unfold Writer.init
  simp only
  repeat (any_goals split)
  all_goals simp_all

theorem Writer.Write_closed (cw : CodecW) (w : Writer) (p : Bytes) :
    (Writer.Write cw w p).1.closed = w.closed := by
  unfold Writer.Write
  simp only
  have hi := Writer.init_closed cw w
  generalize w.init cw = wi at *
  obtain ⟨w1, e1⟩ := wi
  simp only at hi ⊢
  split
  · exact hi
  · split
    · exact hi
    · split
      · exact hi
      · rename_i u hu
        have hw := Writer.write_closed cw { w1 with uncompressed := u } false
        generalize Writer.write cw { w1 with uncompressed := u } false = wr at *
        obtain ⟨w2, e2⟩ := wr
        simp only at hw ⊢
        cases e2 <;> simp [hw, hi]

/-! ### an error that is recorded is also returned -/

theorem Writer.useResource_err (cw : CodecW) (w : Writer) (i : Int) :
    (Writer.useResource cw w i).2.2 = none → (Writer.useResource cw w i).1.err = w.err := by
  unfold Writer.useResource
  simp only
  repeat (any_goals split)
  all_goals simp_all

theorem Writer.compressAndUse_err (cw : CodecW) (w : Writer) (p0 p1 : Bytes) :
    (∀ v, (Writer.compressAndUse cw w p0 p1).2 = .ok v → (Writer.compressAndUse cw w p0 p1).1.err = w.err) := by
  unfold Writer.compressAndUse
  simp only
  split
  · intro v h; simp at h
  · rename_i out hc
    have h1 := Writer.useResource_err cw w out.secondaryResource
    generalize Writer.useResource cw w out.secondaryResource = u1 at *
    obtain ⟨w1, res2, e1⟩ := u1
    simp only at h1 ⊢
    have h2 := Writer.useResource_err cw w1 out.tertiaryResource
    generalize Writer.useResource cw w1 out.tertiaryResource = u2 at *
    obtain ⟨w2, res3, e2⟩ := u2
    simp only at h2 ⊢
    cases e1 <;> cases e2 <;> simp_all

theorem Writer.writeDChunks_err (cw : CodecW) (eof : Bool) (fuel : Nat) :
    ∀ w : Writer, (Writer.writeDChunks cw eof fuel w).2 = none →
      (Writer.writeDChunks cw eof fuel w).1.err = w.err := by
  induction fuel with
  | zero => intro w h; simp [Writer.writeDChunks] at h
  | succ f ih =>
    intro w
    unfold Writer.writeDChunks
    simp only
    generalize w.uncompressed.peek w.dChunkSize = pk
    obtain ⟨peek0, peek1⟩ := pk
    simp only
    split
    · intro _; rfl
    · split
      · intro _; rfl
      · have hc := Writer.compressAndUse_err cw w
          (if (stripTrailingZeroes peek1).length == 0 then stripTrailingZeroes peek0 else peek0)
          (stripTrailingZeroes peek1)
        generalize Writer.compressAndUse cw w
          (if (stripTrailingZeroes peek1).length == 0 then stripTrailingZeroes peek0 else peek0)
          (stripTrailingZeroes peek1) = cu at *
        obtain ⟨w1, r⟩ := cu
        cases r with
        | error e => intro h; simp at h
        | ok v =>
          obtain ⟨out, res2, res3⟩ := v
          simp only at hc ⊢
          have hc' := hc _ rfl
          generalize w1.chunkWriter.addChunk (peek0.length + peek1.length) out.codec out.compressed res2 res3 = ac
          obtain ⟨c, e⟩ := ac
          cases e with
          | some e => intro h; simp at h
          | none =>
            simp only
            intro h
            rw [ih _ h]; exact hc'

theorem Writer.tryCChunk_err (cw : CodecW) (w : Writer) (target : Nat) (force : Bool) :
    (∀ e, (Writer.tryCChunk cw w target force).2 ≠ .err e) →
      (Writer.tryCChunk cw w target force).1.err = w.err := by
  unfold Writer.tryCChunk
  simp only
  generalize w.uncompressed.peek target = pk
  obtain ⟨peek0, peek1⟩ := pk
  simp only
  have hc := Writer.compressAndUse_err cw w peek0 peek1
  generalize Writer.compressAndUse cw w peek0 peek1 = cu at *
  obtain ⟨w1, r⟩ := cu
  cases r with
  | error e => intro h; exact absurd rfl (h e)
  | ok v =>
    obtain ⟨out, res2, res3⟩ := v
    simp only at hc ⊢
    have hc' := hc _ rfl
    repeat (any_goals split)
    all_goals (intro h; first | exact hc' | (exfalso; exact h _ rfl) | simp_all)

theorem Writer.cChunkInner_err (cw : CodecW) (fuel : Nat) :
    ∀ (w : Writer) (t : Nat), (∀ e, (Writer.cChunkInner cw fuel w t).2 ≠ .ret (some e)) →
      (Writer.cChunkInner cw fuel w t).1.err = w.err := by
  induction fuel with
  | zero => intro w t h; exact absurd rfl (h .fuel)
  | succ f ih =>
    intro w t
    unfold Writer.cChunkInner
    simp only
    have ht := Writer.tryCChunk_err cw w t
      (decide ((if t * 2 > maxTargetDChunkSize then maxTargetDChunkSize else t * 2) ≤ t))
    generalize Writer.tryCChunk cw w t
      (decide ((if t * 2 > maxTargetDChunkSize then maxTargetDChunkSize else t * 2) ≤ t)) = tr at *
    obtain ⟨w1, r⟩ := tr
    cases r with
    | ok => intro _; exact ht (by intro e h; simp at h)
    | err e => intro h; exact absurd rfl (h e)
    | short =>
      simp only at ht ⊢
      have ht' := ht (by intro e h; simp at h)
      split
      · intro _; exact ht'
      · intro h; rw [ih _ _ h]; exact ht'

theorem Writer.writeCChunks_err (cw : CodecW) (eof : Bool) (fuel : Nat) :
    ∀ w : Writer, (Writer.writeCChunks cw eof fuel w).2 = none →
      (Writer.writeCChunks cw eof fuel w).1.err = w.err := by
  induction fuel with
  | zero => intro w h; simp [Writer.writeCChunks] at h
  | succ f ih =>
    intro w
    unfold Writer.writeCChunks
    simp only
    by_cases hn : (w.uncompressed.length == 0) = true
    · rw [if_pos hn]; intro _; rfl
    · rw [if_neg hn]
      generalize (if (!eof) = true then startingTargetDChunkSize w.cChunkSize else maxTargetDChunkSize) = tg
      by_cases h2 : (!eof && decide (w.uncompressed.length < tg)) = true
      · rw [if_pos h2]; intro _; rfl
      · rw [if_neg h2]
        have hi := Writer.cChunkInner_err cw 64 w tg
        generalize Writer.cChunkInner cw 64 w tg = ci at *
        obtain ⟨w1, r⟩ := ci
        cases r with
        | continueOuter =>
          simp only at hi ⊢
          intro h; rw [ih _ h]; exact hi (by intro e h; simp at h)
        | ret e =>
          simp only at hi ⊢
          intro h; subst h
          exact hi (by intro e h; simp at h)

/-- if `write` returns nil it has not recorded an error -/
theorem write_err_returned (cw : CodecW) (w : Writer) (eof : Bool) (h0 : w.err = none)
    (hn : (Writer.write cw w eof).2 = none) (hb : (Writer.write cw w eof).1.err ≠ none) : False := by
  unfold Writer.write at hn hb
  split at hn
  · rename_i hd
    rw [if_pos hd] at hb
    rw [Writer.writeDChunks_err cw eof _ w hn] at hb; exact hb h0
  · rename_i hd
    rw [if_neg hd] at hb
    rw [Writer.writeCChunks_err cw eof _ w hn] at hb; exact hb h0

/-! ### a whole session -/

/-- the state after the `Write` calls `ps`, whatever they returned -/
def Writer.runWrites (cw : CodecW) (w : Writer) : List Bytes → Writer
  | [] => w
  | p :: ps => Writer.runWrites cw (w.Write cw p).1 ps

theorem runWrites_inv (cw : CodecW) (D : Bytes → Option Bytes) (hc : CodecContract cw D) (ps : List Bytes) :
    ∀ (w : Writer) (input : Bytes), InvB D w input → w.closed = false →
      InvB D (Writer.runWrites cw w ps) (input ++ ps.flatten) ∧ (Writer.runWrites cw w ps).closed = false := by
  induction ps with
  | nil => intro w input h hcl; simpa [Writer.runWrites] using ⟨h, hcl⟩
  | cons p ps ih =>
    intro w input h hcl
    have h1 := Write_inv cw D hc w p input h
    have h2 := ih (w.Write cw p).1 (input ++ p) h1 (by rw [Writer.Write_closed]; exact hcl)
    simpa [Writer.runWrites, List.append_assoc] using h2

theorem closeStep4_none (cw : CodecW) (w : Writer) (h : (Writer.closeStep4 cw w).err = none) :
    w.err = none ∧ (Writer.closeStep4 cw w).chunkWriter = w.chunkWriter := by
  unfold Writer.closeStep4 at h ⊢
  by_cases hn : w.nilCodecWriter = true
  · rw [if_pos hn] at h ⊢; exact ⟨h, rfl⟩
  · rw [if_neg hn] at h ⊢
    by_cases e : w.err.isNone = true
    · rw [if_pos e]; exact ⟨by simpa using e, rfl⟩
    · rw [if_neg e] at h; simp [h] at e

theorem closeStep3_none (w : Writer) (h : (Writer.closeStep3 w).err = none) :
    w.err = none ∧ (Writer.closeStep3 w).chunkWriter.log = w.chunkWriter.log := by
  unfold Writer.closeStep3 at h ⊢
  by_cases e : w.err.isNone = true
  · rw [if_pos e]; exact ⟨by simpa using e, CW.close_log _⟩
  · rw [if_neg e] at h; simp [h] at e

theorem closeStep2_none (cw : CodecW) (w : Writer) (h : (Writer.closeStep2 cw w).err = none) :
    w.err = none ∧ (Writer.write cw w true).2 = none ∧
    (Writer.closeStep2 cw w).chunkWriter = (Writer.write cw w true).1.chunkWriter := by
  unfold Writer.closeStep2 at h ⊢
  by_cases e : w.err.isNone = true
  · rw [if_pos e] at h ⊢; exact ⟨by simpa using e, h, rfl⟩
  · rw [if_neg e] at h; simp [h] at e

theorem closeStep1_none (cw : CodecW) (w : Writer) (h : (Writer.closeStep1 cw w).err = none) :
    (w.init cw).2 = none ∧ (w.init cw).1.err = none ∧
    (Writer.closeStep1 cw w).chunkWriter = (w.init cw).1.chunkWriter ∧
    (Writer.closeStep1 cw w).uncompressed = (w.init cw).1.uncompressed ∧
    Writer.closeStep1 cw w = (w.init cw).1 := by
  unfold Writer.closeStep1 at h ⊢
  generalize w.init cw = wi at *
  obtain ⟨wa, ea⟩ := wi
  simp only at h ⊢
  by_cases e : wa.err.isNone = true
  · rw [if_pos e] at h ⊢
    simp only at h
    subst h
    have : wa.err = none := by simpa using e
    refine ⟨rfl, this, rfl, rfl, ?_⟩
    cases wa; simp_all
  · rw [if_neg e] at h; simp [h] at e

/-- If `Close` returns nil then the chunks that were added cover exactly the input. -/
theorem Close_covers (cw : CodecW) (D : Bytes → Option Bytes) (hc : CodecContract cw D)
    (w : Writer) (input : Bytes) (hinv : InvB D w input) (hcl : w.closed = false)
    (hok : (w.Close cw).2 = none) : Covers D (w.Close cw).1.chunkWriter.log input := by
  unfold Writer.Close at hok ⊢
  rw [if_neg (by simp [hcl])] at hok ⊢
  generalize h1 : Writer.closeStep1 cw { w with closed := true } = w1 at *
  generalize h2 : Writer.closeStep2 cw w1 = w2 at *
  generalize h3 : Writer.closeStep3 w2 = w3 at *
  generalize h4 : Writer.closeStep4 cw w3 = w4 at *
  simp only at hok ⊢
  by_cases e4 : w4.err.isNone = true
  · rw [if_pos e4]
    simp only
    have e4' : w4.err = none := by simpa using e4
    obtain ⟨e3, c4⟩ := closeStep4_none cw w3 (by rw [h4]; exact e4')
    obtain ⟨e2, c3⟩ := closeStep3_none w2 (by rw [h3]; exact e3)
    obtain ⟨e1, wnone, c2⟩ := closeStep2_none cw w1 (by rw [h2]; exact e2)
    obtain ⟨inone, ierr, c1, u1, weq⟩ := closeStep1_none cw { w with closed := true } (by rw [h1]; exact e1)
    obtain ⟨i1, i2, i3, i4, i5⟩ := Writer.init_frame cw { w with closed := true }
    have herr0 : w.err = none := by
      have := i4 inone
      rw [ierr] at this
      exact this.symm
    rcases hinv with hbad | ⟨hcurr, hp0, consumed, hcov, hsum⟩
    · exact absurd herr0 hbad
    · rw [h1] at weq c1 u1
      have hinv1 : InvW D w1 input := by
        refine ⟨Or.inr ⟨consumed, ?_, ?_⟩, ?_⟩
        · rw [c1, i1]; exact hcov
        · rw [u1, i2]; exact hsum
        · rw [u1, i2]; simp only [WBuf.WF]; rw [hp0]; omega
      have hw := write_inv cw D hc true w1 input hinv1
      have habs := hw.2 wnone rfl
      rw [h4] at c4; rw [h3] at c3; rw [h2] at c2
      rw [c4, c3, c2]
      -- `write` returned nil: either it recorded no sticky error (then the covering holds) …
      rcases hw.1 with hb | ⟨cns, hc2, hs2⟩
      · -- … or it recorded one, which it would also have returned
        exfalso
        exact write_err_returned cw w1 true e1 wnone hb
      · rw [habs, List.append_nil] at hs2
        rw [← hs2]; exact hc2
  · rw [if_neg e4] at hok
    simp only at hok
    simp [hok] at e4

end WuffsVerif.Rac
