/-
C13: shared resources in the index round trip: the secondary/tertiary CRanges of the reader's chunks hold the
bytes registered by `AddResource` (`CW.close_resources`).
-/
import WuffsVerif.Proof.RacRoundtrip
namespace WuffsVerif.Rac
open Spec

/-- the bytes of a CRange computed from a `COffset|CLength` entry start with the segment stored there -/
theorem range_bytes (file : Array UInt8) (S pre post seg : Bytes) (dco cfs off lo hi : Nat)
    (hfile : file.toList = pre ++ S ++ post) (hpre : pre.length = dco) (hfs : file.size = cfs)
    (h6 : off + seg.length ≤ S.length) (h7 : (S.drop off).take seg.length = seg)
    (hlo : lo = off + dco)
    (hhi : hi = (if calcCLength seg.length = 0 then cfs else min cfs (off + dco + calcCLength seg.length * 1024))) :
    ∃ extra, (file.extract lo hi).toList = seg ++ extra := by
  have hsz : file.size = pre.length + S.length + post.length := by
    have := congrArg List.length hfile
    simp [List.length_append] at this; omega
  have hge : lo + seg.length ≤ hi := by
    rw [hlo, hhi]
    by_cases hz : calcCLength seg.length = 0
    · rw [if_pos hz]; omega
    · rw [if_neg hz]
      have := calcCLength_covers _ hz
      rw [Nat.min_def]; split <;> omega
  have e1 : (file.extract lo hi).toList = (file.toList.drop lo).take (hi - lo) := by simp
  have e2 : file.toList.drop lo = S.drop off ++ post := by
    rw [hfile, hlo, ← hpre, List.append_assoc, Nat.add_comm off, List.drop_append,
      List.drop_of_length_le (by omega), List.nil_append, Nat.add_sub_cancel_left,
      List.drop_append_of_le_length (by omega)]
  have e3 : hi - lo = seg.length + (hi - lo - seg.length) := by omega
  rw [e1, e2, e3, List.take_add]
  refine ⟨((S.drop off ++ post).drop seg.length).take (hi - lo - seg.length), ?_⟩
  congr 1
  rw [List.take_append_of_le_length (by simp; omega)]
  exact h7

theorem resEntries_get {S : Bytes} : ∀ {xs : List Nat} {rs : List Bytes}, ResEntries S xs rs →
    ∀ i, i < rs.length → ∃ off, xs.getD i 0 = off ||| (calcCLength (rs.getD i []).length <<< 48) ∧
      off + (rs.getD i []).length ≤ S.length ∧ (S.drop off).take (rs.getD i []).length = rs.getD i [] := by
  intro xs
  induction xs with
  | nil => intro rs h i hi; cases rs <;> simp_all [ResEntries]
  | cons x xs ih =>
    intro rs h i hi
    cases rs with
    | nil => simp at hi
    | cons r rs =>
      simp only [ResEntries] at h
      obtain ⟨⟨off, h1, h2, h3⟩, hr⟩ := h
      cases i with
      | zero => exact ⟨off, by simpa using h3, by simpa using h1, by simpa using h2⟩
      | succ j =>
        have := ih hr j (by simpa using hi)
        simpa using this

/-- per chunk: the secondary / tertiary CRange of the reader's chunk is empty when the chunk names no
resource, and otherwise its bytes start with the bytes registered under that resource id -/
def ResBytesOK (file : Array UInt8) (resl : List Bytes) : List Chunk → List WNode → Prop
  | [], [] => True
  | ch :: chs, o :: os =>
    (o.secondary = 0 → ch.cSecondary.lo = ch.cSecondary.hi) ∧ (o.tertiary = 0 → ch.cTertiary.lo = ch.cTertiary.hi) ∧
    (1 ≤ o.secondary → o.secondary ≤ resl.length → ∃ extra,
      (file.extract ch.cSecondary.lo ch.cSecondary.hi).toList = resl.getD (o.secondary - 1) [] ++ extra) ∧
    (1 ≤ o.tertiary → o.tertiary ≤ resl.length → ∃ extra,
      (file.extract ch.cTertiary.lo ch.cTertiary.hi).toList = resl.getD (o.tertiary - 1) [] ++ extra) ∧
    ResBytesOK file resl chs os
  | _, _ => False

theorem res_bytes_of_range (file : Array UInt8) (nw : NodeWriter) (S pre post : Bytes) (resl : List Bytes)
    (hfile : file.toList = pre ++ S ++ post) (hpre : pre.length = nw.dataCOffset) (hfs : file.size = nw.cFileSize)
    (hS : S.length < 2 ^ 48)
    (hre : ResEntries S (nw.resourcesCOffCLens.toList.drop 1) resl) (r : Nat) (rg : Rng) (h : ResRange nw r rg) :
    (r = 0 → rg.lo = rg.hi) ∧
    (1 ≤ r → r ≤ resl.length → ∃ extra, (file.extract rg.lo rg.hi).toList = resl.getD (r - 1) [] ++ extra) := by
  unfold ResRange at h
  refine ⟨fun h0 => by rw [if_pos h0] at h; exact h, fun h1 h2 => ?_⟩
  rw [if_neg (by omega)] at h
  obtain ⟨off, e1, e2, e3⟩ := resEntries_get hre (r - 1) (by omega)
  have hx : nw.resourcesCOffCLens.getD r 0 = off ||| (calcCLength (resl.getD (r - 1) []).length <<< 48) := by
    rw [← e1]
    rw [Array.getD_eq_getD_getElem?, List.getD_eq_getElem?_getD, List.getElem?_drop]
    have : 1 + (r - 1) = r := by omega
    rw [this]; simp
  have hoff : off < 2 ^ 48 := by omega
  have hcf := col_fields off (resl.getD (r - 1) []).length hoff
  rw [← hx] at hcf
  have hclen : nw.resourcesCOffCLens.getD r 0 / 2 ^ 48 = calcCLength (resl.getD (r - 1) []).length := by
    rw [hx, or_shift_eq_add _ _ _ hoff]
    have := calcCLength_le (resl.getD (r - 1) []).length
    omega
  rw [hcf.2, hclen] at h
  exact range_bytes file S pre post _ nw.dataCOffset nw.cFileSize off rg.lo rg.hi hfile hpre hfs e2 e3 h.1 h.2

theorem resBytes_of_matches (file : Array UInt8) (nw : NodeWriter) (c : Nat) (S pre post : Bytes) (resl : List Bytes)
    (hfile : file.toList = pre ++ S ++ post) (hpre : pre.length = nw.dataCOffset) (hfs : file.size = nw.cFileSize)
    (hS : S.length < 2 ^ 48) (hre : ResEntries S (nw.resourcesCOffCLens.toList.drop 1) resl) :
    ∀ (chs : List Chunk) (os : List WNode) (p : Nat), Matches nw c chs os p → ResBytesOK file resl chs os := by
  intro chs
  induction chs with
  | nil =>
    intro os p hm
    cases os with
    | nil => simp [ResBytesOK]
    | cons _ _ => simp [Matches] at hm
  | cons ch chs ih =>
    intro os p hm
    cases os with
    | nil => simp [Matches] at hm
    | cons o os =>
      simp only [Matches, ChunkFor] at hm
      obtain ⟨⟨_, _, _, _, m5, m6⟩, mrest⟩ := hm
      have h2 := res_bytes_of_range file nw S pre post resl hfile hpre hfs hS hre o.secondary ch.cSecondary m5
      have h3 := res_bytes_of_range file nw S pre post resl hfile hpre hfs hS hre o.tertiary ch.cTertiary m6
      simp only [ResBytesOK]
      exact ⟨h2.1, h3.1, h2.2, h3.2, ih os _ mrest⟩

/-- **resources in the index round trip**: after a successful `ChunkWriter.Close`, the reader's chunk list
also has, chunk by chunk, secondary/tertiary CRanges that are empty for "no resource" and otherwise start with
exactly the bytes that were passed to the `AddResource` call that returned that id -/
theorem CW.close_resources (c : CW) (hi : DataInv c) (he : c.err = none) (hne : c.leafNodes.size ≠ 0)
    (hcl : (c.close).2 = none) :
    ∃ chs, Spec.chunks (c.close).1.io.wBytes.toArray = .ok (c.dFileSize, chs) ∧
      ResBytesOK (c.close).1.io.wBytes.toArray c.resLog.reverse chs c.leafNodes.toList := by
  obtain ⟨nw, pre, post, chs, h1, h2, h3, h4, h5, h6⟩ := CW.close_roundtrip c hi he hne hcl
  refine ⟨chs, h1, ?_⟩
  have hS : c.stream.length < 2 ^ 48 := by
    have := hi.size; unfold maxSize at this; omega
  exact resBytes_of_matches _ nw c.codec c.stream pre post _ (by simpa using h3) h4 (by simpa using h5) hS
    (by rw [h6]; exact hi.resOK) chs _ 0 h2
end WuffsVerif.Rac
