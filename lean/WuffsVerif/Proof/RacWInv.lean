/-
C13: the Writer-level invariant `WInv` (ChunkWriter data invariant + no "Zeroes" codec in the log) through
`Write`, and the idle case (no bytes written: the ChunkWriter is never touched).
-/
import WuffsVerif.Proof.RacCloseFile
import WuffsVerif.Proof.RacTermination
namespace WuffsVerif.Rac
open Spec

/-- the codec is not "Zeroes" (short or long form): the spec reader does not call a decompressor for those -/
def NotZeroes (k : Nat) : Prop := k ≠ 0 ∧ k ≠ 2 ^ 63

/-- the ChunkWriter invariant used for the round trip -/
def CW.JK (c : CW) : Prop := c.J ∧ ∀ r ∈ c.log, NotZeroes r.codec

theorem CW.JK_addResource (c : CW) (r : Bytes) (h : c.JK) : (c.addResource r).1.JK :=
  ⟨CW.addResource_J c r h.1, by rw [CW.addResource_log]; exact h.2⟩

theorem CW.JK_addChunk (c : CW) (d k : Nat) (p : Bytes) (s t : Nat) (hk : NotZeroes k) (h : c.JK) :
    (c.addChunk d k p s t).1.JK := by
  refine ⟨CW.addChunk_J c d k p s t h.1, ?_⟩
  have hl := CW.addChunk_log c d k p s t
  cases he : (c.addChunk d k p s t).2 with
  | none =>
    rw [hl.1 he]
    split
    · exact h.2
    · intro r hr
      rcases List.mem_cons.mp hr with rfl | hr
      · exact hk
      · exact h.2 r hr
  | some e => rw [hl.2 (by rw [he]; simp)]; exact h.2

/-- a `WStep` keeps `JK` when the codec never says "Zeroes" -/
theorem WStep.JK {cw : CodecW} {w w' : Writer} (h : WStep cw w w')
    (hz : ∀ a b rs out, cw.compress a b rs = .ok out → NotZeroes out.codec) (hj : w.chunkWriter.JK) :
    w'.chunkWriter.JK :=
  h.cw CW.JK (fun c r => CW.JK_addResource c r)
    (fun c d k p s t ⟨a, b, rs, out, ho, hk⟩ => CW.JK_addChunk c d k p s t (hk ▸ hz a b rs out ho)) hj

/-- Writer-level invariant -/
def WInv (w : Writer) : Prop :=
  w.chunkWriter.JK ∧ (w.inited = false → w.chunkWriter.initialized = false)

theorem DataInv.config {c : CW} (hi : DataInv c) (h0 : c.initialized = false) (a : Bool) (k p : Nat) :
    DataInv { c with nilWriter := false, indexAtStart := a, tempKind := k, cPageSize := p } := by
  obtain ⟨p1, p2, p3, p4, p5, p6, p7, p8⟩ := hi.pristine h0
  constructor
  · intro _; exact ⟨p1, p2, p3, p4, p5, p6, p7, p8⟩
  · simp only [CW.stream, p3, p4, p5]
    exact ⟨by split <;> rfl, by omega⟩
  · intro h; simp only at h; rw [h0] at h; simp at h
  · simp only [p1, p6]; simp [LeafLog]
  · simp [p1]
  · simp only [p1, p7]; simp
  · simp [p2]
  · intro h; simp only [p1] at h; simp at h
  · simp only [p2, p8]; simp [ResEntries]

theorem Writer.init_winv (cw : CodecW) (w : Writer) (h : WInv w) :
    WInv (w.init cw).1 ∧ ((w.init cw).2 = none → (w.init cw).1.inited = true) := by
  unfold Writer.init
  cases he : w.err with
  | some e => simp only; exact ⟨h, fun h => by simp at h⟩
  | none =>
    simp only
    by_cases hin : w.inited = true
    · rw [if_pos hin]; exact ⟨h, fun _ => hin⟩
    · rw [if_neg hin]
      have hin' : w.inited = false := by simpa using hin
      by_cases hnw : w.nilWriter = true
      · rw [if_pos hnw]; exact ⟨h, fun h => by simp at h⟩
      · rw [if_neg hnw]
        by_cases hnc : w.nilCodecWriter = true
        · rw [if_pos hnc]; exact ⟨h, fun h => by simp at h⟩
        · rw [if_neg hnc]
          have hpr := h.2 hin'
          have key : ∀ (w1 : Writer), w1.chunkWriter = w.chunkWriter →
              WInv { w1 with inited := true, chunkWriter := { w1.chunkWriter with
                nilWriter := false, indexAtStart := w1.indexAtStart, tempKind := w1.tempKind, cPageSize := w1.cPageSize } } := by
            intro w1 hcw
            refine ⟨⟨?_, ?_⟩, fun h => by simp at h⟩
            · intro herr
              simp only at herr
              rw [hcw] at herr ⊢
              exact (h.1.1 herr).config hpr _ _ _
            · simp only; rw [hcw]; exact h.1.2
          by_cases hd : w.dChunkSizeCfg > 0
          · simp only [hd, ↓reduceIte, Option.isSome_none, Bool.false_eq_true]
            exact ⟨key _ rfl, fun _ => trivial⟩
          · simp only [hd, ↓reduceIte]
            by_cases hc : w.cChunkSizeCfg > 0
            · simp only [hc, ↓reduceIte]
              by_cases hcc : cw.canCut = true
              · simp only [hcc, Bool.not_true, Bool.false_eq_true, ↓reduceIte, Option.isSome_none]
                exact ⟨key _ rfl, fun _ => trivial⟩
              · simp only [hcc, Bool.not_false, ↓reduceIte, Option.isSome_some]
                exact ⟨⟨h.1, fun _ => hpr⟩, fun h => by simp at h⟩
            · simp only [hc, ↓reduceIte, Option.isSome_none, Bool.false_eq_true]
              exact ⟨key _ rfl, fun _ => trivial⟩

theorem WInv.of_step {cw : CodecW} {w w' : Writer} (h : WInv w) (hin : w.inited = true) (hs : WStep cw w w')
    (hz : ∀ a b rs out, cw.compress a b rs = .ok out → NotZeroes out.codec) : WInv w' :=
  ⟨hs.JK hz h.1, fun h0 => by rw [hs.inited, hin] at h0; simp at h0⟩

theorem Writer.Write_winv (cw : CodecW) (hz : ∀ a b rs out, cw.compress a b rs = .ok out → NotZeroes out.codec)
    (w : Writer) (p : Bytes) (h : WInv w) : WInv (Writer.Write cw w p).1 := by
  unfold Writer.Write
  simp only
  have hi := Writer.init_winv cw w h
  generalize w.init cw = wi at *
  obtain ⟨w1, e1⟩ := wi
  simp only at hi ⊢
  cases e1 with
  | some e => simp only [Option.isSome_some, ↓reduceIte]; exact hi.1
  | none =>
    simp only [Option.isSome_none, Bool.false_eq_true, ↓reduceIte]
    have hin := hi.2 rfl
    split
    · exact ⟨hi.1.1, fun h0 => by simp only at h0; rw [hin] at h0; simp at h0⟩
    · split
      · exact hi.1
      · rename_i u hu
        have hw := Writer.write_step cw { w1 with uncompressed := u } false
        have hinv1 : WInv { w1 with uncompressed := u } := ⟨hi.1.1, fun h0 => by simp only at h0; rw [hin] at h0; simp at h0⟩
        have := hinv1.of_step (by simpa using hin) hw hz
        generalize Writer.write cw { w1 with uncompressed := u } false = wr at *
        obtain ⟨w2, e2⟩ := wr
        simp only at this ⊢
        cases e2 <;> exact ⟨this.1, this.2⟩

theorem runWrites_winv (cw : CodecW) (hz : ∀ a b rs out, cw.compress a b rs = .ok out → NotZeroes out.codec)
    (ps : List Bytes) : ∀ w : Writer, WInv w → WInv (Writer.runWrites cw w ps) := by
  induction ps with
  | nil => intro w h; exact h
  | cons p ps ih => intro w h; exact ih _ (Writer.Write_winv cw hz w p h)

/-! ### nothing written: the ChunkWriter is never touched -/

theorem Writer.write_empty (cw : CodecW) (w : Writer) (eof : Bool) (h : w.uncompressed.length = 0) :
    Writer.write cw w eof = (w, none) := by
  unfold Writer.write
  rw [h]
  split
  · unfold Writer.writeDChunks
    have hp := WBuf.peek_length w.uncompressed w.dChunkSize
    rw [h] at hp
    generalize w.uncompressed.peek w.dChunkSize = pk at hp ⊢
    obtain ⟨p0, p1⟩ := pk
    simp only at hp ⊢
    have : p0.length + p1.length = 0 := by omega
    simp [this]
  · unfold Writer.writeCChunks
    simp [h]

theorem Writer.init_cw_initialized (cw : CodecW) (w : Writer) :
    (w.init cw).1.chunkWriter.initialized = w.chunkWriter.initialized ∧
    (w.init cw).1.chunkWriter.io = w.chunkWriter.io := by
  unfold Writer.init
  simp only
  repeat (any_goals split)
  all_goals simp_all

/-- nothing pending and the ChunkWriter untouched -/
def Idle (w : Writer) : Prop :=
  w.chunkWriter.initialized = false ∧ w.uncompressed.curr = [] ∧ w.uncompressed.length = 0

theorem Writer.Write_idle (cw : CodecW) (w : Writer) (h : Idle w) : Idle (Writer.Write cw w []).1 := by
  obtain ⟨h1, h2, h3⟩ := h
  unfold Writer.Write
  simp only
  obtain ⟨_, i2, _, _, _⟩ := Writer.init_frame cw w
  have i6 := (Writer.init_cw_initialized cw w).1
  generalize w.init cw = wi at *
  obtain ⟨w1, e1⟩ := wi
  simp only at i2 i6 ⊢
  have hidle1 : Idle w1 := ⟨by rw [i6]; exact h1, by rw [i2]; exact h2, by rw [i2]; exact h3⟩
  cases e1 with
  | some e => simp only [Option.isSome_some, ↓reduceIte]; exact hidle1
  | none =>
    simp only [Option.isSome_none, Bool.false_eq_true, ↓reduceIte, List.length_nil]
    rw [if_neg (by rw [hidle1.2.2]; simp)]
    have hext : w1.uncompressed.extend [] = some w1.uncompressed := by
      have hc := hidle1.2.1
      generalize w1.uncompressed = u at hc ⊢
      cases u with
      | mk pv cr pp =>
        simp only at hc
        subst hc
        simp [WBuf.extend]
    rw [hext]
    simp only
    have hw : Writer.write cw { w1 with uncompressed := w1.uncompressed } false = (w1, none) := by
      have : ({ w1 with uncompressed := w1.uncompressed } : Writer) = w1 := by cases w1; rfl
      rw [this]; exact Writer.write_empty cw w1 false hidle1.2.2
    rw [hw]
    simp only
    refine ⟨hidle1.1, by simp [WBuf.compact], ?_⟩
    have := (WBuf.compact_refines w1.uncompressed).1
    rw [WBuf.length_eq, this, ← WBuf.length_eq]; exact hidle1.2.2

theorem runWrites_idle (cw : CodecW) (ps : List Bytes) (hps : ∀ p ∈ ps, p = []) :
    ∀ w : Writer, Idle w → Idle (Writer.runWrites cw w ps) := by
  induction ps with
  | nil => intro w h; exact h
  | cons p ps ih =>
    intro w h
    have : p = [] := hps p (by simp)
    subst this
    exact ih (fun q hq => hps q (by simp [hq])) _ (Writer.Write_idle cw w h)
end WuffsVerif.Rac
