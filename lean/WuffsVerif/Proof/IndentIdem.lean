/-
C12, the C indenter: helper lemmas for idempotence (`format o (format o s) = format o s` for
lexically closed `s`): uniqueness of the line split, stability of `handleRaw` / `skipCooked`
under a changed continuation, and the congruence of the inner loop `scan`.  Core Lean only.
-/
import WuffsVerif.Proof.IndentWs

namespace WuffsVerif.Indent

/-! ### helper lemmas for idempotence -/

theorem nlHead_cons_ne {c : UInt8} {t : Bytes} (h : NlHead (c :: t)) : c = NL := by
  rcases h with h | ⟨u, hu⟩
  · simp at h
  · simp at hu; exact hu.1

/-- a text splits in only one way into a '\n'-free line and a rest that is empty or starts with '\n' -/
theorem split_unique : ∀ (A A' B B' : Bytes), NL ∉ A → NL ∉ A' → NlHead B → NlHead B' →
    A ++ B = A' ++ B' → A = A' ∧ B = B' := by
  intro A
  induction A with
  | nil =>
    intro A' B B' _ hA' hB hB' h
    cases A' with
    | nil => simpa using h
    | cons a as =>
      exfalso
      simp only [List.nil_append, List.cons_append] at h
      rw [h] at hB
      have := nlHead_cons_ne hB
      exact hA' (by simp [this])
  | cons a as ih =>
    intro A' B B' hA hA' hB hB' h
    cases A' with
    | nil =>
      exfalso
      simp only [List.nil_append, List.cons_append] at h
      rw [← h] at hB'
      have := nlHead_cons_ne hB'
      exact hA (by simp [this])
    | cons a' as' =>
      simp only [List.cons_append, List.cons.injEq] at h
      have := ih as' B B' (fun hm => hA (by simp [hm])) (fun hm => hA' (by simp [hm])) hB hB' h.2
      exact ⟨by rw [h.1, this.1], this.2⟩

theorem splitLine_of (A B : Bytes) (hA : NL ∉ A) (hB : NlHead B) : splitLine (A ++ B) = (A, B) := by
  have h1 := splitLine_eq (A ++ B)
  have := split_unique _ _ _ _ (splitLine_noNl (A ++ B)) hA (splitLine_nlHead (A ++ B)) hB h1
  exact Prod.ext this.1 this.2

theorem splitRaw_cons_pos (q : Bytes) (x : UInt8) (xs : Bytes) (h : q.isPrefixOf (x :: xs) = true) :
    splitRaw q (x :: xs) = (q, (x :: xs).drop q.length) := by
  rw [splitRaw]; simp only [h, ↓reduceIte]

theorem splitRaw_cons_neg (q : Bytes) (x : UInt8) (xs : Bytes) (h : q.isPrefixOf (x :: xs) = false) :
    splitRaw q (x :: xs) = (x :: (splitRaw q xs).1, (splitRaw q xs).2) := by
  rw [splitRaw]; simp only [h, Bool.false_eq_true, ↓reduceIte]

theorem splitRaw_found_len (q : Bytes) : ∀ (s : Bytes), rawFound q s = true →
    q.length ≤ (splitRaw q s).1.length := by
  intro s
  induction s with
  | nil => intro h; simp [rawFound] at h
  | cons x xs ih =>
    intro h
    by_cases hp : q.isPrefixOf (x :: xs) = true
    · rw [splitRaw_cons_pos q x xs hp]; exact Nat.le_refl _
    · have hp' : q.isPrefixOf (x :: xs) = false := Bool.eq_false_iff.mpr hp
      rw [splitRaw_cons_neg q x xs hp']
      have hf : rawFound q xs = true := by
        unfold rawFound at h
        simpa [hp'] using h
      have := ih hf
      simp only [List.length_cons]
      omega

/-- the copied part of a successful `handleRaw` search does not depend on what follows it -/
theorem splitRaw_stable (q : Bytes) (hq : q ≠ []) : ∀ (s b' : Bytes), rawFound q s = true →
    splitRaw q ((splitRaw q s).1 ++ b') = ((splitRaw q s).1, b') := by
  intro s
  induction s with
  | nil => intro b' h; simp [rawFound] at h
  | cons x xs ih =>
    intro b' h
    by_cases hp : q.isPrefixOf (x :: xs) = true
    · rw [splitRaw_cons_pos q x xs hp]
      cases q with
      | nil => exact absurd rfl hq
      | cons q0 qs =>
        have hp' : (q0 :: qs).isPrefixOf (q0 :: (qs ++ b')) = true := by
          rw [List.isPrefixOf_iff_prefix]
          exact List.prefix_append (q0 :: qs) b'
        simp only [List.cons_append]
        rw [splitRaw_cons_pos _ _ _ hp']
        simp
    · have hp' : q.isPrefixOf (x :: xs) = false := Bool.eq_false_iff.mpr hp
      rw [splitRaw_cons_neg q x xs hp']
      have hf : rawFound q xs = true := by
        unfold rawFound at h
        simpa [hp'] using h
      have ih' := ih b' hf
      have hlen := splitRaw_found_len q xs hf
      have hnp : q.isPrefixOf (x :: ((splitRaw q xs).1 ++ b')) = false := by
        cases hh : q.isPrefixOf (x :: ((splitRaw q xs).1 ++ b')) with
        | false => rfl
        | true =>
          exfalso
          have h1 : q <+: (x :: (splitRaw q xs).1) ++ b' := by
            have := List.isPrefixOf_iff_prefix.mp hh
            simpa using this
          have h2 : q <+: x :: (splitRaw q xs).1 :=
            List.prefix_of_prefix_length_le h1 (List.prefix_append _ _) (by simp only [List.length_cons]; omega)
          have h3 : q <+: x :: xs := by
            have e := splitRaw_eq q xs
            have : x :: xs = (x :: (splitRaw q xs).1) ++ (splitRaw q xs).2 := by simp [e]
            rw [this]
            exact List.IsPrefix.trans h2 (List.prefix_append _ _)
          exact hp (List.isPrefixOf_iff_prefix.mpr h3)
      simp only [List.cons_append]
      rw [splitRaw_cons_neg _ _ _ hnp, ih']

/-- an unsuccessful search copies everything -/
theorem splitRaw_not_found (q : Bytes) : ∀ (s : Bytes), rawFound q s = false → splitRaw q s = (s, []) := by
  intro s
  induction s with
  | nil => intro _; simp [splitRaw]
  | cons x xs ih =>
    intro h
    unfold rawFound at h
    simp only [Bool.or_eq_false_iff] at h
    rw [splitRaw_cons_neg q x xs h.1, ih h.2]

/-! ### skipCooked and a continuation -/

theorem skipCooked_len_lt (c : UInt8) (u : Bytes) (hu : u ≠ []) : (skipCooked c u).length < u.length := by
  obtain ⟨p, hp⟩ := skipCooked_suffix c u
  -- need p ≠ []
  suffices h : ∀ n (u : Bytes), u.length ≤ n → u ≠ [] → (skipCooked c u).length < u.length from h _ u (Nat.le_refl _) hu
  intro n
  induction n with
  | zero => intro u h hne; cases u with
    | nil => exact absurd rfl hne
    | cons _ _ => simp at h
  | succ n ih =>
    intro u h hne
    match u with
    | [] => exact absurd rfl hne
    | [x] => simp [skipCooked]
    | x :: y :: ys =>
      unfold skipCooked
      split
      · simp
      · split
        · have := ih (y :: ys) (by simp at h ⊢; omega) (by simp)
          simp only [List.length_cons] at this ⊢
          omega
        · have := skipCooked_len c ys
          simp only [List.length_cons]
          omega

/-- Lemma SKC: if what `skipCooked` leaves of `A ++ u` is at least as long as `u`, then the
closing quote was found inside `A`, and `u` is simply carried along. -/
theorem skipCooked_append (c : UInt8) (u : Bytes) : ∀ (n : Nat) (A : Bytes), A.length ≤ n →
    u.length ≤ (skipCooked c (A ++ u)).length → skipCooked c (A ++ u) = skipCooked c A ++ u := by
  intro n
  induction n with
  | zero =>
    intro A hA h
    have : A = [] := List.length_eq_zero_iff.mp (by omega)
    subst this
    simp only [List.nil_append] at h ⊢
    by_cases hu : u = []
    · subst hu; simp [skipCooked]
    · have := skipCooked_len_lt c u hu; omega
  | succ n ih =>
    intro A hA h
    match A with
    | [] =>
      simp only [List.nil_append] at h ⊢
      by_cases hu : u = []
      · subst hu; simp [skipCooked]
      · have := skipCooked_len_lt c u hu; omega
    | [x] =>
      cases u with
      | nil => simp
      | cons y us =>
        simp only [List.cons_append, List.nil_append] at h ⊢
        unfold skipCooked at h ⊢
        split at h
        · rename_i hx; simp [hx, skipCooked]
        · split at h
          · have := skipCooked_len_lt c (y :: us) (by simp)
            omega
          · have := skipCooked_len c us
            simp only [List.length_cons] at h
            omega
    | x :: y :: ys =>
      simp only [List.cons_append] at h ⊢
      rw [skipCooked] at h ⊢
      rw [skipCooked]
      split
      · simp
      · rename_i hx
        simp only [hx, Bool.false_eq_true, ↓reduceIte] at h
        split
        · rename_i hb
          simp only [hb, ↓reduceIte] at h
          have := ih (y :: ys) (by simp at hA ⊢; omega) (by simpa using h)
          simpa using this
        · rename_i hb
          simp only [hb, Bool.false_eq_true, ↓reduceIte] at h
          exact ih ys (by simp at hA ⊢; omega) h

/-! ### blanks at the end of a line -/

theorem lastNonWsRev_ws_append (z : Bytes) (hz : AllWs z) : ∀ (l : Bytes),
    lastNonWsRev (z.reverse ++ l) = lastNonWsRev l := by
  induction z with
  | nil => intro l; simp
  | cons c cs ih =>
    intro l
    have hc : isWs c = true := hz c (by simp)
    have ih' := ih (fun b hb => hz b (by simp [hb])) (c :: l)
    simp only [List.reverse_cons, List.append_assoc, List.cons_append, List.nil_append]
    rw [ih']
    simp [lastNonWsRev, hc]

theorem lastNonWs_append_ws (l z : Bytes) (hz : AllWs z) : lastNonWs (l ++ z) = lastNonWs l := by
  unfold lastNonWs
  rw [List.reverse_append]
  exact lastNonWsRev_ws_append z hz _

end WuffsVerif.Indent

namespace WuffsVerif.Indent

/-! ### single steps of `scan` -/

/-- the two-byte tokens "//" and "/*" -/
def special2 (c : UInt8) (cs : Bytes) : Bool :=
  c == SLASH && (cs.head? == some SLASH || cs.head? == some STAR)

/-- a byte on which `scan` only counts braces / parentheses and moves on -/
def isSimple (c : UInt8) (cs : Bytes) : Bool :=
  !special2 c cs && !(c == DQUOTE || c == SQUOTE) && !(c == BTICK)

def bumpB (c : UInt8) (nB : Int) : Int := if c == LBRACE then nB + 1 else if c == RBRACE then nB - 1 else nB
def bumpP (c : UInt8) (nP : Int) : Int :=
  if c == LBRACE then nP else if c == RBRACE then nP else if c == LPAREN then nP + 1 else if c == RPAREN then nP - 1 else nP

theorem scan_simple (f : Nat) (nB nP : Int) (last : UInt8) (clo : Bool) (out pend cs tail : Bytes) (c : UInt8)
    (h : isSimple c cs = true) :
    scan (f + 1) nB nP last clo out pend (c :: cs) tail =
      scan f (bumpB c nB) (bumpP c nP) last clo out (c :: pend) cs tail := by
  unfold isSimple special2 at h
  simp only [Bool.and_eq_true, Bool.not_eq_true', Bool.or_eq_false_iff, Bool.and_eq_false_iff] at h
  obtain ⟨⟨h1, h2, h3⟩, h4⟩ := h
  unfold bumpB bumpP
  conv => lhs; unfold scan
  by_cases e1 : c == LBRACE
  · simp only [e1, ↓reduceIte]
  by_cases e2 : c == RBRACE
  · simp only [e1, e2, Bool.false_eq_true, ↓reduceIte]
  by_cases e3 : c == LPAREN
  · simp only [e1, e2, e3, Bool.false_eq_true, ↓reduceIte]
  by_cases e4 : c == RPAREN
  · simp only [e1, e2, e3, e4, Bool.false_eq_true, ↓reduceIte]
  simp only [e1, e2, e3, e4, Bool.false_eq_true, ↓reduceIte, h2, h3, h4, Bool.or_self]
  by_cases e5 : c == SLASH
  · simp only [e5, ↓reduceIte]
    cases cs with
    | nil => rfl
    | cons d ds =>
      simp only
      rcases h1 with h1 | h1
      · simp [e5] at h1
      · simp only [List.head?_cons, beq_eq_false_iff_ne, ne_eq, Option.some.injEq] at h1
        have hd1 : (d == SLASH) = false := by simpa using h1.1
        have hd2 : (d == STAR) = false := by simpa using h1.2
        simp only [hd1, hd2, Bool.false_eq_true, ↓reduceIte]
  · simp only [e5, Bool.false_eq_true, ↓reduceIte]

theorem ws_tests (c : UInt8) (h : isWs c = true) :
    (c == LBRACE) = false ∧ (c == RBRACE) = false ∧ (c == LPAREN) = false ∧ (c == RPAREN) = false ∧
    (c == SLASH) = false ∧ (c == DQUOTE) = false ∧ (c == SQUOTE) = false ∧ (c == BTICK) = false ∧
    (c == NL) = false ∧ (c == STAR) = false := by
  have : c = SP ∨ c = TAB := by simpa [isWs] using h
  rcases this with rfl | rfl <;> decide

theorem ws_simple (c : UInt8) (cs : Bytes) (h : isWs c = true) :
    isSimple c cs = true ∧ (∀ n, bumpB c n = n) ∧ (∀ n, bumpP c n = n) := by
  obtain ⟨t1, t2, t3, t4, t5, t6, t7, t8, _, _⟩ := ws_tests c h
  refine ⟨?_, ?_, ?_⟩
  · simp [isSimple, special2, t5, t6, t7, t8]
  · intro n; simp [bumpB, t1, t2]
  · intro n; simp [bumpP, t1, t2, t3, t4]

/-- over blanks `scan` just moves on -/
theorem scan_ws : ∀ (rest : Bytes) (f : Nat) (nB nP : Int) (last : UInt8) (clo : Bool) (out pend tail : Bytes),
    AllWs rest → rest.length < f →
    scan f nB nP last clo out pend rest tail = some ⟨out, pend.reverse ++ rest, tail, nB, nP, last, clo⟩ := by
  intro rest
  induction rest with
  | nil =>
    intro f nB nP last clo out pend tail _ hf
    cases f with
    | zero => omega
    | succ f => simp [scan]
  | cons c cs ih =>
    intro f nB nP last clo out pend tail hw hf
    cases f with
    | zero => omega
    | succ f =>
      obtain ⟨h1, h2, h3⟩ := ws_simple c cs (hw c (by simp))
      rw [scan_simple f nB nP last clo out pend cs tail c h1, h2, h3]
      rw [ih f nB nP last clo out (c :: pend) tail (fun b hb => hw b (by simp [hb])) (by simp at hf; omega)]
      simp

theorem scan_out_prefix : ∀ (f : Nat) (nB nP : Int) (last : UInt8) (clo : Bool) (out pend rest tail : Bytes) (r : ScanOut),
    scan f nB nP last clo out pend rest tail = some r → ∃ E, r.out = out ++ E := by
  intro f
  induction f with
  | zero => intro nB nP last clo out pend rest tail r h; simp [scan] at h
  | succ f ih =>
    intro nB nP last clo out pend rest tail r h
    cases rest with
    | nil =>
      simp only [scan, Option.some.injEq] at h
      subst h
      exact ⟨[], by simp⟩
    | cons c cs =>
      by_cases hs : isSimple c cs = true
      · rw [scan_simple _ _ _ _ _ _ _ _ _ _ hs] at h
        exact ih _ _ _ _ _ _ _ _ _ h
      · unfold scan at h
        split at h
        · exact ih _ _ _ _ _ _ _ _ _ h
        split at h
        · exact ih _ _ _ _ _ _ _ _ _ h
        split at h
        · exact ih _ _ _ _ _ _ _ _ _ h
        split at h
        · exact ih _ _ _ _ _ _ _ _ _ h
        split at h
        · split at h
          · exact ih _ _ _ _ _ _ _ _ _ h
          · split at h
            · simp only [Option.some.injEq] at h
              subst h
              exact ⟨[], by simp⟩
            split at h
            · obtain ⟨E, hE⟩ := ih _ _ _ _ _ _ _ _ _ h
              exact ⟨_, by rw [hE, List.append_assoc]⟩
            · exact ih _ _ _ _ _ _ _ _ _ h
        split at h
        · obtain ⟨E, hE⟩ := ih _ _ _ _ _ _ _ _ _ h
          exact ⟨_, by rw [hE, List.append_assoc]⟩
        split at h
        · obtain ⟨E, hE⟩ := ih _ _ _ _ _ _ _ _ _ h
          exact ⟨_, by rw [hE, List.append_assoc]⟩
        · exact ih _ _ _ _ _ _ _ _ _ h

/-- the ghost flag only ever goes from true to false -/
theorem scan_closed_mono : ∀ (f : Nat) (nB nP : Int) (last : UInt8) (clo : Bool) (out pend rest tail : Bytes) (r : ScanOut),
    scan f nB nP last clo out pend rest tail = some r → r.closed = true → clo = true := by
  intro f
  induction f with
  | zero => intro nB nP last clo out pend rest tail r h; simp [scan] at h
  | succ f ih =>
    intro nB nP last clo out pend rest tail r h hc
    cases rest with
    | nil =>
      simp only [scan, Option.some.injEq] at h
      subst h
      exact hc
    | cons c cs =>
      unfold scan at h
      split at h
      · exact ih _ _ _ _ _ _ _ _ _ h hc
      split at h
      · exact ih _ _ _ _ _ _ _ _ _ h hc
      split at h
      · exact ih _ _ _ _ _ _ _ _ _ h hc
      split at h
      · exact ih _ _ _ _ _ _ _ _ _ h hc
      split at h
      · split at h
        · exact ih _ _ _ _ _ _ _ _ _ h hc
        · split at h
          · simp only [Option.some.injEq] at h
            subst h
            exact hc
          split at h
          · have := ih _ _ _ _ _ _ _ _ _ h hc
            simp only [Bool.and_eq_true] at this
            exact this.1
          · exact ih _ _ _ _ _ _ _ _ _ h hc
      split at h
      · exact ih _ _ _ _ _ _ _ _ _ h hc
      split at h
      · have := ih _ _ _ _ _ _ _ _ _ h hc
        simp only [Bool.and_eq_true] at this
        exact this.1
      · exact ih _ _ _ _ _ _ _ _ _ h hc

end WuffsVerif.Indent


namespace WuffsVerif.Indent

theorem quote_tests (c : UInt8) (h : (c == DQUOTE || c == SQUOTE) = true) :
    (c == LBRACE) = false ∧ (c == RBRACE) = false ∧ (c == LPAREN) = false ∧ (c == RPAREN) = false ∧
    (c == SLASH) = false := by
  have : c = DQUOTE ∨ c = SQUOTE := by simpa using h
  rcases this with rfl | rfl <;> decide

theorem scan_cooked (f : Nat) (nB nP : Int) (last : UInt8) (clo : Bool) (out pend cs tail : Bytes) (c : UInt8)
    (h : (c == DQUOTE || c == SQUOTE) = true) :
    scan (f + 1) nB nP last clo out pend (c :: cs) tail =
      scan f nB nP last clo (out ++ (pend.reverse ++ c :: cs.take (cs.length - (skipCooked c cs).length))) []
        (skipCooked c cs) tail := by
  obtain ⟨t1, t2, t3, t4, t5⟩ := quote_tests c h
  conv => lhs; unfold scan
  simp only [t1, t2, t3, t4, t5, Bool.false_eq_true, ↓reduceIte, h]

theorem scan_btick (f : Nat) (nB nP : Int) (last : UInt8) (clo : Bool) (out pend cs tail : Bytes) :
    scan (f + 1) nB nP last clo out pend (BTICK :: cs) tail =
      scan f nB nP (lastNonWs (splitLine (splitRaw backTick (cs ++ tail)).2).1)
        (clo && rawFound backTick (cs ++ tail))
        (out ++ (pend.reverse ++ BTICK :: (splitRaw backTick (cs ++ tail)).1)) []
        (splitLine (splitRaw backTick (cs ++ tail)).2).1 (splitLine (splitRaw backTick (cs ++ tail)).2).2 := by
  conv => lhs; unfold scan
  have : (BTICK == LBRACE) = false ∧ (BTICK == RBRACE) = false ∧ (BTICK == LPAREN) = false ∧
      (BTICK == RPAREN) = false ∧ (BTICK == SLASH) = false ∧ (BTICK == DQUOTE || BTICK == SQUOTE) = false := by decide
  obtain ⟨t1, t2, t3, t4, t5, t6⟩ := this
  simp only [t1, t2, t3, t4, t5, t6, Bool.false_eq_true, ↓reduceIte, beq_self_eq_true]

theorem slash_tests : (SLASH == LBRACE) = false ∧ (SLASH == RBRACE) = false ∧ (SLASH == LPAREN) = false ∧
    (SLASH == RPAREN) = false ∧ (STAR == SLASH) = false := by decide

theorem scan_slashslash (f : Nat) (nB nP : Int) (last : UInt8) (clo : Bool) (out pend ds tail : Bytes) :
    scan (f + 1) nB nP last clo out pend (SLASH :: SLASH :: ds) tail =
      some ⟨out, pend.reverse ++ SLASH :: SLASH :: ds, tail, nB, nP, lastNonWsRev pend, clo⟩ := by
  obtain ⟨t1, t2, t3, t4, _⟩ := slash_tests
  conv => lhs; unfold scan
  simp only [t1, t2, t3, t4, Bool.false_eq_true, ↓reduceIte, beq_self_eq_true]

theorem scan_slashstar (f : Nat) (nB nP : Int) (last : UInt8) (clo : Bool) (out pend ds tail : Bytes) :
    scan (f + 1) nB nP last clo out pend (SLASH :: STAR :: ds) tail =
      scan f nB nP (lastNonWs (splitLine (splitRaw starSlash (ds ++ tail)).2).1)
        (clo && rawFound starSlash (ds ++ tail))
        (out ++ (pend.reverse ++ SLASH :: STAR :: (splitRaw starSlash (ds ++ tail)).1)) []
        (splitLine (splitRaw starSlash (ds ++ tail)).2).1 (splitLine (splitRaw starSlash (ds ++ tail)).2).2 := by
  obtain ⟨t1, t2, t3, t4, t5⟩ := slash_tests
  conv => lhs; unfold scan
  simp only [t1, t2, t3, t4, t5, Bool.false_eq_true, ↓reduceIte, beq_self_eq_true]

/-- the ways a byte can fail to be simple -/
theorem not_simple_cases (c : UInt8) (cs : Bytes) (h : isSimple c cs = false) :
    (c == DQUOTE || c == SQUOTE) = true ∨ c = BTICK ∨
    (c = SLASH ∧ ∃ ds, cs = SLASH :: ds) ∨ (c = SLASH ∧ ∃ ds, cs = STAR :: ds) := by
  unfold isSimple special2 at h
  by_cases hq : (c == DQUOTE || c == SQUOTE) = true
  · exact Or.inl hq
  by_cases hb : c = BTICK
  · exact Or.inr (Or.inl hb)
  have hq' : (c == DQUOTE || c == SQUOTE) = false := Bool.eq_false_iff.mpr hq
  have hb' : (c == BTICK) = false := by simpa using hb
  simp only [hq', hb', Bool.not_false, Bool.and_true, Bool.not_eq_eq_eq_not, Bool.not_false,
    Bool.and_eq_true, Bool.or_eq_true, beq_iff_eq] at h
  obtain ⟨hc, hd⟩ := h
  cases cs with
  | nil => simp at hd
  | cons d ds =>
    simp only [List.head?_cons, Option.some.injEq] at hd
    rcases hd with hd | hd
    · exact Or.inr (Or.inr (Or.inl ⟨hc, ds, by rw [hd]⟩))
    · exact Or.inr (Or.inr (Or.inr ⟨hc, ds, by rw [hd]⟩))

/-- the first physical line of `K ++ z ++ T` and of `K ++ T₂` end with the same non-blank byte -/
theorem first_line_last (K z T T₂ : Bytes) (hz : AllWs z) (hT : NlHead T) (hT₂ : NlHead T₂) :
    lastNonWs (splitLine (K ++ (z ++ T))).1 = lastNonWs (splitLine (K ++ T₂)).1 := by
  have e := splitLine_eq K
  have hn := splitLine_noNl K
  have hh := splitLine_nlHead K
  generalize (splitLine K).1 = a at e hn
  generalize (splitLine K).2 = B at e hh
  subst e
  rcases hh with hB | ⟨u, hu⟩
  · subst hB
    have hz' : NL ∉ z := fun hm => isWs_ne_nl _ (hz _ hm) rfl
    have e1 : a ++ [] ++ (z ++ T) = (a ++ z) ++ T := by simp
    have e2 : a ++ [] ++ T₂ = a ++ T₂ := by simp
    rw [e1, e2, splitLine_of (a ++ z) T (by simp [hn, hz']) hT, splitLine_of a T₂ hn hT₂]
    exact lastNonWs_append_ws a z hz
  · subst hu
    have e1 : a ++ NL :: u ++ (z ++ T) = a ++ (NL :: (u ++ (z ++ T))) := by simp
    have e2 : a ++ NL :: u ++ T₂ = a ++ (NL :: (u ++ T₂)) := by simp
    rw [e1, e2, splitLine_of a _ hn (Or.inr ⟨_, rfl⟩), splitLine_of a _ hn (Or.inr ⟨_, rfl⟩)]

end WuffsVerif.Indent

namespace WuffsVerif.Indent

theorem scan_ws' : ∀ (rest : Bytes) (f : Nat) (nB nP : Int) (last : UInt8) (clo : Bool) (out pend tail : Bytes) (r : ScanOut),
    AllWs rest → scan f nB nP last clo out pend rest tail = some r →
    r = ⟨out, pend.reverse ++ rest, tail, nB, nP, last, clo⟩ := by
  intro rest
  induction rest with
  | nil =>
    intro f nB nP last clo out pend tail r _ h
    cases f with
    | zero => simp [scan] at h
    | succ f => simp only [scan, Option.some.injEq] at h; simp [← h]
  | cons c cs ih =>
    intro f nB nP last clo out pend tail r hw h
    cases f with
    | zero => simp [scan] at h
    | succ f =>
      obtain ⟨h1, h2, h3⟩ := ws_simple c cs (hw c (by simp))
      rw [scan_simple f nB nP last clo out pend cs tail c h1, h2, h3] at h
      have := ih f nB nP last clo out (c :: pend) tail r (fun b hb => hw b (by simp [hb])) h
      rw [this]; simp

/-- pass 2's result agrees with pass 1's, with the final line cut to `L` and the rest replaced -/
def SameUpTo (r r₂ : ScanOut) (L T₂ : Bytes) : Prop :=
  r₂.out = r.out ∧ r₂.line = L ∧ r₂.tail = T₂ ∧ r₂.nBraces = r.nBraces ∧ r₂.nParens = r.nParens ∧
  r₂.last = r.last

theorem allWs_noNl {z : Bytes} (hz : AllWs z) : NL ∉ z := fun hm => isWs_ne_nl _ (hz _ hm) rfl

/-- The congruence of the inner loop, at fuel `f`.  Pass 1 scans `rest ++ tail = K ++ z ++ r.tail`,
consuming `K ++ z`, where `z` are blanks at the end of its final line; every raw search succeeded.
Then a scan of `K ++ T₂` (the same bytes without those blanks, followed by anything that is empty
or starts with a newline) does the same thing. -/
def CongAt (f : Nat) : Prop :=
  ∀ (nB nP : Int) (last : UInt8) (clo : Bool) (out pend rest tail : Bytes) (r : ScanOut),
    scan f nB nP last clo out pend rest tail = some r → r.closed = true →
    NL ∉ rest → NlHead tail →
    ∀ (K z L T₂ rest₂ tail₂ : Bytes),
      rest ++ tail = K ++ (z ++ r.tail) → AllWs z → r.line = L ++ z →
      NL ∉ rest₂ → NlHead tail₂ → NlHead T₂ → rest₂ ++ tail₂ = K ++ T₂ →
      ∀ (clo₂ : Bool) (f₂ : Nat), rest₂.length + tail₂.length < f₂ →
      ∃ r₂, scan f₂ nB nP last clo₂ out pend rest₂ tail₂ = some r₂ ∧ SameUpTo r r₂ L T₂

theorem noNl_of_suffix {p s t : Bytes} (h : p ++ s = t) (ht : NL ∉ t) : NL ∉ s :=
  fun hm => ht (by rw [← h]; simp [hm])

/-- the raw-string / slash-star step of the congruence -/
theorem raw_cong (f : Nat) (ih : CongAt f) (q : Bytes) (hq : q ≠ []) (mk : Bytes → Bytes)
    (nB nP : Int) (clo : Bool) (mid tail : Bytes) (r : ScanOut)
    (h : scan f nB nP (lastNonWs (splitLine (splitRaw q (mid ++ tail)).2).1) (clo && rawFound q (mid ++ tail))
          (mk (splitRaw q (mid ++ tail)).1) [] (splitLine (splitRaw q (mid ++ tail)).2).1
          (splitLine (splitRaw q (mid ++ tail)).2).2 = some r)
    (hclosed : r.closed = true)
    (K z L T₂ mid₂ tail₂ : Bytes) (hM : mid ++ tail = K ++ (z ++ r.tail)) (hz : AllWs z)
    (hL : r.line = L ++ z) (hT₂ : NlHead T₂) (hrT : NlHead r.tail)
    (hM₂ : mid₂ ++ tail₂ = K ++ T₂) (clo₂ : Bool) (f₂ : Nat) (hf₂ : mid₂.length + tail₂.length < f₂) :
    ∃ r₂, scan f₂ nB nP (lastNonWs (splitLine (splitRaw q (mid₂ ++ tail₂)).2).1) clo₂
        (mk (splitRaw q (mid₂ ++ tail₂)).1) [] (splitLine (splitRaw q (mid₂ ++ tail₂)).2).1
        (splitLine (splitRaw q (mid₂ ++ tail₂)).2).2 = some r₂ ∧ SameUpTo r r₂ L T₂ := by
  have hfound : rawFound q (mid ++ tail) = true := by
    have := scan_closed_mono _ _ _ _ _ _ _ _ _ _ h hclosed
    simp only [Bool.and_eq_true] at this
    exact this.2
  obtain ⟨E, hE⟩ := scan_out_prefix _ _ _ _ _ _ _ _ _ _ h
  have hspec := scan_spec _ _ _ _ _ _ _ _ _ _ h
  have hb := hspec.bytes
  have e1 := splitLine_eq (splitRaw q (mid ++ tail)).2
  have e2 := splitRaw_eq q (mid ++ tail)
  generalize hr1 : splitRaw q (mid ++ tail) = r1 at *
  simp only [List.reverse_nil, List.nil_append] at hb
  rw [e1, hE, hL, List.append_assoc] at hb
  have hr12 : r1.2 = (E ++ L) ++ (z ++ r.tail) := by
    have := List.append_cancel_left hb
    rw [← this]; simp
  have hK : K = r1.1 ++ (E ++ L) := by
    rw [hM, hr12, ← List.append_assoc] at e2
    exact (List.append_cancel_right e2).symm
  have hstab := splitRaw_stable q hq (mid ++ tail) ((E ++ L) ++ T₂) hfound
  rw [hr1] at hstab
  have hM₂' : mid₂ ++ tail₂ = r1.1 ++ ((E ++ L) ++ T₂) := by rw [hM₂, hK]; simp
  rw [hM₂', hstab]
  simp only
  have hlast := first_line_last (E ++ L) z r.tail T₂ hz hrT hT₂
  rw [← hr12] at hlast
  rw [← hlast]
  have hlen : (splitLine ((E ++ L) ++ T₂)).1.length + (splitLine ((E ++ L) ++ T₂)).2.length < f₂ := by
    have l1 := splitLine_len ((E ++ L) ++ T₂)
    have l2 := congrArg List.length hM₂'
    simp only [List.length_append] at l1 l2 ⊢
    omega
  exact ih nB nP _ _ _ [] _ _ r h hclosed (splitLine_noNl _) (splitLine_nlHead _) (E ++ L) z L T₂ _ _
    (by rw [e1, hr12]) hz hL (splitLine_noNl _) (splitLine_nlHead _) hT₂ (splitLine_eq _) clo₂ f₂ hlen

/-- the cooked-string step of the congruence -/
theorem cooked_cong (f : Nat) (ih : CongAt f) (mk : Bytes → Bytes) (c : UInt8)
    (nB nP : Int) (last : UInt8) (clo : Bool) (cs tail : Bytes) (r : ScanOut)
    (h : scan f nB nP last clo (mk (cs.take (cs.length - (skipCooked c cs).length))) [] (skipCooked c cs) tail = some r)
    (hclosed : r.closed = true) (hcs : NL ∉ cs) (htail : NlHead tail)
    (K z L T₂ cs₂ tail₂ : Bytes) (hS : cs ++ tail = K ++ (z ++ r.tail)) (hz : AllWs z)
    (hL : r.line = L ++ z) (hT₂ : NlHead T₂) (hrT : NlHead r.tail)
    (hcs₂ : NL ∉ cs₂) (htail₂ : NlHead tail₂)
    (hS₂ : cs₂ ++ tail₂ = K ++ T₂) (clo₂ : Bool) (f₂ : Nat) (hf₂ : cs₂.length + tail₂.length < f₂) :
    ∃ r₂, scan f₂ nB nP last clo₂ (mk (cs₂.take (cs₂.length - (skipCooked c cs₂).length))) []
        (skipCooked c cs₂) tail₂ = some r₂ ∧ SameUpTo r r₂ L T₂ := by
  have hzn : NL ∉ z := allWs_noNl hz
  have e := splitLine_eq K
  have hn := splitLine_noNl K
  have hh := splitLine_nlHead K
  generalize (splitLine K).1 = a at e hn
  generalize (splitLine K).2 = B at e hh
  subst e
  obtain ⟨p, hp⟩ := skipCooked_suffix c cs
  have hsn : NL ∉ skipCooked c cs := noNl_of_suffix hp hcs
  rcases hh with hB | ⟨u, hu⟩
  · -- the string (and everything up to the blanks) is on this line
    rw [hB] at hS hS₂
    simp only [List.append_nil] at hS hS₂
    have h1 := split_unique cs (a ++ z) tail r.tail hcs (by simp [hn, hzn]) htail hrT (by simpa using hS)
    have h2 := split_unique cs₂ a tail₂ T₂ hcs₂ hn htail₂ hT₂ hS₂
    obtain ⟨hcs_eq, htail_eq⟩ := h1
    obtain ⟨hcs₂_eq, htail₂_eq⟩ := h2
    rw [hcs₂_eq, htail₂_eq] at hf₂ ⊢
    clear hcs₂_eq htail₂_eq hS₂ hcs₂ htail₂
    obtain ⟨E, hE⟩ := scan_out_prefix _ _ _ _ _ _ _ _ _ _ h
    have hb := (scan_spec _ _ _ _ _ _ _ _ _ _ h).bytes
    simp only [List.reverse_nil, List.nil_append] at hb
    rw [hE, hL, List.append_assoc, htail_eq] at hb
    have hsuf : skipCooked c cs = (E ++ L) ++ z := by
      have := List.append_cancel_left hb
      have e3 : E ++ (L ++ z ++ r.tail) = ((E ++ L) ++ z) ++ r.tail := by simp
      rw [e3] at this
      exact (List.append_cancel_right this).symm
    have hlen : z.length ≤ (skipCooked c (a ++ z)).length := by
      rw [← hcs_eq, hsuf]; simp only [List.length_append]; omega
    have happ := skipCooked_append c z a.length a (Nat.le_refl _) hlen
    have htake : cs.take (cs.length - (skipCooked c cs).length) =
        a.take (a.length - (skipCooked c a).length) := by
      rw [hcs_eq, happ]
      have hl := skipCooked_len c a
      simp only [List.length_append]
      have : a.length + z.length - ((skipCooked c a).length + z.length) = a.length - (skipCooked c a).length := by omega
      rw [this, List.take_append_of_le_length (by omega)]
    rw [htake] at h
    obtain ⟨p₂, hp₂⟩ := skipCooked_suffix c a
    have hsn₂ : NL ∉ skipCooked c a := noNl_of_suffix hp₂ hn
    have hl₂ := skipCooked_len c a
    exact ih nB nP last clo _ [] _ _ r h hclosed hsn htail (skipCooked c a) z L T₂ _ _
      (by rw [hcs_eq, happ, htail_eq]; simp) hz hL hsn₂ hT₂ hT₂ rfl clo₂ f₂ (by omega)
  · -- the line ends inside K: both passes see the same line
    rw [hu] at hS hS₂
    have h1 := split_unique cs a tail (NL :: u ++ (z ++ r.tail)) hcs hn htail (Or.inr ⟨_, rfl⟩) (by simpa using hS)
    have h2 := split_unique cs₂ a tail₂ (NL :: u ++ T₂) hcs₂ hn htail₂ (Or.inr ⟨_, rfl⟩) (by simpa using hS₂)
    obtain ⟨hcs_eq, htail_eq⟩ := h1
    obtain ⟨hcs₂_eq, htail₂_eq⟩ := h2
    have hcc : cs₂ = cs := by rw [hcs₂_eq, hcs_eq]
    rw [hcc] at hf₂ ⊢
    have hl := skipCooked_len c cs
    exact ih nB nP last clo _ [] _ _ r h hclosed hsn htail (skipCooked c cs ++ NL :: u) z L T₂ _ _
      (by rw [htail_eq]; simp) hz hL hsn htail₂ hT₂ (by rw [htail₂_eq]; simp) clo₂ f₂ (by omega)

theorem scan_cong : ∀ (f : Nat), CongAt f := by
  intro f
  induction f with
  | zero => intro nB nP last clo out pend rest tail r h; simp [scan] at h
  | succ f ih =>
    intro nB nP last clo out pend rest tail r h hclosed hrest htail K z L T₂ rest₂ tail₂ hS hz hL hrest₂ htail₂ hT₂ hS₂ clo₂ f₂ hf₂
    have hspec := scan_spec _ _ _ _ _ _ _ _ _ _ h
    have hrT : NlHead r.tail := hspec.nlHead htail
    have hzn : NL ∉ z := allWs_noNl hz
    cases f₂ with
    | zero => omega
    | succ f₂ =>
    cases K with
    | nil =>
      -- only blanks are left on the line
      simp only [List.nil_append] at hS hS₂
      have hu := split_unique rest z tail r.tail hrest hzn htail hrT hS
      obtain ⟨e1, e2⟩ := hu
      subst e1
      have hr := scan_ws' _ _ _ _ _ _ _ _ _ _ hz h
      have hu₂ := split_unique rest₂ [] tail₂ T₂ hrest₂ (by simp) htail₂ hT₂ (by simpa using hS₂)
      obtain ⟨e3, e4⟩ := hu₂
      subst e3
      refine ⟨⟨out, pend.reverse, tail₂, nB, nP, last, clo₂⟩, by simp [scan], ?_⟩
      rw [hr] at hL ⊢
      simp only at hL
      have : L = pend.reverse := (List.append_cancel_right hL).symm
      simp [SameUpTo, this, e4]
    | cons k K' =>
      cases rest with
      | nil =>
        exfalso
        simp only [scan, Option.some.injEq] at h
        have : r.tail = tail := by rw [← h]
        rw [this] at hS
        have := congrArg List.length hS
        simp at this
        omega
      | cons c cs =>
        simp only [List.cons_append, List.cons.injEq] at hS
        obtain ⟨hck, hS'⟩ := hS
        rw [← hck] at hS₂
        clear hck k
        have hc_nl : c ≠ NL := fun e => hrest (by simp [e])
        have hcs : NL ∉ cs := fun hm => hrest (by simp [hm])
        cases rest₂ with
        | nil =>
          exfalso
          simp only [List.nil_append, List.cons_append] at hS₂
          rw [hS₂] at htail₂
          exact hc_nl (nlHead_cons_ne htail₂)
        | cons c₂ cs₂ =>
          simp only [List.cons_append, List.cons.injEq] at hS₂
          obtain ⟨hc₂, hS₂'⟩ := hS₂
          rw [hc₂] at hrest₂ hf₂ ⊢
          clear hc₂ c₂
          have hcs₂ : NL ∉ cs₂ := fun hm => hrest₂ (by simp [hm])
          have hf₂' : cs₂.length + tail₂.length < f₂ := by simp only [List.length_cons] at hf₂; omega
          -- the next byte is the same in both passes as far as "/" and "*" are concerned
          have hheads : ∀ x, x ≠ NL → isWs x = false → (cs.head? = some x ↔ cs₂.head? = some x) := by
            intro x hx hxw
            cases K' with
            | nil =>
              simp only [List.nil_append] at hS' hS₂'
              have h1 := split_unique cs z tail r.tail hcs hzn htail hrT hS'
              have h2 := split_unique cs₂ [] tail₂ T₂ hcs₂ (by simp) htail₂ hT₂ (by simpa using hS₂')
              rw [h1.1, h2.1]
              constructor
              · intro hh
                exfalso
                cases z with
                | nil => simp at hh
                | cons z0 zs =>
                  simp only [List.head?_cons, Option.some.injEq] at hh
                  have := hz z0 (by simp)
                  rw [hh] at this
                  rw [this] at hxw
                  exact Bool.noConfusion hxw
              · intro hh; simp at hh
            | cons k' K'' =>
              cases cs with
              | nil =>
                simp only [List.nil_append, List.cons_append] at hS'
                rw [hS'] at htail
                have hk' := nlHead_cons_ne htail
                subst hk'
                cases cs₂ with
                | nil => simp
                | cons d₂ ds₂ =>
                  exfalso
                  simp only [List.cons_append, List.cons.injEq] at hS₂'
                  exact hcs₂ (by simp [hS₂'.1])
              | cons d ds =>
                simp only [List.cons_append, List.cons.injEq] at hS'
                cases cs₂ with
                | nil =>
                  exfalso
                  simp only [List.nil_append, List.cons_append] at hS₂'
                  rw [hS₂'] at htail₂
                  have := nlHead_cons_ne htail₂
                  exact hcs (by simp [hS'.1, this])
                | cons d₂ ds₂ =>
                  simp only [List.cons_append, List.cons.injEq] at hS₂'
                  simp [hS'.1, hS₂'.1]
          by_cases hsimple : isSimple c cs = true
          · -- a simple byte: both passes push it
            have hsimple₂ : isSimple c cs₂ = true := by
              unfold isSimple special2 at hsimple ⊢
              have e1 := hheads SLASH (by decide) (by decide)
              have e2 := hheads STAR (by decide) (by decide)
              have : (cs₂.head? == some SLASH || cs₂.head? == some STAR) = (cs.head? == some SLASH || cs.head? == some STAR) := by
                have b1 : (cs₂.head? == some SLASH) = (cs.head? == some SLASH) := by
                  rw [Bool.eq_iff_iff]; simp only [beq_iff_eq]; exact e1.symm
                have b2 : (cs₂.head? == some STAR) = (cs.head? == some STAR) := by
                  rw [Bool.eq_iff_iff]; simp only [beq_iff_eq]; exact e2.symm
                rw [b1, b2]
              rw [this]; exact hsimple
            rw [scan_simple _ _ _ _ _ _ _ _ _ _ hsimple] at h
            rw [scan_simple _ _ _ _ _ _ _ _ _ _ hsimple₂]
            exact ih _ _ _ _ _ _ _ _ _ h hclosed hcs htail K' z L T₂ cs₂ tail₂ hS' hz hL hcs₂ htail₂ hT₂ hS₂' clo₂ f₂ hf₂'
          · have hns : isSimple c cs = false := Bool.eq_false_iff.mpr hsimple
            rcases not_simple_cases c cs hns with hq | hb | ⟨hc, ds, hds⟩ | ⟨hc, ds, hds⟩
            · -- a cooked string
              rw [scan_cooked _ _ _ _ _ _ _ _ _ _ hq] at h
              rw [scan_cooked _ _ _ _ _ _ _ _ _ _ hq]
              exact cooked_cong f ih (fun x => out ++ (pend.reverse ++ c :: x)) c nB nP last clo cs tail r h hclosed
                hcs htail K' z L T₂ cs₂ tail₂ hS' hz hL hT₂ hrT hcs₂ htail₂ hS₂' clo₂ f₂ hf₂'
            · -- a raw string
              rw [hb] at h ⊢
              rw [scan_btick] at h
              rw [scan_btick]
              exact raw_cong f ih backTick (by decide) (fun x => out ++ (pend.reverse ++ BTICK :: x)) nB nP clo cs tail r h
                hclosed K' z L T₂ cs₂ tail₂ hS' hz hL hT₂ hrT hS₂' _ f₂ hf₂'
            · -- a slash-slash comment
              rw [hc, hds] at h
              rw [scan_slashslash] at h
              simp only [Option.some.injEq] at h
              have hrt : r.tail = tail := by rw [← h]
              have hrl : r.line = pend.reverse ++ SLASH :: SLASH :: ds := by rw [← h]
              rw [hrt] at hS'
              have hcsK : cs = K' ++ z := by
                have : cs ++ tail = (K' ++ z) ++ tail := by rw [hS']; simp
                exact List.append_cancel_right this
              have hK'n : NL ∉ K' := fun hm => hcs (by rw [hcsK]; simp [hm])
              have hu₂ := split_unique cs₂ K' tail₂ T₂ hcs₂ hK'n htail₂ hT₂ hS₂'
              have hhead : cs₂.head? = some SLASH := by
                apply (hheads SLASH (by decide) (by decide)).mp
                rw [hds]; rfl
              cases cs₂ with
              | nil => simp at hhead
              | cons d₂ ds₂ =>
                simp only [List.head?_cons, Option.some.injEq] at hhead
                rw [hc, hhead, scan_slashslash]
                refine ⟨_, rfl, ?_⟩
                have hLeq : L = pend.reverse ++ SLASH :: K' := by
                  rw [hrl, ← hds, hcsK] at hL
                  have : (pend.reverse ++ SLASH :: K') ++ z = L ++ z := by rw [← hL]; simp
                  exact (List.append_cancel_right this).symm
                rw [← h]
                simp only [SameUpTo, and_true, true_and]
                rw [hLeq, ← hu₂.1, hhead]
                exact ⟨rfl, hu₂.2⟩
            · -- a slash-star comment
              rw [hc, hds] at h
              rw [scan_slashstar] at h
              -- K' starts with the '*'
              cases K' with
              | nil =>
                exfalso
                simp only [List.nil_append] at hS'
                have := split_unique cs z tail r.tail hcs hzn htail hrT hS'
                have hw := hz STAR (by rw [← this.1, hds]; simp)
                exact absurd hw (by decide)
              | cons k' K'' =>
                rw [hds] at hS'
                simp only [List.cons_append, List.cons.injEq] at hS'
                obtain ⟨hk', hS''⟩ := hS'
                rw [← hk'] at hS₂'
                cases cs₂ with
                | nil =>
                  exfalso
                  simp only [List.nil_append, List.cons_append] at hS₂'
                  rw [hS₂'] at htail₂
                  exact absurd (nlHead_cons_ne htail₂) (by decide)
                | cons d₂ ds₂ =>
                  simp only [List.cons_append, List.cons.injEq] at hS₂'
                  obtain ⟨hd₂, hS₂''⟩ := hS₂'
                  rw [hc, hd₂, scan_slashstar]
                  have hf₂'' : ds₂.length + tail₂.length < f₂ := by simp only [List.length_cons] at hf₂'; omega
                  exact raw_cong f ih starSlash (by decide) (fun x => out ++ (pend.reverse ++ SLASH :: STAR :: x)) nB nP clo ds tail r h
                    hclosed K'' z L T₂ ds₂ tail₂ hS'' hz hL hT₂ hrT hS₂'' _ f₂ hf₂''

end WuffsVerif.Indent
