/-
C12, the C indenter: helper lemmas for idempotence (`format o (format o s) = format o s` for
lexically closed `s`): uniqueness of the line split, stability of `handleRaw` / `skipCooked`
under a changed continuation, and the congruence of the inner loop `scan`.  Core Lean only.
-/
import WuffsVerif.Proof.IndentWs

namespace WuffsVerif.Indent

/-! ### helper lemmas for idempotence -/

theorem nlHead_cons_ne {c : UInt8} {t : Bytes} (h : NlHead (c :: t)) : c = NL := by
  rcases h with h | ⟨u, hu⟩
  · simp at h
  · simp at hu; exact hu.1

/-- a text splits in only one way into a '\n'-free line and a rest that is empty or starts with '\n' -/
theorem split_unique : ∀ (A A' B B' : Bytes), NL ∉ A → NL ∉ A' → NlHead B → NlHead B' →
    A ++ B = A' ++ B' → A = A' ∧ B = B' := by
  intro A
  induction A with
  | nil =>
    intro A' B B' _ hA' hB hB' h
    cases A' with
    | nil => simpa using h
    | cons a as =>
      exfalso
      simp only [List.nil_append, List.cons_append] at h
      rw [h] at hB
      have := nlHead_cons_ne hB
      exact hA' (by simp [this])
  | cons a as ih =>
    intro A' B B' hA hA' hB hB' h
    cases A' with
    | nil =>
      exfalso
      simp only [List.nil_append, List.cons_append] at h
      rw [← h] at hB'
      have := nlHead_cons_ne hB'
      exact hA (by simp [this])
    | cons a' as' =>
      simp only [List.cons_append, List.cons.injEq] at h
      have := ih as' B B' (fun hm => hA (by simp [hm])) (fun hm => hA' (by simp [hm])) hB hB' h.2
      exact ⟨by rw [h.1, this.1], this.2⟩

theorem splitLine_of (A B : Bytes) (hA : NL ∉ A) (hB : NlHead B) : splitLine (A ++ B) = (A, B) := by
  have h1 := splitLine_eq (A ++ B)
  have := split_unique _ _ _ _ (splitLine_noNl (A ++ B)) hA (splitLine_nlHead (A ++ B)) hB h1
  exact Prod.ext this.1 this.2

theorem splitRaw_cons_pos (q : Bytes) (x : UInt8) (xs : Bytes) (h : q.isPrefixOf (x :: xs) = true) :
    splitRaw q (x :: xs) = (q, (x :: xs).drop q.length) := by
  rw [splitRaw]; simp only [h, ↓reduceIte]

theorem splitRaw_cons_neg (q : Bytes) (x : UInt8) (xs : Bytes) (h : q.isPrefixOf (x :: xs) = false) :
    splitRaw q (x :: xs) = (x :: (splitRaw q xs).1, (splitRaw q xs).2) := by
  rw [splitRaw]; simp only [h, Bool.false_eq_true, ↓reduceIte]

theorem splitRaw_found_len (q : Bytes) : ∀ (s : Bytes), rawFound q s = true →
    q.length ≤ (splitRaw q s).1.length := by
  intro s
  induction s with
  | nil => intro h; simp [rawFound] at h
  | cons x xs ih =>
    intro h
    by_cases hp : q.isPrefixOf (x :: xs) = true
    · rw [splitRaw_cons_pos q x xs hp]; exact Nat.le_refl _
    · have hp' : q.isPrefixOf (x :: xs) = false := Bool.eq_false_iff.mpr hp
      rw [splitRaw_cons_neg q x xs hp']
      have hf : rawFound q xs = true := by
        unfold rawFound at h
        simpa [hp'] using h
      have := ih hf
      simp only [List.length_cons]
      omega

/-- the copied part of a successful `handleRaw` search does not depend on what follows it -/
theorem splitRaw_stable (q : Bytes) (hq : q ≠ []) : ∀ (s b' : Bytes), rawFound q s = true →
    splitRaw q ((splitRaw q s).1 ++ b') = ((splitRaw q s).1, b') := by
  intro s
  induction s with
  | nil => intro b' h; simp [rawFound] at h
  | cons x xs ih =>
    intro b' h
    by_cases hp : q.isPrefixOf (x :: xs) = true
    · rw [splitRaw_cons_pos q x xs hp]
      cases q with
      | nil => exact absurd rfl hq
      | cons q0 qs =>
        have hp' : (q0 :: qs).isPrefixOf (q0 :: (qs ++ b')) = true := by
          rw [List.isPrefixOf_iff_prefix]
          exact List.prefix_append (q0 :: qs) b'
        simp only [List.cons_append]
        rw [splitRaw_cons_pos _ _ _ hp']
        simp
    · have hp' : q.isPrefixOf (x :: xs) = false := Bool.eq_false_iff.mpr hp
      rw [splitRaw_cons_neg q x xs hp']
      have hf : rawFound q xs = true := by
        unfold rawFound at h
        simpa [hp'] using h
      have ih' := ih b' hf
      have hlen := splitRaw_found_len q xs hf
      have hnp : q.isPrefixOf (x :: ((splitRaw q xs).1 ++ b')) = false := by
        cases hh : q.isPrefixOf (x :: ((splitRaw q xs).1 ++ b')) with
        | false => rfl
        | true =>
          exfalso
          have h1 : q <+: (x :: (splitRaw q xs).1) ++ b' := by
            have := List.isPrefixOf_iff_prefix.mp hh
            simpa using this
          have h2 : q <+: x :: (splitRaw q xs).1 :=
            List.prefix_of_prefix_length_le h1 (List.prefix_append _ _) (by simp only [List.length_cons]; omega)
          have h3 : q <+: x :: xs := by
            have e := splitRaw_eq q xs
            have : x :: xs = (x :: (splitRaw q xs).1) ++ (splitRaw q xs).2 := by simp [e]
            rw [this]
            exact List.IsPrefix.trans h2 (List.prefix_append _ _)
          exact hp (List.isPrefixOf_iff_prefix.mpr h3)
      simp only [List.cons_append]
      rw [splitRaw_cons_neg _ _ _ hnp, ih']

/-- an unsuccessful search copies everything -/
theorem splitRaw_not_found (q : Bytes) : ∀ (s : Bytes), rawFound q s = false → splitRaw q s = (s, []) := by
  intro s
  induction s with
  | nil => intro _; simp [splitRaw]
  | cons x xs ih =>
    intro h
    unfold rawFound at h
    simp only [Bool.or_eq_false_iff] at h
    rw [splitRaw_cons_neg q x xs h.1, ih h.2]

/-! ### skipCooked and a continuation -/

theorem skipCooked_len_lt (c : UInt8) (u : Bytes) (hu : u ≠ []) : (skipCooked c u).length < u.length := by
  obtain ⟨p, hp⟩ := skipCooked_suffix c u
  -- need p ≠ []
  suffices h : ∀ n (u : Bytes), u.length ≤ n → u ≠ [] → (skipCooked c u).length < u.length from h _ u (Nat.le_refl _) hu
  intro n
  induction n with
  | zero => intro u h hne; cases u with
    | nil => exact absurd rfl hne
    | cons _ _ => simp at h
  | succ n ih =>
    intro u h hne
    match u with
    | [] => exact absurd rfl hne
    | [x] => simp [skipCooked]
    | x :: y :: ys =>
      unfold skipCooked
      split
      · simp
      · split
        · have := ih (y :: ys) (by simp at h ⊢; omega) (by simp)
          simp only [List.length_cons] at this ⊢
          omega
        · have := skipCooked_len c ys
          simp only [List.length_cons]
          omega

/-- Lemma SKC: if what `skipCooked` leaves of `A ++ u` is at least as long as `u`, then the
closing quote was found inside `A`, and `u` is simply carried along. -/
theorem skipCooked_append (c : UInt8) (u : Bytes) : ∀ (n : Nat) (A : Bytes), A.length ≤ n →
    u.length ≤ (skipCooked c (A ++ u)).length → skipCooked c (A ++ u) = skipCooked c A ++ u := by
  intro n
  induction n with
  | zero =>
    intro A hA h
    have : A = [] := List.length_eq_zero_iff.mp (by omega)
    subst this
    simp only [List.nil_append] at h ⊢
    by_cases hu : u = []
    · subst hu; simp [skipCooked]
    · have := skipCooked_len_lt c u hu; omega
  | succ n ih =>
    intro A hA h
    match A with
    | [] =>
      simp only [List.nil_append] at h ⊢
      by_cases hu : u = []
      · subst hu; simp [skipCooked]
      · have := skipCooked_len_lt c u hu; omega
    | [x] =>
      cases u with
      | nil => simp
      | cons y us =>
        simp only [List.cons_append, List.nil_append] at h ⊢
        unfold skipCooked at h ⊢
        split at h
        · rename_i hx; simp [hx, skipCooked]
        · split at h
          · have := skipCooked_len_lt c (y :: us) (by simp)
            omega
          · have := skipCooked_len c us
            simp only [List.length_cons] at h
            omega
    | x :: y :: ys =>
      simp only [List.cons_append] at h ⊢
      rw [skipCooked] at h ⊢
      rw [skipCooked]
      split
      · simp
      · rename_i hx
        simp only [hx, Bool.false_eq_true, ↓reduceIte] at h
        split
        · rename_i hb
          simp only [hb, ↓reduceIte] at h
          have := ih (y :: ys) (by simp at hA ⊢; omega) (by simpa using h)
          simpa using this
        · rename_i hb
          simp only [hb, Bool.false_eq_true, ↓reduceIte] at h
          exact ih ys (by simp at hA ⊢; omega) h

/-! ### blanks at the end of a line -/

theorem lastNonWsRev_ws_append (z : Bytes) (hz : AllWs z) : ∀ (l : Bytes),
    lastNonWsRev (z.reverse ++ l) = lastNonWsRev l := by
  induction z with
  | nil => intro l; simp
  | cons c cs ih =>
    intro l
    have hc : isWs c = true := hz c (by simp)
    have ih' := ih (fun b hb => hz b (by simp [hb])) (c :: l)
    simp only [List.reverse_cons, List.append_assoc, List.cons_append, List.nil_append]
    rw [ih']
    simp [lastNonWsRev, hc]

theorem lastNonWs_append_ws (l z : Bytes) (hz : AllWs z) : lastNonWs (l ++ z) = lastNonWs l := by
  unfold lastNonWs
  rw [List.reverse_append]
  exact lastNonWsRev_ws_append z hz _

end WuffsVerif.Indent

namespace WuffsVerif.Indent

/-! ### single steps of `scan` -/

/-- the two-byte tokens "//" and "/*" -/
def special2 (c : UInt8) (cs : Bytes) : Bool :=
  c == SLASH && (cs.head? == some SLASH || cs.head? == some STAR)

/-- a byte on which `scan` only counts braces / parentheses and moves on -/
def isSimple (c : UInt8) (cs : Bytes) : Bool :=
  !special2 c cs && !(c == DQUOTE || c == SQUOTE) && !(c == BTICK)

def bumpB (c : UInt8) (nB : Int) : Int := if c == LBRACE then nB + 1 else if c == RBRACE then nB - 1 else nB
def bumpP (c : UInt8) (nP : Int) : Int :=
  if c == LBRACE then nP else if c == RBRACE then nP else if c == LPAREN then nP + 1 else if c == RPAREN then nP - 1 else nP

theorem scan_simple (f : Nat) (nB nP : Int) (last : UInt8) (clo : Bool) (out pend cs tail : Bytes) (c : UInt8)
    (h : isSimple c cs = true) :
    scan (f + 1) nB nP last clo out pend (c :: cs) tail =
      scan f (bumpB c nB) (bumpP c nP) last clo out (c :: pend) cs tail := by
  unfold isSimple special2 at h
  simp only [Bool.and_eq_true, Bool.not_eq_true', Bool.or_eq_false_iff, Bool.and_eq_false_iff] at h
  obtain ⟨⟨h1, h2, h3⟩, h4⟩ := h
  unfold bumpB bumpP
  conv => lhs; unfold scan
  by_cases e1 : c == LBRACE
  · simp only [e1, ↓reduceIte]
  by_cases e2 : c == RBRACE
  · simp only [e1, e2, Bool.false_eq_true, ↓reduceIte]
  by_cases e3 : c == LPAREN
  · simp only [e1, e2, e3, Bool.false_eq_true, ↓reduceIte]
  by_cases e4 : c == RPAREN
  · simp only [e1, e2, e3, e4, Bool.false_eq_true, ↓reduceIte]
  simp only [e1, e2, e3, e4, Bool.false_eq_true, ↓reduceIte, h2, h3, h4, Bool.or_self]
  by_cases e5 : c == SLASH
  · simp only [e5, ↓reduceIte]
    cases cs with
    | nil => rfl
    | cons d ds =>
      simp only
      rcases h1 with h1 | h1
      · simp [e5] at h1
      · simp only [List.head?_cons, beq_eq_false_iff_ne, ne_eq, Option.some.injEq] at h1
        have hd1 : (d == SLASH) = false := by simpa using h1.1
        have hd2 : (d == STAR) = false := by simpa using h1.2
        simp only [hd1, hd2, Bool.false_eq_true, ↓reduceIte]
  · simp only [e5, Bool.false_eq_true, ↓reduceIte]

theorem ws_tests (c : UInt8) (h : isWs c = true) :
    (c == LBRACE) = false ∧ (c == RBRACE) = false ∧ (c == LPAREN) = false ∧ (c == RPAREN) = false ∧
    (c == SLASH) = false ∧ (c == DQUOTE) = false ∧ (c == SQUOTE) = false ∧ (c == BTICK) = false ∧
    (c == NL) = false ∧ (c == STAR) = false := by
  have : c = SP ∨ c = TAB := by simpa [isWs] using h
  rcases this with rfl | rfl <;> decide

theorem ws_simple (c : UInt8) (cs : Bytes) (h : isWs c = true) :
    isSimple c cs = true ∧ (∀ n, bumpB c n = n) ∧ (∀ n, bumpP c n = n) := by
  obtain ⟨t1, t2, t3, t4, t5, t6, t7, t8, _, _⟩ := ws_tests c h
  refine ⟨?_, ?_, ?_⟩
  · simp [isSimple, special2, t5, t6, t7, t8]
  · intro n; simp [bumpB, t1, t2]
  · intro n; simp [bumpP, t1, t2, t3, t4]

/-- over blanks `scan` just moves on -/
theorem scan_ws : ∀ (rest : Bytes) (f : Nat) (nB nP : Int) (last : UInt8) (clo : Bool) (out pend tail : Bytes),
    AllWs rest → rest.length < f →
    scan f nB nP last clo out pend rest tail = some ⟨out, pend.reverse ++ rest, tail, nB, nP, last, clo⟩ := by
  intro rest
  induction rest with
  | nil =>
    intro f nB nP last clo out pend tail _ hf
    cases f with
    | zero => omega
    | succ f => simp [scan]
  | cons c cs ih =>
    intro f nB nP last clo out pend tail hw hf
    cases f with
    | zero => omega
    | succ f =>
      obtain ⟨h1, h2, h3⟩ := ws_simple c cs (hw c (by simp))
      rw [scan_simple f nB nP last clo out pend cs tail c h1, h2, h3]
      rw [ih f nB nP last clo out (c :: pend) tail (fun b hb => hw b (by simp [hb])) (by simp at hf; omega)]
      simp

theorem scan_out_prefix : ∀ (f : Nat) (nB nP : Int) (last : UInt8) (clo : Bool) (out pend rest tail : Bytes) (r : ScanOut),
    scan f nB nP last clo out pend rest tail = some r → ∃ E, r.out = out ++ E := by
  intro f
  induction f with
  | zero => intro nB nP last clo out pend rest tail r h; simp [scan] at h
  | succ f ih =>
    intro nB nP last clo out pend rest tail r h
    cases rest with
    | nil =>
      simp only [scan, Option.some.injEq] at h
      subst h
      exact ⟨[], by simp⟩
    | cons c cs =>
      by_cases hs : isSimple c cs = true
      · rw [scan_simple _ _ _ _ _ _ _ _ _ _ hs] at h
        exact ih _ _ _ _ _ _ _ _ _ h
      · unfold scan at h
        split at h
        · exact ih _ _ _ _ _ _ _ _ _ h
        split at h
        · exact ih _ _ _ _ _ _ _ _ _ h
        split at h
        · exact ih _ _ _ _ _ _ _ _ _ h
        split at h
        · exact ih _ _ _ _ _ _ _ _ _ h
        split at h
        · split at h
          · exact ih _ _ _ _ _ _ _ _ _ h
          · split at h
            · simp only [Option.some.injEq] at h
              subst h
              exact ⟨[], by simp⟩
            split at h
            · obtain ⟨E, hE⟩ := ih _ _ _ _ _ _ _ _ _ h
              exact ⟨_, by rw [hE, List.append_assoc]⟩
            · exact ih _ _ _ _ _ _ _ _ _ h
        split at h
        · obtain ⟨E, hE⟩ := ih _ _ _ _ _ _ _ _ _ h
          exact ⟨_, by rw [hE, List.append_assoc]⟩
        split at h
        · obtain ⟨E, hE⟩ := ih _ _ _ _ _ _ _ _ _ h
          exact ⟨_, by rw [hE, List.append_assoc]⟩
        · exact ih _ _ _ _ _ _ _ _ _ h

/-- the ghost flag only ever goes from true to false -/
theorem scan_closed_mono : ∀ (f : Nat) (nB nP : Int) (last : UInt8) (clo : Bool) (out pend rest tail : Bytes) (r : ScanOut),
    scan f nB nP last clo out pend rest tail = some r → r.closed = true → clo = true := by
  intro f
  induction f with
  | zero => intro nB nP last clo out pend rest tail r h; simp [scan] at h
  | succ f ih =>
    intro nB nP last clo out pend rest tail r h hc
    cases rest with
    | nil =>
      simp only [scan, Option.some.injEq] at h
      subst h
      exact hc
    | cons c cs =>
      unfold scan at h
      split at h
      · exact ih _ _ _ _ _ _ _ _ _ h hc
      split at h
      · exact ih _ _ _ _ _ _ _ _ _ h hc
      split at h
      · exact ih _ _ _ _ _ _ _ _ _ h hc
      split at h
      · exact ih _ _ _ _ _ _ _ _ _ h hc
      split at h
      · split at h
        · exact ih _ _ _ _ _ _ _ _ _ h hc
        · split at h
          · simp only [Option.some.injEq] at h
            subst h
            exact hc
          split at h
          · have := ih _ _ _ _ _ _ _ _ _ h hc
            simp only [Bool.and_eq_true] at this
            exact this.1
          · exact ih _ _ _ _ _ _ _ _ _ h hc
      split at h
      · exact ih _ _ _ _ _ _ _ _ _ h hc
      split at h
      · have := ih _ _ _ _ _ _ _ _ _ h hc
        simp only [Bool.and_eq_true] at this
        exact this.1
      · exact ih _ _ _ _ _ _ _ _ _ h hc

end WuffsVerif.Indent
