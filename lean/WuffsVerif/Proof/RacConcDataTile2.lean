/-
C14 helper: the steps of the data-level model preserve the tiling invariant `TInv`
(Proof/RacConcDataTile.lean) while the region of interest stays active.
Part 1: `main`'s steps and the steps that only move an item.
-/
import WuffsVerif.Proof.RacConcDataTile

set_option linter.unusedVariables false
set_option linter.unusedSimpArgs false

namespace WuffsVerif.Rac.ConcD
open WuffsVerif.Rac WuffsVerif.Rac.Conc

/-- `TInv` only looks at the pipeline and at where `main` will read next -/
theorem tinv_congr {F : File} {s s' : DSt} (h1 : s'.completed = s.completed) (h2 : s'.resc = s.resc)
    (h3 : s'.ws = s.ws) (h45 : nextPos s' = nextPos s) (h6 : s'.reqc = s.reqc) (h7 : s'.mgr = s.mgr)
    (hT : TInv F s) : TInv F s' := by
  have e1 : ∀ x, occ s' x = occ s x := by intro x; simp only [occ, h1, h2, h3]
  have e3 : mchain s' = mchain s := by simp only [mchain, h6, h7]
  have e4 : qOf s' = qOf s := by simp only [qOf, e3, h7]
  exact ⟨fun x => by rw [e1, h45, e4]; exact hT.occ x, by rw [e4, e3, h7]; exact hT.chain,
    by rw [h45, e4]; exact hT.le, by rw [h3, h1, h2]; exact hT.own, by rw [h7]; exact hT.roi,
    by rw [h7]; exact hT.cur⟩

/-- the fields of `seekD`'s result -/
theorem seekD_fields (F : File) (s : DSt) (off wh limit : Int) :
    (seekD F s off wh limit).1.completed = s.completed ∧ (seekD F s off wh limit).1.resc = s.resc ∧
    (seekD F s off wh limit).1.ws = s.ws ∧ (seekD F s off wh limit).1.curr = s.curr ∧
    (seekD F s off wh limit).1.reqc = s.reqc ∧ (seekD F s off wh limit).1.mgr = s.mgr ∧
    (seekD F s off wh limit).1.main = s.main ∧
    ((seekD F s off wh limit).1.seekResolved = true → s.seekResolved = true ∧ (seekD F s off wh limit).1.pos = s.pos) := by
  unfold seekD
  split
  · exact ⟨rfl, rfl, rfl, rfl, rfl, rfl, rfl, fun h => ⟨h, rfl⟩⟩
  · next p ht =>
    split
    · exact ⟨rfl, rfl, rfl, rfl, rfl, rfl, rfl, fun h => ⟨h, rfl⟩⟩
    · next hnn =>
      simp only
      generalize (if limit > (F.size : Int) then (F.size : Int) else limit).toNat = L
      by_cases h1 : p ≠ (s.pos : Int)
      · rw [if_pos h1]
        simp only
        by_cases h2 : s.lim ≠ L
        · rw [if_pos h2]
          exact ⟨rfl, rfl, rfl, rfl, rfl, rfl, rfl, fun h => by cases h⟩
        · rw [if_neg h2]
          exact ⟨rfl, rfl, rfl, rfl, rfl, rfl, rfl, fun h => by cases h⟩
      · rw [if_neg h1]
        by_cases h2 : s.lim ≠ L
        · rw [if_pos h2]
          exact ⟨rfl, rfl, rfl, rfl, rfl, rfl, rfl, fun h => by cases h⟩
        · rw [if_neg h2]
          exact ⟨rfl, rfl, rfl, rfl, rfl, rfl, rfl, fun h => ⟨h, rfl⟩⟩

/-- an API call does not touch the pipeline; if the region stays active, the position is unchanged -/
theorem callD_fields {F : File} {s s' : DSt} (op : Op) (h : callD F s op = some s') :
    s'.completed = s.completed ∧ s'.resc = s.resc ∧ s'.ws = s.ws ∧ s'.curr = s.curr ∧ s'.reqc = s.reqc ∧
    s'.mgr = s.mgr ∧ (Active s' → Active s ∧ s'.pos = s.pos) := by
  unfold callD at h
  split at h
  · next hm =>
    cases op with
    | read n =>
      simp only at h
      split at h
      · cases h; exact ⟨rfl, rfl, rfl, rfl, rfl, rfl, fun ha => ⟨ha, rfl⟩⟩
      · split at h
        · cases h; exact ⟨rfl, rfl, rfl, rfl, rfl, rfl, fun ha => ⟨ha, rfl⟩⟩
        · next hnc =>
          have hidle : s.main = .idle := by rcases hm with h | h; exact h; exact absurd h hnc
          split at h
          · cases h; exact ⟨rfl, rfl, rfl, rfl, rfl, rfl, fun ha => ⟨ha, rfl⟩⟩
          · split at h
            · next hsr =>
              split at h
              · cases h; exact ⟨rfl, rfl, rfl, rfl, rfl, rfl, fun ha => ⟨⟨hsr, Or.inl hidle⟩, rfl⟩⟩
              · cases h; exact ⟨rfl, rfl, rfl, rfl, rfl, rfl, fun ha => ⟨⟨hsr, Or.inl hidle⟩, rfl⟩⟩
            · split at h
              · cases h
                exact ⟨rfl, rfl, rfl, rfl, rfl, rfl, fun ha => by rcases ha.2 with h | h <;> cases h⟩
              · cases h
                exact ⟨rfl, rfl, rfl, rfl, rfl, rfl, fun ha => by rcases ha.2 with h | h <;> cases h⟩
    | seek off wh =>
      simp only at h
      split at h
      · cases h; exact ⟨rfl, rfl, rfl, rfl, rfl, rfl, fun ha => ⟨ha, rfl⟩⟩
      · split at h
        · cases h; exact ⟨rfl, rfl, rfl, rfl, rfl, rfl, fun ha => ⟨ha, rfl⟩⟩
        · cases h
          obtain ⟨a1, a2, a3, a4, a5, a6, a7, a8⟩ := seekD_fields F s off wh maxInt64
          refine ⟨a1, a2, a3, a4, a5, a6, fun ha => ?_⟩
          obtain ⟨b1, b2⟩ := a8 ha.1
          exact ⟨⟨b1, by have := ha.2; simp only [DSt.ret] at this; rw [a7] at this; exact this⟩, b2⟩
    | seekRange lo hi =>
      simp only at h
      split at h
      · cases h; exact ⟨rfl, rfl, rfl, rfl, rfl, rfl, fun ha => ⟨ha, rfl⟩⟩
      · split at h
        · cases h; exact ⟨rfl, rfl, rfl, rfl, rfl, rfl, fun ha => ⟨ha, rfl⟩⟩
        · split at h
          · cases h; exact ⟨rfl, rfl, rfl, rfl, rfl, rfl, fun ha => ⟨ha, rfl⟩⟩
          · cases h
            obtain ⟨a1, a2, a3, a4, a5, a6, a7, a8⟩ := seekD_fields F s lo 0 hi
            refine ⟨a1, a2, a3, a4, a5, a6, fun ha => ?_⟩
            obtain ⟨b1, b2⟩ := a8 ha.1
            exact ⟨⟨b1, by have := ha.2; simp only [DSt.ret] at this; rw [a7] at this; exact this⟩, b2⟩
    | close =>
      simp only at h
      split at h
      · cases h; exact ⟨rfl, rfl, rfl, rfl, rfl, rfl, fun ha => ⟨ha, rfl⟩⟩
      · split at h
        · cases h; exact ⟨rfl, rfl, rfl, rfl, rfl, rfl, fun ha => ⟨ha, rfl⟩⟩
        · cases h
          exact ⟨rfl, rfl, rfl, rfl, rfl, rfl, fun ha => by rcases ha.2 with h | h <;> cases h⟩
  · cases h

theorem nextPos_congr {s s' : DSt} (h4 : s'.curr = s.curr) (h5 : s'.pos = s.pos) : nextPos s' = nextPos s := by
  simp only [nextPos, h4, h5]

theorem tinv_call {F : File} {s s' : DSt} (op : Op) (hT : Active s → TInv F s)
    (h : stepD F s (.call op) = some s') (ha : Active s') : TInv F s' := by
  unfold stepD at h
  split at h
  · cases h
  · obtain ⟨a1, a2, a3, a4, a5, a6, a7⟩ := callD_fields op h
    obtain ⟨b1, b2⟩ := a7 ha
    exact tinv_congr a1 a2 a3 (nextPos_congr a4 b2) a5 a6 (hT b1)

theorem tinv_readDone {F : File} {s s' : DSt} (hI : DInv F s) (hT : Active s → TInv F s)
    (h : stepD F s .readDone = some s') : TInv F s' := by
  simp only [stepD, hI.nofault, Bool.false_eq_true, ↓reduceIte] at h
  split at h
  · next hg =>
    have hp := hI.pend
    simp only [PendInv, hg.1] at hp
    have hact : Active s := ⟨hp.2.2.1, Or.inr hg.1⟩
    split at h
    · cases h
      exact tinv_congr (s := s) rfl rfl rfl rfl rfl rfl (hT hact)
    · cases h
      exact tinv_congr (s := s) rfl rfl rfl rfl rfl rfl (hT hact)
  · cases h

theorem tinv_copy {F : File} {s s' : DSt} (hI : DInv F s) (hT : Active s → TInv F s)
    (h : stepD F s .copy = some s') : TInv F s' := by
  simp only [stepD, hI.nofault, Bool.false_eq_true, ↓reduceIte] at h
  split at h
  · next it hc =>
    split at h
    · next hg =>
      have hp := hI.pend
      simp only [PendInv, hg.1] at hp
      have hact : Active s := ⟨hp.2.2.1, Or.inr hg.1⟩
      cases h
      exact tinv_congr (s := s) rfl rfl rfl (by simp only [nextPos, hc]) rfl rfl (hT hact)
    · cases h
  · cases h

/-- `own` under a change of one Worker that keeps its ranges -/
theorem own_set {s : DSt} {i : Nat} {w w' : DW} (hi : s.ws[i]? = some w)
    (comp resc : List DItem)
    (hown : ∀ (j : Nat) (v : DW), s.ws[j]? = some v → v.w.dr ≠ none →
      (∀ it, (it ∈ comp ∨ it ∈ resc) → it.it.owner = some j → it.hi ≤ v.dlo) ∧ (v.w.out ≠ none → v.ohi ≤ v.dlo))
    (h' : w'.w.dr ≠ none →
      (∀ it, (it ∈ comp ∨ it ∈ resc) → it.it.owner = some i → it.hi ≤ w'.dlo) ∧ (w'.w.out ≠ none → w'.ohi ≤ w'.dlo)) :
    ∀ (j : Nat) (v : DW), (s.ws.set i w')[j]? = some v → v.w.dr ≠ none →
      (∀ it, (it ∈ comp ∨ it ∈ resc) → it.it.owner = some j → it.hi ≤ v.dlo) ∧ (v.w.out ≠ none → v.ohi ≤ v.dlo) :=
  forall_setD (P := fun j v => v.w.dr ≠ none →
      (∀ it, (it ∈ comp ∨ it ∈ resc) → it.it.owner = some j → it.hi ≤ v.dlo) ∧ (v.w.out ≠ none → v.ohi ≤ v.dlo))
    hown h'

/-- rebuild `TInv` for a state whose occupancy, next position and Manager side are those of `s` -/
theorem tinv_mk {F : File} {s s' : DSt} (hT : TInv F s) (e1 : ∀ x, occ s' x = occ s x)
    (e2 : nextPos s' = nextPos s) (e3 : mchain s' = mchain s)
    (e7 : s'.mgr.rhi = s.mgr.rhi ∧ s'.mgr.m.roi = s.mgr.m.roi ∧ s'.mgr.rlo = s.mgr.rlo ∧ s'.mgr.cur = s.mgr.cur)
    (hown : ∀ (i : Nat) (w : DW), s'.ws[i]? = some w → w.w.dr ≠ none →
      (∀ it, (it ∈ s'.completed ∨ it ∈ s'.resc) → it.it.owner = some i → it.hi ≤ w.dlo) ∧
      (w.w.out ≠ none → w.ohi ≤ w.dlo)) : TInv F s' := by
  obtain ⟨e7a, e7b, e7c, e7d⟩ := e7
  have e4 : qOf s' = qOf s := by simp only [qOf, e3, e7a]
  exact ⟨fun x => by rw [e1, e2, e4]; exact hT.occ x, by rw [e4, e3, e7a]; exact hT.chain,
    by rw [e2, e4]; exact hT.le, hown, by rw [e7b]; exact hT.roi, by rw [e7c, e7d]; exact hT.cur⟩

theorem tinv_wRecycle {F : File} {s s' : DSt} (i : Nat) (hI : DInv F s) (hT : Active s → TInv F s)
    (h : stepD F s (.wRecycle i) = some s') (ha : Active s') : TInv F s' := by
  simp only [stepD, hI.nofault, Bool.false_eq_true, ↓reduceIte] at h
  split at h
  · next w hi =>
    split at h
    · cases h
      have hT := hT ha
      refine tinv_mk hT (fun x => ?_) rfl rfl ⟨rfl, rfl, rfl, rfl⟩ (own_set hi _ _ hT.own (hT.own i w hi))
      simp only [occ]
      rw [occWs_set_same x hi (by simp only [occW])]
    · cases h
  · cases h

theorem tinv_recycleCurr {F : File} (hok : F.ok) {s s' : DSt} (hI : DInv F s) (hT : Active s → TInv F s)
    (h : stepD F s .recycleCurr = some s') (ha : Active s') : TInv F s' := by
  simp only [stepD, hI.nofault, Bool.false_eq_true, ↓reduceIte] at h
  split at h
  · next it hc =>
    split at h
    · next i ho =>
      split at h
      · next w hi =>
        split at h
        · next hg =>
          cases h
          have hact : Active s := ha
          have hT := hT hact
          obtain ⟨hrl, hcur⟩ := hI.live hact.1 hact.2
          obtain ⟨hpos, hci⟩ := hcur it hc
          have hgi := hI.curr it hc
          have hlen : it.data.length = it.hi - it.lo := by
            rw [hgi.data]; exact slice_length hok.1 (Nat.le_trans hgi.le hI.rhi)
          have hnp : s.pos = nextPos s := by
            simp only [nextPos, hc]
            have := hgi.ne
            omega
          refine tinv_mk hT (fun x => ?_) hnp rfl ⟨rfl, rfl, rfl, rfl⟩ (own_set hi _ _ hT.own (hT.own i w hi))
          simp only [occ]
          rw [occWs_set_same x hi (by simp only [occW])]
        · cases h
      · cases h
    · cases h
  · cases h

theorem tinv_recvRes {F : File} {s s' : DSt} (hI : DInv F s) (hT : Active s → TInv F s)
    (h : stepD F s .recvRes = some s') (ha : Active s') : TInv F s' := by
  simp only [stepD, hI.nofault, Bool.false_eq_true, ↓reduceIte] at h
  split at h
  · next it rest hq =>
    split at h
    · next hg =>
      split at h
      · cases h
        have hT := hT ha
        refine tinv_mk hT (fun x => ?_) rfl rfl ⟨rfl, rfl, rfl, rfl⟩ ?_
        · simp only [occ, hq, occItems]
          omega
        · intro j v hj hdr
          obtain ⟨o1, o2⟩ := hT.own j v hj hdr
          refine ⟨fun x hx ho => o1 x ?_ ho, o2⟩
          rcases hx with hx | hx
          · rcases List.mem_cons.mp hx with hx | hx
            · right; rw [hq, hx]; simp
            · left; exact hx
          · right; rw [hq]; exact List.mem_cons_of_mem _ hx
      · cases h
        exact tinv_congr (s := s) rfl rfl rfl rfl rfl rfl (hT ha)
    · cases h
  · cases h

/-- an item of `completedWorks` or `resc` lies below the dispatch frontier -/
theorem item_below_q {F : File} {s : DSt} (hI : DInv F s) (hT : TInv F s) (it : DItem)
    (hm : it ∈ s.completed ∨ it ∈ s.resc) : nextPos s ≤ it.lo ∧ it.hi ≤ qOf s := by
  have hne : it.lo < it.hi := by
    rcases hm with hm | hm
    · exact (hI.comp it hm).ne
    · exact (hI.resc it hm).ne
  have hle : ∀ x, ind it.lo it.hi x ≤ occ s x := by
    intro x
    simp only [occ]
    rcases hm with hm | hm
    · have := occItems_mem_le x _ it hm; omega
    · have := occItems_mem_le x _ it hm; omega
  have h1 := hle it.lo
  have h2 := hle (it.hi - 1)
  rw [hT.occ] at h1 h2
  have a1 := ind_spec it.lo it.hi it.lo
  have a2 := ind_spec it.lo it.hi (it.hi - 1)
  have a3 := ind_spec (nextPos s) (qOf s) it.lo
  have a4 := ind_spec (nextPos s) (qOf s) (it.hi - 1)
  omega

theorem tinv_take {F : File} {s s' : DSt} (j : Nat) (hI : DInv F s) (hT : Active s → TInv F s)
    (h : stepD F s (.take j) = some s') (ha : Active s') : TInv F s' := by
  simp only [stepD, hI.nofault, Bool.false_eq_true, ↓reduceIte] at h
  split at h
  · next it hj =>
    split at h
    · next hg =>
      cases h
      have hT := hT ha
      have hmem : it ∈ s.completed := List.mem_of_getElem? hj
      have hb := item_below_q hI hT it (Or.inl hmem)
      have hne := (hI.comp it hmem).ne
      have hnp : nextPos s = it.lo := by simp only [nextPos, hg.2.2.1, hg.2.2.2]
      have hq : qOf { s with completed := s.completed.eraseIdx j, curr := some it, ci := 0 } = qOf s := rfl
      refine ⟨fun x => ?_, hT.chain, by show it.hi ≤ qOf s; exact hb.2, ?_, hT.roi, hT.cur⟩
      · have h0 := hT.occ x
        have h1 := occItems_eraseIdx x s.completed j it hj
        show occItems (s.completed.eraseIdx j) x + occItems s.resc x + occWs s.ws x = ind it.hi (qOf s) x
        simp only [occ] at h0
        rw [hnp] at h0
        have a1 := ind_spec it.lo it.hi x
        have a2 := ind_spec it.lo (qOf s) x
        have a3 := ind_spec it.hi (qOf s) x
        omega
      · intro i v hi hdr
        obtain ⟨o1, o2⟩ := hT.own i v hi hdr
        refine ⟨fun x hx ho => o1 x ?_ ho, o2⟩
        rcases hx with hx | hx
        · left; exact List.mem_of_mem_eraseIdx hx
        · right; exact hx
    · cases h
  · cases h

end WuffsVerif.Rac.ConcD
