/-
C14 helper: the data-level model of the concurrent reader (Model/Rac/ConcData.lean) never
deadlocks.  Part 2: in every state that satisfies the invariants some step is enabled —
in particular a Read that waits in `nextWork` is never stuck: the unit of work it waits for
is in `completedWorks`, or in `resc`, or some Worker or the Manager can move towards it.
-/
import WuffsVerif.Proof.RacConcDataLive
import WuffsVerif.Props.C14Conc

set_option linter.unusedVariables false
set_option linter.unusedSimpArgs false

namespace WuffsVerif.Rac.ConcD
open WuffsVerif.Rac WuffsVerif.Rac.Conc

theorem lt_of_get {α : Type} {l : List α} {i : Nat} {a : α} (h : l[i]? = some a) : i < l.length := by
  by_cases hlt : i < l.length
  · exact hlt
  · rw [List.getElem?_eq_none (by omega)] at h; cases h

theorem abs_ws_get' {s : DSt} {i : Nat} {w : W} (h : (abs s).ws[i]? = some w) :
    ∃ dw, s.ws[i]? = some dw ∧ dw.w = w := by
  simp only [abs, List.getElem?_map] at h
  cases hd : s.ws[i]? with
  | none => rw [hd] at h; cases h
  | some dw => rw [hd] at h; simp only [Option.map_some, Option.some.injEq] at h; exact ⟨dw, rfl, h⟩

theorem abs_ws_length (s : DSt) : (abs s).ws.length = s.ws.length := by simp [abs]

/-- between calls: the next API call can begin -/
theorem live_idle {F : File} {s : DSt} (hnf : s.fault = false) (hm : s.main = .idle ∨ s.main = .closed) :
    ∃ l s', stepD F s l = some s' := by
  refine ⟨.call (.read 0), ?_⟩
  simp only [stepD, hnf, Bool.false_eq_true, ↓reduceIte, callD, hm]
  split
  · exact ⟨_, rfl⟩
  · split
    · exact ⟨_, rfl⟩
    · split
      · exact ⟨_, rfl⟩
      · split
        · split <;> exact ⟨_, rfl⟩
        · split <;> exact ⟨_, rfl⟩

/-- inside `stopAnyWorkInProgress`, sending stops -/
theorem live_stopping {F : File} {s : DSt} (hnf : s.fault = false) (hC : CInv (abs s)) (k : Nat) (keep : Bool)
    (hm : s.main = .stopping k keep) : ∃ l s', stepD F s l = some s' := by
  have ph := hC.phase
  have hmA : (abs s).main = .stopping k keep := hm
  simp only [PhaseInv, hmA, abs_ws_length] at ph
  obtain ⟨p1, p2, p3, p4, p5⟩ := ph
  by_cases hk : k = s.ws.length + 1
  · refine ⟨.recycle, ?_⟩
    simp only [stepD, hnf, Bool.false_eq_true, ↓reduceIte, hm, hk]
    cases keep
    · exact ⟨_, rfl⟩
    · exact ⟨_, rfl⟩
  · have hklt : k < s.ws.length + 1 := by omega
    rcases p4 with hrun | hst
    · have hrun' : s.mgr.m.pc = .run := hrun
      refine ⟨.stopMgr, ?_⟩
      simp only [stepD, hnf, Bool.false_eq_true, ↓reduceIte, hm, hklt, hrun', and_self]
      exact ⟨_, rfl⟩
    · have : (abs s).ws.countP (fun w => w.pc.isStopped) < (abs s).ws.length := by
        simp only [stoppedCount, hst, isStopped_stopped, ↓reduceIte] at p2
        rw [abs_ws_length]
        omega
      obtain ⟨i, w, hi, hns⟩ := Props.C14.exists_not_stopped _ this
      have hrun : w.pc = .run := by
        rcases p5 i w hi with h | h
        · exact h
        · rw [h, isStopped_stopped] at hns; cases hns
      obtain ⟨dw, hd, hdw⟩ := abs_ws_get' hi
      refine ⟨.stopW i, ?_⟩
      simp only [stepD, hnf, Bool.false_eq_true, ↓reduceIte, hm, hd, hklt, hdw, hrun, and_self]
      exact ⟨_, rfl⟩

/-- inside `stopAnyWorkInProgress`, sending acks -/
theorem live_acking {F : File} {s : DSt} (hnf : s.fault = false) (hC : CInv (abs s)) (k : Nat) (keep : Bool)
    (hm : s.main = .acking k keep) : ∃ l s', stepD F s l = some s' := by
  have ph := hC.phase
  have hmA : (abs s).main = .acking k keep := hm
  simp only [PhaseInv, hmA, abs_ws_length] at ph
  obtain ⟨p1, p2, p3, p4⟩ := ph
  by_cases hk : k = s.ws.length + 1
  · refine ⟨.ackDone, ?_⟩
    simp only [stepD, hnf, Bool.false_eq_true, ↓reduceIte, hm, hk]
    cases keep
    · simp only [Bool.false_eq_true, ↓reduceIte]
      split <;> exact ⟨_, rfl⟩
    · exact ⟨_, rfl⟩
  · have hklt : k < s.ws.length + 1 := by omega
    cases hmp : s.mgr.m.pc with
    | stopped kp =>
      refine ⟨.ackMgr, ?_⟩
      simp only [stepD, hnf, Bool.false_eq_true, ↓reduceIte, hm, hmp, hklt]
      exact ⟨_, rfl⟩
    | run =>
      have hmp' : (abs s).mgr.pc = .run := hmp
      have : 0 < (abs s).ws.countP (fun w => w.pc.isStopped) := by
        simp only [stoppedCount, hmp', isStopped_run, Bool.false_eq_true, ↓reduceIte] at p2
        omega
      obtain ⟨i, w, hi, hst⟩ := Props.C14.exists_stopped this
      obtain ⟨dw, hd, hdw⟩ := abs_ws_get' hi
      cases hwp : w.pc with
      | stopped kp =>
        refine ⟨.ackW i, ?_⟩
        simp only [stepD, hnf, Bool.false_eq_true, ↓reduceIte, hm, hd, hdw, hwp, hklt]
        exact ⟨_, rfl⟩
      | run => rw [hwp, isStopped_run] at hst; cases hst
      | done => rw [hwp, isStopped_done] at hst; cases hst
    | done =>
      have hmp' : (abs s).mgr.pc = .done := hmp
      have : 0 < (abs s).ws.countP (fun w => w.pc.isStopped) := by
        simp only [stoppedCount, hmp', isStopped_done, Bool.false_eq_true, ↓reduceIte] at p2
        omega
      obtain ⟨i, w, hi, hst⟩ := Props.C14.exists_stopped this
      obtain ⟨dw, hd, hdw⟩ := abs_ws_get' hi
      cases hwp : w.pc with
      | stopped kp =>
        refine ⟨.ackW i, ?_⟩
        simp only [stepD, hnf, Bool.false_eq_true, ↓reduceIte, hm, hd, hdw, hwp, hklt]
        exact ⟨_, rfl⟩
      | run => rw [hwp, isStopped_run] at hst; cases hst
      | done => rw [hwp, isStopped_done] at hst; cases hst

/-- handing the new region of interest to the Manager -/
theorem live_sendRoi {F : File} {s : DSt} (hnf : s.fault = false) (hC : CInv (abs s))
    (hm : s.main = .sendRoi) : ∃ l s', stepD F s l = some s' := by
  have ph := hC.phase
  have hmA : (abs s).main = .sendRoi := hm
  simp only [PhaseInv, hmA] at ph
  obtain ⟨p1, p2, p3, p4⟩ := ph
  have h1 : s.mgr.m.pc = .run := p1
  have h2 : s.mgr.m.inputOn = true := p3.1.1
  refine ⟨.roi, ?_⟩
  simp only [stepD, hnf, Bool.false_eq_true, ↓reduceIte, hm, h1, h2, and_self]
  exact ⟨_, rfl⟩

theorem countOwner_pos {i : Nat} {l : List DItem} (h : 0 < countOwner i (l.map (·.it))) :
    ∃ c ∈ l, c.it.owner = some i := by
  simp only [countOwner] at h
  rw [List.countP_pos_iff] at h
  obtain ⟨a, ha, hp⟩ := h
  obtain ⟨c, hc, hca⟩ := List.mem_map.mp ha
  refine ⟨c, hc, ?_⟩
  rw [← hca] at hp
  simpa using hp

/-- a Read in progress is never stuck -/
theorem live_reading {F : File} (hok : F.ok) {n : Nat} (hn : 0 < n) {s : DSt} (hA : AllInv F s) (hS : SInv n s)
    (hm : s.main = .reading) : ∃ l s', stepD F s l = some s' := by
  have hnf := hA.d.nofault
  have hp := hA.d.pend
  simp only [PendInv, hm] at hp
  obtain ⟨⟨m, hpn⟩, herr, hsr, hcl⟩ := hp
  have hact : Active s := ⟨hsr, Or.inr hm⟩
  have hT := hA.t hact
  have hph := hA.c.phase
  have hmA : (abs s).main = .reading := hm
  simp only [PhaseInv, hmA] at hph
  have hmrun : s.mgr.m.pc = .run := hph.1
  have hwrun : ∀ (i : Nat) (w : DW), s.ws[i]? = some w → w.w.pc = .run :=
    fun i w hi => hph.2 i w.w (abs_ws_get hi)
  by_cases hover : s.readOver
  · refine ⟨.readDone, ?_⟩
    simp only [stepD, hnf, Bool.false_eq_true, ↓reduceIte, hm, hover, and_self, hpn]
    exact ⟨_, rfl⟩
  · cases hc : s.curr with
    | some c =>
      by_cases hci : s.ci < c.data.length
      · refine ⟨.copy, ?_⟩
        simp only [stepD, hnf, Bool.false_eq_true, ↓reduceIte, hc, hm, hover, not_false_eq_true, hci, and_self]
        exact ⟨_, rfl⟩
      · obtain ⟨i, ho, hlt⟩ := hS.own c (Or.inr (Or.inr hc))
        have hi : s.ws[i]? = some s.ws[i] := List.getElem?_eq_getElem hlt
        have hb := hA.c.buf i (s.ws[i]).w (abs_ws_get hi)
        have hcur : (abs s).curr = some c.it := by simp [abs, hc]
        rw [hcur] at hb
        simp only [ownerIs, ho, beq_self_eq_true, ↓reduceIte] at hb
        refine ⟨.recycleCurr, ?_⟩
        simp only [stepD, hnf, Bool.false_eq_true, ↓reduceIte, hc, ho, hi, hm, hover, not_false_eq_true, true_and]
        rw [if_pos ⟨by omega, by omega⟩]
        exact ⟨_, rfl⟩
    | none =>
      have hnp : nextPos s = s.pos := by simp only [nextPos, hc]
      by_cases hex : ∃ (j : Nat) (c : DItem), s.completed[j]? = some c ∧ c.lo = s.pos
      · obtain ⟨j, c, hj, hlo⟩ := hex
        refine ⟨.take j, ?_⟩
        simp only [stepD, hnf, Bool.false_eq_true, ↓reduceIte, hj, hm, hover, not_false_eq_true, hc, hlo, and_self]
        exact ⟨_, rfl⟩
      · have hall : s.completed.all (fun c => c.lo != s.pos) = true := by
          rw [List.all_eq_true]
          intro c hcm
          simp only [bne_iff_ne, ne_eq]
          intro hlo
          obtain ⟨j, hj⟩ := List.getElem?_of_mem hcm
          exact hex ⟨j, c, hj, hlo⟩
        cases hr : s.resc with
        | cons it rest =>
          refine ⟨.recvRes, ?_⟩
          simp only [stepD, hnf, Bool.false_eq_true, ↓reduceIte, hr, hm, hover, not_false_eq_true, hc, hall,
            and_self]
          split <;> exact ⟨_, rfl⟩
        | nil =>
          have hposlt : s.pos < s.lim := by
            simp only [DSt.readOver] at hover
            omega
          have hrl : s.mgr.rhi = s.lim := (hA.d.live hsr (Or.inr hm)).1
          have hqle : qOf s ≤ s.mgr.rhi := chain_le hT.chain
          have hle := hT.le
          rw [hnp] at hle
          by_cases hpq : s.pos < qOf s
          · -- the unit of work at `pos` exists, or is being made, by some Worker
            have h0 := hT.occ s.pos
            rw [hnp] at h0
            have a0 := ind_spec s.pos (qOf s) s.pos
            have hcomp0 : occItems s.completed s.pos = 0 := by
              by_cases h1 : 0 < occItems s.completed s.pos
              · obtain ⟨c, hcm, hc1, hc2⟩ := occItems_pos s.pos s.completed h1
                have := (item_below_q hA.d hT c (Or.inl hcm)).1
                rw [hnp] at this
                obtain ⟨j, hj⟩ := List.getElem?_of_mem hcm
                exact absurd ⟨j, c, hj, by omega⟩ hex
              · omega
            simp only [occ, hr, occItems, hcomp0] at h0
            obtain ⟨i, w, hi, hw⟩ := occWs_pos s.pos s.ws (by omega)
            have hilt := lt_of_get hi
            cases hout : w.w.out with
            | some it =>
              refine ⟨.wSend i, ?_⟩
              simp only [stepD, hnf, Bool.false_eq_true, ↓reduceIte, hi, hout, hwrun i w hi, hr, List.length_nil,
                true_and]
              rw [if_pos (by omega)]
              exact ⟨_, rfl⟩
            | none =>
              simp only [occW, hout, Option.isSome_none, Bool.false_eq_true, ↓reduceIte, Nat.zero_add] at hw
              cases hdr : w.w.dr with
              | none => simp [hdr] at hw
              | some e =>
                simp only [hdr, Option.isSome_some, ↓reduceIte] at hw
                have a1 := ind_spec w.dlo w.dhi s.pos
                by_cases hbuf : w.w.held > 0 ∨ w.w.canAlloc > 0
                · refine ⟨.wMake i, ?_⟩
                  simp only [stepD, hnf, Bool.false_eq_true, ↓reduceIte, hi, hdr, hwrun i w hi, hout, hbuf, and_self]
                  split <;> exact ⟨_, rfl⟩
                · by_cases hrec : w.w.recyc > 0
                  · refine ⟨.wRecycle i, ?_⟩
                    simp only [stepD, hnf, Bool.false_eq_true, ↓reduceIte, hi, hwrun i w hi, hrec, and_self]
                    exact ⟨_, rfl⟩
                  · -- both buffers of this Worker would have to sit in `completedWorks`,
                    -- behind what it still has to read: impossible
                    exfalso
                    have hb := hA.c.buf i w.w (abs_ws_get hi)
                    have e1 : (abs s).resc = [] := by simp [abs, hr]
                    have e2 : (abs s).curr = none := by simp [abs, hc]
                    have e3 : (abs s).completed = s.completed.map (·.it) := rfl
                    rw [e1, e2, e3] at hb
                    simp only [hout, outIs, countOwner, List.countP_nil, ownerIs] at hb
                    have hpos : 0 < countOwner i (s.completed.map (·.it)) := by
                      simp only [countOwner]
                      omega
                    obtain ⟨c, hcm, hco⟩ := countOwner_pos hpos
                    have h1 := ((hT.own i w hi (by rw [hdr]; simp)).1 c (Or.inl hcm) hco)
                    have h2 := (item_below_q hA.d hT c (Or.inl hcm)).1
                    have h3 := (hA.d.comp c hcm).ne
                    rw [hnp] at h2
                    omega
          · -- nothing has been dispatched for `pos` yet: the Manager's side is next
            have hpeq : s.pos = qOf s := by omega
            have hquiet : ∀ (i : Nat) (w : DW), s.ws[i]? = some w → w.w.out = none ∧ w.w.dr = none := by
              intro i w hi
              have hz : ∀ x, occW w x = 0 := by
                intro x
                have h0 := hT.occ x
                rw [hnp, hpeq] at h0
                have := ind_spec (qOf s) (qOf s) x
                have := occWs_get_le x s.ws i w hi
                simp only [occ] at h0
                omega
              have hg := hA.d.wk i w hi
              constructor
              · cases hout : w.w.out with
                | none => rfl
                | some it =>
                  obtain ⟨o1, o2, o3⟩ := hg.out (by rw [hout]; simp)
                  have := hz w.olo
                  have a := ind_spec w.olo w.ohi w.olo
                  simp only [occW, hout, Option.isSome_some, ↓reduceIte] at this
                  omega
              · cases hdr : w.w.dr with
                | none => rfl
                | some e =>
                  obtain ⟨d1, d2, d3, d4⟩ := hg.dr (by rw [hdr]; simp)
                  have := hz w.dlo
                  have a := ind_spec w.dlo w.dhi w.dlo
                  simp only [occW, hdr, Option.isSome_some, ↓reduceIte] at this
                  omega
            have hch := hT.chain
            have hlen : 0 < s.ws.length := by rw [hS.len]; exact hn
            cases hreq : s.reqc with
            | cons it rest =>
              have hi : s.ws[0]? = some s.ws[0] := List.getElem?_eq_getElem hlen
              obtain ⟨q1, q2⟩ := hquiet 0 _ hi
              refine ⟨.wRecv 0, ?_⟩
              simp only [stepD, hnf, Bool.false_eq_true, ↓reduceIte, hi, hreq, hwrun 0 _ hi, q1, q2, and_self]
              split
              · exact ⟨_, rfl⟩
              · split <;> exact ⟨_, rfl⟩
            | nil =>
              cases hwk : s.mgr.m.work with
              | some it =>
                have hin := hS.mw (by rw [hwk]; simp)
                refine ⟨.mgrSend, ?_⟩
                simp only [stepD, hnf, Bool.false_eq_true, ↓reduceIte, hwk, hmrun, hin, hreq, List.length_nil,
                  true_and]
                rw [if_pos hlen]
                exact ⟨_, rfl⟩
              | none =>
                -- the part of the region the Manager has not looked at yet is not empty
                have hfut : s.mgr.m.inputOn = false ∧ s.mgr.cur < s.mgr.rhi := by
                  by_cases hf : s.mgr.m.inputOn = false ∧ s.mgr.cur < s.mgr.rhi
                  · exact hf
                  · exfalso
                    have : mchain s = [] := by
                      simp only [mchain, hreq, hwk, hf, List.map_nil, Option.isSome_none, Bool.false_eq_true,
                        ↓reduceIte, List.append_nil]
                    rw [this] at hch
                    simp only [Chain] at hch
                    omega
                cases hroi : s.mgr.m.roi with
                | none => exact absurd hroi hT.roi
                | some e =>
                  refine ⟨.mgrMake, ?_⟩
                  simp only [stepD, hnf, Bool.false_eq_true, ↓reduceIte, hroi, hmrun, hfut.1, hwk, and_self]
                  split
                  · exact ⟨_, rfl⟩
                  · split
                    · exact ⟨_, rfl⟩
                    · split
                      · exact ⟨_, rfl⟩
                      · split <;> exact ⟨_, rfl⟩

/-- **no deadlock**: in every state that satisfies the invariants, some step is enabled -/
theorem live_all {F : File} (hok : F.ok) {n : Nat} (hn : 0 < n) {s : DSt} (hA : AllInv F s) (hS : SInv n s) :
    ∃ l s', stepD F s l = some s' := by
  cases hm : s.main with
  | idle => exact live_idle hA.d.nofault (Or.inl hm)
  | closed => exact live_idle hA.d.nofault (Or.inr hm)
  | stopping k keep => exact live_stopping hA.d.nofault hA.c k keep hm
  | acking k keep => exact live_acking hA.d.nofault hA.c k keep hm
  | sendRoi => exact live_sendRoi hA.d.nofault hA.c hm
  | reading => exact live_reading hok hn hA hS hm

end WuffsVerif.Rac.ConcD
