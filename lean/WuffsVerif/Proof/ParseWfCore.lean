/-
Well-formedness of the ASTs built by `Model/Parse.lean`, part 3: the fuel-bounded loops and
the expression / type-expression cycle.
-/
import WuffsVerif.Proof.ParseWf

namespace WuffsVerif.Parse
open WuffsVerif.Token WuffsVerif.Gen.C11

/-- The associative-operator loop only appends well-formed operands. -/
theorem post_assocLoop (pOp : P Node) (hop : Post pOp WfN) (x : Nat) :
    ∀ fuel acc, (∀ n ∈ acc, WfN n) →
      Post (assocLoop pOp x fuel acc) (fun l => acc.length ≤ l.length ∧ ∀ n ∈ l, WfN n) := by
  intro fuel
  induction fuel with
  | zero => intro acc _; unfold assocLoop; exact post_throw _
  | succ fuel ih =>
    intro acc hacc
    unfold assocLoop
    post_auto
    refine post_mono (ih _ ?_) ?_
    · grind
    · intro l hl; simp at hl; exact ⟨by omega, hl.2⟩

theorem post_assocAll (pOp : P Node) (hop : Post pOp WfN) (x : Nat) (acc : List Node)
    (hacc : ∀ n ∈ acc, WfN n) :
    Post (assocAll pOp x acc) (fun l => acc.length ≤ l.length ∧ ∀ n ∈ l, WfN n) := by
  unfold assocAll
  have := post_assocLoop pOp hop x
  post_auto

/-- The postfix loop of `parseOperand`: calls, indexes, slices and selectors of a well-formed
operand are well-formed (an index has its index expression). -/
theorem post_operandLoop (env : Env) (pe : P Node) (hpe : Post pe WfN) :
    ∀ fuel cnt first lhs, WfN lhs → Post (operandLoop env pe fuel cnt first lhs) WfN := by
  intro fuel
  induction fuel with
  | zero => intro _ _ _ _; unfold operandLoop; exact post_throw _
  | succ fuel ih =>
    intro cnt first lhs hlhs
    unfold operandLoop
    post_auto
    · apply ih; wf_close
    · apply ih
      rename_i h
      rcases h with ⟨h1, h2, h3 | ⟨h3, h4⟩⟩ <;> rw [h3] <;> wf_close
    · apply ih; wf_close

theorem post_operandAll (env : Env) (pe : P Node) (hpe : Post pe WfN) (lhs : Node)
    (hlhs : WfN lhs) : Post (operandAll env pe lhs) WfN := by
  unfold operandAll
  have := post_operandLoop env pe hpe
  post_auto

macro_rules | `(tactic| post_leaf) => `(tactic| (apply post_operandAll <;> first | post_leaf | wf_close))
macro_rules | `(tactic| post_leaf) => `(tactic| (apply post_assocAll <;> first | assumption | wf_close))

/-- The five functions of the expression cycle return present, well-formed nodes. -/
structure CoreWf (env : Env) (e t b : Nat) : Prop where
  expr : Post (pExpr env e t b) WfN
  typeExpr : Post (pTypeExpr env e t b) WfN
  possibleList : Post (pPossibleList env e t b) WfN
  operand : Post (pOperand env e t b) WfN
  expr1 : Post (pExpr1 env e t b) WfN

set_option maxRecDepth 8192 in
theorem corewf_step (env : Env) (e t b : Nat)
    (ih : ∀ e' t' b', e' + t' + b' < e + t + b → CoreWf env e' t' b') : CoreWf env e t b := by
  have hExpr : Post (pExpr env e t b) WfN := by
    cases e with
    | zero => unfold pExpr; exact post_failHere
    | succ e' =>
      have h1 := (ih e' t b (by omega)).expr1
      unfold pExpr
      post_auto
  have hType : Post (pTypeExpr env e t b) WfN := by
    cases t with
    | zero => unfold pTypeExpr; exact post_failHere
    | succ t' =>
      have h1 := (ih e t' b (by omega)).typeExpr
      have h2 := (ih e t' b (by omega)).expr
      unfold pTypeExpr
      post_auto
      · rename_i hd _
        rcases hd with rfl | rfl <;>
          simp_all [typeOK, IDArray, IDRoarray, IDNptr, IDPtr, IDRoslice, IDRotable, IDSlice, IDTable]
      · rename_i hd _ _
        rcases hd with rfl | rfl <;>
          simp_all [typeOK, IDArray, IDRoarray, IDNptr, IDPtr, IDRoslice, IDRotable, IDSlice, IDTable]
      · rename_i hd _
        rcases hd with ((rfl | rfl) | rfl) | rfl <;>
          simp_all [typeOK, IDArray, IDRoarray, IDNptr, IDPtr, IDRoslice, IDRotable, IDSlice, IDTable]
  have hPoss : Post (pPossibleList env e t b) WfN := by
    cases e with
    | zero => unfold pPossibleList; post_auto
    | succ e' =>
      have h1 := (ih e' t b (by omega)).possibleList
      unfold pPossibleList
      post_auto
  have hOperand : Post (pOperand env e t b) WfN := by
    cases e with
    | zero => unfold pOperand; post_auto
    | succ e' =>
      have h1 := (ih e' t b (by omega)).operand
      unfold pOperand
      post_auto
  have hExpr1 : Post (pExpr1 env e t b) WfN := by
    unfold pExpr1
    post_auto
  exact ⟨hExpr, hType, hPoss, hOperand, hExpr1⟩

theorem core_wf (env : Env) : ∀ n e t b, e + t + b = n → CoreWf env e t b := by
  intro n
  induction n using Nat.strongRecOn with
  | _ n ih =>
    intro e t b h
    apply corewf_step
    intro e' t' b' hlt
    exact ih (e' + t' + b') (by omega) e' t' b' rfl

end WuffsVerif.Parse

namespace WuffsVerif.Parse
open WuffsVerif.Token WuffsVerif.Gen.C11

/-! ## the postfix chain is bounded -/

/-- Length of the chain of calls / indexes / slices / selectors at the root of `n` (the
left spine that `operandLoop` builds). -/
def spine : Node → Nat
  | .nil => 0
  | .mk k _ a _ _ _ x _ _ _ _ _ =>
    if k == KExpr && (a == IDOpenParen || a == IDOpenBracket || a == IDDotDot || a == IDDot)
    then spine x + 1 else 0

theorem spine_newExpr_le (f op id : Nat) (l m r : Node) (args : List Node) :
    spine (newExpr f op id l m r args) ≤ spine l + 1 := by
  simp only [newExpr, spine]
  split <;> omega

theorem spine_step {n : Node} {cnt f op id : Nat} {l m r : Node} {args : List Node}
    (hn : spine n + (cnt + 1) ≤ spine (newExpr f op id l m r args) + (MaxExprDepth + 1)) :
    spine n + cnt ≤ spine l + (MaxExprDepth + 1) := by
  have := spine_newExpr_le f op id l m r args
  omega

/-- Each iteration of the postfix loop adds one level and one to the count; the guard stops the
loop when the count exceeds `MaxExprDepth`. -/
theorem post_operandLoop_spine (env : Env) (pe : P Node) :
    ∀ fuel cnt first lhs, Post (operandLoop env pe fuel cnt first lhs)
      (fun n => spine n + cnt ≤ spine lhs + (MaxExprDepth + 1)) := by
  intro fuel
  induction fuel with
  | zero => intro _ _ _; unfold operandLoop; exact post_throw _
  | succ fuel ih =>
    intro cnt first lhs
    unfold operandLoop
    dsimp only
    apply post_ite <;> intro hcnt
    · exact post_failHere_bind
    apply post_bind (post_true _)
    intro x _
    split
    · apply post_bind (post_true _); intro flags _
      apply post_bind (post_true _); intro args _
      exact post_mono (ih _ _ _) (fun n hn => spine_step hn)
    · split
      · apply post_bind (post_true _); intro r _
        obtain ⟨id0, mhs, rhs⟩ := r
        exact post_mono (ih _ _ _) (fun n hn => spine_step hn)
      · split
        · apply post_bind (post_true _); intro _ _
          apply post_bind (post_true _); intro sel _
          apply post_bind (post_true _); intro selector _
          exact post_mono (ih _ _ _) (fun n hn => spine_step hn)
        · apply post_pure
          omega

/-- **The postfix chain of an operand is at most `MaxExprDepth + 1` long.** -/
theorem post_operandAll_spine (env : Env) (pe : P Node) (lhs : Node) :
    Post (operandAll env pe lhs) (fun n => spine n ≤ spine lhs + (MaxExprDepth + 1)) := by
  unfold operandAll
  apply post_bind (post_true _)
  intro n _
  exact post_mono (post_operandLoop_spine env pe (n + 1) 0 true lhs) (fun _ h => by omega)

end WuffsVerif.Parse
