/-
C15 helper lemmas for "successive chunks are contiguous": the descent for a DSpace position
is determined by the leaf element that contains it.  Core Lean only.
-/
import WuffsVerif.Proof.C15Reader

namespace WuffsVerif.Rac.ChunkReader

/-- the element that contains `d` is the one `findChunkContaining` returns -/
theorem Node.find_unique (n : Node) (F : n.Facts) (d dBias i : Nat) (hi : i < n.arity)
    (h1 : dBias + n.dPtr i ≤ d) (h2 : d < dBias + n.dPtr (i + 1)) :
    n.findChunkContaining d dBias = some i := by
  have hmax := F.dPtr_le_max (i + 1) (by omega)
  obtain ⟨i', hf, hi', hlo, hhi, hmaxi⟩ := n.find_spec F d dBias (by omega) (by omega)
  have ha : i ≤ i' := hmaxi i hi h1
  have hb : i' ≤ i := by
    rcases Nat.lt_or_ge i i' with h | h
    · have := F.dPtr_mono (i + 1) i' (by omega) (by omega)
      omega
    · exact h
  have : i' = i := by omega
  rw [hf, this]

/-- the landing node's DRange is inside the DRange of the node the descent started from -/
theorem resolveLoop_range (f : File) (csize dsize p : Nat) :
    ∀ fuel node cOff cBias dBias loads l,
      NodeInv f csize dsize node cBias dBias → dBias ≤ p → p < dBias + node.dPtrMax →
      resolveLoop f csize p fuel node cOff cBias dBias loads = .ok l →
      dBias ≤ l.dBias ∧ l.dBias + l.node.dPtrMax ≤ dBias + node.dPtrMax := by
  intro fuel
  induction fuel with
  | zero => intro node cOff cBias dBias loads l _ _ _ h; simp only [resolveLoop] at h; cases h
  | succ k ih =>
    intro node cOff cBias dBias loads l inv hlo hhi h
    obtain ⟨i, hfind, hi, hilo, hihi, _⟩ := node.find_spec inv.facts p dBias hlo hhi
    simp only [resolveLoop, hfind] at h
    by_cases hleaf : node.isLeaf i = true
    · simp only [hleaf, ↓reduceIte] at h
      cases h
      exact ⟨Nat.le_refl _, Nat.le_refl _⟩
    · simp only [hleaf, Bool.false_eq_true, ↓reduceIte] at h
      by_cases hanti : (cBias + node.cPtr i ≥ cOff && node.dSize i ≥ node.dPtrMax) = true
      · simp only [hanti, ↓reduceIte] at h; cases h
      · simp only [hanti, Bool.false_eq_true, ↓reduceIte] at h
        cases hlv : loadAndValidate f csize (cBias + node.cPtr i) node.codec node.codecHasMixBit
            node.version (cBias + node.cPtrMax)
            (if node.sTag i < node.arity then cBias + node.cPtr (node.sTag i) else cBias)
            (node.dSize i) with
        | error e => rw [hlv] at h; cases h
        | ok child =>
          rw [hlv] at h
          simp only at h
          obtain ⟨cvalid, cfile, coff, csz, cin, ccoff, cdmax, _, _⟩ := loadAndValidate_ok hlv
          have hds : node.dSize i = node.dPtr (i + 1) - node.dPtr i := node.dSize_eq i
          have hsorted := inv.facts.sorted i hi
          have hmax := inv.facts.dPtr_le_max (i + 1) (by omega)
          have cinv : NodeInv f csize dsize child
              (if node.sTag i < node.arity then cBias + node.cPtr (node.sTag i) else cBias)
              (dBias + node.dPtr i) :=
            ⟨child.facts_of_valid cvalid, cfile, csz, by rw [coff]; exact cin,
             by have := inv.coff; omega, by have := inv.doff; omega⟩
          have := ih child _ _ _ _ l cinv hilo (by omega) h
          omega

/-- **path determinism.**  If the descent for `p` lands on node `l.node`, then the descent
for any `x` inside a *leaf* element `i` of that node lands on the same node, at element `i`. -/
theorem resolveLoop_same (f : File) (csize dsize p x : Nat) :
    ∀ fuel node cOff cBias dBias loads l,
      NodeInv f csize dsize node cBias dBias → node.off = cOff →
      dBias ≤ p → p < dBias + node.dPtrMax →
      resolveLoop f csize p fuel node cOff cBias dBias loads = .ok l →
      ∀ i, i < l.node.arity → l.node.isLeaf i = true →
        l.dBias + l.node.dPtr i ≤ x → x < l.dBias + l.node.dPtr (i + 1) →
        resolveLoop f csize x fuel node cOff cBias dBias loads = .ok { l with nextChunk := i } := by
  intro fuel
  induction fuel with
  | zero => intro node cOff cBias dBias loads l _ _ _ _ h; simp only [resolveLoop] at h; cases h
  | succ k ih =>
    intro node cOff cBias dBias loads l inv hoff hlo hhi h j hj hjleaf hx1 hx2
    have hgood := (resolveLoop_spec f csize dsize p (k + 1) node cOff cBias dBias loads inv hoff hlo hhi).1 l h
    have hrange := resolveLoop_range f csize dsize p (k + 1) node cOff cBias dBias loads l inv hlo hhi h
    obtain ⟨i, hfind, hi, hilo, hihi, _⟩ := node.find_spec inv.facts p dBias hlo hhi
    simp only [resolveLoop, hfind] at h
    by_cases hleaf : node.isLeaf i = true
    · simp only [hleaf, ↓reduceIte] at h
      cases h
      -- l.node = node: `x` is in leaf element `j` of `node`
      have hfx := node.find_unique inv.facts x dBias j hj hx1 hx2
      simp only [resolveLoop, hfx, hjleaf, ↓reduceIte]
    · simp only [hleaf, Bool.false_eq_true, ↓reduceIte] at h
      by_cases hanti : (cBias + node.cPtr i ≥ cOff && node.dSize i ≥ node.dPtrMax) = true
      · simp only [hanti, ↓reduceIte] at h; cases h
      · simp only [hanti, Bool.false_eq_true, ↓reduceIte] at h
        cases hlv : loadAndValidate f csize (cBias + node.cPtr i) node.codec node.codecHasMixBit
            node.version (cBias + node.cPtrMax)
            (if node.sTag i < node.arity then cBias + node.cPtr (node.sTag i) else cBias)
            (node.dSize i) with
        | error e => rw [hlv] at h; cases h
        | ok child =>
          rw [hlv] at h
          simp only at h
          obtain ⟨cvalid, cfile, coff, csz, cin, ccoff, cdmax, _, _⟩ := loadAndValidate_ok hlv
          have hds : node.dSize i = node.dPtr (i + 1) - node.dPtr i := node.dSize_eq i
          have hsorted := inv.facts.sorted i hi
          have hmax := inv.facts.dPtr_le_max (i + 1) (by omega)
          have cinv : NodeInv f csize dsize child
              (if node.sTag i < node.arity then cBias + node.cPtr (node.sTag i) else cBias)
              (dBias + node.dPtr i) :=
            ⟨child.facts_of_valid cvalid, cfile, csz, by rw [coff]; exact cin,
             by have := inv.coff; omega, by have := inv.doff; omega⟩
          -- the landing node's range is inside element `i` of `node`, and `x` is inside it
          have hr := resolveLoop_range f csize dsize p k child _ _ _ _ l cinv hilo (by omega) h
          have lF := hgood.1.1.facts
          have h1 := lF.dPtr_le_max (j + 1) (by omega)
          have hfx := node.find_unique inv.facts x dBias i hi (by omega) (by omega)
          have hrec := ih child _ _ _ _ l cinv coff hilo (by omega) h j hj hjleaf hx1 hx2
          simp only [resolveLoop, hfx, hleaf, Bool.false_eq_true, ↓reduceIte, hanti, hlv]
          exact hrec

/-- `resolveSeekPosition` for position `p`, as a function of the file and the root location -/
def resolveAt (r : Reader) (p : Nat) : Outcome Landing := { r with seekPos := p }.resolve

theorem resolveAt_self (r : Reader) : resolveAt r r.seekPos = r.resolve := rfl

theorem resolveAt_congr {r r' : Reader} (h : SameFile r r') (p : Nat) :
    resolveAt r' p = resolveAt r p := by
  obtain ⟨h1, h2, h3, h4, h5⟩ := h
  unfold resolveAt Reader.resolve
  simp only [h1, h2, h4, h5]

/-- path determinism at the reader level -/
theorem resolveAt_same (r : Reader) (inv : ReaderInv r) (p x : Nat) (hp : p < r.dsize) (l : Landing)
    (h : resolveAt r p = .ok l) (i : Nat) (hi : i < l.node.arity) (hleaf : l.node.isLeaf i = true)
    (hx1 : l.dBias + l.node.dPtr i ≤ x) (hx2 : x < l.dBias + l.node.dPtr (i + 1)) :
    resolveAt r x = .ok { l with nextChunk := i } := by
  obtain ⟨root, hl, rinv, hd, hoff⟩ := inv.root
  unfold resolveAt Reader.resolve at h ⊢
  simp only at h ⊢
  rw [hl] at h ⊢
  simp only at h ⊢
  exact resolveLoop_same r.file r.csize r.dsize p x r.csize root r.rootOff 0 0 0 l rinv hoff
    (Nat.zero_le _) (by omega) h i hi hleaf hx1 hx2

/-- How `NextChunk` found the chunk it returns: (A) by walking on inside the current node,
where the chunk starts exactly at the seek position, or (B) by resolving the seek position. -/
theorem next_chunk_cases (r : Reader) (inv : ReaderInv r) (he : r.err = none) (c : Chunk)
    (h : r.next.2 = .chunk c) :
    (r.needResolve = false ∧ c.dLo = r.seekPos ∧ r.next.1.node = r.node ∧
      r.next.1.cBias = r.cBias ∧ r.next.1.dBias = r.dBias) ∨
    (∃ l, resolveAt r r.seekPos = .ok l ∧ r.seekPos < r.dsize ∧
      l.Good r.file r.csize r.dsize r.seekPos ∧
      c = l.node.chunk l.nextChunk l.cBias l.dBias ∧ r.next.1.node = l.node ∧
      r.next.1.cBias = l.cBias ∧ r.next.1.dBias = l.dBias) := by
  -- the resolving case, for any reader state `q` with the same file and seek position
  have resolving : ∀ (k : Nat) (q : Reader), ReaderInv q → q.err = none → q.needResolve = true →
      (nextLoop (k + 1) q).2 = .chunk c →
      ∃ l, resolveAt q q.seekPos = .ok l ∧ q.seekPos < q.dsize ∧
        l.Good q.file q.csize q.dsize q.seekPos ∧
        c = l.node.chunk l.nextChunk l.cBias l.dBias ∧ (nextLoop (k + 1) q).1.node = l.node ∧
        (nextLoop (k + 1) q).1.cBias = l.cBias ∧ (nextLoop (k + 1) q).1.dBias = l.dBias := by
    intro k q qinv qhe qhn hq
    obtain ⟨_, hval, hshape⟩ := nextLoop_resolving k q qinv qhe qhn
    obtain ⟨l, hl, hst, hc⟩ := hshape c hq
    have hlt : q.seekPos < q.dsize := by
      rw [hval] at hq
      unfold resolvedValue at hq
      by_cases hge : q.seekPos ≥ q.dsize
      · simp only [hge, ↓reduceIte] at hq; cases hq
      · omega
    obtain ⟨⟨hok, _, _⟩, _⟩ := resolve_spec q qinv hlt
    refine ⟨l, hl, hlt, (hok l hl).1, hc, ?_, ?_, ?_⟩ <;> rw [hst] <;> rfl
  unfold Reader.next at h ⊢
  rw [he] at h ⊢
  simp only at h ⊢
  cases hn : r.needResolve
  · -- walking
    obtain ⟨ninv, hnc, hsp⟩ := inv.cur hn
    have hscan := scan_spec (r.node.arity + 1) r ninv.facts hnc hsp (by omega)
    unfold nextLoop nextPre at h ⊢
    simp only [hn, Bool.false_eq_true, ↓reduceIte] at h ⊢
    revert hscan h
    cases hsc : scan (r.node.arity + 1) r with
    | found r' c' =>
      simp only
      intro ⟨hsn, _, hlo, _⟩ h
      cases h
      exact Or.inl ⟨by first | rfl | trivial, hlo, hsn.2.2.2.2.2.1, hsn.2.2.2.2.2.2.1, hsn.2.2.2.2.2.2.2.1⟩
    | done r' =>
      simp only
      intro ⟨hsn, hsp', _⟩ h
      obtain ⟨s1, s2, s3, s4, s5, s6, s7, s8, s9, s10⟩ := hsn
      have inv'' : ReaderInv { r' with needResolve := true } :=
        ⟨by show 32 ≤ r'.csize; rw [s2]; exact inv.csize_ge,
         root_transfer (r' := { r' with needResolve := true }) ⟨s1, s2, s3, s4, s5⟩ inv.root,
         by intro h; cases h⟩
      obtain ⟨l, a1, a2, a3, a4, a5, a6, a7⟩ := resolving 1 { r' with needResolve := true } inv''
        (by show r'.err = none; rw [s9]; exact he) rfl h
      have hcong := resolveAt_congr (r := r) (r' := { r' with needResolve := true })
        ⟨s1, s2, s3, s4, s5⟩ r'.seekPos
      simp only at a1 a2 a3
      rw [hcong, hsp'] at a1
      rw [hsp'] at a2 a3
      rw [s3] at a2
      rw [s1, s2, s3] at a3
      exact Or.inr ⟨l, a1, a2, a3, a4, a5, a6, a7⟩
  · exact Or.inr (resolving 2 r inv he hn h)

theorem resolvedValue_congr {q q' : Reader} (h : SameFile q q') (hs : q'.seekPos = q.seekPos) :
    resolvedValue q' = resolvedValue q := by
  have hr : q'.resolve = q.resolve := by
    have := resolveAt_congr h q.seekPos
    rw [← resolveAt_self q, ← this, ← hs, resolveAt_self]
  unfold resolvedValue
  rw [hr, hs, h.2.2.1]

theorem next_eq_nextLoop (q : Reader) (hq : q.err = none) : q.next = nextLoop 3 q := by
  unfold Reader.next; rw [hq]

/-- `NextChunk` right after a successful `SeekToChunkContaining(d)` -/
theorem next_after_seek (r : Reader) (inv : ReaderInv r) (he : r.err = none) (d : Int)
    (hd : ¬ d < 0) :
    (r.seek d).1.next.2 = resolvedValue { r with needResolve := true, seekPos := d.toNat } := by
  have hs : (r.seek d).1 = { r with needResolve := true, seekPos := d.toNat } := by
    unfold Reader.seek; rw [he]; simp only [hd, ↓reduceIte]
  rw [hs, next_eq_nextLoop { r with needResolve := true, seekPos := d.toNat } he]
  have q : ReaderInv { r with needResolve := true, seekPos := d.toNat } :=
    ⟨inv.csize_ge, inv.root, by intro h; cases h⟩
  exact (nextLoop_resolving 2 _ q he rfl).2.1

/-! ## errors are never the model's "Go panic" -/

theorem tryRootNode_err {f : File} {csize arity : Nat} {fromEnd : Bool} {e : Err}
    (h : tryRootNode f csize arity fromEnd = .error e) : e ≠ .panic := by
  unfold tryRootNode at h
  split at h
  · cases h
  split at h
  · cases h
  simp only at h
  split at h
  · rename_i e' hl
    cases h
    rcases load_err hl with h | h <;> rw [h] <;> intro h' <;> cases h'
  · split at h
    · cases h
    split at h <;> cases h

theorem findRootNode_err {f : File} {csize : Nat} {e : Err}
    (h : findRootNode f csize = .error e) : e ≠ .panic := by
  unfold findRootNode at h
  split at h
  · cases h; intro h; cases h
  split at h
  · cases h; intro h; cases h
  split at h
  · rename_i e' ht; cases h; exact tryRootNode_err ht
  · cases h
  · split at h
    · cases h; intro h; cases h
    split at h
    · rename_i e' ht; cases h; exact tryRootNode_err ht
    · cases h
    · cases h; intro h; cases h

theorem openReader_err_ne_panic (f : File) (claimed : Int) :
    (openReader f claimed).err ≠ some .panic := by
  by_cases hc : claimed < 32
  · simp [openReader, hc, Reader.failed_err]
  cases hfr : findRootNode f claimed.toNat with
  | error e =>
    simp only [openReader, hc, hfr, ↓reduceIte, Reader.failed_err]
    intro h
    exact findRootNode_err hfr (Option.some.inj h)
  | ok p =>
    obtain ⟨off, n⟩ := p
    by_cases hver : (n.version != 1) = true
    · simp [openReader, hc, hfr, hver, Reader.failed_err]
    · simp [openReader, hc, hfr, hver]

/-! ## sizes stay below 2^48 -/

theorem findRootNode_cptrmax {f : File} {csize off : Nat} {n : Node}
    (h : findRootNode f csize = .ok (off, n)) : n.cPtrMax = csize := by
  unfold findRootNode at h
  split at h
  · cases h
  split at h
  · cases h
  split at h
  · cases h
  · rename_i r hr
    cases h
    exact (tryRootNode_ok hr).2.2.2.1
  · split at h
    · cases h
    split at h
    · cases h
    · rename_i r hr
      cases h
      exact (tryRootNode_ok hr).2.2.2.1
    · cases h

theorem openReader_csize_lt (f : File) (claimed : Int) (h : (openReader f claimed).err = none) :
    (openReader f claimed).csize < 2 ^ 48 := by
  by_cases hc : claimed < 32
  · simp [openReader, hc, Reader.failed_err] at h
  cases hfr : findRootNode f claimed.toNat with
  | error e => simp [openReader, hc, hfr, Reader.failed_err] at h
  | ok p =>
    obtain ⟨off, n⟩ := p
    by_cases hver : (n.version != 1) = true
    · simp [openReader, hc, hfr, hver, Reader.failed_err] at h
    · simp only [openReader, hc, hfr, hver, ↓reduceIte, Bool.false_eq_true]
      have := findRootNode_cptrmax hfr
      have h2 := n.cPtrMax_lt
      omega

theorem Node.cOffRange_lt (n : Node) (j cBias csize : Nat) (h : cBias + n.cPtrMax ≤ csize) :
    (n.cOffRange j cBias).1 < csize + 2 ^ 48 ∧ (n.cOffRange j cBias).2 ≤ csize := by
  unfold Node.cOffRange
  have := n.cPtr_lt j
  by_cases hj : j ≥ n.arity
  · simp only [hj, ↓reduceIte]; omega
  · simp only [hj, ↓reduceIte]
    refine ⟨by omega, ?_⟩
    repeat' split
    all_goals omega

/-- the current node was reached by some descent from the root (a fact the walk theorem needs) -/
def LandedInv (r : Reader) : Prop :=
  r.err = none → r.needResolve = false →
    ∃ p0 l, p0 < r.dsize ∧ resolveAt r p0 = .ok l ∧ l.node = r.node ∧ l.cBias = r.cBias ∧
      l.dBias = r.dBias

theorem next_landed (r : Reader) (inv : ReaderInv r) (he : r.err = none) (hl : LandedInv r) :
    LandedInv r.next.1 := by
  intro he1 hn1
  have g := next_good r inv he
  cases hres : r.next.2 with
  | chunk c =>
    obtain ⟨_, _, sf, _⟩ := g.chunk c hres
    rcases next_chunk_cases r inv he c hres with ⟨hn, _, e1, e2, e3⟩ | ⟨l, a1, a2, _, _, e1, e2, e3⟩
    · obtain ⟨p0, l, h1, h2, h3, h4, h5⟩ := hl he hn
      refine ⟨p0, l, by rw [sf.2.2.1]; exact h1, by rw [resolveAt_congr sf]; exact h2,
        by rw [e1]; exact h3, by rw [e2]; exact h4, by rw [e3]; exact h5⟩
    · exact ⟨r.seekPos, l, by rw [sf.2.2.1]; exact a2, by rw [resolveAt_congr sf]; exact a1,
        e1.symm, e2.symm, e3.symm⟩
  | eof =>
    -- at EOF the reader still has to resolve: `needResolve` is true
    obtain ⟨_, _, _, _, _, h6⟩ := g.eof hres
    rw [h6] at hn1; cases hn1
  | err e => have := g.err e hres; rw [this] at he1; cases he1
  | spin => exact absurd hres g.no_spin

/-- after `SeekToChunkContaining` the reader has to resolve: nothing to show -/
theorem seek_landed (r : Reader) (d : Int) (hl : LandedInv r) : LandedInv (r.seek d).1 := by
  unfold Reader.seek
  cases hre : r.err with
  | some e => simp only; exact hl
  | none =>
    simp only
    by_cases hd : d < 0
    · simp only [hd, ↓reduceIte]; intro h; cases h
    · simp only [hd, ↓reduceIte]; intro _ h; cases h

end WuffsVerif.Rac.ChunkReader
