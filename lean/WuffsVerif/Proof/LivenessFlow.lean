/-
C05 — soundness of the liveness analysis, control flow: `Sound` for statements and blocks, by
mutual structural recursion on the abstract syntax; the `while` case unfolds the fixed point
reached by `fixLoop`.
-/
import WuffsVerif.Proof.LivenessSound

namespace WuffsVerif.Liveness
variable {n : Nat}

/-- Pointwise relation of two lists of the same length. -/
inductive F2 {α : Type} (R : α → α → Prop) : List α → List α → Prop where
  | nil : F2 R [] []
  | cons {a b : α} {l1 l2 : List α} : R a b → F2 R l1 l2 → F2 R (a :: l1) (b :: l2)

/-! ### order on the analysis state, seen from `v` -/

def Loop.le (v : Nat) (l l' : Loop n) : Prop :=
  l.before.get v ≤ l'.before.get v ∧ l.after.get v ≤ l'.after.get v

def St.le (v : Nat) (σ σ' : St n) : Prop :=
  F2 (Loop.le v) σ.loops σ'.loops ∧ σ.final.get v ≤ σ'.final.get v

theorem Loop.le_refl (v : Nat) (l : Loop n) : Loop.le v l l := ⟨Lness.le_refl _, Lness.le_refl _⟩

theorem Loop.le_trans {v : Nat} {a b c : Loop n} (h1 : Loop.le v a b) (h2 : Loop.le v b c) :
    Loop.le v a c := ⟨Lness.le_trans h1.1 h2.1, Lness.le_trans h1.2 h2.2⟩

theorem forall2_refl {α : Type} {R : α → α → Prop} (h : ∀ a, R a a) : ∀ l : List α, F2 R l l
  | [] => F2.nil
  | a :: l => F2.cons (h a) (forall2_refl h l)

theorem forall2_trans {α : Type} {R : α → α → Prop} (h : ∀ a b c, R a b → R b c → R a c) :
    ∀ {l1 l2 l3 : List α}, F2 R l1 l2 → F2 R l2 l3 → F2 R l1 l3
  | [], _, _, F2.nil, F2.nil => F2.nil
  | _ :: _, _, _, F2.cons h1 t1, F2.cons h2 t2 =>
    F2.cons (h _ _ _ h1 h2) (forall2_trans h t1 t2)

theorem St.le_refl (v : Nat) (σ : St n) : St.le v σ σ :=
  ⟨forall2_refl (Loop.le_refl v) _, Lness.le_refl _⟩

theorem St.le_trans {v : Nat} {a b c : St n} (h1 : St.le v a b) (h2 : St.le v b c) : St.le v a c :=
  ⟨forall2_trans (R := Loop.le v) (fun _ _ _ => Loop.le_trans) h1.1 h2.1, Lness.le_trans h1.2 h2.2⟩

theorem forall2_get {α : Type} {R : α → α → Prop} : ∀ {l1 l2 : List α}, F2 R l1 l2 →
    ∀ (k : Nat) (b : α), l2[k]? = some b → ∃ a, l1[k]? = some a ∧ R a b
  | _, _, F2.nil, k, b, h => by simp at h
  | _, _, F2.cons h1 t1, 0, b, h => by
    simp only [List.getElem?_cons_zero, Option.some.injEq] at h
    subst h
    exact ⟨_, by simp, h1⟩
  | _, _, F2.cons _ t1, k + 1, b, h => by
    simp only [List.getElem?_cons_succ] at h ⊢
    exact forall2_get t1 k b h

theorem forall2_get' {α : Type} {R : α → α → Prop} : ∀ {l1 l2 : List α}, F2 R l1 l2 →
    ∀ (k : Nat) (a : α), l1[k]? = some a → ∃ b, l2[k]? = some b ∧ R a b
  | _, _, F2.nil, k, b, h => by simp at h
  | _, _, F2.cons h1 t1, 0, b, h => by
    simp only [List.getElem?_cons_zero, Option.some.injEq] at h
    subst h
    exact ⟨_, by simp, h1⟩
  | _, _, F2.cons _ t1, k + 1, b, h => by
    simp only [List.getElem?_cons_succ] at h ⊢
    exact forall2_get' t1 k b h

/-! ### strong is recorded somewhere -/

def Loop.hasStrong (v : Nat) (l : Loop n) : Prop :=
  l.before.get v = Lness.strong ∨ l.after.get v = Lness.strong

def SrecS (v : Nat) (σ : St n) : Prop :=
  σ.final.get v = Lness.strong ∨ ∃ l ∈ σ.loops, Loop.hasStrong v l

def Srec (v : Nat) (r : Lv n) (σ : St n) : Prop := r.get v = Lness.strong ∨ SrecS v σ

theorem Loop.hasStrong_mono {v : Nat} {l l' : Loop n} (h : Loop.le v l l') (hs : l.hasStrong v) :
    l'.hasStrong v := by
  rcases hs with hs | hs
  · exact Or.inl (Lness.strong_le (hs ▸ h.1))
  · exact Or.inr (Lness.strong_le (hs ▸ h.2))

theorem forall2_mem {α : Type} {R : α → α → Prop} : ∀ {l1 l2 : List α}, F2 R l1 l2 →
    ∀ a ∈ l1, ∃ b ∈ l2, R a b
  | _, _, F2.nil, a, h => by simp at h
  | _, _, F2.cons h1 t1, a, h => by
    rcases List.mem_cons.mp h with h | h
    · subst h; exact ⟨_, List.mem_cons_self, h1⟩
    · obtain ⟨b, hb, hr⟩ := forall2_mem t1 a h
      exact ⟨b, List.mem_cons_of_mem _ hb, hr⟩

theorem SrecS.mono {v : Nat} {σ σ' : St n} (h : St.le v σ σ') (hs : SrecS v σ) : SrecS v σ' := by
  rcases hs with hs | ⟨l, hl, hs⟩
  · exact Or.inl (Lness.strong_le (hs ▸ h.2))
  · obtain ⟨l', hl', hr⟩ := forall2_mem h.1 l hl
    exact Or.inr ⟨l', hl', Loop.hasStrong_mono hr hs⟩

/-! ### `Sound` -/

/-- Where the abstract value that must cover a path's final taint lives, per outcome. -/
def target (v : Nat) (r' : Lv n) (σ' : St n) : Out → Option Lness
  | .norm => some (r'.get v)
  | .brk k => (σ'.loops[k]?).map (fun l => l.after.get v)
  | .cont k => (σ'.loops[k]?).map (fun l => l.before.get v)
  | .ret => none
  | .stop => none

/-- What a path starting with taint `t` guarantees about the analysis result. -/
def Post (v : Nat) (r' : Lv n) (σ' : St n) (t : Bool) (es : List Ev) (o : Out) : Prop :=
  (viol v t es = true → Srec v r' σ') ∧
  (viol v t es = false → ∀ x, target v r' σ' o = some x → G (taintAfter v t es) x)

structure Sound (v : Nat) (paths : List Ev → Out → Prop) (r : Lv n) (σ : St n) (r' : Lv n) (σ' : St n) :
    Prop where
  mono : St.le v σ σ'
  sticky : r.get v = Lness.strong → Srec v r' σ'
  post : ∀ t es o, paths es o → G t (r.get v) → Post v r' σ' t es o

theorem Post.stop (v : Nat) (r' : Lv n) (σ' : St n) (t : Bool) : Post v r' σ' t [] Out.stop :=
  ⟨fun h => by simp at h, fun _ x hx => by simp [target] at hx⟩

theorem Post.of_viol_prefix {v : Nat} {r' : Lv n} {σ' : St n} {t : Bool} {e1 : List Ev}
    (hv : viol v t e1 = true) (hs : Srec v r' σ') (e2 : List Ev) (o : Out) :
    Post v r' σ' t (e1 ++ e2) o :=
  ⟨fun _ => hs, fun h => by rw [viol_append, hv] at h; simp at h⟩

theorem Post.prepend {v : Nat} {r' : Lv n} {σ' : St n} {t : Bool} {e1 e2 : List Ev} {o : Out}
    (hv : viol v t e1 = false) (h : Post v r' σ' (taintAfter v t e1) e2 o) :
    Post v r' σ' t (e1 ++ e2) o := by
  constructor
  · intro hh
    rw [viol_append, hv] at hh
    exact h.1 (by simpa using hh)
  · intro hh x hx
    rw [viol_append, hv] at hh
    rw [taintAfter_append]
    exact h.2 (by simpa using hh) x hx

/-- Transport a `Post` to a later analysis state (the block went on being analysed after the
path had left it). -/
theorem Post.later {v : Nat} {r1 r2 : Lv n} {σ1 σ2 : St n} {t : Bool} {es : List Ev} {o : Out}
    (h : Post v r1 σ1 t es o) (hm : St.le v σ1 σ2) (hs : Srec v r1 σ1 → Srec v r2 σ2)
    (ho : o ≠ Out.norm) : Post v r2 σ2 t es o := by
  refine ⟨fun hv => hs (h.1 hv), fun hv x hx => ?_⟩
  cases o with
  | norm => exact absurd rfl ho
  | ret => simp [target] at hx
  | stop => simp [target] at hx
  | brk k =>
    simp only [target, Option.map_eq_some_iff] at hx
    obtain ⟨l2, hl2, rfl⟩ := hx
    obtain ⟨l1, hl1, hr⟩ := forall2_get hm.1 k l2 hl2
    exact (h.2 hv _ (by simp [target, hl1])).mono hr.2
  | cont k =>
    simp only [target, Option.map_eq_some_iff] at hx
    obtain ⟨l2, hl2, rfl⟩ := hx
    obtain ⟨l1, hl1, hr⟩ := forall2_get hm.1 k l2 hl2
    exact (h.2 hv _ (by simp [target, hl1])).mono hr.1

/-- A statement without control flow: `Seg` gives `Sound`. -/
theorem Sound.of_seg {v : Nat} {paths : List Ev → Out → Prop} {r r' : Lv n} (σ : St n)
    (h : ∀ es o, paths es o → o = Out.norm ∧ Seg v es (r.get v) (r'.get v))
    (hst : r.get v = Lness.strong → r'.get v = Lness.strong) :
    Sound v paths r σ r' σ := by
  refine ⟨St.le_refl v σ, fun hs => Or.inl (hst hs), ?_⟩
  intro t es o hp ht
  obtain ⟨rfl, seg⟩ := h es o hp
  refine ⟨fun hv => Or.inl (seg.viol t ht hv), fun hv x hx => ?_⟩
  simp only [target, Option.some.injEq] at hx
  subst hx
  exact seg.ok t ht hv

/-- Sequencing: first `P1` (analysed `r σ ↦ r1 σ1`), then, if it completed normally, `P2`. -/
theorem Sound.seq {v : Nat} {P1 P2 : List Ev → Out → Prop} {r r1 r2 : Lv n} {σ σ1 σ2 : St n}
    (h1 : Sound v P1 r σ r1 σ1) (h2 : Sound v P2 r1 σ1 r2 σ2) :
    Sound v (fun es o => (∃ e1 e2, P1 e1 Out.norm ∧ P2 e2 o ∧ es = e1 ++ e2) ∨ (P1 es o ∧ o ≠ Out.norm))
      r σ r2 σ2 := by
  have hs12 : Srec v r1 σ1 → Srec v r2 σ2 := by
    rintro (h | h)
    · exact h2.sticky h
    · exact Or.inr (h.mono h2.mono)
  refine ⟨St.le_trans h1.mono h2.mono, fun hs => hs12 (h1.sticky hs), ?_⟩
  intro t es o hp ht
  rcases hp with ⟨e1, e2, hp1, hp2, rfl⟩ | ⟨hp1, ho⟩
  · have p1 := h1.post t e1 Out.norm hp1 ht
    cases hv : viol v t e1
    · have g1 := p1.2 hv _ rfl
      exact Post.prepend hv (h2.post _ e2 o hp2 g1)
    · exact Post.of_viol_prefix hv (hs12 (p1.1 hv)) e2 o
  · exact (h1.post t es o hp1 ht).later h2.mono hs12 ho

/-- Weaken the path set. -/
theorem Sound.sub {v : Nat} {P Q : List Ev → Out → Prop} {r r' : Lv n} {σ σ' : St n}
    (h : Sound v P r σ r' σ') (hq : ∀ es o, Q es o → P es o) : Sound v Q r σ r' σ' :=
  ⟨h.mono, h.sticky, fun t es o hp ht => h.post t es o (hq es o hp) ht⟩

/-- A straight-line prefix in front of a sound piece. -/
theorem Sound.prefix {v : Nat} {P : List Ev → Out → Prop} {r0 r r' : Lv n} {σ σ' : St n}
    {pre : List Ev → Prop}
    (hseg : ∀ es, pre es → Seg v es (r0.get v) (r.get v))
    (hst : r0.get v = Lness.strong → r.get v = Lness.strong)
    (h : Sound v P r σ r' σ') :
    Sound v (fun es o => ∃ e1 e2, pre e1 ∧ P e2 o ∧ es = e1 ++ e2) r0 σ r' σ' := by
  refine ⟨h.mono, fun hs => h.sticky (hst hs), ?_⟩
  rintro t es o ⟨e1, e2, hp1, hp2, rfl⟩ ht
  have seg := hseg e1 hp1
  cases hv : viol v t e1
  · exact Post.prepend hv (h.post _ e2 o hp2 (seg.ok t ht hv))
  · exact Post.of_viol_prefix hv (h.sticky (seg.viol t ht hv)) e2 o

end WuffsVerif.Liveness
