/-
C06: specification of the helpers of `IntRange.And` / `IntRange.Or`
(`andBothNonNeg`, `orBothNonNeg`, `andOneNegOneNonNeg`, `orOneNegOneNonNeg`):
each returns (no panic) a sound interval which is tight when all bounds are finite.
-/
import WuffsVerif.Proof.IntervalBasic
import WuffsVerif.Proof.IntervalTables
import WuffsVerif.Proof.IntervalBits

namespace WuffsVerif.Interval

theorem two_pow_pos' (n : Nat) : 0 < (2 : Int) ^ n := Int.pow_pos (by decide)

/-! ### complement -/

theorem inot_le_inot {a b : Int} : inot a ≤ inot b ↔ b ≤ a := by unfold inot; omega

theorem iand_demorgan (a b : Int) : iand a b = inot (ior (inot a) (inot b)) := by
  apply eq_of_B; intro n
  rw [B_iand, B_inot, B_ior, B_inot, B_inot]
  simp only [not_or, Classical.not_not]

theorem ior_demorgan (a b : Int) : ior a b = inot (iand (inot a) (inot b)) := by
  apply eq_of_B; intro n
  rw [B_ior, B_inot, B_iand, B_inot, B_inot]
  constructor
  · rintro (h | h) ⟨h1, h2⟩
    · exact h1 h
    · exact h2 h
  · intro h
    by_cases ha : B a n
    · exact Or.inl ha
    · by_cases hb : B b n
      · exact Or.inr hb
      · exact absurd ⟨ha, hb⟩ h

section minima
variable {xl xh yl yh : Int}

/-- `andMin = ~orMax(~x, ~y)` is a lower bound of `x & y` on a sign-uniform box -/
theorem andMin_lb {x y : Int} (hx1 : xl ≤ x) (hx2 : x ≤ xh) (hy1 : yl ≤ y) (hy2 : y ≤ yh)
    (sx : xl < 0 ↔ xh < 0) (sxy : xh < 0 ↔ yh < 0) (sy : yl < 0 ↔ yh < 0) :
    inot (orMax (inot xh) (inot xl) (inot yh) (inot yl)) ≤ iand x y := by
  rw [iand_demorgan x y, inot_le_inot]
  exact orMax_ub (inot_le_inot.2 hx2) (inot_le_inot.2 hx1) (inot_le_inot.2 hy2)
    (inot_le_inot.2 hy1) (by rw [inot_neg_iff, inot_neg_iff]; omega)
    (by rw [inot_neg_iff, inot_neg_iff]; omega) (by rw [inot_neg_iff, inot_neg_iff]; omega)

theorem andMin_att (hxle : xl ≤ xh) (hyle : yl ≤ yh)
    (sx : xl < 0 ↔ xh < 0) (sy : yl < 0 ↔ yh < 0) :
    ∃ x y, xl ≤ x ∧ x ≤ xh ∧ yl ≤ y ∧ y ≤ yh ∧
      iand x y = inot (orMax (inot xh) (inot xl) (inot yh) (inot yl)) := by
  obtain ⟨x', y', h1, h2, h3, h4, h5⟩ := orMax_att (xl := inot xh) (xh := inot xl)
    (yl := inot yh) (yh := inot yl) (inot_le_inot.2 hxle) (inot_le_inot.2 hyle)
    (by rw [inot_neg_iff, inot_neg_iff]; omega) (by rw [inot_neg_iff, inot_neg_iff]; omega)
  refine ⟨inot x', inot y', ?_, ?_, ?_, ?_, ?_⟩
  · unfold inot at *; omega
  · unfold inot at *; omega
  · unfold inot at *; omega
  · unfold inot at *; omega
  · rw [iand_demorgan, inot_inot, inot_inot, h5]

/-- `orMin = ~andMax(~x, ~y)` is a lower bound of `x | y` on a sign-uniform box -/
theorem orMin_lb {x y : Int} (hx1 : xl ≤ x) (hx2 : x ≤ xh) (hy1 : yl ≤ y) (hy2 : y ≤ yh)
    (sx : xl < 0 ↔ xh < 0) (sxy : xh < 0 ↔ yh < 0) (sy : yl < 0 ↔ yh < 0) :
    inot (andMax (inot xh) (inot xl) (inot yh) (inot yl)) ≤ ior x y := by
  rw [ior_demorgan x y, inot_le_inot]
  exact andMax_ub (inot_le_inot.2 hx2) (inot_le_inot.2 hx1) (inot_le_inot.2 hy2)
    (inot_le_inot.2 hy1) (by rw [inot_neg_iff, inot_neg_iff]; omega)
    (by rw [inot_neg_iff, inot_neg_iff]; omega) (by rw [inot_neg_iff, inot_neg_iff]; omega)

theorem orMin_att (hxle : xl ≤ xh) (hyle : yl ≤ yh)
    (sx : xl < 0 ↔ xh < 0) (sy : yl < 0 ↔ yh < 0) :
    ∃ x y, xl ≤ x ∧ x ≤ xh ∧ yl ≤ y ∧ y ≤ yh ∧
      ior x y = inot (andMax (inot xh) (inot xl) (inot yh) (inot yl)) := by
  obtain ⟨x', y', h1, h2, h3, h4, h5⟩ := andMax_att (xl := inot xh) (xh := inot xl)
    (yl := inot yh) (yh := inot yl) (inot_le_inot.2 hxle) (inot_le_inot.2 hyle)
    (by rw [inot_neg_iff, inot_neg_iff]; omega) (by rw [inot_neg_iff, inot_neg_iff]; omega)
  refine ⟨inot x', inot y', ?_, ?_, ?_, ?_, ?_⟩
  · unfold inot at *; omega
  · unfold inot at *; omega
  · unfold inot at *; omega
  · unfold inot at *; omega
  · rw [ior_demorgan, inot_inot, inot_inot, h5]

end minima

/-! ### simple order facts about `&` and `|` -/

theorem iand_nonneg_of_right {a b : Int} (h : 0 ≤ b) : 0 ≤ iand a b := by
  have := iand_neg_iff a b; omega

theorem iand_le_right_nonneg {a b : Int} (h : 0 ≤ b) : iand a b ≤ b := by
  apply le_of_tb_subset
  · intro n hn
    have : B (iand a b) n := hn
    rw [B_iand] at this; exact this.2
  · have := iand_neg_iff a b; omega

theorem le_ior_right_nonneg {a b : Int} (ha : 0 ≤ a) : b ≤ ior a b := by
  apply le_of_tb_subset
  · intro n hn
    exact B_ior.2 (Or.inr hn)
  · have := ior_neg_iff a b; omega

theorem le_ior_left_nonneg {a b : Int} (hb : 0 ≤ b) : a ≤ ior a b := by
  rw [ior_comm']; exact le_ior_right_nonneg hb

/-! ### shapes of intervals -/

theorem mem_lo {X : IR} {x a : Int} (h : X.mem x) (hl : X.lo = some a) : a ≤ x := by
  have := h.1; rw [hl] at this; exact this

theorem mem_hi {X : IR} {x b : Int} (h : X.mem x) (hh : X.hi = some b) : x ≤ b := by
  have := h.2; rw [hh] at this; exact this

theorem mem_of_bounds {X : IR} {x a b : Int} (hl : X.lo = some a) (hh : X.hi = some b)
    (h1 : a ≤ x) (h2 : x ≤ b) : X.mem x := by
  constructor
  · rw [hl]; exact h1
  · rw [hh]; exact h2

theorem lo_le_hi {X : IR} {a b : Int} (ex : X.empty = false) (hl : X.lo = some a)
    (hh : X.hi = some b) : a ≤ b := mem_hi (lo_mem ex hl) hh

theorem containsNegative_false_of_lo {X : IR} {a : Int} (hl : X.lo = some a) (h0 : 0 ≤ a) :
    X.containsNegative = false := by
  unfold IR.containsNegative; rw [hl]; simp [h0]

theorem containsNonNegative_false_of_hi {X : IR} {b : Int} (hh : X.hi = some b) (h0 : b < 0) :
    X.containsNonNegative = false := by
  unfold IR.containsNonNegative; rw [hh]; simp [h0]

/-- a non-empty interval without negative members has a finite non-negative lower bound -/
theorem nonneg_shape {X : IR} (ex : X.empty = false) (h : X.containsNegative = false) :
    ∃ a, X.lo = some a ∧ 0 ≤ a := by
  obtain ⟨lo, hi⟩ := X
  cases lo with
  | none => simp [IR.containsNegative] at h
  | some a =>
    refine ⟨a, rfl, ?_⟩
    by_contra hneg
    have : ∃ v, (IR.mk (some a) hi).mem v ∧ v < 0 := ⟨a, lo_mem ex rfl, by omega⟩
    rw [← containsNegative_iff] at this
    rw [h] at this; cases this

/-! ### `andBothNonNeg` -/

theorem andBothNonNeg_spec {X Y : IR} {xl yl : Int} (ex : X.empty = false) (ey : Y.empty = false)
    (hxl : X.lo = some xl) (hyl : Y.lo = some yl) (x0 : 0 ≤ xl) (y0 : 0 ≤ yl) :
    ∃ Z, andBothNonNeg X Y = some Z ∧ (∀ x y, X.mem x → Y.mem y → Z.mem (iand x y)) ∧
      (∀ xh yh, X.hi = some xh → Y.hi = some yh → TightHull iand X Y Z) := by
  have cnx := containsNegative_false_of_lo hxl x0
  have cny := containsNegative_false_of_lo hyl y0
  unfold andBothNonNeg
  simp only [ex, ey, cnx, cny, Bool.or_self, Bool.false_eq_true, if_false, hxl, hyl]
  cases hxh : X.hi with
  | none =>
    cases hyh : Y.hi with
    | none =>
      refine ⟨_, rfl, ?_, ?_⟩
      · intro x y hx hy
        exact ⟨iand_nonneg_of_right (by have := mem_lo hy hyl; omega), trivial⟩
      · intro xh yh h; cases h
    | some yh =>
      refine ⟨_, rfl, ?_, ?_⟩
      · intro x y hx hy
        have := mem_lo hy hyl
        have := mem_hi hy hyh
        have := iand_le_right_nonneg (a := x) (b := y) (by omega)
        exact ⟨iand_nonneg_of_right (by omega), by show iand x y ≤ yh; omega⟩
      · intro xh yh h; cases h
  | some xh =>
    cases hyh : Y.hi with
    | none =>
      refine ⟨_, rfl, ?_, ?_⟩
      · intro x y hx hy
        have := mem_lo hx hxl
        have := mem_hi hx hxh
        have := mem_lo hy hyl
        have := iand_le_right_nonneg (a := y) (b := x) (by omega)
        rw [iand_comm'] at this
        exact ⟨iand_nonneg_of_right (by omega), by show iand x y ≤ xh; omega⟩
      · intro xh yh _ h; cases h
    | some yh =>
      have hxle := lo_le_hi ex hxl hxh
      have hyle := lo_le_hi ey hyl hyh
      have sx : xl < 0 ↔ xh < 0 := by omega
      have sy : yl < 0 ↔ yh < 0 := by omega
      have sxy : xh < 0 ↔ yh < 0 := by omega
      have e1 := andMaxP_eq (xl := xl) (xh := xh) (yl := yl) (yh := yh) sx sy
      have e2 := orMaxP_eq (xl := inot xh) (xh := inot xl) (yl := inot yh) (yh := inot yl)
        (by rw [inot_neg_iff, inot_neg_iff]; omega) (by rw [inot_neg_iff, inot_neg_iff]; omega)
      simp only [e1, e2, Option.bind_some, Option.map_some]
      refine ⟨_, rfl, ?_, ?_⟩
      · intro x y hx hy
        have h1 := mem_lo hx hxl
        have h2 := mem_hi hx hxh
        have h3 := mem_lo hy hyl
        have h4 := mem_hi hy hyh
        exact ⟨andMin_lb h1 h2 h3 h4 sx sxy sy, andMax_ub h1 h2 h3 h4 sx sxy sy⟩
      · intro xh' yh' _ _
        obtain ⟨a, b, h1, h2, h3, h4, h5⟩ := andMin_att hxle hyle sx sy
        obtain ⟨c, d, g1, g2, g3, g4, g5⟩ := andMax_att hxle hyle sx sy
        exact ⟨_, _, rfl, ⟨a, b, mem_of_bounds hxl hxh h1 h2, mem_of_bounds hyl hyh h3 h4, h5⟩,
          ⟨c, d, mem_of_bounds hxl hxh g1 g2, mem_of_bounds hyl hyh g3 g4, g5⟩⟩

/-! ### `orBothNonNeg` -/

/-- `x ≤ bitFillRight b` for `0 ≤ x ≤ b`, and or-ing such an `x` in changes nothing -/
theorem ior_bfr_absorb {x b : Int} (hx0 : 0 ≤ x) (hxb : x ≤ bitFillRight b) (hb : 0 ≤ b) :
    ior x (bitFillRight b) = bitFillRight b := by
  apply eq_of_B; intro n
  rw [B_ior]
  constructor
  · rintro (h | h)
    · by_contra hn
      have hbf := bitFillRight_nonneg hb
      obtain ⟨q, hq, hd⟩ := drop_above' hxb (by omega) h hn
      obtain ⟨m, hm, hbm⟩ := (B_bfr hb).1 hd.2.1
      exact hn ((B_bfr hb).2 ⟨m, by omega, hbm⟩)
    · exact h
  · exact Or.inr

theorem le_bitFillRight {b : Int} (hb : 0 ≤ b) : b ≤ bitFillRight b := by
  apply le_of_tb_subset
  · intro n hn
    exact (B_bfr hb).2 ⟨n, Nat.le_refl n, hn⟩
  · have := bitFillRight_nonneg hb; omega

theorem orBothNonNeg_spec {X Y : IR} {xl yl : Int} (ex : X.empty = false) (ey : Y.empty = false)
    (hxl : X.lo = some xl) (hyl : Y.lo = some yl) (x0 : 0 ≤ xl) (y0 : 0 ≤ yl) :
    ∃ Z, orBothNonNeg X Y = some Z ∧ (∀ x y, X.mem x → Y.mem y → Z.mem (ior x y)) ∧
      (∀ xh yh, X.hi = some xh → Y.hi = some yh → TightHull ior X Y Z) := by
  have cnx := containsNegative_false_of_lo hxl x0
  have cny := containsNegative_false_of_lo hyl y0
  -- the common finite computation
  have finite : ∀ (xl xh yl yh : Int), 0 ≤ xl → xl ≤ xh → 0 ≤ yl → yl ≤ yh →
      andMaxP (inot xh) (inot xl) (inot yh) (inot yl)
        = some (andMax (inot xh) (inot xl) (inot yh) (inot yl)) := by
    intro xl xh yl yh _ _ _ _
    exact andMaxP_eq (by rw [inot_neg_iff, inot_neg_iff]; omega)
      (by rw [inot_neg_iff, inot_neg_iff]; omega)
  unfold orBothNonNeg
  simp only [ex, ey, cnx, cny, Bool.or_self, Bool.false_eq_true, if_false, hxl, hyl]
  cases hxh : X.hi with
  | some xh =>
    have hxle := lo_le_hi ex hxl hxh
    cases hyh : Y.hi with
    | some yh =>
      have hyle := lo_le_hi ey hyl hyh
      have sx : xl < 0 ↔ xh < 0 := by omega
      have sy : yl < 0 ↔ yh < 0 := by omega
      have sxy : xh < 0 ↔ yh < 0 := by omega
      have e1 := orMaxP_eq (xl := xl) (xh := xh) (yl := yl) (yh := yh) sx sy
      simp only [e1, finite xl xh yl yh x0 hxle y0 hyle, Option.bind_some, Option.map_some]
      refine ⟨_, rfl, ?_, ?_⟩
      · intro x y hx hy
        have h1 := mem_lo hx hxl
        have h2 := mem_hi hx hxh
        have h3 := mem_lo hy hyl
        have h4 := mem_hi hy hyh
        exact ⟨orMin_lb h1 h2 h3 h4 sx sxy sy, orMax_ub h1 h2 h3 h4 sx sxy sy⟩
      · intro xh' yh' _ _
        obtain ⟨a, b, h1, h2, h3, h4, h5⟩ := orMin_att hxle hyle sx sy
        obtain ⟨c, d, g1, g2, g3, g4, g5⟩ := orMax_att hxle hyle sx sy
        exact ⟨_, _, rfl, ⟨a, b, mem_of_bounds hxl hxh h1 h2, mem_of_bounds hyl hyh h3 h4, h5⟩,
          ⟨c, d, mem_of_bounds hxl hxh g1 g2, mem_of_bounds hyl hyh g3 g4, g5⟩⟩
    | none =>
      simp only [IR.containsInt, hxl, hxh, hyl, hyh]
      by_cases hc1 : xl ≤ yl ∧ yl ≤ xh
      · -- x contains y.lo
        simp only [hc1.1, hc1.2, ge_iff_le, decide_true, Bool.and_self, if_true]
        refine ⟨_, rfl, ?_, fun _ _ _ h => by cases h⟩
        intro x y hx hy
        have := mem_lo hx hxl
        have := mem_lo hy hyl
        have := le_ior_right_nonneg (a := x) (b := y) (by omega)
        exact ⟨by show yl ≤ ior x y; omega, trivial⟩
      · have hc1' : (decide (xl ≤ yl) && decide (xh ≥ yl)) = false := by
          simp only [ge_iff_le, Bool.and_eq_false_iff, decide_eq_false_iff_not]
          by_cases h : xl ≤ yl
          · exact Or.inr (fun h' => hc1 ⟨h, h'⟩)
          · exact Or.inl h
        simp only [hc1', Bool.false_eq_true, if_false, Bool.and_true]
        by_cases hc2 : yl ≤ xl
        · simp only [hc2, decide_true, if_true]
          refine ⟨_, rfl, ?_, fun _ _ _ h => by cases h⟩
          intro x y hx hy
          have := mem_lo hx hxl
          have := mem_lo hy hyl
          have := le_ior_left_nonneg (a := x) (b := y) (by omega)
          exact ⟨by show xl ≤ ior x y; omega, trivial⟩
        · -- disjoint: x entirely below y
          have hlt : xh < yl := by
            by_contra h; exact hc1 ⟨by omega, by omega⟩
          have hge : ¬ (xh ≥ yl) := by omega
          have hbp : bitFillRightP yl = some (bitFillRight yl) := by
            unfold bitFillRightP; simp [show ¬ yl < 0 by omega]
          have hb0 := bitFillRight_nonneg y0
          have hble := le_bitFillRight y0
          simp only [hc2, decide_false, Bool.false_eq_true, if_false, hge, hbp, Option.bind_some,
            finite xl xh yl (bitFillRight yl) x0 hxle y0 hble, Option.map_some]
          refine ⟨_, rfl, ?_, fun _ _ _ h => by cases h⟩
          intro x y hx hy
          have h1 := mem_lo hx hxl
          have h2 := mem_hi hx hxh
          have h3 := mem_lo hy hyl
          refine ⟨?_, trivial⟩
          show inot (andMax (inot xh) (inot xl) (inot (bitFillRight yl)) (inot yl)) ≤ ior x y
          by_cases hyb : y ≤ bitFillRight yl
          · exact orMin_lb h1 h2 h3 hyb (by omega) (by omega) (by omega)
          · have := orMin_lb (x := x) (y := bitFillRight yl) h1 h2 hble (Int.le_refl _)
              (by omega) (by omega) (by omega)
            rw [ior_bfr_absorb (by omega) (by omega) y0] at this
            have := le_ior_right_nonneg (a := x) (b := y) (by omega)
            omega
  | none =>
    cases hyh : Y.hi with
    | none =>
      simp only [IR.containsInt, hxl, hxh, hyl, hyh, Bool.and_true]
      by_cases hc1 : xl ≤ yl
      · simp only [hc1, decide_true, if_true]
        refine ⟨_, rfl, ?_, fun _ _ h => by cases h⟩
        intro x y hx hy
        have := mem_lo hx hxl
        have := mem_lo hy hyl
        have := le_ior_right_nonneg (a := x) (b := y) (by omega)
        exact ⟨by show yl ≤ ior x y; omega, trivial⟩
      · have hc2 : yl ≤ xl := by omega
        simp only [hc1, decide_false, Bool.false_eq_true, if_false, hc2, decide_true, if_true]
        refine ⟨_, rfl, ?_, fun _ _ h => by cases h⟩
        intro x y hx hy
        have := mem_lo hx hxl
        have := mem_lo hy hyl
        have := le_ior_left_nonneg (a := x) (b := y) (by omega)
        exact ⟨by show xl ≤ ior x y; omega, trivial⟩
    | some yh =>
      have hyle := lo_le_hi ey hyl hyh
      simp only [IR.containsInt, hxl, hxh, hyl, hyh, Bool.and_true]
      by_cases hc1 : xl ≤ yl
      · simp only [hc1, decide_true, if_true]
        refine ⟨_, rfl, ?_, fun _ _ h => by cases h⟩
        intro x y hx hy
        have := mem_lo hx hxl
        have := mem_lo hy hyl
        have := le_ior_right_nonneg (a := x) (b := y) (by omega)
        exact ⟨by show yl ≤ ior x y; omega, trivial⟩
      · simp only [hc1, decide_false, Bool.false_eq_true, if_false]
        by_cases hc2 : yl ≤ xl ∧ xl ≤ yh
        · simp only [hc2.1, hc2.2, ge_iff_le, decide_true, Bool.and_self, if_true]
          refine ⟨_, rfl, ?_, fun _ _ h => by cases h⟩
          intro x y hx hy
          have := mem_lo hx hxl
          have := mem_lo hy hyl
          have := le_ior_left_nonneg (a := x) (b := y) (by omega)
          exact ⟨by show xl ≤ ior x y; omega, trivial⟩
        · have hlt : yh < xl := by
            by_contra h; exact hc2 ⟨by omega, by omega⟩
          have hc2' : (decide (yl ≤ xl) && decide (yh ≥ xl)) = false := by
            simp only [ge_iff_le, Bool.and_eq_false_iff, decide_eq_false_iff_not]
            exact Or.inr (by omega)
          have hge : ¬ (yh ≥ xl) := by omega
          have hbp : bitFillRightP xl = some (bitFillRight xl) := by
            unfold bitFillRightP; simp [show ¬ xl < 0 by omega]
          have hb0 := bitFillRight_nonneg x0
          have hble := le_bitFillRight x0
          simp only [hc2', Bool.false_eq_true, if_false]
          simp only [hge, if_false, hbp, Option.bind_some,
            finite yl yh xl (bitFillRight xl) y0 hyle x0 hble, Option.map_some]
          refine ⟨_, rfl, ?_, fun _ _ h => by cases h⟩
          intro x y hx hy
          have h1 := mem_lo hy hyl
          have h2 := mem_hi hy hyh
          have h3 := mem_lo hx hxl
          refine ⟨?_, trivial⟩
          show inot (andMax (inot yh) (inot yl) (inot (bitFillRight xl)) (inot xl)) ≤ ior x y
          rw [ior_comm']
          by_cases hyb : x ≤ bitFillRight xl
          · exact orMin_lb h1 h2 h3 hyb (by omega) (by omega) (by omega)
          · have := orMin_lb (x := y) (y := bitFillRight xl) h1 h2 hble (Int.le_refl _)
              (by omega) (by omega) (by omega)
            rw [ior_bfr_absorb (by omega) (by omega) x0] at this
            have := le_ior_right_nonneg (a := y) (b := x) (by omega)
            omega

/-! ### masks and biasing (`andOneNegOneNonNeg`) -/

theorem two_pow_cast (k : Nat) : ((2 ^ k : Nat) : Int) = (2 : Int) ^ k := by push_cast; rfl

/-- bits of `2^k - 1` -/
theorem B_mask (k n : Nat) : B ((2 : Int) ^ k - 1) n ↔ n < k := by
  have hcast : (2 : Int) ^ k - 1 = Int.ofNat (2 ^ k - 1) := by
    have : 1 ≤ 2 ^ k := Nat.one_le_two_pow
    have e := two_pow_cast k
    simp only [Int.ofNat_eq_natCast]
    omega
  rw [hcast]
  simp only [B, Int.testBit, Nat.testBit_two_pow_sub_one, decide_eq_true_eq]

/-- above bit `k`, a number in `[-2^k, 2^k)` is its sign extension -/
theorem B_of_range {v : Int} {k j : Nat} (h1 : -(2 : Int) ^ k ≤ v) (h2 : v < (2 : Int) ^ k)
    (hj : k ≤ j) : B v j ↔ v < 0 := by
  have e := two_pow_cast k
  have hpow : 2 ^ k ≤ 2 ^ j := Nat.pow_le_pow_right (by decide) hj
  cases v with
  | ofNat m =>
    have hm : m < 2 ^ j := by simp only [Int.ofNat_eq_natCast] at h2; omega
    have : ¬ ((Int.ofNat m) < 0) := by simp only [Int.ofNat_eq_natCast]; omega
    simp only [B, Int.testBit, Nat.testBit_lt_two_pow hm, this]
    simp
  | negSucc m =>
    have hm : m < 2 ^ j := by omega
    have : Int.negSucc m < 0 := by omega
    simp only [B, Int.testBit, Nat.testBit_lt_two_pow hm, this]
    simp

theorem bitLen_range (v : Int) : -(2 : Int) ^ bitLen v < v ∧ v < (2 : Int) ^ bitLen v := by
  unfold bitLen
  by_cases h0 : v.natAbs = 0
  · have hv : v = 0 := by omega
    subst hv; simp
  · rw [if_neg h0]
    have := Nat.lt_log2_self (n := v.natAbs)
    have e := two_pow_cast (v.natAbs.log2 + 1)
    omega

theorem two_pow_le_of_le {a b : Nat} (h : a ≤ b) : (2 : Int) ^ a ≤ (2 : Int) ^ b := by
  have := Nat.pow_le_pow_right (show 0 < 2 by decide) h
  have e1 := two_pow_cast a
  have e2 := two_pow_cast b
  omega

/-- masking a negative number `≥ -2^k` with `2^k - 1` adds `2^k` -/
theorem iand_mask_neg {n : Int} {k : Nat} (h1 : -(2 : Int) ^ k ≤ n) (h2 : n < 0) :
    iand ((2 : Int) ^ k - 1) n = n + (2 : Int) ^ k := by
  have e := two_pow_cast k
  have hcast : (2 : Int) ^ k - 1 = Int.ofNat (2 ^ k - 1) := by
    have : 1 ≤ 2 ^ k := Nat.one_le_two_pow
    simp only [Int.ofNat_eq_natCast]
    omega
  cases n with
  | ofNat m => simp only [Int.ofNat_eq_natCast] at h2; omega
  | negSucc m =>
    have hm : m < 2 ^ k := by omega
    rw [hcast]
    show Int.ofNat (natAndNot (2 ^ k - 1) m) = _
    have : natAndNot (2 ^ k - 1) m = 2 ^ k - (m + 1) := by
      rw [natAndNot_eq_ldiff]
      apply Nat.eq_of_testBit_eq
      intro i
      rw [Nat.testBit_ldiff, Nat.testBit_two_pow_sub_one, Nat.testBit_two_pow_sub_succ hm]
    rw [this]
    simp only [Int.ofNat_eq_natCast]
    omega

/-- a non-negative `o < 2^k` does not see the bias -/
theorem iand_bias {n o : Int} {k : Nat} (o0 : 0 ≤ o) (ok : o < (2 : Int) ^ k) :
    iand (iand ((2 : Int) ^ k - 1) n) o = iand n o := by
  apply eq_of_B; intro j
  rw [B_iand, B_iand, B_iand, B_mask]
  constructor
  · rintro ⟨⟨_, h⟩, h'⟩; exact ⟨h, h'⟩
  · rintro ⟨h, h'⟩
    refine ⟨⟨?_, h⟩, h'⟩
    by_contra hge
    have := (B_of_range (v := o) (k := k) (j := j) (by have := two_pow_pos' k; omega) ok
      (by omega)).1 h'
    omega

theorem gt_mask_of_high_bit {v : Int} {k q : Nat} (hq : k ≤ q) (hv : B v q) (v0 : 0 ≤ v) :
    (2 : Int) ^ k - 1 < v := by
  by_contra hle
  have hm0 : 0 ≤ (2 : Int) ^ k - 1 := by have := two_pow_pos' k; omega
  have hnb : ¬ B ((2 : Int) ^ k - 1) q := by rw [B_mask]; omega
  obtain ⟨q', hq', hd⟩ := drop_above' (by omega : v ≤ (2 : Int) ^ k - 1) (by omega) hv hnb
  have := hd.2.1
  rw [B_mask] at this
  omega

theorem high_bit_of_gt_mask {v : Int} {k : Nat} (hv : (2 : Int) ^ k - 1 < v) :
    ∃ q, k ≤ q ∧ B v q := by
  have hm0 : 0 ≤ (2 : Int) ^ k - 1 := by have := two_pow_pos' k; omega
  obtain ⟨q, h1, h2, _⟩ := drop_of_lt hv (by omega)
  refine ⟨q, ?_, h2⟩
  by_contra hlt
  have : B ((2 : Int) ^ k - 1) q := by rw [B_mask]; omega
  rw [B, h1] at this; cases this

/-! ### `andOneNegOneNonNeg` -/

theorem andOneNeg_spec {N O : IR} {nh ol : Int} (en : N.empty = false) (eo : O.empty = false)
    (hnh : N.hi = some nh) (hol : O.lo = some ol) (n0 : nh < 0) (o0 : 0 ≤ ol) :
    ∃ Z, andOneNegOneNonNeg N O = some Z ∧ (∀ n o, N.mem n → O.mem o → Z.mem (iand n o)) ∧
      (∀ nl oh, N.lo = some nl → O.hi = some oh → TightHull iand N O Z) := by
  have cnn := containsNonNegative_false_of_hi hnh n0
  have cno := containsNegative_false_of_lo hol o0
  unfold andOneNegOneNonNeg
  simp only [en, eo, cnn, cno, Bool.or_self, Bool.false_eq_true, if_false]
  cases hnl : N.lo with
  | none =>
    refine ⟨_, rfl, ?_, fun _ _ h => by cases h⟩
    intro n o hn ho
    have h1 := mem_lo ho hol
    refine ⟨iand_nonneg_of_right (by omega), ?_⟩
    cases hoh : O.hi with
    | none => trivial
    | some oh =>
      have := mem_hi ho hoh
      have := iand_le_right_nonneg (a := n) (b := o) (by omega)
      show iand n o ≤ oh; omega
  | some nl =>
    have hnle := lo_le_hi en hnl hnh
    simp only [hnh, hol]
    cases hoh : O.hi with
    | none =>
      simp only [bitMask_eq]
      generalize hk : max (bitLen nl) (bitLen ol) = k
      have hnlr : -(2 : Int) ^ k ≤ nl := by
        have := (bitLen_range nl).1
        have := two_pow_le_of_le (show bitLen nl ≤ k by omega)
        omega
      have holr : ol < (2 : Int) ^ k := by
        have := (bitLen_range ol).2
        have := two_pow_le_of_le (show bitLen ol ≤ k by omega)
        omega
      have b1 := iand_mask_neg hnlr (by omega)
      have b2 := iand_mask_neg (n := nh) (k := k) (by omega) n0
      obtain ⟨Z', hZ', hs, ht⟩ := andBothNonNeg_spec
        (X := ⟨some (iand ((2 : Int) ^ k - 1) nl), some (iand ((2 : Int) ^ k - 1) nh)⟩)
        (Y := ⟨some ol, some ((2 : Int) ^ k - 1)⟩)
        (xl := iand ((2 : Int) ^ k - 1) nl) (yl := ol)
        (by simp [IR.empty]; omega) (by simp [IR.empty]; omega) rfl rfl (by omega) o0
      obtain ⟨l, h, hZl, _, _⟩ := ht _ _ rfl rfl
      rw [hZ', hZl]
      refine ⟨_, rfl, ?_, fun _ _ _ h => by cases h⟩
      intro n o hn ho
      have h1 := mem_lo hn hnl
      have h2 := mem_hi hn hnh
      have h3 := mem_lo ho hol
      have bn := iand_mask_neg (n := n) (k := k) (by omega) (by omega)
      refine ⟨?_, trivial⟩
      show l ≤ iand n o
      by_cases hom : o ≤ (2 : Int) ^ k - 1
      · have := hs (iand ((2 : Int) ^ k - 1) n) o
          (by simp only [mem_mk, loLe_some, leHi_some]; omega)
          (by simp only [mem_mk, loLe_some, leHi_some]; omega)
        rw [hZl, iand_bias (by omega) (by omega)] at this
        exact this.1
      · have := hs (iand ((2 : Int) ^ k - 1) n) ol
          (by simp only [mem_mk, loLe_some, leHi_some]; omega)
          (by simp only [mem_mk, loLe_some, leHi_some]; omega)
        rw [hZl] at this
        have hl : l ≤ iand (iand ((2 : Int) ^ k - 1) n) ol := this.1
        have := iand_le_right_nonneg (a := iand ((2 : Int) ^ k - 1) n) (b := ol) o0
        obtain ⟨q, hq, hbq⟩ := high_bit_of_gt_mask (v := o) (k := k) (by omega)
        have hnq : B n q := (B_of_range (v := n) (k := k) (j := q) (by omega)
          (by have := two_pow_pos' k; omega) hq).2 (by omega)
        have := gt_mask_of_high_bit (v := iand n o) hq (B_iand.2 ⟨hnq, hbq⟩)
          (iand_nonneg_of_right (by omega))
        omega
    | some oh =>
      have hole := lo_le_hi eo hol hoh
      simp only [bitMask_eq]
      generalize hk : max (bitLen nl) (bitLen oh) = k
      have hnlr : -(2 : Int) ^ k ≤ nl := by
        have := (bitLen_range nl).1
        have := two_pow_le_of_le (show bitLen nl ≤ k by omega)
        omega
      have hohr : oh < (2 : Int) ^ k := by
        have := (bitLen_range oh).2
        have := two_pow_le_of_le (show bitLen oh ≤ k by omega)
        omega
      have b1 := iand_mask_neg hnlr (by omega)
      have b2 := iand_mask_neg (n := nh) (k := k) (by omega) n0
      obtain ⟨Z, hZ, hs, ht⟩ := andBothNonNeg_spec
        (X := ⟨some (iand ((2 : Int) ^ k - 1) nl), some (iand ((2 : Int) ^ k - 1) nh)⟩)
        (Y := O) (xl := iand ((2 : Int) ^ k - 1) nl) (yl := ol)
        (by simp [IR.empty]; omega) eo rfl hol (by omega) o0
      refine ⟨Z, hZ, ?_, ?_⟩
      · intro n o hn ho
        have h1 := mem_lo hn hnl
        have h2 := mem_hi hn hnh
        have h3 := mem_lo ho hol
        have h4 := mem_hi ho hoh
        have bn := iand_mask_neg (n := n) (k := k) (by omega) (by omega)
        have := hs (iand ((2 : Int) ^ k - 1) n) o
          (by simp only [mem_mk, loLe_some, leHi_some]; omega) ho
        rwa [iand_bias (by omega) (by omega)] at this
      · intro nl' oh' _ _
        obtain ⟨l, h, hZl, hl, hh⟩ := ht _ _ rfl hoh
        have transfer : ∀ v, Img iand
            ⟨some (iand ((2 : Int) ^ k - 1) nl), some (iand ((2 : Int) ^ k - 1) nh)⟩ O v →
            Img iand N O v := by
          rintro v ⟨w, o, hw, ho, rfl⟩
          simp only [mem_mk, loLe_some, leHi_some] at hw
          have h3 := mem_lo ho hol
          have h4 := mem_hi ho hoh
          have bn := iand_mask_neg (n := w - (2 : Int) ^ k) (k := k) (by omega) (by omega)
          refine ⟨w - (2 : Int) ^ k, o, mem_of_bounds hnl hnh (by omega) (by omega), ho, ?_⟩
          rw [← iand_bias (n := w - (2 : Int) ^ k) (o := o) (k := k) (by omega) (by omega), bn]
          congr 1; omega
        exact ⟨l, h, hZl, transfer l hl, transfer h hh⟩

/-! ### `notSwap` and `orOneNegOneNonNeg` -/

theorem notSwap_empty (r : IR) : r.notSwap.empty = r.empty := by
  obtain ⟨lo, hi⟩ := r
  cases lo <;> cases hi <;> simp [IR.notSwap, IR.empty, inot]

theorem mem_notSwap (r : IR) (v : Int) : r.notSwap.mem v ↔ r.mem (inot v) := by
  obtain ⟨lo, hi⟩ := r
  cases lo <;> cases hi <;> simp [IR.notSwap, mem_mk, inot] <;> omega

theorem notSwap_notSwap (r : IR) : r.notSwap.notSwap = r := by
  obtain ⟨lo, hi⟩ := r
  cases lo <;> cases hi <;> simp [IR.notSwap, inot_inot]

theorem orOneNeg_spec {N O : IR} {nh ol : Int} (en : N.empty = false) (eo : O.empty = false)
    (hnh : N.hi = some nh) (hol : O.lo = some ol) (n0 : nh < 0) (o0 : 0 ≤ ol) :
    ∃ Z, orOneNegOneNonNeg N O = some Z ∧ (∀ n o, N.mem n → O.mem o → Z.mem (ior n o)) ∧
      (∀ nl oh, N.lo = some nl → O.hi = some oh → TightHull ior N O Z) := by
  obtain ⟨Z0, hZ0, hs, ht⟩ := andOneNeg_spec (N := O.notSwap) (O := N.notSwap)
    (nh := inot ol) (ol := inot nh)
    (by rw [notSwap_empty]; exact eo) (by rw [notSwap_empty]; exact en)
    (by simp [IR.notSwap, hol]) (by simp [IR.notSwap, hnh])
    (by rw [inot_neg_iff]; exact o0) (by unfold inot; omega)
  unfold orOneNegOneNonNeg
  rw [hZ0]
  refine ⟨Z0.notSwap, rfl, ?_, ?_⟩
  · intro n o hn ho
    rw [mem_notSwap]
    have := hs (inot o) (inot n) (by rw [mem_notSwap, inot_inot]; exact ho)
      (by rw [mem_notSwap, inot_inot]; exact hn)
    rw [ior_comm', ior_demorgan, inot_inot]
    exact this
  · intro nl oh hnl hoh
    obtain ⟨l, h, hZl, hl, hh⟩ := ht (inot oh) (inot nl) (by simp [IR.notSwap, hoh])
      (by simp [IR.notSwap, hnl])
    have transfer : ∀ v, Img iand O.notSwap N.notSwap v → Img ior N O (inot v) := by
      rintro v ⟨o', n', ho', hn', rfl⟩
      rw [mem_notSwap] at ho' hn'
      refine ⟨inot n', inot o', hn', ho', ?_⟩
      rw [ior_comm', ior_demorgan, inot_inot, inot_inot]
    refine ⟨inot h, inot l, ?_, transfer h hh, transfer l hl⟩
    rw [hZl]; simp [IR.notSwap]

/-! ### `split2Ways` -/

structure Split2Spec (x neg non : IR) (hn ho : Bool) : Prop where
  neg_of_mem : ∀ v, x.mem v → v < 0 → hn = true ∧ neg.mem v
  non_of_mem : ∀ v, x.mem v → 0 ≤ v → ho = true ∧ non.mem v
  neg_shape : hn = true → neg.empty = false ∧ neg.lo = x.lo ∧ (∃ h, neg.hi = some h ∧ h < 0) ∧
    (x.hi.isSome → neg.hi.isSome) ∧ ∀ v, neg.mem v → x.mem v
  non_shape : ho = true → non.empty = false ∧ non.hi = x.hi ∧ (∃ l, non.lo = some l ∧ 0 ≤ l) ∧
    ∀ v, non.mem v → x.mem v

theorem split2_spec (x : IR) (hne : x.empty = false) :
    Split2Spec x x.split2.1 x.split2.2.1 x.split2.2.2.1 x.split2.2.2.2 := by
  obtain ⟨lo, hi⟩ := x
  unfold IR.split2
  simp only [hne, Bool.false_eq_true, if_false]
  cases lo with
  | none =>
    cases hi with
    | none =>
      simp only [Bool.false_eq_true, if_false]
      constructor <;> simp [mem_mk, IR.empty] <;> (repeat' (first | omega | intro _ | refine ⟨?_, ?_⟩))
    | some b =>
      by_cases hb : b < 0
      · simp only [hb, decide_true, Bool.false_eq_true, if_false, if_true]
        constructor <;> simp [mem_mk, IR.empty] <;> (repeat' (first | omega | intro _ | refine ⟨?_, ?_⟩))
      · simp only [hb, decide_false, Bool.false_eq_true, if_false]
        constructor <;> simp [mem_mk, IR.empty] <;> (repeat' (first | omega | intro _ | refine ⟨?_, ?_⟩))
  | some a =>
    by_cases ha : a ≥ 0
    · simp only [ha, decide_true, if_true]
      cases hi with
      | none => constructor <;> simp [mem_mk, IR.empty] <;> (repeat' (first | omega | intro _ | refine ⟨?_, ?_⟩))
      | some b =>
        simp [IR.empty] at hne
        constructor <;> simp [mem_mk, IR.empty] <;> (repeat' (first | omega | intro _ | refine ⟨?_, ?_⟩))
    · cases hi with
      | none =>
        simp only [ha, decide_false, Bool.false_eq_true, if_false]
        constructor <;> simp [mem_mk, IR.empty] <;> (repeat' (first | omega | intro _ | refine ⟨?_, ?_⟩))
      | some b =>
        simp [IR.empty] at hne
        by_cases hb : b < 0
        · simp only [ha, hb, decide_true, decide_false, Bool.false_eq_true, if_false, if_true]
          constructor <;> simp [mem_mk, IR.empty] <;> (repeat' (first | omega | intro _ | refine ⟨?_, ?_⟩))
        · simp only [ha, hb, decide_false, Bool.false_eq_true, if_false]
          constructor <;> simp [mem_mk, IR.empty] <;> (repeat' (first | omega | intro _ | refine ⟨?_, ?_⟩))

/-! ### `inPlaceUnite` and the accumulation steps of `And` / `Or` -/

theorem inPlaceUnite_mem (z w : IR) (v : Int) (h : z.mem v ∨ w.mem v) :
    (inPlaceUnite z w).mem v := by
  unfold inPlaceUnite
  by_cases hw : w.empty = true
  · simp only [hw, if_true]
    rcases h with h | h
    · exact h
    · exact absurd h (not_mem_of_empty hw v)
  · simp only [hw, Bool.false_eq_true, if_false]
    by_cases hz : z.empty = true
    · have hv : w.mem v := by
        rcases h with h | h
        · exact absurd h (not_mem_of_empty hz v)
        · exact h
      simp only [hz, if_true]
      obtain ⟨wl, wh⟩ := w
      cases wl <;> cases wh <;> simp_all [mem_mk] <;> (try split) <;> (try split) <;> omega
    · simp only [hz, Bool.false_eq_true, if_false]
      obtain ⟨zl, zh⟩ := z
      obtain ⟨wl, wh⟩ := w
      cases zl <;> cases zh <;> cases wl <;> cases wh <;>
        simp_all [mem_mk] <;> (try split) <;> (try split) <;> omega

/-- the accumulated interval is still empty, or finite with bounds satisfying `S` -/
def TInv (S : Int → Prop) (Z : IR) : Prop :=
  Z.empty = true ∨ ∃ l h, Z = ⟨some l, some h⟩ ∧ l ≤ h ∧ S l ∧ S h

/-- a part: finite, non-empty, bounds satisfying `S` -/
def TPart (S : Int → Prop) (W : IR) : Prop :=
  ∃ l h, W = ⟨some l, some h⟩ ∧ l ≤ h ∧ S l ∧ S h

theorem inPlaceUnite_tinv {S : Int → Prop} {Z W : IR} (hZ : TInv S Z) (hW : TPart S W) :
    TInv S (inPlaceUnite Z W) := by
  obtain ⟨l', h', rfl, hle', sl', sh'⟩ := hW
  right
  rcases hZ with hZ | ⟨l, h, rfl, hle, sl, sh⟩
  · refine ⟨l', h', ?_, hle', sl', sh'⟩
    unfold inPlaceUnite
    have : (IR.mk (some l') (some h')).empty = false := by simp [IR.empty]; omega
    simp [this, hZ]
  · have e1 : (IR.mk (some l') (some h')).empty = false := by simp [IR.empty]; omega
    have e2 : (IR.mk (some l) (some h)).empty = false := by simp [IR.empty]; omega
    refine ⟨if l > l' then l' else l, if h < h' then h' else h, ?_, ?_, ?_, ?_⟩
    · unfold inPlaceUnite; simp [e1, e2]
    · split <;> split <;> omega
    · split; exact sl'; exact sl
    · split; exact sh'; exact sh

/-- one `if has… { z.inPlaceUnite(part) }` step, with the part possibly panicking (`none`) -/
def stepF {α : Type} (c : Bool) (o : Option α) (g : IR → α → IR) (z : Option IR) : Option IR :=
  if c then z.bind fun z => o.map (g z) else z

theorem stepF_spec {α : Type} {c : Bool} {o : Option α} {g : IR → α → IR} {Z : IR}
    (R : IR → Prop)
    (hW : c = true → ∃ a, o = some a ∧ ∃ W, (∀ z, g z a = inPlaceUnite z W) ∧ R W) :
    ∃ Z', stepF c o g (some Z) = some Z' ∧ (∀ v, Z.mem v → Z'.mem v) ∧
      (c = true → ∃ W, R W ∧ ∀ v, W.mem v → Z'.mem v) ∧
      (∀ S : Int → Prop, TInv S Z → (∀ W, R W → TPart S W) → TInv S Z') := by
  cases c with
  | false =>
    exact ⟨Z, rfl, fun _ h => h, fun h => Bool.noConfusion h, fun _ h _ => h⟩
  | true =>
    obtain ⟨a, ha, W, hg, hR⟩ := hW rfl
    refine ⟨inPlaceUnite Z W, ?_, ?_, ?_, ?_⟩
    · simp [stepF, ha, hg]
    · intro v hv; exact inPlaceUnite_mem Z W v (Or.inl hv)
    · intro _; exact ⟨W, hR, fun v hv => inPlaceUnite_mem Z W v (Or.inr hv)⟩
    · intro S hZ hp; exact inPlaceUnite_tinv hZ (hp W hR)

/-- what a part `W` must satisfy: sound on its sub-box, tight when `fin` holds -/
def PartSpec (f : Int → Int → Int) (PX PY : IR) (fin : Prop) (W : IR) : Prop :=
  (∀ x y, PX.mem x → PY.mem y → W.mem (f x y)) ∧ (fin → TightHull f PX PY W)

theorem tpart_of_partSpec {f : Int → Int → Int} {PX PY W : IR} {fin : Prop} {S : Int → Prop}
    (h : PartSpec f PX PY fin W) (hfin : fin) (ex : PX.empty = false) (ey : PY.empty = false)
    (hS : ∀ v, Img f PX PY v → S v) : TPart S W := by
  obtain ⟨l, hh, rfl, hl, hhi⟩ := h.2 hfin
  obtain ⟨x, hx⟩ := exists_mem_of_not_empty ex
  obtain ⟨y, hy⟩ := exists_mem_of_not_empty ey
  have := h.1 x y hx hy
  simp only [mem_mk, loLe_some, leHi_some] at this
  exact ⟨l, hh, rfl, by omega, hS l hl, hS hh hhi⟩

theorem and_eq (x y : IR) : Interval.and x y =
    if x.empty || y.empty then some mkEmpty
    else if !x.containsNegative && !y.containsNegative then andBothNonNeg x y
    else
      let sx := x.split2
      let sy := y.split2
      stepF (sx.2.2.2 && sy.2.2.2) (andBothNonNeg sx.2.1 sy.2.1) inPlaceUnite
       (stepF (sx.2.2.2 && sy.2.2.1) (andOneNegOneNonNeg sy.1 sx.2.1) inPlaceUnite
        (stepF (sx.2.2.1 && sy.2.2.2) (andOneNegOneNonNeg sx.1 sy.2.1) inPlaceUnite
         (stepF (sx.2.2.1 && sy.2.2.1) (orBothNonNeg sx.1.notSwap sy.1.notSwap)
           (fun z w => inPlaceUnite z w.notSwap) (some mkEmpty)))) := by
  unfold Interval.and stepF; rfl

theorem or_eq (x y : IR) : Interval.or x y =
    if x.empty || y.empty then some mkEmpty
    else if !x.containsNegative && !y.containsNegative then orBothNonNeg x y
    else
      let sx := x.split2
      let sy := y.split2
      stepF (sx.2.2.2 && sy.2.2.2) (orBothNonNeg sx.2.1 sy.2.1) inPlaceUnite
       (stepF (sx.2.2.2 && sy.2.2.1) (orOneNegOneNonNeg sy.1 sx.2.1) inPlaceUnite
        (stepF (sx.2.2.1 && sy.2.2.2) (orOneNegOneNonNeg sx.1 sy.2.1) inPlaceUnite
         (stepF (sx.2.2.1 && sy.2.2.1) (andBothNonNeg sx.1.notSwap sy.1.notSwap)
           (fun z w => inPlaceUnite z w.notSwap) (some mkEmpty)))) := by
  unfold Interval.or stepF; rfl

end WuffsVerif.Interval
