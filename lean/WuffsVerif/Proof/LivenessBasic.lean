/-
C05 — component-wise facts about the liveness vectors and the per-variable transfer functions
of `Model/Liveness.lean`.  Everything downstream reasons about one fixed variable `v < n`.
-/
import WuffsVerif.Model.LivenessSem

namespace WuffsVerif.Liveness
variable {n : Nat}

/-! ### the three-point order -/

instance : LE Lness := ⟨fun a b => a.toNat ≤ b.toNat⟩
instance (a b : Lness) : Decidable (a ≤ b) := inferInstanceAs (Decidable (a.toNat ≤ b.toNat))

theorem Lness.le_def (a b : Lness) : a ≤ b ↔ a.toNat ≤ b.toNat := Iff.rfl
theorem Lness.le_refl (a : Lness) : a ≤ a := Nat.le_refl _
theorem Lness.le_trans {a b c : Lness} (h1 : a ≤ b) (h2 : b ≤ c) : a ≤ c := Nat.le_trans h1 h2
theorem Lness.le_join_left (a b : Lness) : a ≤ a.join b := by cases a <;> cases b <;> decide
theorem Lness.le_join_right (a b : Lness) : b ≤ a.join b := by cases a <;> cases b <;> decide
theorem Lness.join_le {a b c : Lness} (h1 : a ≤ c) (h2 : b ≤ c) : a.join b ≤ c := by
  cases a <;> cases b <;> cases c <;> simp_all [Lness.le_def, Lness.join, Lness.toNat]
theorem Lness.strong_le {a : Lness} (h : Lness.strong ≤ a) : a = Lness.strong := by
  cases a <;> simp_all [Lness.le_def, Lness.toNat]
theorem Lness.le_strong (a : Lness) : a ≤ Lness.strong := by cases a <;> decide
theorem Lness.none_le (a : Lness) : Lness.none ≤ a := by cases a <;> decide
theorem Lness.join_eq_left_iff {a b : Lness} : a.join b = a ↔ b ≤ a := by
  cases a <;> cases b <;> decide
theorem Lness.none_join (a : Lness) : Lness.none.join a = a := by cases a <;> rfl
theorem Lness.join_strong_left (a : Lness) : Lness.strong.join a = Lness.strong := by cases a <;> rfl
theorem Lness.join_strong_right (a : Lness) : a.join Lness.strong = Lness.strong := by cases a <;> rfl

/-! ### `get` of every vector operation -/

@[simp] theorem Lv.get_clear (i : Nat) : (Lv.clear : Lv n).get i = Lness.none := by
  unfold Lv.get Lv.clear
  split <;> simp

theorem Lv.get_reconcile (r s : Lv n) (i : Nat) :
    (r.reconcile s).get i = (r.get i).join (s.get i) := by
  unfold Lv.get Lv.reconcile
  split
  · simp
  · rfl

theorem Lv.get_modify (r : Lv n) (i : Nat) (f : Lness → Lness) (j : Nat) :
    (r.modify i f).get j = if i = j ∧ j < n then f (r.get j) else r.get j := by
  unfold Lv.modify Lv.get
  by_cases hi : i < n
  · by_cases hj : j < n
    · by_cases hij : i = j
      · subst hij; simp [hi]
      · simp [hi, hj, hij, Vector.getElem_set_ne]
    · simp [hi, hj]
  · by_cases hj : j < n
    · have : i ≠ j := by omega
      simp [hi, hj, this]
    · simp [hi, hj]

theorem Lv.get_raiseNoneToWeak (r : Lv n) (i : Nat) (h : i < n) :
    r.raiseNoneToWeak.get i = (r.get i).raiseNoneToWeak := by
  unfold Lv.raiseNoneToWeak Lv.get
  simp [h]

theorem Lv.get_of_ge (r : Lv n) (i : Nat) (h : ¬ i < n) : r.get i = Lness.none := by
  unfold Lv.get; simp [h]

/-! ### per-variable transfer functions -/

/-- `doExpr1` seen from variable `v`. -/
def expr1T (e : Ex) (strong : Bool) (v : Nat) (a : Lness) : Lness :=
  if v ∈ e.vars then (if strong then Lness.strong else a.raiseWeakToStrong) else a

/-- `doExpr` seen from variable `v`. -/
def exprT (e : Ex) (v : Nat) (a : Lness) : Lness :=
  let a := expr1T e e.allToStrong v a
  if e.coro then a.raiseNoneToWeak else a

theorem Lness.raiseWeakToStrong_idem (a : Lness) :
    a.raiseWeakToStrong.raiseWeakToStrong = a.raiseWeakToStrong := by cases a <;> rfl

private theorem foldl_get (strong : Bool) (v : Nat) (hv : v < n) :
    ∀ (vs : List Nat) (r : Lv n),
      (vs.foldl (fun r i => if strong then r.raiseToStrong i else r.raiseWeakToStrong i) r).get v =
        if v ∈ vs then (if strong then Lness.strong else (r.get v).raiseWeakToStrong) else r.get v
  | [], r => by simp
  | i :: vs, r => by
    simp only [List.foldl_cons]
    rw [foldl_get strong v hv vs]
    cases strong
    · simp only [Bool.false_eq_true, ↓reduceIte, Lv.raiseWeakToStrong, Lv.get_modify, List.mem_cons]
      by_cases hi : i = v
      · subst hi; simp [hv, Lness.raiseWeakToStrong_idem]
      · have : ¬ v = i := fun h => hi h.symm
        simp [hi, this]
    · simp only [↓reduceIte, Lv.raiseToStrong, Lv.get_modify, List.mem_cons]
      by_cases hi : i = v
      · subst hi; simp [hv]
      · have : ¬ v = i := fun h => hi h.symm
        simp [hi, this]

theorem doExpr1_get (r : Lv n) (e : Ex) (strong : Bool) (v : Nat) (hv : v < n) :
    (doExpr1 r e strong).get v = expr1T e strong v (r.get v) := by
  unfold doExpr1 expr1T
  exact foldl_get strong v hv e.vars r

theorem doExpr_get (r : Lv n) (e : Ex) (v : Nat) (hv : v < n) :
    (doExpr r e).get v = exprT e v (r.get v) := by
  unfold doExpr exprT
  cases e.coro
  · simp [doExpr1_get _ _ _ _ hv]
  · simp [doExpr1_get _ _ _ _ hv, Lv.get_raiseNoneToWeak _ _ hv]

theorem le_exprT (e : Ex) (v : Nat) (a : Lness) : a ≤ exprT e v a := by
  unfold exprT expr1T
  cases a <;> cases e.coro <;> cases e.allToStrong <;> by_cases h : v ∈ e.vars <;> simp [h] <;> decide

theorem le_expr1T (e : Ex) (s : Bool) (v : Nat) (a : Lness) : a ≤ expr1T e s v a := by
  unfold expr1T
  cases a <;> cases s <;> by_cases h : v ∈ e.vars <;> simp [h] <;> decide

end WuffsVerif.Liveness
