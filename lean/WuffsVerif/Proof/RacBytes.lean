/-
C13 helper lemmas, byte level: little-endian words, the bit fields of the RAC index node's
8-byte segments, array/`getD` plumbing for `Spec.parseNode`.  Core Lean only.
-/
import WuffsVerif.Model.Rac.ChunkWriter
import WuffsVerif.Model.Rac.Spec

namespace WuffsVerif.Rac
open Spec

/-! ### little-endian words -/

/-- little-endian value of a byte list -/
def leVal (bs : Bytes) : Nat := bs.foldr (fun x acc => x.toNat + 256 * acc) 0

theorem leVal_putU64LE (v : Nat) : leVal (putU64LE v) = v % 2 ^ 64 := by
  simp only [leVal, putU64LE, List.foldr, UInt8.toNat_ofNat', Nat.shiftRight_eq_div_pow]
  omega

theorem putU64LE_length (v : Nat) : (putU64LE v).length = 8 := rfl

theorem u64At_eq (b : Bytes) (off : Nat) : u64At b off = leVal ((b.drop off).take 8) := rfl

theorem flatten_words_length (ws : List Nat) : ((ws.map putU64LE).flatten).length = 8 * ws.length := by
  induction ws with
  | nil => rfl
  | cons w ws ih => simp only [List.map_cons, List.flatten_cons, List.length_append, ih, putU64LE_length, List.length_cons]; omega

/-- the `i`-th 8-byte segment of a buffer made of `putU64LE` words -/
theorem u64At_words (ws : List Nat) (i : Nat) :
    u64At ((ws.map putU64LE).flatten) (8 * i) = ws.getD i 0 % 2 ^ 64 := by
  induction ws generalizing i with
  | nil => simp [u64At_eq, leVal]
  | cons w ws ih =>
    cases i with
    | zero =>
      simp only [List.map_cons, List.flatten_cons, Nat.mul_zero, u64At_eq, List.drop_zero, List.getD_cons_zero]
      rw [List.take_append_of_le_length (by simp [putU64LE_length]), List.take_of_length_le (by simp [putU64LE_length])]
      exact leVal_putU64LE w
    | succ j =>
      have := ih j
      simp only [List.map_cons, List.flatten_cons, List.getD_cons_succ]
      rw [u64At_eq] at this ⊢
      have e : 8 * (j + 1) = (putU64LE w).length + 8 * j := by simp [putU64LE_length]; omega
      rw [e, List.drop_append, List.drop_of_length_le (Nat.le_add_right _ _), List.nil_append,
        Nat.add_sub_cancel_left]
      exact this

/-! ### bit fields of a segment -/

theorem or_shift_eq_add (a b k : Nat) (h : a < 2 ^ k) : a ||| (b <<< k) = a + b * 2 ^ k := by
  rw [Nat.or_comm, ← Nat.shiftLeft_add_eq_or_of_lt h, Nat.shiftLeft_eq]; omega

/-- a segment `x + l·2^48 + t·2^56` splits into its three fields -/
theorem fields_of_sum (x l t : Nat) (hx : x < 2 ^ 48) (hl : l < 256) (ht : t < 256) :
    low48 (x + l * 2 ^ 48 + t * 2 ^ 56) = x ∧ byte6 (x + l * 2 ^ 48 + t * 2 ^ 56) = l ∧
    byte7 (x + l * 2 ^ 48 + t * 2 ^ 56) = t ∧ x + l * 2 ^ 48 + t * 2 ^ 56 < 2 ^ 64 := by
  simp only [low48, byte6, byte7, Nat.shiftRight_eq_div_pow]
  omega

theorem fields_mod (v : Nat) : low48 (v % 2 ^ 64) = low48 v ∧ byte6 (v % 2 ^ 64) = byte6 v ∧
    byte7 (v % 2 ^ 64) = byte7 v := by
  simp only [low48, byte6, byte7, Nat.shiftRight_eq_div_pow]
  omega

/-! ### `getD` on the arrays built by `Spec.parseNode` -/

theorem getD_map_range (f : Nat → Nat) (n i : Nat) :
    ((List.range n).map f).toArray.getD i 0 = if i < n then f i else 0 := by
  rw [Array.getD_eq_getD_getElem?]
  by_cases h : i < n
  · simp [h]
  · simp [h]

theorem getD_cons_map_range' (f : Nat → Nat) (n i : Nat) :
    (0 :: (List.range' 1 n).map f).toArray.getD i 0 = if i = 0 then 0 else if i ≤ n then f i else 0 := by
  rw [Array.getD_eq_getD_getElem?]
  cases i with
  | zero => simp
  | succ j =>
    by_cases h : j < n
    · simp [h, Nat.add_comm]
      omega
    · simp [h]
      omega

end WuffsVerif.Rac
