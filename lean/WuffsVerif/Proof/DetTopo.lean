/-
C20 helper: the depth-first search of lang/ast/sort.go (Model/Det.lean `tssVisit`,
`topoSortWith`) returns, when it succeeds, a duplicate-free list of all struct
indices in which every struct follows the structs its fields resolve to.
Core Lean only.
-/
import WuffsVerif.Model.Det
import WuffsVerif.Proof.Det

namespace WuffsVerif.Det
open List

abbrev TSt := List Nat × Array Mark

/-- the mark of node `i` (Go: `marks[n]`, zero value = unmarked) -/
def markOf (marks : Array Mark) (i : Nat) : Mark := marks[i]?.getD .unmarked

theorem markOf_set_self (marks : Array Mark) (k : Nat) (v : Mark) (h : k < marks.size) :
    markOf (marks.setIfInBounds k v) k = v := by
  simp [markOf, Array.getElem?_setIfInBounds_self, h]

theorem markOf_set_ne (marks : Array Mark) (k i : Nat) (v : Mark) (h : k ≠ i) :
    markOf (marks.setIfInBounds k v) i = markOf marks i := by
  simp [markOf, Array.getElem?_setIfInBounds_ne h]

/-- the loop over the fields of one struct inside tssVisit -/
def visitFields (ns : Array StructDecl) (b : Key → Option Nat) (fuel : Nat) (fields : List Key) (st : TSt) : Option TSt :=
  fields.foldl (fun (acc : Option TSt) x =>
    match acc with
    | none => none
    | some st =>
      match b x with
      | some o => tssVisit ns b fuel st o
      | none => some st) (some st)

theorem tssVisit_succ (ns : Array StructDecl) (b : Key → Option Nat) (fuel : Nat) (dst : List Nat) (marks : Array Mark) (n : Nat) :
    tssVisit ns b (fuel + 1) (dst, marks) n =
      match markOf marks n with
      | .temporary => none
      | .permanent => some (dst, marks)
      | .unmarked =>
        match visitFields ns b fuel ((ns[n]?.map (·.fieldTypes)).getD []) (dst, marks.setIfInBounds n .temporary) with
        | none => none
        | some (dst, marks) => some (dst ++ [n], marks.setIfInBounds n .permanent) := rfl

theorem visitFields_none_aux (ns : Array StructDecl) (b : Key → Option Nat) (fuel : Nat) (fields : List Key) :
    fields.foldl (fun (acc : Option TSt) x =>
      match acc with
      | none => none
      | some st =>
        match b x with
        | some o => tssVisit ns b fuel st o
        | none => some st) none = none := by
  induction fields with
  | nil => rfl
  | cons x xs ih => simpa using ih

theorem visitFields_cons (ns : Array StructDecl) (b : Key → Option Nat) (fuel : Nat) (x : Key) (xs : List Key) (st : TSt) :
    visitFields ns b fuel (x :: xs) st =
      match b x with
      | some o =>
        match tssVisit ns b fuel st o with
        | none => none
        | some st1 => visitFields ns b fuel xs st1
      | none => visitFields ns b fuel xs st := by
  unfold visitFields
  simp only [foldl_cons]
  cases hb : b x with
  | none => rfl
  | some o =>
    simp only []
    cases ht : tssVisit ns b fuel st o with
    | none => exact visitFields_none_aux ns b fuel xs
    | some st1 => rfl

/-- the structs the fields of struct `i` resolve to -/
def depsOf (ns : Array StructDecl) (b : Key → Option Nat) (i : Nat) : List Nat :=
  ((ns[i]?.map (·.fieldTypes)).getD []).filterMap b

/-- the search's invariant -/
structure TInv (ns : Array StructDecl) (b : Key → Option Nat) (st : TSt) : Prop where
  size : st.2.size = ns.size
  perm : ∀ i, markOf st.2 i = .permanent ↔ i ∈ st.1
  nodup : st.1.Nodup
  bound : ∀ i ∈ st.1, i < ns.size
  closed : ∀ i ∈ st.1, ∀ d ∈ depsOf ns b i, ∃ pre suf, st.1 = pre ++ i :: suf ∧ d ∈ pre

/-- what one successful call of tssVisit on node `k` guarantees -/
structure TPost (ns : Array StructDecl) (b : Key → Option Nat) (st : TSt) (k : Nat) (st' : TSt) : Prop where
  inv : TInv ns b st'
  ext : ∃ new, st'.1 = st.1 ++ new
  mem : k ∈ st'.1
  temp : ∀ i, markOf st'.2 i = .temporary ↔ markOf st.2 i = .temporary

/-- … and the loop over a struct's fields -/
structure FPost (ns : Array StructDecl) (b : Key → Option Nat) (st : TSt) (fields : List Key) (st' : TSt) : Prop where
  inv : TInv ns b st'
  ext : ∃ new, st'.1 = st.1 ++ new
  temp : ∀ i, markOf st'.2 i = .temporary ↔ markOf st.2 i = .temporary
  mem : ∀ x ∈ fields, ∀ o, b x = some o → o ∈ st'.1

theorem visitFields_spec (ns : Array StructDecl) (b : Key → Option Nat) (hb : ∀ q d, b q = some d → d < ns.size) (fuel : Nat)
    (ih : ∀ st k st', TInv ns b st → k < ns.size → tssVisit ns b fuel st k = some st' → TPost ns b st k st') :
    ∀ (fields : List Key) (st st' : TSt), TInv ns b st → visitFields ns b fuel fields st = some st' → FPost ns b st fields st'
  | [], st, st', hi, h => by
    simp only [visitFields, foldl_nil, Option.some.injEq] at h
    subst h
    exact ⟨hi, ⟨[], by simp⟩, fun _ => Iff.rfl, fun x hx => by simp at hx⟩
  | x :: xs, st, st', hi, h => by
    rw [visitFields_cons] at h
    cases hbx : b x with
    | none =>
      rw [hbx] at h
      have r := visitFields_spec ns b hb fuel ih xs st st' hi h
      refine ⟨r.inv, r.ext, r.temp, ?_⟩
      intro y hy o hyo
      rcases mem_cons.mp hy with rfl | hy
      · rw [hbx] at hyo; cases hyo
      · exact r.mem y hy o hyo
    | some o =>
      rw [hbx] at h
      simp only [] at h
      cases ht : tssVisit ns b fuel st o with
      | none => rw [ht] at h; cases h
      | some st1 =>
        rw [ht] at h
        simp only [] at h
        have p1 := ih st o st1 hi (hb x o hbx) ht
        have r := visitFields_spec ns b hb fuel ih xs st1 st' p1.inv h
        obtain ⟨n1, e1⟩ := p1.ext
        obtain ⟨n2, e2⟩ := r.ext
        refine ⟨r.inv, ⟨n1 ++ n2, by rw [e2, e1, append_assoc]⟩, fun i => (r.temp i).trans (p1.temp i), ?_⟩
        intro y hy o' hyo
        rcases mem_cons.mp hy with rfl | hy
        · rw [hbx] at hyo
          cases hyo
          rw [e2]
          exact mem_append_left _ p1.mem
        · exact r.mem y hy o' hyo

theorem tssVisit_spec (ns : Array StructDecl) (b : Key → Option Nat) (hb : ∀ q d, b q = some d → d < ns.size) :
    ∀ (fuel : Nat) (st : TSt) (k : Nat) (st' : TSt),
      TInv ns b st → k < ns.size → tssVisit ns b fuel st k = some st' → TPost ns b st k st'
  | 0, _, _, _, _, _, h => by simp [tssVisit] at h
  | fuel + 1, (dst, marks), k, st', hi, hk, h => by
    rw [tssVisit_succ] at h
    have hksz : k < marks.size := by have := hi.size; simp only at this; omega
    cases hm : markOf marks k with
    | temporary => rw [hm] at h; cases h
    | permanent =>
      rw [hm] at h
      simp only [Option.some.injEq] at h
      subst h
      exact ⟨hi, ⟨[], by simp⟩, (hi.perm k).mp hm, fun _ => Iff.rfl⟩
    | unmarked =>
      rw [hm] at h
      simp only [] at h
      have hknot : k ∉ dst := fun hmem => by
        have := (hi.perm k).mpr hmem
        simp only at this
        rw [hm] at this
        cases this
      -- the state with k marked temporary still satisfies the invariant
      have hi1 : TInv ns b (dst, marks.setIfInBounds k .temporary) := by
        refine ⟨by simpa [Array.size_setIfInBounds] using hi.size, ?_, hi.nodup, hi.bound, hi.closed⟩
        intro i
        simp only
        by_cases hik : k = i
        · subst hik
          rw [markOf_set_self marks k _ hksz]
          constructor
          · intro h'; cases h'
          · intro h'; exact absurd h' hknot
        · rw [markOf_set_ne marks k i _ hik]
          exact hi.perm i
      cases hv : visitFields ns b fuel ((ns[k]?.map (·.fieldTypes)).getD []) (dst, marks.setIfInBounds k .temporary) with
      | none => rw [hv] at h; cases h
      | some st2 =>
        obtain ⟨dst2, m2⟩ := st2
        rw [hv] at h
        simp only [Option.some.injEq] at h
        subst h
        have r := visitFields_spec ns b hb fuel (tssVisit_spec ns b hb fuel) _ _ _ hi1 hv
        have hsz2 : k < m2.size := by have := r.inv.size; simp only at this; omega
        have htemp2 : markOf m2 k = .temporary := by
          have := (r.temp k).mpr (by simp only; exact markOf_set_self marks k _ hksz)
          simpa using this
        have hknot2 : k ∉ dst2 := fun hmem => by
          have := (r.inv.perm k).mpr hmem
          simp only at this
          rw [htemp2] at this
          cases this
        obtain ⟨n2, e2⟩ := r.ext
        simp only at e2
        refine ⟨⟨?_, ?_, ?_, ?_, ?_⟩, ⟨n2 ++ [k], by simp only; rw [e2, append_assoc]⟩, by simp, ?_⟩
        · simpa [Array.size_setIfInBounds] using r.inv.size
        · intro i
          simp only
          by_cases hik : k = i
          · subst hik
            rw [markOf_set_self m2 k _ hsz2]
            simp
          · rw [markOf_set_ne m2 k i _ hik]
            have := r.inv.perm i
            simp only at this
            rw [this]
            simp only [mem_append, mem_singleton]
            constructor
            · intro h'; exact Or.inl h'
            · rintro (h' | h')
              · exact h'
              · exact absurd h'.symm hik
        · simp only
          exact nodup_append.mpr ⟨r.inv.nodup, by simp, by
            intro a ha c hc
            simp only [mem_singleton] at hc
            subst hc
            intro hac
            subst hac
            exact hknot2 ha⟩
        · intro i hi'
          simp only [mem_append, mem_singleton] at hi'
          rcases hi' with hi' | rfl
          · exact r.inv.bound i hi'
          · exact hk
        · intro i hi' d hd
          simp only [mem_append, mem_singleton] at hi'
          rcases hi' with hi' | rfl
          · obtain ⟨pre, suf, e, hdp⟩ := r.inv.closed i hi' d hd
            simp only at e
            exact ⟨pre, suf ++ [k], by simp only; rw [e]; simp, hdp⟩
          · refine ⟨dst2, [], by simp, ?_⟩
            unfold depsOf at hd
            obtain ⟨x, hx, hxd⟩ := mem_filterMap.mp hd
            exact r.mem x hx d hxd
        · intro i
          simp only
          by_cases hik : k = i
          · subst hik
            rw [markOf_set_self m2 k _ hsz2, hm]
            simp
          · rw [markOf_set_ne m2 k i _ hik]
            have h1 := r.temp i
            simp only at h1
            rw [h1, markOf_set_ne marks k i _ hik]

/-! ### the outer loop of TopologicalSortStructs -/

def topLoop (ns : Array StructDecl) (b : Key → Option Nat) (fuel : Nat) (l : List Nat) (st : TSt) : Option TSt :=
  l.foldl (fun (acc : Option TSt) n =>
    match acc with
    | none => none
    | some (dst, marks) =>
      if marks[n]?.getD .unmarked == .unmarked then tssVisit ns b fuel (dst, marks) n
      else some (dst, marks)) (some st)

theorem topoSortWith_eq (b : Key → Option Nat) (ns : List StructDecl) :
    topoSortWith b ns =
      (topLoop ns.toArray b (ns.length + 2) (List.range ns.length)
        ([], Array.replicate ns.length Mark.unmarked)).map (·.1) := rfl

theorem topLoop_none_aux (ns : Array StructDecl) (b : Key → Option Nat) (fuel : Nat) (l : List Nat) :
    l.foldl (fun (acc : Option TSt) n =>
      match acc with
      | none => none
      | some (dst, marks) =>
        if marks[n]?.getD .unmarked == .unmarked then tssVisit ns b fuel (dst, marks) n
        else some (dst, marks)) none = none := by
  induction l with
  | nil => rfl
  | cons x xs ih => simpa using ih

theorem topLoop_cons (ns : Array StructDecl) (b : Key → Option Nat) (fuel : Nat) (x : Nat) (xs : List Nat) (st : TSt) :
    topLoop ns b fuel (x :: xs) st =
      if markOf st.2 x = .unmarked then
        match tssVisit ns b fuel st x with
        | none => none
        | some st1 => topLoop ns b fuel xs st1
      else topLoop ns b fuel xs st := by
  obtain ⟨dst, marks⟩ := st
  unfold topLoop
  simp only [foldl_cons, markOf]
  by_cases hm : marks[x]?.getD Mark.unmarked = Mark.unmarked
  · simp only [hm, beq_self_eq_true, if_true]
    cases ht : tssVisit ns b fuel (dst, marks) x with
    | none => exact topLoop_none_aux ns b fuel xs
    | some st1 => rfl
  · have : (marks[x]?.getD Mark.unmarked == Mark.unmarked) = false := by simpa using hm
    simp only [this, hm, if_false, Bool.false_eq_true]

theorem topLoop_spec (ns : Array StructDecl) (b : Key → Option Nat) (hb : ∀ q d, b q = some d → d < ns.size) (fuel : Nat) :
    ∀ (l : List Nat) (st st' : TSt), (∀ i ∈ l, i < ns.size) → TInv ns b st → (∀ i, markOf st.2 i ≠ .temporary) →
      topLoop ns b fuel l st = some st' →
      TInv ns b st' ∧ (∀ i, markOf st'.2 i ≠ .temporary) ∧ (∀ i ∈ st.1, i ∈ st'.1) ∧ ∀ i ∈ l, i ∈ st'.1
  | [], st, st', _, hi, hnt, h => by
    simp only [topLoop, foldl_nil, Option.some.injEq] at h
    subst h
    exact ⟨hi, hnt, fun _ h => h, fun i hi' => by simp at hi'⟩
  | x :: xs, st, st', hl, hi, hnt, h => by
    rw [topLoop_cons] at h
    have hx : x < ns.size := hl x (by simp)
    have hl' : ∀ i ∈ xs, i < ns.size := fun i hi' => hl i (by simp [hi'])
    by_cases hm : markOf st.2 x = .unmarked
    · simp only [hm, if_true] at h
      cases ht : tssVisit ns b fuel st x with
      | none => rw [ht] at h; cases h
      | some st1 =>
        rw [ht] at h
        simp only [] at h
        have p := tssVisit_spec ns b hb fuel st x st1 hi hx ht
        have hnt1 : ∀ i, markOf st1.2 i ≠ .temporary := fun i h' => hnt i ((p.temp i).mp h')
        obtain ⟨r1, r2, r3, r4⟩ := topLoop_spec ns b hb fuel xs st1 st' hl' p.inv hnt1 h
        obtain ⟨n1, e1⟩ := p.ext
        refine ⟨r1, r2, fun i hi' => r3 i (by rw [e1]; exact mem_append_left _ hi'), ?_⟩
        intro i hi'
        rcases mem_cons.mp hi' with rfl | hi'
        · exact r3 _ p.mem
        · exact r4 i hi'
    · simp only [hm, if_false] at h
      obtain ⟨r1, r2, r3, r4⟩ := topLoop_spec ns b hb fuel xs st st' hl' hi hnt h
      refine ⟨r1, r2, r3, ?_⟩
      intro i hi'
      rcases mem_cons.mp hi' with rfl | hi'
      · -- neither unmarked nor temporary: permanent, so already emitted
        have hp : markOf st.2 i = .permanent := by
          cases hmk : markOf st.2 i with
          | unmarked => exact absurd hmk hm
          | temporary => exact absurd hmk (hnt i)
          | permanent => rfl
        exact r3 i ((hi.perm i).mp hp)
      · exact r4 i hi'

/-- every value stored in `byQID` is an index into `ns` -/
theorem buildByQID_bound (ns : List StructDecl) : ∀ q d, (buildByQID ns).get q = some d → d < ns.length := by
  have key : ∀ (l : List (StructDecl × Nat)) (m : GoMap Key Nat), (∀ e ∈ l, e.2 < ns.length) → (∀ e ∈ m, e.2 < ns.length) →
      ∀ e ∈ l.foldl (fun m (n, i) => m.set n.qid i) m, e.2 < ns.length := by
    intro l
    induction l with
    | nil => intro m _ hm; simpa using hm
    | cons x xs ih =>
      intro m hl hm
      simp only [foldl_cons]
      apply ih
      · intro e he; exact hl e (by simp [he])
      · intro e he
        unfold GoMap.set at he
        simp only [mem_cons, mem_filter] at he
        rcases he with rfl | ⟨he, _⟩
        · exact hl x (by simp)
        · exact hm e he
  intro q d h
  unfold GoMap.get at h
  have hmem : (q, d) ∈ buildByQID ns := by
    have : ∀ (m : List (Key × Nat)), List.lookup q m = some d → (q, d) ∈ m := by
      intro m
      induction m with
      | nil => intro h'; simp [List.lookup] at h'
      | cons e es ih =>
        obtain ⟨k, v⟩ := e
        intro h'
        simp only [List.lookup] at h'
        by_cases hqk : q = k
        · subst hqk
          simp at h'
          subst h'
          simp
        · have : (q == k) = false := by simpa using hqk
          simp only [this] at h'
          exact mem_cons_of_mem _ (ih h')
    exact this _ h
  unfold buildByQID at hmem
  exact key _ [] (fun e he => by
    obtain ⟨n, i⟩ := e
    have := List.mem_zipIdx he
    simp only at this ⊢
    omega) (fun e he => by simp at he) _ hmem

end WuffsVerif.Det
