/-
Helper lemmas for C13: `gather` builds a well-formed index tree.
-/
import WuffsVerif.Model.Rac.ChunkWriter
set_option linter.unusedSimpArgs false
set_option linter.unusedVariables false

namespace WuffsVerif.Rac

/-! ### sorting the resource set -/

theorem insertSorted_length (x : Nat) (l : List Nat) : (insertSorted x l).length = l.length + 1 := by
  induction l with
  | nil => rfl
  | cons y ys ih => unfold insertSorted; split <;> simp [ih]

theorem mem_insertSorted (x a : Nat) (l : List Nat) : a ∈ insertSorted x l ↔ a = x ∨ a ∈ l := by
  induction l with
  | nil => simp [insertSorted]
  | cons y ys ih =>
    unfold insertSorted
    split
    · simp
    · simp [ih]; constructor
      · rintro (h | h | h) <;> simp [h]
      · rintro (h | h | h) <;> simp [h]

theorem insertSorted_pairwise (x : Nat) (l : List Nat) (hl : l.Pairwise (· < ·)) (hx : x ∉ l) :
    (insertSorted x l).Pairwise (· < ·) := by
  induction l with
  | nil => simp [insertSorted]
  | cons y ys ih =>
    unfold insertSorted
    have hy := List.pairwise_cons.mp hl
    split
    · rename_i hle
      have hxy : x < y := by
        have : x ≠ y := by intro h; apply hx; simp [h]
        omega
      refine List.pairwise_cons.mpr ⟨?_, hl⟩
      intro a ha
      rcases List.mem_cons.mp ha with h | h
      · omega
      · have := hy.1 a h; omega
    · rename_i hle
      refine List.pairwise_cons.mpr ⟨?_, ih hy.2 (by intro h; apply hx; simp [h])⟩
      intro a ha
      rcases (mem_insertSorted x a ys).mp ha with h | h
      · omega
      · exact hy.1 a h

theorem sortNats_length (l : List Nat) : (sortNats l).length = l.length := by
  induction l with
  | nil => rfl
  | cons x xs ih => simp [sortNats, List.foldr, insertSorted_length] at ih ⊢; exact ih

theorem mem_sortNats (a : Nat) (l : List Nat) : a ∈ sortNats l ↔ a ∈ l := by
  induction l with
  | nil => simp [sortNats]
  | cons x xs ih =>
    have : sortNats (x :: xs) = insertSorted x (sortNats xs) := rfl
    rw [this, mem_insertSorted, ih]; simp

theorem sortNats_pairwise (l : List Nat) (h : l.Nodup) : (sortNats l).Pairwise (· < ·) := by
  induction l with
  | nil => simp [sortNats]
  | cons x xs ih =>
    have : sortNats (x :: xs) = insertSorted x (sortNats xs) := rfl
    rw [this]
    have hx := List.nodup_cons.mp h
    exact insertSorted_pairwise x _ (ih hx.2) (by rw [mem_sortNats]; exact hx.1)

theorem setInsert_nodup (s : List Nat) (r : Nat) (h : s.Nodup) : (setInsert s r).Nodup := by
  unfold setInsert
  split
  · exact h
  · rename_i hc
    exact List.nodup_cons.mpr ⟨by simpa using hc, h⟩

theorem mem_setInsert (s : List Nat) (r a : Nat) : a ∈ setInsert s r ↔ a = r ∨ a ∈ s := by
  unfold setInsert
  split
  · rename_i hc
    have : r ∈ s := by simpa using hc
    constructor
    · intro h; exact Or.inr h
    · rintro (h | h)
      · rw [h]; exact this
      · exact h
  · simp

theorem setInsert_length_le (s : List Nat) (r : Nat) : (setInsert s r).length ≤ s.length + 1 := by
  unfold setInsert; split <;> simp

theorem length_le_setInsert (s : List Nat) (r : Nat) : s.length ≤ (setInsert s r).length := by
  unfold setInsert; split <;> simp

/-! ### well-formed trees -/

mutual
/-- a well-formed node for an arity budget: a leaf, or a branch with at most `budget` elements,
its resources strictly sorted (duplicate-free), at most two resources per child, not a lone
branch child (the RAC spec's anti-loop rule), and well-formed children whose resources it lists -/
def WNode.Good (budget : Nat) : WNode → Prop
  | .mk _ cs rs _ _ _ _ =>
    cs = [] ∨ (cs.length + rs.length ≤ budget ∧ rs.Pairwise (· < ·) ∧ rs.length ≤ 2 * cs.length ∧
      (∀ x, cs = [x] → x.isBranch = false) ∧ GoodList budget rs cs)
/-- the children part of `WNode.Good` -/
def GoodList (budget : Nat) (rs : List Nat) : List WNode → Prop
  | [] => True
  | c :: cs => c.Good budget ∧ (c.secondary ≠ 0 → c.secondary ∈ rs) ∧ (c.tertiary ≠ 0 → c.tertiary ∈ rs) ∧
      GoodList budget rs cs
end

theorem goodList_iff (budget : Nat) (rs : List Nat) (cs : List WNode) :
    GoodList budget rs cs ↔ ∀ c ∈ cs, c.Good budget ∧ (c.secondary ≠ 0 → c.secondary ∈ rs) ∧
      (c.tertiary ≠ 0 → c.tertiary ∈ rs) := by
  induction cs with
  | nil => simp [GoodList]
  | cons c cs ih =>
    simp only [GoodList, ih, List.mem_cons, forall_eq_or_imp]
    constructor
    · rintro ⟨a, b, c', d⟩; exact ⟨⟨a, b, c'⟩, d⟩
    · rintro ⟨⟨a, b, c'⟩, d⟩; exact ⟨a, b, c', d⟩

theorem good_of_leaf (budget : Nat) (n : WNode) (h : n.children = []) : n.Good budget := by
  cases n with
  | mk d cs rs col s t c =>
    simp only [WNode.children] at h
    simp [WNode.Good, h]

theorem makeBranch_good (budget : Nat) (children : List WNode) (res : List Nat)
    (h1 : children.length + res.length ≤ budget) (h2 : res.Nodup) (h3 : res.length ≤ 2 * children.length)
    (h4 : ∀ x, children = [x] → x.isBranch = false)
    (h5 : ∀ c ∈ children, c.Good budget ∧ (c.secondary ≠ 0 → c.secondary ∈ res) ∧ (c.tertiary ≠ 0 → c.tertiary ∈ res)) :
    (makeBranch children res).Good budget := by
  unfold makeBranch
  simp only [WNode.Good]
  right
  refine ⟨by rw [sortNats_length]; exact h1, sortNats_pairwise _ h2, by rw [sortNats_length]; exact h3, h4, ?_⟩
  rw [goodList_iff]
  intro c hc
  obtain ⟨a, b, c'⟩ := h5 c hc
  exact ⟨a, fun h => (mem_sortNats _ _).mpr (b h), fun h => (mem_sortNats _ _).mpr (c' h)⟩

theorem makeBranch_children (children : List WNode) (res : List Nat) :
    (makeBranch children res).children = children := rfl

theorem makeBranch_isBranch (children : List WNode) (res : List Nat) (h : children ≠ []) :
    (makeBranch children res).isBranch = true := by
  simp [WNode.isBranch, makeBranch_children, h]

theorem makeBranch_secondary (children : List WNode) (res : List Nat) :
    (makeBranch children res).secondary = 0 ∧ (makeBranch children res).tertiary = 0 := ⟨rfl, rfl⟩

/-! ### one level of `gather` -/

/-- what a node of a level looks like: well-formed, and a branch carries no resource ids -/
def LevelNode (budget : Nat) (o : WNode) : Prop :=
  o.Good budget ∧ (o.isBranch = true → o.secondary = 0 ∧ o.tertiary = 0)

/-- invariant of the `for ; j < len(nodes); j++` loop, `k` nodes processed so far -/
structure GInv (budget : Nat) (st : GState) (k : Nat) : Prop where
  i1 : st.cur.length + st.resources.length ≤ st.arity
  i2 : st.arity ≤ budget
  i3 : st.arity ≤ 3 * st.cur.length
  i4 : st.resources.Nodup
  i5 : st.resources.length ≤ 2 * st.cur.length
  i6 : ∀ o ∈ st.cur, (o.secondary ≠ 0 → o.secondary ∈ st.resources) ∧ (o.tertiary ≠ 0 → o.tertiary ∈ st.resources)
  i7 : ∀ n ∈ st.newNodes, LevelNode budget n ∧ n.isBranch = true
  i8 : ∀ o ∈ st.cur, LevelNode budget o
  i9 : st.first = true ↔ st.newNodes = []
  i10 : 2 * st.newNodes.length + st.cur.length ≤ k
  i11 : k > 0 → st.cur ≠ []

theorem gatherStep_inv (budget : Nat) (hb : 254 ≤ budget) (st : GState) (k : Nat) (o : WNode)
    (h : GInv budget st k) (ho : LevelNode budget o) : GInv budget (gatherStep budget st o) (k + 1) := by
  obtain ⟨i1, i2, i3, i4, i5, i6, i7, i8, i9, i10, i11⟩ := h
  unfold gatherStep
  simp only
  generalize hn2 : (o.secondary != 0 && !st.resources.contains o.secondary) = new2
  generalize hn3 : (o.tertiary != 0 && !st.resources.contains o.tertiary) = new3
  split
  · -- the node joins the current group
    rename_i hle
    have hlen2 : (if new2 = true then setInsert st.resources o.secondary else st.resources).length ≤
        st.resources.length + new2.toNat := by
      cases new2 <;> simp [setInsert_length_le]
    have hlen3 : ∀ rs : List Nat, (if new3 = true then setInsert rs o.tertiary else rs).length ≤ rs.length + new3.toNat := by
      intro rs; cases new3 <;> simp [setInsert_length_le]
    have hmem2 : ∀ a, a ∈ st.resources → a ∈ (if new2 = true then setInsert st.resources o.secondary else st.resources) := by
      intro a ha; split
      · exact (mem_setInsert _ _ _).mpr (Or.inr ha)
      · exact ha
    have hmem3 : ∀ (rs : List Nat) a, a ∈ rs → a ∈ (if new3 = true then setInsert rs o.tertiary else rs) := by
      intro rs a ha; split
      · exact (mem_setInsert _ _ _).mpr (Or.inr ha)
      · exact ha
    have hb2 : new2.toNat ≤ 1 := by cases new2 <;> simp
    have hb3 : new3.toNat ≤ 1 := by cases new3 <;> simp
    refine ⟨?_, hle, ?_, ?_, ?_, ?_, i7, ?_, i9, ?_, by simp⟩
    · simp only [List.length_cons]
      have := hlen3 (if new2 = true then setInsert st.resources o.secondary else st.resources)
      omega
    · simp only [List.length_cons]; omega
    · have : (if new2 = true then setInsert st.resources o.secondary else st.resources).Nodup := by
        split
        · exact setInsert_nodup _ _ i4
        · exact i4
      split
      · exact setInsert_nodup _ _ this
      · exact this
    · simp only [List.length_cons]
      have := hlen3 (if new2 = true then setInsert st.resources o.secondary else st.resources)
      omega
    · intro x hx
      rcases List.mem_cons.mp hx with hxo | hxc
      · subst hxo
        constructor
        · intro hne
          apply hmem3
          by_cases hc : st.resources.contains x.secondary = true
          · exact hmem2 _ (by simpa using hc)
          · have hnm : x.secondary ∉ st.resources := by simpa using hc
            have : new2 = true := by rw [← hn2]; simp [hne, hnm]
            rw [if_pos this]; exact (mem_setInsert _ _ _).mpr (Or.inl rfl)
        · intro hne
          by_cases hc : st.resources.contains x.tertiary = true
          · exact hmem3 _ _ (hmem2 _ (by simpa using hc))
          · have hnm : x.tertiary ∉ st.resources := by simpa using hc
            have : new3 = true := by rw [← hn3]; simp [hne, hnm]
            rw [if_pos this]; exact (mem_setInsert _ _ _).mpr (Or.inl rfl)
      · obtain ⟨a, b⟩ := i6 x hxc
        exact ⟨fun h => hmem3 _ _ (hmem2 _ (a h)), fun h => hmem3 _ _ (hmem2 _ (b h))⟩
    · intro x hx
      rcases List.mem_cons.mp hx with hxo | hxc
      · subst hxo; exact ho
      · exact i8 x hxc
    · simp only [List.length_cons]; omega
  · -- the current group is closed and the node starts a new one
    rename_i hgt
    have hb2 : new2.toNat ≤ 1 := by cases new2 <;> simp
    have hb3 : new3.toNat ≤ 1 := by cases new3 <;> simp
    have hcur : st.cur.length ≥ 2 := by omega
    have hcne : st.cur.reverse ≠ [] := by
      intro h
      have h' : st.cur = [] := by simpa using h
      rw [h'] at hcur; simp at hcur
    have hgood : LevelNode budget (makeBranch st.cur.reverse st.resources) ∧
        (makeBranch st.cur.reverse st.resources).isBranch = true := by
      refine ⟨⟨makeBranch_good budget _ _ (by simp; omega) i4 (by simp; omega) ?_ ?_, fun _ => makeBranch_secondary _ _⟩,
        makeBranch_isBranch _ _ hcne⟩
      · intro x hx; have := congrArg List.length hx; simp at this; omega
      · intro c hc
        have hc' : c ∈ st.cur := by simpa using hc
        exact ⟨(i8 c hc').1, i6 c hc'⟩
    -- the new group: the node alone, with its resources
    generalize hr2 : (if o.secondary != 0 then (setInsert [] o.secondary, 1 + 1) else (([] : List Nat), 1)) = p2
    obtain ⟨rs2, a2⟩ := p2
    generalize hr3 : (if o.tertiary != 0 then (setInsert rs2 o.tertiary, a2 + 1) else (rs2, a2)) = p3
    obtain ⟨rs3, a3⟩ := p3
    simp only
    have h2 : rs2.Nodup ∧ rs2.length + 1 ≤ a2 ∧ a2 ≤ 2 ∧ rs2.length ≤ 1 ∧ (o.secondary ≠ 0 → o.secondary ∈ rs2) := by
      split at hr2
      · rename_i hne
        obtain ⟨rfl, rfl⟩ := Prod.mk.inj hr2
        simp [setInsert]
      · rename_i hne
        obtain ⟨rfl, rfl⟩ := Prod.mk.inj hr2
        simp at hne; simp [hne]
    have h3 : rs3.Nodup ∧ rs3.length + 1 ≤ a3 ∧ a3 ≤ 3 ∧ rs3.length ≤ 2 ∧ (o.secondary ≠ 0 → o.secondary ∈ rs3) ∧
        (o.tertiary ≠ 0 → o.tertiary ∈ rs3) := by
      obtain ⟨n2, l2, u2, m2, s2⟩ := h2
      split at hr3
      · rename_i hne
        obtain ⟨rfl, rfl⟩ := Prod.mk.inj hr3
        have := setInsert_length_le rs2 o.tertiary
        refine ⟨setInsert_nodup _ _ n2, by omega, by omega, by omega, ?_, ?_⟩
        · intro h; exact (mem_setInsert _ _ _).mpr (Or.inr (s2 h))
        · intro h; exact (mem_setInsert _ _ _).mpr (Or.inl rfl)
      · rename_i hne
        obtain ⟨rfl, rfl⟩ := Prod.mk.inj hr3
        simp at hne
        exact ⟨n2, by omega, by omega, by omega, s2, by simp [hne]⟩
    obtain ⟨n3, l3, u3, m3, s3, t3⟩ := h3
    refine ⟨by simp; omega, by show a3 ≤ budget; omega, by simp; omega, n3, by simp; omega, ?_, ?_, ?_, by simp, ?_, by simp⟩
    · intro x hx
      have : x = o := by simpa using hx
      subst this; exact ⟨s3, t3⟩
    · intro n hn
      rcases List.mem_cons.mp hn with h | h
      · rw [h]; exact hgood
      · exact i7 n h
    · intro x hx
      have : x = o := by simpa using hx
      subst this; exact ho
    · simp only [List.length_cons, List.length_nil]; omega

theorem gather_fold_inv (budget : Nat) (hb : 254 ≤ budget) (nodes : List WNode) :
    ∀ (st : GState) (k : Nat), GInv budget st k → (∀ o ∈ nodes, LevelNode budget o) →
      GInv budget (nodes.foldl (gatherStep budget) st) (k + nodes.length) := by
  induction nodes with
  | nil => intro st k h _; simpa using h
  | cons o os ih =>
    intro st k h ho
    simp only [List.foldl_cons, List.length_cons]
    have := ih _ (k + 1) (gatherStep_inv budget hb st k o h (ho o (by simp))) (fun x hx => ho x (by simp [hx]))
    have e : k + (os.length + 1) = k + 1 + os.length := by omega
    rw [e]; exact this

theorem ginv_init (budget : Nat) : GInv budget {} 0 := by
  constructor <;> simp

/-- the fold does not reorder or lose nodes when no group was closed -/
theorem gather_fold_first (budget : Nat) (nodes : List WNode) :
    ∀ (st : GState), (nodes.foldl (gatherStep budget) st).first = true →
      (nodes.foldl (gatherStep budget) st).cur = nodes.reverse ++ st.cur := by
  induction nodes with
  | nil => intro st _; simp
  | cons o os ih =>
    intro st h
    simp only [List.foldl_cons] at h ⊢
    have hfirst : ∀ (os : List WNode) (s : GState), s.first = false → (os.foldl (gatherStep budget) s).first = false := by
      intro os
      induction os with
      | nil => intro s hs; simpa using hs
      | cons a as iha =>
        intro s hs
        simp only [List.foldl_cons]
        apply iha
        unfold gatherStep; simp only; split <;> simp [hs]
    have hstep : (gatherStep budget st o).first = true := by
      by_cases hf : (gatherStep budget st o).first = true
      · exact hf
      · have := hfirst os _ (by simpa using hf)
        rw [this] at h; exact absurd h (by simp)
    have hcur : (gatherStep budget st o).cur = o :: st.cur := by
      unfold gatherStep at hstep ⊢
      simp only at hstep ⊢
      split
      · rfl
      · rename_i hgt; rw [if_neg hgt] at hstep; simp at hstep
    rw [ih _ h, hcur]; simp

theorem levelNode_makeBranch (budget : Nat) (children : List WNode) (res : List Nat)
    (h : (makeBranch children res).Good budget) : LevelNode budget (makeBranch children res) :=
  ⟨h, fun _ => makeBranch_secondary _ _⟩

theorem gatherLevel_good (budget : Nat) (hb : 254 ≤ budget) (nodes : List WNode) (hne : nodes ≠ [])
    (hl : ∀ o ∈ nodes, LevelNode budget o)
    (h2 : nodes.length ≥ 2 ∨ ∀ o ∈ nodes, o.isBranch = false) :
    match gatherLevel budget nodes with
    | .inl root => root.Good budget
    | .inr next => (∀ o ∈ next, LevelNode budget o) ∧ next.length ≥ 2 ∧ next.length < nodes.length := by
  have hinv := gather_fold_inv budget hb nodes {} 0 (ginv_init budget) hl
  simp only [Nat.zero_add] at hinv
  unfold gatherLevel
  simp only
  generalize hst : nodes.foldl (gatherStep budget) {} = st at *
  obtain ⟨i1, i2, i3, i4, i5, i6, i7, i8, i9, i10, i11⟩ := hinv
  have hpos : nodes.length > 0 := by
    cases nodes with
    | nil => exact absurd rfl hne
    | cons a as => simp
  by_cases hf : st.first = true
  · rw [if_pos hf]
    simp only
    have hcur : st.cur = nodes.reverse := by
      have := gather_fold_first budget nodes {} (by rw [hst]; exact hf)
      rw [hst] at this; simpa using this
    have hlen : st.cur.length = nodes.length := by rw [hcur]; simp
    refine makeBranch_good budget nodes st.resources (by omega) i4 (by omega) ?_ ?_
    · intro x hx
      rcases h2 with h | h
      · rw [hx] at h; simp at h
      · exact h x (by rw [hx]; simp)
    · intro c hc
      have hc' : c ∈ st.cur := by rw [hcur]; simpa using hc
      exact ⟨(i8 c hc').1, i6 c hc'⟩
  · rw [if_neg hf]
    simp only
    have hnn : st.newNodes ≠ [] := by
      intro h; exact hf (i9.mpr h)
    have hnnlen : st.newNodes.length ≥ 1 := by
      cases hnl : st.newNodes with
      | nil => exact absurd hnl hnn
      | cons a as => simp
    have hcne := i11 hpos
    have hcl : st.cur.length ≥ 1 := by
      cases hcl : st.cur with
      | nil => exact absurd hcl hcne
      | cons a as => simp
    -- the last node of the next level
    have hlast : ∀ last, (last = makeBranch st.cur.reverse st.resources ∧
        (∀ x, st.cur.reverse = [x] → x.isBranch = false)) ∨ (∃ x, st.cur.reverse = [x] ∧ last = x) →
        LevelNode budget last := by
      intro last h
      rcases h with ⟨rfl, hx⟩ | ⟨x, hx, rfl⟩
      · apply levelNode_makeBranch
        refine makeBranch_good budget _ _ (by simp; omega) i4 (by simp; omega) hx ?_
        intro c hc
        have hc' : c ∈ st.cur := by simpa using hc
        exact ⟨(i8 c hc').1, i6 c hc'⟩
      · exact i8 last (by
          have : last ∈ st.cur.reverse := by rw [hx]; simp
          simpa using this)
    have key : ∀ nn : List WNode, (∃ last, nn = last :: st.newNodes ∧ LevelNode budget last) →
        (∀ o ∈ nn.reverse, LevelNode budget o) ∧ nn.reverse.length ≥ 2 ∧ nn.reverse.length < nodes.length := by
      rintro nn ⟨last, rfl, hl'⟩
      refine ⟨?_, by simp; omega, by simp; omega⟩
      intro o ho
      have : o = last ∨ o ∈ st.newNodes := by simpa [or_comm] using ho
      rcases this with h | h
      · rw [h]; exact hl'
      · exact (i7 o h).1
    split
    · rename_i x hx
      split
      · rename_i hbx
        exact key _ ⟨x, rfl, hlast x (Or.inr ⟨x, hx, rfl⟩)⟩
      · rename_i hbx
        exact key _ ⟨_, rfl, hlast _ (Or.inl ⟨by rw [hx], by
          intro y hy; rw [hx] at hy; injection hy with hy _; rw [← hy]; simpa using hbx⟩)⟩
    · rename_i hnot
      exact key _ ⟨_, rfl, hlast _ (Or.inl ⟨rfl, by
        intro y hy; exact absurd hy (hnot y)⟩)⟩

theorem gatherFuel_good (budget : Nat) (hb : 254 ≤ budget) (fuel : Nat) :
    ∀ nodes : List WNode, nodes ≠ [] → nodes.length ≤ fuel → (∀ o ∈ nodes, LevelNode budget o) →
      (nodes.length ≥ 2 ∨ ∀ o ∈ nodes, o.isBranch = false) → (gatherFuel budget fuel nodes).Good budget := by
  induction fuel with
  | zero =>
    intro nodes hne hlen
    cases nodes with
    | nil => exact absurd rfl hne
    | cons a as => simp at hlen
  | succ f ih =>
    intro nodes hne hlen hl h2
    unfold gatherFuel
    have hg := gatherLevel_good budget hb nodes hne hl h2
    split
    · rename_i root hr; rw [hr] at hg; exact hg
    · rename_i next hr
      rw [hr] at hg
      obtain ⟨g1, g2, g3⟩ := hg
      refine ih next ?_ (by omega) g1 (Or.inl g2)
      intro h; rw [h] at g2; simp at g2

/-- `gather` on a non-empty list of leaf nodes yields a well-formed tree -/
theorem gather_good (nodes : List WNode) (long : Bool) (hne : nodes ≠ [])
    (hleaf : ∀ o ∈ nodes, o.children = []) :
    (gather nodes long).Good (if long then 0xFE else 0xFF) := by
  unfold gather
  refine gatherFuel_good _ (by split <;> omega) _ nodes hne (by omega) ?_ (Or.inr ?_)
  · intro o ho
    exact ⟨good_of_leaf _ o (hleaf o ho), by intro h; simp [WNode.isBranch, hleaf o ho] at h⟩
  · intro o ho; simp [WNode.isBranch, hleaf o ho]

end WuffsVerif.Rac
