/-
C02 facts half: soundness of `proveBin` (proveBinaryOp), of the generic reason
procedure (`reasonProc`, given that the axiom is a valid theorem over the integers —
the AXIOMS half of C02) and of `checkAssert` (bcheckAssert).
-/
import WuffsVerif.Proof.FlowBasic

namespace WuffsVerif.Proof.Flow
open WuffsVerif.Interval WuffsVerif.WCore WuffsVerif.WFlow
open WuffsVerif.Proof.WCoreBounds WuffsVerif.Proof.WCoreStmt

theorem proveBin_sound {env : Env} {fs : List Expr} {op : BOp} {l r : Expr}
    (hf : FactsHold env fs) (hvl : varsOk env l) (hvr : varsOk env r)
    (h : proveBin fs op l r = true) : evalI env (.binary op l r) ≠ 0 := by
  have viaCV : ∀ {lb rb : IR}, proveCV op lb rb = true → lb.mem (evalI env l) →
      rb.mem (evalI env r) → evalI env (.binary op l r) ≠ 0 := by
    intro lb rb hp hl hr
    obtain ⟨hc, hrel⟩ := proveCV_sound hp hl hr
    exact (evalI_binary_cmp hc l r).2 hrel
  have tailR : (match constVal r with
      | some rcv =>
        (match bcheck fs false l with
         | none => some false
         | some lb => if proveCV op lb (mkIR rcv rcv) then some true else none)
      | none => none) = none → proveFacts op l r fs = true → evalI env (.binary op l r) ≠ 0 := by
    intro _ hp
    exact proveFacts_sound fs hf hp
  unfold proveBin at h
  simp only [] at h
  cases h1 : constVal l with
  | some lcv =>
    have el := constVal_some h1
    simp only [h1] at h
    cases h2 : bcheck fs false r with
    | none => simp [h2] at h
    | some rb =>
      simp only [h2] at h
      by_cases hp : proveCV op (mkIR lcv lcv) rb = true
      · refine viaCV hp ?_ (bounds_contain' hf hvr h2).2
        rw [el]; simp only [evalI]; exact mem_mkIR.2 ⟨Int.le_refl _, Int.le_refl _⟩
      · simp only [hp] at h
        cases h3 : constVal r with
        | some rcv =>
          have er := constVal_some h3
          simp only [h3] at h
          cases h4 : bcheck fs false l with
          | none => simp [h4] at h
          | some lb =>
            simp only [h4] at h
            by_cases hp' : proveCV op lb (mkIR rcv rcv) = true
            · refine viaCV hp' (bounds_contain' hf hvl h4).2 ?_
              rw [er]; simp only [evalI]; exact mem_mkIR.2 ⟨Int.le_refl _, Int.le_refl _⟩
            · simp only [hp'] at h
              exact proveFacts_sound fs hf (by simpa using h)
        | none =>
          simp only [h3] at h
          exact proveFacts_sound fs hf (by simpa using h)
  | none =>
    simp only [h1] at h
    cases h3 : constVal r with
    | some rcv =>
      have er := constVal_some h3
      simp only [h3] at h
      cases h4 : bcheck fs false l with
      | none => simp [h4] at h
      | some lb =>
        simp only [h4] at h
        by_cases hp' : proveCV op lb (mkIR rcv rcv) = true
        · refine viaCV hp' (bounds_contain' hf hvl h4).2 ?_
          rw [er]; simp only [evalI]; exact mem_mkIR.2 ⟨Int.le_refl _, Int.le_refl _⟩
        · simp only [hp'] at h
          exact proveFacts_sound fs hf (by simpa using h)
    | none =>
      simp only [h3] at h
      exact proveFacts_sound fs hf (by simpa using h)

/-! ## the reason procedures -/

open WuffsVerif.Axioms in
/-- the integer assignment of the axiom's variables that a binding induces -/
def rho (σ args : Subst) (env : Env) : Nat → Int := fun i =>
  match σ.lookup i with
  | some e => evalI env e
  | none =>
    match args.lookup i with
    | some e => evalI env e
    | none => 0

/-- `σ'` keeps every binding of `σ` -/
def Extends (σ σ' : Subst) : Prop := ∀ i e, σ.lookup i = some e → σ'.lookup i = some e

theorem extends_refl (σ : Subst) : Extends σ σ := fun _ _ h => h

theorem extends_trans {a b c : Subst} (h1 : Extends a b) (h2 : Extends b c) : Extends a c :=
  fun i e h => h2 i e (h1 i e h)

theorem lookup_cons_ne {σ : Subst} {i j : Nat} {e : Expr} (h : i ≠ j) :
    List.lookup i ((j, e) :: σ) = σ.lookup i := by
  simp only [List.lookup]
  have : (i == j) = false := by simpa using h
  simp [this]

theorem lookup_cons_eq {σ : Subst} {i : Nat} {e : Expr} :
    List.lookup i ((i, e) :: σ) = some e := by
  simp [List.lookup]

open WuffsVerif.Axioms in
/-- matching a claim operand: bindings only grow, and under any later binding the
pattern evaluates to the value of the matched expression -/
theorem matchTerm_spec {env : Env} (args : Subst) :
    ∀ (t : Term) (e : Expr) (σ σ' : Subst), matchTerm t e σ = some σ' →
      Extends σ σ' ∧ ∀ σ'', Extends σ' σ'' → t.eval (rho σ'' args env) = evalI env e := by
  intro t
  induction t with
  | var i =>
    intro e σ σ' h
    simp only [matchTerm] at h
    cases hl : σ.lookup i with
    | none =>
      simp only [hl] at h
      cases h
      refine ⟨?_, ?_⟩
      · intro j e0 hj
        by_cases hji : j = i
        · subst hji; rw [hl] at hj; cases hj
        · rw [lookup_cons_ne hji]; exact hj
      · intro σ'' hx
        have := hx i e lookup_cons_eq
        simp only [Term.eval, rho, this]
    | some e' =>
      simp only [hl] at h
      split at h
      · rename_i heq
        cases h
        have : e' = e := eq_of_beq heq
        subst this
        refine ⟨extends_refl _, ?_⟩
        intro σ'' hx
        have := hx i e' hl
        simp only [Term.eval, rho, this]
      · cases h
  | const c =>
    intro e σ σ' h
    simp only [matchTerm] at h
    split at h
    · rename_i hc
      cases h
      simp only [Bool.and_eq_true, beq_iff_eq] at hc
      refine ⟨extends_refl _, ?_⟩
      intro σ'' _
      rw [hc.2, hc.1]; rfl
    · cases h
  | add l r ihl ihr =>
    intro e σ σ' h
    cases e with
    | binary op el er =>
      cases op <;> simp only [matchTerm] at h <;> try (cases h)
      case plus =>
        cases h1 : matchTerm l el σ with
        | none => simp [h1] at h
        | some σ1 =>
          simp only [h1] at h
          obtain ⟨x1, v1⟩ := ihl el σ σ1 h1
          obtain ⟨x2, v2⟩ := ihr er σ1 σ' h
          refine ⟨extends_trans x1 x2, ?_⟩
          intro σ'' hx
          simp only [Term.eval, evalI, binSem, v1 σ'' (extends_trans x2 hx), v2 σ'' hx]
    | _ => simp [matchTerm] at h
  | sub l r ihl ihr =>
    intro e σ σ' h
    cases e with
    | binary op el er =>
      cases op <;> simp only [matchTerm] at h <;> try (cases h)
      case minus =>
        cases h1 : matchTerm l el σ with
        | none => simp [h1] at h
        | some σ1 =>
          simp only [h1] at h
          obtain ⟨x1, v1⟩ := ihl el σ σ1 h1
          obtain ⟨x2, v2⟩ := ihr er σ1 σ' h
          refine ⟨extends_trans x1 x2, ?_⟩
          intro σ'' hx
          simp only [Term.eval, evalI, binSem, v1 σ'' (extends_trans x2 hx), v2 σ'' hx]
    | _ => simp [matchTerm] at h

/-- every expression bound by a match is a sub-expression of the matched one: it is
well-typed when that one is -/
def SubstWt (Γ : Ctx) (σ : Subst) : Prop := ∀ i e, σ.lookup i = some e → wt Γ e

open WuffsVerif.Axioms in
theorem matchTerm_wt {Γ : Ctx} :
    ∀ (t : Term) (e : Expr) (σ σ' : Subst), matchTerm t e σ = some σ' → wt Γ e →
      SubstWt Γ σ → SubstWt Γ σ' := by
  intro t
  induction t with
  | var i =>
    intro e σ σ' h hw hs
    simp only [matchTerm] at h
    cases hl : σ.lookup i with
    | none =>
      simp only [hl] at h
      cases h
      intro j e0 hj
      by_cases hji : j = i
      · subst hji; rw [lookup_cons_eq] at hj; cases hj; exact hw
      · rw [lookup_cons_ne hji] at hj; exact hs j e0 hj
    | some e' =>
      simp only [hl] at h
      split at h
      · cases h; exact hs
      · cases h
  | const c =>
    intro e σ σ' h hw hs
    simp only [matchTerm] at h
    split at h
    · cases h; exact hs
    · cases h
  | add l r ihl ihr =>
    intro e σ σ' h hw hs
    cases e with
    | binary op el er =>
      cases op <;> simp only [matchTerm] at h <;> try (cases h)
      case plus =>
        cases h1 : matchTerm l el σ with
        | none => simp [h1] at h
        | some σ1 =>
          simp only [h1] at h
          simp only [wt] at hw
          exact ihr er σ1 σ' h hw.2 (ihl el σ σ1 h1 hw.1 hs)
    | _ => simp [matchTerm] at h
  | sub l r ihl ihr =>
    intro e σ σ' h hw hs
    cases e with
    | binary op el er =>
      cases op <;> simp only [matchTerm] at h <;> try (cases h)
      case minus =>
        cases h1 : matchTerm l el σ with
        | none => simp [h1] at h
        | some σ1 =>
          simp only [h1] at h
          simp only [wt] at hw
          exact ihr er σ1 σ' h hw.2 (ihl el σ σ1 h1 hw.1 hs)
    | _ => simp [matchTerm] at h

open WuffsVerif.Axioms in
/-- the operand built for a requirement evaluates to the requirement's term -/
theorem instTerm_spec {Γ : Ctx} {env : Env} {σ args : Subst} (hs : SubstWt Γ σ) (ha : SubstWt Γ args) :
    ∀ (t : Term) (e : Expr), instTerm σ args t = some e →
      evalI env e = t.eval (rho σ args env) ∧ wt Γ e := by
  intro t
  induction t with
  | var i =>
    intro e h
    simp only [instTerm] at h
    cases hl : σ.lookup i with
    | some e' =>
      simp only [hl] at h
      cases h
      exact ⟨by simp only [Term.eval, rho, hl], hs i _ hl⟩
    | none =>
      simp only [hl] at h
      exact ⟨by simp only [Term.eval, rho, hl, h], ha i e h⟩
  | const c =>
    intro e h
    simp only [instTerm] at h
    split at h
    · rename_i hc
      cases h
      simp only [beq_iff_eq] at hc
      exact ⟨by simp [evalI, Term.eval, hc], trivial⟩
    · cases h
  | add l r ihl ihr =>
    intro e h
    simp only [instTerm] at h
    split at h
    · rename_i a b ha' hb'
      cases h
      obtain ⟨v1, w1⟩ := ihl a ha'
      obtain ⟨v2, w2⟩ := ihr b hb'
      exact ⟨by simp only [evalI, binSem, Term.eval, v1, v2], ⟨w1, w2⟩⟩
    · cases h
  | sub l r ihl ihr =>
    intro e h
    simp only [instTerm] at h
    split at h
    · rename_i a b ha' hb'
      cases h
      obtain ⟨v1, w1⟩ := ihl a ha'
      obtain ⟨v2, w2⟩ := ihr b hb'
      exact ⟨by simp only [evalI, binSem, Term.eval, v1, v2], ⟨w1, w2⟩⟩
    · cases h

open WuffsVerif.Axioms in
theorem relBOp_isCmp (o : RelOp) : (relBOp o).isCmp = true := by
  cases o <;> rfl

open WuffsVerif.Axioms in
theorem cmpRel_relBOp (o : RelOp) (x y : Int) : cmpRel (relBOp o) x y ↔ o.Holds x y := by
  cases o <;> simp [relBOp, cmpRel, RelOp.Holds]

open WuffsVerif.Axioms in
/--
**reason_sound** (DESIGN §2 C02 `reason_impl_sound`, generic over the axiom).  If the axiom
is a valid theorem over the integers, every fact of the situation is true, and
the reason procedure generated for it accepts `assert cond via "…"(args)`, then the
asserted condition is true: the procedure only succeeds when the condition is an
instance of the claim and every instantiated requirement was proved.
-/
theorem reasonProc_sound {Γ : Ctx} {env : Env} {fs : List Expr} {ax : Axiom} {args : Subst}
    {cond : Expr} (hv : ax.Valid) (he : EnvOk Γ env) (hf : FactsHold env fs)
    (hwc : wt Γ cond) (hwa : SubstWt Γ args)
    (h : reasonProc fs ax args cond = true) : evalI env cond ≠ 0 := by
  cases cond with
  | binary op l r =>
    simp only [reasonProc] at h
    split at h
    · cases h
    · rename_i hop
      simp only [bne_iff_ne, ne_eq, Classical.not_not] at hop
      cases h1 : matchTerm ax.claim.lhs l [] with
      | none => simp [h1] at h
      | some σ1 =>
        simp only [h1] at h
        cases h2 : matchTerm ax.claim.rhs r σ1 with
        | none => simp [h2] at h
        | some σ =>
          simp only [h2] at h
          simp only [wt] at hwc
          obtain ⟨x1, v1⟩ := matchTerm_spec (env := env) args _ _ _ _ h1
          obtain ⟨_, v2⟩ := matchTerm_spec (env := env) args _ _ _ _ h2
          have hs0 : SubstWt Γ ([] : Subst) := by intro i e hi; simp [List.lookup] at hi
          have hs1 := matchTerm_wt _ _ _ _ h1 hwc.1 hs0
          have hs := matchTerm_wt _ _ _ _ h2 hwc.2 hs1
          -- every requirement holds under the induced assignment
          have hreqs : ∀ q ∈ ax.reqs, q.Holds (rho σ args env) := by
            intro q hq
            have hp := List.all_eq_true.1 h q hq
            simp only [proveReq] at hp
            split at hp
            · rename_i a b ha hb
              obtain ⟨va, wa⟩ := instTerm_spec (env := env) hs hwa _ _ ha
              obtain ⟨vb, wb⟩ := instTerm_spec (env := env) hs hwa _ _ hb
              have := proveBin_sound hf (varsOk_of_wt he a wa) (varsOk_of_wt he b wb) hp
              rw [evalI_binary_cmp (relBOp_isCmp _), cmpRel_relBOp, va, vb] at this
              exact this
            · cases hp
          have hclaim := hv (rho σ args env) hreqs
          rw [hop, evalI_binary_cmp (relBOp_isCmp _), cmpRel_relBOp]
          have e1 := v1 σ (by
            obtain ⟨x2, _⟩ := matchTerm_spec (env := env) args _ _ _ _ h2
            exact x2)
          have e2 := v2 σ (extends_refl _)
          rw [← e1, ← e2]
          exact hclaim
  | _ => simp [reasonProc] at h

/-! ## `bcheckAssert` -/

/-- what the model needs to know about a `via` reason: the axiom is valid (AXIOMS half
of C02: `Props.C02.all_axioms_valid`) and the argument expressions are well-typed -/
def ReasonOK (Γ : Ctx) : Option Reason → Prop
  | none => True
  | some rs => rs.ax.Valid ∧ SubstWt Γ rs.args

/--
**assert_sound**: an accepted `assert` (also: loop `pre` / `inv` / `post`) is true in
every store in which the situation holds, and the situation extended by it holds too.
-/
theorem checkAssert_sound {Γ : Ctx} {env : Env} {fs fs' : List Expr} {c : Expr} {r : Option Reason}
    (S : Situation Γ env fs) (hw : wt Γ c) (hg : goodCond c = true) (hr : ReasonOK Γ r)
    (h : checkAssert fs c r = some fs') : evalI env c ≠ 0 ∧ Situation Γ env fs' := by
  unfold checkAssert at h
  cases hb : bcheck fs false c with
  | none => simp [hb] at h
  | some b0 =>
    simp only [hb] at h
    by_cases hbad : reasonArgsBad fs r = true
    · simp [hbad] at h
    · simp only [hbad] at h
      by_cases hmem : fs.contains c = true
      · simp only [hmem, if_true] at h
        cases h
        simp only [List.contains_iff_mem] at hmem
        exact ⟨S.holds c hmem, S⟩
      · simp only [hmem] at h
        by_cases hok : assertProved fs c r = true
        · simp only [hok, if_true] at h
          cases h
          have htrue : evalI env c ≠ 0 := by
            unfold assertProved at hok
            cases hcv : constVal c with
            | some v =>
              simp only [hcv, beq_iff_eq] at hok
              rw [constVal_some hcv, hok]; simp [evalI]
            | none =>
              simp only [hcv] at hok
              cases r with
              | some rs =>
                simp only [] at hok
                exact reasonProc_sound hr.1 S.envOk S.holds hw hr.2 hok
              | none =>
                simp only [] at hok
                cases c with
                | binary op l r' =>
                  simp only [] at hok
                  simp only [wt] at hw
                  exact proveBin_sound S.holds (varsOk_of_wt S.envOk l hw.1)
                    (varsOk_of_wt S.envOk r' hw.2) hok
                | const v => simp at hok
                | var n t => simp at hok
                | unary op e => simp at hok
                | «as» t e => simp at hok
                | assoc op pre l r' => simp at hok
                | index a len ety i => simp at hok
          obtain ⟨ev, wv⟩ := simplifyE_spec (Γ := Γ) (env := env) c hw
          exact ⟨htrue, situation_appendFactA false S (by rw [ev]; exact htrue) wv
            (goodCond_simplifyE hg)⟩
        · simp [hok] at h

theorem checkAsserts_sound {Γ : Ctx} {env : Env} :
    ∀ (cs : List Expr) (fs fs' : List Expr), Situation Γ env fs →
      (∀ c ∈ cs, wt Γ c ∧ goodCond c = true) → checkAsserts fs cs = some fs' →
      (∀ c ∈ cs, evalI env c ≠ 0) ∧ Situation Γ env fs' := by
  intro cs
  induction cs with
  | nil =>
    intro fs fs' S _ h
    simp only [checkAsserts] at h
    cases h
    refine ⟨?_, S⟩
    intro c hc; cases hc
  | cons c cs ih =>
    intro fs fs' S hw h
    simp only [checkAsserts] at h
    split at h
    · cases h
    · rename_i fs1 h1
      obtain ⟨wc, gc⟩ := hw c List.mem_cons_self
      obtain ⟨t1, S1⟩ := checkAssert_sound (r := none) S wc gc (by exact True.intro) h1
      obtain ⟨t2, S2⟩ := ih fs1 fs' S1 (fun d hd => hw d (List.mem_cons_of_mem _ hd)) h
      refine ⟨?_, S2⟩
      intro d hd
      rcases List.mem_cons.1 hd with hd | hd
      · subst hd; exact t1
      · exact t2 d hd

end WuffsVerif.Proof.Flow
