/-
C06: anchoring of the model's two's-complement `Int` bit operations
(`iand`, `ior`, `inot`, `>>> 1`, `bitFillRight`) to Mathlib's `Int.land`, `Int.lor`,
`Int.lnot`, `Int.testBit`, and the order/bit lemmas used by the and/or proofs.
-/
import WuffsVerif.Model.Interval
import Mathlib.Data.Int.Bitwise

namespace WuffsVerif.Interval

/-! ### the model's operations are the library's -/

theorem natAndNot_eq_ldiff (a b : Nat) : natAndNot a b = Nat.ldiff a b := by
  apply Nat.eq_of_testBit_eq
  intro i
  simp only [natAndNot, Nat.testBit_xor, Nat.testBit_and, Nat.testBit_ldiff]
  cases a.testBit i <;> cases b.testBit i <;> rfl

theorem iand_eq_land (a b : Int) : iand a b = Int.land a b := by
  cases a <;> cases b <;> simp only [iand, Int.land, natAndNot_eq_ldiff] <;> rfl

theorem ior_eq_lor (a b : Int) : ior a b = Int.lor a b := by
  cases a <;> cases b <;> simp only [ior, Int.lor, natAndNot_eq_ldiff] <;> rfl

theorem inot_eq_lnot (a : Int) : inot a = Int.lnot a := by
  cases a with
  | ofNat m => simp only [inot, Int.lnot, Int.ofNat_eq_natCast]; omega
  | negSucc m => simp only [inot, Int.lnot, Int.ofNat_eq_natCast]; omega

@[simp] theorem tb_iand (a b : Int) (n : Nat) :
    (iand a b).testBit n = (a.testBit n && b.testBit n) := by
  rw [iand_eq_land, Int.testBit_land]

@[simp] theorem tb_ior (a b : Int) (n : Nat) :
    (ior a b).testBit n = (a.testBit n || b.testBit n) := by
  rw [ior_eq_lor, Int.testBit_lor]

@[simp] theorem tb_inot (a : Int) (n : Nat) : (inot a).testBit n = !(a.testBit n) := by
  rw [inot_eq_lnot, Int.testBit_lnot]

@[simp] theorem tb_iandNot (a b : Int) (n : Nat) :
    (iandNot a b).testBit n = (a.testBit n && !(b.testBit n)) := by
  simp [iandNot]

@[simp] theorem tb_shr1 (a : Int) (n : Nat) : (a >>> (1 : Nat)).testBit n = a.testBit (n + 1) := by
  cases a with
  | ofNat m =>
    show (Int.ofNat (m >>> 1)).testBit n = _
    simp only [Int.testBit, Nat.testBit_shiftRight, Nat.add_comm]
  | negSucc m =>
    show (Int.negSucc (m >>> 1)).testBit n = _
    simp only [Int.testBit, Nat.testBit_shiftRight, Nat.add_comm]

theorem inot_inot (a : Int) : inot (inot a) = a := by unfold inot; omega

/-! ### signs -/

theorem iand_neg_iff (a b : Int) : iand a b < 0 ↔ a < 0 ∧ b < 0 := by
  cases a <;> cases b <;> simp only [iand, Int.ofNat_eq_natCast] <;> omega

theorem ior_neg_iff (a b : Int) : ior a b < 0 ↔ a < 0 ∨ b < 0 := by
  cases a <;> cases b <;> simp only [ior, Int.ofNat_eq_natCast] <;> omega

theorem inot_neg_iff (a : Int) : inot a < 0 ↔ 0 ≤ a := by unfold inot; omega

theorem iandNot_neg_iff (a b : Int) : iandNot a b < 0 ↔ a < 0 ∧ 0 ≤ b := by
  rw [iandNot, iand_neg_iff, inot_neg_iff]

theorem shr1_neg_iff (a : Int) : a >>> (1 : Nat) < 0 ↔ a < 0 := by
  cases a with
  | ofNat m => show Int.ofNat (m >>> 1) < 0 ↔ _; simp only [Int.ofNat_eq_natCast]; omega
  | negSucc m => show Int.negSucc (m >>> 1) < 0 ↔ _; omega

/-! ### order from bits -/

theorem nat_high_false (m : Nat) : ∀ j, m ≤ j → m.testBit j = false := by
  intro j hj
  apply Nat.testBit_lt_two_pow
  calc m < 2 ^ m := Nat.lt_two_pow_self
    _ ≤ 2 ^ j := Nat.pow_le_pow_right (by decide) hj

/-- the sign is the eventual bit value -/
theorem tb_high (a : Int) : ∃ N, ∀ j, N ≤ j → a.testBit j = decide (a < 0) := by
  cases a with
  | ofNat m =>
    refine ⟨m, fun j hj => ?_⟩
    have : ¬ (Int.ofNat m < 0) := by simp only [Int.ofNat_eq_natCast]; omega
    simp only [Int.testBit, nat_high_false m j hj, this, decide_false]
  | negSucc m =>
    refine ⟨m, fun j hj => ?_⟩
    have : Int.negSucc m < 0 := by omega
    simp only [Int.testBit, nat_high_false m j hj, this, decide_true, Bool.not_false]

/-- numbers that agree on all high bits have the same sign -/
theorem sameSign_of_agree {a b : Int} {i : Nat} (h : ∀ j, i < j → a.testBit j = b.testBit j) :
    (a < 0 ↔ b < 0) := by
  obtain ⟨N1, h1⟩ := tb_high a
  obtain ⟨N2, h2⟩ := tb_high b
  have := h (max (max N1 N2) (i + 1)) (by omega)
  rw [h1 _ (by omega), h2 _ (by omega)] at this
  simpa using this

theorem int_lt_of_testBit {a b : Int} (i : Nat) (ha : a.testBit i = false)
    (hb : b.testBit i = true) (h : ∀ j, i < j → a.testBit j = b.testBit j) : a < b := by
  have hs := sameSign_of_agree h
  cases a with
  | ofNat m =>
    cases b with
    | ofNat n =>
      have := Nat.lt_of_testBit i ha hb h
      simp only [Int.ofNat_eq_natCast]; omega
    | negSucc n => simp only [Int.ofNat_eq_natCast] at hs; omega
  | negSucc m =>
    cases b with
    | ofNat n => simp only [Int.ofNat_eq_natCast] at hs; omega
    | negSucc n =>
      simp only [Int.testBit, Bool.not_eq_eq_eq_not, Bool.not_false, Bool.not_true] at ha hb
      have : n < m := Nat.lt_of_testBit i hb ha (fun j hj => by
        have := h j hj
        simp only [Int.testBit] at this
        cases hm : m.testBit j <;> cases hn : n.testBit j <;> simp_all)
      omega

theorem nat_exists_msb_diff {m n : Nat} (hne : m ≠ n) :
    ∃ i, m.testBit i ≠ n.testBit i ∧ ∀ j, i < j → m.testBit j = n.testBit j := by
  have hx : m ^^^ n ≠ 0 := by
    intro h0
    apply hne
    apply Nat.eq_of_testBit_eq
    intro i
    have : (m ^^^ n).testBit i = false := by rw [h0]; simp
    rw [Nat.testBit_xor] at this
    cases hm : m.testBit i <;> cases hn : n.testBit i <;> simp_all
  obtain ⟨i, hi, hj⟩ := Nat.exists_most_significant_bit hx
  refine ⟨i, ?_, fun j hij => ?_⟩
  · rw [Nat.testBit_xor] at hi
    cases hm : m.testBit i <;> cases hn : n.testBit i <;> simp_all
  · have := hj j hij
    rw [Nat.testBit_xor] at this
    cases hm : m.testBit j <;> cases hn : n.testBit j <;> simp_all

theorem exists_msb_diff {a b : Int} (hne : a ≠ b) (hs : a < 0 ↔ b < 0) :
    ∃ i, a.testBit i ≠ b.testBit i ∧ ∀ j, i < j → a.testBit j = b.testBit j := by
  cases a with
  | ofNat m =>
    cases b with
    | ofNat n =>
      have : m ≠ n := fun h => hne (by rw [h])
      exact nat_exists_msb_diff this
    | negSucc n => simp only [Int.ofNat_eq_natCast] at hs; omega
  | negSucc m =>
    cases b with
    | ofNat n => simp only [Int.ofNat_eq_natCast] at hs; omega
    | negSucc n =>
      have : m ≠ n := fun h => hne (by rw [h])
      obtain ⟨i, hi, hj⟩ := nat_exists_msb_diff this
      refine ⟨i, ?_, fun j hij => ?_⟩
      · simp only [Int.testBit]
        cases hm : m.testBit i <;> cases hn : n.testBit i <;> simp_all
      · simp only [Int.testBit, hj j hij]

theorem int_eq_of_testBit_eq {a b : Int} (h : ∀ n, a.testBit n = b.testBit n) : a = b := by
  by_contra hne
  have hs : a < 0 ↔ b < 0 := sameSign_of_agree (i := 0) (fun j _ => h j)
  obtain ⟨i, hi, _⟩ := exists_msb_diff hne hs
  exact hi (h i)

/-- `a < b` (same sign) is witnessed by the most significant differing bit -/
theorem drop_of_lt {a b : Int} (hlt : a < b) (hs : a < 0 ↔ b < 0) :
    ∃ q, a.testBit q = false ∧ b.testBit q = true ∧ ∀ j, q < j → a.testBit j = b.testBit j := by
  obtain ⟨i, hi, hj⟩ := exists_msb_diff (by omega) hs
  refine ⟨i, ?_, ?_, hj⟩
  · cases ha : a.testBit i with
    | false => rfl
    | true =>
      have hb : b.testBit i = false := by
        cases hb : b.testBit i with
        | false => rfl
        | true => rw [ha, hb] at hi; exact absurd rfl hi
      have := int_lt_of_testBit i hb ha (fun j hij => (hj j hij).symm)
      omega
  · cases hb : b.testBit i with
    | true => rfl
    | false =>
      have ha : a.testBit i = true := by
        cases ha : a.testBit i with
        | true => rfl
        | false => rw [ha, hb] at hi; exact absurd rfl hi
      have := int_lt_of_testBit i hb ha (fun j hij => (hj j hij).symm)
      omega

/-- bitwise subset on the bits `≥ p`, strict at `p`: smaller (same sign) -/
theorem lt_of_tb_subset_above {a b : Int} (p : Nat)
    (hsub : ∀ n, p ≤ n → a.testBit n = true → b.testBit n = true)
    (ha : a.testBit p = false) (hb : b.testBit p = true) (hs : a < 0 ↔ b < 0) : a < b := by
  have hne : a ≠ b := by intro h; rw [h, hb] at ha; cases ha
  obtain ⟨i, hi, hj⟩ := exists_msb_diff hne hs
  have hpi : p ≤ i := by
    by_contra hlt
    have := hj p (by omega)
    rw [ha, hb] at this; cases this
  apply int_lt_of_testBit i _ _ hj
  · cases ha' : a.testBit i with
    | false => rfl
    | true => have := hsub i hpi ha'; rw [ha', this] at hi; exact absurd rfl hi
  · cases hb' : b.testBit i with
    | true => rfl
    | false =>
      cases ha' : a.testBit i with
      | false => rw [ha', hb'] at hi; exact absurd rfl hi
      | true => have := hsub i hpi ha'; rw [hb'] at this; cases this

/-- bitwise subset: smaller or equal (same sign) -/
theorem le_of_tb_subset {a b : Int} (hsub : ∀ n, a.testBit n = true → b.testBit n = true)
    (hs : a < 0 ↔ b < 0) : a ≤ b := by
  by_cases hne : a = b
  · omega
  obtain ⟨i, hi, hj⟩ := exists_msb_diff hne hs
  have : a < b := by
    apply int_lt_of_testBit i _ _ hj
    · cases ha' : a.testBit i with
      | false => rfl
      | true => have := hsub i ha'; rw [ha', this] at hi; exact absurd rfl hi
    · cases hb' : b.testBit i with
      | true => rfl
      | false =>
        cases ha' : a.testBit i with
        | false => rw [ha', hb'] at hi; exact absurd rfl hi
        | true => have := hsub i ha'; rw [hb'] at this; cases this
  omega

/-- `a ≤ b` (same sign), a bit set in `a` and clear in `b`: the drop is strictly above it -/
theorem drop_above {a b : Int} (hle : a ≤ b) (hs : a < 0 ↔ b < 0) {p : Nat}
    (ha : a.testBit p = true) (hb : b.testBit p = false) :
    ∃ q, p < q ∧ a.testBit q = false ∧ b.testBit q = true ∧
      ∀ j, q < j → a.testBit j = b.testBit j := by
  have hne : a ≠ b := by intro h; rw [h, hb] at ha; cases ha
  obtain ⟨q, h1, h2, h3⟩ := drop_of_lt (by omega : a < b) hs
  refine ⟨q, ?_, h1, h2, h3⟩
  by_contra hlt
  have hqp : q ≤ p := by omega
  rcases Nat.lt_or_eq_of_le hqp with h | h
  · have := h3 p h; rw [ha, hb] at this; cases this
  · subst h; rw [ha] at h1; cases h1

/-! ### `bitFillRight` -/

theorem bitFillRight_nonneg {a : Int} (h : 0 ≤ a) : 0 ≤ bitFillRight a := by
  unfold bitFillRight
  split
  · exact h
  · have : 0 < (2 : Int) ^ bitLen a := Int.pow_pos (by decide)
    omega

theorem nat_tb_above_log2 {m : Nat} {j : Nat} (h : m.log2 < j) : m.testBit j = false := by
  apply Nat.testBit_lt_two_pow
  calc m < 2 ^ (m.log2 + 1) := Nat.lt_log2_self
    _ ≤ 2 ^ j := Nat.pow_le_pow_right (by decide) h

/-- bit `n` of `bitFillRight a` is set iff `a` has a set bit at or above `n` -/
theorem tb_bitFillRight {a : Int} (h : 0 ≤ a) (n : Nat) :
    (bitFillRight a).testBit n = true ↔ ∃ m, n ≤ m ∧ a.testBit m = true := by
  cases a with
  | negSucc m => omega
  | ofNat m =>
    by_cases hm : m = 0
    · subst hm
      simp [bitFillRight, Int.testBit]
    · have hpos : ¬ (Int.ofNat m ≤ 0) := by simp only [Int.ofNat_eq_natCast]; omega
      have hbl : bitLen (Int.ofNat m) = m.log2 + 1 := by
        simp only [bitLen, Int.ofNat_eq_natCast, Int.natAbs_natCast, hm, if_false]
      have hcast : (2 : Int) ^ (m.log2 + 1) - 1 = Int.ofNat (2 ^ (m.log2 + 1) - 1) := by
        have : 1 ≤ 2 ^ (m.log2 + 1) := Nat.one_le_two_pow
        simp only [Int.ofNat_eq_natCast]
        rw [Int.natCast_sub this]
        simp
      unfold bitFillRight
      simp only [hpos, if_false, hbl]
      rw [hcast]
      simp only [Int.testBit, Nat.testBit_two_pow_sub_one, decide_eq_true_eq]
      constructor
      · intro hn
        exact ⟨m.log2, by omega, Nat.testBit_log2 hm⟩
      · rintro ⟨k, hk, hbit⟩
        by_contra hlt
        have := nat_tb_above_log2 (m := m) (j := k) (by omega)
        rw [this] at hbit; cases hbit

end WuffsVerif.Interval
