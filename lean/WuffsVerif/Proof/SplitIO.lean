/-
C05 — the chunked world and the one-shot world of `Model/SplitRun.lean` are the same world up to
`CW.abs`: each suspending built-in, run by the chunk driver through its scratch-word machine and
resumed as often as the chunking makes necessary, computes the value and leaves the (abstracted)
world that the one-shot operation does (`Proof/ScratchRead.lean`, `Proof/ScratchProg.lean`).
-/
import WuffsVerif.Proof.SplitSim
import WuffsVerif.Proof.ScratchProg
import WuffsVerif.Model.SplitRun

namespace WuffsVerif.Split
open WuffsVerif.Liveness WuffsVerif.Scratch

/-- Reads use a one-byte row or a well-formed multi-byte row of `readMethods`; callees are
split-independent themselves. -/
def COp.OK : COp → Prop
  | .rd m => m.n = 8 ∨ m.Valid
  | .ext x => x.OK
  | _ => True

/-- A `read_uXXYe?` site entered afresh, for a one-byte row or a well-formed multi-byte row. -/
theorem readGo_start_spec (m : RdMethod) (h : m.n = 8 ∨ m.Valid) (pending : List UInt8)
    (future : List (List UInt8)) (c s : Nat) :
    (m.n / 8 ≤ (pending ++ future.flatten).length →
      ∃ src, readGo m RdSt.start pending c s future =
          (some (peek m.be ((pending ++ future.flatten).take (m.n / 8))), src) ∧
        src.consumed = c + m.n / 8 ∧
        src.pending ++ src.future.flatten = (pending ++ future.flatten).drop (m.n / 8)) ∧
    (¬ m.n / 8 ≤ (pending ++ future.flatten).length →
      ∃ s', readGo m RdSt.start pending c s future =
        (none, ⟨[], [], c + (pending ++ future.flatten).length, s'⟩)) := by
  rcases h with h8 | hv
  · have := read8Go_spec m h8 future pending c s
    simpa [h8] using this
  · have := readGo_spec m hv future RdSt.start [] pending c s (Or.inl ⟨rfl, rfl⟩)
      (by have := hv.lo; simp; omega)
    simpa using this

/-- One operation: same value, same abstracted world. -/
theorem stepC_abs (op : COp) (hok : op.OK) (vals : List Nat) (w : CW) :
    (stepC op vals w).1 = (stepO op vals w.abs).1 ∧ (stepC op vals w).2.1.abs = (stepO op vals w.abs).2 := by
  unfold stepC stepO
  have hma : w.abs.mem = w.mem := rfl
  have hrest : w.abs.rest = w.src.pending ++ w.src.future.flatten := rfl
  rw [hma]
  by_cases hd : w.mem.dead = true
  · simp only [hd, ↓reduceIte, and_self]
  · simp only [hd, Bool.false_eq_true, ↓reduceIte]
    cases op with
    | pure f => simp [CW.abs]
    | store i g => simp [CW.abs]
    | rd m =>
      have hspec := readGo_start_spec m hok w.src.pending w.src.future w.src.consumed w.src.susp
      by_cases hc : m.n / 8 ≤ (w.src.pending ++ w.src.future.flatten).length
      · obtain ⟨src, h1, h2, h3⟩ := hspec.1 hc
        simp only [h1, hrest, hc, ↓reduceIte, true_and]
        simp only [CW.abs, h2, h3]
      · obtain ⟨s', h1⟩ := hspec.2 hc
        simp only [h1, hrest, hc, ↓reduceIte, true_and]
        simp [CW.abs]
    | skip f =>
      have hspec := skipGo_spec w.src.future (f w.mem.fields vals) w.src.pending w.src.consumed w.src.susp
      by_cases hc : f w.mem.fields vals ≤ (w.src.pending ++ w.src.future.flatten).length
      · obtain ⟨src, h1, h2, h3⟩ := hspec.1 hc
        simp only [h1, hrest, hc, ↓reduceIte, true_and]
        simp only [CW.abs, h2, h3]
      · obtain ⟨s', h1⟩ := hspec.2 hc
        simp only [h1, hrest, hc, ↓reduceIte, true_and]
        simp [CW.abs]
    | skip1 =>
      have hspec := skip1Go_spec w.src.future w.src.pending w.src.consumed w.src.susp
      by_cases hc : 1 ≤ (w.src.pending ++ w.src.future.flatten).length
      · obtain ⟨src, h1, h2, h3⟩ := hspec.1 hc
        simp only [h1, hrest, hc, ↓reduceIte, true_and]
        simp only [CW.abs, h2, h3]
      · obtain ⟨s', h1⟩ := hspec.2 hc
        simp only [h1, hrest, hc, ↓reduceIte, true_and]
        simp [CW.abs]
    | wr f =>
      simp only [true_and]
      simp only [CW.abs, writeGo_out]
    | yieldSR =>
      simp only [true_and, hrest]
      by_cases he : (w.src.pending ++ w.src.future.flatten).isEmpty = true
      · simp [he, CW.abs]
      · simp only [he, Bool.false_eq_true, ↓reduceIte]
        cases hf : w.src.future with
        | cons ch fut => simp [CW.abs, hf]
        | nil => simp [CW.abs, hf]
    | yieldSW =>
      simp only [true_and]
      by_cases hr : (w.dst.room == 0) = true
      · simp only [hr, ↓reduceIte]
        cases w.dst.future <;> simp [CW.abs]
      · simp [hr, CW.abs]
    | ext x => exact hok vals w

theorem opAt_OK (interp : Nat → COp) (hok : ∀ t, (interp t).OK) (e : Ex) : (opAt interp e).OK := by
  unfold opAt
  have h := hok e.tag
  cases ht : interp e.tag with
  | pure f => trivial
  | store i g => trivial
  | yieldSR => trivial
  | yieldSW => trivial
  | rd m => simp only; split <;> simp_all [COp.OK]
  | skip f => simp only; split <;> trivial
  | skip1 => simp only; split <;> trivial
  | wr f => simp only; split <;> trivial
  | ext x => simp only; split <;> simp_all [COp.OK]

theorem calleeFinish_abs (out : Out) (log : List Nat) (w : CW) :
    (calleeFinishC out log w).1 = (calleeFinishO out log w.abs).1 ∧
    (calleeFinishC out log w).2.abs = (calleeFinishO out log w.abs).2 := by
  unfold calleeFinishC calleeFinishO
  have hm : w.abs.mem = w.mem := rfl
  simp only [hm, true_and]
  split <;> (split <;> rfl)

theorem Ext.mapArgs_OK (x : Ext) (hx : x.OK) (g : List Nat → List Nat → List Nat) : (x.mapArgs g).OK := by
  intro vals w
  exact hx (g w.mem.fields vals) w

/-- The chunked and the one-shot interpretation are the same interpretation up to `CW.abs`. -/
theorem chunk_one_sim (interp : Nat → COp) (hok : ∀ t, (interp t).OK) (comb : Nat → Nat → Nat → Nat) :
    CfgSim CW.abs (chunkCfg interp comb) (oneCfg interp comb) where
  val e w vals := (stepC_abs (opAt interp e) (opAt_OK interp hok e) vals w).1
  next e w vals := (stepC_abs (opAt interp e) (opAt_OK interp hok e) vals w).2
  comb := rfl

/-- The driver's initial world is the undivided source and an empty destination, whatever the
chunk sizes and capacity pieces. -/
theorem initCW_abs (srcSizes dstSizes : List Nat) (bs : List UInt8) :
    (initCW srcSizes dstSizes bs).abs = initOW bs := by
  unfold initCW initState initOW CW.abs
  have hflat := chunksOf_flatten srcSizes bs
  cases hch : chunksOf srcSizes bs with
  | nil => exact absurd hch (chunksOf_ne_nil srcSizes bs)
  | cons c0 rest =>
    rw [hch] at hflat
    cases dstSizes <;> simp_all

end WuffsVerif.Split
