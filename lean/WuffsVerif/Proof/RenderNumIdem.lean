/-
C12, the Wuffs formatter: an ingredient of `render_idempotent` — what `Render` writes for a
numeric literal is a fixed point: re-grouping an already re-grouped literal changes nothing
(`appendNum_idempotent`), and neither does the repaired fallback (`numOut_idempotent`).
Core Lean only.
-/
import WuffsVerif.Proof.RenderNumWf

namespace WuffsVerif.Render
open WuffsVerif.FmtToken WuffsVerif.Gen.C12

/-- digits whose upper-cased image is a fixed point of upper-casing and not an underscore -/
def UpOK (s : Bytes) : Prop := ∀ x ∈ s, (x == 95) = false → upcase (upcase x) = upcase x ∧ (upcase x == 95) = false

theorem upOK_classes : ∀ c : UInt8, (c == 95) = false →
    (hexaNumericUnderscore c = true ∨ zeroOneUnderscore c = true ∨ numericUnderscore c = true) →
    upcase (upcase c) = upcase c ∧ (upcase c == 95) = false := by
  apply byte_forall; decide +kernel

theorem groupDigits_idem (g : Nat) : ∀ (s : Bytes) (d : Nat), UpOK s →
    groupDigits g d (groupDigits g d s) = groupDigits g d s := by
  intro s
  induction s with
  | nil => intro d _; simp [groupDigits]
  | cons c cs ih =>
    intro d hs
    have hcs : UpOK cs := fun x hx => hs x (by simp [hx])
    rw [groupDigits_eq]
    by_cases hu : (c == USCORE) = true
    · simp only [hu, ↓reduceIte]
      exact ih d hcs
    · have hu' : (c == 95) = false := by simpa [USCORE] using hu
      obtain ⟨h1, h2⟩ := hs c (by simp) hu'
      have h2' : (upcase c == USCORE) = false := by simpa [USCORE] using h2
      simp only [hu, Bool.false_eq_true, ↓reduceIte]
      by_cases hd : d > 0
      · simp only [hd, ↓reduceIte]
        rw [groupDigits_eq]
        simp only [h2', Bool.false_eq_true, ↓reduceIte, hd, h1, ih _ hcs]
      · simp only [hd, ↓reduceIte]
        rw [groupDigits_eq]
        simp only [show ((USCORE : UInt8) == USCORE) = true from by decide, ↓reduceIte]
        rw [groupDigits_eq]
        simp only [h2', Bool.false_eq_true, ↓reduceIte, hd, h1, ih _ hcs]

theorem nonUnderscores_cons (c : UInt8) (s : Bytes) :
    nonUnderscores (c :: s) = (if (c == USCORE) = true then 0 else 1) + nonUnderscores s := by
  unfold nonUnderscores
  by_cases h : (c == USCORE) = true
  · have : (c != USCORE) = false := by simp [bne, h]
    simp [this, h]
  · have : (c != USCORE) = true := by simp [bne, h]
    simp [this, h]; omega

theorem nonUnderscores_groupDigits (g : Nat) : ∀ (s : Bytes) (d : Nat), UpOK s →
    nonUnderscores (groupDigits g d s) = nonUnderscores s := by
  intro s
  induction s with
  | nil => intro d _; simp [groupDigits]
  | cons c cs ih =>
    intro d hs
    have hcs : UpOK cs := fun x hx => hs x (by simp [hx])
    rw [groupDigits_eq, nonUnderscores_cons c cs]
    by_cases hu : (c == USCORE) = true
    · simp only [hu, ↓reduceIte, Nat.zero_add]
      exact ih d hcs
    · have hu' : (c == 95) = false := by simpa [USCORE] using hu
      obtain ⟨_, h2⟩ := hs c (by simp) hu'
      have h2' : (upcase c == USCORE) = false := by simpa [USCORE] using h2
      simp only [hu, Bool.false_eq_true, ↓reduceIte]
      split
      · rw [nonUnderscores_cons, ih _ hcs]; simp [h2']
      · rw [nonUnderscores_cons, nonUnderscores_cons, ih _ hcs]
        simp [h2']

theorem groupBody_idem (g : Nat) (s : Bytes) (hs : UpOK s) : groupBody g (groupBody g s) = groupBody g s := by
  unfold groupBody
  simp only
  rw [nonUnderscores_groupDigits g s _ hs, groupDigits_idem g s _ hs]

theorem upOK_of_all (Q : UInt8 → Bool) (hQ : ∀ c, Q c = true →
    hexaNumericUnderscore c = true ∨ zeroOneUnderscore c = true ∨ numericUnderscore c = true)
    (s : Bytes) (h : s.all Q = true) : UpOK s :=
  fun x hx hx95 => upOK_classes x hx95 (hQ x (List.all_eq_true.mp h x hx))

/-- `appendNum` is idempotent on well-formed literal texts -/
theorem appendNum_idempotent (s : Bytes) (h : wfNumText s = true) : appendNum (appendNum s) = appendNum s := by
  cases s with
  | nil => simp [wfNumText] at h
  | cons c σ =>
    obtain ⟨_, _, hc, hcls⟩ := wfNumText_cons h
    have hcu : numericUnderscore c = true := numeric_numUnd c hc
    have hdec : ∀ (hσ : σ.all numericUnderscore = true) (happ : appendNum (c :: σ) = groupBody 6 (c :: σ)),
        appendNum (appendNum (c :: σ)) = appendNum (c :: σ) := by
      intro hσ happ
      have hall : (c :: σ).all numericUnderscore = true := by simp [hcu, hσ]
      have hup : UpOK (c :: σ) := upOK_of_all numericUnderscore (fun _ h => Or.inr (Or.inr h)) _ hall
      rw [happ]
      obtain ⟨d, hd⟩ := groupBody_cons_numeric 6 (by decide) c σ hc
      have hgd : ∀ y ∈ groupDigits 6 d σ, numericUnderscore y = true :=
        groupDigits_all numericUnderscore (by decide) 6 σ d (fun x hx hx95 => by
          have hx' := List.all_eq_true.mp hσ x hx
          rw [((upcase_classes x hx95).2.2 hx')]; exact hx')
      have : appendNum (groupBody 6 (c :: σ)) = groupBody 6 (groupBody 6 (c :: σ)) := by
        rw [hd]
        unfold appendNum
        split
        · rename_i p rest heq
          simp only [List.cons.injEq] at heq
          obtain ⟨_, hp⟩ := heq
          have hpm : p ∈ groupDigits 6 d σ := by rw [hp]; simp
          have hpx := numUnd_not_prefix p (hgd p hpm)
          have c1 : (p == 88 || p == 120) = false := by
            cases hx : (p == 88 || p == 120) with
            | false => rfl
            | true =>
              exfalso
              have : (p == 120 || p == 88) = true := by
                rcases Bool.or_eq_true_iff.mp hx with h | h <;> simp [h]
              rw [hpx.1] at this; exact absurd this (by simp)
          have c2 : (p == 66 || p == 98) = false := by
            cases hx : (p == 66 || p == 98) with
            | false => rfl
            | true =>
              exfalso
              have : (p == 98 || p == 66) = true := by
                rcases Bool.or_eq_true_iff.mp hx with h | h <;> simp [h]
              rw [hpx.2] at this; exact absurd this (by simp)
          simp only [c1, c2, Bool.false_eq_true, ↓reduceIte]
        · rfl
      rw [this, groupBody_idem 6 _ hup]
    cases σ with
    | nil => exact hdec (by simp) (by simp [appendNum])
    | cons p body =>
      unfold numCls at hcls
      simp only at hcls
      by_cases c1 : (c == 48 && (p == 120 || p == 88)) = true
      · simp only [c1, ↓reduceIte] at hcls
        rw [Bool.and_eq_true] at c1
        have hc48 : c = 48 := by simpa using c1.1
        subst hc48
        have hp : (p == 88 || p == 120) = true := by
          rcases Bool.or_eq_true_iff.mp c1.2 with h | h <;> simp [h]
        have happ : appendNum (48 :: p :: body) = 48 :: 120 :: groupBody 4 body := by
          unfold appendNum; simp only [hp, ↓reduceIte]
        rw [happ]
        unfold appendNum
        simp only [show ((120 : UInt8) == 88 || (120 : UInt8) == 120) = true from by decide, ↓reduceIte]
        rw [groupBody_idem 4 body (upOK_of_all hexaNumericUnderscore (fun _ h => Or.inl h) body hcls)]
      · simp only [c1, Bool.false_eq_true, ↓reduceIte] at hcls
        by_cases c2 : (c == 48 && (p == 98 || p == 66)) = true
        · simp only [c2, ↓reduceIte] at hcls
          rw [Bool.and_eq_true] at c2
          have hc48 : c = 48 := by simpa using c2.1
          subst hc48
          have hp1 : (p == 88 || p == 120) = false := by
            cases hx : (p == 88 || p == 120) with
            | false => rfl
            | true =>
              exfalso; apply c1
              rcases Bool.or_eq_true_iff.mp hx with h | h <;> simp [h]
          have hp : (p == 66 || p == 98) = true := by
            rcases Bool.or_eq_true_iff.mp c2.2 with h | h <;> simp [h]
          have happ : appendNum (48 :: p :: body) = 48 :: 98 :: groupBody 4 body := by
            unfold appendNum; simp only [hp1, Bool.false_eq_true, ↓reduceIte, hp]
          rw [happ]
          unfold appendNum
          simp only [show ((98 : UInt8) == 88 || (98 : UInt8) == 120) = false from by decide,
            show ((98 : UInt8) == 66 || (98 : UInt8) == 98) = true from by decide, Bool.false_eq_true, ↓reduceIte]
          rw [groupBody_idem 4 body (upOK_of_all zeroOneUnderscore (fun _ h => Or.inr (Or.inl h)) body hcls)]
        · simp only [c2, Bool.false_eq_true, ↓reduceIte] at hcls
          by_cases c3 : (c == 48 && numeric p) = true
          · simp [c3] at hcls
          · simp only [c3, Bool.false_eq_true, ↓reduceIte] at hcls
            refine hdec hcls ?_
            unfold appendNum
            split
            · rename_i p2 rest2 heq
              simp only [List.cons.injEq] at heq
              obtain ⟨hc48, rfl, rfl⟩ := heq
              subst hc48
              have c1' : (p == 88 || p == 120) = false := by
                cases hx : (p == 88 || p == 120) with
                | false => rfl
                | true =>
                  exfalso; apply c1
                  rcases Bool.or_eq_true_iff.mp hx with h | h <;> simp [h]
              have c2' : (p == 66 || p == 98) = false := by
                cases hx : (p == 66 || p == 98) with
                | false => rfl
                | true =>
                  exfalso; apply c2
                  rcases Bool.or_eq_true_iff.mp hx with h | h <;> simp [h]
              simp only [c1', c2', Bool.false_eq_true, ↓reduceIte]
            · rfl

/-- what `Render` writes for a literal is a fixed point of what `Render` writes for literals -/
theorem numOut_idempotent (s : Bytes) (h : wfNumText s = true) : numOut (numOut s) = numOut s := by
  unfold numOut
  simp only
  by_cases h1 : numNotRetokenizable (appendNum s) = true
  · simp only [h1, ↓reduceIte]
  · simp only [h1, Bool.false_eq_true, ↓reduceIte, appendNum_idempotent s h]

end WuffsVerif.Render
