/-
C14 helper: every step of the data-level model (Model/Rac/ConcData.lean) preserves `DInv`.
Part 3: the API calls of `main` (and their results against the in-memory reference reader).
-/
import WuffsVerif.Proof.RacConcDataStep2

set_option linter.unusedVariables false
set_option linter.unusedSimpArgs false

namespace WuffsVerif.Rac.ConcD
open WuffsVerif.Rac WuffsVerif.Rac.Conc

/-- between calls nothing is pending -/
theorem idle_facts {F : File} {s : DSt} (hI : DInv F s) (hm : s.main = .idle ∨ s.main = .closed) :
    s.pend = none ∧ s.got = [] := by
  have hp := hI.pend
  have h1 : s.pend = none := by
    rcases hm with hm | hm <;> simp only [PendInv, hm] at hp
    · exact hp
    · exact hp.1
  exact ⟨h1, hI.nord (by intro n; rw [h1]; simp)⟩

theorem specOf_ret (F : File) (s : DSt) (op : Op) (res : Res) :
    specOf F (s.ret op res) = ((specOf F s).step op).1 := by
  simp only [specOf, DSt.ret]
  exact specAfter_append _ _ _

/-- a call that returns at once and changes nothing -/
theorem dinv_same_result {F : File} {s : DSt} (hI : DInv F s) (hm : s.main = .idle ∨ s.main = .closed)
    (op : Op) (res : Res) (hstep : (specOf F s).step op = (specOf F s, res)) (hcanon : res.canon = res) :
    DInv F (s.ret op res) := by
  obtain ⟨hpn, hgot⟩ := idle_facts hI hm
  have hsp : specOf F (s.ret op res) = specOf F s := by rw [specOf_ret, hstep]
  have hp := hI.pend
  exact { hI with
    pend := by
      rcases hm with hm | hm
      · simp [PendInv, DSt.ret, hm]
      · simp only [PendInv, hm] at hp
        simpa [PendInv, DSt.ret, hm] using hp.2
    rd := fun n h => by simp [DSt.ret] at h
    nord := fun _ => rfl
    log := by
      simp only [DSt.ret]
      rw [spec_run_append, ← hI.log]
      show _ = _ ++ [((specOf F s).step op).2]
      rw [hstep, hcanon]
    sperr := by rw [hsp]; exact hI.sperr
    spclosed := by rw [hsp]; exact hI.spclosed
    sp := fun he => by
      rw [hsp]
      obtain ⟨a, b, c⟩ := hI.sp he
      rw [hgot] at b
      exact ⟨a, b, rfl⟩ }

/-- a call that returns at once with a new sticky error -/
theorem dinv_err_result {F : File} {s : DSt} (hI : DInv F s) (hm : s.main = .idle) (e : Err)
    (op : Op) (res : Res) (hstep : (specOf F s).step op = ({ specOf F s with err := some e }, res))
    (hcanon : res.canon = res) :
    DInv F ({ s with err := some e }.ret op res) := by
  obtain ⟨hpn, hgot⟩ := idle_facts hI (Or.inl hm)
  have hsp : specOf F ({ s with err := some e }.ret op res) = { specOf F s with err := some e } := by
    rw [specOf_ret]; show ((specOf F s).step op).1 = _; rw [hstep]
  exact { hI with
    pend := by simp only [PendInv, DSt.ret, hm]
    rd := fun n h => by simp [DSt.ret] at h
    nord := fun _ => rfl
    log := by
      simp only [DSt.ret]
      rw [spec_run_append, ← hI.log]
      show _ = _ ++ [((specOf F s).step op).2]
      rw [hstep, hcanon]
    sperr := by rw [hsp]; rfl
    spclosed := by rw [hsp]; exact hI.spclosed
    sp := fun he => by simp [DSt.ret] at he }

/-- a successful Seek / SeekRange -/
theorem dinv_seek_result {F : File} {s : DSt} (hI : DInv F s) (hm : s.main = .idle) (he : s.err = none)
    (P L : Nat) (b : Bool) (op : Op) (res : Res) (hL : L ≤ F.size)
    (hb : b = true → s.seekResolved = true ∧ P = s.pos ∧ L = s.lim)
    (hstep : (specOf F s).step op = ({ specOf F s with pos := P, lim := L }, res)) (hcanon : res.canon = res) :
    DInv F ({ s with pos := P, lim := L, seekResolved := b }.ret op res) := by
  obtain ⟨hpn, hgot⟩ := idle_facts hI (Or.inl hm)
  have hsp : specOf F ({ s with pos := P, lim := L, seekResolved := b }.ret op res)
      = { specOf F s with pos := P, lim := L } := by
    rw [specOf_ret]; show ((specOf F s).step op).1 = _; rw [hstep]
  exact { hI with
    lim := hL
    seen := fun h => hI.seen (hb h).1
    live := fun h1 h2 => by
      obtain ⟨b1, b2, b3⟩ := hb h1
      obtain ⟨a1, a2⟩ := hI.live b1 (Or.inl hm)
      refine ⟨by show s.mgr.rhi = L; rw [b3]; exact a1, fun it hit => ?_⟩
      show P = it.lo + s.ci ∧ s.ci ≤ it.data.length
      rw [b2]
      exact a2 it hit
    pend := by simp only [PendInv, DSt.ret, hm]
    rd := fun n h => by simp [DSt.ret] at h
    nord := fun _ => rfl
    log := by
      simp only [DSt.ret]
      rw [spec_run_append, ← hI.log]
      show _ = _ ++ [((specOf F s).step op).2]
      rw [hstep, hcanon]
    sperr := by rw [hsp]; exact hI.sperr
    spclosed := by rw [hsp]; exact hI.spclosed
    sp := fun _ => by rw [hsp]; exact ⟨rfl, rfl, rfl⟩ }

/-- the shape of `seekD`'s result when the target is a valid position -/
theorem seekD_shape (F : File) (s : DSt) (off wh limit p : Int)
    (ht : seekTarget s.pos F.size off wh = some p) (hp : 0 ≤ p) :
    ∃ (b : Bool), (seekD F s off wh limit) =
      ({ s with pos := p.toNat, lim := (if limit > (F.size : Int) then (F.size : Int) else limit).toNat,
                seekResolved := b }, p, none) ∧
      (b = true → s.seekResolved = true ∧ p.toNat = s.pos ∧
        (if limit > (F.size : Int) then (F.size : Int) else limit).toNat = s.lim) := by
  unfold seekD
  rw [ht]
  simp only
  rw [if_neg (by omega)]
  generalize (if limit > (F.size : Int) then (F.size : Int) else limit).toNat = L
  by_cases h1 : p ≠ (s.pos : Int)
  · rw [if_pos h1]
    simp only
    by_cases h2 : s.lim ≠ L
    · rw [if_pos h2]
      exact ⟨false, rfl, by intro h; cases h⟩
    · rw [if_neg h2]
      have h2' : s.lim = L := by omega
      refine ⟨false, ?_, by intro h; cases h⟩
      rw [← h2']
  · rw [if_neg h1]
    have h1' : p.toNat = s.pos := by omega
    by_cases h2 : s.lim ≠ L
    · rw [if_pos h2]
      refine ⟨false, ?_, by intro h; cases h⟩
      rw [h1']
    · rw [if_neg h2]
      have h2' : s.lim = L := by omega
      refine ⟨s.seekResolved, ?_, fun h => ⟨h, h1', h2'.symm⟩⟩
      rw [h1', ← h2']

theorem spec_sticky {F : File} {s : DSt} (hI : DInv F s) (e : Err) (he : s.err = some e) :
    (specOf F s).err = some e := by rw [hI.sperr]; exact he

theorem dinv_call {F : File} (hok : F.ok) {s s' : DSt} (op : Op) (hI : DInv F s)
    (h : stepD F s (.call op) = some s') : DInv F s' := by
  simp only [stepD, hI.nofault, Bool.false_eq_true, ↓reduceIte] at h
  unfold callD at h
  split at h
  · next hm =>
    have hp := hI.pend
    obtain ⟨hpn, hgot⟩ := idle_facts hI hm
    have hdata := specOf_data F s
    have hlen : (specOf F s).data.length = F.size := by rw [hdata]; exact File.bytes_length hok.1
    have hnc : s.err = none → s.main = .idle := by
      intro he
      rcases hm with hm | hm
      · exact hm
      · simp only [PendInv, hm] at hp; exact absurd he hp.2.2
    cases op with
    | read n =>
      simp only at h
      split at h
      · next e he =>
        cases h
        refine dinv_same_result hI hm _ _ ?_ (Props.C14.canon_read_nil _)
        simp only [Spec.step, spec_sticky hI e he]
      · next he =>
        have hidle := hnc he
        have hse : (specOf F s).err = none := by rw [hI.sperr]; exact he
        obtain ⟨p1, p2, p3⟩ := hI.sp he
        rw [hgot] at p2
        simp only [List.length_nil, Nat.add_zero] at p2
        rw [if_neg (by rw [hidle]; simp)] at h
        split at h
        · next hge =>
          cases h
          refine dinv_same_result hI hm _ _ ?_ rfl
          simp only [Spec.step, hse]
          rw [if_pos (by omega)]
        · next hlt =>
          have hcl : s.closed = false := by
            cases hc : s.closed with
            | false => rfl
            | true => have := hI.closedIff hc; rw [hidle] at this; cases this
          split at h
          · next hsr =>
            rw [if_pos (hI.seen hsr)] at h
            cases h
            have hl := hI.live hsr (Or.inl hidle)
            exact { hI with
              live := fun _ _ => hl
              closedIff := fun hc => by rw [hcl] at hc; cases hc
              nofault := by first | rfl | exact hI.nofault
              pend := by simp [PendInv, he, hcl, hsr]
              rd := fun m hm' => by
                simp only [Option.some.injEq, Op.read.injEq] at hm'; subst hm'
                exact ⟨by simp, by show s.pos ≤ s.lim; omega, by show (specOf F s).pos < s.lim; omega⟩
              nord := fun hno => absurd rfl (hno n)
              sp := fun _ => ⟨p1, by show (specOf F s).pos + 0 = s.pos; omega, rfl⟩ }
          · next hsr =>
            split at h
            · next hseen =>
              cases h
              exact { hI with
                seen := fun _ => hseen
                live := fun _ h => by rcases h with h | h <;> cases h
                closedIff := fun hc => by rw [hcl] at hc; cases hc
                nofault := by first | rfl | exact hI.nofault
                pend := by simp [PendInv, he, hcl]
                rd := fun m hm' => by
                  simp only [Option.some.injEq, Op.read.injEq] at hm'; subst hm'
                  exact ⟨by simp, by show s.pos ≤ s.lim; omega, by show (specOf F s).pos < s.lim; omega⟩
                nord := fun hno => absurd rfl (hno n)
                sp := fun _ => ⟨p1, by show (specOf F s).pos + 0 = s.pos; omega, rfl⟩ }
            · next hseen =>
              cases h
              exact { hI with
                seen := fun _ => rfl
                live := fun _ h => by rcases h with h | h <;> cases h
                closedIff := fun hc => by rw [hcl] at hc; cases hc
                nofault := by first | rfl | exact hI.nofault
                pend := by simp [PendInv, he, hcl]
                rd := fun m hm' => by
                  simp only [Option.some.injEq, Op.read.injEq] at hm'; subst hm'
                  exact ⟨by simp, by show s.pos ≤ s.lim; omega, by show (specOf F s).pos < s.lim; omega⟩
                nord := fun hno => absurd rfl (hno n)
                sp := fun _ => ⟨p1, by show (specOf F s).pos + 0 = s.pos; omega, rfl⟩ }
    | seek off wh =>
      simp only at h
      split at h
      · next e he =>
        cases h
        refine dinv_same_result hI hm _ _ ?_ rfl
        simp only [Spec.step, spec_sticky hI e he]
      · next he =>
        have hidle := hnc he
        have hse : (specOf F s).err = none := by rw [hI.sperr]; exact he
        obtain ⟨p1, p2, p3⟩ := hI.sp he
        rw [hgot] at p2
        simp only [List.length_nil, Nat.add_zero] at p2
        rw [if_neg (by rw [hidle]; simp)] at h
        cases ht : seekTarget s.pos F.size off wh with
        | none =>
          have hsd : seekD F s off wh maxInt64 = ({ s with err := some .whence }, 0, some .whence) := by
            simp only [seekD, ht]
          rw [hsd] at h
          cases h
          refine dinv_err_result hI hidle _ _ _ ?_ rfl
          simp only [Spec.step, hse, hlen, p2, ht, specOf_sticky, ↓reduceIte]
        | some p =>
          by_cases hneg : p < 0
          · have hsd : seekD F s off wh maxInt64 = ({ s with err := some .negPos }, 0, some .negPos) := by
              simp only [seekD, ht]
              rw [if_pos ⟨by omega, hneg⟩]
            rw [hsd] at h
            cases h
            refine dinv_err_result hI hidle _ _ _ ?_ rfl
            simp only [Spec.step, hse, hlen, p2, ht]
            rw [if_pos hneg]
          · obtain ⟨b, hsd, hb⟩ := seekD_shape F s off wh maxInt64 p ht (by omega)
            have hL : (if maxInt64 > (F.size : Int) then (F.size : Int) else maxInt64).toNat = F.size := by
              have := hok.2
              unfold maxSize at this
              unfold maxInt64
              split <;> omega
            rw [hL] at hsd hb
            rw [hsd] at h
            cases h
            refine dinv_seek_result hI hidle he _ _ b _ _ (Nat.le_refl _) hb ?_ rfl
            simp only [Spec.step, hse, hlen, p2, ht]
            rw [if_neg hneg]
    | seekRange lo hi =>
      simp only at h
      split at h
      · next e he =>
        cases h
        refine dinv_same_result hI hm _ _ ?_ rfl
        simp only [Spec.step, spec_sticky hI e he]
      · next he =>
        have hidle := hnc he
        have hse : (specOf F s).err = none := by rw [hI.sperr]; exact he
        obtain ⟨p1, p2, p3⟩ := hI.sp he
        rw [hgot] at p2
        simp only [List.length_nil, Nat.add_zero] at p2
        rw [if_neg (by rw [hidle]; simp)] at h
        split at h
        · next hr =>
          cases h
          refine dinv_err_result hI hidle _ _ _ ?_ rfl
          simp only [Spec.step, hse]
          rw [if_pos hr]
        · next hr =>
          have ht : seekTarget s.pos F.size lo 0 = some lo := by simp [seekTarget]
          by_cases hneg : lo < 0
          · have hsd : seekD F s lo 0 hi = ({ s with err := some .negPos }, 0, some .negPos) := by
              simp only [seekD, ht]
              rw [if_pos ⟨by omega, hneg⟩]
            rw [hsd] at h
            cases h
            refine dinv_err_result hI hidle _ _ _ ?_ rfl
            simp only [Spec.step, hse]
            rw [if_neg hr, if_pos hneg]
          · obtain ⟨b, hsd, hb⟩ := seekD_shape F s lo 0 hi lo ht (by omega)
            rw [hsd] at h
            cases h
            refine dinv_seek_result hI hidle he _ _ b _ _ ?_ hb ?_ rfl
            · split <;> omega
            · simp only [Spec.step, hse, hlen]
              rw [if_neg hr, if_neg hneg]
              congr 2
              split <;> omega
    | close =>
      simp only at h
      split at h
      · next hc =>
        cases h
        refine dinv_same_result hI hm _ _ ?_ rfl
        simp only [Spec.step, hI.spclosed, hc, ↓reduceIte, hI.sperr]
      · next hc =>
        have hidle : s.main = .idle := by
          rcases hm with hm | hm
          · exact hm
          · simp only [PendInv, hm] at hp; exact absurd hp.2.1 hc
        rw [if_neg (by rw [hidle]; simp)] at h
        cases h
        exact { hI with
          live := fun _ h => by rcases h with h | h <;> cases h
          closedIff := fun h => absurd h hc
          nofault := by first | rfl | exact hI.nofault
          pend := by
            have hcf : s.closed = false := by cases hcc : s.closed <;> simp_all
            simp [PendInv, hcf]
          rd := fun n h => by simp at h
          nord := fun _ => hgot }
  · cases h

theorem spec_read_live (sp : Spec) (n : Nat) (he : sp.err = none) (hlt : sp.pos < sp.lim) :
    sp.step (.read n) = ({ sp with pos := sp.pos + min n (sp.lim - sp.pos) },
      .read ((sp.data.drop sp.pos).take (min n (sp.lim - sp.pos))) none) := by
  simp only [Spec.step, he]
  rw [if_neg (by omega)]

theorem dinv_readDone {F : File} (hok : F.ok) {s s' : DSt} (hI : DInv F s)
    (h : stepD F s .readDone = some s') : DInv F s' := by
  simp only [stepD, hI.nofault, Bool.false_eq_true, ↓reduceIte] at h
  split at h
  · next hg =>
    have hp := hI.pend
    simp only [PendInv, hg.1] at hp
    obtain ⟨⟨n, hpn⟩, herr, hsr, hcl⟩ := hp
    rw [hpn] at h
    simp only at h
    cases h
    obtain ⟨r1, r2, r3⟩ := hI.rd n hpn
    obtain ⟨p1, p2, p3⟩ := hI.sp herr
    have hse : (specOf F s).err = none := by rw [hI.sperr]; exact herr
    have hover : s.pos ≥ s.lim ∨ s.want = 0 := hg.2
    have hk : min n ((specOf F s).lim - (specOf F s).pos) = s.got.length := by omega
    have hstep := spec_read_live (specOf F s) n hse (by omega)
    rw [hk, specOf_data, ← p3] at hstep
    have hl := hI.live hsr (Or.inr hg.1)
    have hcanon : (Res.read s.got (if s.pos ≥ s.lim then some Err.eof else none)).canon = Res.read s.got none := by
      by_cases hge : s.pos ≥ s.lim
      · rw [if_pos hge]
        have hne : s.got.isEmpty = false := by
          cases hgl : s.got with
          | nil => rw [hgl] at hk p2; simp at hk p2; omega
          | cons x xs => rfl
        simp only [Res.canon, hne, Bool.false_eq_true, ↓reduceIte]
      · rw [if_neg hge]; rfl
    have hsp : specAfter (Spec.init F.bytes true) (s.hist ++ [Op.read n])
        = { specOf F s with pos := (specOf F s).pos + s.got.length } := by
      rw [specAfter_append]; show ((specOf F s).step (.read n)).1 = _; rw [hstep]
      simp only [specOf_data]
    exact { hI with
      nofault := by first | rfl | exact hI.nofault
      live := fun _ _ => hl
      closedIff := fun hc => by rw [hcl] at hc; cases hc
      pend := by simp [PendInv, DSt.ret]
      rd := fun m h => by simp [DSt.ret] at h
      nord := fun _ => rfl
      log := by
        simp only [DSt.ret]
        rw [spec_run_append, ← hI.log]
        show _ = _ ++ [((specOf F s).step (.read n)).2]
        rw [hstep, hcanon]
      sperr := by simp only [specOf, DSt.ret]; rw [hsp]; exact hI.sperr
      spclosed := by simp only [specOf, DSt.ret]; rw [hsp]; exact hI.spclosed
      sp := fun _ => by
        simp only [specOf, DSt.ret]; rw [hsp]
        exact ⟨p1, by show _ + 0 = s.pos; omega, rfl⟩ }
  · cases h

end WuffsVerif.Rac.ConcD
