/-
C07 helper, part 10: the modules of the dynamic-Huffman proof put together.

  specSideSpec_holds    Proof/StdDeflateDynCanon.lean     the specification's decoder on a complete code = canonical codes
  countsSpec_holds, countSpec_holds   …DynCount.lean       init_huff: counts, over/under-subscription, offsets, min/max
  symbolsSpec_holds     …DynSymbols.lean                  init_huff: the counting sort = the (length, symbol) order
  (FillSpec             …DynFill*.lean                    init_huff: the table-filling loop — a hypothesis here; see
                                                          Proof/StdDeflateDynFinal.lean)
  deriveSpec_holds      …DynDerive.lean                   table contents ⇒ TblOK ∧ Agree
  valSpec_holds         …DynVal.lean                      literal / end-of-block / LCODE / DCODE magic entries
  initHuffSingleSpec_holds  …DynSingle.lean               the degenerate one-code distance table
  readLensSpec_holds    …DynLens.lean                     run-length decoding of the code lengths (16/17/18)
  dynRefines_of_initHuff    …DynHeader.lean               init_dynamic_huffman = Spec.dynamicHeader
Core Lean only.
-/
import WuffsVerif.Proof.StdDeflateDynCanon
import WuffsVerif.Proof.StdDeflateDynCount
import WuffsVerif.Proof.StdDeflateDynSymbols
import WuffsVerif.Proof.StdDeflateDynDerive
import WuffsVerif.Proof.StdDeflateDynVal
import WuffsVerif.Proof.StdDeflateDynSingle
import WuffsVerif.Proof.StdDeflateDynLens
import WuffsVerif.Proof.StdDeflateDynInit
import WuffsVerif.Proof.StdDeflateDynCheck
import WuffsVerif.Proof.StdDeflateDynHeader

namespace WuffsVerif.StdDeflate

/-- **`init_huff` is correct** for the three calls `init_dynamic_huffman` makes, on every complete code and on the
    degenerate one-code distance code: the tables it leaves in `huffs[which]` are prefix-replicated and agree with
    the specification's canonical code on all 2^15 windows — given the analysis of the table-filling loop. -/
theorem initHuffSpec_of_fill (hF : FillSpec) : InitHuffSpec :=
  ⟨initHuffCompleteSpec_of specSideSpec_holds symbolsSpec_holds countSpec_holds hF deriveSpec_holds valSpec_holds,
   initHuffSingleSpec_holds countsSpec_holds⟩

/-- At every dynamic block whose header std/deflate accepts (`DynOK`), the mirror of `init_dynamic_huffman` +
    `init_huff` refines `Spec.dynamicHeader` — given the analysis of the table-filling loop. -/
theorem dynRefines_of_fill (hF : FillSpec) (s : Bytes) (hok : DynOK s) : DynRefines s :=
  dynRefines_of_initHuff (initHuffSpec_of_fill hF) readLensSpec_holds s hok

/-- a stream whose first block is final never reaches a second block boundary -/
theorem reach_of_final (s : Bytes) (hf : Flate.Spec.bitAt s 0 = 1) : ∀ p out, Reach s p out → p = 0 := by
  intro p out hr
  induction hr with
  | start => rfl
  | next hprev _ hnf _ ih => subst ih; exact absurd hf hnf

/-- `DynOK` from the evaluated check, for a stream that consists of ONE (final) block -/
theorem dynOK_of_final (s : Bytes) (hf : Flate.Spec.bitAt s 0 = 1) (hb : headerOKb s 3 = true) : DynOK s := by
  intro p out hr _ _
  have hp := reach_of_final s hf p out hr
  subst hp
  exact headerOKb_sound s 3 hb

end WuffsVerif.StdDeflate
