/-
C12, the Wuffs formatter: well-formed tokens (`wfTok`: a squiggly token of the tables, or a word /
number / string text with its interned ID), their flags, and the two ways a token written by
`Render` is read back: followed by a blank (`relex_blank`), or directly followed by the next
token where `Render` decided to write no space (`relex_adj`, from the pair table of
`Proof/RenderPairs.lean`).  Core Lean only.
-/
import WuffsVerif.Proof.RenderTables
import WuffsVerif.Proof.RenderNumWf

namespace WuffsVerif.Render
open WuffsVerif.FmtToken WuffsVerif.Gen.C12

/-! ### well-formed tokens -/

/-- a squiggly token: an entry of `punctToks` -/
def wfPunct (t : Tok) : Bool := punctToks.any (fun e => e.1 == t.id && e.2.1 == t.text)

/-- a word, number or string with the ID `token.Map` gives its text -/
def wfPlain (t : Tok) : Bool :=
  (wfWordText t.text || wfNumText t.text || wfStrText t.text) && t.id == (intern t.text).1

/-- what `Tokenize` produces -/
def wfTok (t : Tok) : Bool := wfPunct t || wfPlain t

theorem wfPunct_entry {t : Tok} (h : wfPunct t = true) :
    ∃ e ∈ punctToks, e.1 = t.id ∧ e.2.1 = t.text := by
  unfold wfPunct at h
  obtain ⟨e, he, h2⟩ := List.any_eq_true.mp h
  rw [Bool.and_eq_true] at h2
  exact ⟨e, he, by simpa using h2.1, by simpa using h2.2⟩

theorem punct_facts {e : Nat × Bytes × Nat} (he : e ∈ punctToks) :
    e.1 < nBuiltInIDs ∧ flagsOfId e.1 = e.2.2 ∧ ∃ c σ, e.2.1 = c :: σ ∧ ¬ c ≤ 32 ∧
      (c == 34 || c == 39) = false ∧ alpha c = false ∧ numeric c = false ∧
      (c == 47 && σ.head? == some 47) = false := by
  have h := List.all_eq_true.mp punct_entry_facts e he
  rw [Bool.and_eq_true, Bool.and_eq_true] at h
  obtain ⟨⟨h1, h2⟩, h3⟩ := h
  refine ⟨by simpa using h1, by simpa using h2, ?_⟩
  cases htxt : e.2.1 with
  | nil => rw [htxt] at h3; simp at h3
  | cons c σ =>
    rw [htxt] at h3
    simp only [Bool.and_eq_true, Bool.not_eq_true', decide_eq_false_iff_not] at h3
    exact ⟨c, σ, rfl, h3.1.1.1.1, h3.1.1.1.2, h3.1.1.2, h3.1.2, h3.2⟩

theorem alpha_not_numeric : ∀ c : UInt8, alpha c = true → numeric c = false ∧ alphaNumeric c = true := by
  apply byte_forall; decide +kernel

theorem numeric_alnum : ∀ c : UInt8, numeric c = true → alphaNumeric c = true := by
  apply byte_forall; decide +kernel

theorem quote_not_numeric : ∀ c : UInt8, (c == 34 || c == 39) = true → numeric c = false := by
  apply byte_forall; decide +kernel

/-- the first byte of a word, number or string -/
def plainStart (c : UInt8) : Bool := alphaNumeric c || c == 34 || c == 39

theorem wfPlain_head {t : Tok} (h : wfPlain t = true) :
    ∃ c σ, t.text = c :: σ ∧ plainStart c = true := by
  unfold wfPlain at h
  rw [Bool.and_eq_true, Bool.or_eq_true, Bool.or_eq_true] at h
  cases htxt : t.text with
  | nil =>
    rw [htxt] at h
    simp [wfWordText, wfNumText, wfStrText] at h
  | cons c σ =>
    refine ⟨c, σ, rfl, ?_⟩
    rw [htxt] at h
    unfold plainStart
    rcases h.1 with (hw | hn) | hs
    · unfold wfWordText at hw
      rw [Bool.and_eq_true, Bool.and_eq_true] at hw
      simp [(alpha_not_numeric c hw.1.1).2]
    · simp [numeric_alnum c (wfNumText_cons hn).2.2.1]
    · unfold wfStrText at hs
      rw [Bool.and_eq_true] at hs
      have := hs.2
      simp only at this
      by_cases h1 : (c == 34) = true
      · simp [h1]
      · by_cases h2 : (c == 39) = true
        · simp [h2]
        · simp [h1, h2] at this

/-- `builtinByName` finds entries of `builtins` only -/
theorem builtinByName_sound {text : Bytes} {r : Nat × Nat} (h : builtinByName text = some r) :
    ∃ b ∈ builtins, b.2.1 = text ∧ b.1 = r.1 ∧ b.2.2 = r.2 := by
  unfold builtinByName at h
  cases text with
  | nil => simp at h
  | cons c rest =>
    simp only [Option.map_eq_some_iff] at h
    obtain ⟨e, hf, rfl⟩ := h
    have hmem := List.mem_of_find?_eq_some hf
    have hp := List.find?_some hf
    have hn : c.toNat ∈ List.range 256 := by simp [c.toNat_lt]
    have h1 := List.all_eq_true.mp (List.all_eq_true.mp buckets_sound c.toNat hn) e hmem
    obtain ⟨b, hb, h2⟩ := List.any_eq_true.mp h1
    rw [Bool.and_eq_true, Bool.and_eq_true] at h2
    refine ⟨b, hb, ?_, by simpa using h2.1.2, by simpa using h2.2⟩
    have e1 : b.2.1 = e.1 := by simpa using h2.1.1
    have e2 : e.1 = c :: rest := by simpa using hp
    rw [e1, e2]

/-- flags of a word / number / string token: not tight, not "+"/"-", not "(" or "=" -/
theorem wfPlain_flags {t : Tok} (h : wfPlain t = true) :
    t.isTightLeft = false ∧ t.isTightRight = false ∧ t.isUnaryAndBinary = false ∧
      (t.id == idOpenParen) = false ∧ (t.id == idEq) = false := by
  obtain ⟨c, σ, htxt, hstart⟩ := wfPlain_head h
  unfold wfPlain at h
  rw [Bool.and_eq_true] at h
  have hid : t.id = (intern t.text).1 := by simpa using h.2
  unfold Tok.isTightLeft Tok.isTightRight Tok.isUnaryAndBinary tokFlags
  unfold intern at hid
  cases hb : builtinByName t.text with
  | some r =>
    rw [hb] at hid
    simp only at hid
    obtain ⟨b, hbm, hbt, hbi, hbf⟩ := builtinByName_sound hb
    have hf := List.all_eq_true.mp builtin_word_facts b hbm
    rw [hbt, htxt] at hf
    simp only [plainStart] at hstart
    simp only [hstart, Bool.not_true, Bool.false_or, Bool.and_eq_true, decide_eq_true_eq,
      Bool.not_eq_true', bne_iff_ne, ne_eq, beq_iff_eq] at hf
    obtain ⟨⟨⟨⟨⟨⟨⟨f1, f2⟩, f3⟩, f4⟩, f5⟩, f6⟩, f7⟩, _⟩ := hf
    have hlt : t.id < nBuiltInIDs := by rw [hid, ← hbi]; exact f1
    have hfl : flagsOfId t.id = b.2.2 := by rw [hid, ← hbi]; exact f2
    simp only [hlt, ↓reduceIte, hfl, f3, f4, f5, true_and]
    rw [hid, ← hbi]
    exact ⟨by simpa using f6, by simpa using f7⟩
  | none =>
    rw [hb, htxt] at hid
    simp only at hid
    have hlt : ¬ t.id < nBuiltInIDs := by rw [hid]; exact Nat.lt_irrefl _
    simp only [hlt, ↓reduceIte, htxt]
    rw [hid]
    by_cases ha : alpha c = true
    · simp only [ha, ↓reduceIte]; decide
    · simp only [ha, Bool.false_eq_true, ↓reduceIte]; decide

/-- flags of a squiggly token are those listed in the table -/
theorem wfPunct_flags {t : Tok} {e : Nat × Bytes × Nat} (he : e ∈ punctToks) (hid : e.1 = t.id) :
    tokFlags t = e.2.2 := by
  obtain ⟨h1, h2, _⟩ := punct_facts he
  unfold tokFlags
  rw [← hid]
  simp only [h1, ↓reduceIte, h2]

/-- the ID `Tokenize` gives the re-read token: squiggly tokens keep theirs, the others get
the ID of the text `Render` wrote -/
def retokId (t : Tok) : Nat := if wfPunct t then t.id else (intern (tokText t)).1

/-- the token `Tokenize` reads back on line `l` -/
def retok (l : Nat) (t : Tok) : Tok := ⟨retokId t, tokText t, l⟩

/-! ### read back before a byte that cannot continue the token -/

theorem relex_plain {t : Tok} (h : wfPlain t = true) (hp : wfPunct t = false) (rest : Bytes)
    (hr : StopsWord rest) : Relex (tokText t) (retokId t) rest := by
  have hid : retokId t = (intern (tokText t)).1 := by simp [retokId, hp]
  rw [hid]
  unfold wfPlain at h
  rw [Bool.and_eq_true, Bool.or_eq_true, Bool.or_eq_true] at h
  cases htxt : t.text with
  | nil =>
    rw [htxt] at h
    simp [wfWordText, wfNumText, wfStrText] at h
  | cons c σ =>
    rcases h.1 with (hw | hn) | hs
    · have hc : alpha c = true := by
        rw [htxt] at hw
        unfold wfWordText at hw
        rw [Bool.and_eq_true, Bool.and_eq_true] at hw
        exact hw.1.1
      rw [tokText_not_numeric t c σ htxt (alpha_not_numeric c hc).1]
      exact relex_word _ rest hw hr
    · have hc : numeric c = true := by rw [htxt] at hn; exact (wfNumText_cons hn).2.2.1
      rw [tokText_numeric t c σ htxt hc]
      exact relex_num _ rest (wfNumText_numOut _ hn) hr
    · have hc : (c == 34 || c == 39) = true := by
        rw [htxt] at hs
        unfold wfStrText at hs
        rw [Bool.and_eq_true] at hs
        have := hs.2
        simp only at this
        by_cases h1 : (c == 34) = true
        · simp [h1]
        · by_cases h2 : (c == 39) = true
          · simp [h2]
          · simp [h1, h2] at this
      rw [tokText_not_numeric t c σ htxt (quote_not_numeric c hc)]
      exact relex_str _ rest hs hr

theorem mem_lexersOf {c : UInt8} {x : Bytes × Nat} (h : x ∈ lexersOf c) : ∃ e ∈ lexers, x ∈ e.2 := by
  unfold lexersOf at h
  cases hf : lexers.find? (fun e => e.1 == c) with
  | none => rw [hf] at h; simp at h
  | some e => rw [hf] at h; exact ⟨e, List.mem_of_find?_eq_some hf, h⟩

/-- a squiggly token is read back when `lexPunct` finds it and no comment starts -/
theorem relex_punct_lex {e : Nat × Bytes × Nat} (he : e ∈ punctToks) (c : UInt8) (σ rest : Bytes)
    (htxt : e.2.1 = c :: σ) (hlex : lexPunct c (σ ++ rest) = some (e.1, σ.length + 1))
    (hcom : commentStart c (σ ++ rest) = false) : Relex (c :: σ) e.1 rest := by
  obtain ⟨_, _, c', σ', htxt', h32, hq, hal, hnum, _⟩ := punct_facts he
  rw [htxt] at htxt'
  simp only [List.cons.injEq] at htxt'
  obtain ⟨rfl, rfl⟩ := htxt'
  refine ⟨c, σ, rfl, h32, hcom, ?_⟩
  unfold lexTok
  simp only [hq, Bool.false_eq_true, ↓reduceIte, hal, hnum, hlex]
  have h1 : (c :: (σ ++ rest)).take (σ.length + 1) = c :: σ := by simp
  have h2 : (σ ++ rest).drop (σ.length + 1 - 1) = rest := by simp
  rw [h1, h2]

theorem relex_punct_blank {e : Nat × Bytes × Nat} (he : e ∈ punctToks) (d : UInt8) (r : Bytes)
    (hd : d ≤ 32) : Relex e.2.1 e.1 (d :: r) := by
  obtain ⟨_, _, c, σ, htxt, h32, hq, hal, hnum, hsl⟩ := punct_facts he
  rw [htxt]
  have hself := List.all_eq_true.mp punct_lexes_to_itself e he
  unfold selfOK at hself
  rw [htxt] at hself
  have hself' : lexPunct c σ = some (e.1, σ.length + 1) := by simpa using hself
  apply relex_punct_lex he c σ (d :: r) htxt
  · apply lexPunct_stable c σ (d :: r) e.1 hself'
    intro x hx δ hδ hxd hpre
    obtain ⟨le, hle, hxle⟩ := mem_lexersOf hx
    have hb := List.all_eq_true.mp (List.all_eq_true.mp (List.all_eq_true.mp lexer_bytes_not_blank le hle) x hxle)
    cases δ with
    | nil => exact hδ rfl
    | cons b δ' =>
      have hbd : b = d := by
        obtain ⟨u, hu⟩ := hpre
        simp only [List.cons_append, List.cons.injEq] at hu
        exact hu.1
      have := hb b (by rw [hxd]; simp)
      simp only [Bool.not_eq_true', decide_eq_false_iff_not] at this
      rw [hbd] at this
      exact this hd
  · unfold commentStart
    cases σ with
    | nil =>
      simp only [List.nil_append, List.head?_cons]
      have : (d == 47) = false := by
        revert hd; revert d; apply byte_forall; decide +kernel
      simp [this]
    | cons s σ' => simpa using hsl

/-- any well-formed token, followed by a blank -/
theorem relex_blank {t : Tok} (h : wfTok t = true) (d : UInt8) (r : Bytes) (hd : d ≤ 32) :
    Relex (tokText t) (retokId t) (d :: r) := by
  cases hp : wfPunct t with
  | true =>
    obtain ⟨e, he, hid, htxt⟩ := wfPunct_entry hp
    obtain ⟨_, _, c, σ, hc, _, _, _, hnum, _⟩ := punct_facts he
    have h1 : tokText t = e.2.1 := by
      rw [tokText_not_numeric t c σ (by rw [← htxt, hc]) hnum, htxt]
    have h2 : retokId t = e.1 := by simp [retokId, hp, hid]
    rw [h1, h2]
    exact relex_punct_blank he d r hd
  | false =>
    have hpl : wfPlain t = true := by
      unfold wfTok at h; rw [hp] at h; simpa using h
    exact relex_plain hpl hp _ ⟨d, r, rfl, blank_not_alnum d hd⟩

/-- the raw text of a well-formed token, followed by a blank (the names before a ":") -/
theorem relex_raw_blank {t : Tok} (h : wfTok t = true) (d : UInt8) (r : Bytes) (hd : d ≤ 32) :
    Relex t.text t.id (d :: r) := by
  cases hp : wfPunct t with
  | true =>
    obtain ⟨e, he, hid, htxt⟩ := wfPunct_entry hp
    rw [← hid, ← htxt]
    exact relex_punct_blank he d r hd
  | false =>
    have hpl : wfPlain t = true := by
      unfold wfTok at h; rw [hp] at h; simpa using h
    have hs : StopsWord (d :: r) := ⟨d, r, rfl, blank_not_alnum d hd⟩
    unfold wfPlain at hpl
    rw [Bool.and_eq_true, Bool.or_eq_true, Bool.or_eq_true] at hpl
    have hid : t.id = (intern t.text).1 := by simpa using hpl.2
    rw [hid]
    rcases hpl.1 with (hw | hn) | hs'
    · exact relex_word _ _ hw hs
    · exact relex_num _ _ hn hs
    · exact relex_str _ _ hs' hs

end WuffsVerif.Render
