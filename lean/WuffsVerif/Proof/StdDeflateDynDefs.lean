/-
C07 helper, part 7 (dynamic-Huffman blocks): the DEFINITIONS and the module interfaces of the proof that
`init_dynamic_huffman` + `init_huff` refine `Spec.dynamicHeader` (the obligation `DynRefines`).

The proof is cut into modules, each of which proves one of the `…Spec : Prop` statements below (files
Proof/StdDeflateDyn*.lean); Proof/StdDeflateDynInit.lean, …DynAll.lean and …DynFinal.lean assemble them.

  sorted code      `sortedSyms lens` (= `mkHuff`'s `syms`), `syOf`, `lnOf`, `nOf`, canonical codes `codeAt`
  SpecSideSpec     the specification's decoder on a complete code = "the window starts with the canonical code of
                   the t-th symbol in sorted order" (`CodeFacts`)
  CountSpec        `init_huff` up to the filling loop: counts, the over/under-subscription check, offsets, the
                   counting sort = `sortedSyms`, min/max code length  ⇒  one call of `huffFill`
  FillSpec         the filling loop writes, for every symbol, its entry at every slot whose index starts with the
                   bit-reversed canonical code (first level), resp. a redirect entry plus the entry in a second-level
                   table that is large enough (`FillOK`)
  DeriveSpec       `FillOK` + `CodeFacts` ⇒ `TblOK` ∧ `Agree` (what `decode_huffman_slow` needs)
  InitHuffSpec     the four together, for the three calls of `init_huff`
  HeaderSpec       `init_dynamic_huffman` = `Spec.dynamicHeader`, given `InitHuffSpec`
Core Lean only.
-/
import WuffsVerif.Proof.StdDeflateTables

namespace WuffsVerif.StdDeflate
open WuffsVerif.Flate.Spec (bitAt bitsLE avail Huff mkHuff kraft symsOfLen countLen readLens LensResult clOrder)
open WuffsVerif.Gen.C07

/-! ### codes -/

/-- the first `L` bits of the window `x` (bit `i` of the stream = bit `i` of `x`) read as a Huffman code:
    first bit most significant (RFC 1951 §3.1.1) -/
def codeOf (x : Nat) : Nat → Nat
  | 0 => 0
  | L + 1 => 2 * codeOf x L + x / 2 ^ L % 2

/-- the canonical code (RFC 1951 §3.2.2) of the `t`-th symbol in (length, symbol) order, `ln t` = its length:
    consecutive values, shifted left when the length grows — literally what `init_huff`'s filling loop computes -/
def codeAt (ln : Nat → Nat) : Nat → Nat
  | 0 => 0
  | t + 1 => (codeAt ln t + 1) <<< (ln (t + 1) - ln t)

/-- Kraft sum of the first `N` lengths, scaled by `2^15` -/
def kraftSum (ln : Nat → Nat) : Nat → Nat
  | 0 => 0
  | t + 1 => kraftSum ln t + 2 ^ (15 - ln t)

/-- number of `t < N` with `ln t = k` -/
def cnt (N : Nat) (ln : Nat → Nat) (k : Nat) : Nat := ((List.range N).filter (fun t => ln t = k)).length

/-- `N` code lengths in sorted order that form a COMPLETE code -/
structure Sorted (N : Nat) (ln : Nat → Nat) : Prop where
  pos : 0 < N
  mono : ∀ t, t + 1 < N → ln t ≤ ln (t + 1)
  lo : ∀ t, t < N → 1 ≤ ln t
  hi : ∀ t, t < N → ln t ≤ 15
  complete : kraftSum ln N = 2 ^ 15

/-- the coded symbols in (length, symbol) order: `mkHuff lens`'s `syms` (as a list) -/
def sortedSyms (lens : Array Nat) : List Nat := (List.range' 1 Flate.Spec.maxBits).flatMap (symsOfLen lens)

def syOf (lens : Array Nat) (t : Nat) : Nat := (sortedSyms lens).getD t 0
def lnOf (lens : Array Nat) (t : Nat) : Nat := lens.getD (syOf lens t) 0
def nOf (lens : Array Nat) : Nat := (sortedSyms lens).length

/-- the specification accepts `lens` as a COMPLETE code (Kraft sum exactly 1) with at least one symbol -/
def IsComplete (lens : Array Nat) : Prop :=
  ∃ h, mkHuff lens = some h ∧ 0 < h.maxLen ∧ kraft h.count h.maxLen = 2 ^ h.maxLen

/-- the specification accepts `lens` as the degenerate code: exactly one symbol, of length 1 -/
def IsSingle (lens : Array Nat) : Prop :=
  ∃ h, mkHuff lens = some h ∧ h.maxLen = 1 ∧ kraft h.count 1 = 1

/-- what the specification's symbol decoder does on a complete code, in terms of the sorted order -/
structure CodeFacts (h : Huff) (N : Nat) (sy ln : Nat → Nat) : Prop where
  sorted : Sorted N ln
  maxLen : h.maxLen = ln (N - 1)
  dec : ∀ x v L, specWin h x = some (v, L) → ∃ t, t < N ∧ v = sy t ∧ L = ln t ∧ codeOf x L = codeAt ln t
  total : ∀ x, ∃ v L, specWin h x = some (v, L)

/-- MODULE S (Proof/StdDeflateDynCanon.lean) -/
def SpecSideSpec : Prop :=
  ∀ (lens : Array Nat) (h : Huff), mkHuff lens = some h → 0 < h.maxLen → kraft h.count h.maxLen = 2 ^ h.maxLen →
    CodeFacts h (nOf lens) (syOf lens) (lnOf lens) ∧ (∀ t, t < nOf lens → syOf lens t < lens.size) ∧
    (∀ j, lens.getD j 0 ≤ 15) ∧ nOf lens ≤ lens.size

/-! ### table entries -/

/-- `value` of `init_huff`'s filling loop for `symbol`, without the bit count in the low 4 bits
    (`none` = the `#internal error` arm) -/
def fillVal (which base symbol : Nat) : Option Nat :=
  if symbol = 256 then some 0x20000000
  else if symbol < 256 ∧ which = 0 then some (0x80000000 ||| (symbol <<< 8))
  else if symbol ≥ base then
    if which = 0 then some (deflateLcodeMagic.getD ((symbol - base) &&& 31) 0)
    else some (deflateDcodeMagic.getD ((symbol - base) &&& 31) 0)
  else none

/-- the entry the filling loop writes for symbol `v` with `n` bits at this table level -/
def entryOf (which base v n : Nat) : Nat := (fillVal which base v).getD 0 ||| n

/-- the redirect entry for a second-level table of `2^j` slots at `top` -/
def redirEntry (top j : Nat) : Nat := 0x10000009 ||| (top <<< 8) ||| (j <<< 4)

/-- `n_huffs_bits` for maximum code length `M` -/
def nbOf (M : Nat) : Nat := if M ≤ 9 then M else 9

/-- the table `T` holds, for every symbol `t` of the sorted complete code and every window `x` that starts with
    its canonical code, the symbol's entry — directly (length ≤ 9) or through a redirect entry -/
structure FillOK (T : Array Nat) (which base N : Nat) (sy ln : Nat → Nat) : Prop where
  direct : ∀ t, t < N → ln t ≤ 9 → ∀ x, codeOf x (ln t) = codeAt ln t →
    tget T (x % 2 ^ nbOf (ln (N - 1))) = entryOf which base (sy t) (ln t)
  redirect : ∀ t, t < N → 9 < ln t → ∀ x, codeOf x (ln t) = codeAt ln t →
    ∃ top j, tget T (x % 2 ^ 9) = redirEntry top j ∧ 1 ≤ j ∧ ln t ≤ 9 + j ∧ 9 + j ≤ 15 ∧ 512 ≤ top ∧
      top + 2 ^ j ≤ 1024 ∧ tget T (top + x / 2 ^ 9 % 2 ^ j) = entryOf which base (sy t) (ln t - 9)

/-- the `Fill` record `init_huff` starts its filling loop with -/
def fill0 (ln : Nat → Nat) (N : Nat) (counts : Array Nat) : Fill :=
  { prevCl := ln 0, initialHighBits := if ln (N - 1) < 9 then 1 <<< ln (N - 1) else 1 <<< 9, counts := counts }

/-- the hypotheses of the filling loop: `symbols` / `cl` hold the sorted complete code `(N, sy, ln)`, `counts` its
    length histogram, and every symbol has a table value -/
structure FillArgs (which n0 base : Nat) (cl symbols counts : Array Nat) (N : Nat) (sy ln : Nat → Nat) : Prop where
  sorted : Sorted N ln
  n288 : N ≤ 288
  syms : ∀ t, t < N → symbols.getD t 0 = sy t ∧ n0 + sy t < 320 ∧ cl.getD (n0 + sy t) 0 &&& 15 = ln t
  csize : counts.size = 16
  counts : ∀ k, 1 ≤ k → k ≤ 15 → counts.getD k 0 = cnt N ln k
  vals : ∀ t, t < N → (fillVal which base (sy t)).isSome = true

/-- MODULE F (Proof/StdDeflateDynFill{A,B,C,}.lean): the filling loop, both table levels -/
def FillSpec : Prop :=
  ∀ (which n0 base : Nat) (cl symbols counts old : Array Nat) (N : Nat) (sy ln : Nat → Nat),
    FillArgs which n0 base cl symbols counts N sy ln → old.size = 1024 →
    ∃ w, huffFill which n0 base N cl symbols (N + 1) (fill0 ln N counts) = .ok w ∧
      FillOK (applyWrites old w.reverse) which base N sy ln

/-- the code lengths `init_huff(which, n0, n1, _)` reads from `cl` are the specification's `lens` -/
structure LensOf (cl lens : Array Nat) (n0 n1 : Nat) : Prop where
  le : n0 ≤ n1
  n320 : n1 ≤ 320
  n288 : n1 - n0 ≤ 288
  size : lens.size = n1 - n0
  eq : ∀ j, j < n1 - n0 → cl.getD (n0 + j) 0 = lens.getD j 0

/-- MODULE C, first part (Proof/StdDeflateDynCount.lean): "Calculate counts" -/
def CountsSpec : Prop :=
  ∀ (cl lens : Array Nat) (n0 n1 : Nat), LensOf cl lens n0 n1 → (∀ j, lens.getD j 0 ≤ 15) →
    ∃ counts, huffCounts cl n0 n1 = .ok counts ∧ counts.size = 16 ∧ ∀ k, k ≤ 15 → counts.getD k 0 = countLen lens k

/-- number of coded symbols shorter than `L`: where the symbols of length `L` start in `sortedSyms` -/
def idxOf (lens : Array Nat) (L : Nat) : Nat := ((List.range' 1 (L - 1)).map (countLen lens)).sum

/-- MODULE Y (Proof/StdDeflateDynSymbols.lean): the counting sort of `init_huff` ("Calculate symbols") -/
def SymbolsSpec : Prop :=
  ∀ (cl lens offsets : Array Nat) (n0 n1 : Nat), LensOf cl lens n0 n1 → (∀ j, lens.getD j 0 ≤ 15) →
    offsets.size = 16 → (∀ L, 1 ≤ L → L ≤ 15 → offsets.getD L 0 = idxOf lens L) →
    ∃ symbols offsets', huffSymbols cl n0 n1 offsets = .ok (symbols, offsets') ∧
      (∀ t, t < nOf lens → symbols.getD t 0 = syOf lens t) ∧
      (∀ L, 1 ≤ L → L ≤ 15 → offsets'.getD L 0 = idxOf lens L + countLen lens L)

/-- MODULE C (Proof/StdDeflateDynCount.lean): for a complete code, `init_huff` up to the filling loop passes every
    check and calls the filling loop on the sorted code -/
def CountSpec : Prop := SpecSideSpec → SymbolsSpec →
  ∀ (cl lens : Array Nat) (which n0 n1 base : Nat) (h : Huff), LensOf cl lens n0 n1 →
    mkHuff lens = some h → 0 < h.maxLen → kraft h.count h.maxLen = 2 ^ h.maxLen →
    (∀ t, t < nOf lens → (fillVal which base (syOf lens t)).isSome = true) →
    ∃ counts symbols, FillArgs which n0 base cl symbols counts (nOf lens) (syOf lens) (lnOf lens) ∧
      ∀ w, huffFill which n0 base (nOf lens) cl symbols (nOf lens + 1) (fill0 (lnOf lens) (nOf lens) counts) = .ok w →
        initHuffWrites cl which n0 n1 base = .ok (w.reverse, nbOf (lnOf lens (nOf lens - 1)))

/-! ### from `FillOK` to what the block loop needs -/

/-- the table value of symbol `v` is well formed and is `val v` up to the low 4 bits -/
def ValOK (which base : Nat) (val : Nat → Nat) (v : Nat) : Prop :=
  ∃ e, fillVal which base v = some e ∧ e &&& 15 = 0 ∧ e >>> 28 ≠ 1 ∧ e >>> 4 = val v >>> 4

/-- what `init_huff` delivers for a code `h` over `n` symbols -/
structure HuffTable (T : Array Nat) (nb : Nat) (h : Huff) (val : Nat → Nat) (n : Nat) : Prop where
  size : T.size = 1024
  nb15 : nb ≤ 15
  ok : TblOK T nb
  ag : Agree T nb h val
  ml : h.maxLen ≤ 15
  symlt : ∀ x v L, specWin h x = some (v, L) → v < n
  nored : h.maxLen ≤ 9 → ∀ i, i < 2 ^ nb → ¬ isRedirect (tget T i)

/-- MODULE D (Proof/StdDeflateDynDerive.lean) -/
def DeriveSpec : Prop :=
  ∀ (T : Array Nat) (which base N : Nat) (sy ln : Nat → Nat) (h : Huff) (val : Nat → Nat),
    FillOK T which base N sy ln → CodeFacts h N sy ln → (∀ t, t < N → ValOK which base val (sy t)) →
    TblOK T (nbOf (ln (N - 1))) ∧ Agree T (nbOf (ln (N - 1))) h val ∧
      (h.maxLen ≤ 9 → ∀ i, i < 2 ^ nbOf (ln (N - 1)) → ¬ isRedirect (tget T i))

/-! ### the three calls of `init_huff` -/

/-- the entry (up to its low 4 bits) for code-length symbol `v` (`init_huff(0, 0, 19, 0xFFF)`) -/
def valCL (v : Nat) : Nat := 0x80000000 ||| (v <<< 8)

/-- the three ways `init_dynamic_huffman` calls `init_huff` -/
inductive CallKind : (which n0 n1 base : Nat) → (val : Nat → Nat) → Prop
  | clen : CallKind 0 0 19 0xFFF valCL
  | lit (nLit : Nat) : 257 ≤ nLit → nLit ≤ 286 → CallKind 0 0 nLit 257 valL
  | dist (nLit nDist : Nat) : nLit ≤ 286 → 1 ≤ nDist → nDist ≤ 30 → CallKind 1 nLit (nLit + nDist) 0 valD

/-- MODULE V (Proof/StdDeflateDynVal.lean): every symbol of each of the three calls has a well-formed value -/
def ValSpec : Prop :=
  ∀ (which n0 n1 base : Nat) (val : Nat → Nat), CallKind which n0 n1 base val →
    ∀ v, v < n1 - n0 → ValOK which base val v

/-- `init_huff` on a complete code: tables that implement it -/
def InitHuffCompleteSpec : Prop :=
  ∀ (cl old lens : Array Nat) (which n0 n1 base : Nat) (val : Nat → Nat) (h : Huff),
    CallKind which n0 n1 base val → LensOf cl lens n0 n1 → old.size = 1024 →
    mkHuff lens = some h → 0 < h.maxLen → kraft h.count h.maxLen = 2 ^ h.maxLen →
    ∃ T nb, initHuff cl old which n0 n1 base = .ok (T, nb) ∧ HuffTable T nb h val (n1 - n0)

/-- MODULE G (Proof/StdDeflateDynSingle.lean): `init_huff(1, …)` on the degenerate distance code (one code, of
    length 1): the two-entry table -/
def InitHuffSingleSpec : Prop :=
  CountsSpec →
  ∀ (cl old lens : Array Nat) (nLit nDist : Nat) (h : Huff),
    nLit ≤ 286 → 1 ≤ nDist → nDist ≤ 30 → LensOf cl lens nLit (nLit + nDist) → old.size = 1024 →
    mkHuff lens = some h → h.maxLen = 1 → kraft h.count 1 = 1 →
    ∃ T nb, initHuff cl old 1 nLit (nLit + nDist) 0 = .ok (T, nb) ∧ HuffTable T nb h valD nDist

/-! ### the header -/

def hdrNlit (s : Bytes) (p : Nat) : Nat := bitsLE s p 5 + 257
def hdrNdist (s : Bytes) (p : Nat) : Nat := bitsLE s (p + 5) 5 + 1
def hdrNclen (s : Bytes) (p : Nat) : Nat := bitsLE s (p + 10) 4 + 4

/-- the code-length code's lengths, as `Spec.dynamicHeader` reads them (`p` = just after the 3 block-header bits) -/
def hdrCl (s : Bytes) (p : Nat) : Array Nat :=
  (List.range (hdrNclen s p)).foldl
    (fun a i => a.setIfInBounds (clOrder.getD i 0) (bitsLE s (p + 14 + 3 * i) 3)) (Array.replicate 19 0)

/-- The dynamic header at `p` uses only code-length sets that std/deflate accepts: the code-length code and the
    literal/length code are complete, there is an end-of-block code, and the distance code is complete or the
    one-code code.  (The specification follows Go and also accepts a one-code code-length or literal/length code, an
    empty distance code and a literal/length code without symbol 256 — std/deflate rejects those.) -/
def HeaderOK (s : Bytes) (p : Nat) : Prop :=
  IsComplete (hdrCl s p) ∧
  ∀ hc lens q, mkHuff (hdrCl s p) = some hc →
    readLens hc s (hdrNlit s p + hdrNdist s p) (hdrNlit s p + hdrNdist s p + 1) (p + 14 + 3 * hdrNclen s p) #[] =
      .ok lens q →
    IsComplete (lens.extract 0 (hdrNlit s p)) ∧ lens.getD 256 0 ≠ 0 ∧
      (IsComplete (lens.extract (hdrNlit s p) (hdrNlit s p + hdrNdist s p)) ∨
       IsSingle (lens.extract (hdrNlit s p) (hdrNlit s p + hdrNdist s p)))

/-- MODULE L (Proof/StdDeflateDynLens.lean): the `while i < (n_lit + n_dist)` loop of `init_dynamic_huffman`
    (`readCodeLengths`: H-CL lookup, repeat codes 16/17/18 with their bounds checks) against `Spec.readLens`,
    given a table for the code-length code `hc`.  `cl` is `this.code_lengths`, `lens` what the specification has
    read so far. -/
def ReadLensSpec : Prop :=
  ∀ (s : Bytes) (T : Array Nat) (nb : Nat) (hc : Huff) (total : Nat), HuffTable T nb hc valCL 19 → hc.maxLen ≤ 9 → total ≤ 316 →
    ∀ (fuel p : Nat) (lens : Array Nat) (b : BR) (cl lensE : Array Nat) (q : Nat),
      BRInv s b p → b.nBits < 8 → cl.size = 320 → lens.size ≤ total →
      (∀ k, k < lens.size → cl.getD k 0 = lens.getD k 0) → (∀ k, lens.getD k 0 ≤ 15) →
      readLens hc s total fuel p lens = .ok lensE q →
      ∃ b' cl', readCodeLengths s T ((1 <<< nb) - 1) total fuel lens.size b cl = .ok (total, b', cl') ∧
        BRInv s b' q ∧ b'.nBits < 8 ∧ cl'.size = 320 ∧ lensE.size = total ∧
        (∀ k, k < total → cl'.getD k 0 = lensE.getD k 0) ∧ (∀ k, lensE.getD k 0 ≤ 15)

/-- `init_huff`, as `init_dynamic_huffman` needs it -/
def InitHuffSpec : Prop := InitHuffCompleteSpec ∧
  ∀ (cl old lens : Array Nat) (nLit nDist : Nat) (h : Huff),
    nLit ≤ 286 → 1 ≤ nDist → nDist ≤ 30 → LensOf cl lens nLit (nLit + nDist) → old.size = 1024 →
    mkHuff lens = some h → h.maxLen = 1 → kraft h.count 1 = 1 →
    ∃ T nb, initHuff cl old 1 nLit (nLit + nDist) 0 = .ok (T, nb) ∧ HuffTable T nb h valD nDist

end WuffsVerif.StdDeflate
