/-
C18 helper lemmas for the entropy round trip, part 2: the Spec's Huffman DECODE, RECEIVE and
EXTEND invert the encoder's code words and magnitude bits.
-/
import WuffsVerif.Proof.JpegBits
open WuffsVerif.Gen.C18 WuffsVerif.Jpeg WuffsVerif.Jpeg.Buf WuffsVerif.Jpeg.Bits WuffsVerif.Jpeg.Tab

namespace WuffsVerif.Jpeg.Huff

/-- prefix-freeness as a statement about members -/
theorem prefixFree_mem (tbl : List Spec.Entry) (h : prefixFreeB tbl = true) :
    ∀ a b, a ∈ tbl → b ∈ tbl → isPrefixB a b = true → a = b ∨ False := by
  induction tbl with
  | nil => intro a b ha; cases ha
  | cons x xs ih =>
    simp only [prefixFreeB, Bool.and_eq_true, List.all_eq_true, Bool.not_eq_true'] at h
    intro a b ha hb hp
    rcases List.mem_cons.mp ha with rfl | ha'
    · rcases List.mem_cons.mp hb with rfl | hb'
      · left; rfl
      · have := (h.1 b hb').1; rw [hp] at this; cases this
    · rcases List.mem_cons.mp hb with rfl | hb'
      · have := (h.1 a ha').2; rw [hp] at this; cases this
      · exact ih h.2 a b ha' hb' hp

theorem prefixFree_eq (tbl : List Spec.Entry) (h : prefixFreeB tbl = true) (a b : Spec.Entry)
    (ha : a ∈ tbl) (hb : b ∈ tbl) (hp : isPrefixB a b = true) : a = b := by
  rcases prefixFree_mem tbl h a b ha hb hp with h | h
  · exact h
  · exact h.elim

theorem lookup_self (tbl : List Spec.Entry) (h : prefixFreeB tbl = true) (e : Spec.Entry) (he : e ∈ tbl) :
    Spec.lookup tbl e.len e.code = some e.val := by
  unfold Spec.lookup
  cases hf : tbl.find? (fun t => t.len == e.len && t.code == e.code) with
  | none =>
    have := List.find?_eq_none.mp hf e he
    simp at this
  | some t =>
    have ht := List.mem_of_find?_eq_some hf
    have hp := List.find?_some hf
    simp only [Bool.and_eq_true, beq_iff_eq] at hp
    have : isPrefixB t e = true := by
      simp [isPrefixB, hp.1, hp.2]
    have := prefixFree_eq tbl h t e ht he this
    simp [this]

theorem lookup_proper_prefix (tbl : List Spec.Entry) (h : prefixFreeB tbl = true) (e : Spec.Entry) (he : e ∈ tbl)
    (d : Nat) (hd : 1 ≤ d) (hd2 : d ≤ e.len) : Spec.lookup tbl (e.len - d) (e.code / 2 ^ d) = none := by
  unfold Spec.lookup
  cases hf : tbl.find? (fun t => t.len == e.len - d && t.code == e.code / 2 ^ d) with
  | none => rfl
  | some t =>
    exfalso
    have ht := List.mem_of_find?_eq_some hf
    have hp := List.find?_some hf
    simp only [Bool.and_eq_true, beq_iff_eq] at hp
    have : isPrefixB t e = true := by
      have e1 : e.len - (e.len - d) = d := by omega
      simp [isPrefixB, hp.1, hp.2, e1]
    have := prefixFree_eq tbl h t e ht he this
    subst this
    omega

/-- DECODE reads exactly the code word of an entry and returns its symbol -/
theorem decodeSym_entry (tbl : List Spec.Entry) (h : prefixFreeB tbl = true) (e : Spec.Entry) (he : e ∈ tbl)
    (rest : List Bool) :
    ∀ d fuel, 1 ≤ d → d ≤ e.len → d ≤ fuel →
      Spec.decodeSym tbl fuel (e.len - d) (e.code / 2 ^ d) (bitsOf e.code d ++ rest) = some (e.val, rest) := by
  intro d
  induction d with
  | zero => intro fuel h1; omega
  | succ d ih =>
    intro fuel _ hd2 hf
    obtain ⟨fuel', rfl⟩ : ∃ f, fuel = f + 1 := ⟨fuel - 1, by omega⟩
    rw [bitsOf_succ_msb]
    simp only [List.cons_append, Spec.decodeSym]
    have hcode : 2 * (e.code / 2 ^ (d + 1)) + (decide (e.code / 2 ^ d % 2 = 1)).toNat = e.code / 2 ^ d := by
      have e1 : e.code / 2 ^ (d + 1) = e.code / 2 ^ d / 2 := by
        rw [Nat.pow_succ, Nat.div_div_eq_div_mul]
      rw [e1]
      by_cases hb : e.code / 2 ^ d % 2 = 1
      · simp [hb]; omega
      · simp [hb]; omega
    have hlen : e.len - (d + 1) + 1 = e.len - d := by omega
    rw [hcode, hlen]
    by_cases hd0 : d = 0
    · subst hd0
      simp only [Nat.pow_zero, Nat.div_one, Nat.sub_zero]
      rw [lookup_self tbl h e he]
      simp [bitsOf]
    · rw [lookup_proper_prefix tbl h e he d (by omega) (by omega)]
      exact ih fuel' (by omega) (by omega) (by omega)

theorem decode16_entry (tbl : List Spec.Entry) (h : prefixFreeB tbl = true) (hw : wellFormedB tbl = true)
    (e : Spec.Entry) (he : e ∈ tbl) (rest : List Bool) :
    Spec.decode16 tbl (bitsOf e.code e.len ++ rest) = some (e.val, rest) := by
  have hwf := (List.all_eq_true.mp hw) e he
  simp only [Bool.and_eq_true, decide_eq_true_eq] at hwf
  have := decodeSym_entry tbl h e he rest e.len 16 hwf.1.1.1 (Nat.le_refl _) hwf.1.1.2
  rw [Nat.sub_self, Nat.div_eq_of_lt hwf.1.2] at this
  exact this

/-- a non-zero slot of the encoder LUT derived from a code table comes from an entry -/
theorem writerOf_entry (tbl : List Spec.Entry) (s : Nat) (init : List Nat) :
    (tbl.foldl (fun a e => a.set e.val (e.len * 65536 + e.code)) init).getD s 0 = init.getD s 0 ∨
    ∃ e ∈ tbl, e.val = s ∧ (tbl.foldl (fun a e => a.set e.val (e.len * 65536 + e.code)) init).getD s 0 = e.len * 65536 + e.code := by
  induction tbl generalizing init with
  | nil => left; rfl
  | cons x xs ih =>
    simp only [List.foldl_cons]
    rcases ih (init.set x.val (x.len * 65536 + x.code)) with h | ⟨e, he, hv, hx⟩
    · by_cases hxs : x.val = s
      · by_cases hlt : s < init.length
        · right
          refine ⟨x, List.mem_cons_self, hxs, ?_⟩
          rw [h, List.getD_eq_getElem?_getD, hxs, List.getElem?_set_self hlt]
          rfl
        · left
          rw [h, List.getD_eq_getElem?_getD, List.getD_eq_getElem?_getD, List.getElem?_set]
          simp [hxs, hlt]
      · left
        rw [h, List.getD_eq_getElem?_getD, List.getD_eq_getElem?_getD, List.getElem?_set_ne hxs]
    · right
      exact ⟨e, List.mem_cons_of_mem _ he, hv, hx⟩

/-- the four Spec code tables for the unchanged tables, by index -/
def canonTable (wh : Nat) : List Spec.Entry := canonTables.getD wh []

theorem canonTable_ok (wh : Nat) : prefixFreeB (canonTable wh) = true ∧ wellFormedB (canonTable wh) = true := by
  have := all_getD canonTables (fun t => prefixFreeB t && wellFormedB t) wh [] canon_prefixFree (by decide)
  simpa [canonTable] using this

/-- an encoder LUT slot that holds a code is the code of an entry of the Spec's table -/
theorem hbw_entry (wh s : Nat) (hx : (huffmanBitWriters.getD wh #[]).getD s 0 ≠ 0) :
    ∃ e ∈ canonTable wh, e.val = s ∧ (huffmanBitWriters.getD wh #[]).getD s 0 = e.len * 65536 + e.code := by
  have hw : (huffmanBitWriters.getD wh #[]).toList = writerOf (canonTable wh) ∨ (huffmanBitWriters.getD wh #[]).toList = [] := by
    have h := canon_writers
    by_cases hlt : wh < canonTables.length
    · left
      have h1 : (canonTables.map writerOf)[wh]? = some (writerOf (canonTable wh)) := by
        simp [canonTable, List.getD_eq_getElem?_getD, hlt]
      rw [h] at h1
      simp only [List.getElem?_map] at h1
      rw [getD_toList, List.getD_eq_getElem?_getD]
      cases hg : huffmanBitWriters.toList[wh]? with
      | none => simp [hg] at h1
      | some a => simp [hg] at h1; simp [h1]
    · right
      have hl : canonTables.length = huffmanBitWriters.toList.length := by
        have := congrArg List.length h; simpa using this
      rw [getD_toList, List.getD_eq_getElem?_getD, List.getElem?_eq_none (by omega)]
      rfl
  rw [getD_toList] at hx ⊢
  rcases hw with hw | hw
  · rw [hw] at hx ⊢
    unfold writerOf at hx ⊢
    rcases writerOf_entry (canonTable wh) s (List.replicate 256 0) with h | h
    · exfalso
      rw [h] at hx
      apply hx
      rw [List.getD_eq_getElem?_getD, List.getElem?_replicate]
      split <;> rfl
    · exact h
  · rw [hw] at hx; simp at hx

/-- the code word `emitHuffman` writes for a symbol that has a code decodes to that symbol -/
theorem decode16_huffBits (wh s : Nat) (hx : (huffmanBitWriters.getD wh #[]).getD s 0 ≠ 0) (rest : List Bool) :
    Spec.decode16 (canonTable wh) (huffBits wh s ++ rest) = some (s, rest) := by
  obtain ⟨e, he, hv, hxe⟩ := hbw_entry wh s hx
  have ok := canonTable_ok wh
  have hwf := (List.all_eq_true.mp ok.2) e he
  simp only [Bool.and_eq_true, decide_eq_true_eq] at hwf
  have hc : e.code < 65536 := by
    have : 2 ^ e.len ≤ 2 ^ 16 := Nat.pow_le_pow_right (by decide) hwf.1.1.2
    have : (2 : Nat) ^ 16 = 65536 := by decide
    omega
  unfold huffBits
  rw [hxe]
  have e1 : (e.len * 65536 + e.code) % 65536 = e.code := by omega
  have e2 : (e.len * 65536 + e.code) / 65536 = e.len := by omega
  rw [e1, e2, ← hv]
  exact decode16_entry _ ok.1 ok.2 e he rest

/-- RECEIVE reads back the magnitude bits -/
theorem receive_bitsOf (n : Nat) : ∀ (acc v : Nat) (rest : List Bool),
    Spec.receive n acc (bitsOf v n ++ rest) = some (acc * 2 ^ n + v % 2 ^ n, rest) := by
  induction n with
  | zero => intro acc v rest; simp [Spec.receive, bitsOf, Nat.mod_one]
  | succ n ih =>
    intro acc v rest
    rw [bitsOf_succ_msb]
    simp only [List.cons_append, Spec.receive]
    rw [ih]
    congr 2
    have hm : v % 2 ^ (n + 1) = v % 2 ^ n + 2 ^ n * (v / 2 ^ n % 2) := by
      rw [Nat.pow_succ, Nat.mod_mul]
    have hb : (decide (v / 2 ^ n % 2 = 1)).toNat = v / 2 ^ n % 2 := by
      by_cases hb : v / 2 ^ n % 2 = 1
      · simp [hb]
      · have : v / 2 ^ n % 2 = 0 := by omega
        simp [this]
    rw [hm, hb, Nat.pow_succ, Nat.add_mul, Nat.mul_comm (v / 2 ^ n % 2)]
    have h1 : acc * (2 ^ n * 2) = 2 * (acc * 2 ^ n) := by rw [← Nat.mul_assoc, Nat.mul_comm]
    have h2 : 2 * acc * 2 ^ n = 2 * (acc * 2 ^ n) := Nat.mul_assoc 2 acc (2 ^ n)
    omega


/-- facts about the category of a value in the encoder's range -/
theorem cat_facts (value : Int) (h1 : -2047 ≤ value) (h2 : value ≤ 2047) :
    category (absValueOf value) ≤ 11 ∧
    (value = 0 → category (absValueOf value) = 0) ∧
    (value ≠ 0 → 1 ≤ category (absValueOf value)) ∧
    (-1023 ≤ value → value ≤ 1023 → category (absValueOf value) ≤ 10) ∧
    Spec.extend (adjOf value % 2 ^ category (absValueOf value)) (category (absValueOf value)) = value := by
  have ha : absValueOf value < 2048 := by unfold absValueOf; split <;> omega
  have hs := category_spec (absValueOf value) ha
  generalize category (absValueOf value) = c at hs
  obtain ⟨hbl, hc⟩ := hs
  have habs : (absValueOf value : Int) = if value < 0 then -value else value := by
    unfold absValueOf; split <;> omega
  have hadj : (adjOf value : Int) = if value < 0 then value - 1 + 4294967296 else value := by
    unfold adjOf; split <;> omega
  simp only [isBitLength, Bool.and_eq_true, decide_eq_true_eq, Bool.or_eq_true, beq_iff_eq] at hbl
  unfold Spec.extend
  have hcases : c = 0 ∨ c = 1 ∨ c = 2 ∨ c = 3 ∨ c = 4 ∨ c = 5 ∨ c = 6 ∨ c = 7 ∨ c = 8 ∨ c = 9 ∨ c = 10 ∨ c = 11 := by omega
  rcases hcases with rfl | rfl | rfl | rfl | rfl | rfl | rfl | rfl | rfl | rfl | rfl | rfl <;>
    simp at hbl ⊢ <;> (split at habs <;> split at hadj <;> (try split) <;> omega)


/-- list view of `huffmanBitWriters[k]` (cheap in the kernel) -/
def hbwL (k : Nat) : List Nat := (huffmanBitWriters.toList.map Array.toList).getD k []

theorem hbw_getD (k v : Nat) : (huffmanBitWriters.getD k #[]).getD v 0 = (hbwL k).getD v 0 := by
  rw [getD_toList, getD_toList]
  congr 1
  simp only [hbwL, List.getD_eq_getElem?_getD, List.getElem?_map]
  cases huffmanBitWriters.toList[k]? <;> rfl

theorem dc_symbols : (List.range 12).all (fun c => (hbwL 0).getD c 0 != 0 && (hbwL 2).getD c 0 != 0) = true := by
  decide +kernel

theorem ac_symbols : (List.range 16).all (fun r => (List.range' 1 10).all (fun s =>
      (hbwL 1).getD (16 * r + s) 0 != 0 && (hbwL 3).getD (16 * r + s) 0 != 0)) = true ∧
    (hbwL 1).getD 0 0 ≠ 0 ∧ (hbwL 3).getD 0 0 ≠ 0 ∧ (hbwL 1).getD 0xF0 0 ≠ 0 ∧ (hbwL 3).getD 0xF0 0 ≠ 0 := by
  decide +kernel

/-- every DC category 0..11 has a code in both DC tables -/
theorem dc_has_code (base c : Nat) (hb : base = 0 ∨ base = 2) (hc : c ≤ 11) :
    (huffmanBitWriters.getD base #[]).getD c 0 ≠ 0 := by
  have := (List.all_eq_true.mp dc_symbols) c (List.mem_range.mpr (by omega))
  simp only [Bool.and_eq_true, bne_iff_ne, ne_eq] at this
  rw [hbw_getD]
  rcases hb with rfl | rfl
  · exact this.1
  · exact this.2

/-- every (run, size) with run < 16, 1 ≤ size ≤ 10, and EOB and ZRL, have codes in both AC tables -/
theorem ac_has_code (base r s : Nat) (hb : base = 0 ∨ base = 2) (hr : r < 16) (hs1 : 1 ≤ s) (hs2 : s ≤ 10) :
    (huffmanBitWriters.getD (base + 1) #[]).getD (16 * r + s) 0 ≠ 0 := by
  have := (List.all_eq_true.mp ((List.all_eq_true.mp ac_symbols.1) r (List.mem_range.mpr hr))) s
    (by rw [List.mem_range'_1]; omega)
  simp only [Bool.and_eq_true, bne_iff_ne, ne_eq] at this
  rw [hbw_getD]
  rcases hb with rfl | rfl
  · exact this.1
  · exact this.2

theorem eob_has_code (base : Nat) (hb : base = 0 ∨ base = 2) :
    (huffmanBitWriters.getD (base + 1) #[]).getD 0 0 ≠ 0 ∧ (huffmanBitWriters.getD (base + 1) #[]).getD 0xF0 0 ≠ 0 := by
  rw [hbw_getD, hbw_getD]
  rcases hb with rfl | rfl
  · exact ⟨ac_symbols.2.1, ac_symbols.2.2.2.1⟩
  · exact ⟨ac_symbols.2.2.1, ac_symbols.2.2.2.2⟩

/-- ZRL codes: each stands for 16 zero coefficients -/
theorem decodeAC_zrl (base : Nat) (hb : base = 0 ∨ base = 2) (j : Nat) : ∀ (k fuel : Nat) (X : List Bool),
    k + 16 * j ≤ 63 → j ≤ fuel →
    Spec.decodeAC (canonTable (base + 1)) fuel k (zrlBits j (base + 1) ++ X) =
      match Spec.decodeAC (canonTable (base + 1)) (fuel - j) (k + 16 * j) X with
      | none => none
      | some (zs, bits) => some (List.replicate (16 * j) 0 ++ zs, bits) := by
  induction j with
  | zero =>
    intro k fuel X _ _
    simp only [zrlBits, List.nil_append, Nat.mul_zero, Nat.add_zero, Nat.sub_zero, List.replicate_zero]
    cases Spec.decodeAC (canonTable (base + 1)) fuel k X with
    | none => rfl
    | some p => rfl
  | succ j ih =>
    intro k fuel X hk hf
    obtain ⟨fuel', rfl⟩ : ∃ f, fuel = f + 1 := ⟨fuel - 1, by omega⟩
    simp only [zrlBits, List.append_assoc]
    have e2 : fuel' + 1 - (j + 1) = fuel' - j := by omega
    have e1 : k + 16 * (j + 1) = k + 16 + 16 * j := by omega
    rw [e2, e1]
    have hih := ih (k + 16) fuel' X (by omega) (by omega)
    generalize Spec.decodeAC (canonTable (base + 1)) (fuel' - j) (k + 16 + 16 * j) X = R at hih ⊢
    rw [Spec.decodeAC]
    rw [decode16_huffBits (base + 1) 0xF0 (eob_has_code base hb).2]
    have h16 : k + 16 ≤ 63 := by omega
    simp only [show (0xF0 : Nat) % 16 = 0 by decide, show (0xF0 : Nat) / 16 = 15 by decide, ↓reduceIte, h16]
    rw [hih]
    cases R with
    | none => rfl
    | some p =>
      obtain ⟨zs, bits⟩ := p
      simp only [Option.some.injEq, Prod.mk.injEq, and_true]
      rw [← List.append_assoc, List.replicate_append_replicate]
      congr 2
      omega


theorem combined_sym (r c : Nat) (hr : r < 16) (hc : c < 16) : ((r * 16) ||| c) % 256 = 16 * r + c := by
  have := Nat.two_pow_add_eq_or_of_lt (i := 4) (b := c) (by simpa using hc) r
  simp only [show (2 : Nat) ^ 4 = 16 by decide] at this
  rw [Nat.mul_comm r 16, ← this]
  omega

/-- one (run, value) pair as written by `emitHuffmanRun` is read back by DECODE + RECEIVE + EXTEND -/
theorem decode_run (wh r : Nat) (value : Int) (hr : r < 16) (h1 : -2047 ≤ value) (h2 : value ≤ 2047)
    (hx : (huffmanBitWriters.getD wh #[]).getD (16 * r + category (absValueOf value)) 0 ≠ 0) (rest : List Bool) :
    Spec.decode16 (canonTable wh) (runBits wh r value ++ rest) =
      some (16 * r + category (absValueOf value),
        bitsOf (adjOf value) (category (absValueOf value)) ++ rest) ∧
    Spec.receive (category (absValueOf value)) 0 (bitsOf (adjOf value) (category (absValueOf value)) ++ rest) =
      some (adjOf value % 2 ^ category (absValueOf value), rest) := by
  have hc := (cat_facts value h1 h2).1
  constructor
  · unfold runBits
    rw [combined_sym r _ hr (by omega), List.append_assoc]
    exact decode16_huffBits wh _ hx _
  · rw [receive_bitsOf]; simp

/-- F.2.2.2: the AC coefficients written by `encodeACs` are read back by the Spec, position by
    position: zero runs (ZRL and RRRR), magnitudes, EOB -/
theorem decodeAC_acBits (base : Nat) (hb : base = 0 ∨ base = 2) (tail : List Bool) (rest : List Int) :
    ∀ (run k fuel : Nat), rest.length + run + k = 64 → 1 ≤ k → k ≤ 63 → 65 ≤ fuel + k →
      (∀ ac ∈ rest, -1023 ≤ ac ∧ ac ≤ 1023) →
      Spec.decodeAC (canonTable (base + 1)) fuel k (acBits base rest run ++ tail) =
        some (List.replicate run 0 ++ rest, tail) := by
  induction rest with
  | nil =>
    intro run k fuel hlen hk1 hk2 hf _
    simp only [List.length_nil, Nat.zero_add] at hlen
    have hrun : run > 0 := by omega
    obtain ⟨fuel', rfl⟩ : ∃ f, fuel = f + 1 := ⟨fuel - 1, by omega⟩
    simp only [acBits, hrun, ↓reduceIte]
    rw [Spec.decodeAC, decode16_huffBits (base + 1) 0 (eob_has_code base hb).1]
    have : 64 - k = run := by omega
    simp [this]
  | cons ac rest ih =>
    intro run k fuel hlen hk1 hk2 hf hr
    simp only [List.length_cons] at hlen
    have hr' : ∀ a ∈ rest, -1023 ≤ a ∧ a ≤ 1023 := fun a ha => hr a (List.mem_cons_of_mem _ ha)
    have hac := hr ac List.mem_cons_self
    simp only [acBits]
    split
    · rename_i h0
      subst h0
      rw [ih (run + 1) k fuel (by omega) hk1 hk2 hf hr']
      congr 2
      rw [List.replicate_succ', List.append_assoc]
      rfl
    · rename_i hne
      have cf := cat_facts ac (by omega) (by omega)
      have hc1 := cf.2.2.1 hne
      have hc10 := cf.2.2.2.1 hac.1 hac.2
      rw [List.append_assoc, List.append_assoc]
      rw [decodeAC_zrl base hb (run / 16) k fuel _ (by omega) (by omega)]
      obtain ⟨fuel', hfuel⟩ : ∃ f, fuel - run / 16 = f + 1 := ⟨fuel - run / 16 - 1, by omega⟩
      rw [hfuel, Spec.decodeAC]
      have hd := decode_run (base + 1) (run % 16) ac (Nat.mod_lt _ (by decide)) (by omega) (by omega)
        (ac_has_code base _ _ hb (Nat.mod_lt _ (by decide)) hc1 hc10) (acBits base rest 0 ++ tail)
      rw [hd.1]
      have e1 : (16 * (run % 16) + category (absValueOf ac)) % 16 = category (absValueOf ac) := by omega
      have e2 : (16 * (run % 16) + category (absValueOf ac)) / 16 = run % 16 := by omega
      simp only [e1, e2]
      have hne0 : ¬ category (absValueOf ac) = 0 := by omega
      have hle10 : ¬ category (absValueOf ac) > 10 := by omega
      have hpos : ¬ k + 16 * (run / 16) + run % 16 > 63 := by omega
      simp only [hne0, hle10, hpos, ↓reduceIte]
      rw [hd.2]
      simp only [cf.2.2.2.2]
      have hrun : 16 * (run / 16) + run % 16 = run := by omega
      by_cases hlast : k + 16 * (run / 16) + run % 16 = 63
      · have hrest : rest = [] := by
          apply List.eq_nil_of_length_eq_zero; omega
        subst hrest
        simp only [hlast, ↓reduceIte, acBits, List.nil_append, gt_iff_lt, Nat.lt_irrefl]
        rw [← List.append_assoc, List.replicate_append_replicate, hrun]
      · simp only [hlast, ↓reduceIte]
        rw [ih 0 (k + 16 * (run / 16) + run % 16 + 1) fuel' (by omega) (by omega) (by omega) (by omega) hr']
        simp only [List.replicate_zero, List.nil_append]
        rw [← List.append_assoc, List.replicate_append_replicate, hrun]


/-- the quantised coefficients of a block in zig-zag order: what the file must hold -/
def quantisedZZ (q : Quant) (b : Block) : List Int :=
  div (b.getD 0 0) ((q.getD 0 0 : Nat) : Int) :: (List.range' 1 63).map (quantised q b)

/-- F.2.2.1 + F.2.2.2: one block as written by `encodeBlock` is read back by the Spec's
    `decodeBlock`, DC prediction included -/
theorem decodeBlock_blockBits (base : Nat) (hb : base = 0 ∨ base = 2) (q : Quant) (hq : QOK q) (b : Block)
    (hv : blockIsValid b = true) (pred : Int) (hp : -1024 ≤ pred ∧ pred ≤ 1023) (tail : List Bool) :
    Spec.decodeBlock (canonTable base) (canonTable (base + 1)) pred (blockBits q pred base b ++ tail) =
      some (quantisedZZ q b, tail) := by
  have hq0 := hq 0 (by omega)
  have hb0 := (blockIsValid_spec b hv).1
  have hdc := div_range (b.getD 0 0) ((q.getD 0 0 : Nat) : Int) (by omega) (by omega) (by omega) (by omega)
  have hdc' : -1024 ≤ div (b.getD 0 0) ((q.getD 0 0 : Nat) : Int) ∧ div (b.getD 0 0) ((q.getD 0 0 : Nat) : Int) ≤ 1023 := by omega
  unfold blockBits quantisedZZ
  generalize div (b.getD 0 0) ((q.getD 0 0 : Nat) : Int) = dc at hdc' ⊢
  have hw : wrap16 (dc - pred) = dc - pred := wrap16_id _ (by omega) (by omega)
  rw [hw]
  have cf := cat_facts (dc - pred) (by omega) (by omega)
  have hd := decode_run (base + 0) 0 (dc - pred) (by decide) (by omega) (by omega)
    (by simpa using dc_has_code base _ hb cf.1)
    (acBits base ((List.range' 1 63).map (quantised q b)) 0 ++ tail)
  unfold Spec.decodeBlock
  rw [List.append_assoc]
  simp only [Nat.add_zero, Nat.mul_zero, Nat.zero_add] at hd ⊢
  rw [hd.1]
  have hle : ¬ category (absValueOf (dc - pred)) > 11 := by omega
  simp only [hle, ↓reduceIte]
  rw [hd.2]
  simp only [cf.2.2.2.2]
  have hr : ∀ ac ∈ (List.range' 1 63).map (quantised q b), -1023 ≤ ac ∧ ac ≤ 1023 := by
    intro ac hac
    obtain ⟨z, hz, rfl⟩ := List.mem_map.mp hac
    rw [List.mem_range'_1] at hz
    exact quantised_range q b hq hv z (by omega) (by omega)
  rw [decodeAC_acBits base hb tail _ 0 1 64 (by simp) (by omega) (by omega) (by omega) hr]
  simp only [List.replicate_zero, List.nil_append, Option.some.injEq, Prod.mk.injEq, and_true, List.cons.injEq]
  omega

/-- `encodeBlock` refines `blockBits` -/
theorem encodeBlock_emits (e : Encoder) (out : Array Nat) (c : Nat) (b : Block) :
    Emits (e.setPrevDC c (div (b.getD 0 0) (((e.quants ((if c > 0 then 2 else 0) / 2)).getD 0 0 : Nat) : Int)), out)
      (encodeBlock e out c b)
      (blockBits (e.quants ((if c > 0 then 2 else 0) / 2)) (e.prevDC c) (if c > 0 then 2 else 0) b) := by
  unfold encodeBlock blockBits
  simp only
  exact (emitHuffmanRun_emits _ out _ 0 _).trans (encodeACs_emits _ _ 0 _ _)


end WuffsVerif.Jpeg.Huff
