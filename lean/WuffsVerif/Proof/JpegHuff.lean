/-
C18 helper lemmas for the entropy round trip, part 2: the Spec's Huffman DECODE, RECEIVE and
EXTEND invert the encoder's code words and magnitude bits.
-/
import WuffsVerif.Proof.JpegBits
open WuffsVerif.Gen.C18 WuffsVerif.Jpeg WuffsVerif.Jpeg.Buf WuffsVerif.Jpeg.Bits WuffsVerif.Jpeg.Tab

namespace WuffsVerif.Jpeg.Huff

/-- prefix-freeness as a statement about members -/
theorem prefixFree_mem (tbl : List Spec.Entry) (h : prefixFreeB tbl = true) :
    ∀ a b, a ∈ tbl → b ∈ tbl → isPrefixB a b = true → a = b ∨ False := by
  induction tbl with
  | nil => intro a b ha; cases ha
  | cons x xs ih =>
    simp only [prefixFreeB, Bool.and_eq_true, List.all_eq_true, Bool.not_eq_true'] at h
    intro a b ha hb hp
    rcases List.mem_cons.mp ha with rfl | ha'
    · rcases List.mem_cons.mp hb with rfl | hb'
      · left; rfl
      · have := (h.1 b hb').1; rw [hp] at this; cases this
    · rcases List.mem_cons.mp hb with rfl | hb'
      · have := (h.1 a ha').2; rw [hp] at this; cases this
      · exact ih h.2 a b ha' hb' hp

theorem prefixFree_eq (tbl : List Spec.Entry) (h : prefixFreeB tbl = true) (a b : Spec.Entry)
    (ha : a ∈ tbl) (hb : b ∈ tbl) (hp : isPrefixB a b = true) : a = b := by
  rcases prefixFree_mem tbl h a b ha hb hp with h | h
  · exact h
  · exact h.elim

theorem lookup_self (tbl : List Spec.Entry) (h : prefixFreeB tbl = true) (e : Spec.Entry) (he : e ∈ tbl) :
    Spec.lookup tbl e.len e.code = some e.val := by
  unfold Spec.lookup
  cases hf : tbl.find? (fun t => t.len == e.len && t.code == e.code) with
  | none =>
    have := List.find?_eq_none.mp hf e he
    simp at this
  | some t =>
    have ht := List.mem_of_find?_eq_some hf
    have hp := List.find?_some hf
    simp only [Bool.and_eq_true, beq_iff_eq] at hp
    have : isPrefixB t e = true := by
      simp [isPrefixB, hp.1, hp.2]
    have := prefixFree_eq tbl h t e ht he this
    simp [this]

theorem lookup_proper_prefix (tbl : List Spec.Entry) (h : prefixFreeB tbl = true) (e : Spec.Entry) (he : e ∈ tbl)
    (d : Nat) (hd : 1 ≤ d) (hd2 : d ≤ e.len) : Spec.lookup tbl (e.len - d) (e.code / 2 ^ d) = none := by
  unfold Spec.lookup
  cases hf : tbl.find? (fun t => t.len == e.len - d && t.code == e.code / 2 ^ d) with
  | none => rfl
  | some t =>
    exfalso
    have ht := List.mem_of_find?_eq_some hf
    have hp := List.find?_some hf
    simp only [Bool.and_eq_true, beq_iff_eq] at hp
    have : isPrefixB t e = true := by
      have e1 : e.len - (e.len - d) = d := by omega
      simp [isPrefixB, hp.1, hp.2, e1]
    have := prefixFree_eq tbl h t e ht he this
    subst this
    omega

/-- DECODE reads exactly the code word of an entry and returns its symbol -/
theorem decodeSym_entry (tbl : List Spec.Entry) (h : prefixFreeB tbl = true) (e : Spec.Entry) (he : e ∈ tbl)
    (rest : List Bool) :
    ∀ d fuel, 1 ≤ d → d ≤ e.len → d ≤ fuel →
      Spec.decodeSym tbl fuel (e.len - d) (e.code / 2 ^ d) (bitsOf e.code d ++ rest) = some (e.val, rest) := by
  intro d
  induction d with
  | zero => intro fuel h1; omega
  | succ d ih =>
    intro fuel _ hd2 hf
    obtain ⟨fuel', rfl⟩ : ∃ f, fuel = f + 1 := ⟨fuel - 1, by omega⟩
    rw [bitsOf_succ_msb]
    simp only [List.cons_append, Spec.decodeSym]
    have hcode : 2 * (e.code / 2 ^ (d + 1)) + (decide (e.code / 2 ^ d % 2 = 1)).toNat = e.code / 2 ^ d := by
      have e1 : e.code / 2 ^ (d + 1) = e.code / 2 ^ d / 2 := by
        rw [Nat.pow_succ, Nat.div_div_eq_div_mul]
      rw [e1]
      by_cases hb : e.code / 2 ^ d % 2 = 1
      · simp [hb]; omega
      · simp [hb]; omega
    have hlen : e.len - (d + 1) + 1 = e.len - d := by omega
    rw [hcode, hlen]
    by_cases hd0 : d = 0
    · subst hd0
      simp only [Nat.pow_zero, Nat.div_one, Nat.sub_zero]
      rw [lookup_self tbl h e he]
      simp [bitsOf]
    · rw [lookup_proper_prefix tbl h e he d (by omega) (by omega)]
      exact ih fuel' (by omega) (by omega) (by omega)

theorem decode16_entry (tbl : List Spec.Entry) (h : prefixFreeB tbl = true) (hw : wellFormedB tbl = true)
    (e : Spec.Entry) (he : e ∈ tbl) (rest : List Bool) :
    Spec.decode16 tbl (bitsOf e.code e.len ++ rest) = some (e.val, rest) := by
  have hwf := (List.all_eq_true.mp hw) e he
  simp only [Bool.and_eq_true, decide_eq_true_eq] at hwf
  have := decodeSym_entry tbl h e he rest e.len 16 hwf.1.1.1 (Nat.le_refl _) hwf.1.1.2
  rw [Nat.sub_self, Nat.div_eq_of_lt hwf.1.2] at this
  exact this

/-- a non-zero slot of the encoder LUT derived from a code table comes from an entry -/
theorem writerOf_entry (tbl : List Spec.Entry) (s : Nat) (init : List Nat) :
    (tbl.foldl (fun a e => a.set e.val (e.len * 65536 + e.code)) init).getD s 0 = init.getD s 0 ∨
    ∃ e ∈ tbl, e.val = s ∧ (tbl.foldl (fun a e => a.set e.val (e.len * 65536 + e.code)) init).getD s 0 = e.len * 65536 + e.code := by
  induction tbl generalizing init with
  | nil => left; rfl
  | cons x xs ih =>
    simp only [List.foldl_cons]
    rcases ih (init.set x.val (x.len * 65536 + x.code)) with h | ⟨e, he, hv, hx⟩
    · by_cases hxs : x.val = s
      · by_cases hlt : s < init.length
        · right
          refine ⟨x, List.mem_cons_self, hxs, ?_⟩
          rw [h, List.getD_eq_getElem?_getD, hxs, List.getElem?_set_self hlt]
          rfl
        · left
          rw [h, List.getD_eq_getElem?_getD, List.getD_eq_getElem?_getD, List.getElem?_set]
          simp [hxs, hlt]
      · left
        rw [h, List.getD_eq_getElem?_getD, List.getD_eq_getElem?_getD, List.getElem?_set_ne hxs]
    · right
      exact ⟨e, List.mem_cons_of_mem _ he, hv, hx⟩

/-- the four Spec code tables for the unchanged tables, by index -/
def canonTable (wh : Nat) : List Spec.Entry := canonTables.getD wh []

theorem canonTable_ok (wh : Nat) : prefixFreeB (canonTable wh) = true ∧ wellFormedB (canonTable wh) = true := by
  have := all_getD canonTables (fun t => prefixFreeB t && wellFormedB t) wh [] canon_prefixFree (by decide)
  simpa [canonTable] using this

/-- an encoder LUT slot that holds a code is the code of an entry of the Spec's table -/
theorem hbw_entry (wh s : Nat) (hx : (huffmanBitWriters.getD wh #[]).getD s 0 ≠ 0) :
    ∃ e ∈ canonTable wh, e.val = s ∧ (huffmanBitWriters.getD wh #[]).getD s 0 = e.len * 65536 + e.code := by
  have hw : (huffmanBitWriters.getD wh #[]).toList = writerOf (canonTable wh) ∨ (huffmanBitWriters.getD wh #[]).toList = [] := by
    have h := canon_writers
    by_cases hlt : wh < canonTables.length
    · left
      have h1 : (canonTables.map writerOf)[wh]? = some (writerOf (canonTable wh)) := by
        simp [canonTable, List.getD_eq_getElem?_getD, hlt]
      rw [h] at h1
      simp only [List.getElem?_map] at h1
      rw [getD_toList, List.getD_eq_getElem?_getD]
      cases hg : huffmanBitWriters.toList[wh]? with
      | none => simp [hg] at h1
      | some a => simp [hg] at h1; simp [h1]
    · right
      have hl : canonTables.length = huffmanBitWriters.toList.length := by
        have := congrArg List.length h; simpa using this
      rw [getD_toList, List.getD_eq_getElem?_getD, List.getElem?_eq_none (by omega)]
      rfl
  rw [getD_toList] at hx ⊢
  rcases hw with hw | hw
  · rw [hw] at hx ⊢
    unfold writerOf at hx ⊢
    rcases writerOf_entry (canonTable wh) s (List.replicate 256 0) with h | h
    · exfalso
      rw [h] at hx
      apply hx
      rw [List.getD_eq_getElem?_getD, List.getElem?_replicate]
      split <;> rfl
    · exact h
  · rw [hw] at hx; simp at hx

/-- the code word `emitHuffman` writes for a symbol that has a code decodes to that symbol -/
theorem decode16_huffBits (wh s : Nat) (hx : (huffmanBitWriters.getD wh #[]).getD s 0 ≠ 0) (rest : List Bool) :
    Spec.decode16 (canonTable wh) (huffBits wh s ++ rest) = some (s, rest) := by
  obtain ⟨e, he, hv, hxe⟩ := hbw_entry wh s hx
  have ok := canonTable_ok wh
  have hwf := (List.all_eq_true.mp ok.2) e he
  simp only [Bool.and_eq_true, decide_eq_true_eq] at hwf
  have hc : e.code < 65536 := by
    have : 2 ^ e.len ≤ 2 ^ 16 := Nat.pow_le_pow_right (by decide) hwf.1.1.2
    have : (2 : Nat) ^ 16 = 65536 := by decide
    omega
  unfold huffBits
  rw [hxe]
  have e1 : (e.len * 65536 + e.code) % 65536 = e.code := by omega
  have e2 : (e.len * 65536 + e.code) / 65536 = e.len := by omega
  rw [e1, e2, ← hv]
  exact decode16_entry _ ok.1 ok.2 e he rest

/-- RECEIVE reads back the magnitude bits -/
theorem receive_bitsOf (n : Nat) : ∀ (acc v : Nat) (rest : List Bool),
    Spec.receive n acc (bitsOf v n ++ rest) = some (acc * 2 ^ n + v % 2 ^ n, rest) := by
  induction n with
  | zero => intro acc v rest; simp [Spec.receive, bitsOf, Nat.mod_one]
  | succ n ih =>
    intro acc v rest
    rw [bitsOf_succ_msb]
    simp only [List.cons_append, Spec.receive]
    rw [ih]
    congr 2
    have hm : v % 2 ^ (n + 1) = v % 2 ^ n + 2 ^ n * (v / 2 ^ n % 2) := by
      rw [Nat.pow_succ, Nat.mod_mul]
    have hb : (decide (v / 2 ^ n % 2 = 1)).toNat = v / 2 ^ n % 2 := by
      by_cases hb : v / 2 ^ n % 2 = 1
      · simp [hb]
      · have : v / 2 ^ n % 2 = 0 := by omega
        simp [this]
    rw [hm, hb, Nat.pow_succ, Nat.add_mul, Nat.mul_comm (v / 2 ^ n % 2)]
    have h1 : acc * (2 ^ n * 2) = 2 * (acc * 2 ^ n) := by rw [← Nat.mul_assoc, Nat.mul_comm]
    have h2 : 2 * acc * 2 ^ n = 2 * (acc * 2 ^ n) := Nat.mul_assoc 2 acc (2 ^ n)
    omega


end WuffsVerif.Jpeg.Huff
