/-
C12, the Wuffs formatter: `Render`'s output as a list of line `Piece`s (a blank line, a comment
on a line of its own, a line of tokens with an optional trailing comment), and the theorem that
such a text is read back by `Tokenize` piece by piece: the tokens of each token line (the names
before an aligned ":" as they are, the others as `Render` writes them), an implicit ";" where
the last token asks for one, and each comment on the line it is written on.  Core Lean only.
-/
import WuffsVerif.Proof.RenderLine

namespace WuffsVerif.Render
open WuffsVerif.FmtToken WuffsVerif.Gen.C12

/-! ### comments -/

/-- a comment as `Tokenize` stores it: empty (none on that line), or `//` up to the newline -/
def wfComment (c : Bytes) : Bool :=
  match c with
  | [] => true
  | 47 :: 47 :: x => x.all (· != 10)
  | _ => false

theorem dropWhile_append_singleton {α : Type} (p : α → Bool) (a : α) (ha : p a = false) :
    ∀ m : List α, (m ++ [a]).dropWhile p = m.dropWhile p ++ [a] := by
  intro m
  induction m with
  | nil => simp [List.dropWhile, ha]
  | cons b m ih =>
    simp only [List.cons_append, List.dropWhile_cons]
    split
    · exact ih
    · rfl

theorem strip_cons (a : UInt8) (l : Bytes) (ha : (a == 32) = false) :
    stripTrailingSpaces (a :: l) = a :: stripTrailingSpaces l := by
  unfold stripTrailingSpaces
  rw [List.reverse_cons, dropWhile_append_singleton _ a ha, List.reverse_append]
  rfl

theorem strip_prefix (s : Bytes) : stripTrailingSpaces s <+: s := by
  unfold stripTrailingSpaces
  have h : List.dropWhile (fun x => x == 32) s.reverse <:+ s.reverse := List.dropWhile_suffix _
  have := List.reverse_prefix.mpr h
  simpa using this

theorem dropWhile_idem {α : Type} (p : α → Bool) : ∀ l : List α, (l.dropWhile p).dropWhile p = l.dropWhile p := by
  intro l
  induction l with
  | nil => rfl
  | cons a l ih =>
    rw [List.dropWhile_cons]
    split
    · exact ih
    · rename_i h
      rw [List.dropWhile_cons]
      simp [h]

theorem strip_idem (s : Bytes) : stripTrailingSpaces (stripTrailingSpaces s) = stripTrailingSpaces s := by
  unfold stripTrailingSpaces
  rw [List.reverse_reverse, dropWhile_idem]

/-- the stripped text of a non-empty well-formed comment: `//`, then no newline -/
theorem strip_wfComment {c : Bytes} (h : wfComment c = true) (hne : c ≠ []) :
    ∃ y, stripTrailingSpaces c = 47 :: 47 :: y ∧ ∀ b ∈ y, b ≠ 10 := by
  unfold wfComment at h
  split at h
  · exact absurd rfl hne
  · rename_i x
    refine ⟨stripTrailingSpaces x, ?_, ?_⟩
    · rw [strip_cons 47 _ (by decide), strip_cons 47 _ (by decide)]
    · intro b hb
      have hbx : b ∈ x := (strip_prefix x).subset hb
      have := List.all_eq_true.mp h b hbx
      simpa using this
  · exact absurd h (by simp)

/-! ### pieces -/

/-- the names before an aligned ":" as `Render` writes them: each followed by a space -/
def namesBytes (names : List Tok) : Bytes := names.flatMap (fun t => t.text ++ [32])

theorem namesBytes_foldl (names : List Tok) (b : Bytes) :
    names.foldl (fun b t => b ++ t.text ++ [32]) b = b ++ namesBytes names := by
  induction names generalizing b with
  | nil => simp [namesBytes]
  | cons t ts ih =>
    rw [List.foldl_cons, ih]
    simp [namesBytes, List.append_assoc]

/-- One output line of `Render`. -/
inductive Piece where
  /-- an empty line -/
  | blank
  /-- a comment on a line of its own: indentation, the comment -/
  | comment (k : Nat) (com : Bytes)
  /-- a line of tokens: indentation, names before an aligned ":" (each followed by a space),
  padding, the other tokens, the line's comment (if any); `semis` are the trailing
  semicolons of the source line, which are not written -/
  | toks (k : Nat) (names : List Tok) (m : Nat) (lts : List Tok) (com : Bytes) (semis : List Tok)

def Piece.bytes : Piece → Bytes
  | .blank => [10]
  | .comment k com => List.replicate k 32 ++ stripTrailingSpaces com ++ [10]
  | .toks k names m lts com _ =>
    List.replicate k 32 ++ namesBytes names ++ List.replicate m 32 ++ lineBody none false lts ++
      (if com.isEmpty then [] else 32 :: 32 :: stripTrailingSpaces com) ++ [10]

/-- the last of `names ++ lts` asks for an implicit semicolon -/
def endsStatement (lts : List Tok) : Bool :=
  match lts.getLast? with
  | some t => t.implicitSemicolon
  | none => false

/-- the conditions under which a piece is read back -/
def Piece.ok : Piece → Prop
  | .blank => True
  | .comment _ com => wfComment com = true ∧ com ≠ []
  | .toks _ names _ lts com semis =>
    (∀ t ∈ names, wfTok t = true) ∧ (∀ t ∈ lts, wfTok t = true) ∧ lts ≠ [] ∧
    noBadPairs none lts = true ∧ wfComment com = true ∧
    (∀ t ∈ semis, t.text = [59]) ∧ semis.length = (if endsStatement lts then 1 else 0)

/-- the source tokens a piece stands for -/
def Piece.src : Piece → List Tok
  | .toks _ names _ lts _ semis => names ++ lts ++ semis
  | _ => []

/-- a name before an aligned ":" is read back as it is -/
def rawtok (l : Nat) (t : Tok) : Tok := ⟨t.id, t.text, l⟩

/-- the tokens `Tokenize` reads on line `l` from a piece -/
def Piece.out (l : Nat) : Piece → List Tok
  | .toks _ names _ lts _ _ =>
    names.map (rawtok l) ++ lts.map (retok l) ++
      (if endsStatement lts then [⟨idSemicolon, [59], l⟩] else [])
  | _ => []

/-- the comment `Tokenize` records on the piece's line -/
def Piece.outComment : Piece → Bytes
  | .blank => []
  | .comment _ com => stripTrailingSpaces com
  | .toks _ _ _ _ com _ => stripTrailingSpaces com

/-- the comments array after a piece on line `l` -/
def Piece.setC (C : Array Bytes) (l : Nat) (p : Piece) : Array Bytes :=
  if p.outComment.isEmpty then C else setComment C l p.outComment

/-- nothing is pending: the last token read does not ask for an implicit semicolon -/
def Settled (T : List Tok) : Prop := ∀ t, T.head? = some t → t.implicitSemicolon = false

theorem afterNewline_settled {T : List Tok} (h : Settled T) (l : Nat) : afterNewline T l = T := by
  unfold afterNewline
  cases T with
  | nil => rfl
  | cons t ts =>
    have := h t rfl
    simp [this]

theorem semicolon_not_implicit (l : Nat) : (⟨idSemicolon, [59], l⟩ : Tok).implicitSemicolon = false := by
  obtain ⟨⟨h1, h2⟩, _⟩ := semicolon_eq_facts
  unfold Tok.implicitSemicolon
  simp only [h2, ↓reduceIte, h1]

/-- numbers ask for an implicit semicolon whatever their text -/
theorem intern_numeric_implicit (s : Bytes) (c : UInt8) (σ : Bytes) (hs : s = c :: σ) (hc : numeric c = true)
    (l : Nat) : (⟨(intern s).1, s, l⟩ : Tok).implicitSemicolon = true := by
  unfold Tok.implicitSemicolon intern
  cases hb : builtinByName s with
  | some r =>
    simp only
    obtain ⟨b, hbm, hbt, hbi, hbf⟩ := builtinByName_sound hb
    have hf := List.all_eq_true.mp builtin_word_facts b hbm
    rw [hbt, hs] at hf
    have hst : (alphaNumeric c || c == 34 || c == 39) = true := by simp [numeric_alnum c hc]
    simp only [hst, Bool.not_true, Bool.false_or, Bool.and_eq_true, decide_eq_true_eq, hc,
      Bool.or_false, beq_iff_eq] at hf
    obtain ⟨⟨⟨⟨⟨⟨⟨f1, f2⟩, _⟩, _⟩, _⟩, _⟩, _⟩, f8⟩ := hf
    rw [← hbi]
    simp only [f1, ↓reduceIte, f2, f8]
  | none =>
    rw [hs]
    simp only [Nat.lt_irrefl, ↓reduceIte]

/-- the token read back asks for an implicit semicolon iff the original did -/
theorem retok_implicit {t : Tok} (h : wfTok t = true) (l : Nat) :
    (retok l t).implicitSemicolon = t.implicitSemicolon := by
  unfold retok retokId
  cases hp : wfPunct t with
  | true => simp only [↓reduceIte]; rfl
  | false =>
    simp only [Bool.false_eq_true, ↓reduceIte]
    have hpl : wfPlain t = true := by unfold wfTok at h; rw [hp] at h; simpa using h
    obtain ⟨c, σ, htxt, _⟩ := wfPlain_head hpl
    have hid : t.id = (intern t.text).1 := by
      unfold wfPlain at hpl
      rw [Bool.and_eq_true] at hpl
      simpa using hpl.2
    cases hc : numeric c with
    | false =>
      rw [tokText_not_numeric t c σ htxt hc]
      unfold Tok.implicitSemicolon
      simp only [hid]
    | true =>
      obtain ⟨c', σ', htt, hh⟩ := tokText_ne_nil h
      have hcc : c' = c := by rw [htxt] at hh; simpa using hh.symm
      subst hcc
      rw [intern_numeric_implicit (tokText t) c' σ' htt hc l]
      have := intern_numeric_implicit t.text c' σ htxt hc l
      unfold Tok.implicitSemicolon at this ⊢
      simp only [hid]
      exact this.symm

/-! ### a piece is read back -/

theorem names_run : ∀ (names : List Tok), (∀ t ∈ names, wfTok t = true) →
    ∀ (rest : Bytes) (l : Nat) (T : List Tok) (C : Array Bytes),
      TokRun (namesBytes names ++ rest) l T C rest l ((names.map (rawtok l)).reverse ++ T) C := by
  intro names
  induction names with
  | nil => intro _ rest l T C; simpa [namesBytes] using TokRun.refl rest l T C
  | cons t ts ih =>
    intro hwf rest l T C
    have h1 := TokRun.tok (relex_raw_blank (hwf t (by simp)) 32 (namesBytes ts ++ rest) (by decide)) l T C
    have h2 := TokRun.blank 32 (namesBytes ts ++ rest) l (⟨t.id, t.text, l⟩ :: T) C (by decide) (by decide)
    have h3 := ih (fun x hx => hwf x (by simp [hx])) rest l (⟨t.id, t.text, l⟩ :: T) C
    have := (h1.trans h2).trans h3
    simpa [namesBytes, rawtok, List.append_assoc] using this

theorem getLast?_map_retok (l : Nat) (lts : List Tok) :
    (lts.map (retok l)).reverse.head? = lts.getLast?.map (retok l) := by
  rw [List.head?_reverse, List.getLast?_map]

/-- One piece on line `l`: the tokenizer reads `p.out l`, records `p.outComment`, and is on
line `l + 1` with nothing pending. -/
theorem piece_retok (p : Piece) (hp : p.ok) (X : Bytes) (l : Nat) (T : List Tok) (C : Array Bytes)
    (hT : Settled T) (hl : l ≠ maxLine) :
    TokRun (p.bytes ++ X) l T C X (l + 1) ((p.out l).reverse ++ T) (p.setC C l) ∧
      Settled ((p.out l).reverse ++ T) := by
  cases p with
  | blank =>
    refine ⟨?_, by simpa [Piece.out] using hT⟩
    have := TokRun.newline X l T C hl
    rw [afterNewline_settled hT] at this
    simpa [Piece.bytes, Piece.out, Piece.setC, Piece.outComment] using this
  | comment k com =>
    obtain ⟨hw, hne⟩ := hp
    obtain ⟨y, hy, hy10⟩ := strip_wfComment hw hne
    refine ⟨?_, by simpa [Piece.out] using hT⟩
    have h1 := TokRun.spaces k (stripTrailingSpaces com ++ 10 :: X) l T C
    have h2 := TokRun.comment y X l T C hy10
    have h3 := TokRun.newline X l T (setComment C l (47 :: 47 :: y)) hl
    rw [afterNewline_settled hT] at h3
    rw [hy] at h1
    have := (h1.trans h2).trans h3
    have hne' : (stripTrailingSpaces com).isEmpty = false := by rw [hy]; rfl
    simpa [Piece.bytes, Piece.out, Piece.setC, Piece.outComment, hy, hne', List.append_assoc] using this
  | toks k names m lts com semis =>
    obtain ⟨hn, hlt, hne, hbad, hw, _, _⟩ := hp
    -- what follows the tokens: the comment (after two spaces) or the newline
    let tailc : Bytes := (if com.isEmpty then [] else 32 :: 32 :: stripTrailingSpaces com) ++ 10 :: X
    have htail : ∃ d r, tailc = d :: r ∧ d ≤ 32 := by
      by_cases hc : com.isEmpty = true
      · exact ⟨10, X, by simp [tailc, hc], by decide⟩
      · exact ⟨32, 32 :: stripTrailingSpaces com ++ 10 :: X, by simp [tailc, hc], by decide⟩
    obtain ⟨d, r, hdr, hd⟩ := htail
    have h1 := TokRun.spaces k (namesBytes names ++ (List.replicate m 32 ++ (lineBody none false lts ++ tailc))) l T C
    have h2 := names_run names hn (List.replicate m 32 ++ (lineBody none false lts ++ tailc)) l T C
    have h3 := TokRun.spaces m (lineBody none false lts ++ tailc) l ((names.map (rawtok l)).reverse ++ T) C
    have h4 := line_retok lts none false hlt hbad d r hd l ((names.map (rawtok l)).reverse ++ T) C
    rw [← hdr] at h4
    have h14 := ((h1.trans h2).trans h3).trans h4
    -- the tokens read so far
    let T1 : List Tok := (lts.map (retok l)).reverse ++ ((names.map (rawtok l)).reverse ++ T)
    have hlast : ∃ tl, lts.getLast? = some tl ∧ tl ∈ lts := by
      cases hg : lts.getLast? with
      | none => rw [List.getLast?_eq_none_iff] at hg; exact absurd hg hne
      | some tl => exact ⟨tl, rfl, List.mem_of_getLast? hg⟩
    obtain ⟨tl, htl, htlm⟩ := hlast
    have hT1head : T1.head? = some (retok l tl) := by
      have : (lts.map (retok l)).reverse.head? = some (retok l tl) := by
        rw [getLast?_map_retok, htl]; rfl
      cases hr : (lts.map (retok l)).reverse with
      | nil => rw [hr] at this; simp at this
      | cons a as => rw [hr] at this; simpa [T1, hr] using this
    have hnl : afterNewline T1 l = (if endsStatement lts then [⟨idSemicolon, [59], l⟩] else []) ++ T1 := by
      unfold afterNewline endsStatement
      rw [htl]
      cases hT1 : T1 with
      | nil => rw [hT1] at hT1head; simp at hT1head
      | cons a as =>
        rw [hT1] at hT1head
        simp only [List.head?_cons, Option.some.injEq] at hT1head
        subst hT1head
        simp only [retok_implicit (hlt tl htlm)]
        split <;> simp
    have hsettled : Settled ((if endsStatement lts then [⟨idSemicolon, [59], l⟩] else []) ++ T1) := by
      intro t ht
      by_cases he : endsStatement lts = true
      · simp only [he, ↓reduceIte, List.cons_append, List.nil_append, List.head?_cons, Option.some.injEq] at ht
        subst ht
        exact semicolon_not_implicit l
      · simp only [he, Bool.false_eq_true, ↓reduceIte, List.nil_append] at ht
        rw [hT1head] at ht
        have ht' := Option.some.inj ht
        subst ht'
        rw [retok_implicit (hlt tl htlm)]
        unfold endsStatement at he
        rw [htl] at he
        simpa using he
    have hout : (Piece.out l (.toks k names m lts com semis)).reverse ++ T =
        (if endsStatement lts then [⟨idSemicolon, [59], l⟩] else []) ++ T1 := by
      simp only [Piece.out, T1]
      split <;> simp [List.append_assoc]
    rw [hout]
    refine ⟨?_, hsettled⟩
    by_cases hc : com.isEmpty = true
    · -- no comment on the line
      have hc' : com = [] := by simpa using hc
      have h5 := TokRun.newline X l T1 C hl
      rw [hnl] at h5
      have htc : tailc = 10 :: X := by simp [tailc, hc]
      rw [htc] at h14
      have := h14.trans h5
      simpa [Piece.bytes, Piece.setC, Piece.outComment, hc', stripTrailingSpaces, List.append_assoc, T1] using this
    · have hne' : com ≠ [] := by simpa using hc
      obtain ⟨y, hy, hy10⟩ := strip_wfComment hw hne'
      have htc : tailc = 32 :: 32 :: (47 :: 47 :: y ++ 10 :: X) := by
        simp [tailc, hc, hy]
      rw [htc] at h14
      have h5 := TokRun.blank 32 (32 :: (47 :: 47 :: y ++ 10 :: X)) l T1 C (by decide) (by decide)
      have h6 := TokRun.blank 32 (47 :: 47 :: y ++ 10 :: X) l T1 C (by decide) (by decide)
      have h7 := TokRun.comment y X l T1 C hy10
      have h8 := TokRun.newline X l T1 (setComment C l (47 :: 47 :: y)) hl
      rw [hnl] at h8
      have := (((h14.trans h5).trans h6).trans h7).trans h8
      have hne'' : (stripTrailingSpaces com).isEmpty = false := by rw [hy]; rfl
      have hcf : com.isEmpty = false := by simpa using hc
      simpa [Piece.bytes, Piece.setC, Piece.outComment, hy, hne'', hcf, List.append_assoc, T1] using this

/-! ### a list of pieces is read back -/

def piecesBytes (ps : List Piece) : Bytes := ps.flatMap Piece.bytes

/-- the tokens read from pieces that start on line `l` -/
def piecesOut : Nat → List Piece → List Tok
  | _, [] => []
  | l, p :: ps => p.out l ++ piecesOut (l + 1) ps

/-- the comments array after pieces that start on line `l` -/
def piecesC : Array Bytes → Nat → List Piece → Array Bytes
  | C, _, [] => C
  | C, l, p :: ps => piecesC (p.setC C l) (l + 1) ps

theorem pieces_retok : ∀ (ps : List Piece), (∀ p ∈ ps, p.ok) →
    ∀ (X : Bytes) (l : Nat) (T : List Tok) (C : Array Bytes), Settled T → l + ps.length ≤ maxLine →
      TokRun (piecesBytes ps ++ X) l T C X (l + ps.length) ((piecesOut l ps).reverse ++ T) (piecesC C l ps) ∧
        Settled ((piecesOut l ps).reverse ++ T) := by
  intro ps
  induction ps with
  | nil =>
    intro _ X l T C hT _
    exact ⟨by simpa [piecesBytes, piecesOut, piecesC] using TokRun.refl X l T C, by simpa [piecesOut] using hT⟩
  | cons p ps ih =>
    intro hok X l T C hT hl
    simp only [List.length_cons] at hl
    obtain ⟨h1, hs1⟩ := piece_retok p (hok p (by simp)) (piecesBytes ps ++ X) l T C hT (by omega)
    obtain ⟨h2, hs2⟩ := ih (fun q hq => hok q (by simp [hq])) X (l + 1) ((p.out l).reverse ++ T) (p.setC C l)
      hs1 (by omega)
    refine ⟨?_, by simpa [piecesOut, List.append_assoc] using hs2⟩
    have := h1.trans h2
    have e : l + 1 + ps.length = l + (ps.length + 1) := by omega
    rw [e] at this
    simpa [piecesBytes, piecesOut, piecesC, List.append_assoc] using this

/-- A text made of well-formed pieces tokenizes: the tokens and comments are those of the pieces. -/
theorem pieces_tokenize (ps : List Piece) (hok : ∀ p ∈ ps, p.ok) (hlen : ps.length < maxLine) :
    tokenize (piecesBytes ps) = some (piecesOut 1 ps, piecesC #[] 1 ps) := by
  obtain ⟨h, _⟩ := pieces_retok ps hok [] 1 [] #[] (by intro t ht; simp at ht) (by omega)
  have := TokRun.tokenize (by simpa using h)
  simpa using this

/-- pointwise relation of two lists (core Lean has no `Forall₂`) -/
inductive Forall2 {α β : Type} (R : α → β → Prop) : List α → List β → Prop where
  | nil : Forall2 R [] []
  | cons {a : α} {b : β} {as : List α} {bs : List β} : R a b → Forall2 R as bs → Forall2 R (a :: as) (b :: bs)

theorem Forall2.append {α β : Type} {R : α → β → Prop} {a1 a2 : List α} {b1 b2 : List β}
    (h1 : Forall2 R a1 b1) (h2 : Forall2 R a2 b2) : Forall2 R (a1 ++ a2) (b1 ++ b2) := by
  induction h1 with
  | nil => exact h2
  | cons hr _ ih => exact Forall2.cons hr ih

theorem Forall2.map_right {α β : Type} {R : α → β → Prop} (f : α → β) (l : List α)
    (h : ∀ a ∈ l, R a (f a)) : Forall2 R l (l.map f) := by
  induction l with
  | nil => exact Forall2.nil
  | cons a as ih => exact Forall2.cons (h a (by simp)) (ih (fun x hx => h x (by simp [hx])))

theorem Forall2.length_eq {α β : Type} {R : α → β → Prop} {l1 : List α} {l2 : List β}
    (h : Forall2 R l1 l2) : l1.length = l2.length := by
  induction h with
  | nil => rfl
  | cons _ _ ih => simp [ih]

theorem Forall2.zip {α β : Type} {R : α → β → Prop} {l1 : List α} {l2 : List β}
    (h : Forall2 R l1 l2) : ∀ p ∈ l1.zip l2, R p.1 p.2 := by
  induction h with
  | nil => intro p hp; simp at hp
  | cons hr _ ih =>
    intro p hp
    simp only [List.zip_cons_cons, List.mem_cons] at hp
    rcases hp with rfl | hp
    · exact hr
    · exact ih p hp

theorem Forall2.imp {α β : Type} {R S : α → β → Prop} {l1 : List α} {l2 : List β}
    (h : Forall2 R l1 l2) (hrs : ∀ a b, a ∈ l1 → R a b → S a b) : Forall2 S l1 l2 := by
  induction h with
  | nil => exact Forall2.nil
  | cons hr _ ih =>
    exact Forall2.cons (hrs _ _ (by simp) hr) (ih (fun a b ha => hrs a b (by simp [ha])))

/-- the relation between a source token and the token read back from `Render`'s output:
the same text, or the text `Render` writes for it -/
def TextRel (t t' : Tok) : Prop := t'.text = t.text ∨ t'.text = tokText t

theorem piece_textRel (p : Piece) (hp : p.ok) (l : Nat) : Forall2 TextRel p.src (p.out l) := by
  cases p with
  | blank => exact Forall2.nil
  | comment k com => exact Forall2.nil
  | toks k names m lts com semis =>
    obtain ⟨_, _, _, _, _, hs, hlen⟩ := hp
    simp only [Piece.src, Piece.out]
    apply Forall2.append
    · apply Forall2.append
      · exact Forall2.map_right _ _ (fun t _ => Or.inl rfl)
      · exact Forall2.map_right _ _ (fun t _ => Or.inr rfl)
    · by_cases he : endsStatement lts = true
      · simp only [he, ↓reduceIte] at hlen ⊢
        match semis, hlen, hs with
        | [x], _, hs => exact Forall2.cons (Or.inl (hs x (by simp)).symm) Forall2.nil
      · simp only [he, Bool.false_eq_true, ↓reduceIte] at hlen ⊢
        have : semis = [] := List.length_eq_zero_iff.mp hlen
        rw [this]
        exact Forall2.nil

theorem pieces_textRel : ∀ (ps : List Piece), (∀ p ∈ ps, p.ok) → ∀ l,
    Forall2 TextRel (ps.flatMap Piece.src) (piecesOut l ps) := by
  intro ps
  induction ps with
  | nil => intro _ _; exact Forall2.nil
  | cons p ps ih =>
    intro hok l
    simp only [List.flatMap_cons, piecesOut]
    exact Forall2.append (piece_textRel p (hok p (by simp)) l) (ih (fun q hq => hok q (by simp [hq])) (l + 1))

end WuffsVerif.Render
