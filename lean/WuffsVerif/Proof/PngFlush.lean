/-
What one `flush` of `Model/Png/Uncomp.lean` writes, as byte lists: the pieces `blockHeader`,
`updateAdler32`, `appendAdler`, `appendCRC`, `emit`, then `flushTail` and `flush`.
-/
import WuffsVerif.Model.Png.Uncomp
import WuffsVerif.Proof.HashBuf
import WuffsVerif.Proof.HashLoops
import WuffsVerif.Proof.PngBuf

namespace WuffsVerif.Png.Uncomp
open WuffsVerif.Hash WuffsVerif.Gen.C19

/-- `crc_table_eq_spec`: the 256 entries in uncompng.go (regenerated into `Gen/C19_Tables.lean`) are
the ones the bit-serial definition gives. -/
theorem crc_table_toList :
    crc32IEEETable.toList = (List.range 256).map (fun i => crcBits8 (UInt32.ofNat i)) := by
  decide +kernel

theorem crc_table_eq_spec : crc32IEEETable = crcTableSpec := by
  apply Array.toList_inj.mp
  rw [crc_table_toList]
  rfl

/-- `crc32IEEE(e.buf[s:t])` is the bit-serial CRC-32 of those bytes. -/
theorem crc32IEEE_spec (buf : Array UInt8) (s t : Nat) (hst : s ≤ t) (ht : t ≤ buf.size) :
    crc32IEEE buf s t = crc32Spec (slice buf s t) := by
  unfold crc32IEEE
  rw [crc_table_eq_spec, crc32Range_spec _ _ _ hst ht]

/-- the 5-byte stored-block header for `n` payload bytes -/
def storedHdr (final : Bool) (n : Nat) : List UInt8 :=
  [btou8 final, UInt8.ofNat n, UInt8.ofNat (n >>> 8),
    (0xFF : UInt8) ^^^ UInt8.ofNat n, (0xFF : UInt8) ^^^ UInt8.ofNat (n >>> 8)]

def storedBlock (final : Bool) (B : List UInt8) : List UInt8 := storedHdr final B.length ++ B

/-- big-endian `b` then `a`, 16 bits each -/
def adlerBytes (s : Adler) : List UInt8 :=
  [UInt8.ofNat (s.b >>> 8), UInt8.ofNat s.b, UInt8.ofNat (s.a >>> 8), UInt8.ofNat s.a]

/-- the running Adler-32 state kept in `buf[0xFFFC:]` -/
def AdlerAt (buf : Array UInt8) (s : Adler) : Prop := slice buf 0xFFFC 0x10000 = adlerBytes s

/-- all bytes handed to the writer so far, concatenated -/
def out (w : Writer) : List UInt8 := (w.writes.toList.map Array.toList).flatten

theorem blockHeader_eq (e : Enc) (ei ej : Nat) (final : Bool) :
    blockHeader e ei ej final = e.blit (ei - 5) (storedHdr final (ej - ei)) := rfl

theorem AdlerAt.rd (buf : Array UInt8) (s : Adler) (h : AdlerAt buf s) (hsz : buf.size = 65536) :
    rd buf 0xFFFC = UInt8.ofNat (s.b >>> 8) ∧ rd buf 0xFFFD = UInt8.ofNat s.b ∧
    rd buf 0xFFFE = UInt8.ofNat (s.a >>> 8) ∧ rd buf 0xFFFF = UInt8.ofNat s.a := by
  unfold AdlerAt at h
  have hl : (slice buf 0xFFFC 0x10000).length = 4 := by rw [length_slice _ _ _ (by omega)]
  have g := fun i (hi : i < (slice buf 0xFFFC 0x10000).length) => getElem_slice buf 0xFFFC 0x10000 i (by omega) hi
  have g0 := g 0 (by omega)
  have g1 := g 1 (by omega)
  have g2 := g 2 (by omega)
  have g3 := g 3 (by omega)
  simp only [h, adlerBytes] at g0 g1 g2 g3
  simp only [List.getElem_cons_zero, List.getElem_cons_succ] at g0 g1 g2 g3
  exact ⟨g0.symm, g1.symm, g2.symm, g3.symm⟩

theorem u16_of_bytes (x : Nat) (hx : x < 65536) :
    ((UInt8.ofNat (x >>> 8)).toUInt32 <<< 8 ||| (UInt8.ofNat x).toUInt32).toNat = x := by
  have h8 : (8 : UInt32).toNat % 32 = 8 := by decide
  simp only [UInt32.toNat_or, UInt32.toNat_shiftLeft, UInt8.toNat_toUInt32, UInt8.toNat_ofNat', h8,
    Nat.shiftRight_eq_div_pow]
  have h1 : x / 2 ^ 8 % 2 ^ 8 = x / 256 := by omega
  have h2 : x % 2 ^ 8 < 2 ^ 8 := Nat.mod_lt _ (by decide)
  rw [h1]
  have h3 : (x / 256) <<< 8 % 2 ^ 32 = (x / 256) <<< 8 := by
    rw [Nat.shiftLeft_eq]; omega
  rw [h3, ← Nat.shiftLeft_add_eq_or_of_lt h2, Nat.shiftLeft_eq]
  omega

theorem bytes_of_u32 (r : UInt32) :
    (r >>> 8).toUInt8 = UInt8.ofNat (r.toNat >>> 8) ∧ r.toUInt8 = UInt8.ofNat r.toNat := by
  constructor <;> apply UInt8.toNat_inj.mp <;>
    simp [UInt32.toNat_toUInt8, UInt32.toNat_shiftRight, UInt8.toNat_ofNat']

/-- `updateAdler32` replaces the stored state by the state advanced over `buf[ei:ej]`. -/
theorem updateAdler32_spec (e : Enc) (ei ej : Nat) (s : Adler) (hsz : e.buf.size = 65536)
    (hA : AdlerAt e.buf s) (ha : s.a < 65521) (hb : s.b < 65521) (hej : ej ≤ 65536) :
    updateAdler32 e ei ej = e.blit 0xFFFC (adlerBytes (s.update (slice e.buf ei ej))) ∧
    (s.update (slice e.buf ei ej)).a < 65521 ∧ (s.update (slice e.buf ei ej)).b < 65521 := by
  obtain ⟨r0, r1, r2, r3⟩ := hA.rd _ _ hsz
  unfold updateAdler32
  simp only [r0, r1, r2, r3]
  have ea := u16_of_bytes s.a (by omega)
  have eb := u16_of_bytes s.b (by omega)
  generalize hbv : ((UInt8.ofNat (s.b >>> 8)).toUInt32 <<< 8 ||| (UInt8.ofNat s.b).toUInt32) = bv at eb
  generalize hav : ((UInt8.ofNat (s.a >>> 8)).toUInt32 <<< 8 ||| (UInt8.ofNat s.a).toUInt32) = av at ea
  have hav' : av.toNat < 65521 := by omega
  have hbv' : bv.toNat < 65521 := by omega
  have hej' : ej ≤ e.buf.size := by omega
  have h := adlerOuter_spec e.buf ei ej av bv hav' hbv' hej'
  simp only [ea, eb] at h
  obtain ⟨h1, h2, h3, h4⟩ := h
  refine ⟨?_, h3, h4⟩
  obtain ⟨p1, p2⟩ := bytes_of_u32 (adlerOuter e.buf ei ej av bv).2
  obtain ⟨q1, q2⟩ := bytes_of_u32 (adlerOuter e.buf ei ej av bv).1
  simp only [adlerBytes]
  rw [p1, p2, q1, q2, h1, h2]

theorem appendAdler_false (e : Enc) (ej : Nat) : appendAdler e ej false = (e, ej) := rfl

/-- final block: the stored state is copied behind the payload (the four reads are not disturbed by
the four stores because `ej + 3 < 0xFFFC`). -/
theorem appendAdler_true (e : Enc) (ej : Nat) (s : Adler) (hsz : e.buf.size = 65536)
    (hA : AdlerAt e.buf s) (hej : ej + 4 ≤ 0xFFFC) :
    appendAdler e ej true = (e.blit ej (adlerBytes s), ej + 4) := by
  obtain ⟨r0, r1, r2, r3⟩ := hA.rd _ _ hsz
  unfold appendAdler
  simp only [↓reduceIte]
  have s1 : (e.set (ej + 0) (rd e.buf 0xFFFC)).buf.size = 65536 := by rw [Enc.set_size, hsz]
  have q1 : rd (e.set (ej + 0) (rd e.buf 0xFFFC)).buf 0xFFFD = rd e.buf 0xFFFD := by
    rw [Enc.rd_set _ _ _ _ (by omega)]
    have : ¬ (0xFFFD = ej + 0) := by omega
    simp only [this, ↓reduceIte]
  rw [q1]
  have s2 : ((e.set (ej + 0) (rd e.buf 0xFFFC)).set (ej + 1) (rd e.buf 0xFFFD)).buf.size = 65536 := by
    rw [Enc.set_size, s1]
  have q2 : rd ((e.set (ej + 0) (rd e.buf 0xFFFC)).set (ej + 1) (rd e.buf 0xFFFD)).buf 0xFFFE = rd e.buf 0xFFFE := by
    rw [Enc.rd_set _ _ _ _ (by omega), Enc.rd_set _ _ _ _ (by omega)]
    have : ¬ (0xFFFE = ej + 0) := by omega
    have : ¬ (0xFFFE = ej + 1) := by omega
    simp only [*, ↓reduceIte]
  rw [q2]
  have s3 : (((e.set (ej + 0) (rd e.buf 0xFFFC)).set (ej + 1) (rd e.buf 0xFFFD)).set (ej + 2) (rd e.buf 0xFFFE)).buf.size = 65536 := by
    rw [Enc.set_size, s2]
  have q3 : rd (((e.set (ej + 0) (rd e.buf 0xFFFC)).set (ej + 1) (rd e.buf 0xFFFD)).set (ej + 2) (rd e.buf 0xFFFE)).buf 0xFFFF = rd e.buf 0xFFFF := by
    rw [Enc.rd_set _ _ _ _ (by omega), Enc.rd_set _ _ _ _ (by omega), Enc.rd_set _ _ _ _ (by omega)]
    have : ¬ (0xFFFF = ej + 0) := by omega
    have : ¬ (0xFFFF = ej + 1) := by omega
    have : ¬ (0xFFFF = ej + 2) := by omega
    simp only [*, ↓reduceIte]
  rw [q3, r0, r1, r2, r3]
  rfl

theorem appendCRC_spec (e : Enc) (c ej : Nat) (hc : c ≤ ej) (hej : ej ≤ e.buf.size) :
    appendCRC e c ej = (e.blit ej (be32 (crc32Spec (slice e.buf c ej)).toNat), ej + 4) := by
  unfold appendCRC
  have : ¬ ej > e.buf.size := by omega
  simp only [this, ↓reduceIte]
  rw [crc32IEEE_spec _ _ _ hc hej]

theorem out_push (f : Option Nat) (ws : Array (Array UInt8)) (x : Array UInt8) :
    out ⟨f, ws.push x⟩ = out ⟨f, ws⟩ ++ x.toList := by
  simp [out]

theorem out_eta (w : Writer) : out ⟨w.failAt, w.writes⟩ = out w := rfl

theorem write_ok (w : Writer) (x : Array UInt8) (hw : w.failAt = none) :
    w.write x = ({ w with writes := w.writes.push x }, true) := by
  simp [Writer.write, hw]

/-- not the final block: one `Write` of `buf[:ej]`, then `IDAT` is re-armed at 4. -/
theorem emit_false (e : Enc) (w : Writer) (ej : Nat) (hej : ej ≤ e.buf.size) (hw : w.failAt = none) :
    emit e w ej false = ⟨e.blit 4 tagIDAT, { w with writes := w.writes.push (e.buf.extract 0 ej) }, true⟩ := by
  unfold emit
  have : ¬ ej > e.buf.size := by omega
  simp only [this, ↓reduceIte, write_ok _ _ hw]
  rfl

/-- the final block: the writer receives `buf[:ej]` followed by the IEND chunk (in one or two calls). -/
theorem emit_true (e : Enc) (w : Writer) (ej : Nat) (hsz : e.buf.size = 65536) (hej : ej ≤ 65536)
    (hw : w.failAt = none) :
    let r := emit e w ej true
    r.ok = true ∧ r.e.buf.size = 65536 ∧ r.e.oob = e.oob ∧ r.w.failAt = none ∧
    out r.w = out w ++ slice e.buf 0 ej ++ iendChunk := by
  unfold emit
  simp only [Bool.not_true, Bool.false_eq_true, ↓reduceIte]
  have hl : iendChunk.length = 12 := rfl
  by_cases hsep : ej + 12 > 65536
  · simp only [hsep, decide_true, Bool.not_true, Bool.false_eq_true, ↓reduceIte]
    have : ¬ ej > e.buf.size := by omega
    simp only [this, ↓reduceIte, write_ok _ _ hw]
    have hw2 : ({ w with writes := w.writes.push (e.buf.extract 0 ej) } : Writer).failAt = none := hw
    simp only [Bool.not_true, Bool.false_eq_true, ↓reduceIte, write_ok _ _ hw2]
    refine ⟨trivial, ?_, ?_, hw, ?_⟩
    · rw [Enc.blit_size, hsz]
    · rw [Enc.blit_oob _ _ _ (by rw [hl, hsz]; omega)]
    · rw [out_push, out_push, out_eta]
      have := slice_blit_same e 0 iendChunk (by rw [hl, hsz]; omega)
      simp only [hl, Nat.zero_add] at this
      show out w ++ slice e.buf 0 ej ++ slice (e.blit 0 iendChunk).buf 0 12 = _
      rw [this]
  · simp only [hsep, decide_false, Bool.not_false, ↓reduceIte]
    have : ¬ ej + 12 > (e.blit ej iendChunk).buf.size := by rw [Enc.blit_size]; omega
    simp only [this, ↓reduceIte, write_ok _ _ hw]
    simp only [Bool.not_true, Bool.false_eq_true, ↓reduceIte]
    refine ⟨trivial, ?_, ?_, hw, ?_⟩
    · rw [Enc.blit_size, hsz]
    · rw [Enc.blit_oob _ _ _ (by rw [hl, hsz]; omega)]
    · rw [out_push, out_eta]
      show out w ++ slice (e.blit ej iendChunk).buf 0 (ej + 12) = _
      rw [slice_append _ 0 ej (ej + 12) (by omega) (by omega) (by rw [Enc.blit_size]; omega)]
      rw [slice_blit_disj _ _ _ _ _ (by rw [hl, hsz]; omega) (by omega) (by omega)]
      have := slice_blit_same e ej iendChunk (by rw [hl, hsz]; omega)
      rw [hl] at this
      rw [this, List.append_assoc]

theorem AdlerAt_blit (e : Enc) (i : Nat) (l : List UInt8) (s : Adler) (hsz : e.buf.size = 65536)
    (h : i + l.length ≤ 0xFFFC) (hA : AdlerAt e.buf s) : AdlerAt (e.blit i l).buf s := by
  unfold AdlerAt at hA ⊢
  rw [slice_blit_disj _ _ _ _ _ (by omega) (by omega) (by omega), hA]

theorem AdlerAt_of_blit (e : Enc) (s : Adler) (hsz : e.buf.size = 65536) :
    AdlerAt (e.blit 0xFFFC (adlerBytes s)).buf s := by
  unfold AdlerAt
  have := slice_blit_same e 0xFFFC (adlerBytes s) (by rw [hsz]; simp [adlerBytes])
  simpa [adlerBytes] using this

theorem length_storedHdr (f : Bool) (n : Nat) : (storedHdr f n).length = 5 := rfl
theorem length_adlerBytes (s : Adler) : (adlerBytes s).length = 4 := rfl
theorem length_be32 (n : Nat) : (be32 n).length = 4 := rfl

/-- The bytes one `flushTail` hands to the writer, and the state it leaves. `c = crc32Start`;
the caller has already stored the chunk length in `buf[c-4:c]`. -/
theorem flushTail_spec (e : Enc) (w : Writer) (ej : Nat) (final : Bool) (c ei : Nat) (s : Adler)
    (hsz : e.buf.size = 65536) (hoob : e.oob = false) (hw : w.failAt = none)
    (hc : c + 9 ≤ ei) (heij : ei ≤ ej) (hej : ej ≤ 65528)
    (hA : AdlerAt e.buf s) (ha : s.a < 65521) (hb : s.b < 65521) :
    let B := slice e.buf ei ej
    let s' := s.update B
    let body := slice e.buf c (ei - 5) ++ storedBlock final B ++ (if final then adlerBytes s' else [])
    let X := slice e.buf 0 c ++ body ++ be32 (crc32Spec body).toNat
    let r := flushTail e w ej final c ei
    r.ok = true ∧ r.w.failAt = none ∧ r.e.buf.size = 65536 ∧ r.e.oob = false ∧
    s'.a < 65521 ∧ s'.b < 65521 ∧
    (final = false → out r.w = out w ++ X ∧ slice r.e.buf 4 8 = tagIDAT ∧ AdlerAt r.e.buf s') ∧
    (final = true → out r.w = out w ++ X ++ iendChunk) := by
  intro B s' body X
  -- block header
  obtain ⟨e1, he1⟩ : ∃ x, x = e.blit (ei - 5) (storedHdr final (ej - ei)) := ⟨_, rfl⟩
  have sz1 : e1.buf.size = 65536 := by rw [he1, Enc.blit_size, hsz]
  have oob1 : e1.oob = false := by
    rw [he1, Enc.blit_oob _ _ _ (by rw [length_storedHdr, hsz]; omega), hoob]
  have A1 : AdlerAt e1.buf s := by
    rw [he1]; exact AdlerAt_blit _ _ _ _ hsz (by rw [length_storedHdr]; omega) hA
  have B1 : slice e1.buf ei ej = B := by
    rw [he1, slice_blit_disj _ _ _ _ _ (by rw [length_storedHdr, hsz]; omega) (by omega)
      (by rw [length_storedHdr]; omega)]
  have hBlen : B.length = ej - ei := length_slice _ _ _ (by omega)
  -- Adler
  obtain ⟨u1, u2, u3⟩ := updateAdler32_spec e1 ei ej s sz1 A1 ha hb (by omega)
  rw [B1] at u1 u2 u3
  obtain ⟨e2, he2⟩ : ∃ x, x = e1.blit 0xFFFC (adlerBytes s') := ⟨_, rfl⟩
  have sz2 : e2.buf.size = 65536 := by rw [he2, Enc.blit_size, sz1]
  have oob2 : e2.oob = false := by
    rw [he2, Enc.blit_oob _ _ _ (by rw [length_adlerBytes, sz1]; omega), oob1]
  have A2 : AdlerAt e2.buf s' := by rw [he2]; exact AdlerAt_of_blit _ _ sz1
  -- the bytes up to ej in e2
  have S2a : slice e2.buf 0 c = slice e.buf 0 c := by
    rw [he2, slice_blit_disj _ _ _ _ _ (by rw [length_adlerBytes, sz1]; omega) (by omega) (by omega)]
    rw [he1, slice_blit_disj _ _ _ _ _ (by rw [length_storedHdr, hsz]; omega) (by omega) (by omega)]
  have S2b : slice e2.buf c ej = slice e.buf c (ei - 5) ++ storedBlock final B := by
    rw [he2, slice_blit_disj _ _ _ _ _ (by rw [length_adlerBytes, sz1]; omega) (by omega) (by omega)]
    rw [slice_append e1.buf c (ei - 5) ej (by omega) (by omega) (by omega)]
    rw [slice_append e1.buf (ei - 5) ei ej (by omega) (by omega) (by omega), B1]
    have h5 : ei = (ei - 5) + (storedHdr final (ej - ei)).length := by rw [length_storedHdr]; omega
    have : slice e1.buf (ei - 5) ei = storedHdr final (ej - ei) := by
      conv => lhs; arg 3; rw [h5]
      rw [he1, slice_blit_same _ _ _ (by rw [length_storedHdr, hsz]; omega)]
    rw [this]
    rw [he1, slice_blit_disj _ _ _ _ _ (by rw [length_storedHdr, hsz]; omega) (by omega) (by omega)]
    simp only [storedBlock, hBlen]
  have hr : flushTail e w ej final c ei
      = emit (appendCRC (appendAdler e2 ej final).1 c (appendAdler e2 ej final).2).1 w
          (appendCRC (appendAdler e2 ej final).1 c (appendAdler e2 ej final).2).2 final := by
    unfold flushTail
    simp only [blockHeader_eq, ← he1, u1]
    rw [← he2]
  intro r
  have hrr : r = emit (appendCRC (appendAdler e2 ej final).1 c (appendAdler e2 ej final).2).1 w
          (appendCRC (appendAdler e2 ej final).1 c (appendAdler e2 ej final).2).2 final := hr
  clear_value r
  subst hrr
  cases final with
  | false =>
    simp only [appendAdler_false]
    rw [appendCRC_spec e2 c ej (by omega) (by omega), S2b]
    have hbody : body = slice e.buf c (ei - 5) ++ storedBlock false B := by
      simp only [body, Bool.false_eq_true, ↓reduceIte, List.append_nil]
    rw [← hbody]
    obtain ⟨e3, he3⟩ : ∃ x, x = e2.blit ej (be32 (crc32Spec body).toNat) := ⟨_, rfl⟩
    rw [← he3]
    have sz3 : e3.buf.size = 65536 := by rw [he3, Enc.blit_size, sz2]
    have oob3 : e3.oob = false := by
      rw [he3, Enc.blit_oob _ _ _ (by rw [length_be32, sz2]; omega), oob2]
    simp only
    rw [emit_false e3 w (ej + 4) (by omega) hw]
    refine ⟨rfl, hw, ?_, ?_, u2, u3, ?_, ?_⟩
    · simp only; rw [Enc.blit_size, sz3]
    · simp only; rw [Enc.blit_oob _ _ _ (by rw [sz3]; decide), oob3]
    · intro _
      refine ⟨?_, ?_, ?_⟩
      · simp only
        rw [out_push, out_eta]
        show out w ++ slice e3.buf 0 (ej + 4) = out w ++ X
        suffices hX : slice e3.buf 0 (ej + 4) = X by rw [hX]
        rw [slice_append e3.buf 0 ej (ej + 4) (by omega) (by omega) (by omega)]
        have h4 : ej + 4 = ej + (be32 (crc32Spec body).toNat).length := rfl
        rw [h4, he3, slice_blit_same _ _ _ (by rw [length_be32, sz2]; omega)]
        rw [slice_blit_disj _ _ _ _ _ (by rw [length_be32, sz2]; omega) (by omega) (by omega)]
        rw [slice_append e2.buf 0 c ej (by omega) (by omega) (by omega), S2a, S2b, ← hbody]
      · simp only
        have := slice_blit_same e3 4 tagIDAT (by rw [sz3]; decide)
        exact this
      · simp only
        apply AdlerAt_blit _ _ _ _ sz3 (by decide)
        rw [he3]
        exact AdlerAt_blit _ _ _ _ sz2 (by rw [length_be32]; omega) A2
    · intro h; cases h
  | true =>
    rw [appendAdler_true e2 ej s' sz2 A2 (by omega)]
    simp only
    obtain ⟨e3, he3⟩ : ∃ x, x = e2.blit ej (adlerBytes s') := ⟨_, rfl⟩
    rw [← he3]
    have sz3 : e3.buf.size = 65536 := by rw [he3, Enc.blit_size, sz2]
    have oob3 : e3.oob = false := by
      rw [he3, Enc.blit_oob _ _ _ (by rw [length_adlerBytes, sz2]; omega), oob2]
    have hbody : body = slice e.buf c (ei - 5) ++ storedBlock true B ++ adlerBytes s' := by
      simp only [body, ↓reduceIte]
    have S3a : slice e3.buf 0 c = slice e.buf 0 c := by
      rw [he3, slice_blit_disj _ _ _ _ _ (by rw [length_adlerBytes, sz2]; omega) (by omega) (by omega), S2a]
    have S3b : slice e3.buf c (ej + 4) = body := by
      rw [slice_append e3.buf c ej (ej + 4) (by omega) (by omega) (by omega)]
      have h4 : ej + 4 = ej + (adlerBytes s').length := rfl
      rw [h4, he3, slice_blit_same _ _ _ (by rw [length_adlerBytes, sz2]; omega)]
      rw [slice_blit_disj _ _ _ _ _ (by rw [length_adlerBytes, sz2]; omega) (by omega) (by omega), S2b, hbody]
    rw [appendCRC_spec e3 c (ej + 4) (by omega) (by omega), S3b]
    obtain ⟨e4, he4⟩ : ∃ x, x = e3.blit (ej + 4) (be32 (crc32Spec body).toNat) := ⟨_, rfl⟩
    rw [← he4]
    have sz4 : e4.buf.size = 65536 := by rw [he4, Enc.blit_size, sz3]
    have oob4 : e4.oob = false := by
      rw [he4, Enc.blit_oob _ _ _ (by rw [length_be32, sz3]; omega), oob3]
    simp only
    obtain ⟨k1, k2, k3, k4, k5⟩ := emit_true e4 w (ej + 4 + 4) sz4 (by omega) hw
    refine ⟨k1, k4, k2, by rw [k3, oob4], u2, u3, ?_, ?_⟩
    · intro h; cases h
    · intro _
      rw [k5]
      suffices hX : slice e4.buf 0 (ej + 4 + 4) = X by rw [hX]
      rw [slice_append e4.buf 0 (ej + 4) (ej + 4 + 4) (by omega) (by omega) (by omega)]
      have h4 : ej + 4 + 4 = ej + 4 + (be32 (crc32Spec body).toNat).length := rfl
      rw [h4, he4, slice_blit_same _ _ _ (by rw [length_be32, sz3]; omega)]
      rw [slice_blit_disj _ _ _ _ _ (by rw [length_be32, sz3]; omega) (by omega) (by omega)]
      rw [slice_append e3.buf 0 c (ej + 4) (by omega) (by omega) (by omega), S3a, S3b]

def ihdrData (width height : Nat) (depth colorType : UInt8) : List UInt8 :=
  be32 width ++ be32 height ++ [depth, pngFileFormatEncoding colorType, 0, 0, 0]

/-- signature and IHDR chunk, the first 0x21 bytes of every output -/
def header (width height : Nat) (depth colorType : UInt8) : List UInt8 :=
  pngSignature ++ [0, 0, 0, 0x0D] ++ tagIHDR ++ ihdrData width height depth colorType
    ++ be32 (crc32Spec (tagIHDR ++ ihdrData width height depth colorType)).toNat

def zhdr : List UInt8 := [0x78, 0x01]

theorem length_pngSignature : pngSignature.length = 8 := rfl
theorem length_tagIHDR : tagIHDR.length = 4 := rfl
theorem length_tagIDAT : tagIDAT.length = 4 := rfl
theorem length_ihdrData (w h : Nat) (d c : UInt8) : (ihdrData w h d c).length = 13 := rfl
theorem length_header (w h : Nat) (d c : UInt8) : (header w h d c).length = 33 := rfl

theorem init_eq (e : Enc) (width height : Nat) (depth colorType : UInt8) (hsz : e.buf.size = 65536) :
    init e width height depth colorType =
      (e.blit 0 (header width height depth colorType ++ [0, 0, 0, 0] ++ tagIDAT ++ zhdr ++ [0, 0, 0, 0, 0])).blit
        0xFFFC [0, 0, 0, 1] := by
  unfold init
  have h1 : (((((e.blit 0 pngSignature).blit 8 [0, 0, 0, 13]).blit 12 tagIHDR).blit 16 (be32 width)).blit 20
      (be32 height)).blit 24 [depth, pngFileFormatEncoding colorType, 0, 0, 0]
      = e.blit 0 (pngSignature ++ [0, 0, 0, 0x0D] ++ tagIHDR ++ ihdrData width height depth colorType) := by
    simp only [ihdrData, Enc.blit_append, List.length_append, length_pngSignature, length_tagIHDR, length_be32,
      List.length_cons, List.length_nil, Nat.zero_add, Nat.reduceAdd]
  simp only [h1]
  have hc : crc32IEEE (e.blit 0 (pngSignature ++ [0, 0, 0, 0x0D] ++ tagIHDR ++ ihdrData width height depth colorType)).buf 12 29
      = crc32Spec (tagIHDR ++ ihdrData width height depth colorType) := by
    rw [crc32IEEE_spec _ _ _ (by omega) (by rw [Enc.blit_size]; omega)]
    have hl : (pngSignature ++ [0, 0, 0, 0x0D] ++ tagIHDR ++ ihdrData width height depth colorType).length = 29 := rfl
    rw [slice_blit_sub _ _ _ _ _ (by rw [hsz, hl]; omega) (by omega) (by omega) (by rw [hl]; omega)]
    rfl
  rw [hc]
  simp only [header, Enc.blit_append, List.length_append, length_pngSignature, length_tagIHDR, length_be32, length_tagIDAT,
      length_ihdrData, zhdr,
      List.length_cons, List.length_nil, Nat.zero_add, Nat.reduceAdd]

theorem adlerBytes_init : adlerBytes Adler.init = [0, 0, 0, 1] := by decide

/-- What `init` establishes, whatever the buffer held before (the frame lemma behind reuse):
signature+IHDR in `buf[0:0x21]`, `IDAT` and the zlib header in `buf[0x25:0x2B]`, the first-chunk
marker `buf[4] = 0x0D`, Adler state (1, 0) in `buf[0xFFFC:]`. -/
theorem init_spec (e : Enc) (width height : Nat) (depth colorType : UInt8) (hsz : e.buf.size = 65536) :
    (init e width height depth colorType).buf.size = 65536 ∧
    (init e width height depth colorType).oob = e.oob ∧
    rd (init e width height depth colorType).buf 4 = 0x0D ∧
    slice (init e width height depth colorType).buf 0 0x21 = header width height depth colorType ∧
    slice (init e width height depth colorType).buf 0x25 0x2B = tagIDAT ++ zhdr ∧
    AdlerAt (init e width height depth colorType).buf Adler.init := by
  rw [init_eq e width height depth colorType hsz]
  have hl : (header width height depth colorType ++ [0, 0, 0, 0] ++ tagIDAT ++ zhdr ++ [0, 0, 0, 0, 0]).length = 48 := rfl
  have sz1 : (e.blit 0 (header width height depth colorType ++ [0, 0, 0, 0] ++ tagIDAT ++ zhdr ++ [0, 0, 0, 0, 0])).buf.size = 65536 := by
    rw [Enc.blit_size, hsz]
  have hsub : ∀ a b, a ≤ b → b ≤ 48 →
      slice ((e.blit 0 (header width height depth colorType ++ [0, 0, 0, 0] ++ tagIDAT ++ zhdr ++ [0, 0, 0, 0, 0])).blit 0xFFFC [0, 0, 0, 1]).buf a b
        = ((header width height depth colorType ++ [0, 0, 0, 0] ++ tagIDAT ++ zhdr ++ [0, 0, 0, 0, 0]).drop (a - 0)).take (b - a) := by
    intro a b hab hb
    rw [slice_blit_disj _ _ _ _ _ (by rw [sz1]; decide) (by omega) (by omega)]
    rw [slice_blit_sub _ _ _ _ _ (by rw [hsz, hl]; omega) (by omega) hab (by rw [hl]; omega)]
  refine ⟨?_, ?_, ?_, ?_, ?_, ?_⟩
  · rw [Enc.blit_size, sz1]
  · rw [Enc.blit_oob _ _ _ (by rw [sz1]; decide), Enc.blit_oob _ _ _ (by rw [hsz, hl]; omega)]
  · have h := hsub 4 5 (by omega) (by omega)
    rw [slice_one _ _ (by rw [Enc.blit_size, sz1]; omega)] at h
    have h2 : ((header width height depth colorType ++ [0, 0, 0, 0] ++ tagIDAT ++ zhdr ++ [0, 0, 0, 0, 0]).drop (4 - 0)).take (5 - 4) = [0x0D] := rfl
    rw [h2] at h
    exact List.head_eq_of_cons_eq h
  · rw [hsub 0 0x21 (by omega) (by omega)]; rfl
  · rw [hsub 0x25 0x2B (by omega) (by omega)]; rfl
  · unfold AdlerAt
    rw [adlerBytes_init]
    exact slice_blit_same _ 0xFFFC [0, 0, 0, 1] (by rw [sz1]; decide)

/-- one IDAT chunk with the bit-serial CRC -/
def idatChunk (payload : List UInt8) : List UInt8 :=
  be32 payload.length ++ tagIDAT ++ payload ++ be32 (crc32Spec (tagIDAT ++ payload)).toNat

theorem rd4_of_tag (buf : Array UInt8) (hsz : buf.size = 65536) (h : slice buf 4 8 = tagIDAT) :
    rd buf 4 ≠ 0x0D := by
  rw [slice_cons _ _ _ (by omega) (by omega)] at h
  have := List.head_eq_of_cons_eq h
  rw [this]
  decide

theorem length_storedBlock (f : Bool) (B : List UInt8) : (storedBlock f B).length = 5 + B.length := by
  simp [storedBlock, length_storedHdr]

/-- `flush` when no IDAT has been written yet (`buf[4] == 0x0D`): signature + IHDR + first IDAT. -/
theorem flush_first (e : Enc) (w : Writer) (ej : Nat) (final : Bool) (s : Adler) (hdr : List UInt8)
    (hsz : e.buf.size = 65536) (hoob : e.oob = false) (hw : w.failAt = none)
    (h4 : rd e.buf 4 = 0x0D) (hH : slice e.buf 0 0x21 = hdr) (hT : slice e.buf 0x25 0x2B = tagIDAT ++ zhdr)
    (h1 : 0x30 ≤ ej) (h2 : ej ≤ 65528)
    (hA : AdlerAt e.buf s) (ha : s.a < 65521) (hb : s.b < 65521) :
    let B := slice e.buf 0x30 ej
    let s' := s.update B
    let X := hdr ++ idatChunk (zhdr ++ storedBlock final B ++ (if final then adlerBytes s' else []))
    let r := flush e w ej final
    r.ok = true ∧ r.w.failAt = none ∧ r.e.buf.size = 65536 ∧ r.e.oob = false ∧
    s'.a < 65521 ∧ s'.b < 65521 ∧
    (final = false → out r.w = out w ++ X ∧ slice r.e.buf 4 8 = tagIDAT ∧ AdlerAt r.e.buf s') ∧
    (final = true → out r.w = out w ++ X ++ iendChunk) := by
  intro B s' X
  have hB : B.length = ej - 0x30 := length_slice _ _ _ (by omega)
  obtain ⟨L, hL⟩ : ∃ L, L = ej - 0x29 + (if final = true then 4 else 0) := ⟨_, rfl⟩
  have hfl : flush e w ej final = flushTail (e.blit 0x21 (be32 L)) w ej final 0x25 eiFirst := by
    unfold flush
    simp only [h4, beq_self_eq_true, ↓reduceIte, hL]
  obtain ⟨e0, he0⟩ : ∃ x, x = e.blit 0x21 (be32 L) := ⟨_, rfl⟩
  have sz0 : e0.buf.size = 65536 := by rw [he0, Enc.blit_size, hsz]
  have oob0 : e0.oob = false := by rw [he0, Enc.blit_oob _ _ _ (by rw [length_be32, hsz]; omega), hoob]
  have A0 : AdlerAt e0.buf s := by rw [he0]; exact AdlerAt_blit _ _ _ _ hsz (by rw [length_be32]; omega) hA
  have B0 : slice e0.buf 0x30 ej = B := by
    rw [he0, slice_blit_disj _ _ _ _ _ (by rw [length_be32, hsz]; omega) (by omega) (by rw [length_be32]; omega)]
  have T0 : slice e0.buf 0x25 0x2B = tagIDAT ++ zhdr := by
    rw [he0, slice_blit_disj _ _ _ _ _ (by rw [length_be32, hsz]; omega) (by omega) (by rw [length_be32]; omega), hT]
  have H0 : slice e0.buf 0 0x25 = hdr ++ be32 L := by
    rw [slice_append e0.buf 0 0x21 0x25 (by omega) (by omega) (by omega)]
    have : (0x25 : Nat) = 0x21 + (be32 L).length := rfl
    rw [this, he0, slice_blit_same _ _ _ (by rw [length_be32, hsz]; omega)]
    rw [slice_blit_disj _ _ _ _ _ (by rw [length_be32, hsz]; omega) (by omega) (by omega), hH]
  have key := flushTail_spec e0 w ej final 0x25 eiFirst s sz0 oob0 hw (by decide) (by simp only [eiFirst]; omega) h2 A0 ha hb
  simp only [eiFirst, Nat.reduceSub] at key
  rw [B0, T0, H0] at key
  rw [hfl, ← he0]
  obtain ⟨k1, k2, k3, k4, k5, k6, k7, k8⟩ := key
  have hX : hdr ++ be32 L ++ (tagIDAT ++ zhdr ++ storedBlock final B ++ if final = true then adlerBytes (s.update B) else []) ++
        be32 (crc32Spec (tagIDAT ++ zhdr ++ storedBlock final B ++ if final = true then adlerBytes (s.update B) else [])).toNat
      = X := by
    have hlen : (zhdr ++ storedBlock final B ++ if final = true then adlerBytes (s.update B) else []).length = L := by
      cases final <;> simp [zhdr, length_storedBlock, length_adlerBytes, hB, hL] <;> omega
    simp only [X, idatChunk, s']
    rw [hlen]
    simp only [List.append_assoc]
  rw [hX] at k7 k8
  exact ⟨k1, k2, k3, k4, k5, k6, k7, k8⟩

/-- `flush` after the first IDAT (`buf[4] == 'I'`): one more IDAT chunk. -/
theorem flush_later (e : Enc) (w : Writer) (ej : Nat) (final : Bool) (s : Adler)
    (hsz : e.buf.size = 65536) (hoob : e.oob = false) (hw : w.failAt = none)
    (hT : slice e.buf 4 8 = tagIDAT)
    (h1 : 0xD ≤ ej) (h2 : ej ≤ 65528)
    (hA : AdlerAt e.buf s) (ha : s.a < 65521) (hb : s.b < 65521) :
    let B := slice e.buf 0xD ej
    let s' := s.update B
    let X := idatChunk (storedBlock final B ++ (if final then adlerBytes s' else []))
    let r := flush e w ej final
    r.ok = true ∧ r.w.failAt = none ∧ r.e.buf.size = 65536 ∧ r.e.oob = false ∧
    s'.a < 65521 ∧ s'.b < 65521 ∧
    (final = false → out r.w = out w ++ X ∧ slice r.e.buf 4 8 = tagIDAT ∧ AdlerAt r.e.buf s') ∧
    (final = true → out r.w = out w ++ X ++ iendChunk) := by
  intro B s' X
  have h4 := rd4_of_tag _ hsz hT
  have hB : B.length = ej - 0xD := length_slice _ _ _ (by omega)
  obtain ⟨L, hL⟩ : ∃ L, L = ej - 0x8 + (if final = true then 4 else 0) := ⟨_, rfl⟩
  have hfl : flush e w ej final = flushTail (e.blit 0 (be32 L)) w ej final 0x4 eiLater := by
    unfold flush
    have : (rd e.buf 4 == 13) = false := by simpa using h4
    simp only [this, Bool.false_eq_true, ↓reduceIte, hL]
  obtain ⟨e0, he0⟩ : ∃ x, x = e.blit 0 (be32 L) := ⟨_, rfl⟩
  have sz0 : e0.buf.size = 65536 := by rw [he0, Enc.blit_size, hsz]
  have oob0 : e0.oob = false := by rw [he0, Enc.blit_oob _ _ _ (by rw [length_be32, hsz]; omega), hoob]
  have A0 : AdlerAt e0.buf s := by rw [he0]; exact AdlerAt_blit _ _ _ _ hsz (by rw [length_be32]; omega) hA
  have B0 : slice e0.buf 0xD ej = B := by
    rw [he0, slice_blit_disj _ _ _ _ _ (by rw [length_be32, hsz]; omega) (by omega) (by rw [length_be32]; omega)]
  have T0 : slice e0.buf 4 8 = tagIDAT := by
    rw [he0, slice_blit_disj _ _ _ _ _ (by rw [length_be32, hsz]; omega) (by omega) (by rw [length_be32]; omega), hT]
  have H0 : slice e0.buf 0 4 = be32 L := by
    have : (4 : Nat) = 0 + (be32 L).length := rfl
    rw [this, he0, slice_blit_same _ _ _ (by rw [length_be32, hsz]; omega)]
  have key := flushTail_spec e0 w ej final 0x4 eiLater s sz0 oob0 hw (by decide) (by simp only [eiLater]; omega) h2 A0 ha hb
  simp only [eiLater, Nat.reduceSub] at key
  rw [B0, T0, H0] at key
  rw [hfl, ← he0]
  obtain ⟨k1, k2, k3, k4, k5, k6, k7, k8⟩ := key
  have hX : be32 L ++ (tagIDAT ++ storedBlock final B ++ if final = true then adlerBytes (s.update B) else []) ++
        be32 (crc32Spec (tagIDAT ++ storedBlock final B ++ if final = true then adlerBytes (s.update B) else [])).toNat
      = X := by
    have hlen : (storedBlock final B ++ if final = true then adlerBytes (s.update B) else []).length = L := by
      cases final <;> simp [length_storedBlock, length_adlerBytes, hB, hL] <;> omega
    simp only [X, idatChunk, s']
    rw [hlen]
    simp only [List.append_assoc]
  rw [hX] at k7 k8
  exact ⟨k1, k2, k3, k4, k5, k6, k7, k8⟩

end WuffsVerif.Png.Uncomp
