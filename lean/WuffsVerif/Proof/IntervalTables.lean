/-
C06: obligations on the values regenerated from lib/interval's package-level state
(`Gen/C06_Tables.lean`), and the consequence the proofs use: the table-driven `bitMask` of the
model is `2^max(n0,n1) - 1`.
-/
import WuffsVerif.Model.Interval

namespace WuffsVerif.Interval
open WuffsVerif.Gen.C06

/-- OBLIGATION on the regenerated table: entry `n` of `smallBitMasks` is `2^n - 1`. -/
theorem smallBitMasks_table :
    smallBitMasks = (List.range smallBitMasks.length).map (fun n => (2 : Int) ^ n - 1) := by
  decide

/-- entry-wise form -/
theorem smallBitMasks_entry (n : Nat) (m : Int) (h : smallBitMasks[n]? = some m) :
    m = (2 : Int) ^ n - 1 := by
  rw [smallBitMasks_table] at h
  rw [List.getElem?_map] at h
  cases hr : (List.range smallBitMasks.length)[n]? with
  | none => rw [hr] at h; simp at h
  | some k =>
    rw [hr] at h
    simp only [Option.map_some, Option.some.injEq] at h
    have : k = n := by
      rw [List.getElem?_eq_some_iff] at hr
      obtain ⟨hlt, he⟩ := hr
      rw [List.getElem_range] at he
      exact he.symm
    subst this
    exact h.symm

/-- OBLIGATION: the package-level `one`, `minusOne`, `sharedEmptyRange` and what
`makeEmptyRange()` returns are the values the model uses (`mkEmpty`). -/
theorem shared_values :
    one = 1 ∧ minusOne = -1 ∧
    (⟨some sharedEmptyRange.1, some sharedEmptyRange.2⟩ : IR) = mkEmpty ∧
    (⟨some makeEmptyRange.1, some makeEmptyRange.2⟩ : IR) = mkEmpty := by
  decide

/-- the table lookup of `bitMask` is invisible: `bitMask n0 n1 = 2^max(n0,n1) - 1`. -/
theorem bitMask_eq (n0 n1 : Nat) : bitMask n0 n1 = (2 : Int) ^ (max n0 n1) - 1 := by
  have hmax : (if n0 < n1 then n1 else n0) = max n0 n1 := by
    split <;> omega
  unfold bitMask
  simp only [hmax]
  cases h : smallBitMasks[max n0 n1]? with
  | none => rfl
  | some m => exact smallBitMasks_entry _ _ h

end WuffsVerif.Interval
