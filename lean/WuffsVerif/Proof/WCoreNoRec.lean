/-
`checkNoRecursiveFuncs` model: accepted ⇒ the call graph has no cycle.
-/
import WuffsVerif.Model.WCore.NoRec

namespace WuffsVerif.Proof.WCoreNoRec
open WuffsVerif.WCore.NoRec

/-- one or more call steps -/
inductive Reach (g : Graph) : Nat → Nat → Prop
  | step {n c : Nat} : c ∈ callees g n → Reach g n c
  | trans {n k m : Nat} : Reach g n k → Reach g k m → Reach g n m

/-- `P` (newest first) is a reverse topological order: the callees of every element
occur strictly later in the list (= were finished earlier) -/
def Topo (g : Graph) (P : List Nat) : Prop :=
  ∀ a n b, P = a ++ n :: b → ∀ c ∈ callees g n, c ∈ b

theorem topo_nil (g : Graph) : Topo g [] := by
  intro a n b h; cases a <;> simp at h

theorem topo_cons {g : Graph} {n : Nat} {P : List Nat} (hP : Topo g P)
    (hc : ∀ c ∈ callees g n, c ∈ P) : Topo g (n :: P) := by
  intro a m b h c hcm
  cases a with
  | nil =>
    simp only [List.nil_append, List.cons.injEq] at h
    obtain ⟨rfl, rfl⟩ := h
    exact hc c hcm
  | cons x a' =>
    simp only [List.cons_append, List.cons.injEq] at h
    exact hP a' m b h.2 c hcm

theorem visit_visitList_spec (g : Graph) :
    ∀ fuel,
      (∀ n temp perm perm', Topo g perm → visit g fuel n temp perm = some perm' →
        Topo g perm' ∧ n ∈ perm' ∧ ∃ pre, perm' = pre ++ perm) ∧
      (∀ cs temp perm perm', Topo g perm → visitList g fuel cs temp perm = some perm' →
        Topo g perm' ∧ (∀ c ∈ cs, c ∈ perm') ∧ ∃ pre, perm' = pre ++ perm) := by
  intro fuel
  induction fuel with
  | zero =>
    constructor
    · intro n temp perm perm' _ h; simp [visit] at h
    · intro cs temp perm perm' hT h
      cases cs with
      | nil => simp [visitList] at h; subst h; exact ⟨hT, by simp, [], rfl⟩
      | cons c cs => simp [visitList] at h
  | succ fuel ih =>
    obtain ⟨ihv, ihl⟩ := ih
    constructor
    · intro n temp perm perm' hT h
      simp only [visit] at h
      split at h
      · cases h
      · split at h
        · rename_i hp
          cases h
          exact ⟨hT, by simpa using hp, [], rfl⟩
        · split at h
          · cases h
          · rename_i p1 h1
            cases h
            obtain ⟨hT1, hc1, pre, hpre⟩ := ihl _ _ _ _ hT h1
            exact ⟨topo_cons hT1 hc1, by simp, n :: pre, by simp [hpre]⟩
    · intro cs temp perm perm' hT h
      cases cs with
      | nil => simp [visitList] at h; subst h; exact ⟨hT, by simp, [], rfl⟩
      | cons c cs =>
        simp only [visitList] at h
        split at h
        · cases h
        · rename_i p1 h1
          obtain ⟨hT1, hc1, pre1, hpre1⟩ := ihv _ _ _ _ hT h1
          obtain ⟨hT2, hc2, pre2, hpre2⟩ := ihl _ _ _ _ hT1 h
          refine ⟨hT2, ?_, pre2 ++ pre1, by simp [hpre2, hpre1]⟩
          intro x hx
          simp only [List.mem_cons] at hx
          rcases hx with rfl | hx
          · rw [hpre2]; exact List.mem_append_right _ hc1
          · exact hc2 x hx

theorem visitAll_spec (g : Graph) (fuel : Nat) :
    ∀ ns perm perm', Topo g perm → visitAll g fuel ns perm = some perm' →
      Topo g perm' ∧ (∀ n ∈ ns, n ∈ perm') ∧ ∃ pre, perm' = pre ++ perm := by
  intro ns
  induction ns with
  | nil => intro perm perm' hT h; simp [visitAll] at h; subst h; exact ⟨hT, by simp, [], rfl⟩
  | cons n ns ih =>
    intro perm perm' hT h
    simp only [visitAll] at h
    split at h
    · cases h
    · rename_i p1 h1
      obtain ⟨hT1, hn1, pre1, hpre1⟩ := (visit_visitList_spec g fuel).1 _ _ _ _ hT h1
      obtain ⟨hT2, hn2, pre2, hpre2⟩ := ih _ _ hT1 h
      refine ⟨hT2, ?_, pre2 ++ pre1, by simp [hpre2, hpre1]⟩
      intro x hx
      simp only [List.mem_cons] at hx
      rcases hx with rfl | hx
      · rw [hpre2]; exact List.mem_append_right _ hn1
      · exact hn2 x hx

/-- in a reverse topological order everything reachable from `n` lies strictly after `n` -/
theorem reach_after {g : Graph} {P : List Nat} (hT : Topo g P) {n m : Nat} (hr : Reach g n m) :
    ∀ a b, P = a ++ n :: b → m ∈ b := by
  induction hr with
  | step hc => intro a b h; exact hT a _ b h _ hc
  | @trans n' k' m' _ _ ih1 ih2 =>
    intro a b h
    have hk := ih1 a b h
    obtain ⟨a2, b2, hb⟩ := List.append_of_mem hk
    have := ih2 (a ++ n' :: a2) b2 (by rw [h, hb]; simp)
    rw [hb]
    exact List.mem_append_right _ (List.mem_cons_of_mem _ this)

theorem no_cycle_in_topo {g : Graph} {P : List Nat} (hT : Topo g P) {n : Nat}
    (hr : Reach g n n) : ∀ k a b, P = a ++ n :: b → b.length ≤ k → False := by
  intro k
  induction k with
  | zero =>
    intro a b h hl
    have := reach_after hT hr a b h
    cases b with
    | nil => simp at this
    | cons x xs => simp at hl
  | succ k ih =>
    intro a b h hl
    have hm := reach_after hT hr a b h
    obtain ⟨a2, b2, hb⟩ := List.append_of_mem hm
    apply ih (a ++ n :: a2) b2 (by rw [h, hb]; simp)
    have : b.length = a2.length + (b2.length + 1) := by rw [hb]; simp
    omega

theorem reach_has_callee {g : Graph} {n m : Nat} (hr : Reach g n m) : callees g n ≠ [] := by
  induction hr with
  | step hc => intro h; rw [h] at hc; cases hc
  | trans _ _ ih1 _ => exact ih1

theorem callees_out_of_range {g : Graph} {n : Nat} (h : g.length ≤ n) : callees g n = [] := by
  simp [callees, List.getD, List.getElem?_eq_none h]

end WuffsVerif.Proof.WCoreNoRec
