/-
C13: every loop of `rac.Writer` changes its ChunkWriter only through `AddResource`/`AddChunk` (`WStep`).
-/
import WuffsVerif.Proof.RacDataJ
import WuffsVerif.Proof.RacWriter
namespace WuffsVerif.Rac
open Spec

/-- `w'` comes from `w` by some `AddResource`/`AddChunk` calls on its ChunkWriter (stated as: every
ChunkWriter predicate closed under those two holds afterwards), with `inited` unchanged -/
structure WStep (cw : CodecW) (w w' : Writer) : Prop where
  inited : w'.inited = w.inited
  cw : ∀ P : CW → Prop, (∀ c r, P c → P (c.addResource r).1) →
    (∀ c d k p s t, (∃ a b rs out, cw.compress a b rs = .ok out ∧ out.codec = k) → P c →
      P (c.addChunk d k p s t).1) → P w.chunkWriter → P w'.chunkWriter

theorem WStep.refl (cw : CodecW) (w : Writer) : WStep cw w w := ⟨rfl, fun _ _ _ h => h⟩
theorem WStep.trans {cw : CodecW} {a b c : Writer} (h1 : WStep cw a b) (h2 : WStep cw b c) : WStep cw a c :=
  ⟨by rw [h2.inited, h1.inited], fun P hr hc h => h2.cw P hr hc (h1.cw P hr hc h)⟩
theorem WStep.of_eq {cw : CodecW} {w w' : Writer} (h1 : w'.inited = w.inited) (h2 : w'.chunkWriter = w.chunkWriter) : WStep cw w w' :=
  ⟨h1, fun _ _ _ h => by rw [h2]; exact h⟩

theorem Writer.useResource_step (cw : CodecW) (w : Writer) (i : Int) : WStep cw w (Writer.useResource cw w i).1 := by
  unfold Writer.useResource
  simp only
  split
  · exact WStep.refl cw w
  · split
    · exact WStep.refl cw w
    · split
      · exact WStep.of_eq rfl rfl
      · rename_i wrapped hw
        have key : ∀ P : CW → Prop, (∀ c r, P c → P (c.addResource r).1) → P w.chunkWriter →
            P (w.chunkWriter.addResource wrapped).1 := fun P hr h => hr _ _ h
        generalize w.chunkWriter.addResource wrapped = ar at key ⊢
        obtain ⟨c, id, e⟩ := ar
        cases e with
        | some e => exact ⟨rfl, fun P hr _ h => key P hr h⟩
        | none => exact ⟨rfl, fun P hr _ h => key P hr h⟩

theorem Writer.compressAndUse_step (cw : CodecW) (w : Writer) (p0 p1 : Bytes) :
    WStep cw w (Writer.compressAndUse cw w p0 p1).1 := by
  unfold Writer.compressAndUse
  simp only
  split
  · exact WStep.refl cw w
  · rename_i out hc
    have h1 := Writer.useResource_step cw w out.secondaryResource
    generalize Writer.useResource cw w out.secondaryResource = u1 at *
    obtain ⟨w1, res2, e1⟩ := u1
    simp only at h1 ⊢
    cases e1 with
    | some e => exact h1
    | none =>
      simp only
      have h2 := Writer.useResource_step cw w1 out.tertiaryResource
      generalize Writer.useResource cw w1 out.tertiaryResource = u2 at *
      obtain ⟨w2, res3, e2⟩ := u2
      simp only at h2 ⊢
      cases e2 with
      | some e => exact h1.trans h2
      | none => exact h1.trans h2

theorem WStep.addChunk {cw : CodecW} {w w1 : Writer} (h : WStep cw w w1) (d k : Nat) (p : Bytes) (s t : Nat)
    (hk : ∃ a b rs out, cw.compress a b rs = .ok out ∧ out.codec = k) (w2 : Writer)
    (hi : w2.inited = w1.inited) (hc : w2.chunkWriter = (w1.chunkWriter.addChunk d k p s t).1) : WStep cw w w2 :=
  ⟨by rw [hi, h.inited], fun P hr hch h0 => by rw [hc]; exact hch _ _ _ _ _ _ hk (h.cw P hr hch h0)⟩

theorem Writer.compressAndUse_ok_compress (cw : CodecW) (w : Writer) (p0 p1 : Bytes) (out : CompressOut) (r2 r3 : Nat)
    (h : (Writer.compressAndUse cw w p0 p1).2 = .ok (out, r2, r3)) :
    ∃ a b rs o, cw.compress a b rs = .ok o ∧ o.codec = out.codec :=
  ⟨p0, p1, w.resourcesData, out, (Writer.compressAndUse_frame cw w p0 p1).2.2.2.2.2.2 out r2 r3 h, rfl⟩

theorem Writer.writeDChunks_step (cw : CodecW) (eof : Bool) (fuel : Nat) :
    ∀ w : Writer, WStep cw w (Writer.writeDChunks cw eof fuel w).1 := by
  induction fuel with
  | zero => intro w; exact WStep.refl cw w
  | succ f ih =>
    intro w
    unfold Writer.writeDChunks
    simp only
    generalize w.uncompressed.peek w.dChunkSize = pk
    obtain ⟨peek0, peek1⟩ := pk
    simp only
    split
    · exact WStep.refl cw w
    · split
      · exact WStep.refl cw w
      · have hc := Writer.compressAndUse_step cw w
          (if (stripTrailingZeroes peek1).length == 0 then stripTrailingZeroes peek0 else peek0)
          (stripTrailingZeroes peek1)
        have hk := Writer.compressAndUse_ok_compress cw w
          (if (stripTrailingZeroes peek1).length == 0 then stripTrailingZeroes peek0 else peek0)
          (stripTrailingZeroes peek1)
        generalize Writer.compressAndUse cw w
          (if (stripTrailingZeroes peek1).length == 0 then stripTrailingZeroes peek0 else peek0)
          (stripTrailingZeroes peek1) = cu at *
        obtain ⟨w1, r⟩ := cu
        cases r with
        | error e => exact hc
        | ok v =>
          obtain ⟨out, res2, res3⟩ := v
          simp only at hc ⊢
          have hstep := fun (w2 : Writer) hi hcc =>
            WStep.addChunk hc (peek0.length + peek1.length) out.codec out.compressed res2 res3 (hk out res2 res3 rfl) w2 hi hcc
          generalize w1.chunkWriter.addChunk (peek0.length + peek1.length) out.codec out.compressed res2 res3 = ac at *
          obtain ⟨c, e⟩ := ac
          cases e with
          | some e => exact hstep _ rfl rfl
          | none =>
            simp only
            exact (hstep { w1 with chunkWriter := c, uncompressed := w1.uncompressed.advance (peek0.length + peek1.length) } rfl rfl).trans (ih _)

theorem Writer.tryCChunk_step (cw : CodecW) (w : Writer) (target : Nat) (force : Bool) :
    WStep cw w (Writer.tryCChunk cw w target force).1 := by
  unfold Writer.tryCChunk
  simp only
  generalize w.uncompressed.peek target = pk
  obtain ⟨peek0, peek1⟩ := pk
  simp only
  have hc := Writer.compressAndUse_step cw w peek0 peek1
  have hk := Writer.compressAndUse_ok_compress cw w peek0 peek1
  generalize Writer.compressAndUse cw w peek0 peek1 = cu at *
  obtain ⟨w1, r⟩ := cu
  cases r with
  | error e => exact hc
  | ok v =>
    obtain ⟨out, res2, res3⟩ := v
    simp only at hc ⊢
    have hk' := hk out res2 res3 rfl
    split
    · exact hc
    · split
      · generalize hac : w1.chunkWriter.addChunk _ out.codec out.compressed res2 res3 = ac
        obtain ⟨c, e⟩ := ac
        cases e with
        | some e => exact WStep.addChunk hc _ _ _ _ _ hk' _ rfl (by rw [hac])
        | none => exact WStep.addChunk hc _ _ _ _ _ hk' _ rfl (by rw [hac])
      · split
        · exact hc.trans (WStep.of_eq rfl rfl)
        · rename_i cb el dl hcut
          split
          · exact hc.trans (WStep.of_eq rfl rfl)
          · generalize hac : w1.chunkWriter.addChunk _ out.codec (cb.take el) res2 res3 = ac
            obtain ⟨c, e⟩ := ac
            cases e with
            | some e => exact WStep.addChunk hc _ _ _ _ _ hk' _ rfl (by rw [hac])
            | none => exact WStep.addChunk hc _ _ _ _ _ hk' _ rfl (by rw [hac])

theorem Writer.cChunkInner_step (cw : CodecW) (fuel : Nat) :
    ∀ (w : Writer) (t : Nat), WStep cw w (Writer.cChunkInner cw fuel w t).1 := by
  induction fuel with
  | zero => intro w t; exact WStep.refl cw w
  | succ f ih =>
    intro w t
    unfold Writer.cChunkInner
    simp only
    have ht := Writer.tryCChunk_step cw w t
      (decide ((if t * 2 > maxTargetDChunkSize then maxTargetDChunkSize else t * 2) ≤ t))
    generalize Writer.tryCChunk cw w t
      (decide ((if t * 2 > maxTargetDChunkSize then maxTargetDChunkSize else t * 2) ≤ t)) = tr at *
    obtain ⟨w1, r⟩ := tr
    cases r with
    | ok => exact ht
    | err e => exact ht
    | short =>
      simp only
      split
      · exact ht
      · exact ht.trans (ih _ _)

theorem Writer.writeCChunks_step (cw : CodecW) (eof : Bool) (fuel : Nat) :
    ∀ w : Writer, WStep cw w (Writer.writeCChunks cw eof fuel w).1 := by
  induction fuel with
  | zero => intro w; exact WStep.refl cw w
  | succ f ih =>
    intro w
    unfold Writer.writeCChunks
    simp only
    by_cases hn : (w.uncompressed.length == 0) = true
    · rw [if_pos hn]; exact WStep.refl cw w
    · rw [if_neg hn]
      generalize (if (!eof) = true then startingTargetDChunkSize w.cChunkSize else maxTargetDChunkSize) = tg
      by_cases h2 : (!eof && decide (w.uncompressed.length < tg)) = true
      · rw [if_pos h2]; exact WStep.refl cw w
      · rw [if_neg h2]
        have hi := Writer.cChunkInner_step cw 64 w tg
        generalize Writer.cChunkInner cw 64 w tg = ci at *
        obtain ⟨w1, r⟩ := ci
        cases r with
        | continueOuter => simp only; exact hi.trans (ih _)
        | ret e => exact hi

theorem Writer.write_step (cw : CodecW) (w : Writer) (eof : Bool) : WStep cw w (Writer.write cw w eof).1 := by
  unfold Writer.write
  split
  · exact Writer.writeDChunks_step cw eof _ w
  · exact Writer.writeCChunks_step cw eof _ w
end WuffsVerif.Rac
