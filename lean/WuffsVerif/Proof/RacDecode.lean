/-
C13: from the chunk list the reader extracts to the decoded bytes: `chunks_of_placed`, `tiles_of_matches`,
`decode_of_matches`.
-/
import WuffsVerif.Proof.RacFindRoot
namespace WuffsVerif.Rac
open Spec

/-- the reader's chunk list for a file in which the tree is placed and whose root it finds -/
theorem chunks_of_placed (file : Array UInt8) (nw : NodeWriter) (hfs : file.size = nw.cFileSize)
    (d : Nat) (cs : List WNode) (rs : List Nat) (col s t c rootOff : Nat) (hne : cs ≠ [])
    (hpl : Placed file nw (.mk d cs rs col s t c))
    (hroot : findRoot file = .ok (parsedBranch nw cs rs c rootOff 0 0))
    (hfuel : iszNode (.mk d cs rs col s t c) ≤ walkFuel file) :
    Spec.chunks file = .ok (d, chunksOfNode nw (.mk d cs rs col s t c) 0) := by
  have hw := walk_tree file nw hfs (.mk d cs rs col s t c) 0 d cs rs col s t c rfl hne hpl rootOff
    (walkFuel file) [] hfuel
  unfold Spec.chunks
  rw [hroot]
  simp only [hw, List.append_nil, List.reverse_reverse]
  simp only [Placed] at hpl
  rcases hpl.2 with h | ⟨ok, _, hd, _⟩
  · exact absurd h hne
  · rw [pb_dPtrMax nw cs rs c ok rootOff 0 0, hd]

/-- the chunks tile `[p, p + Σ sizes)` -/
theorem tiles_of_matches (nw : NodeWriter) (c : Nat) : ∀ (chs : List Chunk) (os : List WNode) (p : Nat),
    Matches nw c chs os p → (∀ o ∈ os, o.dRangeSize > 0) →
    tiles p chs (p + (os.map WNode.dRangeSize).sum) = true := by
  intro chs
  induction chs with
  | nil =>
    intro os p hm _
    cases os with
    | nil => simp [tiles]
    | cons _ _ => simp [Matches] at hm
  | cons ch chs ih =>
    intro os p hm hpos
    cases os with
    | nil => simp [Matches] at hm
    | cons o os =>
      simp only [Matches, ChunkFor] at hm
      obtain ⟨⟨h1, _⟩, hrest⟩ := hm
      have hp := hpos o (by simp)
      have := ih os (p + o.dRangeSize) hrest (fun x hx => hpos x (by simp [hx]))
      simp only [tiles, h1, beq_self_eq_true, Bool.true_and, List.map_cons, List.sum_cons]
      rw [← Nat.add_assoc, this]
      simp; omega

/-- `Covers`, oldest chunk first -/
inductive CoversF (D : Bytes → Option Bytes) : List ChunkRec → Bytes → Prop where
  | nil : CoversF D [] []
  | cons {r : ChunkRec} {rest : List ChunkRec} {data dd : Bytes} {k : Nat} :
      D r.primary = some dd → dd.length + k = r.dRangeSize → CoversF D rest data →
      CoversF D (r :: rest) ((dd ++ List.replicate k 0) ++ data)

theorem CoversF.snoc {D : Bytes → Option Bytes} {l : List ChunkRec} {x : Bytes} (h : CoversF D l x)
    {r : ChunkRec} {dd : Bytes} {k : Nat} (h1 : D r.primary = some dd) (h2 : dd.length + k = r.dRangeSize) :
    CoversF D (l ++ [r]) (x ++ (dd ++ List.replicate k 0)) := by
  induction h with
  | nil => simpa using CoversF.cons h1 h2 CoversF.nil
  | cons a b _ ih => simpa [List.append_assoc] using CoversF.cons a b ih

theorem covers_toF {D : Bytes → Option Bytes} {log : List ChunkRec} {data : Bytes} (h : Covers D log data) :
    CoversF D log.reverse data := by
  induction h with
  | nil => exact CoversF.nil
  | cons _ h1 h2 ih => simpa using ih.snoc h1 h2

theorem calcCLength_covers (n : Nat) (h : calcCLength n ≠ 0) : n ≤ calcCLength n * 1024 := by
  unfold calcCLength at h ⊢
  by_cases h0 : (n == 0) = true
  · have : n = 0 := by simpa using h0
    subst this; simp
  · simp only [h0, Bool.false_eq_true, ↓reduceIte] at h ⊢
    have hn : n ≠ 0 := by simpa using h0
    by_cases hgt : (n - 1) >>> 10 + 1 > 255
    · rw [if_pos hgt] at h; exact absurd rfl h
    · rw [if_neg hgt, Nat.shiftRight_eq_div_pow]
      omega

/-- decoding the reader's chunks gives back what the accepted chunks cover -/
theorem decode_of_matches (file : Array UInt8) (nw : NodeWriter) (c : Nat) (D : Bytes → Option Bytes)
    (hD : ∀ a b d, D a = some d → D (a ++ b) = some d) (hc0 : c ≠ 0) (hc63 : c ≠ 2 ^ 63)
    (S pre post : Bytes) (hfile : file.toList = pre ++ S ++ post) (hpre : pre.length = nw.dataCOffset)
    (hfs : file.size = nw.cFileSize) (hS : S.length < 2 ^ 48) :
    ∀ (chs : List Chunk) (os : List WNode) (recs : List ChunkRec) (p : Nat) (data : Bytes) (acc : List Bytes),
      Matches nw c chs os p → LeafLog S os recs → CoversF D recs data →
      ∃ acc', decodeChunks file (fun _ p _ _ => D p) chs acc = .ok acc' ∧
        acc'.reverse.flatten = acc.reverse.flatten ++ data := by
  intro chs
  induction chs with
  | nil =>
    intro os recs p data acc hm hl hc
    cases os with
    | cons _ _ => simp [Matches] at hm
    | nil =>
      cases recs with
      | cons _ _ => simp [LeafLog] at hl
      | nil =>
        cases hc
        exact ⟨acc, by simp [decodeChunks], by simp⟩
  | cons ch chs ih =>
    intro os recs p data acc hm hl hc
    cases os with
    | nil => simp [Matches] at hm
    | cons o os =>
      cases recs with
      | nil => simp [LeafLog] at hl
      | cons r recs =>
        simp only [Matches, ChunkFor] at hm
        obtain ⟨⟨m1, m2, m3, m4, _, _⟩, mrest⟩ := hm
        simp only [LeafLog] at hl
        obtain ⟨⟨l1, l2, l3, l4, l5, off, l6, l7, l8⟩, lrest⟩ := hl
        cases hc with
        | cons c1 c2 c3 =>
          rename_i data' dd k
          have hoff : off < 2 ^ 48 := by omega
          have hcf := col_fields off r.primary.length hoff
          rw [← l8] at hcf
          have hclen : o.cOffsetCLength / 2 ^ 48 = calcCLength r.primary.length := by
            rw [l8, or_shift_eq_add _ _ _ hoff]
            have := calcCLength_le r.primary.length
            omega
          rw [hcf.2] at m3 m4
          rw [hclen] at m4
          -- the bytes of the primary CRange
          have hsz : file.size = pre.length + S.length + post.length := by
            have := congrArg List.length hfile
            simp [List.length_append] at this; omega
          have hhi : ch.cPrimary.lo + r.primary.length ≤ ch.cPrimary.hi := by
            rw [m3, m4]
            by_cases hz : calcCLength r.primary.length = 0
            · rw [if_pos hz]; omega
            · rw [if_neg hz]
              have := calcCLength_covers _ hz
              rw [Nat.min_def]; split <;> omega
          have hget : ∃ extra, (file.extract ch.cPrimary.lo ch.cPrimary.hi).toList = r.primary ++ extra := by
            have e1 : (file.extract ch.cPrimary.lo ch.cPrimary.hi).toList =
                (file.toList.drop ch.cPrimary.lo).take (ch.cPrimary.hi - ch.cPrimary.lo) := by simp
            have e2 : file.toList.drop ch.cPrimary.lo = S.drop off ++ post := by
              rw [hfile, m3, ← hpre, List.append_assoc, Nat.add_comm off, List.drop_append,
                List.drop_of_length_le (by omega), List.nil_append, Nat.add_sub_cancel_left,
                List.drop_append_of_le_length (by omega)]
            have e3 : ch.cPrimary.hi - ch.cPrimary.lo =
                r.primary.length + (ch.cPrimary.hi - ch.cPrimary.lo - r.primary.length) := by omega
            rw [e1, e2, e3, List.take_add]
            refine ⟨((S.drop off ++ post).drop r.primary.length).take (ch.cPrimary.hi - ch.cPrimary.lo - r.primary.length), ?_⟩
            congr 1
            rw [List.take_append_of_le_length (by simp; omega)]
            exact l7
          obtain ⟨extra, hextra⟩ := hget
          have hsize : ch.dRange.hi - ch.dRange.lo = r.dRangeSize := by rw [m1, ← l1]; simp
          unfold decodeChunks
          simp only [m2]
          have hcc : (c == 0 || c == 2 ^ 63) = false := by simp [hc0, hc63]
          rw [hcc]
          simp only [Bool.false_eq_true, ↓reduceIte, hextra, hD _ extra _ c1, hsize]
          rw [if_neg (by omega)]
          have hk : r.dRangeSize - dd.length = k := by omega
          rw [hk]
          obtain ⟨acc', ha1, ha2⟩ := ih os recs (p + o.dRangeSize) data' ((dd ++ List.replicate k 0) :: acc) mrest lrest c3
          exact ⟨acc', ha1, by rw [ha2]; simp [List.append_assoc]⟩
end WuffsVerif.Rac
